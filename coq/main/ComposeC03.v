From Coq Require Import List ZArith Lia Bool.
Import ListNotations.
Require Import Base Tables Utf8 Tree Rdr Link Collect Html Recog Inl3a Inl3b Inl3c Inl3d Inl3e LP Rules Starts Driver Props.
Require L2Kind2.
Require Import L2CC BSDef BSTree BlockSpans BShDef BlockShapes BlockShapesNul.
Require Import LADef LA1 LA2 LA13 LA14 LAOcp LAInfo LinesAccounted LAFull.
Require Import ShapesBase SpanHypDef SpanHyp InlineSpans CoverLeaves CoverFuel CoverInline.
Require En3Tree En3Drv.
Require Import EntBase EntRdr1 EntOcpDefs En2Tree En2Drv EntDefs En2OK ComposeBase ComposeSpans ComposeSpans2 ComposeCols.
Open Scope Z_scope.

(* ================================================================================================
   T46 (3): property C03 (Props.C03_statement) for whole documents.

   chk_C03_root asks of every root of parseFull input, for every position p of its source:
       cover (leavesB blk) p <= 1                                  (no duplication)
       textual (at_ src p) = true -> cover (leavesB blk) p = 1     (no loss)
   No duplication holds for every input: LAFull.C03_no_dup_partial with ComposeSpans2.parseBlocks_entriesOKroots.
   No loss is composed here from
     - LinesAccounted.no_loss (block layer): a textual byte lies in exactly one span of entryLeaves of the root BEFORE the
       inline pass: an inline entry of a leaf block, a list marker, or a child of a label / destination / title entry of a
       link reference definition;
     - CoverInline.parseInlines_coverage_partial: a textual byte of an Unparsed entry lies in a leaf of the inlines that
       replace the entries of its block, under entriesOK (ComposeSpans2) and colsOK (ComposeCols);
     - the block-layer invariant (ComposeBase.root_facts): a block with Unparsed entries is a paragraph / setext heading,
       whose other entries are Indent entries (one tab byte, not textual), or an ATX heading with a single entry;
     - the shape of the tree (LAFull.la_shapeB): leaf blocks have no block children, containers no inline entries.
   The last link is a fact about the entries that have CHILDREN before the inline pass (Props.leavesB descends into them,
   LADef.entryLeaves does not): the InfoString entry of a fenced code block (its children are Text / CharacterReference
   nodes; the bytes between them are the backslashes of escapes) and the label / destination / title entries of a
   definition (whose children must themselves be leaves).  It is stated as the executable check leafKidsRoots on the
   roots of parseBlocks; C03 is first proved for every input that passes it (C03_partial), then the check is proved of every
   input from the En3 invariant (parseBlocks_leafKids; En3Tree.xk, En3Info.info_spec, En3Ocp.ocpRun_defs), which gives
   C03_full : Props.C03_statement at the end of this file.
   ================================================================================================ *)

(* ---- the residual check ---- *)
Definition kidlessb (u : inline) : bool := match ikids u with [] => true | _ => false end.
(* an entry of a leaf block: either it has no children, or its children are leaves and every textual byte of the entry lies in one of them *)
Definition entryKidsOK (src : bytes) (u : inline) : bool :=
  kidlessb u ||
  (forallb kidlessb (ikids u) &&
   forallb (fun p => negb ((istart u <=? p) && (p <? iend u) && textual (at_ src p)) || (1 <=? cover (map ispan (ikids u)) p)) (range (len src))).
(* an entry of a definition block: its children are leaves *)
Definition defKidsOK (u : inline) : bool := forallb kidlessb (ikids u).
Fixpoint leafKidsB (fuel : nat) (src : bytes) (b : block) : bool :=
  match fuel with
  | O => true
  | S f =>
    (if isLeafK (bkind b) then forallb (entryKidsOK src) (bik b)
     else if bkind b =? LinkReferenceDefinitionKind then forallb defKidsOK (bik b) else true) &&
    forallb (leafKidsB f src) (bkids b)
  end.
Definition leafKidsRoots (roots : list rootB) : bool :=
  forallb (fun r => leafKidsB (bheight (rb_blk r)) (rb_src r) (rb_blk r)) roots.

(* ---- small facts ---- *)
Definition covd (l : list (Z * Z)) (p : Z) : Prop := exists se, In se l /\ inLeaf se p = true.
Lemma covd_flat_map {A} (f : A -> list (Z * Z)) l x p : In x l -> covd (f x) p -> covd (flat_map f l) p.
Proof. intros Hx (se & H1 & H2). exists se. split; [apply in_flat_map; exists x; tauto|exact H2]. Qed.
Lemma covd_flat_map_inv {A} (f : A -> list (Z * Z)) l p : covd (flat_map f l) p -> exists x, In x l /\ covd (f x) p.
Proof. intros (se & H1 & H2). apply in_flat_map in H1. destruct H1 as (x & Hx & Hse). exists x. split; [exact Hx|exists se; tauto]. Qed.
Lemma inLeaf_iff se p : inLeaf se p = true <-> fst se <= p < snd se.
Proof. unfold inLeaf. rewrite andb_true_iff, Z.leb_le, Z.ltb_lt. tauto. Qed.

Lemma In_range p n : In p (range n) <-> 0 <= p < n.
Proof.
  unfold range. rewrite in_map_iff. split.
  - intros (k & <- & Hk). apply in_seq in Hk. lia.
  - intros H. exists (Z.to_nat p). split; [lia|]. apply in_seq. lia.
Qed.

Lemma entryLeaves_eq b : entryLeaves b =
  if isLeafK (bkind b) then map ispan (bik b)
  else if bkind b =? ListMarkerKind then [(bstart b, bend b)]
  else if bkind b =? LinkReferenceDefinitionKind then defSpans (bik b)
  else flat_map entryLeaves (bkids b).
Proof. destruct b; reflexivity. Qed.

Lemma kidlessb_leaves u : kidlessb u = true -> leavesI u = [ispan u].
Proof. destruct u as [k s e i r ks]. unfold kidlessb. cbn [ikids]. destruct ks; [reflexivity|discriminate]. Qed.
Lemma kidless_leaves_map : forall ks, forallb kidlessb ks = true -> flat_map leavesI ks = map ispan ks.
Proof.
  induction ks as [|k r IH]; intros H; [reflexivity|]. cbn [forallb] in H. apply andb_true_iff in H. destruct H as [H1 H2].
  cbn [flat_map map]. rewrite (kidlessb_leaves k H1), (IH H2). reflexivity.
Qed.
Lemma leavesI_kids u : ikids u <> [] -> leavesI u = flat_map leavesI (ikids u).
Proof. destruct u as [k s e i r ks]. cbn [ikids]. destruct ks; [contradiction|reflexivity]. Qed.

(* an Indent entry of `lines` is a tab byte *)
Lemma lines_tab B E : forall ik u, lines B E ik -> In u ik -> ikind u = IndentKind -> iend u = istart u + 1 /\ at_ B (istart u) = 9.
Proof.
  induction ik as [|v r IH]; intros u H Hin Hk; [destruct Hin|]. destruct H as (A & _ & A2). destruct Hin as [<-|Hin]; [|apply IH; assumption].
  destruct A as [(B1 & _)|[(B1 & B2 & B3 & B4 & B5 & B6) _]]; [rewrite B1 in Hk; discriminate|]. split; assumption.
Qed.

Section Root.
  Variables (B pre src pre' raw : bytes) (M Ml n : Z) (refs : list bytes).
  Hypothesis Hn : 0 <= n <= len B.
  Hypothesis Epre : pre = upto B n.
  Hypothesis Esrc : src = fillNulls pre.
  Hypothesis Htri : tri pre.
  Hypothesis Lp' : len pre' = n.

  (* a block the inline parser runs on: a textual byte inside one of its entries lies in a leaf of the new inlines *)
  Lemma leafU_cov b : facts B pre' M b -> isLeafU b = true -> entriesOKX src b = true -> colsOK src (bik b) = true ->
    forall u p, In u (bik b) -> istart u <= p < iend u -> textual (at_ src p) = true ->
    covd (flat_map leavesI (parseInlines src refs b)) p.
  Proof.
    intros Hf Hl Hok Hc u p Hu Hp Ht. unfold isLeafU in Hl. apply andb_true_iff in Hl. destruct Hl as [_ Hun].
    assert (Ek : ikind u = UnparsedKind).
    { destruct (leaf_cases B pre' M n Lp' b Hf Hun) as (S1 & S2 & S3 & [(HK & HL & Hlo)|(HK & a & t & E & _)]).
      - destruct (lines_entry B _ _ u HL Hu) as (E1 & E2 & E3 & _ & [Ku|Ku]); [exact Ku|]. exfalso.
        destruct (lines_tab B _ _ u HL Hu Ku) as [T1 T2]. assert (Ep : p = istart u) by lia. subst p.
        pose proof (src_simz B pre src n Epre Esrc Htri (istart u) ltac:(lia)) as Hs.
        rewrite (simz_eq _ _ 9 Hs T2 ltac:(discriminate)) in Ht. discriminate.
      - rewrite E in Hu. destruct Hu as [<-|[]]. reflexivity. }
    rewrite entriesOKX_eq in Hok.
    pose proof (parseInlines_coverage_partial src refs b Hok Hc u Hu Ek p Hp Ht) as H1.
    apply cover_pos. lia.
  Qed.

  Lemma cov_post : forall fuel b, (bheight b <= fuel)%nat -> cc b = true -> 0 <= bend b -> la raw Ml b -> facts B pre' M b ->
    entriesOKB fuel src b = true -> colsOKB fuel src b = true -> leafKidsB fuel src b = true ->
    forall p, 0 <= p < len src -> textual (at_ src p) = true -> covd (entryLeaves b) p -> covd (leavesB (rewriteB fuel src refs b)) p.
  Proof.
    induction fuel as [|f IH]; intros b Hh Hcc He Hla Hf Hok Hcol Hkid p Hpl Ht Hcv; [pose proof (bheight_pos b); lia|].
    destruct (la_shapeB raw Ml b Hcc He Hla) as (S1 & S2 & S3 & S4).
    cbn [entriesOKB colsOKB leafKidsB rewriteB] in *. apply andb_true_iff in Hkid. destruct Hkid as [Hk1 Hk2].
    change ((0 <? len (bik b)) && hasUnparsed b) with (isLeafU b). rewrite entryLeaves_eq in Hcv.
    destruct (isLeafU b) eqn:El.
    - (* the inline parser runs on b *)
      assert (Hun : hasUnparsed b = true) by (unfold isLeafU in El; apply andb_true_iff in El; tauto).
      assert (HLK : isLeafK (bkind b) = true).
      { destruct (leaf_cases B pre' M n Lp' b Hf Hun) as (_ & _ & _ & [([HK|HK] & _)|(HK & _)]); rewrite HK; reflexivity. }
      rewrite HLK in Hcv. destruct Hcv as (se & Hin & Hse). apply in_map_iff in Hin. destruct Hin as (u & <- & Hu). apply inLeaf_iff in Hse. cbn [ispan fst snd] in Hse.
      pose proof (leafU_cov b Hf El Hok Hcol u p Hu Hse Ht) as Hc.
      assert (Hne : bik b <> []) by (intros N; rewrite N in Hu; destruct Hu). specialize (S4 Hne).
      rewrite leavesB_eq. destruct b as [K s e bk ik a nn c l lb]. cbn [set_bik bkids bik bkind bstart bend] in *. subst bk.
      destruct (parseInlines src refs (Blk K s e [] ik a nn c l lb)) as [|k0 kr] eqn:Eks; [destruct Hc as (x & [] & _)|exact Hc].
    - destruct (bkids b) as [|c0 cr] eqn:Ek.
      + (* no block children: the block is unchanged *)
        cbn [map]. replace (set_bkids b []) with b by (destruct b; cbn [bkids set_bkids] in *; subst; reflexivity).
        rewrite leavesB_eq, Ek. destruct (isLeafK (bkind b)) eqn:HLK.
        * destruct Hcv as (se & Hin & Hse). apply in_map_iff in Hin. destruct Hin as (u & <- & Hu).
          destruct (bik b) as [|u0 ur] eqn:Ei; [destruct Hu|]. rewrite <- Ei in *. apply (covd_flat_map leavesI _ u p Hu).
          rewrite forallb_forall in Hk1. specialize (Hk1 u Hu). unfold entryKidsOK in Hk1. apply orb_true_iff in Hk1. destruct Hk1 as [Hk1|Hk1].
          { rewrite (kidlessb_leaves u Hk1). exists (ispan u). split; [left; reflexivity|exact Hse]. }
          apply andb_true_iff in Hk1. destruct Hk1 as [K1 K2]. rewrite forallb_forall in K2. specialize (K2 p (proj2 (In_range p (len src)) Hpl)).
          apply inLeaf_iff in Hse. cbn [ispan fst snd] in Hse.
          replace ((istart u <=? p) && (p <? iend u) && textual (at_ src p)) with true in K2
            by (symmetry; rewrite Ht, andb_true_r; apply andb_true_iff; split; [apply Z.leb_le|apply Z.ltb_lt]; lia).
          cbn [negb orb] in K2. apply Z.leb_le in K2. apply cover_pos in K2.
          destruct (ikids u) as [|k0 kr] eqn:Eku; [destruct K2 as (x & [] & _)|]. rewrite <- Eku in *.
          rewrite leavesI_kids by (rewrite Eku; discriminate). rewrite (kidless_leaves_map _ K1). exact K2.
        * destruct (bkind b =? ListMarkerKind) eqn:ELM.
          { rewrite la_eq in Hla. destruct Hla as (_ & _ & _ & Hb & _). unfold body in Hb. rewrite HLK, ELM in Hb. destruct Hb as [_ Hb]. rewrite Hb. exact Hcv. }
          destruct (bkind b =? LinkReferenceDefinitionKind) eqn:ELR.
          { unfold defSpans in Hcv. apply covd_flat_map_inv in Hcv. destruct Hcv as (u & Hu & (se & Hin & Hse)).
            apply in_map_iff in Hin. destruct Hin as (k & <- & Hk).
            destruct (bik b) as [|u0 ur] eqn:Ei; [destruct Hu|]. rewrite <- Ei in *. apply (covd_flat_map leavesI _ u p Hu).
            rewrite forallb_forall in Hk1. specialize (Hk1 u Hu). unfold defKidsOK in Hk1.
            rewrite leavesI_kids by (intros N; rewrite N in Hk; destruct Hk). rewrite (kidless_leaves_map _ Hk1).
            exists (ispan k). split; [apply in_map, Hk|exact Hse]. }
          cbn [flat_map] in Hcv. destruct Hcv as (x & [] & _).
      + (* block children *)
        destruct (S3 ltac:(discriminate)) as [Eik Htc].
        assert (HC : isContK (bkind b) = true).
        { destruct (isContK (bkind b)) eqn:X; [reflexivity|]. pose proof (leaf_no_kids b Hcc X) as N. rewrite Ek in N. discriminate. }
        unfold isContK in HC. apply andb_true_iff in HC. destruct HC as [HC C3]. apply andb_true_iff in HC. destruct HC as [C1 C2].
        apply negb_true_iff in C1, C2, C3. rewrite C1, C2, C3 in Hcv.
        apply covd_flat_map_inv in Hcv. destruct Hcv as (c & Hc & Hcc').
        assert (Hc' : In c (bkids b)) by (rewrite Ek; exact Hc).
        destruct (la_kids_ok raw Ml b Hcc He Hla ltac:(rewrite Ek; discriminate) c Hc') as (K1 & K2 & K3).
        rewrite forallb_forall in Hok, Hcol, Hk2.
        pose proof (IH c ltac:(pose proof (bheight_kid' b c Hc'); lia) K1 K2 K3 (facts_kids B pre' M b c Hf Hc') (Hok c Hc) (Hcol c Hc) (Hk2 c Hc) p Hpl Ht Hcc') as Hr.
        rewrite leavesB_eq.
        assert (Ebk : bkids (set_bkids b (map (rewriteB f src refs) (c0 :: cr))) = map (rewriteB f src refs) (c0 :: cr)) by (destruct b; reflexivity).
        rewrite Ebk. cbn [map]. change (rewriteB f src refs c0 :: map (rewriteB f src refs) cr) with (map (rewriteB f src refs) (c0 :: cr)).
        rewrite flat_map_map. apply (covd_flat_map (fun x => leavesB (rewriteB f src refs x)) _ c p Hc Hr).
  Qed.
End Root.

(* ---- C03 for every input that passes the residual check ---- *)
Theorem C03_partial : forall input, leafKidsRoots (fst (parseBlocks input)) = true -> forallb chk_C03_root (fst (parseFull input)) = true.
Proof.
  intros input HK.
  pose proof (C03_no_dup_partial input (parseBlocks_entriesOKroots input)) as Hdup.
  pose proof (no_loss input) as Hloss.
  pose proof (parseBlocks_rootLA (fun _ => True) (fun src _ => OcpLoopSpec_all src) (fun _ _ _ => I) (fun _ _ _ => I) input I) as HR.
  pose proof (parseBlocks_entriesOKroots input) as Hok. pose proof (parseBlocks_colsOK input) as Hcol.
  pose proof (root_facts input) as Hrf.
  unfold parseFull in *. destruct (parseBlocks input) as [roots code]. cbn [fst] in *.
  set (refs := fold_left (fun a r => extractB (bheight (rb_blk r)) (rb_blk r) a) roots []) in *.
  apply forallb_forall. intros r Hr. pose proof Hr as Hr'. apply in_map_iff in Hr'. destruct Hr' as (r0 & Er & Hr0).
  rewrite Forall_forall in Hdup, Hloss, HR. specialize (Hdup r Hr). subst r. unfold chk_C03_root. cbn [rb_blk rb_src] in *.
  apply forallb_forall. intros p Hp. apply In_range in Hp.
  apply andb_true_iff. split; [apply Z.leb_le, Hdup|].
  destruct (textual (at_ (rb_src r0) p)) eqn:Ht; [|reflexivity]. apply Z.eqb_eq.
  enough (1 <= cover (leavesB (rewriteB (bheight (rb_blk r0)) (rb_src r0) refs (rb_blk r0))) p) by (specialize (Hdup p); lia).
  apply cover_pos.
  destruct (HR r0 Hr0) as (raw & _ & _ & _ & E2 & Hcc & Hla & _).
  destruct (Hrf r0 Hr0) as (B & pre' & M & Hn & Es & Htr & Lp & Hf).
  unfold entriesOKroots, colsOKroots, leafKidsRoots in *. rewrite forallb_forall in Hok, Hcol, HK.
  apply (cov_post B (upto B (bend (rb_blk r0))) (rb_src r0) pre' raw M (len raw) (bend (rb_blk r0)) refs Hn eq_refl Es Htr Lp
           (bheight (rb_blk r0)) (rb_blk r0) (le_n _) Hcc ltac:(lia) Hla Hf (Hok r0 Hr0) (Hcol r0 Hr0) (HK r0 Hr0) p Hp Ht).
  apply cover_pos. rewrite (Hloss r0 Hr0 p Hp Ht). lia.
Qed.
Print Assumptions C03_partial.

(* ================================================================================================
   The residual check holds for every input.
   The En3 invariant (En3Tree.xk, see En3Tree.ikOK) records of every fenced code block that an entry with children (its
   InfoString, En3Info.info_spec) has leaves as children which hold every textual or NUL byte of the entry, and of every link
   reference definition block that the children of its entries are leaves (En3Ocp.ocpRun_defs); L2Kind2.inv says that the
   entries of the other leaf blocks have no children.
   ================================================================================================ *)
Lemma ek_kids K u : L2Kind2.ek K u = true -> ikids u <> [] -> K = FencedCodeBlockKind \/ K = LinkReferenceDefinitionKind.
Proof.
  unfold L2Kind2.ek, L2Kind2.kidless. cbv zeta. intros H Hk. destruct (ikids u) as [|k0 kr]; [contradiction|].
  destruct (ikind u =? UnparsedKind); [discriminate|]. destruct ((ikind u =? TextKind) || (ikind u =? SoftLineBreakKind)); [discriminate|].
  destruct ((ikind u =? RawHTMLKind) || (ikind u =? IndentKind)); [discriminate|].
  destruct (ikind u =? InfoStringKind); [left; apply Z.eqb_eq, H|]. apply andb_true_iff in H. destruct H as [_ H]. right. apply Z.eqb_eq, H.
Qed.
Lemma kidsLeaf_b u : En3Tree.kidsLeaf u -> forallb kidlessb (ikids u) = true.
Proof. intros H. apply forallb_forall. intros k Hk. unfold kidlessb. rewrite (H k Hk). reflexivity. Qed.
Lemma simz_txz a b : simz a b -> textual b = true -> En3Tree.txz a = true.
Proof.
  unfold En3Tree.txz. intros [[[N ->]|[-> _]]|[-> _]] H; [rewrite H; reflexivity|reflexivity|reflexivity].
Qed.

Section Root3.
  Variables (B pre src : bytes) (M n : Z).
  Hypothesis Hn : 0 <= n <= len B.
  Hypothesis Epre : pre = upto B n.
  Hypothesis Esrc : src = fillNulls pre.
  Hypothesis Htri : tri pre.

  Lemma info_entry u : En3Tree.infoC B u -> entryKidsOK src u = true.
  Proof.
    intros (I1 & I2 & I3 & I4). unfold entryKidsOK. apply orb_true_iff. right. apply andb_true_iff. split; [apply kidsLeaf_b, I1|].
    apply forallb_forall. intros p Hp. apply In_range in Hp. rewrite (src_len B pre src n Hn Epre Esrc) in Hp.
    destruct ((istart u <=? p) && (p <? iend u) && textual (at_ src p)) eqn:E; [|reflexivity]. cbn [negb orb].
    apply andb_true_iff in E. destruct E as [E Et]. apply andb_true_iff in E. destruct E as [E1 E2]. apply Z.leb_le in E1. apply Z.ltb_lt in E2.
    pose proof (simz_txz _ _ (src_simz B pre src n Epre Esrc Htri p Hp) Et) as Hz.
    destruct (I4 p ltac:(lia) Hz) as (k & Hk & Hkp). apply Z.leb_le, cover_pos. exists (ispan k). split; [apply in_map, Hk|].
    apply inLeaf_iff. cbn [ispan fst snd]. exact Hkp.
  Qed.

  Lemma root_leafKids : forall fuel b, En3Tree.en B M b -> L2Kind2.inv b = true -> leafKidsB fuel src b = true.
  Proof.
    induction fuel as [|f IH]; intros b He Hi; [reflexivity|]. cbn [leafKidsB].
    pose proof (En3Tree.en_xk B M b He) as [X1 X2].
    destruct b as [K s e bk ik a nn c l lb]. cbn [bkind bstart bik bkids] in *. cbn [L2Kind2.inv] in Hi. apply andb_true_iff in Hi. destruct Hi as [Hek Hik].
    apply andb_true_iff. split.
    - destruct (isLeafK K) eqn:HLK.
      + apply forallb_forall. intros u Hu. rewrite forallb_forall in Hek. specialize (Hek u Hu).
        destruct (ikids u) as [|k0 kr] eqn:Eku; [unfold entryKidsOK, kidlessb; rewrite Eku; reflexivity|].
        assert (Hne : ikids u <> []) by (rewrite Eku; discriminate).
        destruct (ek_kids K u Hek Hne) as [EK|EK]; [|rewrite EK in HLK; discriminate].
        destruct (X1 EK u Hu Hne) as [_ Hinfo]. apply info_entry, Hinfo.
      + destruct (Z.eqb_spec K LinkReferenceDefinitionKind) as [EK|NK]; [|reflexivity].
        apply forallb_forall. intros u Hu. unfold defKidsOK. apply kidsLeaf_b, (X2 EK u Hu).
    - apply forallb_forall. intros x Hx. cbn [En3Tree.en] in He. destruct He as (_ & C). rewrite forallb_forall in Hik.
      apply IH; [eapply allP_In; eassumption|apply Hik, Hx].
  Qed.
End Root3.

Theorem parseBlocks_leafKids : forall input, leafKidsRoots (fst (parseBlocks input)) = true.
Proof.
  intros input. unfold leafKidsRoots. apply forallb_forall. intros r Hr.
  pose proof (En3Drv.parseBlocks_okRE input) as H1. pose proof (L2Kind2.parseBlocks_kinds input) as H3. rewrite Forall_forall in *.
  destruct (H1 r Hr) as (B & M & Hn & Es & He & Ht).
  apply (root_leafKids B (upto B (bend (rb_blk r))) (rb_src r) M (bend (rb_blk r)) Hn eq_refl Es Ht); [exact He|exact (H3 r Hr)].
Qed.
Print Assumptions parseBlocks_leafKids.

(* ---- C03, for every input ---- *)
Theorem C03_full : C03_statement.
Proof. intros input. apply C03_partial, parseBlocks_leafKids. Qed.
Print Assumptions C03_full.
