From Coq Require Import List ZArith Lia Bool.
Import ListNotations.
Require Import Base Tree Rdr Link Collect Html Recog LP Rules Starts Driver EolCRDefs.
Open Scope Z_scope.

(* C14 (ii), CR clause: the byte-level functions (Base, Recog, Driver line splitting, LP cursor helpers,
   parseCharacterEscape) do not distinguish an input from its LF->CR image. *)

Definition noEolB (l : bytes) : Prop := Forall (fun c => c <> 10 /\ c <> 13) l.

(* ---------- byte facts ---------- *)
Lemma bR_iseol c c' : bR c c' -> (c' =? 10) || (c' =? 13) = (c =? 10) || (c =? 13).
Proof.
  intros H. destruct (bR_eol _ _ H) as (E1 & E2 & E3). rewrite E1, E2, E3, orb_false_r. reflexivity.
Qed.
Lemma bR_iseol' c c' : bR c c' -> (c' =? 13) || (c' =? 10) = (c =? 13) || (c =? 10).
Proof.
  intros H. destruct (bR_eol _ _ H) as (E1 & E2 & E3). rewrite E1, E2, E3, orb_false_r. reflexivity.
Qed.
Lemma toLower_noeol p : p <> 10 -> p <> 13 -> toLowerASCII p <> 10 /\ toLowerASCII p <> 13.
Proof.
  intros A B. unfold toLowerASCII. destruct ((65 <=? p) && (p <=? 90)) eqn:E; [|split; assumption].
  apply andb_true_iff in E. destruct E as [E1 E2]. apply Z.leb_le in E1. apply Z.leb_le in E2. lia.
Qed.
Lemma at_nonzero_bounds (l : bytes) e : at_ l e <> 0 -> 0 <= e < len l.
Proof.
  unfold at_, len. intros H. destruct (Z.ltb_spec e 0) as [L|L]; [congruence|].
  split; [exact L|]. destruct (Z_lt_le_dec e (Z.of_nat (length l))) as [G|G]; [exact G|].
  exfalso. apply H. apply nth_overflow. lia.
Qed.
Lemma at_from_ (l : bytes) n j : 0 <= n -> 0 <= j -> at_ (from_ l n) j = at_ l (n + j).
Proof.
  intros Hn Hj. unfold at_, from_. destruct (Z.ltb_spec j 0) as [L|L]; [lia|].
  destruct (Z.ltb_spec (n + j) 0) as [L2|L2]; [lia|].
  replace (Z.to_nat (n + j)) with (Z.to_nat n + Z.to_nat j)%nat by lia.
  generalize (Z.to_nat n) (Z.to_nat j). clear. intros a b. revert l. induction a as [|a IH]; intros l; [reflexivity|].
  destruct l as [|x l]; [destruct b; reflexivity|]. cbn [skipn Nat.add nth]. apply IH.
Qed.

Lemma cr_countWhile (p : Z -> bool) a b : (forall c c', bR c c' -> p c' = p c) -> crRel a b ->
  countWhile p b = countWhile p a.
Proof.
  intros Hp H. induction H as [|x y a b Hxy H IH]; [reflexivity|]. cbn [countWhile].
  rewrite (Hp _ _ Hxy), IH. reflexivity.
Qed.

(* ---------- Base.v ---------- *)
Lemma cr_isBlankLine a b : crRel a b -> isBlankLine b = isBlankLine a.
Proof.
  intros H. unfold isBlankLine. induction H as [|x y a b Hxy H IH]; [reflexivity|]. cbn [forallb].
  rewrite (cr_isSTLE _ _ Hxy), IH. reflexivity.
Qed.
Lemma cr_htsp a b : crRel a b -> hasTabOrSpacePrefixOrEOL b = hasTabOrSpacePrefixOrEOL a.
Proof.
  intros H. destruct H as [|x y a b Hxy H]; [reflexivity|]. cbn [hasTabOrSpacePrefixOrEOL]. apply cr_isSTLE, Hxy.
Qed.
Lemma cr_indentLength a b : crRel a b -> indentLength b = indentLength a.
Proof.
  intros H. induction H as [|x y a b Hxy H IH]; [reflexivity|]. cbn [indentLength].
  rewrite (cr_isSpTab _ _ Hxy), IH. reflexivity.
Qed.
Lemma cr_trimLeftSpTab a b : crRel a b -> crRel (trimLeftSpTab a) (trimLeftSpTab b).
Proof.
  intros H. induction H as [|x y a b Hxy H IH]; [constructor|]. cbn [trimLeftSpTab].
  rewrite (cr_isSpTab _ _ Hxy). destruct (isSpTab x); [exact IH|]. constructor; assumption.
Qed.
Lemma cr_hasBytePrefix a b pre : crRel a b -> noEolB pre -> hasBytePrefix b pre = hasBytePrefix a pre.
Proof.
  intros H Hp. revert a b H. induction Hp as [|p ps [P1 P2] Hps IH]; intros a b H.
  - destruct H as [|x y a b Hxy H]; reflexivity.
  - destruct H as [|x y a b Hxy H]; [reflexivity|]. cbn [hasBytePrefix].
    rewrite (Z.eqb_sym p y), (Z.eqb_sym p x), (bR_eqb _ _ p Hxy P1 P2), (IH _ _ H). reflexivity.
Qed.
Lemma cr_hasCIPrefix a b pre : crRel a b -> noEolB pre -> hasCIPrefix b pre = hasCIPrefix a pre.
Proof.
  intros H Hp. revert a b H. induction Hp as [|p ps [P1 P2] Hps IH]; intros a b H.
  - destruct H as [|x y a b Hxy H]; reflexivity.
  - destruct H as [|x y a b Hxy H]; [reflexivity|]. cbn [hasCIPrefix].
    destruct (toLower_noeol p P1 P2) as [Q1 Q2].
    rewrite (Z.eqb_sym (toLowerASCII p) (toLowerASCII y)), (Z.eqb_sym (toLowerASCII p) (toLowerASCII x)),
      (bR_eqb _ _ (toLowerASCII p) (cr_toLower _ _ Hxy) Q1 Q2), (IH _ _ H). reflexivity.
Qed.
Lemma cr_contains_from (pre : bytes -> bytes -> bool) s :
  (forall a b, crRel a b -> pre b s = pre a s) ->
  forall k a b, crRel a b -> contains_from pre b s k = contains_from pre a s k.
Proof.
  intros Hpre. induction k as [|k IH]; intros a b H; [destruct H; reflexivity|].
  pose proof (Hpre _ _ H) as Hp. destruct H as [|x y a b Hxy H]; [reflexivity|]. cbn [contains_from].
  rewrite Hp, (IH _ _ H). reflexivity.
Qed.
Lemma cr_contains a b s : crRel a b -> noEolB s -> contains b s = contains a s.
Proof.
  intros H Hs. unfold contains. rewrite (crRel_len _ _ H). apply cr_contains_from; [|exact H].
  intros a' b' H'. apply cr_hasBytePrefix; assumption.
Qed.
Lemma cr_containsCI a b s : crRel a b -> noEolB s -> containsCI b s = containsCI a s.
Proof.
  intros H Hs. unfold containsCI. rewrite (crRel_len _ _ H). apply cr_contains_from; [|exact H].
  intros a' b' H'. apply cr_hasCIPrefix; assumption.
Qed.
Lemma cr_hasByteSuffixEOL a b : crRel a b -> hasByteSuffixEOL b = hasByteSuffixEOL a.
Proof.
  intros H. induction H as [|x y a b Hxy H IH]; [reflexivity|].
  destruct H as [|x2 y2 a b Hxy2 H].
  - cbn [hasByteSuffixEOL]. apply bR_iseol, Hxy.
  - change (hasByteSuffixEOL (y :: y2 :: b)) with (hasByteSuffixEOL (y2 :: b)).
    change (hasByteSuffixEOL (x :: x2 :: a)) with (hasByteSuffixEOL (x2 :: a)). exact IH.
Qed.
Lemma cr_columnEnd a b : crRel a b -> forall e, columnEnd e b = columnEnd e a.
Proof.
  intros H. induction H as [|x y a b Hxy H IH]; intros e; [reflexivity|]. cbn [columnEnd]. rewrite IH.
  bRcases Hxy.
Qed.
Lemma cr_columnWidth a b s : crRel a b -> columnWidth s b = columnWidth s a.
Proof. intros H. unfold columnWidth. rewrite (cr_columnEnd _ _ H). reflexivity. Qed.

Lemma tbs_non92 c u : c <> 92 -> trailingBackslashes (c :: u) = 0.
Proof. intros Hc. destruct c as [|q|q]; try reflexivity. do 7 (destruct q as [q|q|]; try reflexivity). congruence. Qed.
Lemma tbs_cons c t : trailingBackslashes (c :: t) = if c =? 92 then 1 + trailingBackslashes t else 0.
Proof. destruct (Z.eqb_spec c 92) as [->|N]; [reflexivity|apply tbs_non92, N]. Qed.
Lemma cr_trailingBackslashes a b : crRel a b -> trailingBackslashes b = trailingBackslashes a.
Proof.
  intros H. induction H as [|x y a b Hxy H IH]; [reflexivity|]. rewrite !tbs_cons.
  rewrite (bR_eqb _ _ 92 Hxy) by discriminate. rewrite IH. reflexivity.
Qed.
Lemma cr_isEndEscaped a b : crRel a b -> isEndEscaped b = isEndEscaped a.
Proof. intros H. unfold isEndEscaped. rewrite (cr_trailingBackslashes _ _ (crRel_rev _ _ H)). reflexivity. Qed.
Lemma cr_existsb_eq a b k : crRel a b -> k <> 10 -> k <> 13 ->
  existsb (fun c => c =? k) b = existsb (fun c => c =? k) a.
Proof.
  intros H A B. induction H as [|x y a b Hxy H IH]; [reflexivity|]. cbn [existsb].
  rewrite (bR_eqb _ _ k Hxy A B), IH. reflexivity.
Qed.

(* ---------- Recog.v ---------- *)
Lemma cr_tb_loop a b : crRel a b -> forall i n want e, tb_loop b i n want e = tb_loop a i n want e.
Proof.
  intros H. induction H as [|x y a b Hxy H IH]; intros i n want e; [reflexivity|]. cbn [tb_loop].
  rewrite (bR_eqb _ _ 45 Hxy) by discriminate. rewrite (bR_eqb _ _ 95 Hxy) by discriminate.
  rewrite (bR_eqb _ _ 42 Hxy) by discriminate. rewrite (cr_isSTLE _ _ Hxy).
  destruct ((x =? 45) || (x =? 95) || (x =? 42)) eqn:E.
  - assert (Eq : y = x) by (apply (bR_same_if _ _ Hxy); intros E10; rewrite E10 in E; discriminate E).
    rewrite Eq. rewrite !IH. reflexivity.
  - rewrite IH. reflexivity.
Qed.
Lemma cr_parseThematicBreak a b : crRel a b -> parseThematicBreak b = parseThematicBreak a.
Proof. intros H. unfold parseThematicBreak. apply cr_tb_loop, H. Qed.

Lemma cr_atx_scanBack a b : crRel a b -> forall fuel start e,
  atx_scanBack fuel b start e = atx_scanBack fuel a start e.
Proof.
  intros H. induction fuel as [|f IH]; intros start e; [reflexivity|]. cbn [atx_scanBack]. cbv zeta.
  pose proof (crRel_at a b (e - 1) H) as Hc.
  rewrite (bR_iseol' _ _ Hc), (cr_isSpTab _ _ Hc), (cr_isEndEscaped _ _ (crRel_upto _ _ (e - 1) H)).
  rewrite (bR_eqb _ _ 35 Hc) by discriminate. rewrite !IH. reflexivity.
Qed.
Lemma cr_atx_trailing a b : crRel a b -> forall fuel start i,
  atx_trailing fuel b start i = atx_trailing fuel a start i.
Proof.
  intros H. induction fuel as [|f IH]; intros start i; [reflexivity|]. cbn [atx_trailing]. cbv zeta.
  pose proof (crRel_at a b i H) as Hc.
  rewrite (cr_isSpTab _ _ Hc). rewrite (bR_eqb _ _ 35 Hc) by discriminate. rewrite !IH. reflexivity.
Qed.
Lemma cr_atx_trim a b : crRel a b -> forall fuel start e,
  atx_trim fuel b start e = atx_trim fuel a start e.
Proof.
  intros H. induction fuel as [|f IH]; intros start e; [reflexivity|]. cbn [atx_trim]. cbv zeta.
  pose proof (crRel_at a b (e - 1) H) as Hc.
  rewrite (cr_isSpTab _ _ Hc), (cr_isEndEscaped _ _ (crRel_upto _ _ (e - 1) H)), !IH. reflexivity.
Qed.
Lemma cr_parseATXHeading a b : crRel a b -> parseATXHeading b = parseATXHeading a.
Proof.
  intros H. unfold parseATXHeading. cbv zeta.
  assert (H35 : forall c c', bR c c' -> (c' =? 35) = (c =? 35))
    by (intros c c' Hc; apply bR_eqb; [exact Hc|discriminate|discriminate]).
  rewrite (cr_countWhile (fun c => c =? 35) a b H35 H).
  set (lv := countWhile (fun c => c =? 35) a).
  rewrite (crRel_len _ _ H), (crRel_length _ _ H).
  pose proof (crRel_at a b lv H) as Hc.
  destruct (bR_eol _ _ Hc) as (E1 & E2 & E3). rewrite E1, E2, E3, (cr_isSpTab _ _ Hc).
  rewrite (cr_countWhile isSpTab _ _ cr_isSpTab (crRel_from _ _ (lv + 1) H)).
  replace ((len a <=? lv) || false || (at_ a lv =? 10)) with ((len a <=? lv) || (at_ a lv =? 10) || false)
    by (rewrite !orb_false_r; reflexivity).
  destruct ((len a <=? lv) || (at_ a lv =? 10) || false); [reflexivity|].
  destruct ((lv =? 0) || (6 <? lv)); [reflexivity|].
  destruct (negb (isSpTab (at_ a lv))); [reflexivity|].
  rewrite (cr_atx_scanBack _ _ H).
  destruct (atx_scanBack (S (length a)) a (lv + 1 + countWhile isSpTab (from_ a (lv + 1))) (len a)) as [e1 hit].
  destruct (negb hit); [reflexivity|].
  rewrite (cr_atx_trailing _ _ H).
  destruct (atx_trailing (S (length a)) a (lv + 1 + countWhile isSpTab (from_ a (lv + 1))) (e1 - 1)) as [e2 mode].
  rewrite (cr_atx_trim _ _ H). reflexivity.
Qed.

Lemma cr_setext_loop c0 level : c0 <> 10 -> c0 <> 13 -> forall a b, crRel a b ->
  setext_loop b c0 level = setext_loop a c0 level.
Proof.
  intros A B a b H. induction H as [|x y a b Hxy H IH]; [reflexivity|]. cbn [setext_loop].
  rewrite (bR_eqb _ _ c0 Hxy A B), IH.
  rewrite (cr_isBlankLine (x :: a) (y :: b)) by (constructor; assumption). reflexivity.
Qed.
Lemma cr_parseSetext a b : crRel a b -> parseSetextHeadingUnderline b = parseSetextHeadingUnderline a.
Proof.
  intros H. destruct H as [|x y a b Hxy H]; [reflexivity|]. cbn [parseSetextHeadingUnderline].
  destruct (bR_cases _ _ Hxy) as [[E1 E2]|(E1 & A & B)].
  - rewrite E1, E2. reflexivity.
  - rewrite E1. rewrite !(cr_setext_loop x _ A B a b H). reflexivity.
Qed.

Lemma cr_firstNonWs a b : crRel a b -> forall i, firstNonWs b i = firstNonWs a i.
Proof.
  intros H. induction H as [|x y a b Hxy H IH]; intros i; [reflexivity|]. cbn [firstNonWs].
  rewrite (cr_isSTLE _ _ Hxy), IH. reflexivity.
Qed.
Lemma cr_trimEndWs a b : crRel a b -> forall fuel start e, trimEndWs fuel b start e = trimEndWs fuel a start e.
Proof.
  intros H. induction fuel as [|f IH]; intros start e; [reflexivity|]. cbn [trimEndWs].
  rewrite (cr_isSTLE _ _ (crRel_at a b (e - 1) H)), IH. reflexivity.
Qed.
Lemma pcf_none c0 r : (c0 =? 96) || (c0 =? 126) = false -> parseCodeFence (c0 :: r) = (0, 0, -1, -1).
Proof. intros E. unfold parseCodeFence. rewrite E. cbn [negb]. rewrite orb_true_r. reflexivity. Qed.
Lemma cr_parseCodeFence a b : crRel a b -> parseCodeFence b = parseCodeFence a.
Proof.
  intros H. destruct H as [|x y a b Hxy H]; [reflexivity|].
  destruct (bR_cases _ _ Hxy) as [[E1 E2]|(E1 & A & B)].
  - rewrite E1, E2. rewrite !pcf_none by reflexivity. reflexivity.
  - rewrite E1. assert (HL : crRel (x :: a) (x :: b)) by (constructor; [rewrite <- E1 at 2; exact Hxy|exact H]).
    unfold parseCodeFence. cbv zeta.
    rewrite (cr_countWhile (fun c => c =? x) (x :: a) (x :: b) (fun c c' Hc => bR_eqb c c' x Hc A B) HL).
    set (n := countWhile (fun c => c =? x) (x :: a)).
    rewrite (crRel_len _ _ HL), (crRel_length _ _ HL).
    rewrite (cr_firstNonWs _ _ (crRel_from _ _ n HL)).
    set (is := firstNonWs (from_ (x :: a) n) n).
    rewrite (cr_trimEndWs _ _ HL).
    set (ie := trimEndWs (S (length (x :: a))) (x :: a) is (len (x :: a))).
    rewrite (cr_existsb_eq _ _ 96 (crRel_sub _ _ is ie HL)) by discriminate. reflexivity.
Qed.

Lemma cr_lm_digits a b : crRel a b -> forall fuel i n, lm_digits fuel b i n = lm_digits fuel a i n.
Proof.
  intros H. induction fuel as [|f IH]; intros i n; [reflexivity|]. cbn [lm_digits]. cbv zeta.
  rewrite (crRel_len _ _ H). pose proof (crRel_at a b i H) as Hc.
  destruct (bR_cases _ _ Hc) as [[E1 E2]|(E1 & A & B)].
  - rewrite E1, E2. destruct ((10 <=? i) || (len a <=? i)); reflexivity.
  - rewrite E1, IH, (cr_htsp _ _ (crRel_from _ _ (i + 1) H)). reflexivity.
Qed.
Lemma cr_parseListMarker a b : crRel a b -> parseListMarker b = parseListMarker a.
Proof.
  intros H. destruct H as [|x y a b Hxy H]; [reflexivity|]. unfold parseListMarker.
  destruct (bR_cases _ _ Hxy) as [[E1 E2]|(E1 & A & B)].
  - rewrite E1, E2. reflexivity.
  - rewrite E1. assert (HL : crRel (x :: a) (x :: b)) by (constructor; [rewrite <- E1 at 2; exact Hxy|exact H]).
    rewrite (cr_htsp _ _ H), (cr_lm_digits _ _ HL). reflexivity.
Qed.

(* ---------- Driver.v / LP.v ---------- *)
Lemma cr_findEol a b : crRel a b -> forall i, findEol b i = findEol a i.
Proof.
  intros H. induction H as [|x y a b Hxy H IH]; intros i; [reflexivity|]. cbn [findEol].
  rewrite (bR_iseol _ _ Hxy), IH. reflexivity.
Qed.
(* where findEol stops there is an ending byte *)
Lemma findEol_spec : forall l i, 0 <= i ->
  findEol l i = -1 \/ (i <= findEol l i /\ (at_ l (findEol l i - i) = 10 \/ at_ l (findEol l i - i) = 13)).
Proof.
  induction l as [|c r IH]; intros i Hi; [left; reflexivity|]. cbn [findEol].
  destruct ((c =? 10) || (c =? 13)) eqn:E.
  - right. split; [lia|]. replace (i - i) with 0 by lia. change (at_ (c :: r) 0) with c.
    apply orb_true_iff in E. destruct E as [E|E]; apply Z.eqb_eq in E; [left|right]; exact E.
  - destruct (IH (i + 1)) as [N|[L P]]; [lia|left; exact N|]. right. split; [lia|].
    assert (S : forall k, 1 <= k -> at_ (c :: r) k = at_ r (k - 1)).
    { intros k Hk. unfold at_. destruct (Z.ltb_spec k 0) as [L1|L1]; [lia|].
      destruct (Z.ltb_spec (k - 1) 0) as [L2|L2]; [lia|].
      replace (Z.to_nat k) with (S (Z.to_nat (k - 1))) by lia. reflexivity. }
    rewrite S by lia. replace (findEol r (i + 1) - i - 1) with (findEol r (i + 1) - (i + 1)) by lia. exact P.
Qed.
Lemma cr_lineEnd_nonneg a b i : crRel a b -> 0 <= i -> lineEnd b i = lineEnd a i.
Proof.
  intros H Hi. unfold lineEnd. cbv zeta.
  rewrite (cr_findEol _ _ (crRel_from _ _ i H)), (crRel_len _ _ H).
  set (e := findEol (from_ a i) i).
  destruct (Z.ltb_spec e 0) as [L|L]; [reflexivity|].
  assert (E10 : at_ a e = 10).
  { destruct (findEol_spec (from_ a i) i Hi) as [N|[L1 P]]; [fold e in N; lia|]. fold e in L1, P.
    rewrite at_from_ in P by lia. replace (i + (e - i)) with e in P by lia.
    destruct P as [P|P]; [exact P|]. destruct (crRel_at a b e H) as [_ N13]. contradiction. }
  pose proof (crRel_at a b e H) as Hc. rewrite E10 in Hc.
  destruct (bR_cases _ _ Hc) as [[_ E13]|(_ & A & _)]; [|congruence].
  rewrite E10, E13. change (10 =? 10) with true. change (13 =? 10) with false. cbv iota.
  destruct (bR_eol _ _ (crRel_at a b (e + 1) H)) as (_ & E2 & _). rewrite E2.
  destruct (Z.ltb_spec (e + 1) (len a)) as [G|G]; [reflexivity|].
  assert (Bd : 0 <= e < len a) by (apply at_nonzero_bounds; rewrite E10; discriminate). lia.
Qed.
Lemma at_cons_pos c (r : bytes) k : 1 <= k -> at_ (c :: r) k = at_ r (k - 1).
Proof.
  intros Hk. unfold at_. destruct (Z.ltb_spec k 0) as [L1|L1]; [lia|].
  destruct (Z.ltb_spec (k - 1) 0) as [L2|L2]; [lia|].
  replace (Z.to_nat k) with (S (Z.to_nat (k - 1))) by lia. reflexivity.
Qed.
(* findEol stops at the FIRST ending byte (any offset i) *)
Lemma findEol_first : forall l i, exists k, 0 <= k /\
  (forall j, 0 <= j < k -> at_ l j <> 10 /\ at_ l j <> 13) /\
  ((k = len l /\ findEol l i = -1) \/ (k < len l /\ findEol l i = i + k /\ (at_ l k = 10 \/ at_ l k = 13))).
Proof.
  induction l as [|c r IH]; intros i.
  - exists 0. split; [lia|]. split; [intros j Hj; lia|]. left. split; reflexivity.
  - cbn [findEol]. destruct ((c =? 10) || (c =? 13)) eqn:E.
    + exists 0. split; [lia|]. split; [intros j Hj; lia|]. right. unfold len. cbn [length].
      split; [lia|]. split; [lia|]. change (at_ (c :: r) 0) with c.
      apply orb_true_iff in E. destruct E as [E|E]; apply Z.eqb_eq in E; [left|right]; exact E.
    + apply orb_false_iff in E. destruct E as [E1 E2]. apply Z.eqb_neq in E1. apply Z.eqb_neq in E2.
      destruct (IH (i + 1)) as (k & Hk & Hfirst & Hres). exists (k + 1). split; [lia|]. split.
      * intros j Hj. destruct (Z.eq_dec j 0) as [J0|J0]; [rewrite J0; change (at_ (c :: r) 0) with c; split; assumption|].
        rewrite at_cons_pos by lia. apply Hfirst. lia.
      * unfold len in *. cbn [length]. destruct Hres as [[K N]|(K & N & P)].
        -- left. split; [lia|exact N].
        -- right. split; [lia|]. split; [lia|]. rewrite at_cons_pos by lia.
           replace (k + 1 - 1) with k by lia. exact P.
Qed.
Lemma cr_lineEnd_v a b i : crRel a b -> i <> -1 -> lineEnd b i = lineEnd a i.
Proof.
  intros H Hi. destruct (Z_le_gt_dec 0 i) as [P|N]; [apply cr_lineEnd_nonneg; assumption|].
  unfold lineEnd. cbv zeta.
  rewrite (cr_findEol _ _ (crRel_from _ _ i H)), (crRel_len _ _ H).
  assert (F : from_ a i = a) by (unfold from_; replace (Z.to_nat i) with 0%nat by lia; reflexivity).
  rewrite F. set (e := findEol a i).
  destruct (Z.ltb_spec e 0) as [L|L]; [reflexivity|].
  destruct (findEol_first a i) as (k & Hk & Hfirst & Hres). fold e in Hres.
  destruct Hres as [[_ N1]|(K & N1 & _)]; [lia|].
  destruct (Hfirst e) as [A0 B0]; [lia|]. destruct (Hfirst (e + 1)) as [A1 B1]; [lia|].
  rewrite (bR_same_if _ _ (crRel_at a b e H) A0).
  destruct (bR_eol _ _ (crRel_at a b (e + 1) H)) as (_ & E2 & _). rewrite E2.
  rewrite (proj2 (Z.eqb_neq _ 10) A0), (proj2 (Z.eqb_neq _ 10) A1). reflexivity.
Qed.
(* the statement fails at i = -1 (the only exception) *)
Lemma cr_lineEnd_counterexample : crRel [65; 10] [65; 13] /\ lineEnd [65; 13] (-1) <> lineEnd [65; 10] (-1).
Proof.
  split; [repeat constructor; discriminate|]. vm_compute. discriminate.
Qed.

Lemma cr_lineCount a b : crRel a b -> lineCount b = lineCount a.
Proof.
  intros H. induction H as [|x y a b Hxy H IH]; [reflexivity|]. cbn [lineCount]. rewrite IH.
  destruct (bR_cases _ _ Hxy) as [[E1 E2]|(E1 & A & B)].
  - rewrite E1, E2. change (13 =? 10) with false. change (13 =? 13) with true. change (10 =? 10) with true. cbv iota.
    destruct H as [|x2 y2 a b Hxy2 H]; [reflexivity|].
    destruct (bR_eol _ _ Hxy2) as (_ & E & _). rewrite E. reflexivity.
  - rewrite E1. rewrite (proj2 (Z.eqb_neq x 10) A), (proj2 (Z.eqb_neq x 13) B). reflexivity.
Qed.
Lemma cr_nullCount a b : crRel a b -> nullCount b = nullCount a.
Proof.
  intros H. induction H as [|x y a b Hxy H IH]; [reflexivity|]. cbn [nullCount].
  rewrite (bR_eqb _ _ 0 Hxy) by discriminate. rewrite IH. reflexivity.
Qed.
Lemma cr_unpadded a b : crRel a b -> unpadded b = unpadded a.
Proof. intros H. unfold unpadded. rewrite (crRel_len _ _ H), (cr_nullCount _ _ H). reflexivity. Qed.
Lemma cr_fill_aux a b : crRel a b -> forall k, crRel (fill_aux k a) (fill_aux k b).
Proof.
  intros H. induction H as [|x y a b Hxy H IH]; intros k; [destruct k; constructor|].
  assert (D : crRel (if x =? 0 then 239 :: fill_aux 2 a else x :: fill_aux 0 a)
                    (if y =? 0 then 239 :: fill_aux 2 b else y :: fill_aux 0 b)).
  { rewrite (bR_eqb _ _ 0 Hxy) by discriminate. destruct (x =? 0).
    - constructor; [apply bR_other; discriminate|apply IH].
    - constructor; [exact Hxy|apply IH]. }
  destruct k as [|[|[|k]]]; cbn [fill_aux].
  - exact D.
  - constructor; [apply bR_other; discriminate|apply IH].
  - constructor; [apply bR_other; discriminate|apply IH].
  - exact D.
Qed.
Lemma cr_fillNulls a b : crRel a b -> crRel (fillNulls a) (fillNulls b).
Proof. intros H. unfold fillNulls. apply cr_fill_aux, H. Qed.
Lemma cr_pad a b : crRel a b -> crRel (pad a) (pad b).
Proof.
  intros H. unfold pad. induction H as [|x y a b Hxy H IH]; [constructor|]. cbn [flat_map].
  apply crRel_app; [|exact IH]. rewrite (bR_eqb _ _ 0 Hxy) by discriminate.
  destruct (x =? 0); [repeat (constructor; [exact bR_0|]); constructor|constructor; [exact Hxy|constructor]].
Qed.
Lemma cr_computeTabRem a b i cl : crRel a b -> computeTabRem b i cl = computeTabRem a i cl.
Proof.
  intros H. unfold computeTabRem. rewrite (crRel_len _ _ H).
  rewrite (bR_eqb _ _ 9 (crRel_at a b i H)) by discriminate. reflexivity.
Qed.
Lemma cr_skipSpTabIdx a b : crRel a b -> forall fuel i, skipSpTabIdx fuel b i = skipSpTabIdx fuel a i.
Proof.
  intros H. induction fuel as [|f IH]; intros i; [reflexivity|]. cbn [skipSpTabIdx].
  rewrite (cr_isSpTab _ _ (crRel_at a b i H)), IH. reflexivity.
Qed.

(* ---------- Collect.v ---------- *)
Lemma cr_pce_named a b : crRel a b -> forall i acc, pce_named b i acc = pce_named a i acc.
Proof.
  intros H. induction H as [|x y a b Hxy H IH]; intros i acc; [reflexivity|]. cbn [pce_named].
  rewrite (bR_eqb _ _ 59 Hxy) by discriminate. rewrite (cr_isASCIILetter _ _ Hxy), (cr_isASCIIDigit _ _ Hxy).
  destruct (x =? 59); [reflexivity|].
  destruct (negb (isASCIILetter x) && negb (isASCIIDigit x)) eqn:E; [reflexivity|].
  assert (Eq : y = x) by (apply (bR_same_if _ _ Hxy); intros E10; rewrite E10 in E; discriminate E).
  rewrite Eq. apply IH.
Qed.
Lemma cr_pce_num (p : Z -> bool) a b : (forall c c', bR c c' -> p c' = p c) -> crRel a b ->
  forall i ds, pce_num p b i ds = pce_num p a i ds.
Proof.
  intros Hp H. induction H as [|x y a b Hxy H IH]; intros i ds; [reflexivity|]. cbn [pce_num].
  rewrite (bR_eqb _ _ 59 Hxy) by discriminate. rewrite (Hp _ _ Hxy), IH. reflexivity.
Qed.
Lemma cr_parseCharacterEscape a b : crRel a b -> parseCharacterEscape b = parseCharacterEscape a.
Proof.
  intros H. unfold parseCharacterEscape. rewrite (crRel_len _ _ H).
  rewrite (bR_eqb _ _ 38 (crRel_at a b 0 H)) by discriminate.
  rewrite (bR_eqb _ _ 35 (crRel_at a b 1 H)) by discriminate.
  rewrite (bR_eqb _ _ 120 (crRel_at a b 2 H)) by discriminate.
  rewrite (bR_eqb _ _ 88 (crRel_at a b 2 H)) by discriminate.
  rewrite (cr_pce_named _ _ (crRel_from _ _ 1 H)).
  rewrite (cr_pce_num isHex _ _ cr_isHex (crRel_upto _ _ 7 (crRel_from _ _ 3 H))).
  rewrite (cr_pce_num isASCIIDigit _ _ cr_isASCIIDigit (crRel_upto _ _ 8 (crRel_from _ _ 2 H))).
  reflexivity.
Qed.

Print Assumptions cr_parseATXHeading.
Print Assumptions cr_lineEnd_v.
Print Assumptions cr_parseCharacterEscape.
