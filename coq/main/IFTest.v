From Coq Require Import List ZArith Lia Bool String Ascii.
Import ListNotations.
Require Import Base Tables Utf8 Tree Rdr Link Collect Html Recog LP Rules Starts Driver Inl3a Inl3b Inl3c Inl3d Inl3e ShapesR GI6.
Require Import IFBase IFTitle IFTokDef IFTokTf IFPe IFTk5.
Open Scope Z_scope.

(* ================================================================ executable checks (vm_compute) *)
Fixpoint bs (s : string) : bytes := match s with EmptyString => [] | String c r => Z.of_nat (nat_of_ascii c) :: bs r end.
Definition nl := String (ascii_of_nat 10) EmptyString.
Definition tab := String (ascii_of_nat 9) EmptyString.
Fixpoint allB (fuel : nat) (b : block) : list block := match fuel with O => [b] | S f => b :: flat_map (allB f) (bkids b) end.

(* for every block with an Unparsed entry of every root: (spOK, spW, ind1, budget <= len+9) *)
Definition chk (inp : bytes) : list (bool * bool * bool * bool) :=
  flat_map (fun r => map (fun b => (spOK (rb_src r) (bik b), spW (rb_src r) (bik b), ind1 (bik b), ibudget (bik b) <=? len (rb_src r) + 9))
                         (filter hasUnparsed (allB 10 (rb_blk r)))) (fst (parseBlocks inp)).
Definition allok (inp : bytes) : bool := forallb (fun x => match x with (a, b, c, d) => a && b && c && d end) (chk inp).

Definition doc1 := bs ("a *b* `c` [d](<e> " ++ String (ascii_of_nat 34) EmptyString ++ "t" ++ String (ascii_of_nat 34) EmptyString ++ ")" ++ nl ++ "> q" ++ nl ++ ">" ++ tab ++ "r" ++ nl ++ nl ++ "- x" ++ nl ++ tab ++ "y" ++ nl ++ tab ++ "z").
Example doc1_ok : allok doc1 = true. Proof. vm_compute. reflexivity. Qed.
Definition doc2 := bs ("# h #" ++ nl ++ "p1" ++ nl ++ "===" ++ nl ++ "   >" ++ tab ++ "a" ++ nl ++ "   >" ++ tab ++ "b" ++ nl ++ "<a href='x'" ++ nl ++ "  b>t</a> [l][r]" ++ nl ++ nl ++ "[r]: /u").
Example doc2_ok : allok doc2 = true. Proof. vm_compute. reflexivity. Qed.
(* an empty ATX heading has ONE EMPTY Unparsed entry: spW (and entOK) hold, ShapesR.spOK does not (it asks for non-empty spans) *)
Example empty_heading : chk (bs ("#" ++ nl)) = [(false, true, true, true)]. Proof. vm_compute. reflexivity. Qed.

(* the fuelled copy at (much) larger fuels computes the same inline trees as the model *)
Definition inlinesF (big : nat) (inp : bytes) :=
  flat_map (fun r => map (fun b => parseInlinesF big big big big (rb_src r) [] b) (filter hasUnparsed (allB 10 (rb_blk r)))) (fst (parseBlocks inp)).
Definition inlinesM (inp : bytes) :=
  flat_map (fun r => map (fun b => parseInlines (rb_src r) [] b) (filter hasUnparsed (allB 10 (rb_blk r)))) (fst (parseBlocks inp)).
Example doc1_same : inlinesF 5000 doc1 = inlinesM doc1. Proof. vm_compute. reflexivity. Qed.
Example doc2_same : inlinesF 5000 doc2 = inlinesM doc2. Proof. vm_compute. reflexivity. Qed.

(* the same with processEmphasis' fuel explicit as well *)
Definition inlinesG (big : nat) (inp : bytes) :=
  flat_map (fun r => map (fun b => parseInlinesG big big big big big (rb_src r) [] b) (filter hasUnparsed (allB 10 (rb_blk r)))) (fst (parseBlocks inp)).
Example doc1_sameG : inlinesG 5000 doc1 = inlinesM doc1. Proof. vm_compute. reflexivity. Qed.
Example doc2_sameG : inlinesG 5000 doc2 = inlinesM doc2. Proof. vm_compute. reflexivity. Qed.
Definition doc3 := bs ("***a** b* _c __d__ e_ *[x*](y) ![i](<u> 't') `co*de` <b>*z*</b> &amp; \\* **" ++ nl ++ "more *text* here**").
Example doc3_ok : allok doc3 = true. Proof. vm_compute. reflexivity. Qed.
Example doc3_sameG : inlinesG 5000 doc3 = inlinesM doc3. Proof. vm_compute. reflexivity. Qed.

(* the budget condition is nearly tight: a list item whose content column is 5 makes the second tab of a continuation line a
   3-column Indent entry on a 3- or 4-byte line (budget 6 for a 14-byte source here) *)
Definition doc4 := bs ("123. a" ++ nl ++ tab ++ tab ++ "b" ++ nl ++ tab ++ tab ++ "c").
Example doc4_ok : allok doc4 = true. Proof. vm_compute. reflexivity. Qed.
Example doc4_budget : flat_map (fun r => map (fun b => (ibudget (bik b), len (rb_src r))) (filter hasUnparsed (allB 10 (rb_blk r)))) (fst (parseBlocks doc4)) = [(6, 14)].
Proof. vm_compute. reflexivity. Qed.

(* ================================================================ why a hypothesis on the entries is needed
   titleNeedsDestFor is FALSE for an ill-formed entry list: 13 overlapping copies of the span [1,3) make ld_angle spend the whole
   fuel 2 * 9 + 10 = 28 before it reaches the closing quote; it then gives up on the very byte where a title can start.
   (Not a finding about the Go code: the block layer never produces such a list; entOK rejects it.) *)
Definition srcX : bytes := bs ("(<a  " ++ String (ascii_of_nat 34) EmptyString ++ "t" ++ String (ascii_of_nat 34) EmptyString ++ ")").
Definition UX : list inline := repeat (mkI UnparsedKind 1 3) 13 ++ [mkI UnparsedKind 3 9].
Definition stX : ist := {| rk := []; isrc := srcX; unp := UX; upos := 0; stk := []; ign := false; nid := 1; rootEnd := 9; matcher := [] |}.
Example illformed_entries_break_it :
  entOK srcX UX = false /\
  (let '(ispan, (dspan, _), (tspan, _)) := parseInlineLink (rfuelOf stX) stX 0 in (spanValid ispan, spanValid tspan, spanValid dspan)) = (true, true, false).
Proof. vm_compute. split; reflexivity. Qed.
Theorem titleNeedsDestFor_not_for_all_entries : ~ (forall src U, titleNeedsDestFor src U).
Proof.
  intros H. specialize (H srcX UX stX 0).
  destruct (parseInlineLink (rfuelOf stX) stX 0) as [[ispan [dspan dtext]] [tspan ttext]] eqn:E.
  specialize (H ispan dspan dtext tspan ttext eq_refl eq_refl eq_refl).
  vm_compute in E. inversion E; subst. discriminate (H eq_refl eq_refl).
Qed.
Print Assumptions titleNeedsDestFor_not_for_all_entries.
