From Coq Require Import List ZArith Lia Bool.
Import ListNotations.
Require Import Base Tree Rdr Link Collect Html Recog LP Rules Starts Driver Rec16 Rec17 Rec18 Cursor.
Open Scope Z_scope.

(* C04, one panic site: ConsumeIndent is never asked for more columns than the line's indentation provides *)
Definition N3 (p : lp) : Prop := Itab p /\ panicked p <> 3.

Lemma N3_panic p site : site <> 3 -> N3 p -> N3 (panic p site).
Proof. intros Hs [A B]. split; [exact A|]. cbn. destruct (panicked p =? 0); assumption. Qed.
Lemma N3_opened p : N3 p -> N3 (if state p =? stOpening then withState p stOpenMatched else p).
Proof. intros H. destruct (_ =? _); exact H. Qed.
Lemma N3_advance p n : N3 p -> N3 (advance p n).
Proof.
  intros [A B]. split; [apply Itab_advance, A|]. unfold advance. destruct (n <? 0); [cbn; destruct (panicked p =? 0); [discriminate|exact B]|].
  destruct (n =? 0); [exact B|]. cbv zeta. destruct (state p =? stOpening); destruct (_ <? _); cbn; try exact B; destruct (panicked p =? 0); try discriminate; exact B.
Qed.
Lemma N3_consumeLine p : N3 p -> N3 (consumeLine p).
Proof.
  intros H. unfold consumeLine. cbv zeta. pose proof (N3_advance p (len (line p) - li p) H) as H1.
  destruct (_ || _); [exact H1|]. destruct (_ =? stDescending); exact H1.
Qed.
Lemma N3_consumeIndent p n : N3 p -> n <= indent p -> N3 (consumeIndent p n).
Proof. intros [A B] Hn. destruct (consumeIndent_ok p n A Hn) as [E I]. split; [exact I|rewrite E; exact B]. Qed.
Lemma N3_updCont p f : N3 p -> N3 (updCont p f). Proof. exact (fun H => H). Qed.
Lemma N3_closeLastChildAt p d e : N3 p -> N3 (closeLastChildAt p d e). Proof. exact (fun H => H). Qed.
Lemma N3_openBlock_up : forall fuel p kind, N3 p -> N3 (openBlock_up fuel p kind).
Proof.
  induction fuel as [|f IH]; intros p kind H; [exact H|]. cbn [openBlock_up].
  destruct (canContain _ _); [exact H|]. destruct (cdepth p); [apply N3_panic; [discriminate|exact H]|]. apply IH. exact H.
Qed.
Lemma N3_openBlock p kind : N3 p -> N3 (openBlock p kind).
Proof.
  intros H. unfold openBlock. destruct (_ || _); [apply N3_panic; [discriminate|exact H]|]. cbv zeta.
  exact (N3_openBlock_up _ _ kind (N3_opened p H)).
Qed.
Lemma N3_endBlock p : N3 p -> N3 (endBlock p).
Proof.
  intros H. unfold endBlock. destruct (_ || _); [apply N3_panic; [discriminate|exact H]|]. cbv zeta.
  pose proof (N3_opened p H) as H1. destruct (cdepth _); [apply N3_panic; [discriminate|exact H1]|exact H1].
Qed.
Lemma N3_collectInline p kind n : N3 p -> N3 (collectInline p kind n).
Proof.
  intros H. unfold collectInline. destruct (_ =? stDescendTerminated); [apply N3_panic; [discriminate|exact H]|]. cbv zeta.
  apply N3_updCont, N3_advance. destruct (0 <? _); [apply N3_updCont, N3_advance|]; apply N3_opened, H.
Qed.

(* indent is read off the cursor only *)
Lemma indent_same p p' : li p' = li p -> line p' = line p -> col p' = col p -> tabRem p' = tabRem p -> indent p' = indent p.
Proof. intros A B C D. unfold indent. rewrite A, B, C, D. reflexivity. Qed.

Lemma N3_matchRule p : N3 p -> N3 (snd (matchRule p)).
Proof.
  intros H. pose proof (indent_nonneg p (proj1 H)) as Hi0. unfold matchRule. cbv zeta.
  destruct (_ || _); [exact H|].
  destruct (_ =? ListItemKind).
  { unfold matchListItem. destruct (isRestBlank p); [destruct (negb _); [exact H|apply N3_consumeIndent; [exact H|lia]]|].
    destruct (Z.leb_spec (bindent (contBlock p)) (indent p)); [apply N3_consumeIndent; [exact H|lia]|exact H]. }
  destruct (_ =? BlockQuoteKind).
  { unfold matchBlockQuote. cbv zeta. destruct (_ <=? _); [exact H|]. destruct (negb _); [exact H|]. cbn [snd].
    unfold eatQuoteMarker. cbv zeta.
    set (q := advance (consumeIndent p (indent p)) 1).
    assert (Hq : N3 q) by (apply N3_advance, N3_consumeIndent; [exact H|lia]).
    destruct (Z.ltb_spec 0 (indent q)); [apply N3_consumeIndent; [exact Hq|lia]|exact Hq]. }
  destruct (_ =? FencedCodeBlockKind).
  { unfold matchFenced. cbv zeta. destruct (if _ <? _ then _ else false); cbn [snd]; [apply N3_consumeLine; exact H|].
    apply N3_consumeIndent; [exact H|]. destruct (Z.ltb_spec (indent p) (bindent (contBlock p))); lia. }
  destruct (_ =? IndentedCodeBlockKind).
  { unfold matchIndented. cbv zeta. unfold codeBlockIndentLimit. destruct (Z.ltb_spec (indent p) 4); [destruct (negb _); [exact H|]|]; cbn [snd];
      apply N3_consumeIndent; try exact H; lia. }
  destruct (_ =? HTMLBlockKind).
  { unfold matchHTML. destruct (htmlEnd _ _); [|exact H]. destruct (isRestBlank _); [exact H|]. cbn [snd]. apply N3_consumeLine.
    apply N3_collectInline; exact H. }
  exact H.
Qed.
Lemma N3_descend_loop : forall fuel p d, N3 p -> N3 (snd (descend_loop fuel p d)).
Proof.
  induction fuel as [|f IH]; intros p d H; [exact H|]. cbn [descend_loop]. cbv zeta.
  destruct (getAt (S d) (root p)) as [c|]; [|exact H].
  destruct (negb (isOpen c)); [exact H|]. destruct (negb (hasMatch _)); [exact H|].
  pose proof (N3_matchRule (withState (withCont p (Some (S d))) stDescending) H) as H2.
  destruct (matchRule _) as [ok p2]. cbn [snd] in H2.
  destruct (state p2 =? stDescendTerminated); [exact H2|]. destruct (negb ok); [exact H2|]. apply IH. exact H2.
Qed.

Ltac chain3n Hh :=
  repeat match goal with
  | |- N3 (consumeLine _) => apply N3_consumeLine
  | |- N3 (endBlock _) => apply N3_endBlock
  | |- N3 (advance _ _) => apply N3_advance
  | |- N3 (openBlock _ _) => apply N3_openBlock
  | |- N3 (collectInline _ _ _) => apply N3_collectInline
  | |- N3 (updCont _ _) => apply N3_updCont
  | |- N3 (consumeIndent ?q (indent ?q)) => apply N3_consumeIndent; [|lia]
  end;
  try exact Hh.

Definition startOK3 (f : lp -> lp) : Prop := forall p, N3 p -> N3 (f p).
Lemma blockStarts_ok3 : Forall startOK3 blockStarts.
Proof.
  unfold blockStarts.
  apply Forall_cons.
  { intros p H. unfold startBlockQuote. cbv zeta. destruct (_ <=? _); [exact H|]. destruct (negb _); [exact H|].
    set (q := advance (openBlock (consumeIndent p (indent p)) BlockQuoteKind) 1).
    assert (Hq : N3 q) by (unfold q; chain3n H).
    destruct (Z.ltb_spec 0 (indent q)); [apply N3_consumeIndent; [exact Hq|lia]|exact Hq]. }
  apply Forall_cons.
  { intros p H. unfold startATX. cbv zeta. destruct (_ <=? _); [exact H|].
    destruct (parseATXHeading _) as [[level cs] ce]. destruct (level <? 1); [exact H|]. chain3n H. }
  apply Forall_cons.
  { intros p H. unfold startFenced. cbv zeta. destruct (_ <=? _); [exact H|].
    destruct (parseCodeFence _) as [[[fc fnn] is_] ie]. destruct (fnn =? 0); [exact H|]. destruct (spanValid _); chain3n H. }
  apply Forall_cons.
  { intros p H. unfold startHTML. cbv zeta. destruct (_ <=? _); [exact H|]. destruct (negb _); [exact H|].
    destruct (_ <? 0); [exact H|]. destruct (negb _ && _); [exact H|]. destruct (htmlEnd _ _); chain3n H. }
  apply Forall_cons.
  { intros p H. unfold startSetext. cbv zeta.
    do 4 (match goal with |- N3 (if ?c then _ else _) => destruct c end; [exact H|]). chain3n H. }
  apply Forall_cons.
  { intros p H. unfold startThematic. cbv zeta. destruct (_ <=? _); [exact H|]. destruct (_ <? 0); [exact H|]. chain3n H. }
  apply Forall_cons.
  { intros p H. unfold startListItem. cbv zeta. destruct (_ <=? _); [exact H|].
    destruct (parseListMarker _) as [[delim n] mend]. destruct (_ || _); [exact H|]. destruct (_ && _); [exact H|].
    match goal with |- context [endBlock ?X] => assert (H1 : N3 (endBlock X)) end.
    { match goal with |- N3 (endBlock (advance (openBlock (updCont (openBlock ?P _) _) _) _)) => assert (HP : N3 P) end.
      { destruct (negb _ || negb _); chain3n H. }
      chain3n HP. }
    match goal with |- context [endBlock ?X] => set (q := endBlock X) in * end.
    destruct (isRestBlank q); [chain3n H1|].
    destruct (Z.ltb_spec (indent q) 1); [chain3n H1|].
    destruct (Z.ltb_spec 4 (indent q)); apply N3_updCont, N3_consumeIndent; try exact H1; lia. }
  apply Forall_cons.
  { intros p H. unfold startIndented. unfold codeBlockIndentLimit.
    destruct (Z.ltb_spec (indent p) 4); cbn [orb]; [exact H|]. destruct (_ || _); [exact H|].
    apply N3_openBlock, N3_consumeIndent; [exact H|lia]. }
  apply Forall_nil.
Qed.
Lemma N3_tryStarts : forall fs p, Forall startOK3 fs -> N3 p -> N3 (snd (tryStarts fs p)).
Proof.
  induction fs as [|f r IH]; intros p Hfs H; [exact H|]. cbn [tryStarts]. cbv zeta. inversion Hfs as [|? ? Hf Hr]; subst.
  assert (H1 : N3 (f (withState p stOpening))) by (apply Hf; exact H).
  destruct (_ || _); [exact H1|]. apply IH; assumption.
Qed.
Lemma N3_opening_loop : forall fuel p, N3 p -> N3 (snd (opening_loop fuel p)).
Proof.
  induction fuel as [|f IH]; intros p H; [exact H|]. cbn [opening_loop].
  destruct (_ || _); [|exact H].
  pose proof (N3_tryStarts blockStarts p blockStarts_ok3 H) as H1. destruct (tryStarts blockStarts p) as [[|] p1]; cbn [snd] in H1.
  - destruct (_ =? stLineConsumed); [exact H1|apply IH; exact H1].
  - exact H1.
Qed.
Lemma N3_openNewBlocks p am : N3 p -> N3 (snd (openNewBlocks p am)).
Proof.
  intros H. unfold openNewBlocks. destruct (_ =? 0); [exact H|].
  pose proof (N3_opening_loop (S (length (line p))) p H) as H1. destruct (opening_loop _ p) as [ht p1]. cbn [snd] in H1.
  destruct am; cbn [snd]; [exact H1|]. unfold deferredClose. cbv zeta. destruct (_ && _); exact H1.
Qed.
Lemma N3_addLineText p : N3 p -> N3 (addLineText p).
Proof.
  intros H. unfold addLineText. cbv zeta.
  set (p1 := if isRestBlank p then _ else p).
  assert (H1 : N3 p1) by (unfold p1; destruct (isRestBlank p); exact H).
  set (p2 := withRoot p1 _). assert (H2 : N3 p2) by exact H1.
  assert (Hgo : forall q, N3 q ->
    N3 (let k := containerKind q in
        let inlineKind := if isCode k then TextKind else if k =? HTMLBlockKind then RawHTMLKind else UnparsedKind in
        let q' := updCont q (fun b => set_bik b (bik b ++ [mkI inlineKind (lineStart q + li q) (lineStart q + len (line q))])) in
        if isCode k && negb (hasByteSuffixEOL (line q')) then
          updCont q' (fun b => set_bik b (bik b ++ [mkI SoftLineBreakKind (lineStart q' + len (line q')) (lineStart q' + len (line q'))]))
        else q')).
  { intros q Hq. cbv zeta. match goal with |- N3 (if ?c then _ else _) => destruct c end; exact Hq. }
  match goal with |- N3 (if ?c then _ else _) => destruct c end.
  - apply Hgo. match goal with |- N3 (if ?c then _ else _) => destruct c eqn:Ec end; [|exact H2].
    apply andb_true_iff in Ec. destruct Ec as [Ec E4]. apply andb_true_iff in Ec. destruct Ec as [Ec E3]. apply andb_true_iff in Ec. destruct Ec as [E1 E2].
    apply Z.ltb_lt in E1. apply Z.eqb_eq in E2.
    set (q := updCont p2 _). assert (Hq : N3 q) by exact H2.
    apply N3_consumeIndent; [exact Hq|]. apply (tabRem_le_indent q (proj1 Hq) E1 E2).
  - match goal with |- N3 (if ?c then _ else _) => destruct c end; [|exact H2]. apply Hgo.
    set (q := openBlock p2 ParagraphKind). assert (Hq : N3 q) by (apply N3_openBlock, H2).
    apply N3_consumeIndent; [exact Hq|lia].
Qed.

Theorem processLine_no3 st children ls src : snd (processLine st children ls src) <> 3.
Proof.
  unfold processLine. cbv zeta.
  assert (H0 : N3 (resetLP st children ls src)).
  { split; [|cbn; discriminate]. unfold resetLP. split; [cbn; lia|]. cbn [li line col tabRem]. intros Hl Ha. apply computeTabRem_spec; [lia|exact Hl|exact Ha]. }
  pose proof (N3_descend_loop (bheight (root (resetLP st children ls src))) _ O H0) as H1.
  fold (descendOpenBlocks (resetLP st children ls src)) in H1.
  destruct (descendOpenBlocks _) as [am p1]. cbn [snd] in H1.
  assert (H2 : N3 (snd (if negb (state p1 =? stDescendTerminated) then openNewBlocks p1 am else (false, p1)))).
  { destruct (negb _); [apply N3_openNewBlocks; exact H1|exact H1]. }
  destruct (if negb (state p1 =? stDescendTerminated) then openNewBlocks p1 am else (false, p1)) as [ht p2]. cbn [snd] in H2.
  assert (H3 : N3 (if ht then addLineText p2 else p2)) by (destruct ht; [apply N3_addLineText|]; exact H2).
  cbn [snd]. apply H3.
Qed.
Print Assumptions processLine_no3.

Definition nb3 (x : nb) : Prop := match x with NBPanic site => site <> 3 | _ => True end.
Lemma lineLoop_no3 : forall fuel st children ls s, nb3 (lineLoop fuel st children ls s).
Proof.
  induction fuel as [|f IH]; intros st children ls s; [exact I|]. cbn [lineLoop].
  pose proof (processLine_no3 st children ls (upto (buf s) (bi s))) as H.
  destruct (processLine st children ls (upto (buf s) (bi s))) as [[children' st'] pn]. cbn [snd] in H.
  destruct (negb (pn =? 0)); [exact H|]. destruct (makeRoot children' s) as [[r s']|]; [exact I|apply IH].
Qed.
Lemma skipLoop_no3 : forall fuel s, nb3 (skipLoop fuel s).
Proof.
  induction fuel as [|f IH]; intros s; [exact I|]. cbn [skipLoop]. cbv zeta.
  destruct (negb _); [exact I|]. destruct (isBlankLine _); [apply IH|apply lineLoop_no3].
Qed.
Lemma nextBlock_no3 fuel s : nb3 (nextBlock fuel s).
Proof.
  unfold nextBlock. destruct (makeRoot (pending s) s) as [[r s']|]; [exact I|].
  destruct (pending s); [apply skipLoop_no3|apply lineLoop_no3].
Qed.
Lemma allBlocks_no3 : forall fuel s acc, snd (allBlocks fuel s acc) <> 3.
Proof.
  induction fuel as [|f IH]; intros s acc; [cbn; discriminate|]. cbn [allBlocks].
  pose proof (nextBlock_no3 (3 + length (buf s)) s) as H.
  destruct (nextBlock _ s) as [r s'| | |site]; [apply IH|cbn; discriminate|cbn; discriminate|exact H].
Qed.
(* C04, panic site 3 (ConsumeIndent beyond the indentation): never reported, for every input *)
Theorem parseBlocks_no_panic3 input : snd (parseBlocks input) <> 3.
Proof. unfold parseBlocks. apply allBlocks_no3. Qed.
Print Assumptions parseBlocks_no_panic3.
