(* ItemSimLines.v -- T65: the lines of item mk N D (QuoteSimLines.v, second half, with the prefix "> " replaced by
   mk ++ N spaces on the first line and K = len mk + N spaces on the other lines).
   A line start a of D with pre / body / eol / post (QuoteSimLines.lineAt): the corresponding line of item mk N D starts at
   epsBK K D a = a + K * (number of the line - 1) and is  pfx a ++ body ++ eol. *)
From Coq Require Import List ZArith Lia Bool Arith.
Import ListNotations.
Require Import Base Tree LP Driver Rec16 Rec17 Rec18 QuoteSimDefs QuoteSimLines ItemSimDefs.
Require BlankPrefix.
Open Scope Z_scope.

Lemma len_spaces' k : 0 <= k -> len (spaces k) = k.
Proof. intros H. unfold spaces, len. rewrite repeat_length. lia. Qed.
Lemma noEol_spaces k : BlankPrefix.noEol (spaces k).
Proof. unfold spaces, BlankPrefix.noEol. apply Forall_forall. intros x Hx. apply repeat_spec in Hx. subst x. reflexivity. Qed.

Section Lines.
  Variables (mk : bytes) (N K : Z).
  Hypothesis K_eq : K + 0 = len mk + N.   (* in this form `subst` leaves K alone *)
  Hypothesis N_pos : 0 <= N.
  Hypothesis mk_noEol : BlankPrefix.noEol mk.
  Lemma K_nn : 0 <= K. Proof. pose proof (len_nonneg mk). lia. Qed.

  Definition fpre : bytes := mk ++ spaces N.
  Lemma len_fpre : len fpre = K. Proof. unfold fpre. rewrite len_app, len_spaces' by exact N_pos. lia. Qed.
  Lemma noEol_fpre : BlankPrefix.noEol fpre. Proof. unfold fpre, BlankPrefix.noEol. apply Forall_app. split; [exact mk_noEol|apply noEol_spaces]. Qed.
  (* the prefix of the line that starts at a *)
  Definition pfx (a : Z) : bytes := if a =? 0 then fpre else spaces K.
  Lemma len_pfx a : len (pfx a) = K. Proof. unfold pfx. destruct (a =? 0); [apply len_fpre|apply len_spaces', K_nn]. Qed.
  Lemma noEol_pfx a : BlankPrefix.noEol (pfx a). Proof. unfold pfx. destruct (a =? 0); [apply noEol_fpre|apply noEol_spaces]. Qed.
  (* the image of a prefix of D that ends a line *)
  Definition itemPre (pre : bytes) : bytes := match pre with [] => [] | _ => fpre ++ indentAux K false pre end.

  (* ---- item D around a line ---- *)
  Lemma indentAux_false_noLF : forall x rest, noLF x -> indentAux K false (x ++ rest) = x ++ indentAux K false rest.
  Proof.
    induction x as [|c x IH]; intros rest H; [reflexivity|]. inversion H as [|? ? Hc Hx]; subst. cbn [app indentAux].
    destruct (Z.eqb_spec c 10); [contradiction|]. rewrite (IH rest Hx). reflexivity.
  Qed.
  Lemma indentAux_line b0 body eol post : noLF body -> (eol = [10] \/ (eol = [] /\ post = [])) -> body ++ eol <> [] ->
    indentAux K b0 (body ++ eol ++ post) = (if b0 then spaces K else []) ++ body ++ eol ++ indentAux K true post.
  Proof.
    intros Hb He Hn. destruct body as [|c b].
    - destruct He as [->|[-> _]]; [reflexivity|contradiction].
    - inversion Hb as [|? ? Hc Hb']; subst. cbn [app indentAux]. destruct (Z.eqb_spec c 10); [contradiction|]. rewrite (indentAux_false_noLF b _ Hb').
      destruct He as [->|[-> ->]]; reflexivity.
  Qed.
  Lemma indentAux_app : forall l1 l2 b, indentAux K b (l1 ++ l2) = indentAux K b l1 ++ indentAux K (endFlag b l1) l2.
  Proof.
    induction l1 as [|c l1 IH]; intros l2 b; [reflexivity|]. cbn [app indentAux]. rewrite (IH l2 (c =? 10)). rewrite <- app_assoc. cbn [app]. do 2 f_equal.
    unfold endFlag. cbn [rev]. destruct (rev l1) as [|y r] eqn:Er; reflexivity.
  Qed.
  Lemma lineAt_item D a pre body eol post : lineAt D a pre body eol post ->
    item mk N D = itemPre pre ++ pfx a ++ body ++ eol ++ indentAux K true post.
  Proof.
    intros (E & Ha & Hb & He & Hp & Hn). subst D. unfold item. replace (len mk + N) with K by lia. destruct Hp as [->|(pre0 & Ep)].
    - cbn [app itemPre]. change (len (@nil Z)) with 0 in Ha. subst a. unfold pfx. change (0 =? 0) with true. cbv iota.
      rewrite (indentAux_line false body eol post Hb He Hn). cbn [app]. unfold fpre. rewrite <- !app_assoc. reflexivity.
    - assert (Hpne : pre <> []) by (rewrite Ep; destruct pre0; discriminate).
      assert (Ha0 : (a =? 0) = false).
      { apply Z.eqb_neq. subst pre a. rewrite len_app. change (len [10]) with 1. pose proof (len_nonneg pre0). lia. }
      unfold pfx. rewrite Ha0. rewrite indentAux_app.
      assert (Ef : endFlag false pre = true) by (rewrite Ep; unfold endFlag; rewrite rev_app_distr; reflexivity).
      rewrite Ef, (indentAux_line true body eol post Hb He Hn).
      unfold itemPre. destruct pre as [|c0 r0]; [contradiction|]. unfold fpre. rewrite <- !app_assoc. reflexivity.
  Qed.

  Lemma len_indentAux : forall l b, len (indentAux K b l) = len l + K * cntL b l.
  Proof.
    induction l as [|c l IH]; intros b; [cbn; lia|]. cbn [indentAux cntL]. rewrite len_app, len_cons, (IH (c =? 10)), len_cons.
    destruct b; [rewrite len_spaces' by apply K_nn|change (len (@nil Z)) with 0]; lia.
  Qed.
  Lemma len_itemPre pre : (pre = [] \/ exists pre0, pre = pre0 ++ [10]) -> len (itemPre pre) = len pre + K * nlc pre.
  Proof.
    intros [->|(pre0 & E)]; [cbn; lia|]. assert (Hne : pre <> []) by (rewrite E; destruct pre0; discriminate).
    unfold itemPre. destruct pre as [|c0 r0] eqn:Ep; [contradiction|]. rewrite <- Ep in *. rewrite len_app, len_fpre, len_indentAux.
    rewrite E, cntL_snoc10, nlc_app. cbn [nlc]. change (10 =? 10) with true. cbv iota. lia.
  Qed.

  (* ---- sigmaK / epsBK on the line ---- *)
  Lemma lineAt_epsBK_start D a pre body eol post : lineAt D a pre body eol post -> epsBK K D a = a + K * nlc pre.
  Proof.
    intros L. pose proof L as (E & Ha & Hb & He & Hp & Hn). unfold epsBK. destruct (Z.leb_spec a 0) as [L0|L0].
    - assert (pre = []) by (destruct pre; [reflexivity|rewrite len_cons in Ha; pose proof (len_nonneg pre); lia]). subst pre. cbn. unfold len in Ha. cbn in Ha. lia.
    - destruct Hp as [->|(pre0 & Ep)]; [unfold len in Ha; cbn in Ha; lia|].
      unfold sigmaK, nl. subst pre. rewrite len_app in Ha. change (len [10]) with 1 in Ha.
      assert (Eu : upto D (a - 1) = pre0).
      { subst D. replace (a - 1) with (len pre0) by lia. rewrite <- !app_assoc. apply BlankPrefix.upto_app_len. }
      rewrite Eu, nlc_app. cbn [nlc]. change (10 =? 10) with true. cbv iota. lia.
  Qed.
  Lemma lineAt_sigmaK D a pre body eol post x : lineAt D a pre body eol post -> 0 <= x <= len body -> sigmaK K D (a + x) = epsBK K D a + K + x.
  Proof. intros L Hx. unfold sigmaK. rewrite (lineAt_nl _ _ _ _ _ _ x L Hx), (lineAt_epsBK_start _ _ _ _ _ _ L). lia. Qed.
  Lemma lineAt_epsBK_in D a pre body eol post x : lineAt D a pre body eol post -> 0 < x <= len body + len eol -> epsBK K D (a + x) = epsBK K D a + K + x.
  Proof.
    intros L Hx. pose proof L as (E & Ha & Hb & He & Hp & Hn). pose proof (len_nonneg pre). unfold epsBK at 1. destruct (Z.leb_spec (a + x) 0); [lia|].
    assert (Hx1 : 0 <= x - 1 <= len body) by (destruct He as [->|[-> _]]; [change (len [10]) with 1 in Hx|change (len (@nil Z)) with 0 in Hx]; lia).
    replace (a + x - 1) with (a + (x - 1)) by lia. rewrite (lineAt_sigmaK _ _ _ _ _ _ (x - 1) L Hx1). lia.
  Qed.
  Lemma epsBK_nonneg D y : 0 <= y -> 0 <= epsBK K D y.
  Proof.
    intros H. unfold epsBK. destruct (Z.leb_spec y 0); [lia|]. unfold sigmaK. pose proof (nlc_nonneg (upto D (y - 1))). pose proof K_nn. unfold nl. nia.
  Qed.
  Lemma lineAt_monoK_ge D a pre body eol post y : lineAt D a pre body eol post -> a <= y -> epsBK K D a <= sigmaK K D y.
  Proof.
    intros L Hy. unfold sigmaK. pose proof (nl_mono D a y Hy). rewrite <- (Z.add_0_r a) in H at 1. rewrite (lineAt_nl _ _ _ _ _ _ 0 L) in H by (pose proof (len_nonneg body); lia).
    rewrite (lineAt_epsBK_start _ _ _ _ _ _ L). pose proof K_nn. nia.
  Qed.
  Lemma lineAt_monoK_lt D a pre body eol post y : 1 <= K -> lineAt D a pre body eol post -> 0 <= y < a -> sigmaK K D y < epsBK K D a.
  Proof.
    intros HK L Hy. pose proof L as (E & Ha & Hb & He & Hp & Hn). rewrite (lineAt_epsBK_start _ _ _ _ _ _ L). unfold sigmaK.
    destruct Hp as [->|(pre0 & Ep)]; [unfold len in Ha; cbn in Ha; lia|]. subst pre. rewrite len_app in Ha. change (len [10]) with 1 in Ha.
    assert (Hn1 : nl D y <= nlc pre0).
    { pose proof (nl_mono D y (a - 1) ltac:(lia)) as Hm. unfold nl at 2 in Hm.
      assert (Eu : upto D (a - 1) = pre0) by (subst D; replace (a - 1) with (len pre0) by lia; rewrite <- !app_assoc; apply BlankPrefix.upto_app_len).
      rewrite Eu in Hm. exact Hm. }
    rewrite nlc_app. cbn [nlc]. change (10 =? 10) with true. cbv iota. nia.
  Qed.

  (* ---- the line of item D ---- *)
  Lemma lineAt_I D a pre body eol post : noCR D -> lineAt D a pre body eol post ->
    let lsq := epsBK K D a in let Q := item mk N D in
    len (itemPre pre) = lsq /\
    lineEnd Q lsq = lsq + K + len body + len eol /\
    from_ (upto Q (lsq + K + len body + len eol)) lsq = pfx a ++ body ++ eol /\
    lsq + K + len body + len eol <= len Q.
  Proof.
    intros Hc L. cbv zeta. pose proof L as (E & Ha & Hb & He & Hp & Hn).
    assert (Elq : len (itemPre pre) = epsBK K D a) by (rewrite (len_itemPre pre Hp), (lineAt_epsBK_start _ _ _ _ _ _ L); lia).
    split; [exact Elq|]. rewrite (lineAt_item _ _ _ _ _ _ L). rewrite <- Elq.
    assert (Hcb : noCR body) by (subst D; apply noCR_app in Hc; destruct Hc as [_ Hc]; apply noCR_app in Hc; apply Hc).
    assert (Hne : BlankPrefix.noEol (pfx a ++ body)).
    { unfold BlankPrefix.noEol. apply Forall_app. split; [apply noEol_pfx|apply noLF_noEol; assumption]. }
    pose proof (len_pfx a) as Lp.
    split; [|split].
    - replace (len (itemPre pre)) with (len (itemPre pre) + 0) at 1 by lia. rewrite lineEnd_app_shift by lia.
      destruct He as [->|[-> ->]].
      + replace (pfx a ++ body ++ [10] ++ indentAux K true post) with ((pfx a ++ body) ++ 10 :: indentAux K true post) by (rewrite <- app_assoc; reflexivity).
        rewrite (BlankPrefix.lineEnd_first (pfx a ++ body) 10 _ Hne eq_refl). change (10 =? 10) with true. cbv iota. change (len [10]) with 1. rewrite len_app. lia.
      + cbn [app indentAux]. rewrite !app_nil_r. rewrite (lineEnd_noEol _ Hne). change (len (@nil Z)) with 0. rewrite len_app. lia.
    - replace (itemPre pre ++ pfx a ++ body ++ eol ++ indentAux K true post) with ((itemPre pre ++ pfx a ++ body ++ eol) ++ indentAux K true post)
        by (rewrite <- !app_assoc; reflexivity).
      replace (len (itemPre pre) + K + len body + len eol) with (len (itemPre pre ++ pfx a ++ body ++ eol)) by (rewrite !len_app; lia).
      rewrite BlankPrefix.upto_app_len. apply from_app.
    - rewrite !len_app. pose proof (len_nonneg (indentAux K true post)). lia.
  Qed.

  (* ---- the length of item D ---- *)
  Lemma len_item_epsBK D : D <> [] -> (exists c r, D = c :: r /\ c <> 10) -> len (item mk N D) = epsBK K D (len D).
  Proof.
    intros Hn (c & r & E & Hc). unfold item. replace (len mk + N) with K by lia. rewrite !len_app, len_spaces' by exact N_pos. rewrite len_indentAux, (cntL_removelast D false Hn). unfold epsBK.
    assert (Hl : 0 < len D) by (destruct D; [contradiction|rewrite len_cons; pose proof (len_nonneg D); lia]).
    destruct (Z.leb_spec (len D) 0); [lia|]. unfold sigmaK, nl. rewrite (upto_removelast D Hn). lia.
  Qed.
End Lines.
