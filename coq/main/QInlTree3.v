(* QInlTree3.v -- T64 (tree): the state-level operations of Inl3a.v / Inl3e.v under the relation IR of QInlDefs.v:
   nodeOf, updN, wrap, removeNode, appendKid, addNode, addText, spanEnd, isLastSpan, unpFrom, advanceTo, lfl / lookForLinkOrImage. *)
From Coq Require Import List ZArith Lia Bool.
Import ListNotations.
Require Import Base Tables Utf8 Tree Rdr Link Collect Html Recog Inl3a Inl3b Inl3c Inl3d Driver Inl3e QCutsDef QCuts QIRdrBase QInlDefs.
Require Import GI1 GI2 IFTree IS0 QInlTree1 QInlTree2.
Open Scope Z_scope.

Section QT3.
  Variables (sD sQ : bytes) (sg : Z -> Z).
  Hypothesis SG : SGood sD sQ sg.
  Notation qP := (QInlDefs.qP sD sg).
  Notation qPs := (QInlDefs.qPs sD sg).
  Notation eE := (QInlDefs.eE sg).
  Notation qN := (QInlTree1.qN sD sg).
  Notation SLn := (QInlTree1.SLn sD).
  Notation SL := (QInlTree1.SL sD).
  Notation sgl := (QInlTree1.sgl sD).
  Notation IR := (QInlDefs.IR sD sQ sg).

  (* ---------------------------------------------------------------- the position map on a stretch without line feed *)
  Lemma sg_run_nat : forall (k : nat) s, 0 <= s -> s + Z.of_nat k <= len sD -> noLFin sD s (s + Z.of_nat k) -> sg (s + Z.of_nat k) = sg s + Z.of_nat k.
  Proof.
    induction k as [|k IH]; intros s Hs He Hn; [cbn [Z.of_nat]; rewrite !Z.add_0_r; reflexivity|]. replace (s + Z.of_nat (S k)) with (s + Z.of_nat k + 1) by lia.
    assert (Hk : at_ sD (s + Z.of_nat k) <> 10) by (apply (Hn (s + Z.of_nat k)); lia).
    rewrite (SG_succ _ _ _ SG (s + Z.of_nat k) ltac:(lia) Hk). rewrite IH; [lia|lia|lia|]. intros x Hx. apply Hn. lia.
  Qed.
  Lemma sg_run s x : 0 <= s <= x -> x <= len sD -> noLFin sD s x -> sg x = sg s + (x - s).
  Proof.
    intros Hs Hx Hn. pose proof (sg_run_nat (Z.to_nat (x - s)) s ltac:(lia)) as H. rewrite Z2Nat.id in H by lia.
    replace (s + (x - s)) with x in H by lia. apply H; [lia|exact Hn].
  Qed.
  Lemma oneLine_noLF s e : 0 <= s -> e <= len sD -> noLFin sD s (e - 1) -> oneLine sg s e.
  Proof. intros Hs He Hn x Hx. apply sg_run; [lia|lia|]. intros y Hy. apply Hn. lia. Qed.
  Lemma noLF_oneLine s e : 0 <= s -> e <= len sD -> oneLine sg s e -> noLFin sD s (e - 1).
  Proof.
    intros Hs He Ho x Hx E. pose proof (SG_lf _ _ _ SG x ltac:(lia) E) as L. rewrite (Ho x), (Ho (x + 1)) in L by lia. lia.
  Qed.
  Lemma eE_lt s e : s < e -> eE s e = sg (e - 1) + 1.
  Proof. intros H. unfold QInlDefs.eE. destruct (Z.ltb_spec s e); [reflexivity|lia]. Qed.
  Lemma eE_ge s e : e <= s -> eE s e = sg s.
  Proof. intros H. unfold QInlDefs.eE. destruct (Z.ltb_spec s e); [lia|reflexivity]. Qed.
  (* the image of the end of a one-line span *)
  Lemma eE_run s e : 0 <= s <= e -> e <= len sD -> noLFin sD s (e - 1) -> eE s e = sg s + (e - s).
  Proof.
    intros Hs He Hn. destruct (Z.eq_dec s e) as [->|N]; [rewrite eE_ge by lia; lia|]. rewrite eE_lt by lia.
    rewrite (sg_run s (e - 1)) by (lia || exact Hn). lia.
  Qed.
  (* the end of a span that does not end with a line feed is mapped like a start *)
  Lemma sg_end s e : 0 <= s <= e -> e <= len sD -> (s < e -> at_ sD (e - 1) <> 10) -> sg e = eE s e.
  Proof.
    intros Hs He Hn. destruct (Z.eq_dec s e) as [->|N]; [rewrite eE_ge by lia; reflexivity|]. rewrite eE_lt by lia.
    replace e with (e - 1 + 1) at 1 by lia. apply (SG_succ _ _ _ SG); [lia|apply Hn; lia].
  Qed.
  Lemma sg_ge : forall x, 0 <= x -> x <= sg x.
  Proof.
    intros x Hx. pattern x. apply natlike_ind; [apply (SG_nn _ _ _ SG); lia| |exact Hx]. intros y Hy IH.
    pose proof (SG_mono _ _ _ SG y (Z.succ y) Hy ltac:(lia)). lia.
  Qed.
  Lemma len_sD_sQ : len sD <= len sQ.
  Proof. pose proof (SG_end_le _ _ _ SG). pose proof (SG_pos _ _ _ SG). pose proof (sg_ge (len sD - 1) ltac:(lia)). lia. Qed.

  Lemma spanLen_in s e : 0 <= s -> s <= e -> spanLen s e = e - s.
  Proof.
    intros A B. unfold spanLen. replace (0 <=? s) with true by (symmetry; apply Z.leb_le; lia).
    replace (0 <=? e) with true by (symmetry; apply Z.leb_le; lia). replace (s <=? e) with true by (symmetry; apply Z.leb_le; lia). reflexivity.
  Qed.
  Lemma spanLen_q s e : 0 <= s -> (spanLen (sg s) (eE s e) =? 0) = (spanLen s e =? 0).
  Proof.
    intros Hs. pose proof (SG_nn _ _ _ SG s Hs) as Hn. destruct (Z.lt_ge_cases s e) as [L|L].
    - rewrite eE_lt by lia. pose proof (SG_nn _ _ _ SG (e - 1) ltac:(lia)).
      assert (sg s <= sg (e - 1)) by (destruct (Z.eq_dec s (e - 1)) as [->|N]; [lia|pose proof (SG_mono _ _ _ SG s (e - 1) Hs ltac:(lia)); lia]).
      rewrite !spanLen_in by lia. destruct (Z.eqb_spec (sg (e - 1) + 1 - sg s) 0); destruct (Z.eqb_spec (e - s) 0); lia || reflexivity.
    - rewrite eE_ge by lia. rewrite spanLen_in by lia. unfold spanLen. destruct (Z.leb_spec s e).
      + assert (s = e) by lia. subst e. rewrite andb_true_r. destruct (_ && _); rewrite ?Z.sub_diag; reflexivity.
      + rewrite andb_false_r. rewrite Z.sub_diag. reflexivity.
  Qed.
  Lemma plen_qN n : 0 <= ps n <= pe n -> pe n <= len sD -> noLFin sD (ps n) (pe n - 1) -> plen (qN n) = plen n.
  Proof.
    intros Hs He Hn. unfold plen. rewrite ps_qN, pe_qN, eE_run by assumption. pose proof (SG_nn _ _ _ SG (ps n) ltac:(lia)).
    rewrite !spanLen_in by lia. lia.
  Qed.

  (* ---------------------------------------------------------------- the record fields *)
  Lemma IR_rk st st' : IR st st' -> rk st' = qPs (rk st).
  Proof. intros H. apply H. Qed.
  Lemma IR_stk st st' : IR st st' -> stk st' = stk st.
  Proof. intros H. apply H. Qed.
  Lemma IR_nid st st' : IR st st' -> nid st' = nid st.
  Proof. intros H. apply H. Qed.
  Lemma IR_setRk st st' v v' : IR st st' -> v' = qPs v -> IR (setRk st v) (setRk st' v').
  Proof. intros (A & B & C & D & E & F & G & H & I & K) Ev. unfold QInlDefs.IR. cbn. repeat split; try assumption; apply H. Qed.
  Lemma IR_setStk st st' v : IR st st' -> IR (setStk st v) (setStk st' v).
  Proof. intros (A & B & C & D & E & F & G & H & I & K). unfold QInlDefs.IR. cbn. repeat split; try assumption; apply H. Qed.
  Lemma IR_setUpos st st' v : IR st st' -> IR (setUpos st v) (setUpos st' v).
  Proof. intros (A & B & C & D & E & F & G & H & I & K). unfold QInlDefs.IR. cbn. repeat split; try assumption; apply H. Qed.
  Lemma IR_setIgn st st' v : IR st st' -> IR (setIgn st v) (setIgn st' v).
  Proof. intros (A & B & C & D & E & F & G & H & I & K). unfold QInlDefs.IR. cbn. repeat split; try assumption; apply H. Qed.
  Lemma IR_bumpId st st' : IR st st' -> IR (bumpId st) (bumpId st').
  Proof. intros (A & B & C & D & E & F & G & H & I & K). unfold QInlDefs.IR. cbn. repeat split; try assumption; try apply H. rewrite G. reflexivity. Qed.
  (* matchRef only reads the matcher *)
  Lemma matchRef_q st st' label : IR st st' -> matchRef st' label = matchRef st label.
  Proof. intros (A & B & C & D & E & F & G & H & I & K). unfold matchRef. rewrite I. reflexivity. Qed.

  (* ---------------------------------------------------------------- nodeOf *)
  Lemma fnd_occ id l q qs : occF id l = q :: qs -> exists n, fnd id l = Some n /\ sig n = q /\ pid n = id.
  Proof.
    intros H. pose proof (findNode_occ id (fsize l) l ltac:(rewrite fsize_sF; lia)) as Hf. rewrite H in Hf. exact Hf.
  Qed.
  Definition noNode : pn := PN (-1) 0 (-1) (-1) 0 [] [].
  Lemma nodeOf_q_gen st st' id : IR st st' -> SL (rk st) -> id <> 0 ->
    nodeOf st' id = match fnd id (rk st) with Some n => qN n | None => noNode end.
  Proof.
    intros HI HS Hid. unfold nodeOf. rewrite (IR_rk st st' HI).
    rewrite (findNode_q sD sg id (fsize (rk st)) (fsize (qPs (rk st))) (rk st) Hid HS) by lia.
    rewrite (fnd_fuel id (fsize (rk st)) (rk st)) by lia. destruct (fnd id (rk st)); reflexivity.
  Qed.
  Lemma nodeOf_q st st' id : IR st st' -> SL (rk st) -> id <> 0 -> fnd id (rk st) <> None -> nodeOf st' id = qN (nodeOf st id).
  Proof.
    intros HI HS Hid Hf. rewrite (nodeOf_q_gen st st' id HI HS Hid), nodeOf_fnd. fold noNode. destruct (fnd id (rk st)); [reflexivity|contradiction].
  Qed.
  Lemma nodeOf_q_occ st st' id q qs : IR st st' -> SL (rk st) -> id <> 0 -> occF id (rk st) = q :: qs -> nodeOf st' id = qN (nodeOf st id).
  Proof.
    intros HI HS Hid Ho. apply nodeOf_q; try assumption. destruct (fnd_occ id (rk st) q qs Ho) as (n & -> & _). discriminate.
  Qed.
  Lemma nodeOf_SLn st id : SL (rk st) -> fnd id (rk st) <> None -> SLn (nodeOf st id) /\ pid (nodeOf st id) = id.
  Proof.
    intros HS Hf. rewrite nodeOf_fnd. destruct (fnd id (rk st)) as [n|] eqn:E; [|contradiction].
    apply (fnd_SLn sD id (fsize (rk st)) (rk st) n); [lia|exact HS|exact E].
  Qed.

  (* ---------------------------------------------------------------- updN *)
  Lemma IR_updN st st' id g g' : IR st st' -> SL (rk st) -> id <> 0 ->
    (forall n, pid n = id -> SLn n -> In (sig n) (occF id (rk st)) -> qP (g n) = [g' (qN n)]) -> IR (updN st id g) (updN st' id g').
  Proof.
    intros HI HS Hid Hg. unfold updN. apply IR_setRk; [exact HI|]. rewrite (IR_rk st st' HI).
    apply (updNode_q sD sg id g g' Hid); [lia|lia|exact HS|exact Hg].
  Qed.
  Lemma SL_updN st id g : SL (rk st) -> (forall n, pid n = id -> SLn n -> SLn (g n)) -> SL (rk (updN st id g)).
  Proof. intros HS Hg. unfold updN. cbn [rk setRk]. apply SL_updNode; assumption. Qed.

  (* a change of the span of a node that is not cut, to a span that is not cut either *)
  Lemma qP_setSpan n s e s' e' : (splitK (pkind n) = true -> s < e -> noLFin sD s (e - 1)) -> s' = sg s -> e' = eE s e ->
    qP (setSpan n s e) = [setSpan (qN n) s' e'].
  Proof.
    intros Hn -> ->. rewrite qP_single.
    - destruct n; reflexivity.
    - unfold QInlTree1.sgl. destruct n as [i k s0 e0 ind rf ks]. cbn [setSpan pkind ps pe] in *. intros H. apply andb_true_iff in H. destruct H as [H1 H2].
      apply Z.ltb_lt in H2. apply Hn; assumption.
  Qed.
  Lemma SLn_setSpan n s e : SLn n -> (splitK (pkind n) = true -> s < e -> noLFin sD s (e - 1)) -> SLn (setSpan n s e).
  Proof.
    intros H Hn. destruct (SLn_inv sD n H) as [_ B]. destruct n as [i k s0 e0 ind rf ks]. cbn [setSpan pkind pkids] in *. constructor; [|exact B].
    intros _. unfold QInlTree1.sgl. cbn [pkind ps pe]. intros H0. apply andb_true_iff in H0. destruct H0 as [H1 H2]. apply Z.ltb_lt in H2. apply Hn; assumption.
  Qed.
  (* setRef / setKids-append keep the single image *)
  Lemma qP_setRef n r : sgl n -> qP (setRef n r) = [setRef (qN n) r].
  Proof. intros H. rewrite qP_single; [destruct n; reflexivity|destruct n; exact H]. Qed.
  Lemma SLn_setRef n r : SLn n -> SLn (setRef n r).
  Proof. intros H. destruct (SLn_inv sD n H) as [A B]. destruct n. constructor; [exact A|exact B]. Qed.

  (* ---------------------------------------------------------------- appendKid *)
  Lemma IR_appendKid st st' id k : IR st st' -> SL (rk st) -> id <> 0 -> sgl k ->
    IR (appendKid st id k) (appendKid st' id (qN k)).
  Proof.
    intros HI HS Hid Hk. unfold appendKid. apply IR_updN; try assumption. intros n Hp Sn _.
    destruct (SLn_inv sD n Sn) as [A _]. rewrite qP_single.
    - destruct n as [i kd s e ind rf ks]. cbn [setKids pkids QInlTree1.qN]. rewrite qPs_app, qPs_one, (qP_single sD sg k Hk). reflexivity.
    - apply sgl_setKids. apply A. lia.
  Qed.
  Lemma SL_appendKid st id k : SL (rk st) -> SLn k -> SL (rk (appendKid st id k)).
  Proof.
    intros HS Hk. unfold appendKid. apply SL_updN; [exact HS|]. intros n _ Sn. apply SLn_setKids; [exact Sn|].
    apply SL_app. split; [apply (SLn_inv sD n Sn)|constructor; [exact Hk|constructor]].
  Qed.

  (* ---------------------------------------------------------------- removeNode *)
  Lemma IR_removeNode st st' id : IR st st' -> IR (removeNode st id) (removeNode st' id).
  Proof.
    intros HI. unfold removeNode. apply IR_setRk; [exact HI|]. rewrite (IR_rk st st' HI). apply removeId_q; lia.
  Qed.
  Lemma SL_removeNode st id : SL (rk st) -> SL (rk (removeNode st id)).
  Proof. intros HS. unfold removeNode. cbn [rk setRk]. apply SL_removeId, HS. Qed.

  (* ---------------------------------------------------------------- wrap *)
  (* emphasis: the new node ends where the node endId starts *)
  Lemma IR_wrap_some st st' kind startId c : IR st st' -> SL (rk st) -> startId <> 0 -> c <> 0 -> splitK kind = false ->
    fnd c (rk st) <> None ->
    WC sg startId (ps (nodeOf st c)) (sg (ps (nodeOf st c))) (rk st) ->
    IR (fst (wrap st kind startId (Some c))) (fst (wrap st' kind startId (Some c))) /\
    snd (wrap st' kind startId (Some c)) = snd (wrap st kind startId (Some c)).
  Proof.
    intros HI HS Hs Hc Hk Hf HW. unfold wrap. cbn [fst snd]. split; [|apply (IR_nid st st' HI)].
    apply IR_bumpId. apply IR_setRk; [exact HI|]. rewrite (IR_rk st st' HI), (IR_nid st st' HI).
    rewrite (nodeOf_q st st' c HI HS Hc Hf), ps_qN.
    apply (wrapIn_q_some sD sg); try assumption; lia.
  Qed.
  (* link / image: the start node is at the root level, the new node ends with the root *)
  Lemma IR_wrap_none st st' kind startId : IR st st' -> SL (rk st) -> startId <> 0 -> splitK kind = false ->
    hasId startId (rk st) = true ->
    (forall sn, In sn (rk st) -> pid sn = startId -> sg (pe sn) = eE (ps sn) (pe sn) /\ pe sn < rootEnd st) ->
    IR (fst (wrap st kind startId None)) (fst (wrap st' kind startId None)) /\
    snd (wrap st' kind startId None) = snd (wrap st kind startId None).
  Proof.
    intros HI HS Hs Hk Hh Hc. unfold wrap. cbn [fst snd]. split; [|apply (IR_nid st st' HI)].
    apply IR_bumpId. apply IR_setRk; [exact HI|]. rewrite (IR_rk st st' HI), (IR_nid st st' HI).
    apply (wrapIn_q_top sD sg); try assumption; try (pose proof (fsize_pos (rk st)); pose proof (fsize_pos (qPs (rk st))); lia).
    intros sn Hin Hp. destruct (Hc sn Hin Hp) as [C1 C2]. split; [exact C1|]. cbn [endOf].
    destruct HI as (_ & _ & _ & _ & _ & _ & _ & (R1 & R2) & _). rewrite R2, eE_lt by lia. reflexivity.
  Qed.
  (* the same at any depth *)
  Lemma IR_wrap_none_gen st st' kind startId : IR st st' -> SL (rk st) -> startId <> 0 -> splitK kind = false ->
    QInlTree2.PC sD sg startId (rk st) ->
    (forall sn, In sn (rk st) -> pid sn = startId -> sg (pe sn) = eE (ps sn) (pe sn) /\ pe sn < rootEnd st) ->
    IR (fst (wrap st kind startId None)) (fst (wrap st' kind startId None)) /\
    snd (wrap st' kind startId None) = snd (wrap st kind startId None).
  Proof.
    intros HI HS Hs Hk HP Hc. unfold wrap. cbn [fst snd]. split; [|apply (IR_nid st st' HI)].
    apply IR_bumpId. apply IR_setRk; [exact HI|]. rewrite (IR_rk st st' HI), (IR_nid st st' HI).
    apply (wrapIn_q_none sD sg); try assumption; try lia.
    intros sn Hin Hp. destruct (Hc sn Hin Hp) as [C1 C2]. split; [exact C1|].
    destruct HI as (_ & _ & _ & _ & _ & _ & _ & (R1 & R2) & _). rewrite R2, eE_lt by lia. reflexivity.
  Qed.
  Lemma SL_wrap st kind startId endId : SL (rk st) -> splitK kind = false -> SL (rk (fst (wrap st kind startId endId))).
  Proof. intros HS Hk. unfold wrap. cbn [fst rk bumpId setRk]. apply SL_wrapIn; assumption. Qed.

  (* ---------------------------------------------------------------- addNode / addText *)
  Lemma IR_addNode st st' k s e kids : IR st st' -> 0 <= s -> (splitK k = true -> s < e -> noLFin sD s (e - 1)) ->
    IR (fst (addNode st k s e kids)) (fst (addNode st' k (sg s) (eE s e) (qPs kids))) /\
    snd (addNode st' k (sg s) (eE s e) (qPs kids)) = snd (addNode st k s e kids).
  Proof.
    intros HI Hs Hn. unfold addNode. rewrite (spanLen_q s e Hs). destruct (spanLen s e =? 0); cbn [fst snd]; [split; [exact HI|reflexivity]|].
    split; [|apply (IR_nid st st' HI)]. apply IR_bumpId. apply IR_setRk; [exact HI|]. rewrite (IR_rk st st' HI), (IR_nid st st' HI).
    rewrite qPs_app, qPs_one. f_equal. rewrite qP_single; [reflexivity|]. unfold QInlTree1.sgl. cbn [pkind ps pe]. intros H.
    apply andb_true_iff in H. destruct H as [H1 H2]. apply Z.ltb_lt in H2. apply Hn; assumption.
  Qed.
  Lemma SL_addNode st k s e kids : SL (rk st) -> SL kids -> (splitK k = true -> s < e -> noLFin sD s (e - 1)) ->
    SL (rk (fst (addNode st k s e kids))).
  Proof.
    intros HS HK Hn. unfold addNode. destruct (spanLen s e =? 0); cbn [fst rk bumpId setRk]; [exact HS|]. apply SL_app. split; [exact HS|].
    constructor; [|constructor]. constructor; [|exact HK]. intros _. unfold QInlTree1.sgl. cbn [pkind ps pe]. intros H.
    apply andb_true_iff in H. destruct H as [H1 H2]. apply Z.ltb_lt in H2. apply Hn; assumption.
  Qed.
  Lemma IR_addText st st' s e : IR st st' -> 0 <= s -> (s < e -> noLFin sD s (e - 1)) ->
    IR (addText st s e) (addText st' (sg s) (eE s e)).
  Proof. intros HI Hs Hn. unfold addText. apply (IR_addNode st st' TextKind s e [] HI Hs). intros _. exact Hn. Qed.
  Lemma SL_addText st s e : SL (rk st) -> (s < e -> noLFin sD s (e - 1)) -> SL (rk (addText st s e)).
  Proof. intros HS Hn. unfold addText. apply SL_addNode; [exact HS|constructor|intros _; exact Hn]. Qed.
  (* nodes made from entries (collectTextNodes) have identity 0 everywhere: no condition *)
  Lemma SLn_zid : forall n, zid n = true -> SLn n.
  Proof.
    fix IH 1. intros [i k s e ind rf ks] H. cbn [zid] in H. apply andb_true_iff in H. destruct H as [H0 Hk]. apply Z.eqb_eq in H0. subst i.
    constructor; [cbn [pid]; intros N; exfalso; apply N; reflexivity|]. cbn [pkids].
    induction ks as [|c r IHr]; [constructor|]. cbn [forallb] in Hk. apply andb_true_iff in Hk. destruct Hk as [Hc Hr]. constructor; [apply IH, Hc|apply IHr, Hr].
  Qed.
  Lemma SL_kidsOf l : SL (kidsOf l).
  Proof.
    unfold QInlTree1.SL. apply Forall_forall. intros n Hn. apply SLn_zid. unfold kidsOf in Hn. apply in_map_iff in Hn. destruct Hn as (i & <- & _).
    revert i. fix IH 1. intros [k s e ind rf ks]. cbn [ofInline zid]. rewrite Z.eqb_refl. cbn [andb].
    induction ks as [|c r IHr]; [reflexivity|]. cbn [map forallb]. rewrite (IH c), IHr. reflexivity.
  Qed.

  (* ---------------------------------------------------------------- the entries: spanEnd, isLastSpan, unpFrom, advanceTo *)
  Lemma IR_unp st st' : IR st st' -> unp st' = map (mvS sg) (unp st) /\ upos st' = upos st.
  Proof. intros (A & B & C & D & _). split; assumption. Qed.
  Lemma len_map' {A B} (f : A -> B) l : len (map f l) = len l. Proof. unfold len. rewrite map_length. reflexivity. Qed.
  Lemma isLastSpan_q st st' : IR st st' -> isLastSpan st' = isLastSpan st.
  Proof. intros H. destruct (IR_unp st st' H) as [C D]. unfold isLastSpan. rewrite C, D, len_map'. reflexivity. Qed.
  Lemma unpFrom_q st st' : IR st st' -> unpFrom st' = map (mvS sg) (unpFrom st).
  Proof. intros H. destruct (IR_unp st st' H) as [C D]. unfold unpFrom. rewrite C, D. apply from_map. Qed.
  Lemma loopCond_q st st' : IR st st' -> (upos st' <? len (unp st')) = (upos st <? len (unp st)).
  Proof. intros H. destruct (IR_unp st st' H) as [C D]. rewrite C, D, len_map'. reflexivity. Qed.
  Definition curU (st : ist) : inline := nth (Z.to_nat (upos st)) (unp st) (mkI 0 0 0).
  Lemma curU_q st st' : IR st st' -> 0 <= upos st < len (unp st) -> curU st' = mvS sg (curU st).
  Proof.
    intros H Hu. destruct (IR_unp st st' H) as [C D]. unfold curU. rewrite C, D.
    rewrite (nth_indep _ (mkI 0 0 0) (mvS sg (mkI 0 0 0))) by (rewrite map_length; unfold len in Hu; lia). apply map_nth.
  Qed.
  (* inside the entry list: the end of the current entry, moved by the shift of that entry *)
  Lemma spanEnd_q st st' : IR st st' -> 0 <= upos st < len (unp st) ->
    spanEnd st = iend (curU st) /\ spanEnd st' = sg (istart (curU st)) + (iend (curU st) - istart (curU st)).
  Proof.
    intros H Hu. pose proof (curU_q st st' H Hu) as Ec. destruct (IR_unp st st' H) as [C D]. unfold spanEnd.
    rewrite C, D, len_map'. destruct (Z.leb_spec (len (unp st)) (upos st)); [lia|]. split; [reflexivity|].
    rewrite <- C, <- D. fold (curU st'). rewrite Ec. apply iend_mvS.
  Qed.
  Lemma spanEnd_q_gsp IK st st' : IR st st' -> 0 <= upos st < len (unp st) -> gsp sD sg IK (curU st) ->
    spanEnd st' = sg (spanEnd st - 1) + 1 /\ spanEnd st' = eE (istart (curU st)) (spanEnd st) /\ istart (curU st) < spanEnd st <= len sD.
  Proof.
    intros H Hu G. destruct (spanEnd_q st st' H Hu) as [E1 E2]. pose proof G as (A & B & C & T & _).
    rewrite E2, E1. rewrite eE_lt by lia. rewrite (T (iend (curU st) - 1)) by lia. repeat split; lia.
  Qed.
  (* behind the entry list: the end of the last entry *)
  Lemma spanEnd_q_last st st' u pre : IR st st' -> len (unp st) <= upos st -> unp st = pre ++ [u] ->
    spanEnd st = iend u /\ spanEnd st' = sg (istart u) + (iend u - istart u).
  Proof.
    intros H Hu E. destruct (IR_unp st st' H) as [C D]. unfold spanEnd. rewrite C, D, len_map'.
    destruct (Z.leb_spec (len (unp st)) (upos st)); [|lia]. rewrite E, map_app, !rev_app_distr. cbn [map rev app]. split; [reflexivity|apply iend_mvS].
  Qed.

  Lemma IR_advanceTo IK st st' pos : IR st st' -> Forall (gsp sD sg IK) (unpFrom st) -> 0 <= pos <= len sD ->
    IR (advanceTo st pos) (advanceTo st' (QIRdrBase.sgE sD sg pos)).
  Proof.
    intros H G Hp. unfold advanceTo. rewrite (unpFrom_q st st' H). unfold nodeIndexForPosition.
    rewrite (bnodeIdx_mvS sD sQ sg IK SG _ pos 0 G Hp). destruct (IR_unp st st' H) as [C D]. rewrite D, C, len_map'.
    destruct (0 <=? _); apply IR_setUpos, H.
  Qed.
  (* the usual argument: one behind a byte that is not a line feed *)
  Lemma sgE_after p : 0 <= p < len sD -> at_ sD p <> 10 -> QIRdrBase.sgE sD sg (p + 1) = sg p + 1.
  Proof. intros Hp Hn. apply (bsgE_succ sD sQ sg SG); [exact Hp|left; exact Hn]. Qed.

  (* ---------------------------------------------------------------- lfl / lookForLinkOrImage *)
  Lemma lfl_q : forall f st st' i, IR st st' -> IR (fst (lfl f st i)) (fst (lfl f st' i)) /\ snd (lfl f st' i) = snd (lfl f st i).
  Proof.
    induction f as [|f IH]; intros st st' i H; cbn [lfl]; [split; [exact H|reflexivity]|].
    destruct (i <? 0); [split; [exact H|reflexivity]|]. rewrite (IR_stk st st' H).
    destruct (_ || _); [|apply IH, H]. destruct (negb _); cbn [fst snd]; [split; [apply IR_setStk, H|reflexivity]|split; [exact H|reflexivity]].
  Qed.
  Lemma IR_lookForLinkOrImage st st' : IR st st' ->
    IR (fst (lookForLinkOrImage st)) (fst (lookForLinkOrImage st')) /\ snd (lookForLinkOrImage st') = snd (lookForLinkOrImage st).
  Proof. intros H. unfold lookForLinkOrImage. rewrite (IR_stk st st' H). apply lfl_q, H. Qed.
  Lemma lfl_rk : forall f st i, rk (fst (lfl f st i)) = rk st /\ nid (fst (lfl f st i)) = nid st /\ unp (fst (lfl f st i)) = unp st /\ upos (fst (lfl f st i)) = upos st.
  Proof.
    induction f as [|f IH]; intros st i; cbn [lfl]; [repeat split|]. destruct (i <? 0); [repeat split|].
    destruct (_ || _); [|apply IH]. destruct (negb _); repeat split.
  Qed.
End QT3.
