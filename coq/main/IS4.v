From Coq Require Import List ZArith Lia Bool.
Import ListNotations.
Require Import Base Tables Utf8 Tree Rdr Link Collect Html Recog Inl3a Inl3b Inl3c Inl3d Inl3e Props PEProof.
Require Import GI0 GI1 GI2 GI3 GI4 ShapesBase IS0 IS2 IS1 IS3.
Open Scope Z_scope.

(* ================================================================== *)
(* IS4: processEmphasis keeps J.  The matched pair: the delimiter      *)
(* nodes are shrunk at their facing ends, the new Emphasis / Strong    *)
(* node spans from the opener's new end to the closer's new start.     *)
(* ================================================================== *)

(* ---------------------------------------------------------------- state-level occurrence facts *)
Lemma rk_updN st id g : rk (updN st id g) = updNode (fsize (rk st)) id g (rk st). Proof. reflexivity. Qed.
Lemma rk_wrap st kind a b : rk (fst (wrap st kind a b)) =
  wrapIn (fsize (rk st)) (nid st) kind a b (match b with Some i => Some (ps (nodeOf st i)) | None => None end) (rootEnd st) (rk st).
Proof. reflexivity. Qed.
Lemma rk_removeNode st id : rk (removeNode st id) = removeId (fsize (rk st)) id (rk st). Proof. reflexivity. Qed.

Definition spanG (f1 f2 : Z -> Z -> Z) (q : sg) : sg := (sgK q, f1 (sgS q) (sgE q), f2 (sgS q) (sgE q), sgL q).
Lemma occ_updN_span st id f1 f2 q : occF id (rk st) = [q] -> sgL q = true ->
  occF id (rk (updN st id (fun n => setSpan n (f1 (ps n) (pe n)) (f2 (ps n) (pe n))))) = [spanG f1 f2 q].
Proof.
  intros Hq Hl. rewrite rk_updN.
  rewrite (occF_updNode_same id _ (spanG f1 f2)); [rewrite Hq; reflexivity| |rewrite fsize_sF; lia|rewrite Hq; constructor; [exact Hl|constructor]].
  intros n Hp Hk. destruct n as [i k s e ind rf ks]. cbn [pid pkids setSpan] in *. subst ks. repeat split; assumption.
Qed.
Lemma occ_updN_other st id id' g : id <> id' -> (forall n, pid (g n) = pid n) -> (forall n, pkids (g n) = pkids n) ->
  occF id (rk (updN st id' g)) = occF id (rk st).
Proof. intros Hne Hp Hk. rewrite rk_updN. apply occF_updNode_other; [exact Hne|exact Hp|]. intros n _. rewrite Hk. reflexivity. Qed.
Lemma occ_wrap st id kind a b : id <> nid st -> occF id (rk (fst (wrap st kind a b))) = occF id (rk st).
Proof. intros Hne. rewrite rk_wrap. apply occF_wrapIn, Hne. Qed.
Lemma occ_remove st id o : id <> o -> Forall (fun q => sgL q = true) (occF o (rk st)) -> Forall (fun q => sgL q = true) (occF id (rk st)) ->
  occF id (rk (removeNode st o)) = occF id (rk st).
Proof. intros Hne H1 H2. rewrite rk_removeNode. apply occF_removeId; assumption. Qed.

Lemma plen_sig n k s e l : sig n = (k, s, e, l) -> plen n = spanLen s e.
Proof. unfold sig, plen. intros H. inversion H. reflexivity. Qed.
Lemma spanLen_pos s e : 0 <= s -> s <= e -> spanLen s e = e - s.
Proof.
  intros A B. unfold spanLen. replace (0 <=? s) with true by (symmetry; apply Z.leb_le; lia).
  replace (0 <=? e) with true by (symmetry; apply Z.leb_le; lia). replace (s <=? e) with true by (symmetry; apply Z.leb_le; lia). reflexivity.
Qed.

Section PE.
  Variable src : bytes.
  Variable U : list inline.
  Notation J := (J src U).
  Notation chain := (chain src).
  Notation dOK := (dOK src).

  (* an identity whose node lies outside a chain's range is not in the chain *)
  Lemma chain_other rk stk lo hi id s0 e0 : chain rk lo stk hi -> occF id rk = [(TextKind, s0, e0, true)] -> s0 < e0 ->
    (hi <= s0 \/ e0 <= lo) -> forall d, In d stk -> d_node d <> id.
  Proof.
    intros Hc Ho Hlt Hpos d Hd E. destruct (chain_In src rk stk lo hi d Hc Hd) as (s & e & A & B & C & D & _).
    rewrite E, Ho in A. inversion A. lia.
  Qed.

  Lemma runOf_sub c s e s' e' : runOf src c s e -> s <= s' -> e' <= e -> runOf src c s' e'.
  Proof. intros H A B i Hi. apply H. lia. Qed.

  (* the byte of an emphasis delimiter *)
  Lemma dOK_emph d s e : (d_typ d = tStar \/ d_typ d = tUnder) -> dOK d s e ->
    exists ch, (ch = 42 \/ ch = 95) /\ runOf src ch s e /\ (ch = 42 <-> d_typ d = tStar).
  Proof.
    unfold IS3.dOK, tStar, tUnder, tLink, tImage. intros Ht [(T & R)|[(T & R)|[(T & _)|(T & _)]]].
    - exists 42. split; [left; reflexivity|]. split; [exact R|]. split; intros; [exact T|reflexivity].
    - exists 95. split; [right; reflexivity|]. split; [exact R|]. split; intros H; [discriminate|]. rewrite T in H. discriminate.
    - destruct Ht as [Ht|Ht]; rewrite Ht in T; discriminate.
    - destruct Ht as [Ht|Ht]; rewrite Ht in T; discriminate.
  Qed.
  Lemma dOK_run d ch s e : (ch = 42 /\ d_typ d = tStar) \/ (ch = 95 /\ d_typ d = tUnder) -> runOf src ch s e -> dOK d s e.
  Proof. unfold IS3.dOK. intros [(-> & T)|(-> & T)] R; [left|right; left]; split; assumption. Qed.

  (* ---------------------------------------------------------------- one matched pair *)
  Lemma pe_pair hi st P o D2 c D3 :
    J hi st -> stk st = P ++ o :: D2 ++ c :: D3 -> d_typ o = d_typ c -> (d_typ c = tStar \/ d_typ c = tUnder) ->
    let strong := (2 <=? plen (nodeOf st (d_node o))) && (2 <=? plen (nodeOf st (d_node c))) in
    let k := if strong then 2 else 1 in
    let kind := if strong then StrongKind else EmphasisKind in
    let st2 := updN (updN st (d_node o) (fun n => setSpan n (ps n) (pe n - k))) (d_node c) (fun n => setSpan n (ps n + k) (pe n)) in
    let st3 := fst (wrap st2 kind (d_node o) (Some (d_node c))) in
    let b1 := plen (nodeOf st3 (d_node o)) =? 0 in
    let st5 := if b1 then removeNode st3 (d_node o) else st3 in
    let b2 := plen (nodeOf st5 (d_node c)) =? 0 in
    let st6 := if b2 then removeNode st5 (d_node c) else st5 in
    J hi (setStk st6 (P ++ (if b1 then [] else [o]) ++ (if b2 then [] else [c]) ++ D3)).
  Proof.
    intros HJ Es Htyp Htc. destruct HJ as [A B C D E F G V].
    pose proof G as G0. rewrite Es in G0.
    destruct (chain_two src _ _ _ _ _ _ _ _ G0) as (so & eo & sc & ec & Oo & Oc & Hso & Hlo & Hoc & Hlc & Hec & Do & Dc & Hne).
    apply chain_app in G0. destruct G0 as (m1 & GP & G0). destruct G0 as (so' & eo' & Oo' & Hm1 & _ & _ & G0).
    rewrite Oo in Oo'. inversion Oo'; subst so' eo'. clear Oo'.
    apply chain_app in G0. destruct G0 as (m2 & G2 & G0). destruct G0 as (sc' & ec' & Oc' & Hm2 & _ & _ & G3).
    rewrite Oc in Oc'. inversion Oc'; subst sc' ec'. clear Oc'.
    destruct (dOK_emph o so eo ltac:(rewrite Htyp; exact Htc) Do) as (ch & Hch & Ro & Tch).
    destruct (dOK_emph c sc ec Htc Dc) as (ch' & Hch' & Rc & Tch').
    assert (ch' = ch).
    { destruct Hch as [-> | ->], Hch' as [-> | ->]; try reflexivity; exfalso.
      - destruct Tch as [T _]. specialize (T eq_refl). rewrite Htyp in T. destruct Tch' as [_ T']. specialize (T' T). discriminate.
      - destruct Tch' as [T _]. specialize (T eq_refl). rewrite <- Htyp in T. destruct Tch as [_ T']. specialize (T' T). discriminate. }
    subst ch'.
    (* the sizes *)
    pose proof (nodeOf_occ st _ _ Oo) as So. pose proof (nodeOf_occ st _ _ Oc) as Sc.
    rewrite (plen_sig _ _ _ _ _ So), (plen_sig _ _ _ _ _ Sc), !spanLen_pos by lia.
    intros strong k kind.
    assert (Hk : 1 <= k <= 2 /\ k <= eo - so /\ k <= ec - sc /\ (k = 2 <-> strong = true)).
    { unfold k, strong. destruct (Z.leb_spec 2 (eo - so)), (Z.leb_spec 2 (ec - sc)); cbn [andb]; repeat split; intros; try lia; try discriminate. }
    destruct Hk as (Hk1 & Hko & Hkc & Hks).
    (* the identities *)
    assert (Ho_in : In o (stk st)) by (rewrite Es; apply in_or_app; right; left; reflexivity).
    assert (Hc_in : In c (stk st)) by (rewrite Es; apply in_or_app; right; right; apply in_or_app; right; left; reflexivity).
    pose proof E as E'. rewrite Forall_forall in E'. pose proof (E' o Ho_in) as Ro_id. pose proof (E' c Hc_in) as Rc_id.
    (* st1, st2 *)
    set (g1 := fun n : pn => setSpan n (ps n) (pe n - k)). set (g2 := fun n : pn => setSpan n (ps n + k) (pe n)).
    set (st1 := updN st (d_node o) g1). set (st2 := updN st1 (d_node c) g2).
    assert (Hg1 : (forall n, pid (g1 n) = pid n) /\ (forall n, pkids (g1 n) = pkids n)) by (split; intros [? ? ? ? ? ? ?]; reflexivity).
    assert (Hg2 : (forall n, pid (g2 n) = pid n) /\ (forall n, pkids (g2 n) = pkids n)) by (split; intros [? ? ? ? ? ? ?]; reflexivity).
    assert (O1o : occF (d_node o) (rk st1) = [(TextKind, so, eo - k, true)]).
    { exact (occ_updN_span st (d_node o) (fun s _ => s) (fun _ e => e - k) _ Oo eq_refl). }
    assert (O1x : forall id, id <> d_node o -> occF id (rk st1) = occF id (rk st)).
    { intros id Hid. apply occ_updN_other; [exact Hid|apply Hg1|apply Hg1]. }
    assert (O2c : occF (d_node c) (rk st2) = [(TextKind, sc + k, ec, true)]).
    { apply (occ_updN_span st1 (d_node c) (fun s _ => s + k) (fun _ e => e) (TextKind, sc, ec, true)); [|reflexivity].
      rewrite O1x by (intros E0; apply Hne; symmetry; exact E0). exact Oc. }
    assert (O2x : forall id, id <> d_node c -> occF id (rk st2) = occF id (rk st1)).
    { intros id Hid. apply occ_updN_other; [exact Hid|apply Hg2|apply Hg2]. }
    assert (O2o : occF (d_node o) (rk st2) = [(TextKind, so, eo - k, true)]) by (rewrite O2x by exact Hne; exact O1o).
    (* the forest predicates on st2 *)
    assert (Hsp : forall (f1 f2 : pn -> Z) n, isC (pkind n) = false -> cok src (sids (stk st)) (nid st) n = true ->
              cok src (sids (stk st)) (nid st) (setSpan n (f1 n) (f2 n)) = true) by (intros f1 f2 n; apply good_setSpan).
    assert (Hmem : forall d, In d (stk st) -> memZ (d_node d) (sids (stk st)) = true).
    { intros d Hd. apply memZ_In. unfold sids. apply in_map, Hd. }
    assert (F2 : cokF src (sids (stk st)) (nid st) (rk st2) = true).
    { unfold st2, st1. rewrite !rk_updN. apply updNode_cok; [left; apply Hmem, Hc_in|intros n; apply (Hsp (fun n => ps n + k) (fun n => pe n))|].
      apply updNode_cok; [left; apply Hmem, Ho_in|intros n; apply (Hsp (fun n => ps n) (fun n => pe n - k))|exact F]. }
    assert (Hidbg : forall (f1 f2 : pn -> Z) n, idb (nid st) n = true -> idb (nid st) (setSpan n (f1 n) (f2 n)) = true)
      by (intros f1 f2 [? ? ? ? ? ? ?] H; exact H).
    assert (D2' : forallb (idb (nid st)) (rk st2) = true).
    { unfold st2, st1. rewrite !rk_updN. apply updNode_idb; [intros n; apply (Hidbg (fun n => ps n + k) (fun n => pe n))|].
      apply updNode_idb; [intros n; apply (Hidbg (fun n => ps n) (fun n => pe n - k))|exact D]. }
    assert (V1 : vokF src (rk st1) = true).
    { unfold st1. rewrite rk_updN. apply (updNode_vok_span src (d_node o) (fun s _ => s) (fun _ e => e - k)); [|exact V].
      intros q Hq. rewrite Oo in Hq. destruct Hq as [<-|[]]. cbn [sgS sgE fst snd].
      pose proof (in_src src (eo - 1) ltac:(rewrite (Ro (eo - 1)) by lia; destruct Hch as [-> | ->]; discriminate)).
      apply span_valid_intro; lia. }
    assert (V2 : vokF src (rk st2) = true).
    { unfold st2. rewrite rk_updN. apply (updNode_vok_span src (d_node c) (fun s _ => s + k) (fun _ e => e)); [|exact V1].
      intros q Hq. rewrite (O1x (d_node c)) in Hq by (intros E0; apply Hne; symmetry; exact E0). rewrite Oc in Hq. destruct Hq as [<-|[]].
      cbn [sgS sgE fst snd]. pose proof (in_src src (ec - 1) ltac:(rewrite (Rc (ec - 1)) by lia; destruct Hch as [-> | ->]; discriminate)).
      apply span_valid_intro; lia. }
    (* the wrap *)
    pose proof (nodeOf_occ st2 _ _ O2c) as Sc2.
    assert (Eps : ps (nodeOf st2 (d_node c)) = sc + k) by (unfold sig in Sc2; inversion Sc2; reflexivity).
    set (st3 := fst (wrap st2 kind (d_node o) (Some (d_node c)))).
    assert (Hnid2 : nid st2 = nid st) by reflexivity.
    assert (Hstk2 : stk st2 = stk st) by reflexivity.
    assert (Hshape : nOK src kind (eo - k) (sc + k) = true).
    { unfold kind. destruct strong eqn:Est.
      - assert (k = 2) by (apply Hks; reflexivity).
        apply (strong_shape src ch); try assumption; try lia; [apply Ro|apply Ro|apply Rc|apply Rc]; lia.
      - assert (k = 1) by (destruct Hks as [Hks _]; destruct (Z.eq_dec k 2) as [Ek|Ek]; [specialize (Hks Ek); discriminate|lia]).
        apply (emph_shape src ch); try assumption; try lia; [apply Ro|apply Rc]; lia. }
    assert (F3 : cokF src (sids (stk st)) (nid st + 1) (rk st3) = true).
    { unfold st3. rewrite rk_wrap, Eps, Hnid2. apply wrapIn_cok; [lia|apply (sidsN st E)| |].
      - intros q Hq. rewrite O2o in Hq. destruct Hq as [<-|[]]. exact Hshape.
      - eapply cokF_mono; [intros x Hx; exact Hx| |exact F2]. lia. }
    assert (V3 : vokF src (rk st3) = true).
    { unfold st3. rewrite rk_wrap, Eps, Hnid2. apply wrapIn_vok; [|exact V2].
      intros q Hq. rewrite O2o in Hq. destruct Hq as [<-|[]]. cbn [sgE fst snd].
      unfold nOK in Hshape. apply andb_true_iff in Hshape. apply Hshape. }
    assert (D3' : forallb (idb (nid st + 1)) (rk st3) = true).
    { unfold st3. rewrite rk_wrap, Hnid2. apply wrapIn_idb; [lia|]. apply (idbF_mono (nid st)); [lia|exact D2']. }
    assert (O3x : forall d, In d (stk st) -> occF (d_node d) (rk st3) = occF (d_node d) (rk st2)).
    { intros d Hd. apply occ_wrap. rewrite Hnid2. specialize (E' d Hd). lia. }
    assert (O3o : occF (d_node o) (rk st3) = [(TextKind, so, eo - k, true)]) by (rewrite O3x by exact Ho_in; exact O2o).
    assert (O3c : occF (d_node c) (rk st3) = [(TextKind, sc + k, ec, true)]) by (rewrite O3x by exact Hc_in; exact O2c).
    (* entries of P and D3 are untouched so far *)
    assert (HP : forall d, In d P -> d_node d <> d_node o /\ d_node d <> d_node c).
    { intros d Hd. split.
      - apply (chain_other _ _ _ _ _ so eo GP Oo Hlo); [left; lia|exact Hd].
      - apply (chain_other _ _ _ _ _ sc ec GP Oc Hlc); [left; lia|exact Hd]. }
    assert (HD3 : forall d, In d D3 -> d_node d <> d_node o /\ d_node d <> d_node c).
    { intros d Hd. split.
      - apply (chain_other _ _ _ _ _ so eo G3 Oo Hlo); [right; lia|exact Hd].
      - apply (chain_other _ _ _ _ _ sc ec G3 Oc Hlc); [right; lia|exact Hd]. }
    assert (Hin_st : forall d, In d P \/ In d D3 -> In d (stk st)).
    { intros d [Hd|Hd]; rewrite Es; apply in_or_app; [left; exact Hd|right; right; apply in_or_app; right; right; exact Hd]. }
    assert (O3r : forall d, In d P \/ In d D3 -> occF (d_node d) (rk st3) = occF (d_node d) (rk st)).
    { intros d Hd. assert (Hn : d_node d <> d_node o /\ d_node d <> d_node c) by (destruct Hd as [Hd|Hd]; [apply HP|apply HD3]; exact Hd).
      rewrite O3x by (apply Hin_st, Hd). rewrite O2x by apply Hn. apply O1x. apply Hn. }
    (* childlessness of every entry's node *)
    assert (Hleaf : forall d, In d P \/ In d D3 -> Forall (fun q => sgL q = true) (occF (d_node d) (rk st3))).
    { intros d Hd. rewrite (O3r d Hd). destruct (chain_In src _ _ _ _ d G (Hin_st d Hd)) as (s & e & Od & _). rewrite Od. constructor; [reflexivity|constructor]. }
    (* the removals *)
    pose proof (nodeOf_occ st3 _ _ O3o) as So3.
    intros st2' st3' b1. change st2' with st2 in *. change st3' with st3 in *.
    assert (Eb1 : b1 = (eo - k - so =? 0)) by (unfold b1; rewrite (plen_sig _ _ _ _ _ So3), spanLen_pos by lia; reflexivity).
    intros st5.
    assert (O5 : forall d, In d (stk st) -> d_node d <> d_node o -> occF (d_node d) (rk st5) = occF (d_node d) (rk st3)).
    { intros d Hd Hn. unfold st5. destruct b1; [|reflexivity]. apply occ_remove; [exact Hn|rewrite O3o; constructor; [reflexivity|constructor]|].
      rewrite (O3x d Hd). destruct (Z.eq_dec (d_node d) (d_node c)) as [Ec|Ec]; [rewrite Ec, O2c; constructor; [reflexivity|constructor]|].
      rewrite O2x by exact Ec. rewrite O1x by exact Hn. destruct (chain_In src _ _ _ _ d G Hd) as (s & e & Od & _). rewrite Od. constructor; [reflexivity|constructor]. }
    assert (O5c : occF (d_node c) (rk st5) = [(TextKind, sc + k, ec, true)]).
    { rewrite O5; [exact O3c|exact Hc_in|intros E0; apply Hne; symmetry; exact E0]. }
    assert (O5o : b1 = false -> occF (d_node o) (rk st5) = [(TextKind, so, eo - k, true)]) by (intros Hb; unfold st5; rewrite Hb; exact O3o).
    pose proof (nodeOf_occ st5 _ _ O5c) as Sc5.
    intros b2.
    assert (Eb2 : b2 = (ec - (sc + k) =? 0)) by (unfold b2; rewrite (plen_sig _ _ _ _ _ Sc5), spanLen_pos by lia; reflexivity).
    intros st6.
    assert (O6 : forall d, In d (stk st) -> d_node d <> d_node c -> (d_node d = d_node o -> b1 = false) ->
              occF (d_node d) (rk st6) = occF (d_node d) (rk st5)).
    { intros d Hd Hn Hob. unfold st6. destruct b2; [|reflexivity]. apply occ_remove; [exact Hn|rewrite O5c; constructor; [reflexivity|constructor]|].
      destruct (Z.eq_dec (d_node d) (d_node o)) as [Eo|Eo]; [rewrite Eo, (O5o (Hob Eo)); constructor; [reflexivity|constructor]|].
      rewrite (O5 d Hd Eo). rewrite (O3x d Hd). rewrite O2x by exact Hn. rewrite O1x by exact Eo.
      destruct (chain_In src _ _ _ _ d G Hd) as (s & e & Od & _). rewrite Od. constructor; [reflexivity|constructor]. }
    assert (O6r : forall d, In d P \/ In d D3 -> occF (d_node d) (rk st6) = occF (d_node d) (rk st)).
    { intros d Hd. assert (Hn : d_node d <> d_node o /\ d_node d <> d_node c) by (destruct Hd as [Hd|Hd]; [apply HP|apply HD3]; exact Hd).
      rewrite O6; [|apply Hin_st, Hd|apply Hn|intros E0; destruct Hn as [Hn _]; contradiction].
      rewrite O5; [|apply Hin_st, Hd|apply Hn]. apply O3r, Hd. }
    assert (O6o : b1 = false -> occF (d_node o) (rk st6) = [(TextKind, so, eo - k, true)]).
    { intros Hb. rewrite O6; [apply O5o, Hb|exact Ho_in|exact Hne|intros _; exact Hb]. }
    assert (O6c : b2 = false -> occF (d_node c) (rk st6) = [(TextKind, sc + k, ec, true)]) by (intros Hb; unfold st6; rewrite Hb; exact O5c).
    (* fields of st6 *)
    assert (N6 : nid st6 = nid st + 1) by (unfold st6, st5; destruct b2, b1; reflexivity).
    assert (I6 : isrc st6 = isrc st /\ unp st6 = unp st) by (unfold st6, st5; destruct b2, b1; split; reflexivity).
    assert (D6 : forallb (idb (nid st + 1)) (rk st6) = true).
    { unfold st6, st5. destruct b2, b1; rewrite ?rk_removeNode; repeat apply removeId_idb; exact D3'. }
    assert (F6 : cokF src (sids (stk st)) (nid st + 1) (rk st6) = true).
    { unfold st6, st5. destruct b2, b1; rewrite ?rk_removeNode; repeat apply removeId_cok; exact F3. }
    assert (V6 : vokF src (rk st6) = true).
    { unfold st6, st5. destruct b2, b1; rewrite ?rk_removeNode; repeat apply removeId_vok; exact V3. }
    (* assemble *)
    set (stk' := P ++ (if b1 then [] else [o]) ++ (if b2 then [] else [c]) ++ D3).
    assert (Hincl : incl stk' (stk st)).
    { unfold stk'. rewrite Es. intros x Hx. apply in_app_or in Hx. apply in_or_app. destruct Hx as [Hx|Hx]; [left; exact Hx|right].
      apply in_app_or in Hx. destruct Hx as [Hx|Hx]; [destruct b1; [contradiction|destruct Hx as [<-|[]]; left; reflexivity]|].
      right. apply in_or_app. right. apply in_app_or in Hx. destruct Hx as [Hx|Hx]; [destruct b2; [contradiction|destruct Hx as [<-|[]]; left; reflexivity]|right; exact Hx]. }
    constructor; cbn [setStk isrc unp nid rk stk]; rewrite ?N6.
    - rewrite (proj1 I6). exact A.
    - rewrite (proj2 I6). exact B.
    - lia.
    - exact D6.
    - apply Forall_forall. intros d Hd. specialize (E' d (Hincl d Hd)). lia.
    - eapply cokF_mono; [| apply Z.le_refl |exact F6]. intros x Hx. apply memZ_In in Hx. apply memZ_In. unfold sids in *.
      apply in_map_iff in Hx. destruct Hx as (d & <- & Hd). apply in_map, Hincl, Hd.
    - unfold stk'. apply chain_app. exists m1. split.
      { apply (chain_ext src (rk st)); [|exact GP]. intros d Hd. apply O6r. left. exact Hd. }
      assert (G3' : chain (rk st6) ec D3 hi).
      { apply (chain_ext src (rk st)); [|exact G3]. intros d Hd. apply O6r. right. exact Hd. }
      assert (Gc : chain (rk st6) (eo - k) ((if b2 then [] else [c]) ++ D3) hi).
      { destruct b2 eqn:Hb2.
        - cbn [app]. apply (chain_weaken src _ _ ec hi); [lia|lia|exact G3'].
        - cbn [app chain]. exists (sc + k), ec. split; [apply O6c; reflexivity|]. split; [lia|]. split.
          + symmetry in Eb2. apply Z.eqb_neq in Eb2. lia.
          + split; [|exact G3']. apply (dOK_run c ch); [|apply (runOf_sub ch sc ec); [exact Rc|lia|lia]].
            destruct Hch as [-> | ->]; [left; split; [reflexivity|apply Tch'; reflexivity]|right; split; [reflexivity|]].
            destruct Htc as [T|T]; [|exact T]. destruct Tch' as [_ T']. specialize (T' T). discriminate. }
      destruct b1 eqn:Hb1.
      + cbn [app]. apply (chain_weaken src _ _ (eo - k) hi); [lia|lia|exact Gc].
      + cbn [app chain]. exists so, (eo - k). split; [apply O6o; reflexivity|]. split; [lia|]. split.
        * symmetry in Eb1. apply Z.eqb_neq in Eb1. lia.
        * split; [|exact Gc]. apply (dOK_run o ch); [|apply (runOf_sub ch so eo); [exact Ro|lia|lia]].
          destruct Hch as [-> | ->]; [left; split; [reflexivity|apply Tch; reflexivity]|right; split; [reflexivity|]].
          rewrite Htyp. destruct Htc as [T|T]; [|exact T]. rewrite <- Htyp in T. destruct Tch as [_ T']. specialize (T' T). discriminate.
    - exact V6.
  Qed.
End PE.

Lemma nodeOf_setStk st v id : nodeOf (setStk st v) id = nodeOf st id. Proof. reflexivity. Qed.
Lemma isEmphMatch_typ o c : isEmphMatch o c = true -> d_typ o = d_typ c.
Proof.
  unfold isEmphMatch. intros H. repeat (apply andb_true_iff in H; destruct H as [H ?]).
  match goal with E : (d_typ o =? d_typ c) = true |- _ => apply Z.eqb_eq in E; exact E end.
Qed.
Lemma closerLike_typ c : closerLike c = true -> d_typ c = tStar \/ d_typ c = tUnder.
Proof.
  unfold closerLike. intros H. apply andb_true_iff in H. destruct H as [H _]. apply orb_true_iff in H.
  destruct H as [H|H]; apply Z.eqb_eq in H; tauto.
Qed.

Section PELoop.
  Variable src : bytes.
  Variable U : list inline.
  Notation J := (J src U).

  Lemma pe_loop_J : forall fuel hi st ob cp, J hi st -> OBI 0 ob -> 0 <= cp -> J hi (pe_loop fuel st ob cp).
  Proof.
    induction fuel as [|f IH]; intros hi st ob cp HJ HO Hcp; [exact HJ|].
    cbn [pe_loop].
    remember (pe_findCloser (S (length (stk st))) (stk st) cp) as cp1 eqn:Ecp1.
    destruct (Z.ltb_spec cp1 0) as [Hneg|Hpos]; [exact HJ|].
    destruct (findCloser_spec _ _ _ _ (eq_sym Ecp1) Hpos) as [Hcp1 Hcl].
    remember (nthD (stk st) cp1) as c eqn:Ec.
    pose proof (obIndex_range c Hcl) as Hobi.
    remember (getOB ob (obIndex c)) as lo eqn:Elo.
    assert (Hlo : 0 <= lo) by (subst lo; apply HO; unfold OBN; lia).
    remember (pe_findOpener (S (length (stk st))) (stk st) (cp1 - 1) lo c) as oi eqn:Eoi.
    destruct (Z.leb_spec lo oi) as [Hfound|Hnone].
    - (* a pair *)
      pose proof (findOpener_spec (stk st) c lo (S (length (stk st))) (cp1 - 1)) as Hs.
      assert (Hf : (Z.to_nat (cp1 - 1 - lo + 1) < S (length (stk st)))%nat) by (unfold len in *; lia).
      specialize (Hs Hf). cbn zeta in Hs. rewrite <- Eoi in Hs.
      destruct Hs as [(A1 & _)|(Hoi & Hmatch & _)]; [lia|].
      remember (nthD (stk st) oi) as o eqn:Eo.
      destruct (split_at2 (stk st) oi cp1 ltac:(lia) ltac:(lia) ltac:(lia)) as (P & D2s & D3s & Esplit & HlenP & HlenD2).
      rewrite <- Eo, <- Ec in Esplit.
      pose proof (pe_pair src U hi st P o D2s c D3s HJ Esplit (isEmphMatch_typ o c Hmatch) (closerLike_typ c Hcl)) as Hpair.
      cbv zeta in Hpair.
      match goal with |- context [wrap ?A ?K ?X ?Y] => remember K as kind eqn:EK end.
      match goal with |- context [wrap (updN (updN st _ ?G1) _ ?G2) kind _ _] => remember G1 as g1 eqn:Eg1; remember G2 as g2 eqn:Eg2 end.
      destruct (wrap (updN (updN st (d_node o) g1) (d_node c) g2) kind (d_node o) (Some (d_node c))) as [st3 wid] eqn:Ew.
      assert (E3 : fst (wrap (updN (updN st (d_node o) g1) (d_node c) g2) kind (d_node o) (Some (d_node c))) = st3) by (rewrite Ew; reflexivity).
      cbn [fst] in Hpair.
      assert (Es3 : stk st3 = P ++ [o] ++ D2s ++ c :: D3s).
      { rewrite <- E3. rewrite stk_wrap, !stk_updN. exact Esplit. }
      assert (Ed1 : delStack (stk st3) (oi + 1) cp1 = P ++ [o] ++ [c] ++ D3s).
      { rewrite Es3. replace (P ++ [o] ++ D2s ++ c :: D3s) with ((P ++ [o]) ++ D2s ++ (c :: D3s)) by (rewrite <- !app_assoc; reflexivity).
        replace (oi + 1) with (len (P ++ [o])) by (rewrite len_app; change (len [o]) with 1; lia).
        replace cp1 with (len (P ++ [o]) + len D2s) by (rewrite len_app; change (len [o]) with 1; lia).
        rewrite delStack_app3. rewrite <- !app_assoc. reflexivity. }
      rewrite Ed1. rewrite !stk_setStk, !nodeOf_setStk.
      assert (Ed2 : delStack (P ++ [o] ++ [c] ++ D3s) oi (oi + 1) = P ++ [c] ++ D3s).
      { replace (oi + 1) with (len P + len [o]) by (change (len [o]) with 1; lia). rewrite <- HlenP at 1.
        apply (delStack_app3 P [o] ([c] ++ D3s)). }
      rewrite Ed2.
      assert (HOB1 : OBI 0 (map (fun b : Z => if oi + 1 <? b then oi + 1 else b) ob)).
      { apply OBI_map; [exact HO|]. intros b Hb. destruct (oi + 1 <? b); lia. }
      assert (HOB2 : OBI 0 (map (fun b : Z => if oi <? b then b - 1 else b) (map (fun b : Z => if oi + 1 <? b then oi + 1 else b) ob))).
      { apply OBI_map; [exact HOB1|]. intros b Hb. destruct (Z.ltb_spec oi b); lia. }
      destruct (plen (nodeOf st3 (d_node o)) =? 0) eqn:Eb1; cbv beta iota; rewrite ?stk_setStk, ?nodeOf_setStk.
      + assert (Ed3 : delStack (P ++ [c] ++ D3s) (oi + 1 - 1) (oi + 1 - 1 + 1) = P ++ D3s).
        { replace (oi + 1 - 1 + 1) with (len P + len [c]) by (change (len [c]) with 1; lia).
          replace (oi + 1 - 1) with (len P) by lia. apply (delStack_app3 P [c] D3s). }
        rewrite Ed3.
        change (nodeOf (removeNode (setStk st3 (P ++ [o] ++ [c] ++ D3s)) (d_node o)) (d_node c)) with (nodeOf (removeNode st3 (d_node o)) (d_node c)).
        destruct (plen (nodeOf (removeNode st3 (d_node o)) (d_node c)) =? 0) eqn:Eb2; apply IH; try assumption; try lia;
          (eapply J_same; [| | | | |exact Hpair]; reflexivity).
      + assert (Ed3 : delStack (P ++ [o] ++ [c] ++ D3s) (oi + 1) (oi + 1 + 1) = P ++ [o] ++ D3s).
        { replace (P ++ [o] ++ [c] ++ D3s) with ((P ++ [o]) ++ [c] ++ D3s) by (rewrite <- !app_assoc; reflexivity).
          replace (oi + 1 + 1) with (len (P ++ [o]) + len [c]) by (rewrite len_app; change (len [o]) with 1; change (len [c]) with 1; lia).
          replace (oi + 1) with (len (P ++ [o])) by (rewrite len_app; change (len [o]) with 1; lia).
          rewrite (delStack_app3 (P ++ [o]) [c] D3s). rewrite <- !app_assoc. reflexivity. }
        rewrite Ed3.
        destruct (plen (nodeOf st3 (d_node c)) =? 0) eqn:Eb2; apply IH; try assumption; try lia;
          (eapply J_same; [| | | | |exact Hpair]; reflexivity).
    - (* no opener for this closer *)
      assert (HOB' : OBI 0 (setOB ob (obIndex c) cp1)) by (apply OBI_set; [exact HO|unfold OBN; lia|lia]).
      destruct (negb (hasFlag c fOpener)).
      + apply IH; [|exact HOB'|lia]. apply J_delStack; [exact HJ|lia|lia|lia].
      + apply IH; [exact HJ|exact HOB'|lia].
  Qed.

  Lemma processEmphasis_J hi st sb : J hi st -> 0 <= sb -> J hi (processEmphasis st sb).
  Proof.
    intros HJ Hsb. unfold processEmphasis.
    pose proof (pe_loop_J (4 * (length (stk st) + length (isrc st)) + 8) hi st (repeat sb 14) sb HJ) as H.
    assert (HO : OBI 0 (repeat sb 14)).
    { destruct (OBI_init sb) as [A B]. split; [exact A|]. intros b Hb. specialize (B b Hb). lia. }
    specialize (H HO Hsb).
    set (st1 := pe_loop _ st _ sb) in *.
    destruct (Z.le_gt_cases sb (len (stk st1))) as [Hle|Hgt].
    - replace (upto (stk st1) sb) with (delStack (stk st1) sb (len (stk st1))).
      + apply J_delStack; [exact H|lia|lia|lia].
      + unfold delStack. replace (from_ (stk st1) (len (stk st1))) with (@nil delim); [apply app_nil_r|].
        unfold from_, len. rewrite Nat2Z.id. symmetry. apply skipn_all.
    - replace (upto (stk st1) sb) with (stk st1); [eapply J_same; [| | | | |exact H]; reflexivity|].
      unfold upto. symmetry. apply firstn_all2. unfold len in Hgt. lia.
  Qed.
End PELoop.
