(* ChkDocAll2.v -- T30 follow-up: the side condition of C17tags.C17_no_rejected_start_renderDoc_partial holds for EVERY input.

     chkDoc_all                        : chkDoc_all_statement,  i.e.  forall c input, filterOn c = true -> chkDoc c input = true
     C17_no_rejected_start_renderDoc   : forall c input, filterOn c = true -> prefix_closed (filterP c) ->
                                           forall n, In n (start_tags (renderDoc c input)) -> filterP c n = false
                                         (C17tags.C17_no_rejected_start_renderDoc_partial without its side condition)

   How: ChkDocAll.chkDoc_all_of_entryBounds reduces the statement to ChkW8.entryBounds for every input (the positions of the
   Unparsed / RawHTML / Indent entries of every block lie within the text of their root block).  ChkF7.entryBounds_all proves
   that, kind by kind:
     - Paragraph and SetextHeading blocks (the only ones whose start and entries are cut by onCloseParagraph):
       EntDrv.parseBlocks_okRE (task T28) -- their entries are the lines of the block;
     - LinkReferenceDefinition blocks: GramBlocks.parseBlocks_gb -- label, destination, title only;
     - all other kinds: ChkF1..ChkF6 (parseBlocks_FbX), the positional invariant of ChkE1..ChkE6 with those three kinds exempt,
       so that it survives link reference definitions;
     - block spans within the text: BlockShapes.parseBlocks_block_shapes_prefill_partial.
   Nothing is assumed: no hypothesis on the input, no axioms. *)
From Coq Require Import List ZArith Lia Bool.
Import ListNotations.
Require Import Base Tables Utf8 Tree Recog Inl3b Driver Inl3e Render Safe MainTok C17bytes C17chk C17tags ChkB ChkW7 ChkW8 ChkDocAll ChkF7.
Open Scope Z_scope.

Theorem chkDoc_all : chkDoc_all_statement.
Proof. apply chkDoc_all_of_entryBounds. exact entryBounds_all. Qed.
Print Assumptions chkDoc_all.

(* the statement spelled out *)
Theorem chkDoc_all' : forall c input, filterOn c = true -> chkDoc c input = true.
Proof. exact chkDoc_all. Qed.
Print Assumptions chkDoc_all'.

(* C17: no start tag with a rejected name in the rendering of any input, with no side condition left *)
Theorem C17_no_rejected_start_renderDoc : forall c input, filterOn c = true -> prefix_closed (filterP c) ->
  forall n, In n (start_tags (renderDoc c input)) -> filterP c n = false.
Proof.
  intros c input Hon Hpc. apply C17_no_rejected_start_renderDoc_partial; [exact Hon|exact Hpc|]. apply chkDoc_all. exact Hon.
Qed.
Print Assumptions C17_no_rejected_start_renderDoc.
