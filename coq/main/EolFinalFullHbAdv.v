(* T63-F1, direction D1: advanceTo never fails in the tokeniser; the cursor of the loop over the entries never overshoots. *)
From Coq Require Import List ZArith Lia Bool.
Import ListNotations.
Require Import Base Tables Utf8 Tree Rdr Link Collect Html Recog Inl3a Inl3b Inl3c Inl3d Inl3e Driver Leaf3a Leaf3e RdrBound.
Require Import ShapesBase ShapesR ShapesHT IFBase IFPe IFTokDef IFFrame IFTokAux IFTokLoop IFTokUm IFTokFuel IFTk1 IFTk2 IFTk4 IFTk5 IS5b IS6b ShapesCS.
Require Import SpanForest SpanIds SpanStack SpanEmph SpanSmall SpanTok SpanRdr SpanCollect SpanScan SpanHtml EolFinalFullHbHtml.
Open Scope Z_scope.

Section Adv.
  Variables (src : bytes) (U : list inline) (lo hi : Z).
  Hypothesis HEC : EC src U lo hi.
  Notation nU := (nthU U).
  Notation P := (SpanRdr.P src U).
  Notation AliveAt := (SpanRdr.AliveAt src U).
  Notation RS := (SpanRdr.RS src U).
  Notation InE := (InE U).
  Local Notation L := (len src).

  Ltac stepc :=
    match goal with
    | H : SpanRdr.RS src U ?s ?r |- context [current ?r] =>
      let Hc := fresh "Hc" in let Hp := fresh "Hp" in let Hv := fresh "Hv" in let H41 := fresh "H41" in let Hs := fresh "Hs" in let Hcc := fresh "Hcc" in
      destruct (RS_current src U lo hi HEC s r H) as (Hc & Hp & Hv & H41 & Hs & Hcc);
      let c := fresh "c" in let r' := fresh "r" in
      destruct (current r) as [c r']; cbn [fst snd] in Hc, Hp, Hv, H41, Hs, Hcc
    end.
  Ltac stepn :=
    match goal with
    | H : SpanRdr.RS src U ?s ?r |- context [next ?r] =>
      let Hn := fresh "Hn" in let Hm := fresh "Hm" in let Hok := fresh "Hok" in let Hfl := fresh "Hfl" in
      destruct (RS_next src U lo hi HEC s r H) as (Hn & Hm & Hok & Hfl);
      let ok := fresh "ok" in let r' := fresh "r" in
      destruct (next r) as [ok r']; cbn [fst snd] in Hn, Hm, Hok, Hfl
    end.

  Lemma alive_in r k c : AliveAt r k -> fst (current r) = c -> c <> 32 -> c < 128 -> InE (r_pos r).
  Proof.
    intros A E N1 N2. pose proof (alive_pos src U lo hi HEC _ _ A) as (A1 & A2 & _).
    destruct (cur_src src U lo hi HEC r k c A E N1 N2) as (_ & Ni). exists k. split; [exact A2|]. split; [exact A1|exact Ni].
  Qed.

  (* the closing bracket of a link label *)
  Lemma parseLinkLabel_in fuel r : RS true r ->
    let '(lspan, linner, _) := parseLinkLabel fuel r in spanValid lspan = true -> InE (snd lspan - 1).
  Proof.
    intros HR. unfold parseLinkLabel. stepc. destruct (negb (c =? 91)); [cbn; discriminate|].
    destruct (ll_skip fuel r0 0) as [[r1 chars]|] eqn:E1; [|cbn; discriminate].
    destruct (ll_skip_spec src U lo hi HEC _ _ _ _ _ _ Hc E1) as (S1 & S2).
    destruct (ll_body fuel r1 chars (-1)) as [[r2 ie]|] eqn:E2; [|cbn; discriminate].
    pose proof (RS_pos0 src U lo hi HEC _ _ S1) as P1.
    eapply (ll_body_spec src U lo hi HEC) in E2 as (B1 & B2 & B3); [|exact S1|lia].
    stepc. destruct (Z.eqb_spec c0 93) as [E93|N93]; cbn [negb]; [|cbn; discriminate].
    stepn. intros _. cbn [fst snd].
    destruct (Hs0 eq_refl ltac:(lia) ltac:(rewrite E93; reflexivity)) as (k & A).
    pose proof (alive_in r3 k 93 A ltac:(rewrite Hcc0; exact E93) ltac:(lia) ltac:(lia)) as HI.
    replace (r_pos r3 + 1 - 1) with (r_pos r3) by lia. exact HI.
  Qed.

  (* the closing parenthesis of an inline link *)
  Lemma parseInlineLink_in fuel st s : inEntry src U st (s - 1) -> s < spanEnd st -> at_ src s = 40 -> (Z.to_nat P + 4 <= fuel)%nat ->
    let '(ispan, _, _) := parseInlineLink fuel st s in spanValid ispan = true -> InE (snd ispan - 1).
  Proof.
    intros HE Hs H40 Hfuel. destruct (inEntry_reader src U st (s - 1) HE) as (Eu & Es & Hj & Hp & Hse). rewrite Hse in Hs.
    unfold parseInlineLink. rewrite Es, Eu. set (j := upos st) in *.
    destruct (eb src U lo hi HEC j Hj) as (Bj1 & Bj2 & Bj3). pose proof (ec_lo _ _ _ _ HEC) as Hlo.
    assert (HR0 : RS false (newReader src (from_ U j) (s + 1))).
    { destruct (Z.lt_ge_cases (s + 1) (iend (nU j))) as [L1|L1]; [apply (RS_new src U lo hi HEC false (s + 1) j j); lia|].
      assert (Ni : ikind (nU j) <> IndentKind) by (intros Ei; pose proof (ec_width _ _ _ _ HEC j Hj Ei); lia).
      assert (Hlast : j + 1 = len U).
      { destruct (Z.eq_dec (j + 1) (len U)) as [X|X]; [exact X|]. exfalso. destruct (ec_eol _ _ _ _ HEC j ltac:(lia) ltac:(lia)) as (_ & He). specialize (He Ni).
        replace (iend (nU j) - 1) with s in He by lia. rewrite H40 in He. discriminate. }
      assert (HN : U <> []) by (apply (U_ne U j); lia).
      replace (s + 1) with P by (rewrite (P_last src U lo hi HEC HN); replace (len U - 1) with j by lia; lia).
      pose proof (P_ge src U lo hi HEC j Hj) as Pg. apply (RS_at_P src U lo hi HEC); lia. }
    destruct (skipLinkSpace_spec src U lo hi HEC fuel false _ HR0) as (K1 & K2 & _). cbn [r_pos newReader] in K2.
    destruct (skipLinkSpace fuel (newReader src (from_ U j) (s + 1))) as [ok r1]. cbn [fst snd] in *.
    destruct ok; cbn [negb]; [|cbn; discriminate].
    pose proof (parseLinkDestination_spec src U lo hi HEC fuel false r1 K1 ltac:(lia)) as HD.
    destruct (parseLinkDestination fuel r1) as [[dspan dtext] r2]. destruct HD as ((D1 & D2 & D3) & D4).
    destruct (optSkip_spec src U lo hi HEC fuel (spanValid dspan) r2 D1) as (O1 & O2).
    destruct (if spanValid dspan then skipLinkSpace fuel r2 else (true, r2)) as [ok2 r3]. cbn [fst snd] in *.
    destruct ok2; cbn [negb]; [|cbn; discriminate].
    pose proof (parseLinkTitle_spec src U lo hi HEC fuel false r3 O1) as HTt.
    destruct (parseLinkTitle fuel r3) as [[tspan ttext] r4]. destruct HTt as ((T1 & T2 & T3) & T4).
    destruct (optSkip_spec src U lo hi HEC fuel (spanValid tspan) r4 T1) as (Q1 & Q2).
    destruct (if spanValid tspan then skipLinkSpace fuel r4 else (true, r4)) as [ok3 r5]. cbn [fst snd] in *.
    destruct ok3; cbn [negb]; [|cbn; discriminate].
    destruct (RS_current src U lo hi HEC false r5 Q1) as (_ & Ep5 & _ & H41 & _ & Hcc5). unfold cur.
    destruct (Z.eqb_spec (fst (current r5)) 41) as [E41|N41]; cbn [negb]; [|cbn; discriminate].
    destruct (H41 E41) as (k5 & A5). intros _. cbn [fst snd].
    pose proof (alive_in _ k5 41 A5 ltac:(rewrite Hcc5; exact E41) ltac:(lia) ltac:(lia)) as HI. rewrite Ep5 in HI.
    replace (r_pos r5 + 1 - 1) with (r_pos r5) by lia. exact HI.
  Qed.

  (* advanceTo finds the entry *)
  Lemma adv_in X x : unp X = U -> 0 <= upos X < len U -> InE x -> istart (nU (upos X)) <= x -> upos (advanceTo X x) < len U.
  Proof.
    intros Eu Hu (k & Hk & Hx & _) Hlo. set (j := upos X) in *.
    assert (Hjk : j <= k).
    { destruct (Z.le_gt_cases j k) as [Lk|Lk]; [exact Lk|]. pose proof (eo src U lo hi HEC k j ltac:(lia) Lk ltac:(lia)). lia. }
    unfold advanceTo, unpFrom, nodeIndexForPosition. rewrite Eu. fold j.
    rewrite (nodeIdx_alive src U lo hi HEC (Z.to_nat (k - j)) j k x 0 eq_refl ltac:(lia) ltac:(lia) (proj2 (has_nU src U lo hi HEC k x Hk) Hx)).
    destruct (Z.leb_spec 0 (0 + (k - j))); [|lia]. cbn [upos setUpos]. fold j. lia.
  Qed.
End Adv.

Section Inv.
  Variables (src : bytes) (U : list inline) (lo hi : Z).
  Hypothesis HEC : EC src U lo hi.
  Notation nU := (nthU U).
  Notation P := (SpanRdr.P src U).
  Notation InE := (EolFinalFullHbHtml.InE U).
  Local Notation L := (len src).
  Hypothesis HOK : spOK src U = true.
  Variables rf tf : nat.
  Hypothesis Hrf : len src + ibudget U < Z.of_nat rf.
  Hypothesis HrfP : (Z.to_nat P + 4 <= rf)%nat.
  Hypothesis Hends : forall k, 0 <= k < len U -> ikind (nU k) <> IndentKind -> iend (nU k) = L \/ isEOLb (at_ src (iend (nU k) - 1)) = true.
  Hypothesis H62 : at_ src (L - 1) <> 62.
  Local Notation K := (IFTokLoop.K src U).

  Lemma after62 te : InE (te - 1) -> at_ src (te - 1) = 62 -> InE te.
  Proof.
    intros (k & Hk & Hx & Ni) E. exists k. split; [exact Hk|]. split; [|exact Ni]. split; [lia|].
    destruct (Z.eq_dec te (iend (nU k))) as [Ee|Ne]; [|lia]. exfalso. destruct (Hends k Hk Ni) as [El|El].
    - rewrite <- Ee in El. rewrite El in E. exact (H62 E).
    - rewrite <- Ee, E in El. discriminate.
  Qed.

  Lemma K_inEntry st pos : K st pos -> upos st < len U -> pos < spanEnd st -> inEntry src U st pos.
  Proof.
    intros (Es & Eu & Hp0 & Hu0 & Hlo) Hu Hlt. specialize (Hlo Hu). split; [exact Eu|]. split; [exact Es|]. split; [lia|]. split; [exact Hlo|].
    rewrite (spanEnd_nth st) in Hlt by (rewrite Eu; exact Hu). rewrite Eu in Hlt. exact Hlt.
  Qed.
  Lemma uposA st a b : upos (addText st a b) = upos st. Proof. apply ux_addText. Qed.
  Lemma uposN st k a b ks : upos (fst (addNode st k a b ks)) = upos st. Proof. apply ux_addNode. Qed.
  Lemma unpA st a b : unp (addText st a b) = unp st. Proof. apply fr_addText. Qed.
  Lemma isrcA st a b : isrc (addText st a b) = isrc st. Proof. apply fr_addText. Qed.
  Lemma spanEndA st a b : spanEnd (addText st a b) = spanEnd st.
  Proof. unfold spanEnd. rewrite unpA, uposA, isrcA. reflexivity. Qed.

  Lemma pebF_upos st start : inEntry src U st start -> upos (fst (parseEndBracketF rf tf st start)) < len U.
  Proof.
    intros HE. destruct (inEntry_reader src U st start HE) as (Euf & Es & Hj & Hp & Hse). destruct HE as (Eu & _).
    unfold parseEndBracketF. cbv zeta. rewrite Es.
    destruct (fr_lookFor st) as [F1 F2]. pose proof (ux_lookFor st) as Hux. unfold ux in Hux.
    assert (Hse1 : spanEnd (fst (lookForLinkOrImage st)) = spanEnd st) by (unfold spanEnd; rewrite F1, F2, Hux; reflexivity).
    destruct (lookForLinkOrImage st) as [st1 odi]. cbn [fst snd] in *.
    assert (Eu1 : unp st1 = U) by congruence. assert (Es1 : isrc st1 = src) by congruence. set (j := upos st) in *.
    assert (Euf1 : unpFrom st1 = from_ U j) by (unfold unpFrom; rewrite Eu1, Hux; reflexivity).
    assert (HE1 : inEntry src U st1 start) by (split; [exact Eu1|split; [exact Es1|split; [rewrite Hux; exact Hj|rewrite Hux; exact Hp]]]).
    destruct (odi <? 0); [cbn [fst]; rewrite uposA; lia|].
    set (od := nthD (stk st1) odi). set (kind := if d_typ od =? tImage then ImageKind else LinkKind). set (bracket := nodeOf st1 (d_node od)).
    assert (Hfin : forall Y, upos Y = upos st1 -> upos (finishLink Y kind odi) < len U).
    { intros Y E. pose proof (ux_finishLink Y kind odi) as Hf. unfold ux in Hf. rewrite Hf, E, Hux. lia. }
    assert (Hadv : forall Y x, unp Y = U -> upos Y = upos st1 -> InE x -> istart (nU j) <= x -> upos (finishLink (advanceTo Y x) kind odi) < len U).
    { intros Y x EY UY HI Hx. pose proof (ux_finishLink (advanceTo Y x) kind odi) as Hf. unfold ux in Hf. rewrite Hf.
      apply (adv_in src U lo hi HEC Y x EY); [rewrite UY, Hux; exact Hj|exact HI|rewrite UY, Hux; exact Hx]. }
    destruct ((start + 1 <? spanEnd st1) && (at_ src (start + 1) =? 40)) eqn:Eg.
    - apply andb_true_iff in Eg. destruct Eg as [Eg1 Eg2]. apply Z.ltb_lt in Eg1. apply Z.eqb_eq in Eg2.
      pose proof (parseInlineLink_in src U lo hi HEC rf st1 (start + 1) ltac:(replace (start + 1 - 1) with start by lia; exact HE1) Eg1 Eg2 HrfP) as HI.
      destruct (parseInlineLink rf st1 (start + 1)) as [[ispan [dspan dtext]] [tspan ttext]] eqn:Epil.
      destruct (spanValid ispan) eqn:Ev.
      + specialize (HI eq_refl).
        destruct (parseInlineLink_end rf st1 (start + 1) ispan _ _ ltac:(rewrite Es1, Euf1; apply spOK_from, HOK) Epil Ev) as (_ & _ & E2).
        rewrite (surjective_pairing (wrap st1 kind (d_node od) None)). cbn [fst].
        apply Hadv; [destruct (spanValid tspan); destruct (spanValid dspan); exact Eu1|destruct (spanValid tspan); destruct (spanValid dspan); reflexivity|exact HI|lia].
      + clear HI. 
        set (isC := (start + 2 <? spanEnd st1) && (at_ src (start + 1) =? 91) && (at_ src (start + 2) =? 93)).
        assert (EisC : isC = false) by (unfold isC; rewrite Eg2; change (40 =? 91) with false; rewrite andb_false_r; reflexivity).
        rewrite EisC. rewrite Eg2. change (40 =? 91) with false. rewrite !andb_false_r. cbv iota. change (spanValid nullSpan) with false. cbv iota.
        destruct (negb (matchRef st1 _)); cbn [fst]; [cbn [upos setStk]; rewrite uposA; lia|]. rewrite (surjective_pairing (wrap st1 kind (d_node od) None)). apply Hfin. reflexivity.
    - set (isC := (start + 2 <? spanEnd st1) && (at_ src (start + 1) =? 91) && (at_ src (start + 2) =? 93)).
      destruct (negb isC && (start + 1 <? spanEnd st1) && (at_ src (start + 1) =? 91)) eqn:Eg2.
      + apply andb_true_iff in Eg2. destruct Eg2 as [Eg2 _]. apply andb_true_iff in Eg2. destruct Eg2 as [EC0 Eg2]. apply Z.ltb_lt in Eg2. apply negb_true_iff in EC0. rewrite EC0.
        assert (HR : SpanRdr.RS src U true (newReader src (unpFrom st1) (start + 1))).
        { rewrite Euf1. apply (RS_new src U lo hi HEC true (start + 1) j j); [lia|lia|]. rewrite Hse1, Hse in Eg2. lia. }
        pose proof (parseLinkLabel_in src U lo hi HEC rf _ HR) as HI.
        destruct (parseLinkLabel rf (newReader src (unpFrom st1) (start + 1))) as [[lspan linner] rr] eqn:Ell.
        destruct (spanValid lspan) eqn:Evl.
        * specialize (HI eq_refl).
          assert (HRI : RI src (newReader src (unpFrom st1) (start + 1))) by (split; [reflexivity|rewrite Euf1; apply spOK_from, HOK]).
          destruct (parseLinkLabel_end src rf _ lspan linner rr HRI Ell Evl) as (_ & _ & E3). cbn [newReader r_pos] in E3.
          destruct (negb (matchRef st1 _)); cbn [fst]; [cbn [upos setStk]; rewrite uposA; lia|]. rewrite (surjective_pairing (wrap st1 kind (d_node od) None)). cbn [fst].
          apply Hadv; [exact Eu1|reflexivity|exact HI|lia].
        * destruct (negb (matchRef st1 _)); cbn [fst]; [cbn [upos setStk]; rewrite uposA; lia|]. rewrite (surjective_pairing (wrap st1 kind (d_node od) None)). apply Hfin. reflexivity.
      + destruct isC.
        * destruct (negb (matchRef st1 _)); cbn [fst]; [cbn [upos setStk]; rewrite uposA; lia|]. rewrite (surjective_pairing (wrap st1 kind (d_node od) None)). apply Hfin. reflexivity.
        * change (spanValid nullSpan) with false. cbv iota.
          destruct (negb (matchRef st1 _)); cbn [fst]; [cbn [upos setStk]; rewrite uposA; lia|]. rewrite (surjective_pairing (wrap st1 kind (d_node od) None)). apply Hfin. reflexivity.
  Qed.

  Lemma istepF_upos st pos ps : K st pos -> upos st < len U -> pos < spanEnd st ->
    upos (fst (fst (istepF rf tf st pos ps))) < len U.
  Proof.
    intros HK Hu Hlt. pose proof (K_inEntry st pos HK Hu Hlt) as HE. pose proof HK as (Es & Eu & Hp0 & Hu0 & _).
    destruct (inEntry_reader src U st pos HE) as (Euf & _ & Hj & Hp & Hse).
    unfold istepF. cbv zeta. rewrite Es.
    destruct ((at_ src pos =? 42) || (at_ src pos =? 95)) eqn:Ed.
    { pose proof (ux_parseDelimiterRun (addText st ps pos) pos) as X. unfold ux in X. rewrite uposA in X.
      destruct (parseDelimiterRun (addText st ps pos) pos) as [st1 e]. cbn [fst] in *. lia. }
    clear Ed. destruct (at_ src pos =? 91).
    { pose proof (uposN (addText st ps pos) TextKind pos (pos + 1) []) as X. rewrite uposA in X.
      destruct (addNode (addText st ps pos) TextKind pos (pos + 1) []) as [st1 id]. cbn [fst upos setStk] in *. lia. }
    destruct (at_ src pos =? 93).
    { assert (HEa : inEntry src U (addText st ps pos) pos).
      { destruct HE as (A & B & C & D). split; [rewrite unpA; exact A|]. split; [rewrite isrcA; exact B|]. rewrite uposA. split; assumption. }
      pose proof (pebF_upos (addText st ps pos) pos HEa) as Q.
      destruct (parseEndBracketF rf tf (addText st ps pos) pos) as [st1 e]. cbn [fst] in *. exact Q. }
    destruct (at_ src pos =? 33).
    { destruct (_ || _); [cbn [fst]; exact Hu|].
      pose proof (uposN (addText st ps pos) TextKind pos (pos + 2) []) as X. rewrite uposA in X.
      destruct (addNode (addText st ps pos) TextKind pos (pos + 2) []) as [st1 id]. cbn [fst upos setStk] in *. lia. }
    destruct (at_ src pos =? 32).
    { destruct (parseHardLineBreakSpace (sub src pos (spanEnd st))) as [e ok]. destruct (ok && negb (isLastSpan st)); cbn [fst]; [|exact Hu].
      cbn [upos setIgn]. rewrite uposN, uposA. exact Hu. }
    destruct (at_ src pos =? 96).
    { destruct (parseCodeSpan rf st pos) as [[cS cE] sE] eqn:Ecp.
      destruct (Z.leb_spec 0 sE) as [HsE|HsE]; cbn [fst]; [|exact Hu].
      assert (Hok : spOK (isrc st) (unpFrom st) = true) by (rewrite Es, Euf; apply spOK_from, HOK).
      assert (Hfu : len (isrc st) - pos + ibudget (unpFrom st) < Z.of_nat rf).
      { rewrite Es, Euf. pose proof (ibudget_skipn (Z.to_nat (upos st)) U) as Hb. unfold from_. lia. }
      pose proof (parseCodeSpan_in0 rf st pos cS cE sE Hok Hfu Ecp HsE) as Hidx.
      rewrite collectCodeSpan_upos. assert (Euf' : unpFrom (addText st ps pos) = unpFrom st) by (unfold unpFrom; rewrite unpA, uposA; reflexivity).
      rewrite Euf', uposA.
      assert (Hx : nodeIndexForPosition (unpFrom st) cE < len U - upos st).
      { rewrite Euf. clear - Hidx Euf Hj. rewrite Euf in Hidx. unfold nodeIndexForPosition in *.
        assert (G : forall sp p k, 0 <= k -> k <= nodeIdx sp p k -> nodeIdx sp p k - k < len sp).
        { induction sp as [|u r IH]; intros p k Hk H; [cbn in H; lia|]. cbn [nodeIdx] in *. change (len (u :: r)) with (Z.of_nat (S (length r))).
          destruct (p <? istart u); [lia|]. destruct (spanHas u p); [lia|].
          assert (H1 : k + 1 <= nodeIdx r p (k + 1)) by (destruct (nodeIdx_ge r p (k + 1)); lia). specialize (IH p (k + 1) ltac:(lia) H1). unfold len in IH. lia. }
        specialize (G (from_ U (upos st)) cE 0 ltac:(lia) Hidx). unfold from_, len in *. rewrite skipn_length in G. lia. }
      destruct (Z.eqb_spec (nodeIndexForPosition (unpFrom st) cE) 0); lia. }
    destruct (at_ src pos =? 60).
    { destruct (0 <=? parseAutolink (sub src pos (spanEnd st))); cbn [fst]; [rewrite uposN, uposA; exact Hu|].
      assert (HR : SpanRdr.RS src U true (newReader src (unpFrom st) pos)).
      { rewrite Euf. apply (RS_new src U lo hi HEC true pos (upos st) (upos st)); [lia|lia|exact Hp]. }
      pose proof (parseHTMLTag_in src U lo hi HEC rf _ HR) as HI.
      destruct (parseHTMLTag rf (newReader src (unpFrom st) pos)) as [ts te] eqn:Eht.
      destruct (spanValid (ts, te)) eqn:Ev; cbn [negb fst]; [|exact Hu]. specialize (HI eq_refl). cbn [snd] in HI.
      destruct (parseHTMLTag_shape rf (newReader src (unpFrom st) pos) ts te ltac:(cbn [newReader r_src r_spans]; rewrite Euf; apply spOK_from, HOK) Eht Ev) as (T1 & _ & T3 & T4 & T5).
      cbn [newReader r_src r_pos] in T1, T3, T4, T5.
      apply (adv_in src U lo hi HEC); [rewrite (proj2 (fr_addNode _ _ _ _ _)), unpA; exact Eu|rewrite uposN, uposA; exact Hj|apply after62; assumption|rewrite uposN, uposA; lia]. }
    destruct (at_ src pos =? 92).
    { pose proof (ux_parseBackslash (addText st ps pos) pos) as X. unfold ux in X. rewrite uposA in X.
      destruct (parseBackslash (addText st ps pos) pos) as [st1 e]. cbn [fst] in *. lia. }
    destruct (at_ src pos =? 38).
    { destruct (_ <? 0); cbn [fst]; [exact Hu|rewrite uposN, uposA; exact Hu]. }
    destruct (at_ src pos =? 10).
    { cbn [fst]. destruct (negb _); [rewrite uposN|]; rewrite uposA; exact Hu. }
    destruct (at_ src pos =? 13); cbn [fst]; [|exact Hu].
    destruct (negb _); [rewrite uposN|]; rewrite uposA; exact Hu.
  Qed.

  Lemma iloopF_upos : forall f st pos ps, K st pos -> upos st < len U -> upos (fst (iloopF rf tf f st pos ps)) < len U.
  Proof.
    induction f as [|f IH]; intros st pos ps HK Hu; [exact Hu|]. cbn [iloopF]. pose proof HK as (_ & Eu & _). rewrite Eu.
    destruct (Z.ltb_spec (upos st) (len U)) as [_|X]; [|lia]. cbn [andb].
    destruct (Z.ltb_spec pos (spanEnd st)) as [Hlt|Hge]; [|exact Hu].
    pose proof (istepF_upos st pos ps HK Hu Hlt) as Q. destruct (istepF_prog src U HOK rf tf Hrf st pos ps HK Hu Hlt) as [_ P2].
    destruct (istepF rf tf st pos ps) as [[st1 p1] ps1]. cbn [fst snd] in *. apply IH; assumption.
  Qed.

  Lemma obody_upos lf st : isrc st = src -> unp st = U -> 0 <= upos st < len U -> upos (obody rf tf lf st) < len U.
  Proof.
    intros Es Eu Hu. unfold obody. cbv zeta. rewrite Eu.
    destruct (_ =? 0); [exact (proj2 Hu)|]. destruct (_ =? IndentKind); [destruct (negb _); exact (proj2 Hu)|].
    destruct (_ =? UnparsedKind); [|exact (proj2 Hu)].
    set (u := nth (Z.to_nat (upos st)) U (mkI 0 0 0)).
    set (pos := if ign st then skipSpTab (length (isrc st)) (isrc st) (istart u) (spanEnd st) else istart u).
    assert (Hp : istart u <= pos). { unfold pos. destruct (ign st); [apply (skipSpTab_ge rf)|lia]. }
    assert (Hin : In u U) by (apply nth_In; unfold len in Hu; lia).
    destruct (IFTokAux.spOK_In src U u HOK Hin) as (A1 & _).
    assert (HK : K (setIgn st false) pos).
    { split; [exact Es|]. split; [exact Eu|]. split; [lia|]. split; [cbn [upos setIgn]; lia|]. intros _. exact Hp. }
    pose proof (iloopF_upos lf (setIgn st false) pos pos HK (proj2 Hu)) as Q.
    destruct (iloopF rf tf lf (setIgn st false) pos pos) as [st1 ps1]. cbn [fst] in Q. rewrite uposA. exact Q.
  Qed.

  Lemma outerF_upos lf : forall f st, isrc st = src -> unp st = U -> 0 <= upos st <= len U -> upos (outerF rf tf lf f st) <= len U.
  Proof.
    induction f as [|f IH]; intros st Es Eu Hu; [cbn [outerF]; lia|]. rewrite outerF_S, Eu. destruct (Z.leb_spec (len U) (upos st)) as [Hge|Hlt]; [lia|].
    pose proof (obody_upos lf st Es Eu ltac:(lia)) as Q. destruct (obody_fr_um rf tf lf st ltac:(lia)) as [[F1 F2] M]. unfold um in M.
    apply IH; cbn [isrc unp upos setUpos]; [congruence|congruence|lia].
  Qed.
End Inv.
