From Coq Require Import List ZArith Lia Bool.
Import ListNotations.
Require Import Base Tables Utf8 Tree Rdr Link Collect Html Recog Inl3a Inl3b Inl3c Inl3d Inl3e Driver.
Require Import ShapesBase ShapesR IFBase IFLink IFHtml IFCode IFCollect IFTitle IFTokDef IFFrame IFTokAux IFLabel IFTokRf.
Open Scope Z_scope.

(* ================================================================ C04 (4): the tokeniser does not depend on the fuel tf of
   transformLinkReference over the collected label nodes either.
   Extra hypothesis on the entries: an Indent entry is one byte wide (the block layer creates them as [p, p+1)). *)
Definition ind1 (U : list inline) : bool := forallb (fun i => negb (ikind i =? IndentKind) || (iend i =? istart i + 1)) U.
Lemma ind1_In U i : ind1 U = true -> In i U -> ikind i = IndentKind -> iend i = istart i + 1.
Proof.
  unfold ind1. rewrite forallb_forall. intros H Hi Hk. specialize (H i Hi). rewrite Hk in H. cbn in H. apply Z.eqb_eq in H. exact H.
Qed.

Section Tf.
  Variable src : bytes.
  Variable U : list inline.
  Hypothesis HW : spW src U = true.
  Hypothesis HI : ind1 U = true.
  Variable rf : nat.
  Hypothesis Hrf : len src + ibudget U < Z.of_nat rf.
  Variables tf1 tf2 : nat.
  Hypothesis H1 : len src + ibudget U < Z.of_nat tf1.
  Hypothesis H2 : len src + ibudget U < Z.of_nat tf2.
  Notation good := (good src U).

  Lemma tlr_lkids X p : unp X = U -> isrc X = src ->
    spanValid (fst (fst (parseLinkLabel rf (newReader src (unpFrom X) p)))) = true ->
    let linner := snd (fst (parseLinkLabel rf (newReader src (unpFrom X) p))) in
    let lkids := collectTextNodes rf (newReader src (unpFrom X) (fst linner)) (snd linner) TextKind false in
    transformLinkReference tf1 src lkids = transformLinkReference tf2 src lkids.
  Proof.
    intros Eu Es Hv. cbv zeta.
    assert (Hw : spW src (unpFrom X) = true) by (unfold unpFrom; rewrite Eu; apply spW_from, HW).
    assert (Hb : ibudget (unpFrom X) <= ibudget U) by (unfold unpFrom, from_; rewrite Eu; apply ibudget_skipn).
    assert (Hi : forall i, In i (unpFrom X) -> ikind i = IndentKind -> iend i = istart i + 1).
    { intros i Hin. apply (ind1_In U i HI). unfold unpFrom, from_ in Hin. rewrite Eu in Hin.
      rewrite <- (firstn_skipn (Z.to_nat (upos X)) U). apply in_or_app. right. exact Hin. }
    destruct (label_inner src rf _ (PL_new src (unpFrom X) p Hw) Hv) as [I1 I2].
    destruct (collectTextNodes_asc src (unpFrom X) Hw Hi TextKind rf _ _ I1 I2 ltac:(lia)) as [A1 A2].
    set (lkids := collectTextNodes rf _ _ TextKind false) in *.
    unfold transformLinkReference. destruct lkids as [|f0 l0] eqn:El; [reflexivity|]. destruct (rev (f0 :: l0)) as [|l1 l2]; [reflexivity|].
    apply transformLinkReferenceSpan_fuel; [exact A1|lia|lia].
  Qed.

  Lemma parseEndBracketF_tf st start : good st -> parseEndBracketF rf tf1 st start = parseEndBracketF rf tf2 st start.
  Proof.
    intros [Es Eu]. unfold parseEndBracketF. cbv zeta. rewrite Es.
    pose proof (fr_lookFor st) as [F1 F2]. destruct (lookForLinkOrImage st) as [st1 odi]. cbn [fst] in F1, F2.
    assert (Es1 : isrc st1 = src) by congruence. assert (Eu1 : unp st1 = U) by congruence.
    destruct (odi <? 0); [reflexivity|].
    match goal with |- context [match ?X with Some _ => _ | None => _ end] => destruct X as [[[[[ispan dspan] dtext] tspan] ttext]|] end; [reflexivity|].
    pose proof (tlr_lkids st1 (start + 1) Eu1 Es1) as Hl. cbv zeta in Hl.
    match goal with |- context [match ?X with pair _ _ => _ end] => destruct X as [lspan linner] eqn:El end.
    match goal with |- (if ?c then _ else _) = _ => destruct c; [reflexivity|] end.
    destruct (spanValid lspan) eqn:Ev; [|reflexivity].
    match type of El with (if ?c then _ else _) = _ => destruct c; [|inversion El; subst; discriminate] end.
    destruct (parseLinkLabel rf (newReader src (unpFrom st1) (start + 1))) as [[a b] r']. cbn [fst snd] in Hl. inversion El; subst a b.
    rewrite (Hl Ev). reflexivity.
  Qed.

  Lemma istepF_tf st pos ps : good st -> istepF rf tf1 st pos ps = istepF rf tf2 st pos ps.
  Proof.
    intros G. unfold istepF. cbv zeta.
    assert (Ga : good (addText st ps pos)) by (apply (good_fr src U st); [exact G|apply fr_addText]).
    rewrite (parseEndBracketF_tf (addText st ps pos) pos Ga). reflexivity.
  Qed.
  Lemma iloopF_tf : forall fuel st pos ps, good st -> iloopF rf tf1 fuel st pos ps = iloopF rf tf2 fuel st pos ps.
  Proof.
    induction fuel as [|f IH]; intros st pos ps G; [reflexivity|]. cbn [iloopF]. destruct (_ && _); [|reflexivity].
    rewrite (istepF_tf st pos ps G). pose proof (fr_istepF rf tf2 st pos ps) as F.
    destruct (istepF rf tf2 st pos ps) as [[st1 p1] ps1]. cbn [fst] in F. apply IH. eapply good_fr; eassumption.
  Qed.
  Lemma outerF_tf lf : forall fuel st, good st -> outerF rf tf1 lf fuel st = outerF rf tf2 lf fuel st.
  Proof.
    induction fuel as [|f IH]; intros st G; [reflexivity|]. cbn [outerF]. destruct (_ <=? _); [reflexivity|].
    assert (Gi : good (setIgn st false)) by (eapply good_fr; [exact G|apply fr_setIgn]).
    rewrite (iloopF_tf lf (setIgn st false) _ _ Gi).
    match goal with |- outerF rf tf1 lf f ?X = _ => assert (GX : good X) end.
    { eapply good_fr; [exact G|]. eapply fr_trans; [|apply fr_setUpos].
      destruct (_ =? 0); [apply fr_setIgn|]. destruct (_ =? IndentKind); [destruct (negb _); [apply fr_setRk|apply fr_refl]|].
      destruct (_ =? UnparsedKind); [|eapply fr_trans; [apply fr_setIgn|apply fr_setRk]].
      match goal with |- context [iloopF ?a ?b ?c ?d ?e ?g] => pose proof (fr_iloopF a b c d e g) as F; destruct (iloopF a b c d e g) as [st1 ps1]; cbn [fst] in F end.
      eapply fr_trans; [apply (fr_setIgn st false)|]. eapply fr_trans; [exact F|apply fr_addText]. }
    apply IH. exact GX.
  Qed.
  Theorem parseInlinesF_tf lf ofu matcher b : bik b = U ->
    parseInlinesF rf tf1 lf ofu src matcher b = parseInlinesF rf tf2 lf ofu src matcher b.
  Proof. intros E. unfold parseInlinesF. rewrite (outerF_tf lf ofu (st0 src matcher b)); [reflexivity|]. split; [reflexivity|exact E]. Qed.
End Tf.
