From Coq Require Import List ZArith Lia Bool.
Import ListNotations.
Require Import Base Tree Rdr Link Collect Html Recog LP Rules Starts Driver Render L2Kind L2CC GramDefs GramTree GramLP GramLP2 GramLP3 GramLP4
  Rec17 Rec18 BSOrph BSClose BSLine1 BSLine2 BSLine3 BSLine4 BSLine5 BSLine7 TilBase TilDefs TilLP1 TilLP2 TilLP3 TilLP4 TilLP5 TilLP6 TilLP7.
Require L2Kind2.
Open Scope Z_scope.

(* ================= descendOpenBlocks (with the rest-of-line clause), deferredClose, the end of a line ================= *)

Lemma ckind_matchRule q K : ckind q K -> ckind (snd (matchRule q)) K.
Proof.
  intros Hc. unfold matchRule. cbv zeta.
  destruct (_ || _); [exact Hc|].
  destruct (_ =? ListItemKind).
  { unfold matchListItem. destruct (isRestBlank q); [destruct (negb _); [exact Hc|]|destruct (_ <=? _); [|exact Hc]];
      cbn [snd]; (eapply ckind_same; [apply same_consumeIndent|exact Hc]). }
  destruct (_ =? BlockQuoteKind).
  { unfold matchBlockQuote. cbv zeta. destruct (_ <=? _); [exact Hc|]. destruct (negb _); [exact Hc|]. cbn [snd].
    unfold eatQuoteMarker. cbv zeta.
    assert (H1 : ckind (advance (consumeIndent q (indent q)) 1) K).
    { eapply ckind_same; [apply same_advance|]. eapply ckind_same; [apply same_consumeIndent|exact Hc]. }
    destruct (0 <? _); [eapply ckind_same; [apply same_consumeIndent|exact H1]|exact H1]. }
  destruct (_ =? FencedCodeBlockKind).
  { unfold matchFenced. cbv zeta. destruct (if _ <? _ then _ else false); cbn [snd];
      [eapply ckind_same; [apply same_consumeLine|exact Hc]|eapply ckind_same; [apply same_consumeIndent|exact Hc]]. }
  destruct (_ =? IndentedCodeBlockKind).
  { unfold matchIndented. cbv zeta. destruct (_ <? _); [destruct (negb _)|]; cbn [snd]; try exact Hc;
      (eapply ckind_same; [apply same_consumeIndent|exact Hc]). }
  destruct (_ =? HTMLBlockKind); [|exact Hc].
  unfold matchHTML. destruct (htmlEnd _ _); [|exact Hc]. destruct (isRestBlank _); [exact Hc|]. cbn [snd].
  eapply ckind_same; [apply same_consumeLine|]. apply ckind_collectInline, Hc.
Qed.
Lemma matchRule_para q : containerKind q = ParagraphKind -> matchRule q = (negb (isRestBlank q), q).
Proof. intros E. unfold matchRule. cbv zeta. rewrite E. reflexivity. Qed.

Lemma containerKind_withCont p d : cdepth p = d -> containerKind (withCont p (Some d)) = containerKind p.
Proof. intros E. unfold containerKind, contBlock, cdepth in *. cbn [root container withCont setLP]. rewrite E. reflexivity. Qed.

Definition termInfo (fuel d : nat) (p p' : lp) : Prop :=
  state p' = stDescendTerminated ->
  li p' = len (line p') \/
  (state p = stDescendTerminated /\ root p' = root p /\
   (fuel <> O -> forall c, getAt (S d) (root p) = Some c -> isOpen c = true -> hasMatch (bkind c) = false)).

Lemma TJ_descend_loop : forall fuel p d, TI p -> RN p -> cdepth p = d ->
  TJ (snd (descend_loop fuel p d)) /\ termInfo fuel d p (snd (descend_loop fuel p d)).
Proof.
  induction fuel as [|f IH]; intros p d H HR Hd.
  { cbn [descend_loop snd]. split; [split|].
    - apply (TI_same_cd p); [reflexivity|cbn; symmetry; exact Hd|apply fr_fields; reflexivity|reflexivity|exact H].
    - intros E. rewrite (containerKind_withCont p d Hd) in E. exact (HR E).
    - intros E. right. split; [exact E|]. split; [reflexivity|]. intros N. contradiction. }
  assert (Hback : (forall c, getAt (S d) (root p) = Some c -> isOpen c = true -> hasMatch (bkind c) = false) ->
                  TJ (withCont p (Some d)) /\ termInfo (S f) d p (withCont p (Some d))).
  { intros Hc. split; [split|].
    - apply (TI_same_cd p); [reflexivity|cbn; symmetry; exact Hd|apply fr_fields; reflexivity|reflexivity|exact H].
    - intros E. rewrite (containerKind_withCont p d Hd) in E. exact (HR E).
    - intros E. right. split; [exact E|]. split; [reflexivity|]. intros _. exact Hc. }
  cbn [descend_loop]. cbv zeta.
  destruct (getAt (S d) (root p)) as [c|] eqn:Ec; [|apply Hback; intros c0 Hc0; discriminate Hc0].
  destruct (negb (isOpen c)) eqn:Eo; [apply Hback; intros c0 Hc0 Ho0; inversion Hc0; subst c0; rewrite Ho0 in Eo; discriminate|].
  apply negb_false_iff in Eo.
  destruct (negb (hasMatch (bkind c))) eqn:Ehm; [apply Hback; intros c0 Hc0 _; inversion Hc0; subst c0; apply negb_true_iff, Ehm|].
  clear Hback.
  set (q := withState (withCont p (Some (S d))) stDescending).
  assert (Hq : TI q).
  { destruct H as (A & B & C).
    assert (Aq : GI q).
    { apply (GI_same (withCont p (Some (S d)))); [split; reflexivity|].
      apply GI_withCont; [exact A|]. destruct A as (_ & _ & C0). rewrite Hd in C0. eapply so_extend; eassumption. }
    split; [exact Aq|]. split; [eapply EV_fr; [|exact B]; apply fr_fields; reflexivity|].
    destruct d as [|d'].
    - assert (Ht : top p = Some c) by (rewrite <- top_getAt1; exact Ec).
      destruct C as (CA & CB1 & CB2 & CD & CE & CF).
      destruct (T0_fields p q eq_refl eq_refl eq_refl (conj CA (conj CD (conj CE CF)))) as (A' & D' & E' & F').
      split; [exact A'|]. split; [|split; [|split; [exact D'|split; [exact E'|exact F']]]].
      + intros _ _. change (B1 p). apply CB1; [left; exact Hd|]. intros c0 Hc0. rewrite Ht in Hc0. inversion Hc0; subst c0. exact Eo.
      + intros E0. discriminate E0.
    - apply TT_loud; [apply (T0_fields p); [reflexivity|reflexivity|reflexivity|apply TT_T0, C]|].
      apply loud_deep; [apply Aq| |cbn; lia]. eapply (getAt2_of_deep q (S (S d')) c); [lia|exact Ec]. }
  assert (Esq : state q = stDescending) by reflexivity.
  pose proof (TI_matchRule q Hq) as H2. pose proof (cdepth_matchRule q) as Ecd.
  pose proof (matchRule_false q Esq) as Hfalse.
  assert (Hliq : 0 <= li q <= len (line q)) by (destruct Hq as (_ & (_ & _ & X & _) & _); exact X).
  pose proof (matchRule_term_info q Esq Hliq) as Hterm. pose proof (matchRule_term_kind q Esq) as Hkind.
  pose proof (ckind_matchRule q (containerKind q) (ckind_self q)) as Hck.
  pose proof (matchRule_para q) as Hpara.
  destruct (matchRule q) as [ok p2]. cbn [fst snd] in *. change (cdepth q) with (S d) in Ecd.
  destruct (Z.eqb_spec (state p2) stDescendTerminated) as [Et|Nt].
  - (* the line ended the block *)
    cbn [snd]. destruct (Hterm Et) as [_ Hli]. destruct H2 as (A2 & B2 & C2).
    assert (HT : TI (withCont (closeLastChildAt p2 d (lineStart p2 + li p2)) (Some d))).
    { destruct d as [|d'].
      + change (lineStart p2 + li p2) with (cur p2). apply closeUp0_nonpara; [exact A2|exact B2|apply TT_T0, C2|exact Ecd|exact Hli|].
        intros c0 Hc0. pose proof (top_cont1 p2 c0 Ecd Hc0) as Hg.
        destruct (Hkind Et) as [Hk|Hk]; rewrite (Hk c0 Hg); split; discriminate.
      + apply closeUp_deep; [exact A2|exact B2|apply TT_T0, C2|exact Ecd]. }
    split; [split; [exact HT|]|].
    + apply RN_has_child; [apply HT|]. destruct A2 as ((_ & _ & (x & Hx)) & _). rewrite Ecd in Hx.
      change (cdepth (withCont (closeLastChildAt p2 d (lineStart p2 + li p2)) (Some d))) with d. eapply child_after_closeAt. exact Hx.
    + intros _. left. exact Hli.
  - destruct ok; cbn [negb].
    + (* matched: one level down *)
      assert (HR2 : RN p2).
      { intros E. assert (Ekq : containerKind q = ParagraphKind).
        { rewrite <- E. symmetry. apply containerKind_of; [apply H2|exact Hck]. }
        specialize (Hpara Ekq). inversion Hpara as [[X Y]]. subst p2. apply negb_true_iff. symmetry. exact X. }
      destruct (IH p2 (S d) H2 HR2 Ecd) as [I1 I2]. split; [exact I1|].
      intros E. destruct (I2 E) as [X|(X & _)]; [left; exact X|contradiction].
    + cbn [snd]. rewrite (Hfalse eq_refl Nt). split; [split|].
      * apply (TI_same_cd p); [reflexivity|cbn; symmetry; exact Hd|apply fr_fields; reflexivity|reflexivity|exact H].
      * intros E. apply HR. rewrite <- E. unfold containerKind, contBlock, cdepth in *. cbn [root container withCont withState setLP]. rewrite Hd. reflexivity.
      * intros E. discriminate E.
Qed.

(* ---- the tip ---- *)
Lemma bheight_kid' b x : In x (bkids b) -> (bheight x < bheight b)%nat.
Proof.
  destruct b as [k s e bk ik ind n ch l lb]. cbn [bkids bheight]. induction bk as [|y r IH]; intros H; [destruct H|].
  cbn [fold_right]. destruct H as [->|H]; [lia|]. specialize (IH H). lia.
Qed.
Lemma so_depth : forall d b, so d b = true -> (d < bheight b)%nat.
Proof.
  induction d as [|d IH]; intros b H; [destruct (bheight_S b) as (n & ->); lia|].
  rewrite so_S in H. apply andb_true_iff in H. destruct H as [_ H]. destruct (lastBlock b) as [c|] eqn:El; [|discriminate].
  specialize (IH c H). pose proof (bheight_kid' b c (lastBlock_In b c El)). lia.
Qed.
Lemma so_le_tip : forall d fuel b, so d b = true -> (d <= fuel)%nat -> (d <= tipDepth fuel b)%nat.
Proof.
  induction d as [|d IH]; intros fuel b H Hf; [lia|]. destruct fuel as [|f]; [lia|].
  rewrite so_S in H. apply andb_true_iff in H. destruct H as [_ H]. cbn [tipDepth].
  destruct (lastBlock b) as [c|]; [|discriminate]. rewrite (so_open _ _ H). specialize (IH f c H ltac:(lia)). lia.
Qed.

Lemma para_top_depth p c : GI p -> top p = Some c -> bkind c = ParagraphKind -> (cdepth p <= 1)%nat.
Proof.
  intros ((A1 & A2 & (x & Hx)) & _) Ht Hk. destruct (le_lt_dec (cdepth p) 1) as [L|L]; [exact L|exfalso].
  destruct (getAt_le _ 2 _ _ L Hx) as (y & Hy). destruct (getAt2_top p y Hy) as (c' & Hc' & El). rewrite Ht in Hc'. inversion Hc'; subst c'.
  assert (Hcc : cc c = true).
  { unfold top in Ht. rewrite <- lastBlock_lastL in Ht. destruct (cc_lastBlock _ _ A2 Ht) as [X _]. exact X. }
  apply (lastBlock_nonempty c y El). apply para_no_kids; assumption.
Qed.

Section WithOcp.
  Hypothesis HOP : OcpPara.

  Lemma TJ_deferredClose p : TJ p -> TJ (deferredClose p) /\ li (deferredClose p) = li p /\ line (deferredClose p) = line p.
  Proof.
    intros [H HR]. unfold deferredClose. cbv zeta.
    destruct (negb (isRestBlank p)) eqn:Eb; cbn [andb].
    2:{ split; [|split; reflexivity]. split; [apply (TI_closeHere_ls HOP), H|].
        intros E. rewrite containerKind_closeHere in E. exact (HR E). }
    destruct (getAt (tipDepth (bheight (root p)) (root p)) (root p)) as [t|] eqn:Et.
    2:{ split; [|split; reflexivity]. split; [apply (TI_closeHere_ls HOP), H|].
        intros E. rewrite containerKind_closeHere in E. exact (HR E). }
    destruct (Z.eqb_spec (bkind t) ParagraphKind) as [Ek|Nk].
    2:{ split; [|split; reflexivity]. split; [apply (TI_closeHere_ls HOP), H|].
        intros E. rewrite containerKind_closeHere in E. exact (HR E). }
    split; [|split; reflexivity].
    set (tipD := tipDepth (bheight (root p)) (root p)) in *.
    pose proof H as (A & B & C).
    assert (Aq : GI (withCont p (Some tipD))).
    { apply GI_withCont; [exact A|]. apply so_tip. destruct A as (_ & _ & C0). eapply so_open. exact C0. }
    assert (Hle : (cdepth p <= tipD)%nat).
    { destruct A as (_ & _ & C0). apply so_le_tip; [exact C0|]. pose proof (so_depth _ _ C0). lia. }
    split.
    - split; [exact Aq|]. split; [eapply EV_fr; [|exact B]; apply fr_fields; reflexivity|].
      destruct tipD as [|[|k]] eqn:Etip.
      + exfalso. cbn in Et. inversion Et; subst t. destruct A as ((A1 & _) & _). rewrite A1 in Ek. discriminate.
      + (* the tip is a root paragraph *)
        assert (Ht : top p = Some t) by (rewrite <- top_getAt1; exact Et).
        assert (Hot : isOpen t = true).
        { destruct Aq as (_ & _ & C0). cbn [cdepth container withCont setLP root] in C0. destruct (so_getAt _ _ C0) as (x & Hx & Ho).
          rewrite Et in Hx. inversion Hx; subst x. exact Ho. }
        destruct C as (CA & CB1 & CB2 & CD & CE & CF).
        destruct (T0_fields p (withCont p (Some 1%nat)) eq_refl eq_refl eq_refl (conj CA (conj CD (conj CE CF)))) as (A' & D' & E' & F').
        split; [exact A'|]. split; [|split; [|split; [exact D'|split; [exact E'|exact F']]]].
        * intros Hq _. change (B1 p). apply CB1.
          -- destruct (cdepth p) as [|[|j]] eqn:Ed; [left; exact Ed| |lia]. right. split; [exact Ed|].
             destruct Hq as [Hq|(_ & c0 & Hc0 & Hk0 & Hi0)]; [discriminate Hq|]. exists c0. tauto.
          -- intros c0 Hc0. rewrite Ht in Hc0. inversion Hc0; subst c0. exact Hot.
        * intros E0. discriminate E0.
      + apply TT_loud; [apply (T0_fields p); [reflexivity|reflexivity|reflexivity|apply TT_T0, C]|].
        apply loud_deep; [apply Aq| |cbn; lia]. eapply (getAt2_of_deep _ (S (S k)) t); [lia|exact Et].
    - intros _. apply negb_true_iff in Eb. exact Eb.
  Qed.
End WithOcp.

(* ---- the state at the end of a line ---- *)
Definition FF (p : lp) : Prop :=
  TA p /\ TC p /\ TS p /\
  (forall c, top p = Some c -> isOpen c = false -> blankR (source p) (bend c) (len (source p))) /\
  (forall c, top p = Some c -> isOpen c = true -> bkind c = ParagraphKind ->
     exists m, PIk (source p) m (bik c) /\ m <= len (source p) /\ blankR (source p) m (len (source p))).

Lemma rest_blank_end p : li p = len (line p) -> isRestBlank p = true.
Proof.
  intros E. unfold isRestBlank, rest, from_. rewrite E. unfold len. rewrite Nat2Z.id, skipn_all. reflexivity.
Qed.

Lemma FF_of_consumed p : TJ p -> li p = len (line p) -> FF p.
Proof.
  intros [(A & B & (CA & CB1 & CB2 & CD & CE & CF)) HR] Hli.
  pose proof (EV_cur_end p B Hli) as Hcur.
  split; [exact CA|]. split; [exact CF|]. split; [exact CE|]. split.
  - intros c Hc Ho. destruct (cdepth p) as [|d] eqn:Ed.
    + rewrite <- Hcur. apply (CB2 Ed c Hc Ho).
    + exfalso. destruct (GI_top1 p A ltac:(lia)) as (c' & Hc' & Ho'). rewrite Hc in Hc'. inversion Hc'; subst c'. congruence.
  - intros c Hc Ho Hk. destruct (CD c Hc Ho Hk) as (m & P1 & P2 & P3). exists m. split; [exact P1|].
    destruct B as (B1' & B2 & B3 & B4). split; [lia|].
    pose proof (para_top_depth p c A Hc Hk) as Hd.
    destruct (cdepth p) as [|[|j]] eqn:Ed; [| |lia].
    + eapply blankR_app; [exact P3|]. rewrite <- Hcur. apply sptR_blankR. apply CB1; [left; exact Ed|].
      intros c0 Hc0. rewrite Hc in Hc0. inversion Hc0; subst c0. exact Ho.
    + exfalso. assert (Ek : containerKind p = ParagraphKind) by (rewrite (contKind_top p c Ed Hc); exact Hk).
      specialize (HR Ek). rewrite (rest_blank_end p Hli) in HR. discriminate.
Qed.
