From Coq Require Import List ZArith Lia Bool.
Import ListNotations.
Require Import Base Tree Rdr Link Collect Html Recog LP Rules Starts Driver Rec16 Rec17 Rec18 L2Kind L2CC EolInv EolCRBytes EolCRLFSimTree
  Props LADef EolFinalDefs EolFinalSimBytes EolFinalSimTree EolFinalGenOcp EolFinalGenTree.
Open Scope Z_scope.

(* C14 (i), final newline: closing a block in the run without the final LF (source src, end e) and in the run with it
   (source src ++ [10], end e'). *)

Lemma not91_app10 src : ~ In 91 src -> ~ In 91 (src ++ [10]).
Proof. intros H G. apply in_app_or in G. destruct G as [G|[G|[]]]; [exact (H G)|discriminate]. Qed.

Section Close.
  Context {HO : OcpFinC}.
  Variable src : bytes.
  Notation L := (len src).
  Notation F := (finB L).
  Let L0 : 0 <= L. Proof. apply len_nonneg. Qed.

  Lemma trimBlankTail_src : forall rk, trimBlankTail (src ++ [10]) rk = trimBlankTail src rk.
  Proof.
    induction rk as [|c r IH]; [reflexivity|]. cbn [trimBlankTail]. rewrite blank_sub_app10, IH. reflexivity.
  Qed.
  Definition ociIk (s : bytes) (ik : list inline) : list inline :=
    let ik1 := match rev ik with
               | last :: prev :: r =>
                 if (ikind last =? SoftLineBreakKind) && (iend last - istart last =? 0) &&
                    (ikind prev =? TextKind) && isBlankLine (sub s (istart prev) (iend prev))
                 then rev (prev :: r) else ik
               | _ => ik
               end in
    rev (trimBlankTail s (rev ik1)).
  Lemma oci_eq s b : onCloseIndented s b = set_bik b (ociIk s (bik b)). Proof. reflexivity. Qed.
  Lemma ociIk_src ik : ociIk (src ++ [10]) ik = ociIk src ik.
  Proof.
    unfold ociIk. cbv zeta. destruct (rev ik) as [|lst [|prev r]]; rewrite ?trimBlankTail_src, ?blank_sub_app10; reflexivity.
  Qed.
  Lemma ociIk_sub s ik x : In x (ociIk s ik) -> In x ik.
  Proof.
    unfold ociIk. cbv zeta. intros Hx. apply in_rev in Hx. apply trimBlankTail_sub in Hx. apply in_rev in Hx.
    destruct (rev ik) as [|lst [|prev r]] eqn:Er; try exact Hx.
    destruct (_ && _ && _ && _); [|exact Hx]. apply in_rev in Hx. apply in_rev. rewrite Er. right. exact Hx.
  Qed.

  Lemma ociIk_F ik : nslbL ik = true \/ tailShape L ik = true -> ociIk (src ++ [10]) (finCode L ik) = finCode L (ociIk src ik).
  Proof.
    intros [H|H].
    - rewrite (finCode_nslb L ik H), ociIk_src. symmetry. apply finCode_nslb. revert H. apply nslbL_sub. apply ociIk_sub.
    - destruct (tailShape_spec L ik H) as (pre & s1 & i1 & r1 & ks1 & i2 & r2 & ks2 & -> & Hp).
      rewrite finCode_text_slb.
      set (T := Inl TextKind s1 L i1 r1 ks1). set (S := Inl SoftLineBreakKind L L i2 r2 ks2). set (T' := Inl TextKind s1 (L + 1) i1 r1 ks1).
      assert (E1 : rev (pre ++ [T; S]) = S :: T :: rev pre).
      { change (pre ++ [T; S]) with (pre ++ [T] ++ [S]). rewrite app_assoc, !rev_app_distr. reflexivity. }
      assert (E2 : rev (pre ++ [T']) = T' :: rev pre) by (rewrite rev_app_distr; reflexivity).
      (* run q *)
      assert (Eq : ociIk (src ++ [10]) (pre ++ [T']) =
                   if isBlankLine (sub src s1 L) then rev (trimBlankTail src (rev pre)) else pre ++ [T']).
      { unfold ociIk. cbv zeta. rewrite E2.
        assert (E3 : (match rev pre with
                      | [] => pre ++ [T']
                      | prev :: r => if (ikind T' =? SoftLineBreakKind) && (iend T' - istart T' =? 0) && (ikind prev =? TextKind) &&
                                        isBlankLine (sub (src ++ [10]) (istart prev) (iend prev)) then rev (prev :: r) else pre ++ [T']
                      end) = pre ++ [T']) by (destruct (rev pre); reflexivity).
        rewrite E3, E2. cbn [trimBlankTail]. change (ikind T' =? TextKind) with true. cbn [andb]. change (istart T') with s1. change (iend T') with (L + 1).
        rewrite blank_sub_to_end. destruct (isBlankLine (sub src s1 L)); [rewrite trimBlankTail_src; reflexivity|].
        cbn [rev]. rewrite rev_involutive. reflexivity. }
      rewrite Eq.
      (* run p *)
      unfold ociIk at 1. cbv zeta. rewrite E1. change (ikind S =? SoftLineBreakKind) with true. change (ikind T =? TextKind) with true.
      change (iend S - istart S) with (L - L). replace (L - L =? 0) with true by (symmetry; apply Z.eqb_eq; lia). cbn [andb].
      change (istart T) with s1. change (iend T) with L.
      destruct (isBlankLine (sub src s1 L)) eqn:Eb.
      + change (rev (rev (T :: rev pre))) with (rev (rev (T :: rev pre))). rewrite rev_involutive. cbn [trimBlankTail].
        change (ikind T =? TextKind) with true. change (istart T) with s1. change (iend T) with L. rewrite Eb. cbn [andb].
        symmetry. apply finCode_nslb. revert Hp. apply nslbL_sub. intros x Hx. apply in_rev in Hx. apply trimBlankTail_sub in Hx. apply in_rev in Hx. exact Hx.
      + rewrite E1. cbn [trimBlankTail]. change (ikind S =? TextKind) with false. cbn [andb]. rewrite <- E1, rev_involutive.
        symmetry. apply finCode_text_slb.
  Qed.

  Lemma scP_cases b : bkind b = IndentedCodeBlockKind -> scP L b = true -> nslbL (bik b) = true \/ tailShape L (bik b) = true.
  Proof. intros E H. unfold scP in H. rewrite E in H. cbn in H. apply orb_true_iff in H. exact H. Qed.

  Lemma onCloseIndented_F b : bkind b = IndentedCodeBlockKind -> scP L b = true ->
    onCloseIndented (src ++ [10]) (F b) = F (onCloseIndented src b).
  Proof.
    intros E H. rewrite !oci_eq.
    assert (N : bkind b <> ListMarkerKind) by (rewrite E; discriminate).
    rewrite (F_set_bik L b _ N). rewrite bik_F. replace (bkind b =? ListMarkerKind) with false by (symmetry; apply Z.eqb_neq; exact N).
    rewrite E. change (finI IndentedCodeBlockKind L) with (finCode L). rewrite ociIk_F by (apply scP_cases; assumption). reflexivity.
  Qed.

  Lemma scP_kids b ks : scP L (set_bkids b ks) = scP L b. Proof. destruct b; reflexivity. Qed.
  Lemma scP_end b e : True -> scP L b = true -> scP L (set_bend b e) = true. Proof. intros _ H. destruct b; exact H. Qed.
  Lemma scP_loose b v : scP L (set_bloose b v) = scP L b. Proof. destruct b; reflexivity. Qed.

  Definition closeLast (fuel : nat) (s : bytes) (e : Z) (x : block) : block :=
    match lastBlock x with Some c => set_lastBlocks x (closeBlock fuel s c e) | None => x end.
  Lemma closeBlock_S fuel s b e : closeBlock (S fuel) s b e =
    if negb (isOpen b) then [b] else
    if bkind (set_bend b e) =? ListKind then [closeLast fuel s e (onCloseList (set_bend b e))]
    else if bkind (set_bend b e) =? IndentedCodeBlockKind then [closeLast fuel s e (onCloseIndented s (set_bend b e))]
    else if (bkind (set_bend b e) =? ParagraphKind) || (bkind (set_bend b e) =? SetextHeadingKind) then onCloseParagraph s (set_bend b e)
    else [closeLast fuel s e (set_bend b e)].
  Proof. reflexivity. Qed.

  Lemma closeLast_F fuel e e' x : cc x = true -> bkind x <> ListMarkerKind ->
    (forall c, lastBlock x = Some c -> closeBlock fuel (src ++ [10]) (F c) e' = map F (closeBlock fuel src c e)) ->
    closeLast fuel (src ++ [10]) e' (F x) = F (closeLast fuel src e x).
  Proof.
    intros H N Hc. unfold closeLast. rewrite (lastBlock_F L x H). destruct (lastBlock x) as [c|] eqn:El; cbn [option_map]; [|reflexivity].
    rewrite (F_set_lastBlocks L x _ N), (Hc c eq_refl). reflexivity.
  Qed.

  Lemma bkind_set_bend' b e : bkind (set_bend b e) = bkind b. Proof. destruct b; reflexivity. Qed.
  Lemma lmB_open_notLM c : lmB c = true -> isOpen c = true -> bkind c <> ListMarkerKind.
  Proof.
    intros H Ho E. unfold lmB in H. apply allB_parts in H. destruct H as [H _]. unfold lmP in H. rewrite E in H. cbn in H.
    unfold isOpen in Ho. apply Z.ltb_lt in Ho. apply Z.leb_le in H. lia.
  Qed.

  (* the environment facts: the source does not end in a line ending; SS lists entry lists with the facts PE, relative to a bound c0 *)
  Definition EV (SS : list (list inline)) (c0 : Z) : Prop := src <> [] /\ endsEol src = false /\ 0 <= c0 <= L /\ Forall (PE src c0) SS.
  Lemma peP_PE SS c0 b : EV SS c0 -> peP SS b = true -> isParaK (bkind b) = true -> PE src c0 (bik b).
  Proof.
    intros (_ & _ & Hc0 & HS) H Hk. unfold peP in H. rewrite Hk in H. cbn [negb orb] in H.
    destruct (bik b) as [|u r] eqn:Eb; [apply PE_nil; lia|]. unfold sufIk in H. rewrite existsb_exists in H. destruct H as (l & Hl & Hs).
    rewrite Forall_forall in HS. apply (PE_suf src c0 _ l Hs). apply HS, Hl.
  Qed.
  Theorem closeBlock_F SS c0 e e' : EV SS c0 -> forall fuel c, cc c = true -> scB L c = true -> peB SS c = true -> (c0 < L \/ sxB c = true) ->
    ((e' = e /\ (e <> L \/ bkind c = ListMarkerKind)) \/ (e = L /\ e' = L + 1 /\ lmB c = true)) -> 0 <= e ->
    closeBlock fuel (src ++ [10]) (F c) e' = map F (closeBlock fuel src c e).
  Proof.
    intros HEV. induction fuel as [|f IH]; intros c Hc Hs Hpe Hsx He He0; [reflexivity|].
    rewrite !closeBlock_S. rewrite (isOpen_F L L0). destruct (isOpen c) eqn:Eo; cbn [negb]; [|reflexivity].
    destruct (Z.eq_dec (bkind c) ListMarkerKind) as [ELM|NLM].
    { (* an open list marker: a leaf; the two ends must agree *)
      destruct He as [[-> _]|(-> & -> & Hl)]; [|exfalso; exact (lmB_open_notLM c Hl Eo ELM)].
      rewrite (F_LM L c ELM). rewrite !bkind_set_bend', ELM. cbn [Z.eqb Pos.eqb orb ListMarkerKind ListKind IndentedCodeBlockKind ParagraphKind SetextHeadingKind].
      assert (Hk : bkids (set_bend c e) = []) by (replace (bkids (set_bend c e)) with (bkids c) by (destruct c; reflexivity); apply cc_LM_leaf; assumption).
      unfold closeLast, lastBlock. rewrite Hk. cbn [rev map]. rewrite (F_LM L (set_bend c e)) by (rewrite bkind_set_bend'; exact ELM). reflexivity. }
    assert (Eb : bump L e = e').
    { destruct He as [[-> [Hne|Hk]]|(-> & -> & _)]; [apply bump_ne, Hne|contradiction|apply bump_L]. }
    assert (E1 : set_bend (F c) e' = F (set_bend c e)) by (rewrite (F_set_bend L c e NLM), Eb; reflexivity).
    rewrite E1. set (b1 := set_bend c e).
    assert (K1 : bkind b1 = bkind c) by apply bkind_set_bend'.
    assert (C1 : cc b1 = true) by (unfold b1; rewrite cc_set_bend; exact Hc).
    assert (S1 : scB L b1 = true) by (apply (allB_set_bend (scP L) (fun _ => True) scP_end); [exact I|assumption]).
    assert (Hl1 : e = L -> lmB b1 = true).
    { intros EL. destruct He as [[_ [Hne|Hk]]|(_ & _ & Hl)]; [contradiction|contradiction|]. apply (allB_set_bend lmP (fun e => 0 <= e) lmP_end); assumption. }
    rewrite (bkind_F L b1). rewrite K1.
    (* the recursive call on the last child of a block x with the invariants *)
    assert (Pe1 : peB SS b1 = true).
    { apply (allB_parts (peP SS)) in Hpe. destruct Hpe as [Pa Pb]. unfold peB. rewrite allB_eq. replace (bkids b1) with (bkids c) by (unfold b1; destruct c; reflexivity). rewrite Pb, andb_true_r.
      unfold b1. rewrite peP_set_bend. exact Pa. }
    assert (Sx1 : c0 < L \/ sxB b1 = true).
    { destruct Hsx as [Hl|Hx]; [left; exact Hl|right]. apply (allB_parts sxP) in Hx. destruct Hx as [_ Xb]. unfold sxB. rewrite allB_eq. replace (bkids b1) with (bkids c) by (unfold b1; destruct c; reflexivity). rewrite Xb, andb_true_r.
      unfold sxP, b1. rewrite isOpen_set_bend. replace (e <? 0) with false by (symmetry; apply Z.ltb_ge; exact He0). reflexivity. }
    assert (Hrec : forall x, cc x = true -> scB L x = true -> peB SS x = true -> (c0 < L \/ sxB x = true) -> (e = L -> lmB x = true) -> bkind x <> ListMarkerKind ->
              closeLast f (src ++ [10]) e' (F x) = F (closeLast f src e x)).
    { intros x Cx Sx Px Xx Lx Nx. apply closeLast_F; [exact Cx|exact Nx|]. intros c1 El. apply IH.
      - eapply cc_lastBlock; eassumption.
      - eapply allB_lastBlock; eassumption.
      - eapply allB_lastBlock; eassumption.
      - destruct Xx as [Xl|Xx]; [left; exact Xl|right; eapply allB_lastBlock; eassumption].
      - destruct He as [[E' [Hne|Hk]]|(EL & E' & _)]; [left; split; [exact E'|left; exact Hne]|contradiction|right; split; [exact EL|split; [exact E'|]]].
        eapply allB_lastBlock; [apply Lx, EL|exact El].
      - exact He0. }
    destruct (bkind c =? ListKind) eqn:EK.
    { rewrite (onCloseList_F L b1 C1) by (rewrite K1; exact NLM). cbn [map]. f_equal. apply Hrec.
      - apply cc_onCloseList, C1.
      - apply (allB_onCloseList (scP L) scP_kids scP_loose), S1.
      - apply (allB_onCloseList (peP SS) (peP_kids SS) (peP_loose SS)), Pe1.
      - destruct Sx1 as [Xl|Xx]; [left; exact Xl|right; apply (allB_onCloseList sxP sxP_kids sxP_loose), Xx].
      - intros EL. apply (allB_onCloseList lmP lmP_kids lmP_loose), Hl1, EL.
      - rewrite (proj2 (cc_onCloseList b1 C1)), K1. exact NLM. }
    destruct (bkind c =? IndentedCodeBlockKind) eqn:EI.
    { apply Z.eqb_eq in EI. assert (P1 : scP L b1 = true) by (apply (allB_parts (scP L)) in S1; tauto).
      rewrite (onCloseIndented_F b1) by (rewrite ?K1; assumption). cbn [map]. f_equal.
      (* the children are those of b1 *)
      apply closeLast_F; [rewrite (proj1 (cc_onCloseIndented src b1)); exact C1|rewrite bkind_onCloseIndented, K1; exact NLM|].
      intros c1 El. assert (El' : lastBlock b1 = Some c1) by (unfold lastBlock in *; rewrite oci_eq in El; destruct b1; exact El).
      apply IH.
      - eapply cc_lastBlock; eassumption.
      - eapply allB_lastBlock; eassumption.
      - eapply allB_lastBlock; eassumption.
      - destruct Sx1 as [Xl|Xx]; [left; exact Xl|right; eapply allB_lastBlock; eassumption].
      - destruct He as [[E' [Hne|Hk]]|(EL & E' & _)]; [left; split; [exact E'|left; exact Hne]|contradiction|right; split; [exact EL|split; [exact E'|]]].
        eapply allB_lastBlock; [apply Hl1, EL|exact El'].
      - exact He0. }
    destruct ((bkind c =? ParagraphKind) || (bkind c =? SetextHeadingKind)) eqn:EP.
    { pose proof HEV as (Hne & Hee & Hc0 & _).
      assert (HPE : PE src c0 (bik b1)).
      { replace (bik b1) with (bik c) by (unfold b1; destruct c; reflexivity). apply (allB_parts (peP SS)) in Hpe. apply (peP_PE SS c0 c HEV); [tauto|exact EP]. }
      apply (ocp_fin_PE src c0 b1 Hne Hee); [rewrite K1; exact EP|replace (bkids b1) with (bkids c) by (unfold b1; destruct c; reflexivity); apply (paraK_leaf c Hc EP)|lia|exact HPE|].
      intros Ek. destruct Hsx as [Hl|Hx]; [exact Hl|]. exfalso. apply (allB_parts sxP) in Hx. destruct Hx as [Hx _]. unfold sxP in Hx. rewrite Eo in Hx. rewrite K1 in Ek. rewrite Ek in Hx. discriminate Hx. }
    cbn [map]. f_equal. apply Hrec; [exact C1|exact S1|exact Pe1|exact Sx1|exact Hl1|rewrite K1; exact NLM].
  Qed.
End Close.
