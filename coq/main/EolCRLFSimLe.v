From Coq Require Import List ZArith Lia Bool.
Import ListNotations.
Require Import Base Tree Rdr Link Collect Html Recog LP Rules Starts Driver Leaf3e RdrBound L2Kind SpanSmall.
Require Import EolCRLFDefs EolCRLFSimBytes EolCRLFSimTree EolCRLFSimLeDefs.
Open Scope Z_scope.

(* The upper bound leB/leL of EolCRLFSimLeDefs (every position stored in the tree is <= H, recursively through block
   children and through the children of entries) is preserved by one step of the line machine, when the source holds no '['
   (so that onCloseParagraph builds no link reference definition).  Adapted from L2Bnd.v / L2BndS.v. *)

(* ---- structural lemmas: monotonicity, offsetTree ---- *)
Lemma leI_mono H H' : H <= H' -> forall u, leI H u = true -> leI H' u = true.
Proof.
  intros Hle. fix IH 1. intros [k s e ind r ks] Hu. cbn [leI] in *.
  apply andb_true_iff in Hu. destruct Hu as [Hu Hk]. apply andb_true_iff in Hu. destruct Hu as [Hs He].
  apply Z.leb_le in Hs. apply Z.leb_le in He.
  apply andb_true_iff. split; [apply andb_true_iff; split; apply Z.leb_le; lia|].
  induction ks as [|x r' IHr]; [reflexivity|]. cbn [forallb] in *. apply andb_true_iff in Hk. destruct Hk as [Hx Hr].
  rewrite (IH x Hx). apply IHr, Hr.
Qed.
Lemma leB_mono' H H' : H <= H' -> forall b, leB H b = true -> leB H' b = true.
Proof.
  intros Hle. fix IH 1. intros [K s e bk ik a n c l lb] Hb. cbn [leB] in *.
  apply andb_true_iff in Hb. destruct Hb as [Hb Hk]. apply andb_true_iff in Hb. destruct Hb as [Hb Hi].
  apply andb_true_iff in Hb. destruct Hb as [Hs He]. apply Z.leb_le in Hs. apply Z.leb_le in He.
  apply andb_true_iff. split; [apply andb_true_iff; split; [apply andb_true_iff; split; apply Z.leb_le; lia|]|].
  - rewrite forallb_forall in *. intros u Hu. eapply leI_mono; [exact Hle|apply Hi, Hu].
  - induction bk as [|x r IHr]; [reflexivity|]. cbn [forallb] in *. apply andb_true_iff in Hk. destruct Hk as [Hx Hr].
    rewrite (IH x Hx). apply IHr, Hr.
Qed.
Lemma leB_mono H H' b : H <= H' -> leB H b = true -> leB H' b = true.
Proof. intros Hle. apply leB_mono'. exact Hle. Qed.
Lemma leL_mono H H' l : H <= H' -> leL H l = true -> leL H' l = true.
Proof. intros Hle Hl. unfold leL in *. rewrite forallb_forall in *. intros x Hx. eapply leB_mono; [exact Hle|apply Hl, Hx]. Qed.

(* offsetTree by -n.  shiftB leaves negative ends (open blocks: -1) unshifted, so the bound H - n must stay >= -1:
   this is the extra hypothesis n <= H + 1 (the statement with only 0 <= n is false: H = 0, n = 5, an open block). *)
Lemma leI_shift H n : 0 <= n <= H + 1 -> forall u, leI H u = true -> leI (H - n) (shiftI (- n) u) = true.
Proof.
  intros Hn. fix IH 1. intros [k s e ind r ks] Hu. cbn [leI shiftI] in *.
  apply andb_true_iff in Hu. destruct Hu as [Hu Hk]. apply andb_true_iff in Hu. destruct Hu as [Hs He].
  apply Z.leb_le in Hs. apply Z.leb_le in He.
  apply andb_true_iff. split; [apply andb_true_iff; split; apply Z.leb_le; [lia|destruct (Z.leb_spec 0 e); lia]|].
  induction ks as [|x r' IHr]; [reflexivity|]. cbn [map forallb] in *. apply andb_true_iff in Hk. destruct Hk as [Hx Hr].
  rewrite (IH x Hx). apply IHr, Hr.
Qed.
Lemma leB_shift' H n : 0 <= n <= H + 1 -> forall b, leB H b = true -> leB (H - n) (shiftB (- n) b) = true.
Proof.
  intros Hn. fix IH 1. intros [K s e bk ik a nn c l lb] Hb. cbn [leB shiftB] in *.
  apply andb_true_iff in Hb. destruct Hb as [Hb Hk]. apply andb_true_iff in Hb. destruct Hb as [Hb Hi].
  apply andb_true_iff in Hb. destruct Hb as [Hs He]. apply Z.leb_le in Hs. apply Z.leb_le in He.
  apply andb_true_iff. split; [apply andb_true_iff; split; [apply andb_true_iff; split; apply Z.leb_le; [lia|destruct (Z.leb_spec 0 e); lia]|]|].
  - rewrite forallb_forall in *. intros u Hu. apply in_map_iff in Hu. destruct Hu as (v & <- & Hv). apply leI_shift; [exact Hn|apply Hi, Hv].
  - induction bk as [|x r IHr]; [reflexivity|]. cbn [map forallb] in *. apply andb_true_iff in Hk. destruct Hk as [Hx Hr].
    rewrite (IH x Hx). apply IHr, Hr.
Qed.
Lemma leB_shift H n b : 0 <= n -> n <= H + 1 -> leB H b = true -> leB (H - n) (shiftB (- n) b) = true.
Proof. intros A B. apply leB_shift'. lia. Qed.
Lemma leL_shift H n l : 0 <= n -> n <= H + 1 -> leL H l = true -> leL (H - n) (map (shiftB (- n)) l) = true.
Proof.
  intros A B Hl. unfold leL in *. rewrite forallb_forall in *. intros x Hx. apply in_map_iff in Hx. destruct Hx as (y & <- & Hy).
  apply leB_shift; [exact A|exact B|apply Hl, Hy].
Qed.
(* the statement as literally asked (only 0 <= n) does not hold: *)
Lemma leB_shift_needs_bound : ~ (forall H n b, 0 <= n -> leB H b = true -> leB (H - n) (shiftB (- n) b) = true).
Proof. intros F. specialize (F 0 5 (newBlock 0 0) ltac:(lia) eq_refl). discriminate F. Qed.

Section Le.
  Variable H : Z.
  Hypothesis H0 : 0 <= H.

  Notation le := (leB H).
  Notation leE := (leI H).
  Notation leLs := (leL H).
  Definition loc (b : block) : bool := (bstart b <=? H) && (bend b <=? H) && forallb leE (bik b).

  Lemma le_eq b : le b = loc b && leLs (bkids b). Proof. destruct b; reflexivity. Qed.
  Lemma le_parts b : le b = true -> loc b = true /\ leLs (bkids b) = true.
  Proof. rewrite le_eq. apply andb_true_iff. Qed.
  Lemma le_mk b : loc b = true -> leLs (bkids b) = true -> le b = true.
  Proof. intros A B. rewrite le_eq, A, B. reflexivity. Qed.
  Lemma loc_parts b : loc b = true -> bstart b <= H /\ bend b <= H /\ forallb leE (bik b) = true.
  Proof. unfold loc. rewrite !andb_true_iff, !Z.leb_le. tauto. Qed.
  Lemma loc_mk b : bstart b <= H -> bend b <= H -> forallb leE (bik b) = true -> loc b = true.
  Proof. intros A B C. unfold loc. rewrite !andb_true_iff, !Z.leb_le. tauto. Qed.

  Lemma loc_set_bkids b v : loc (set_bkids b v) = loc b. Proof. destruct b; reflexivity. Qed.

  Lemma le_set_bn b v : le (set_bn b v) = le b. Proof. destruct b; reflexivity. Qed.
  Lemma le_set_bchar b v : le (set_bchar b v) = le b. Proof. destruct b; reflexivity. Qed.
  Lemma le_set_bindent b v : le (set_bindent b v) = le b. Proof. destruct b; reflexivity. Qed.
  Lemma le_set_bloose b v : le (set_bloose b v) = le b. Proof. destruct b; reflexivity. Qed.
  Lemma le_set_blast b v : le (set_blast b v) = le b. Proof. destruct b; reflexivity. Qed.
  Lemma le_set_bkind b v : le (set_bkind b v) = le b. Proof. destruct b; reflexivity. Qed.
  Lemma le_set_bend b e : e <= H -> le b = true -> le (set_bend b e) = true.
  Proof.
    intros He Hb. destruct b as [K s e0 bk ik a n c l lb]. cbn [leB set_bend] in *.
    apply andb_true_iff in Hb. destruct Hb as [Hb Hk]. apply andb_true_iff in Hb. destruct Hb as [Hb Hi].
    apply andb_true_iff in Hb. destruct Hb as [Hs _].
    rewrite Hs, Hi, Hk. replace (e <=? H) with true by (symmetry; apply Z.leb_le; exact He). reflexivity.
  Qed.
  Lemma le_set_bkids b ks : le b = true -> leLs ks = true -> le (set_bkids b ks) = true.
  Proof. intros Hb Hk. apply le_parts in Hb. destruct Hb as [Hb _]. apply le_mk; [rewrite loc_set_bkids; exact Hb|destruct b; exact Hk]. Qed.
  Lemma le_set_bik b ik : le b = true -> forallb leE ik = true -> le (set_bik b ik) = true.
  Proof.
    intros Hb Hi. destruct b as [K s e bk ik0 a n c l lb]. cbn [leB set_bik] in *.
    apply andb_true_iff in Hb. destruct Hb as [Hb Hk]. apply andb_true_iff in Hb. destruct Hb as [Hb _].
    rewrite Hb, Hk, Hi. reflexivity.
  Qed.
  Lemma le_bik b : le b = true -> forallb leE (bik b) = true.
  Proof. intros Hb. apply le_parts in Hb. destruct Hb as [Hb _]. apply loc_parts in Hb. tauto. Qed.
  Lemma le_add_ik b u : le b = true -> leE u = true -> le (set_bik b (bik b ++ [u])) = true.
  Proof.
    intros Hb Hu. apply le_set_bik; [exact Hb|]. rewrite forallb_app, (le_bik b Hb). cbn [forallb]. rewrite Hu. reflexivity.
  Qed.
  Lemma le_sub_ik b ik' : le b = true -> (forall x, In x ik' -> In x (bik b)) -> le (set_bik b ik') = true.
  Proof. intros Hb Hs. apply le_set_bik; [exact Hb|]. generalize (le_bik b Hb). apply forallb_sub. exact Hs. Qed.
  Lemma le_newBlock k s : s <= H -> le (newBlock k s) = true.
  Proof.
    intros Hs. unfold newBlock. cbn [leB forallb]. replace (s <=? H) with true by (symmetry; apply Z.leb_le; exact Hs).
    replace (-1 <=? H) with true by (symmetry; apply Z.leb_le; lia). reflexivity.
  Qed.

  Lemma leL_app a b : leLs (a ++ b) = leLs a && leLs b. Proof. apply forallb_app. Qed.
  Lemma le_lastBlock b c : le b = true -> lastBlock b = Some c -> le c = true.
  Proof.
    intros Hb Hl. apply le_parts in Hb. destruct Hb as [_ Hb]. unfold leL in Hb. rewrite forallb_forall in Hb.
    apply Hb. eapply lastBlock_In. exact Hl.
  Qed.
  Lemma le_set_lastBlocks b repl : le b = true -> leLs repl = true -> le (set_lastBlocks b repl) = true.
  Proof.
    intros Hb Hr. unfold set_lastBlocks. apply le_set_bkids; [assumption|].
    rewrite leL_app, Hr, andb_true_r. apply le_parts in Hb. destruct Hb as [_ Hb]. revert Hb. apply forallb_sub. intros x. apply removelast_In.
  Qed.
  Lemma le_updAt_at f : forall d b, le b = true ->
    (forall x, getAt d b = Some x -> le x = true -> le (f x) = true) -> le (updAt d f b) = true.
  Proof.
    induction d as [|d IH]; intros b Hb Hf; [apply Hf; [reflexivity|assumption]|]. cbn [updAt].
    destruct (lastBlock b) as [c|] eqn:El; [|assumption].
    apply le_set_lastBlocks; [assumption|]. unfold leL. cbn [forallb]. rewrite andb_true_r.
    apply IH; [eapply le_lastBlock; eassumption|]. intros x Hx. apply Hf. cbn [getAt]. rewrite El. exact Hx.
  Qed.
  Lemma le_updAt f d b : le b = true -> (forall x, le x = true -> le (f x) = true) -> le (updAt d f b) = true.
  Proof. intros Hb Hf. apply le_updAt_at; [assumption|]. intros x _. apply Hf. Qed.

  (* ---- onClose handlers ---- *)
  Lemma le_onCloseIndented src b : le b = true -> le (onCloseIndented src b) = true.
  Proof.
    intros Hb. unfold onCloseIndented. apply le_sub_ik; [assumption|]. intros x Hx.
    apply in_rev in Hx. apply trimBlankTail_sub in Hx. apply in_rev in Hx.
    destruct (rev (bik b)) as [|lst [|prev r]] eqn:Er; try exact Hx.
    destruct (_ && _ && _ && _); [|exact Hx].
    apply in_rev in Hx. apply in_rev. rewrite Er. right. exact Hx.
  Qed.
  Lemma le_onCloseList b : le b = true -> le (onCloseList b) = true.
  Proof.
    intros Hb. unfold onCloseList. cbv zeta. destruct (bloose b || _); [|assumption].
    apply le_set_bkids; [rewrite le_set_bloose; assumption|].
    apply le_parts in Hb. destruct Hb as [_ Hb]. unfold leL in *. rewrite forallb_forall in *.
    intros x Hx. apply in_map_iff in Hx. destruct Hx as (y & <- & Hy). rewrite le_set_bloose. apply Hb, Hy.
  Qed.
  Lemma le_onCloseParagraph src orig : ~ In 91 src -> le orig = true -> leLs (onCloseParagraph src orig) = true.
  Proof. intros N Ho. rewrite (ocp_nobracket src orig N). unfold leL. cbn [forallb]. rewrite Ho. reflexivity. Qed.

  Lemma le_closeBlock src e : ~ In 91 src -> e <= H -> forall fuel b, le b = true -> leLs (closeBlock fuel src b e) = true.
  Proof.
    intros N He. induction fuel as [|f IH]; intros b Hb; [unfold leL; cbn; rewrite Hb; reflexivity|]. cbn [closeBlock].
    destruct (negb (isOpen b)); [unfold leL; cbn; rewrite Hb; reflexivity|]. cbv zeta.
    assert (Hcl : forall x, le x = true ->
              le (match lastBlock x with Some c => set_lastBlocks x (closeBlock f src c e) | None => x end) = true).
    { intros x Hx. destruct (lastBlock x) as [c|] eqn:El; [|assumption].
      apply le_set_lastBlocks; [assumption|]. apply IH. eapply le_lastBlock; eassumption. }
    assert (H1 : le (set_bend b e) = true) by (apply le_set_bend; assumption).
    destruct (bkind (set_bend b e) =? ListKind).
    { unfold leL. cbn [forallb]. rewrite Hcl; [reflexivity|]. apply le_onCloseList. assumption. }
    destruct (bkind (set_bend b e) =? IndentedCodeBlockKind).
    { unfold leL. cbn [forallb]. rewrite Hcl; [reflexivity|]. apply le_onCloseIndented. assumption. }
    destruct ((bkind (set_bend b e) =? ParagraphKind) || (bkind (set_bend b e) =? SetextHeadingKind)).
    { apply le_onCloseParagraph; assumption. }
    unfold leL. cbn [forallb]. rewrite Hcl; [reflexivity|assumption].
  Qed.

  (* ---- the line parser ---- *)
  Definition leP (p : lp) : Prop :=
    le (root p) = true /\ 0 <= lineStart p /\ 0 <= li p <= len (line p) /\ lineStart p + len (line p) = H /\ len (source p) <= H /\
    ~ In 91 (source p).
  Definition envEq (p p' : lp) : Prop :=
    lineStart p' = lineStart p /\ line p' = line p /\ source p' = source p.

  Lemma leP_tree p p' : leP p -> envEq p p' -> li p' = li p -> le (root p') = true -> leP p'.
  Proof. intros (A & B & C & D & E & F) (E1 & E2 & E3) E4 Hr. unfold leP. rewrite E1, E2, E3, E4. tauto. Qed.
  Lemma leP_cursor p p' : leP p -> envEq p p' -> root p' = root p -> 0 <= li p' <= len (line p) -> leP p'.
  Proof. intros (A & B & C & D & E & F) (E1 & E2 & E3) Er Hl. unfold leP. rewrite E1, E2, E3, Er. tauto. Qed.
  Lemma env_refl p : envEq p p. Proof. split; [reflexivity|split; reflexivity]. Qed.

  Lemma leP_opened p : leP p -> leP (if state p =? stOpening then withState p stOpenMatched else p).
  Proof. intros Hp. destruct (_ =? _); exact Hp. Qed.
  Lemma leP_advance p n : leP p -> leP (advance p n).
  Proof.
    intros Hp. unfold advance. destruct (Z.ltb_spec n 0); [exact Hp|]. destruct (n =? 0); [exact Hp|]. cbv zeta.
    set (p0 := if state p =? stOpening then withState p stOpenMatched else p).
    assert (E0 : envEq p p0 /\ root p0 = root p /\ li p0 = li p).
    { unfold p0; destruct (_ =? _); (split; [split; [reflexivity|split; reflexivity]|split; reflexivity]). }
    destruct E0 as ((E1 & E2 & E3) & Er & El).
    destruct (Z.ltb_spec (len (line p0)) (li p0 + n)).
    - apply (leP_cursor p); [exact Hp|split; [|split]; assumption|exact Er|]. cbn. rewrite El. apply Hp.
    - apply (leP_cursor p); [exact Hp|split; [|split]; assumption|exact Er|]. cbn [li withCursor setLP].
      rewrite E2 in *. destruct Hp as (_ & _ & C & _). lia.
  Qed.
  Lemma leP_consumeLine p : leP p -> leP (consumeLine p).
  Proof.
    intros Hp. unfold consumeLine. cbv zeta. pose proof (leP_advance p (len (line p) - li p) Hp) as H1.
    destruct (_ || _); [exact H1|]. destruct (_ =? stDescending); exact H1.
  Qed.
  Lemma leP_consumeIndent_loop : forall fuel p n, leP p -> leP (consumeIndent_loop fuel p n).
  Proof.
    induction fuel as [|f IH]; intros p n Hp; [exact Hp|]. cbn [consumeIndent_loop].
    destruct (n <=? 0); [exact Hp|]. cbv zeta.
    set (p0 := if state p =? stOpening then withState p stOpenMatched else p).
    assert (H0p : leP p0) by (apply leP_opened, Hp).
    destruct (Z.ltb_spec (li p0) (len (line p0))) as [L|L]; cbn [andb]; [|exact H0p].
    assert (Hstep : forall cl tr, leP (withCursor p0 (li p0 + 1) cl tr)).
    { intros cl tr. apply (leP_cursor p0); [exact H0p|(split; [reflexivity|split; reflexivity])|reflexivity|]. cbn. destruct H0p as (_ & _ & C & _). lia. }
    destruct (at_ (line p0) (li p0) =? 32); [apply IH, Hstep|].
    destruct (at_ (line p0) (li p0) =? 9); [|exact H0p].
    destruct (n <? _); [|apply IH, Hstep].
    apply (leP_cursor p0); [exact H0p|(split; [reflexivity|split; reflexivity])|reflexivity|]. cbn. apply H0p.
  Qed.
  Lemma leP_consumeIndent p n : leP p -> leP (consumeIndent p n). Proof. apply leP_consumeIndent_loop. Qed.

  Lemma leP_updCont_at p f : leP p ->
    (forall x, getAt (cdepth p) (root p) = Some x -> le x = true -> le (f x) = true) -> leP (updCont p f).
  Proof.
    intros Hp Hf. apply (leP_tree p); [exact Hp|(split; [reflexivity|split; reflexivity])|reflexivity|]. cbn. apply le_updAt_at; [apply Hp|exact Hf].
  Qed.
  Lemma leP_updCont p f : leP p -> (forall x, le x = true -> le (f x) = true) -> leP (updCont p f).
  Proof. intros Hp Hf. apply leP_updCont_at; [exact Hp|]. intros x _. apply Hf. Qed.

  Lemma leP_closeLastChildAt p d e : leP p -> e <= H -> leP (closeLastChildAt p d e).
  Proof.
    intros Hp He. apply (leP_tree p); [exact Hp|(split; [reflexivity|split; reflexivity])|reflexivity|]. unfold closeLastChildAt. cbn [root withRoot setLP].
    apply le_updAt; [apply Hp|]. intros x Hx. destruct (lastBlock x) as [c|] eqn:El; [|exact Hx].
    apply le_set_lastBlocks; [exact Hx|]. apply le_closeBlock; [apply Hp|exact He|]. eapply le_lastBlock; eassumption.
  Qed.
  Lemma len_nonneg' {A} (l : list A) : 0 <= len l. Proof. unfold len. lia. Qed.
  Lemma ls_le p : leP p -> lineStart p <= H /\ lineStart p + li p <= H.
  Proof. intros (_ & B & C & D & _ & _). pose proof (len_nonneg' (line p)). lia. Qed.

  Lemma leP_openBlock_up : forall fuel p kind, leP p -> leP (openBlock_up fuel p kind).
  Proof.
    induction fuel as [|f IH]; intros p kind Hp; [exact Hp|]. cbn [openBlock_up].
    destruct (canContain _ _); [exact Hp|]. destruct (cdepth p); [exact Hp|].
    apply IH. apply (leP_closeLastChildAt p n (lineStart p) Hp). apply (ls_le p Hp).
  Qed.
  Lemma leP_openBlock p kind : leP p -> leP (openBlock p kind).
  Proof.
    intros Hp. unfold openBlock. destruct (_ || _); [exact Hp|]. cbv zeta.
    set (p2 := openBlock_up _ _ kind). assert (H2 : leP p2) by (apply leP_openBlock_up, leP_opened, Hp).
    set (p3 := closeLastChildAt p2 (cdepth p2) (lineStart p2)).
    assert (H3 : leP p3) by (apply leP_closeLastChildAt; [exact H2|apply (ls_le p2 H2)]).
    match goal with |- leP (withCont ?q _) => change (leP q) end.
    apply leP_updCont; [exact H3|]. intros x Hx. apply le_set_bkids; [exact Hx|].
    rewrite leL_app. apply le_parts in Hx. destruct Hx as [_ Hx]. rewrite Hx. unfold leL. cbn [forallb andb].
    rewrite le_newBlock; [reflexivity|apply (ls_le p3 H3)].
  Qed.
  Lemma leP_endBlock p : leP p -> leP (endBlock p).
  Proof.
    intros Hp. unfold endBlock. destruct (_ || _); [exact Hp|]. cbv zeta.
    set (p0 := if state p =? stOpening then withState p stOpenMatched else p).
    assert (H0p : leP p0) by (apply leP_opened, Hp).
    destruct (cdepth p0); [exact H0p|].
    match goal with |- leP (withCont ?q _) => change (leP q) end.
    apply leP_closeLastChildAt; [exact H0p|apply (ls_le p0 H0p)].
  Qed.

  Lemma leE_plain k s e : s <= H -> e <= H -> leE (mkI k s e) = true.
  Proof. intros Hs He. unfold mkI. cbn [leI forallb]. rewrite andb_true_r. apply andb_true_iff. split; apply Z.leb_le; assumption. Qed.
  Lemma leE_indent s e ind : s <= H -> e <= H -> leE (Inl IndentKind s e ind [] []) = true.
  Proof. intros Hs He. cbn [leI forallb]. rewrite andb_true_r. apply andb_true_iff. split; apply Z.leb_le; assumption. Qed.

  (* InfoString entries: every child built by infoString_loop ends at or before e *)
  Lemma forallb_snoc {A} (f : A -> bool) l x : forallb f l = true -> f x = true -> forallb f (l ++ [x]) = true.
  Proof. intros A1 A2. rewrite forallb_app, A1. cbn [forallb]. rewrite A2. reflexivity. Qed.
  Lemma len_sub_le' (src : bytes) i e : i <= e -> len (sub src i e) <= e - i.
  Proof. intros Hie. unfold sub, upto, len. rewrite firstn_length. lia. Qed.
  Lemma leE_infoString_loop src e : e <= H -> forall fuel i ps acc, forallb leE acc = true ->
    forallb leE (fst (infoString_loop fuel src i e ps acc)) = true.
  Proof.
    intros He. induction fuel as [|f IH]; intros i ps acc Ha; cbn [infoString_loop]; [exact Ha|].
    destruct (Z.leb_spec e i) as [L|L]; [exact Ha|].
    assert (Hflush : forallb leE (if ps <? i then acc ++ [mkI TextKind ps i] else acc) = true).
    { destruct (Z.ltb_spec ps i) as [L1|L1]; [|exact Ha]. apply forallb_snoc; [exact Ha|apply leE_plain; lia]. }
    destruct (at_ src i =? 92).
    - destruct ((e <=? i + 1) || negb (isASCIIPunctuation (at_ src (i + 1)))) eqn:Ee; [apply IH; exact Ha|].
      apply orb_false_iff in Ee. destruct Ee as [Ee _]. apply Z.leb_gt in Ee.
      apply IH. apply forallb_snoc; [exact Hflush|apply leE_plain; lia].
    - destruct (at_ src i =? 38); [|apply IH; exact Ha].
      destruct (Z.ltb_spec (parseCharacterEscape (sub src i e)) 0) as [Ln|Ln]; [apply IH; exact Ha|].
      pose proof (parseCharacterEscape_bounds _ Ln) as [P1 P2]. pose proof (len_sub_le' src i e ltac:(lia)) as Hl.
      apply IH. apply forallb_snoc; [exact Hflush|apply leE_plain; lia].
  Qed.
  Lemma leI_parseInfoString src s e : s <= H -> e <= H -> leE (parseInfoString src s e) = true.
  Proof.
    intros Hs He. unfold parseInfoString.
    pose proof (leE_infoString_loop src e He (S (Z.to_nat (e - s))) s s [] eq_refl) as Hl.
    destruct (infoString_loop _ _ _ _ _ _) as [acc ps]. cbn [fst] in Hl.
    cbn [leI]. apply andb_true_iff. split; [apply andb_true_iff; split; apply Z.leb_le; assumption|].
    destruct (Z.ltb_spec ps e) as [L|L]; [|exact Hl]. apply forallb_snoc; [exact Hl|apply leE_plain; lia].
  Qed.

  Lemma leP_collectInline p kind n : leP p -> leP (collectInline p kind n).
  Proof.
    intros Hp. unfold collectInline. destruct (_ =? stDescendTerminated); [exact Hp|]. cbv zeta.
    set (p0 := if state p =? stOpening then withState p stOpenMatched else p).
    assert (H0p : leP p0) by (apply leP_opened, Hp).
    set (p1 := if 0 <? indent p0 then _ else p0).
    assert (H1 : leP p1).
    { unfold p1. destruct (0 <? indent p0); [|exact H0p].
      pose proof (leP_advance p0 (indentLength (rest p0)) H0p) as Ha.
      apply leP_updCont; [exact Ha|]. intros x Hx. apply le_add_ik; [exact Hx|].
      apply leE_indent; [apply (ls_le p0 H0p)|apply (ls_le _ Ha)]. }
    pose proof (leP_advance p1 n H1) as Ha.
    apply leP_updCont; [exact Ha|]. intros x Hx. apply le_add_ik; [exact Hx|].
    destruct (kind =? InfoStringKind).
    - apply leI_parseInfoString; [apply (ls_le p1 H1)|apply (ls_le _ Ha)].
    - apply leE_plain; [apply (ls_le p1 H1)|apply (ls_le _ Ha)].
  Qed.

  Lemma leP_matchRule p : leP p -> leP (snd (matchRule p)).
  Proof.
    intros Hp. unfold matchRule. cbv zeta.
    destruct (_ || _); [assumption|].
    destruct (_ =? ListItemKind).
    { unfold matchListItem. destruct (isRestBlank p); [destruct (negb _); [assumption|apply leP_consumeIndent, Hp]|].
      destruct (_ <=? _); [apply leP_consumeIndent, Hp|assumption]. }
    destruct (_ =? BlockQuoteKind).
    { unfold matchBlockQuote. cbv zeta. destruct (_ <=? _); [assumption|]. destruct (negb _); [assumption|]. cbn [snd].
      unfold eatQuoteMarker. cbv zeta. destruct (0 <? _); repeat first [apply leP_consumeIndent|apply leP_advance]; assumption. }
    destruct (_ =? FencedCodeBlockKind).
    { unfold matchFenced. cbv zeta. destruct (if _ <? _ then _ else false); cbn [snd]; [apply leP_consumeLine|apply leP_consumeIndent]; assumption. }
    destruct (_ =? IndentedCodeBlockKind).
    { unfold matchIndented. cbv zeta. destruct (_ <? _); [destruct (negb _)|]; cbn [snd]; try apply leP_consumeIndent; assumption. }
    destruct (_ =? HTMLBlockKind).
    { unfold matchHTML. destruct (htmlEnd _ _); [|assumption]. destruct (isRestBlank _); [assumption|]. cbn [snd]. apply leP_consumeLine.
      apply leP_collectInline; assumption. }
    assumption.
  Qed.
  Lemma leP_descend_loop : forall fuel p d, leP p -> leP (snd (descend_loop fuel p d)).
  Proof.
    induction fuel as [|f IH]; intros p d Hp; [exact Hp|]. cbn [descend_loop]. cbv zeta.
    destruct (getAt (S d) (root p)) as [c|]; [|exact Hp].
    destruct (negb (isOpen c)); [exact Hp|]. destruct (negb (hasMatch _)); [exact Hp|].
    pose proof (leP_matchRule (withState (withCont p (Some (S d))) stDescending) Hp) as H2.
    destruct (matchRule _) as [ok p2]. cbn [snd] in H2.
    destruct (state p2 =? stDescendTerminated).
    { cbn [snd]. match goal with |- leP (withCont ?q _) => change (leP q) end.
      apply leP_closeLastChildAt; [exact H2|apply (ls_le p2 H2)]. }
    destruct (negb ok); [exact H2|]. apply IH. exact H2.
  Qed.

  Ltac chainb Hh :=
    repeat match goal with
    | |- leP (consumeLine _) => apply leP_consumeLine
    | |- leP (endBlock _) => apply leP_endBlock
    | |- leP (advance _ _) => apply leP_advance
    | |- leP (consumeIndent _ _) => apply leP_consumeIndent
    | |- leP (openBlock _ _) => apply leP_openBlock
    | |- leP (collectInline _ _ _) => apply leP_collectInline
    | |- leP (updCont _ _) => apply leP_updCont; [|intros ? ?; rewrite ?le_set_bn, ?le_set_bchar, ?le_set_bindent; assumption]
    | |- leP (if ?c then _ else _) => destruct c
    end;
    try exact Hh.

  Definition startOKb (f : lp -> lp) : Prop := forall p, leP p -> leP (f p).
  Lemma blockStarts_okb : Forall startOKb blockStarts.
  Proof.
    unfold blockStarts.
    apply Forall_cons. { intros p Hp. unfold startBlockQuote. cbv zeta. chainb Hp. }
    apply Forall_cons. { intros p Hp. unfold startATX. cbv zeta. destruct (_ <=? _); [exact Hp|].
                         destruct (parseATXHeading _) as [[level cs] ce]. chainb Hp. }
    apply Forall_cons. { intros p Hp. unfold startFenced. cbv zeta. destruct (_ <=? _); [exact Hp|].
                         destruct (parseCodeFence _) as [[[fc fnn] is_] ie]. chainb Hp. }
    apply Forall_cons. { intros p Hp. unfold startHTML. cbv zeta. chainb Hp. }
    apply Forall_cons.
    { intros p Hp. unfold startSetext. cbv zeta. destruct (negb (containerKind p =? ParagraphKind)); [exact Hp|].
      do 3 (match goal with |- leP (if ?c then _ else _) => destruct c end; [exact Hp|]).
      apply leP_endBlock, leP_consumeLine. apply leP_updCont; [exact Hp|].
      intros x Hb. rewrite le_set_bn, le_set_bkind. exact Hb. }
    apply Forall_cons. { intros p Hp. unfold startThematic. cbv zeta. chainb Hp. }
    apply Forall_cons.
    { intros p Hp. unfold startListItem. cbv zeta. destruct (_ <=? _); [exact Hp|].
      destruct (parseListMarker _) as [[delim n] mend]. destruct (_ || _); [exact Hp|]. destruct (_ && _); [exact Hp|].
      match goal with |- context [endBlock ?X] => assert (H1 : leP (endBlock X)) by chainb Hp end.
      match goal with |- context [endBlock ?X] => set (q := endBlock X) in * end.
      destruct (isRestBlank q); [chainb H1|].
      destruct (indent q <? 1); [chainb H1|]. destruct (4 <? indent q); chainb H1. }
    apply Forall_cons. { intros p Hp. unfold startIndented. chainb Hp. }
    apply Forall_nil.
  Qed.
  Lemma leP_tryStarts : forall fs p, Forall startOKb fs -> leP p -> leP (snd (tryStarts fs p)).
  Proof.
    induction fs as [|f r IH]; intros p Hfs Hp; [exact Hp|]. cbn [tryStarts]. cbv zeta. inversion Hfs as [|? ? Hf Hr]; subst.
    assert (H1 : leP (f (withState p stOpening))) by (apply Hf; exact Hp).
    destruct (_ || _); [exact H1|]. apply IH; assumption.
  Qed.
  Lemma leP_opening_loop : forall fuel p, leP p -> leP (snd (opening_loop fuel p)).
  Proof.
    induction fuel as [|f IH]; intros p Hp; [exact Hp|]. cbn [opening_loop].
    destruct (_ || _); [|exact Hp].
    pose proof (leP_tryStarts blockStarts p blockStarts_okb Hp) as H1. destruct (tryStarts blockStarts p) as [[|] p1]; cbn [snd] in H1.
    - destruct (_ =? stLineConsumed); [exact H1|apply IH; exact H1].
    - exact H1.
  Qed.
  Lemma leP_deferredClose p : leP p -> leP (deferredClose p).
  Proof.
    intros Hp. unfold deferredClose. cbv zeta. destruct (_ && _); [exact Hp|].
    apply leP_closeLastChildAt; [exact Hp|apply (ls_le p Hp)].
  Qed.
  Lemma leP_openNewBlocks p am : leP p -> leP (snd (openNewBlocks p am)).
  Proof.
    intros Hp. unfold openNewBlocks. destruct (_ =? 0).
    - cbn [snd]. apply (leP_tree p); [exact Hp|(split; [reflexivity|split; reflexivity])|reflexivity|]. cbn [root withCont withRoot setLP].
      pose proof (le_closeBlock (source p) (lineStart p) ltac:(apply Hp) ltac:(apply (ls_le p Hp)) (bheight (root p)) (root p) ltac:(apply Hp)) as Hc.
      destruct (closeBlock _ _ _ _) as [|b r]; [apply Hp|]. unfold leL in Hc. cbn [forallb] in Hc. apply andb_true_iff in Hc. tauto.
    - pose proof (leP_opening_loop (S (length (line p))) p Hp) as H1. destruct (opening_loop _ p) as [ht p1]. cbn [snd] in H1.
      destruct am; cbn [snd]; [exact H1|apply leP_deferredClose, H1].
  Qed.

  Lemma le_setLastBlankUpTo v : forall d rt, le rt = true -> le (setLastBlankUpTo d v rt) = true.
  Proof.
    induction d as [|d IH]; intros rt Hr; cbn [setLastBlankUpTo].
    - cbn [updAt]. rewrite le_set_blast. exact Hr.
    - apply IH. apply le_updAt; [exact Hr|]. intros x Hx. rewrite le_set_blast. exact Hx.
  Qed.

  Lemma leP_addLineText p : leP p -> leP (addLineText p).
  Proof.
    intros Hp. unfold addLineText. cbv zeta.
    set (p1 := if isRestBlank p then _ else p).
    assert (H1 : leP p1).
    { unfold p1. destruct (isRestBlank p); [|exact Hp]. apply leP_updCont; [exact Hp|].
      intros x Hx. destruct (lastBlock x) as [c|] eqn:El; [|exact Hx].
      apply le_set_lastBlocks; [exact Hx|]. unfold leL. cbn [forallb]. rewrite le_set_blast, andb_true_r. eapply le_lastBlock; eassumption. }
    set (p2 := withRoot p1 _).
    assert (H2 : leP p2).
    { apply (leP_tree p1); [exact H1|(split; [reflexivity|split; reflexivity])|reflexivity|]. cbn [root withRoot setLP].
      apply le_setLastBlankUpTo. apply H1. }
    assert (Hgo : forall q, leP q ->
      leP (let k := containerKind q in
            let inlineKind := if isCode k then TextKind else if k =? HTMLBlockKind then RawHTMLKind else UnparsedKind in
            let q' := updCont q (fun b => set_bik b (bik b ++ [mkI inlineKind (lineStart q + li q) (lineStart q + len (line q))])) in
            if isCode k && negb (hasByteSuffixEOL (line q')) then
              updCont q' (fun b => set_bik b (bik b ++ [mkI SoftLineBreakKind (lineStart q' + len (line q')) (lineStart q' + len (line q'))]))
            else q')).
    { intros q Hq. cbv zeta. pose proof Hq as (_ & Q1 & Q2 & Q3 & _ & _).
      set (q' := updCont q _).
      assert (Hq' : leP q').
      { apply leP_updCont; [exact Hq|]. intros x Hx. apply le_add_ik; [exact Hx|].
        apply leE_plain; [apply (ls_le q Hq)|lia]. }
      match goal with |- leP (if ?c then _ else _) => destruct c end; [|exact Hq'].
      apply leP_updCont; [exact Hq'|]. intros x Hx. apply le_add_ik; [exact Hx|].
      change (lineStart q') with (lineStart q). change (line q') with (line q).
      apply leE_plain; lia. }
    match goal with |- leP (if ?c then _ else _) => destruct c end.
    - apply Hgo. match goal with |- leP (if ?c then _ else _) => destruct c eqn:Ec end; [|exact H2].
      apply leP_consumeIndent. apply leP_updCont; [exact H2|]. intros x Hx. apply le_add_ik; [exact Hx|].
      apply andb_true_iff in Ec. destruct Ec as [Ec _]. apply andb_true_iff in Ec. destruct Ec as [Ec _]. apply andb_true_iff in Ec. destruct Ec as [Ec _].
      apply Z.ltb_lt in Ec. pose proof H2 as (_ & Q1 & Q2 & Q3 & _ & _).
      apply leE_indent; lia.
    - match goal with |- leP (if ?c then _ else _) => destruct c end; [|exact H2]. apply Hgo.
      apply leP_consumeIndent, leP_openBlock, H2.
  Qed.
End Le.

(* ---- one line ---- *)
Theorem le_processLine H st children ls src :
  ~ In 91 src -> 0 <= ls -> ls + len (from_ src ls) = H -> len src <= H ->
  leL H children = true ->
  leL H (fst (fst (processLine st children ls src))) = true.
Proof.
  intros N Hls Hhi Hsrc Hc. unfold processLine. cbv zeta.
  assert (Hlen : 0 <= len (from_ src ls)) by (unfold len; lia).
  assert (H0 : 0 <= H) by lia.
  assert (Hp0 : leP H (resetLP st children ls src)).
  { unfold leP, resetLP. cbn [root lineStart li line source].
    refine (conj _ (conj Hls (conj (conj (Z.le_refl 0) Hlen) (conj Hhi (conj Hsrc N))))).
    cbn [leB forallb]. replace (0 <=? H) with true by (symmetry; apply Z.leb_le; lia).
    replace (-1 <=? H) with true by (symmetry; apply Z.leb_le; lia). cbn [andb]. exact Hc. }
  pose proof (leP_descend_loop H (bheight (root (resetLP st children ls src))) _ O Hp0) as H1.
  fold (descendOpenBlocks (resetLP st children ls src)) in H1.
  destruct (descendOpenBlocks _) as [am p1]. cbn [snd] in H1.
  assert (H2 : leP H (snd (if negb (state p1 =? stDescendTerminated) then openNewBlocks p1 am else (false, p1)))).
  { destruct (negb _); [apply leP_openNewBlocks; assumption|assumption]. }
  destruct (if negb (state p1 =? stDescendTerminated) then openNewBlocks p1 am else (false, p1)) as [ht p2]. cbn [snd] in H2.
  cbn [fst].
  assert (H3 : leP H (if ht then addLineText p2 else p2)) by (destruct ht; [apply leP_addLineText|]; assumption).
  destruct H3 as (A & _). apply le_parts in A. tauto.
Qed.
Print Assumptions le_processLine.
Print Assumptions leB_mono.
Print Assumptions leL_mono.
Print Assumptions leB_shift.
Print Assumptions leL_shift.
Print Assumptions leB_shift_needs_bound.
Print Assumptions leI_parseInfoString.
