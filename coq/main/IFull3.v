(* IFull3.v -- T71: every leaf of a document D under itemHyps satisfies the hypotheses QInlCoreDef.LeafHyps of the core of the inline
   simulation against item mk N D (position map sgI K D o, gaps = runs of spaces); hence LeafSimAtI, and with IFull1 / IFull2 the tree of
   item mk N D after the inline pass.  All facts about D alone are those of QFull3b / QFull3c / QFull3d. *)
From Coq Require Import List ZArith Lia Bool.
Import ListNotations.
Require Import Base Tree Recog LP Rules Driver Inl3a Inl3e Render SpanHypDef ShapesR InlineShapes EntDefs IS1 QuoteSimMap QuoteSimDefs QuoteSimDrv1
  ItemSimDefs ItemSimDrv1 ItemSimMain QCutsDef QCuts QIRdrBase QInlDefs QInlBytesEmph QInlHtml QInlGapParen QInlCoreDef QInlCore
  QFullDefs QFull1 QFull2 QFull3a QFull3b QFull3c QFull3d QFull3 IInlBytesInst IFullDefs IFull1 IFull2.
Open Scope Z_scope.

Lemma sgI_sigmaK K D o x : 0 <= o -> 0 <= x -> sgI K D o x = sigmaK K D (o + x).
Proof. intros Ho Hx. unfold sgI. cbv zeta. destruct (Z.ltb_spec (o + x) 0); [lia|reflexivity]. Qed.

(* a translation for sigma is a translation for sigmaK: both say that the number of line feeds before the position is constant *)
Lemma transl_sgI K D o s x : 0 <= o -> 0 <= s <= x -> sgO D o x = sgO D o s + (x - s) -> sgI K D o x = sgI K D o s + (x - s).
Proof.
  intros Ho Hx E. rewrite !(sgO_sigma D o Ho) in E by lia. rewrite !sgI_sigmaK by lia. unfold sigma in E. unfold sigmaK.
  assert (En : nl D (o + x) = nl D (o + s)) by lia. rewrite En. lia.
Qed.

(* ---- from positions relative to a root of D to absolute positions (as QFull3b.qI3_shift) ---- *)
Section Shift.
  Variables (K : Z) (D sD : bytes) (o : Z).
  Hypothesis Ho : 0 <= o.
  Hypothesis Hat : forall x, 0 <= x < len sD -> at_ sD x = at_ D (o + x).
  Lemma qI3_shiftI : forall i, validI sD i = true -> qI3 sD (sgI K D o) i = iI3 K D (shiftI o i).
  Proof.
    fix IH 1. intros [k s e ind rf ks] H. cbn [validI] in H. apply andb_true_iff in H. destruct H as [Hv Hk].
    unfold Props.span_valid in Hv. apply andb_true_iff in Hv. destruct Hv as [Hv H3]. apply andb_true_iff in Hv. destruct Hv as [H1 H2].
    apply Z.leb_le in H1, H2, H3.
    unfold iI3. cbn [shiftI qI3]. cbv zeta.
    destruct (Z.leb_spec 0 e) as [_|X]; [|lia].
    assert (Ek : flat_map (qI3 sD (sgI K D o)) ks = flat_map (qI3 D (sigmaK K D)) (map (shiftI o) ks)).
    { clear -IH Hk. induction ks as [|c r IHr]; [reflexivity|]. cbn [forallb] in Hk. apply andb_true_iff in Hk. destruct Hk as [Hc Hr].
      cbn [flat_map map]. rewrite (IH c Hc), (IHr Hr). reflexivity. }
    rewrite Ek.
    replace (s + o <? e + o) with (s <? e) by (destruct (Z.ltb_spec s e), (Z.ltb_spec (s + o) (e + o)); lia).
    destruct (splitK k && (s <? e)) eqn:Es.
    - apply andb_true_iff in Es. destruct Es as [_ Es]. apply Z.ltb_lt in Es.
      replace (s + o) with (o + s) by lia. replace (e + o) with (o + e) by lia.
      rewrite (cuts_shift D sD o Hat s e H1 H3), map_map. apply map_ext_in. intros p Hp.
      destruct (QCuts.cuts_bounds sD s e p Es Hp) as (B1 & B2 & B3). unfold mvP. cbn [fst snd].
      rewrite !sgI_sigmaK by lia. replace (o + snd p - 1) with (o + (snd p - 1)) by lia. reflexivity.
    - unfold eE. replace (s + o <? e + o) with (s <? e) by (destruct (Z.ltb_spec s e), (Z.ltb_spec (s + o) (e + o)); lia).
      rewrite sgI_sigmaK by lia. replace (s + o) with (o + s) by lia.
      destruct (Z.ltb_spec s e) as [L|L]; [|reflexivity].
      rewrite sgI_sigmaK by lia. replace (e + o - 1) with (o + (e - 1)) by lia. reflexivity.
  Qed.
  Lemma qI3_shiftI_list l : forallb (validI sD) l = true -> flat_map (qI3 sD (sgI K D o)) l = flat_map (iI3 K D) (map (shiftI o) l).
  Proof.
    induction l as [|x r IH]; intros H; [reflexivity|]. cbn [forallb] in H. apply andb_true_iff in H. destruct H as [Hx Hr].
    cbn [flat_map map]. rewrite (qI3_shiftI x Hx), (IH Hr). reflexivity.
  Qed.
End Shift.

(* ---- the image of an Unparsed entry without children ---- *)
Lemma entry_imgI K D o u : 0 <= o -> ikind u = UnparsedKind -> ikids u = [] -> 0 <= istart u <= iend u ->
  (forall x, istart u <= x < iend u -> sgI K D o x = sgI K D o (istart u) + (x - istart u)) ->
  iI K D (shiftI o u) = [mvS (sgI K D o) u].
Proof.
  intros Ho Hk Hn Hse Ht. destruct u as [k s e ind rf ks]. cbn [ikind ikids istart iend] in *. subst k ks.
  cbn [shiftI map]. destruct (Z.leb_spec 0 e) as [_|X]; [|lia]. cbn [iI flat_map]. cbv zeta.
  change (UnparsedKind =? TextKind) with false. cbn [andb]. unfold mvS. cbn [istart mvI map].
  pose proof (sgI_sigmaK K D o s Ho ltac:(lia)) as Es.
  assert (E1 : sigmaK K D (s + o) = s + (sgI K D o s - s)) by (replace (s + o) with (o + s) by lia; lia).
  assert (E2 : epsilonK K D (s + o) (e + o) = e + (sgI K D o s - s)).
  { unfold epsilonK. destruct (Z.ltb_spec (e + o) 0); [lia|]. destruct (Z.ltb_spec (s + o) (e + o)) as [L|L].
    - pose proof (Ht (e - 1) ltac:(lia)) as E. rewrite (sgI_sigmaK K D o (e - 1) Ho) in E by lia.
      replace (e + o - 1) with (o + (e - 1)) by lia. lia.
    - replace (s + o) with (o + s) by lia. lia. }
  rewrite E1, E2. reflexivity.
Qed.
Lemma entries_imgI K D o : 0 <= o -> forall l, Forall (fun u => ikind u = UnparsedKind /\ ikids u = [] /\ 0 <= istart u <= iend u /\
    (forall x, istart u <= x < iend u -> sgI K D o x = sgI K D o (istart u) + (x - istart u))) l ->
  flat_map (iI K D) (map (shiftI o) l) = map (mvS (sgI K D o)) l.
Proof.
  intros Ho. induction 1 as [|u r (A & B & C & T) _ IH]; [reflexivity|]. cbn [map flat_map]. rewrite (entry_imgI K D o u Ho A B C T), IH. reflexivity.
Qed.
Lemma bik_imgI K D o b : bik (iB K D (shiftB o b)) = flat_map (iI K D) (map (shiftI o) (bik b)).
Proof. destruct b; reflexivity. Qed.
Lemma bend_imgI K D o b : 0 <= o -> 0 < bend b -> bend (iB K D (shiftB o b)) = sgI K D o (bend b - 1) + 1.
Proof.
  intros Ho Hb. destruct b as [k s e bk ik a n c l lb]. cbn [bend] in Hb. cbn [shiftB iB bend].
  destruct (Z.leb_spec 0 e); [|lia]. unfold epsBK. destruct (Z.leb_spec (e + o) 0); [lia|].
  rewrite (sgI_sigmaK K D o (e - 1) Ho) by lia. replace (o + (e - 1)) with (e + o - 1) by lia. reflexivity.
Qed.

Lemma mk_len_pos mk delim : bulletMk mk delim \/ orderedMk mk delim -> 0 < len mk.
Proof.
  intros [[-> _]|(ds & -> & _)]; [reflexivity|]. unfold len. rewrite app_length. cbn [length]. lia.
Qed.

Section Doc.
  Variables (mk : bytes) (delim N : Z) (D : bytes).
  Hypothesis HH : itemHyps mk delim N D.
  Notation K := (len mk + N).
  Notation roots := (fst (parseBlocks D)).
  Let HT : tabFree D := proj1 (proj2 (proj2 HH)).
  Lemma D_ne : D <> [].
  Proof. pose proof HH as X. destruct X as (_ & _ & _ & [(c & r & E & _) _] & _). rewrite E. discriminate. Qed.
  Let Hne := D_ne.
  Let HK : KidsNilAt D := KidsNil_holds D HT Hne.
  Lemma D_first10 : exists c r, D = c :: r /\ c <> 10.
  Proof.
    pose proof HH as X. destruct X as (_ & _ & HT' & Hok & _). destruct (okDoc_first D HT' Hok) as (c & r & E & Hc). exists c, r. split; [exact E|].
    intros ->. discriminate Hc.
  Qed.
  Lemma N_pos : 1 <= N. Proof. pose proof HH as X. destruct X as (_ & HN & _). lia. Qed.
  Lemma mk_pos : 0 < len mk. Proof. pose proof HH as X. destruct X as (Hm & _). apply (mk_len_pos mk delim Hm). Qed.

  Lemma leaf_entries_factsI r b : In r roots -> subB b (rb_blk r) -> isLeafU b = true ->
    Forall (fun u => ikind u = UnparsedKind /\ ikids u = [] /\ 0 <= istart u <= iend u /\
       (forall x, istart u <= x < iend u -> sgI K D (rb_start r) x = sgI K D (rb_start r) (istart u) + (x - istart u))) (bik b).
  Proof.
    intros Hr Hb HL. destruct (root_geom D HT r Hr) as (G1 & _).
    pose proof (leaf_entries_facts D HT Hne r b Hr Hb HL) as H. eapply Forall_impl; [|exact H]. cbv beta.
    intros u (A & B & C & T). split; [exact A|]. split; [exact B|]. split; [exact C|].
    intros x Hx. apply (transl_sgI K D (rb_start r) (istart u) x G1 ltac:(lia) (T x Hx)).
  Qed.

  Lemma leaf_hypsI r b : In r roots -> subB b (rb_blk r) -> isLeafU b = true -> bikOK' (rb_src r) b = true ->
    LeafHyps (rb_src r) (item mk N D) (sgI K D (rb_start r)) b (iB K D (shiftB (rb_start r) b)).
  Proof.
    intros Hr Hb HL Hok.
    (* everything about D alone comes from the instance for the block quote *)
    destruct (leaf_hyps D HT Hne r b Hr Hb HL Hok) as [_ _ _ Q1 _ Q3 Q4 Q5 Q6 Q7 Q8 _ _].
    destruct (root_geom D HT r Hr) as (G1 & G2 & G3 & G4 & G5 & G6 & G7 & G8 & G9).
    set (o := rb_start r) in *. set (sD := rb_src r) in *.
    assert (EsD : sD = upto (from_ D o) (rb_end r - o)) by (exact G4).
    pose proof (leaf_entries_factsI r b Hr Hb HL) as HF. fold o in HF.
    constructor.
    - rewrite EsD. apply (SGood_item_region mk N D N_pos mk_pos (QFull2.D_nul D HT) Hne D_first10 o (rb_end r - o)); [exact G1|lia|lia|].
      replace (o + (rb_end r - o)) with (rb_end r) by lia. destruct G8 as [G8|G8]; [right; exact G8|left; exact G8].
    - rewrite EsD. apply (GapSp_item_region mk N D N_pos mk_pos o (rb_end r - o)); [exact G1|lia|lia|exact G7].
    - rewrite EsD. apply (GapNoParen_item_region mk N D N_pos mk_pos Hne D_first10 o (rb_end r - o)); [exact G1|lia|lia].
    - exact Q1.
    - (* gsp: the same entries, the translation for sgI *)
      pose proof (LH_gsp _ _ _ _ _ (leaf_hyps D HT Hne r b Hr Hb HL Hok)) as Hg. fold sD in Hg. fold o in Hg.
      rewrite Forall_forall in Hg, HF. apply Forall_forall. intros u Hu. destruct (Hg u Hu) as (A & B & C & _ & E & F). destruct (HF u Hu) as (_ & _ & _ & T).
      split; [exact A|]. split; [exact B|]. split; [exact C|]. split; [exact T|]. split; [exact E|exact F].
    - exact Q3.
    - exact Q4.
    - exact Q5.
    - exact Q6.
    - exact Q7.
    - exact Q8.
    - rewrite bik_imgI. apply (entries_imgI K D o G1). exact HF.
    - apply (bend_imgI K D o b G1). lia.
  Qed.

  Theorem LeafSimI_holds : LeafSimAtI mk N D.
  Proof.
    intros r b Hr Hb HL. destruct (root_geom D HT r Hr) as (G1 & _ & _ & _ & _ & _ & _ & _ & G9).
    destruct (leaf_shape D HT Hne r b Hr Hb HL) as [Hok|He].
    - rewrite (parseInlines_quote_core _ _ _ b _ (refsOf roots) (leaf_hypsI r b Hr Hb HL Hok)).
      apply (qI3_shiftI_list K D (rb_src r) (rb_start r) G1 G9). apply (leaf_valid D HK r b _ Hr Hb HL).
    - rewrite (parseInlines_emptyOne (rb_src r) _ b He). cbn [map flat_map].
      apply parseInlines_emptyOne. rewrite bik_imgI, (entries_imgI K D (rb_start r) G1 _ (leaf_entries_factsI r b Hr Hb HL)).
      destruct (bik b) as [|u [|v rest]]; try discriminate He. cbn [emptyOne] in He. cbn [map emptyOne].
      apply andb_true_iff in He. destruct He as [He He3]. apply andb_true_iff in He. destruct He as [He1 He2]. apply Z.eqb_eq in He2.
      destruct u as [k s e ind rf ks]. cbn [ikind istart iend ikids] in *. unfold mvS. cbn [istart mvI ikind iend ikids].
      rewrite He1. cbn [andb]. destruct ks; [|discriminate He3]. cbn [map]. rewrite He2. rewrite Z.eqb_refl. reflexivity.
  Qed.
End Doc.

(* the inline pass on the leaves, for every instance of the item clause *)
Theorem parseInlines_item_leaves : forall mk delim N D, itemHyps mk delim N D -> LeafSimAtI mk N D.
Proof. intros mk delim N D HH. apply (LeafSimI_holds mk delim N D HH). Qed.
Print Assumptions parseInlines_item_leaves.

Theorem parseFull_item : parseFull_item_statement.
Proof.
  intros mk delim N D HH. cbv zeta. pose proof (D_ne mk delim N D HH) as Hne. pose proof (proj1 (proj2 (proj2 HH))) as HT.
  apply (parseFull_item_of mk delim N D HH (LeafSimI_holds mk delim N D HH) (EntSameI_holds (len mk + N) D HT Hne) (KidsNil_holds D HT Hne)).
Qed.
Print Assumptions parseFull_item.
