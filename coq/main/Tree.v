From Coq Require Import List ZArith Lia Bool.
Import ListNotations.
Require Import Base.
Open Scope Z_scope.

Definition ParagraphKind := 1. Definition ThematicBreakKind := 2. Definition ATXHeadingKind := 3.
Definition SetextHeadingKind := 4. Definition IndentedCodeBlockKind := 5. Definition FencedCodeBlockKind := 6.
Definition HTMLBlockKind := 7. Definition LinkReferenceDefinitionKind := 8. Definition BlockQuoteKind := 9.
Definition ListItemKind := 10. Definition ListKind := 11. Definition ListMarkerKind := 12. Definition documentKind := 13.

Definition TextKind := 1. Definition SoftLineBreakKind := 2. Definition HardLineBreakKind := 3. Definition IndentKind := 4.
Definition CharacterReferenceKind := 5. Definition InfoStringKind := 6. Definition EmphasisKind := 7. Definition StrongKind := 8.
Definition LinkKind := 9. Definition ImageKind := 10. Definition LinkDestinationKind := 11. Definition LinkTitleKind := 12.
Definition LinkLabelKind := 13. Definition CodeSpanKind := 14. Definition AutolinkKind := 15. Definition HTMLTagKind := 16.
Definition RawHTMLKind := 17. Definition UnparsedKind := 18.

Inductive inline := Inl (kind s e indent : Z) (ref : bytes) (kids : list inline).
Definition ikind (i : inline) := match i with Inl k _ _ _ _ _ => k end.
Definition istart (i : inline) := match i with Inl _ s _ _ _ _ => s end.
Definition iend (i : inline) := match i with Inl _ _ e _ _ _ => e end.
Definition iindent (i : inline) := match i with Inl _ _ _ n _ _ => n end.
Definition iref (i : inline) := match i with Inl _ _ _ _ r _ => r end.
Definition ikids (i : inline) := match i with Inl _ _ _ _ _ k => k end.
Definition mkI (k s e : Z) : inline := Inl k s e 0 [] [].
Definition okind (o : option inline) : Z := match o with Some i => ikind i | None => 0 end.
Definition set_ikids (i : inline) (k : list inline) := match i with Inl a b c d r _ => Inl a b c d r k end.
Definition set_iref (i : inline) (r : bytes) := match i with Inl a b c d _ k => Inl a b c d r k end.

(* Block: kind span blockChildren inlineChildren indent n char listLoose lastLineBlank *)
Inductive block := Blk (kind s e : Z) (bk : list block) (ik : list inline) (indent n char : Z) (loose lastBlank : bool).
Definition bkind b := match b with Blk k _ _ _ _ _ _ _ _ _ => k end.
Definition bstart b := match b with Blk _ s _ _ _ _ _ _ _ _ => s end.
Definition bend b := match b with Blk _ _ e _ _ _ _ _ _ _ => e end.
Definition bkids b := match b with Blk _ _ _ k _ _ _ _ _ _ => k end.
Definition bik b := match b with Blk _ _ _ _ k _ _ _ _ _ => k end.
Definition bindent b := match b with Blk _ _ _ _ _ i _ _ _ _ => i end.
Definition bn b := match b with Blk _ _ _ _ _ _ n _ _ _ => n end.
Definition bchar b := match b with Blk _ _ _ _ _ _ _ c _ _ => c end.
Definition bloose b := match b with Blk _ _ _ _ _ _ _ _ l _ => l end.
Definition blastBlank b := match b with Blk _ _ _ _ _ _ _ _ _ l => l end.
Definition newBlock (k s : Z) : block := Blk k s (-1) [] [] 0 0 0 false false.
Definition set_bkind b v := match b with Blk _ s e k i a n c l lb => Blk v s e k i a n c l lb end.
Definition set_bstart b v := match b with Blk kd _ e k i a n c l lb => Blk kd v e k i a n c l lb end.
Definition set_bend b v := match b with Blk kd s _ k i a n c l lb => Blk kd s v k i a n c l lb end.
Definition set_bkids b v := match b with Blk kd s e _ i a n c l lb => Blk kd s e v i a n c l lb end.
Definition set_bik b v := match b with Blk kd s e k _ a n c l lb => Blk kd s e k v a n c l lb end.
Definition set_bindent b v := match b with Blk kd s e k i _ n c l lb => Blk kd s e k i v n c l lb end.
Definition set_bn b v := match b with Blk kd s e k i a _ c l lb => Blk kd s e k i a v c l lb end.
Definition set_bchar b v := match b with Blk kd s e k i a n _ l lb => Blk kd s e k i a n v l lb end.
Definition set_bloose b v := match b with Blk kd s e k i a n c _ lb => Blk kd s e k i a n c v lb end.
Definition set_blast b v := match b with Blk kd s e k i a n c l _ => Blk kd s e k i a n c l v end.

Definition isOpen (b : block) : bool := bend b <? 0.
Definition childCount (b : block) : Z := match bkids b with [] => len (bik b) | k => len k end.
(* lastChild().Block(): the last block child, if the block has block children *)
Definition lastBlock (b : block) : option block := match rev (bkids b) with x :: _ => Some x | [] => None end.
Definition set_lastBlocks (b : block) (repl : list block) : block := set_bkids b (removelast (bkids b) ++ repl).

Definition isCode (k : Z) := (k =? IndentedCodeBlockKind) || (k =? FencedCodeBlockKind).
Definition isHeading (k : Z) := (k =? ATXHeadingKind) || (k =? SetextHeadingKind).

(* right-spine access: depth 0 is the block itself *)
Fixpoint getAt (d : nat) (b : block) : option block :=
  match d with O => Some b | S d' => match lastBlock b with Some c => getAt d' c | None => None end end.
Fixpoint updAt (d : nat) (f : block -> block) (b : block) : block :=
  match d with
  | O => f b
  | S d' => match lastBlock b with Some c => set_lastBlocks b [updAt d' f c] | None => b end
  end.
(* depth of the deepest open block on the spine (findTip returns the parent of the first non-open) *)
Fixpoint tipDepth (fuel : nat) (b : block) : nat :=
  match fuel with
  | O => O
  | S f => match lastBlock b with Some c => if isOpen c then S (tipDepth f c) else O | None => O end
  end.
Fixpoint bheight (b : block) : nat :=
  match b with Blk _ _ _ k _ _ _ _ _ _ => S (fold_right (fun c acc => Nat.max (bheight c) acc) O k) end.

(* offsetTree: shift every span by n (End only when >= 0) *)
Fixpoint shiftI (n : Z) (i : inline) : inline :=
  match i with Inl k s e ind r kids => Inl k (s + n) (if 0 <=? e then e + n else e) ind r (map (shiftI n) kids) end.
Fixpoint shiftB (n : Z) (b : block) : block :=
  match b with Blk k s e bk ik a nn c l lb =>
    Blk k (s + n) (if 0 <=? e then e + n else e) (map (shiftB n) bk) (map (shiftI n) ik) a nn c l lb end.
