From Coq Require Import List ZArith Lia Bool.
Import ListNotations.
Require Import Base Tree Rdr Link Collect Html Recog LP Rules Starts Driver Props L2Kind L2CC GramTree GramLP GramLP2 BSDef BSRdr BSTree BSOcp BSOrph BSClose
  BSLine1 BSLine2 BSLine3 BSLine4 BSLine5 BShDef ShDef ShRdr ShClose ShEnv ShLine1.
Open Scope Z_scope.

(* ---- openBlock: the part before the new block is attached ---- *)
Definition SPre (p : lp) (kind : Z) : Prop :=
  canContain (containerKind p) kind = true \/ (kind <> ListItemKind /\ cleanC p /\ ScleanC p).

Lemma SPre_of p kind : ccP p -> LI p -> SLI p -> kind <> ListItemKind -> SPre p kind.
Proof.
  intros D H HS N. destruct (wf_le p (cdepth p) D ltac:(lia)) as (x & Ex).
  destruct (H x Ex) as [S|Wd]; [|left; rewrite (containerKind_at p x Ex); apply wide_accepts; assumption].
  destruct (HS x Ex) as [S'|Wd]; [|left; rewrite (containerKind_at p x Ex); apply wide_accepts; assumption].
  right. split; [exact N|]. split; intros x' Ex'; rewrite Ex in Ex'; inversion Ex'; subst x'; assumption.
Qed.
Lemma SPre_pre p kind : SPre p kind -> canContain (containerKind p) kind = true \/ (kind <> ListItemKind /\ cleanC p).
Proof. intros [H|(A & B & _)]; [left; exact H|right; tauto]. Qed.

Lemma S_openBlock_up : forall fuel p kind, OPx p -> EV p -> SR p -> SC1 p -> SPre p kind ->
  SR (openBlock_up fuel p kind) /\ SC1 (openBlock_up fuel p kind).
Proof.
  induction fuel as [|f IH]; intros p kind H Hev Hs Hs1 Pre; [split; assumption|]. cbn [openBlock_up].
  destruct (canContain (containerKind p) kind) eqn:Ec; [split; assumption|].
  destruct Pre as [Pre|(Nk & Hcl & Scl)]; [rewrite Pre in Ec; discriminate|].
  destruct (cdepth p) as [|d] eqn:Ed; [split; assumption|].
  destruct H as [HB H1]. pose proof HB as (A & B & C & D).
  destruct (wf_le p (S d) D ltac:(lia)) as (x & Ex). destruct (wf_le p d D ltac:(lia)) as (y & Ey).
  assert (Hclean : forall x0 c, getAt d (root p) = Some x0 -> lastBlock x0 = Some c -> bend c < 0 -> sp (lineStart p) c).
  { intros x0 c E0 El _. apply Hcl. rewrite Ed, getAt_S_last, E0. exact El. }
  assert (Sclean : forall x0 c, getAt d (root p) = Some x0 -> lastBlock x0 = Some c -> bend c < 0 -> sp (lineStart p) c /\ sh (source p) (lineStart p) c).
  { intros x0 c E0 El Oc. split; [apply (Hclean x0 c E0 El Oc)|]. apply Scl. rewrite Ed, getAt_S_last, E0. exact El. }
  assert (Hls : 0 <= lineStart p <= len (source p)) by apply Hev.
  apply IH.
  - split.
    + change (BPb (Mc p) (withCont (closeLastChildAt p d (lineStart p)) (Some d))).
      apply BPb_closeAt; [exact HB|unfold Mc; destruct A; lia|lia|lia|exact Hclean].
    + apply C1_closeAt_ls; [exact D|exact Hclean].
  - eapply EV_env; [|exact Hev]. reflexivity.
  - apply SR_closeAt; try assumption; lia.
  - apply SC1_closeAt; try assumption; lia.
  - left. pose proof (cc_spine d (root p) y x ltac:(apply D) Ey Ex) as Hyx.
    assert (Kx : containerKind p = bkind x) by (apply containerKind_at; rewrite Ed; exact Ex).
    rewrite Kx in Ec. pose proof (reject_not_item _ _ Ec Nk) as Nx.
    assert (Ky : containerKind (withCont (closeLastChildAt p d (lineStart p)) (Some d)) = bkind y).
    { unfold containerKind, contBlock, cdepth. cbn [container root withCont closeLastChildAt withRoot setLP].
      fold (closeF p (lineStart p)). rewrite getAt_closeAt, Ey. cbn. apply closeF_kind. }
    rewrite Ky. apply wide_accepts; [eapply wide_of_child; eassumption|exact Nk].
Qed.

Lemma env_obPre p K : envOf (obPre p K) = envOf p.
Proof. unfold obPre. cbv zeta. rewrite env_closeLastChildAt, env_openBlock_up. apply env_opened. Qed.
Lemma li_opened p : li (if state p =? stOpening then withState p stOpenMatched else p) = li p.
Proof. destruct (_ =? _); reflexivity. Qed.
Lemma li_openBlock_up : forall fuel p kind, li (openBlock_up fuel p kind) = li p.
Proof.
  induction fuel as [|f IH]; intros p kind; [reflexivity|]. cbn [openBlock_up]. destruct (canContain _ _); [reflexivity|].
  destruct (cdepth p); [reflexivity|]. rewrite IH. reflexivity.
Qed.
Lemma li_obPre p K : li (obPre p K) = li p.
Proof. unfold obPre. cbv zeta. cbn [li closeLastChildAt withRoot setLP]. rewrite li_openBlock_up. apply li_opened. Qed.
Lemma obPos_eq p K : obPos p K = lineStart p + li p.
Proof. unfold obPos. rewrite li_obPre. destruct (env_parts _ _ (env_obPre p K)) as (_ & E & _). rewrite E. reflexivity. Qed.

(* the state just before the new block is attached *)
Lemma obPre_ok p K : OPx p -> EV p -> SR p -> SC1 p -> SPre p K ->
  let q := obPre p K in
  BP q /\ canContain (containerKind q) K = true /\ SR q /\ kidsClosed q /\ EV q.
Proof.
  intros H Hev Hs Hs1 Pre q. unfold q, obPre. cbv zeta.
  set (p0 := if state p =? stOpening then withState p stOpenMatched else p).
  pose proof (cstep_opened p) as Hc0. fold p0 in Hc0.
  assert (H0 : OPx p0) by (eapply OPx_cstep; eassumption).
  assert (Hev0 : EV p0) by (eapply EV_cstep; eassumption).
  assert (Hs0 : SR p0) by (eapply SR_cstep; eassumption).
  assert (Hs10 : SC1 p0) by (eapply SC1_cstep; eassumption).
  assert (Pre0 : SPre p0 K).
  { destruct Hc0 as ((E1 & E2) & (E3 & E4 & E5) & _). unfold SPre, containerKind, contBlock, cleanC, ScleanC, cdepth. rewrite E1, E2, E3, E5. exact Pre. }
  set (p2 := openBlock_up (S (cdepth p0)) p0 K).
  assert (H2 : OPx p2) by (apply OPx_openBlock_up; [exact H0|apply SPre_pre, Pre0]).
  destruct (S_openBlock_up (S (cdepth p0)) p0 K H0 Hev0 Hs0 Hs10 Pre0) as [Hs2 Hs12]. fold p2 in Hs2, Hs12.
  assert (Hev2 : EV p2) by (eapply EV_env; [apply env_openBlock_up|exact Hev0]).
  assert (A2 : canContain (containerKind p2) K = true).
  { apply openBlock_up_accepts; [apply H0|lia|]. destruct (SPre_pre _ _ Pre0) as [Q|[Q _]]; [right; exact Q|left; exact Q]. }
  set (p3 := closeLastChildAt p2 (cdepth p2) (lineStart p2)).
  destruct H2 as [HB2 H12]. pose proof HB2 as (Acur & _ & C2 & D2).
  assert (Hls : 0 <= lineStart p2 <= len (source p2)) by apply Hev2.
  assert (Hch : forall x c, getAt (cdepth p2) (root p2) = Some x -> lastBlock x = Some c -> bend c < 0 -> sp (lineStart p2) c /\ sh (source p2) (lineStart p2) c).
  { intros x c Ex El Oc. split; [apply H12|apply Hs12]; try exact Oc; rewrite getAt_S_last, Ex; exact El. }
  assert (HB3 : BP p3).
  { change (BPb (Mc p2) p3). apply (BPb_ext (Mc p2) (withCont p3 (Some (cdepth p2)))); try reflexivity.
    apply BPb_closeAt; [exact HB2|unfold Mc; destruct Acur; lia|lia|lia|]. intros x c Ex El Oc. apply (Hch x c Ex El Oc). }
  split; [exact HB3|]. split; [unfold p3; rewrite containerKind_closeHere; exact A2|]. split; [|split].
  - apply (SR_ext (withCont p3 (Some (cdepth p2)))); [reflexivity|reflexivity|]. apply SR_closeAt; try assumption; try lia.
  - pose proof (kidsClosed_closeAt p2 (cdepth p2) (lineStart p2) D2 C2 ltac:(lia) Hs2 Hls Hch) as Hk. exact Hk.
  - eapply EV_env; [|exact Hev2]. reflexivity.
Qed.

(* ---- a state whose tree is the tree of q with one new block attached below q's container ---- *)
Lemma SR_fresh q p' Y : BP q -> SR q -> kidsClosed q -> root p' = updAt (cdepth q) (appendB Y) (root q) -> envOf p' = envOf q ->
  sh (source q) (len (source q)) Y -> SR p'.
Proof.
  intros (A & B & C & D) Hs Hk Er Ee HY. destruct (env_parts _ _ Ee) as (E1 & _). unfold SR. rewrite Er, E1.
  apply (sh_updAt_at (source q) (len (source q)) (appendB Y) (cdepth q) (root q) Hs). intros x Ex Sx.
  split; [|destruct x; cbn; tauto]. apply sh_append; [exact Sx|apply (C (cdepth q) x); [lia|exact Ex]|apply Hk, Ex|exact HY].
Qed.
Lemma getAt_fresh q Y : ccP q -> getAt (S (cdepth q)) (updAt (cdepth q) (appendB Y) (root q)) = Some Y.
Proof.
  intros D. destruct (wf_le q (cdepth q) D ltac:(lia)) as (x & Ex).
  exact (getAt_S_append_some Y (cdepth q) (root q) x Ex).
Qed.
(* the new block is the container and has no children *)
Lemma SC1_fresh_in q p' Y : ccP q -> root p' = updAt (cdepth q) (appendB Y) (root q) -> cdepth p' = S (cdepth q) -> bkids Y = [] -> SC1 p'.
Proof.
  intros D Er Ed Hk c Ec _. exfalso. rewrite Er, Ed, getAt_S_last, (getAt_fresh q Y D) in Ec. unfold lastBlock in Ec. rewrite Hk in Ec. discriminate.
Qed.
(* the new block is closed and the container is the old one *)
Lemma SC1_fresh_out q p' Y : ccP q -> root p' = updAt (cdepth q) (appendB Y) (root q) -> cdepth p' = cdepth q -> 0 <= bend Y -> SC1 p'.
Proof. intros D Er Ed Hc c Ec Oc. exfalso. rewrite Er, Ed, (getAt_fresh q Y D) in Ec. inversion Ec; subst c. lia. Qed.
Lemma kind_fresh_out q p' Y x : ccP q -> root p' = updAt (cdepth q) (appendB Y) (root q) -> cdepth p' = cdepth q ->
  getAt (cdepth p') (root p') = Some x -> bkind x = containerKind q.
Proof.
  intros D Er Ed Ex. rewrite Er, Ed, getAt_updAt_same in Ex. destruct (wf_le q (cdepth q) D ltac:(lia)) as (x0 & Ex0). rewrite Ex0 in Ex. cbn in Ex.
  inversion Ex; subst x. rewrite (containerKind_at q x0 Ex0). destruct x0; reflexivity.
Qed.
Lemma SLI_fresh_out q p' Y K : ccP q -> root p' = updAt (cdepth q) (appendB Y) (root q) -> cdepth p' = cdepth q ->
  canContain (containerKind q) K = true -> K <> ListItemKind -> SLI p'.
Proof.
  intros D Er Ed Hc N x Ex. right. rewrite (kind_fresh_out q p' Y x D Er Ed Ex). eapply wide_of_child; eassumption.
Qed.
Lemma cont_fresh_in q p' Y x : ccP q -> root p' = updAt (cdepth q) (appendB Y) (root q) -> cdepth p' = S (cdepth q) ->
  getAt (cdepth p') (root p') = Some x -> x = Y.
Proof. intros D Er Ed Ex. rewrite Er, Ed, (getAt_fresh q Y D) in Ex. inversion Ex. reflexivity. Qed.
Lemma SLI_fresh_in q p' Y : ccP q -> root p' = updAt (cdepth q) (appendB Y) (root q) -> cdepth p' = S (cdepth q) -> wide (bkind Y) -> SLI p'.
Proof. intros D Er Ed Hw x Ex. right. rewrite (cont_fresh_in q p' Y x D Er Ed Ex). exact Hw. Qed.
