From Coq Require Import List ZArith Lia Bool.
Import ListNotations.
Require Import Base Tree Rdr Link Collect Html Recog LP Rules Starts Driver Render L2Kind L2CC GramDefs GramTree GramLP GramLP2 GramLP3 GramLP4.
Require L2Kind2 BSLine1 EntCur EntLP4.
Require Import Cursor CursorX NoPanic12 Rec17 RecBounds.
Require Import C05a.
Open Scope Z_scope.

(* ================================================================== *)
(* C05b: the invariant np of C05a through the line machine.  The       *)
(* invariants GI (GramLP: canContain closure, well-formed spine) and   *)
(* G (NoPanic12: cursor arithmetic) are carried along where needed:    *)
(* GI for the list item start (the container is the list), G for the   *)
(* fenced code start (the info string begins at a non-blank byte, so   *)
(* no Indent entry precedes it).                                       *)
(* ================================================================== *)

Definition npP (p : lp) : Prop := np (root p) = true.

Lemma npP_same p p' : same_tree p p' -> npP p -> npP p'.
Proof. intros [E1 _]. unfold npP. rewrite E1. tauto. Qed.
Lemma npP_advance p n : npP p -> npP (advance p n). Proof. apply npP_same, same_advance. Qed.
Lemma npP_consumeLine p : npP p -> npP (consumeLine p). Proof. apply npP_same, same_consumeLine. Qed.
Lemma npP_consumeIndent p n : npP p -> npP (consumeIndent p n). Proof. apply npP_same, same_consumeIndent. Qed.
Lemma npP_opened p : npP p -> npP (if state p =? stOpening then withState p stOpenMatched else p).
Proof. apply npP_same, same_opened. Qed.

Lemma npP_updCont_at p f : npP p ->
  (forall b, getAt (cdepth p) (root p) = Some b -> np b = true -> np (f b) = true /\ okR b (f b)) -> npP (updCont p f).
Proof. intros H Hf. unfold npP, updCont. cbn. apply (np_updAt_at f (cdepth p) (root p) H Hf). Qed.
Lemma npP_updCont p f : npP p -> (forall b, np b = true -> np (f b) = true /\ okR b (f b)) -> npP (updCont p f).
Proof. intros H Hf. apply npP_updCont_at; [exact H|]. intros b _. apply Hf. Qed.

Lemma np_closeF p e x : np x = true -> np (closeF p e x) = true /\ okR x (closeF p e x).
Proof.
  intros Hx. unfold closeF. destruct (lastBlock x) as [c|] eqn:El; [|split; [exact Hx|apply okR_refl]].
  destruct (np_closeBlock (source p) e (bheight (root p)) c (np_lastBlock x c Hx El)) as [I1 I2].
  split; [|apply okR_kind, bkind_set_lastBlocks'].
  apply (np_set_lastBlocks x c); [exact Hx|exact El|apply BSLine1.closeBlock_nonnil|exact I1|exact I2].
Qed.
Lemma npP_closeLastChildAt p d e : npP p -> npP (closeLastChildAt p d e).
Proof. intros H. unfold npP, closeLastChildAt. cbn. apply np_updAt; [exact H|]. intros b Hb. apply (np_closeF p e b Hb). Qed.
Lemma npP_openBlock_up : forall fuel p kind, npP p -> npP (openBlock_up fuel p kind).
Proof.
  induction fuel as [|f IH]; intros p kind H; [assumption|]. cbn [openBlock_up].
  destruct (canContain _ _); [assumption|]. destruct (cdepth p); [assumption|].
  apply IH. apply (npP_closeLastChildAt p n (lineStart p) H).
Qed.
Lemma npP_openBlock p K : npP p -> k12 K = true -> K <> ListKind -> K <> ListMarkerKind -> npP (openBlock p K).
Proof.
  intros H Hk N1 N2. unfold openBlock. destruct (_ || _); [assumption|]. cbv zeta.
  match goal with |- npP (withCont ?q _) => change (npP q) end. apply npP_updCont.
  - apply npP_closeLastChildAt, npP_openBlock_up, npP_opened, H.
  - intros b Hb. split; [|apply okR_kind; destruct b; reflexivity].
    match goal with |- np (set_bkids b (bkids b ++ [?nb])) = true => change (np (appendB nb b) = true) end.
    apply np_append; [exact Hb|apply np_newBlock, N1|exact Hk|].
    intros _. unfold isMk, newBlock. cbn [bkind]. apply Z.eqb_neq, N2.
Qed.
Lemma npP_endBlock p : npP p -> npP (endBlock p).
Proof.
  intros H. unfold endBlock. destruct (_ || _); [assumption|]. cbv zeta.
  destruct (cdepth _) eqn:Ed; [destruct (state p =? stOpening); assumption|].
  match goal with |- npP (withCont ?q _) => change (npP q) end. apply npP_closeLastChildAt, npP_opened, H.
Qed.

(* the entries of the container *)
Definition cent0 (p : lp) : Prop := forall b, getAt (cdepth p) (root p) = Some b -> bik b = [].
Lemma cent0_same p p' : same_tree p p' -> cent0 p -> cent0 p'.
Proof. intros [E1 E2] H b. unfold cdepth. rewrite E1, E2. apply H. Qed.
Lemma cent0_updCont p g : (forall b, bik (g b) = bik b) -> cent0 p -> cent0 (updCont p g).
Proof.
  intros Hg H b. unfold updCont, cdepth. cbn [root container withRoot setLP]. fold (cdepth p).
  rewrite getAt_updAt_same. destruct (getAt (cdepth p) (root p)) as [b0|] eqn:E; [|discriminate].
  cbn. intros Hb. inversion Hb; subst. rewrite Hg. apply H. exact E.
Qed.
Lemma cent0_openBlock p K : st_open p -> cent0 (openBlock p K).
Proof.
  intros Hs. unfold openBlock.
  replace ((state p =? stDescending) || (state p =? stDescendTerminated)) with false by (destruct Hs as [-> | ->]; reflexivity).
  cbv zeta. intros b Hb. unfold cdepth, updCont in Hb. cbn [root container withCont withRoot setLP] in Hb.
  match type of Hb with getAt (S ?d) (updAt (cdepth ?q) _ _) = _ => change (cdepth q) with d in Hb end.
  apply getAt_S_append in Hb. subst b. reflexivity.
Qed.

Lemma ikind_info src s e : ikind (parseInfoString src s e) = InfoStringKind.
Proof. unfold parseInfoString. destruct (infoString_loop _ _ _ _ _ _). reflexivity. Qed.

(* CollectInline: into a container that is no code block; or a Text / Indent / SoftLineBreak entry; or the InfoString into
   the still empty fenced code block, at a position where no indentation is recorded *)
Definition collOK (p : lp) (kind K : Z) : Prop :=
  isCode K = false \/ ((kind =? TextKind) || (kind =? IndentKind) || (kind =? SoftLineBreakKind)) = true \/
  (kind = InfoStringKind /\ K = FencedCodeBlockKind /\ cent0 p /\ indent p <= 0).
Lemma npP_collectInline p kind n K : npP p -> ckind p K -> collOK p kind K -> npP (collectInline p kind n).
Proof.
  intros H Hc Hk. unfold collectInline. destruct (_ =? stDescendTerminated); [assumption|]. cbv zeta.
  set (p0 := if state p =? stOpening then withState p stOpenMatched else p).
  assert (H0 : npP p0) by (apply npP_opened, H).
  assert (C0 : ckind p0 K) by (eapply ckind_same; [apply same_opened|exact Hc]).
  assert (I0 : indent p0 = indent p) by (unfold p0, indent; destruct (state p =? stOpening); reflexivity).
  set (p1 := if 0 <? indent p0 then _ else p0).
  assert (Hadd : forall q u, npP q -> ckind q K -> (isCode K = true -> tis u = true) -> npP (updCont q (fun b => set_bik b (bik b ++ [u])))).
  { intros q u Hq Cq Hu. apply npP_updCont_at; [exact Hq|]. intros b Hb Hi. split; [|apply okR_kind; destruct b; reflexivity].
    apply np_set_bik; [exact Hi|]. rewrite (Cq b Hb). apply ikK_add_tis; [rewrite <- (Cq b Hb); apply (np_parts b Hi)|exact Hu]. }
  destruct Hk as [Hk|[Hk|(E1 & E2 & E3 & E4)]].
  - (* no code block *)
    assert (H1 : npP p1 /\ ckind p1 K).
    { unfold p1. destruct (0 <? indent p0); [|tauto]. split.
      - apply Hadd; [apply npP_advance, H0|eapply ckind_same; [apply same_advance|exact C0]|intros X; congruence].
      - apply ckind_updCont; [intros b; apply bkind_set_bik|]. eapply ckind_same; [apply same_advance|exact C0]. }
    destruct H1 as [H1 C1]. apply Hadd; [apply npP_advance, H1|eapply ckind_same; [apply same_advance|exact C1]|intros X; congruence].
  - assert (H1 : npP p1 /\ ckind p1 K).
    { unfold p1. destruct (0 <? indent p0); [|tauto]. split.
      - apply Hadd; [apply npP_advance, H0|eapply ckind_same; [apply same_advance|exact C0]|intros _; reflexivity].
      - apply ckind_updCont; [intros b; apply bkind_set_bik|]. eapply ckind_same; [apply same_advance|exact C0]. }
    destruct H1 as [H1 C1]. apply Hadd; [apply npP_advance, H1|eapply ckind_same; [apply same_advance|exact C1]|].
    intros _. destruct (Z.eqb_spec kind InfoStringKind) as [E|N]; [subst kind; discriminate|]. unfold tis, mkI. cbn [ikind]. exact Hk.
  - (* the info string *)
    subst kind K. assert (E1 : p1 = p0) by (unfold p1; rewrite I0; destruct (Z.ltb_spec 0 (indent p)); [lia|reflexivity]).
    rewrite E1. change (InfoStringKind =? InfoStringKind) with true. cbv iota.
    assert (Z0 : cent0 (advance p0 n)) by (eapply cent0_same; [apply same_advance|]; eapply cent0_same; [apply same_opened|exact E3]).
    apply npP_updCont_at; [apply npP_advance, H0|]. intros b Hb Hi. split; [|apply okR_kind; destruct b; reflexivity].
    apply np_set_bik; [exact Hi|].
    rewrite (ckind_same p0 (advance p0 n) _ (same_advance p0 n) C0 b Hb). apply ikK_info; [apply Z0, Hb|apply ikind_info].
Qed.

(* match rules *)
Lemma npP_matchRule p : npP p -> npP (snd (matchRule p)).
Proof.
  intros H. unfold matchRule. cbv zeta.
  destruct (_ || _); [assumption|].
  destruct (_ =? ListItemKind).
  { unfold matchListItem. destruct (isRestBlank p); [destruct (negb _); [assumption|apply npP_consumeIndent, H]|].
    destruct (_ <=? _); [apply npP_consumeIndent, H|assumption]. }
  destruct (_ =? BlockQuoteKind).
  { unfold matchBlockQuote. cbv zeta. destruct (_ <=? _); [assumption|]. destruct (negb _); [assumption|]. cbn [snd].
    unfold eatQuoteMarker. cbv zeta. destruct (0 <? _); repeat first [apply npP_consumeIndent|apply npP_advance]; assumption. }
  destruct (_ =? FencedCodeBlockKind).
  { unfold matchFenced. cbv zeta. destruct (if _ <? _ then _ else false); cbn [snd]; [apply npP_consumeLine|apply npP_consumeIndent]; assumption. }
  destruct (_ =? IndentedCodeBlockKind).
  { unfold matchIndented. cbv zeta. destruct (_ <? _); [destruct (negb _)|]; cbn [snd]; try apply npP_consumeIndent; assumption. }
  destruct (containerKind p =? HTMLBlockKind) eqn:Eh.
  { unfold matchHTML. destruct (htmlEnd _ _); [|assumption]. destruct (isRestBlank _); [assumption|]. cbn [snd]. apply npP_consumeLine.
    eapply npP_collectInline; [assumption|apply ckind_self|]. left. apply Z.eqb_eq in Eh. rewrite Eh. reflexivity. }
  assumption.
Qed.
Lemma npP_descend_loop : forall fuel p d, npP p -> npP (snd (descend_loop fuel p d)).
Proof.
  induction fuel as [|f IH]; intros p d H; [assumption|]. cbn [descend_loop]. cbv zeta.
  destruct (getAt (S d) (root p)) as [c|]; [|assumption].
  destruct (negb (isOpen c)); [assumption|]. destruct (negb (hasMatch _)); [assumption|].
  pose proof (npP_matchRule (withState (withCont p (Some (S d))) stDescending) H) as H2.
  destruct (matchRule _) as [ok p2]. cbn [snd] in H2.
  destruct (state p2 =? stDescendTerminated); [cbn [snd]; apply (npP_closeLastChildAt p2 d _ H2)|].
  destruct (negb ok); [assumption|]. apply IH. assumption.
Qed.

(* ---- block starts ---- *)
Lemma okR_set x f : (forall b, bkind (f b) = bkind b) -> okR x (f x). Proof. intros H. apply okR_kind, H. Qed.
Ltac nchain H :=
  repeat match goal with
  | |- npP (consumeLine _) => apply npP_consumeLine
  | |- npP (endBlock _) => apply npP_endBlock
  | |- npP (advance _ _) => apply npP_advance
  | |- npP (consumeIndent _ _) => apply npP_consumeIndent
  | |- npP (openBlock _ _) => apply npP_openBlock; [|reflexivity|discriminate|discriminate]
  | |- npP (updCont _ _) => apply npP_updCont; [|intros b0 Hb0; split; [rewrite ?np_set_bn, ?np_set_bchar, ?np_set_bindent; exact Hb0|apply okR_kind; destruct b0; reflexivity]]
  end;
  try exact H.

Lemma npP_startBlockQuote p : npP p -> npP (startBlockQuote p).
Proof. intros H. unfold startBlockQuote. cbv zeta. destruct (_ <=? _); [assumption|]. destruct (negb _); [assumption|].
       destruct (0 <? _); nchain H. Qed.
Lemma npP_startATX p : st_open p -> npP p -> npP (startATX p).
Proof.
  intros Hs H. unfold startATX. cbv zeta. destruct (_ <=? _); [assumption|].
  destruct (parseATXHeading _) as [[level cs] ce0]. destruct (level <? 1); [assumption|].
  apply npP_endBlock, npP_consumeLine.
  eapply (npP_collectInline _ _ _ ATXHeadingKind); [nchain H| |left; reflexivity].
  eapply ckind_same; [apply same_advance|]. apply ckind_updCont; [intros b; destruct b; reflexivity|].
  apply ckind_openBlock, L2Kind2.st_open_consumeIndent, Hs.
Qed.

Lemma indent_opened p : indent (if state p =? stOpening then withState p stOpenMatched else p) = indent p.
Proof. unfold indent. destruct (state p =? stOpening); reflexivity. Qed.

Lemma npP_startFenced p : st_open p -> G p -> npP p -> npP (startFenced p).
Proof.
  intros Hs HG H. unfold startFenced. cbv zeta. destruct (_ <=? _); [assumption|].
  destruct (parseCodeFence (bytesAfterIndent p)) as [[[fc fnn] is_] ie] eqn:Ef. destruct (Z.eqb_spec fnn 0) as [|Nf]; [assumption|].
  destruct (start_prelude p FencedCodeBlockKind HG) as (H2 & R2 & L2). set (p2 := openBlock _ FencedCodeBlockKind) in *.
  assert (S1 : st_open (consumeIndent p (indent p))) by (apply L2Kind2.st_open_consumeIndent, Hs).
  assert (N2 : npP p2) by (unfold p2; nchain H).
  set (p4 := updCont (updCont p2 _) _).
  assert (H4 : G p4) by exact H2.
  assert (N4 : npP p4) by (unfold p4; nchain N2).
  assert (K4 : ckind p4 FencedCodeBlockKind).
  { apply ckind_updCont; [intros b; destruct b; reflexivity|]. apply ckind_updCont; [intros b; destruct b; reflexivity|]. apply ckind_openBlock, S1. }
  assert (Z4 : cent0 p4).
  { apply cent0_updCont; [intros b; destruct b; reflexivity|]. apply cent0_updCont; [intros b; destruct b; reflexivity|]. apply cent0_openBlock, S1. }
  assert (R4 : rest p4 = bytesAfterIndent p) by exact R2. assert (L4 : len (rest p4) = len (line p4) - li p4) by exact L2.
  apply npP_consumeLine. destruct (spanValid (is_, ie)) eqn:Ev; [|exact N4].
  unfold spanValid in Ev. cbn [fst snd] in Ev. apply andb_true_iff in Ev. destruct Ev as [Ev _]. apply andb_true_iff in Ev. destruct Ev as [Ev _]. apply Z.leb_le in Ev.
  assert (Hn : 0 < fnn).
  { destruct (Z.lt_ge_cases 0 fnn); [assumption|]. pose proof (parseCodeFence_none _ _ _ _ _ Ef ltac:(lia)) as En. inversion En. lia. }
  destruct (parseCodeFence_bounds _ _ _ _ _ Ef Hn Ev) as (B1 & B2 & B3 & B4).
  assert (His : li p4 + is_ <= len (line p4)) by (rewrite R4 in L4; lia).
  destruct (G_advance p4 is_ H4 Ev His) as (H5 & La & Lna).
  pose proof (rest_advance p4 is_ H4 Ev His) as R5. rewrite R4 in R5.
  set (pa := advance p4 is_) in *.
  apply (npP_collectInline pa InfoStringKind (ie - is_) FencedCodeBlockKind); [apply npP_advance, N4|eapply ckind_same; [apply same_advance|exact K4]|].
  right. right. split; [reflexivity|]. split; [reflexivity|]. split; [eapply cent0_same; [apply same_advance|exact Z4]|].
  assert (Hi0 : 0 <= li pa) by (destruct H5 as ((X & _) & _); exact X).
  rewrite (EntLP4.indent_nonblank pa); [lia|]. intros Hlt.
  replace (at_ (line pa) (li pa)) with (at_ (rest pa) 0) by (rewrite EntCur.rest_at by lia; f_equal; lia).
  rewrite R5. rewrite ShapesBase.at_from by lia. replace (is_ + 0) with is_ by lia.
  unfold isSpaceTabOrLineEnding in B4. unfold isSpTab. apply orb_false_iff in B4. destruct B4 as [B4 _]. apply orb_false_iff in B4. destruct B4 as [B4 _]. exact B4.
Qed.

Lemma npP_startHTML p : st_open p -> npP p -> npP (startHTML p).
Proof.
  intros Hs H. unfold startHTML. cbv zeta. destruct (_ <=? _); [assumption|]. destruct (negb _); [assumption|].
  destruct (_ <? 0); [assumption|]. destruct (negb _ && _); [assumption|]. destruct (htmlEnd _ _); [|nchain H].
  apply npP_endBlock, npP_consumeLine. eapply (npP_collectInline _ _ _ HTMLBlockKind); [nchain H| |left; reflexivity].
  apply ckind_updCont; [intros b; destruct b; reflexivity|]. apply ckind_openBlock, Hs.
Qed.
Lemma npP_startSetext p : npP p -> npP (startSetext p).
Proof.
  intros H. unfold startSetext. cbv zeta. destruct (negb (containerKind p =? ParagraphKind)) eqn:Ek; [assumption|].
  do 3 (match goal with |- npP (if ?c then _ else _) => destruct c end; [assumption|]).
  apply negb_false_iff, Z.eqb_eq in Ek.
  apply npP_endBlock, npP_consumeLine. apply npP_updCont_at; [assumption|].
  intros b Hb Hi. pose proof (ckind_self p b Hb) as Eb. rewrite Ek in Eb. split.
  - rewrite np_set_bn. apply np_set_bkind; [exact Eb|reflexivity|exact Hi].
  - split; [intros _; destruct b; reflexivity|]. unfold isMk. destruct b; cbn. discriminate.
Qed.
Lemma npP_startThematic p : npP p -> npP (startThematic p).
Proof. intros H. unfold startThematic. cbv zeta. destruct (_ <=? _); [assumption|]. destruct (_ <? 0); [assumption|]. nchain H. Qed.
Lemma npP_startIndented p : npP p -> npP (startIndented p).
Proof. intros H. unfold startIndented. destruct (_ || _ || _); [assumption|]. nchain H. Qed.

(* ---- the list item: the tree after the item and its marker have been attached to the list ---- *)
Lemma root_itemMarker p delim : st_open p -> GI p -> containerKind p = ListKind ->
  exists pos pos',
    root (openBlock (updCont (openBlock p ListItemKind) (fun b => set_bchar b delim)) ListMarkerKind) =
    updAt (cdepth p) (fun x => appendB (Blk ListItemKind pos (-1) [newBlock ListMarkerKind pos'] [] 0 0 delim false false)
                                       (closeF (if state p =? stOpening then withState p stOpenMatched else p) (lineStart p) x)) (root p).
Proof.
  intros Hs H Hk.
  set (sb := fun b : block => set_bchar b delim).
  set (q1 := openBlock p ListItemKind). set (q := updCont q1 sb).
  assert (Hcan : canContain (containerKind p) ListItemKind = true) by (rewrite Hk; reflexivity).
  assert (Sq : st_open q) by (apply st_open_updCont, L2Kind2.st_open_openBlock, Hs).
  assert (Cq : ccP q).
  { apply ccP_updCont; [apply ccP_openBlock; [apply H|right; exact Hcan]|].
    intros x _ Hx. unfold sb. rewrite cc_set_bchar, bkind_set_bchar. tauto. }
  assert (Kq : containerKind q = ListItemKind).
  { apply containerKind_of; [exact Cq|]. apply ckind_updCont; [intros b; apply bkind_set_bchar|]. apply ckind_openBlock, Hs. }
  set (q0 := if state q =? stOpening then withState q stOpenMatched else q).
  assert (Epre : obPre q ListMarkerKind = closeLastChildAt q0 (cdepth q) (lineStart q)).
  { apply obPre_stay. rewrite Kq. reflexivity. }
  set (p3 := obPre p ListItemKind) in *. set (d := cdepth p3).
  set (nb := newBlock ListItemKind (obPos p ListItemKind)).
  set (m := newBlock ListMarkerKind (obPos q ListMarkerKind)).
  assert (Rq1 : root q1 = updAt d (appendB nb) (root p3)) by apply (root_openBlock p ListItemKind Hs).
  assert (Dq1 : cdepth q1 = S d) by apply (cdepth_openBlock p ListItemKind Hs).
  assert (Rq : root q = updAt (S d) sb (updAt d (appendB nb) (root p3))).
  { unfold q. rewrite root_updCont, Dq1, Rq1. reflexivity. }
  assert (Dq : cdepth q = S d) by (unfold q; rewrite cdepth_updCont; exact Dq1).
  assert (Rq0 : root q0 = root q /\ cdepth q0 = cdepth q) by (unfold q0; destruct (state q =? stOpening); split; reflexivity).
  destruct Rq0 as [Rq0 Dq0].
  set (item := Blk ListItemKind (obPos p ListItemKind) (-1) [m] [] 0 0 delim false false).
  assert (RF : root (openBlock q ListMarkerKind) = updAt d (appendB item) (root p3)).
  { rewrite (root_openBlock q ListMarkerKind Sq). fold m. rewrite Epre.
    change (cdepth (closeLastChildAt q0 (cdepth q) (lineStart q))) with (cdepth q0).
    change (root (closeLastChildAt q0 (cdepth q) (lineStart q))) with (updAt (cdepth q) (closeF q0 (lineStart q)) (root q0)).
    rewrite Dq0, Rq0, Dq, Rq. rewrite !updAt_fuse. rewrite updAt_S_append. reflexivity. }
  exists (obPos p ListItemKind), (obPos q ListMarkerKind). fold m. fold item. fold sb. fold q1. fold q. rewrite RF.
  unfold p3, d. rewrite (obPre_stay p ListItemKind Hcan).
  set (p0 := if state p =? stOpening then withState p stOpenMatched else p).
  assert (E0 : root p0 = root p /\ cdepth p0 = cdepth p) by (unfold p0; destruct (state p =? stOpening); split; reflexivity).
  destruct E0 as [E1 E2].
  change (root (closeLastChildAt p0 (cdepth p) (lineStart p))) with (updAt (cdepth p) (closeF p0 (lineStart p)) (root p0)).
  assert (Ed : cdepth p3 = cdepth p).
  { unfold p3. rewrite (obPre_stay p ListItemKind Hcan). fold p0. change (cdepth (closeLastChildAt p0 (cdepth p) (lineStart p))) with (cdepth p0). exact E2. }
  rewrite ?Ed, E1, updAt_fuse. reflexivity.
Qed.

Lemma np_item pos pos' delim : np (Blk ListItemKind pos (-1) [newBlock ListMarkerKind pos'] [] 0 0 delim false false) = true.
Proof. reflexivity. Qed.

Lemma closeF_nokids p e x : bkids x = [] -> closeF p e x = x.
Proof. intros E. unfold closeF, lastBlock. rewrite E. reflexivity. Qed.

Lemma npP_startListItem p : st_open p -> GI p -> npP p -> npP (startListItem p).
Proof.
  intros Hs HG H. unfold startListItem. cbv zeta. destruct (_ <=? _); [assumption|].
  destruct (parseListMarker _) as [[delim n] mend]. destruct (_ || _); [assumption|]. destruct (_ && _); [assumption|].
  set (p1 := consumeIndent p (indent p)).
  assert (H1 : GI p1) by (apply GI_consumeIndent, HG). assert (S1 : st_open p1) by (apply L2Kind2.st_open_consumeIndent, Hs).
  assert (N1 : npP p1) by (apply npP_consumeIndent, H).
  set (cdelim := if (containerKind p1 =? ListKind) || (containerKind p1 =? ListItemKind) then bchar (contBlock p1) else 0).
  set (sb := fun b : block => set_bchar b delim).
  set (p2 := if negb (containerKind p1 =? ListKind) || negb (cdelim =? delim) then updCont (openBlock p1 ListKind) sb else p1).
  assert (N4 : npP (openBlock (updCont (openBlock p2 ListItemKind) sb) ListMarkerKind)).
  { unfold p2. destruct (negb (containerKind p1 =? ListKind) || negb (cdelim =? delim)) eqn:Ec.
    - (* a new list *)
      set (pl := updCont (openBlock p1 ListKind) sb).
      assert (Hq : GI pl).
      { apply GI_openBlock_init; [exact S1|exact H1|discriminate|discriminate|]. intros pos. repeat split; reflexivity. }
      assert (Sl : st_open pl) by (apply st_open_updCont, L2Kind2.st_open_openBlock, S1).
      assert (Kl : containerKind pl = ListKind).
      { apply containerKind_of; [apply Hq|]. apply ckind_updCont; [intros b; apply bkind_set_bchar|]. apply ckind_openBlock, S1. }
      destruct (root_itemMarker pl delim Sl Hq Kl) as (pos & pos' & RF). unfold npP. fold sb in RF. rewrite RF.
      set (item := Blk ListItemKind pos (-1) [newBlock ListMarkerKind pos'] [] 0 0 delim false false).
      set (q := obPre p1 ListKind). set (Y := sb (newBlock ListKind (obPos p1 ListKind))).
      assert (Rl : root pl = updAt (cdepth q) (appendB Y) (root q) /\ cdepth pl = S (cdepth q)).
      { unfold pl. rewrite root_updCont, cdepth_updCont, (cdepth_openBlock p1 ListKind S1), (root_openBlock p1 ListKind S1), updAt_S_append. split; reflexivity. }
      destruct Rl as [Rl Dl]. rewrite Dl, Rl, updAt_S_append.
      rewrite closeF_nokids by reflexivity.
      assert (Nq : npP q).
      { unfold q, obPre. cbv zeta. apply npP_closeLastChildAt, npP_openBlock_up, npP_opened, N1. }
      apply np_updAt; [exact Nq|]. intros b Hb. split; [|apply okR_kind; destruct b; reflexivity].
      apply np_append; [exact Hb|reflexivity|reflexivity|intros _; reflexivity].
    - (* the item joins the list that is the container *)
      apply orb_false_iff in Ec. destruct Ec as [Ec1 _]. apply negb_false_iff, Z.eqb_eq in Ec1.
      destruct (root_itemMarker p1 delim S1 H1 Ec1) as (pos & pos' & RF). unfold npP. fold sb in RF. rewrite RF.
      apply np_updAt_at; [exact N1|]. intros x Hx Hnx.
      assert (Ex : bkind x = ListKind) by (rewrite <- Ec1; symmetry; unfold containerKind, contBlock; rewrite Hx; reflexivity).
      destruct (np_closeF (if state p1 =? stOpening then withState p1 stOpenMatched else p1) (lineStart p1) x Hnx) as [C1 C2].
      assert (Ek : bkind (closeF (if state p1 =? stOpening then withState p1 stOpenMatched else p1) (lineStart p1) x) = ListKind).
      { unfold closeF. destruct (lastBlock x); [rewrite bkind_set_lastBlocks'|]; exact Ex. }
      split.
      + apply np_append; [exact C1|reflexivity|reflexivity|intros _; reflexivity].
      + apply okR_kind. rewrite bkind_appendB, Ek, Ex. reflexivity. }
  match goal with |- context [endBlock ?X] => assert (H4 : npP (endBlock X)) by (apply npP_endBlock, npP_advance; exact N4) end.
  match goal with |- context [endBlock ?X] => set (qq := endBlock X) in * end.
  destruct (isRestBlank qq); [nchain H4|].
  destruct (indent qq <? 1); [cbv beta iota; nchain H4|]. destruct (4 <? indent qq); cbv beta iota; nchain H4.
Qed.

(* ---- the opening loop: G, GI and np together ---- *)
Definition NP (p : lp) : Prop := G p /\ GI p /\ npP p.
Definition startOKn (f : lp -> lp) : Prop := forall p, st_open p -> G p -> GI p -> npP p -> npP (f p).
Lemma blockStarts_okn : Forall startOKn blockStarts.
Proof.
  unfold blockStarts. repeat constructor; intros p Hs HG HI H;
    [apply npP_startBlockQuote|apply npP_startATX|apply npP_startFenced|apply npP_startHTML
    |apply npP_startSetext|apply npP_startThematic|apply npP_startListItem|apply npP_startIndented]; assumption.
Qed.
Lemma NP_tryStarts : forall fs p, Forall startOKG fs -> Forall startOKg fs -> Forall startOKn fs -> NP p -> NP (snd (tryStarts fs p)).
Proof.
  induction fs as [|f r IH]; intros p H1 H2 H3 H; [assumption|]. cbn [tryStarts]. cbv zeta.
  inversion H1 as [|? ? F1 R1]; subst. inversion H2 as [|? ? F2 R2]; subst. inversion H3 as [|? ? F3 R3]; subst.
  destruct H as (A & B & C).
  assert (Bq : GI (withState p stOpening)) by (apply (GI_same p); [split; reflexivity|exact B]).
  assert (Hn : NP (f (withState p stOpening))).
  { split; [apply F1; exact A|]. split; [apply F2; [left; reflexivity|exact Bq]|]. apply F3; [left; reflexivity|exact A|exact Bq|exact C]. }
  destruct (_ || _); [assumption|]. apply IH; assumption.
Qed.
Lemma NP_opening_loop : forall fuel p, NP p -> NP (snd (opening_loop fuel p)).
Proof.
  induction fuel as [|f IH]; intros p H; [assumption|]. cbn [opening_loop].
  destruct (_ || _); [|assumption].
  pose proof (NP_tryStarts blockStarts p blockStarts_okG blockStarts_okg blockStarts_okn H) as H1.
  destruct (tryStarts blockStarts p) as [[|] p1]; cbn [snd] in H1.
  - destruct (_ =? stLineConsumed); [assumption|apply IH; assumption].
  - assumption.
Qed.
Lemma npP_deferredClose p : npP p -> npP (deferredClose p).
Proof. intros H. unfold deferredClose. cbv zeta. destruct (_ && _); [assumption|apply npP_closeLastChildAt, H]. Qed.
Lemma npP_openNewBlocks p am : NP p -> npP (snd (openNewBlocks p am)).
Proof.
  intros H. unfold openNewBlocks. destruct (_ =? 0).
  - cbn [snd]. unfold npP. cbn. destruct H as (_ & _ & H).
    destruct (np_closeBlock (source p) (lineStart p) (bheight (root p)) (root p) H) as [Hc _].
    destruct (closeBlock _ _ _ _) as [|b r]; [assumption|]. unfold npL in Hc. cbn in Hc. apply andb_true_iff in Hc. tauto.
  - pose proof (NP_opening_loop (S (length (line p))) p H) as H1. destruct (opening_loop _ p) as [ht p1]. cbn [snd] in H1.
    destruct H1 as (_ & _ & H1). destruct am; cbn [snd]; [assumption|apply npP_deferredClose, H1].
Qed.

(* ---- addLineText ---- *)
Lemma np_setLastBlankUpTo v : forall d rt, np rt = true -> np (setLastBlankUpTo d v rt) = true.
Proof.
  induction d as [|d IH]; intros rt H; cbn [setLastBlankUpTo].
  - cbn [updAt]. rewrite np_set_blast. assumption.
  - apply IH. apply np_updAt; [exact H|]. intros b Hb. split; [rewrite np_set_blast; exact Hb|apply okR_kind; destruct b; reflexivity].
Qed.

Lemma npP_go q : npP q ->
  npP (let k := containerKind q in
        let inlineKind := if isCode k then TextKind else if k =? HTMLBlockKind then RawHTMLKind else UnparsedKind in
        let q' := updCont q (fun b => set_bik b (bik b ++ [mkI inlineKind (lineStart q + li q) (lineStart q + len (line q))])) in
        if isCode k && negb (hasByteSuffixEOL (line q')) then
          updCont q' (fun b => set_bik b (bik b ++ [mkI SoftLineBreakKind (lineStart q' + len (line q')) (lineStart q' + len (line q'))]))
        else q').
Proof.
  intros Hq. cbv zeta.
  set (q' := updCont q _).
  assert (Hadd : forall r u K, npP r -> ckind r K -> (isCode K = true -> tis u = true) -> npP (updCont r (fun b => set_bik b (bik b ++ [u])))).
  { intros r u K Hr Cr Hu. apply npP_updCont_at; [exact Hr|]. intros b Hb Hi. split; [|apply okR_kind; destruct b; reflexivity].
    apply np_set_bik; [exact Hi|]. rewrite (Cr b Hb). apply ikK_add_tis; [rewrite <- (Cr b Hb); apply (np_parts b Hi)|exact Hu]. }
  assert (Hq' : npP q').
  { apply (Hadd q _ (containerKind q)); [exact Hq|apply ckind_self|]. intros Hc. rewrite Hc. reflexivity. }
  assert (Cq' : ckind q' (containerKind q)) by (apply ckind_updCont; [intros b; apply bkind_set_bik|apply ckind_self]).
  destruct (isCode (containerKind q) && negb _); [|exact Hq'].
  apply (Hadd q' _ (containerKind q)); [exact Hq'|exact Cq'|intros _; reflexivity].
Qed.

Lemma npP_addLineText p : npP p -> npP (addLineText p).
Proof.
  intros H. unfold addLineText. cbv zeta.
  set (p1 := if isRestBlank p then _ else p).
  assert (H1 : npP p1).
  { unfold p1. destruct (isRestBlank p); [|assumption]. apply npP_updCont; [assumption|].
    intros b Hb. destruct (lastBlock b) as [c|] eqn:El; [|split; [exact Hb|apply okR_refl]]. split; [|apply okR_kind, bkind_set_lastBlocks'].
    apply (np_set_lastBlocks b c); [exact Hb|exact El|discriminate| |intros y [<-|[]]; apply okR_kind; destruct c; reflexivity].
    unfold npL. cbn [forallb]. rewrite np_set_blast, (np_lastBlock b c Hb El). reflexivity. }
  set (p2 := withRoot p1 _).
  assert (H2 : npP p2) by (unfold p2, npP; cbn; apply np_setLastBlankUpTo; exact H1).
  match goal with |- npP (if ?c then _ else _) => destruct c end.
  - apply npP_go.
    match goal with |- npP (if ?c then _ else _) => destruct c end; [|exact H2].
    apply npP_consumeIndent. apply npP_updCont_at; [exact H2|]. intros b Hb Hi. split; [|apply okR_kind; destruct b; reflexivity].
    apply np_set_bik; [exact Hi|]. apply ikK_add_tis; [apply (np_parts b Hi)|intros _; reflexivity].
  - match goal with |- npP (if ?c then _ else _) => destruct c end; [|exact H2].
    apply npP_go. apply npP_consumeIndent. apply npP_openBlock; [exact H2|reflexivity|discriminate|discriminate].
Qed.

(* the children of the document: what np says about a block list in the place of the document's children *)
Definition npD (children : list block) : bool :=
  forallb (fun c => k12 (bkind c)) children && forallb (fun c => negb (isMk c)) children && npL children.
Lemma npD_doc children : np (Blk documentKind 0 (-1) children [] 0 0 0 false false) = npD children.
Proof.
  cbn [np]. unfold kidsK, ikK, npD, npL. change (documentKind =? ListKind) with false. change (documentKind =? ListItemKind) with false.
  change (isCode documentKind) with false. cbv iota. rewrite !andb_true_r. reflexivity.
Qed.

Theorem np_processLine st children ls src : ccF children = true -> gbL children = true -> npD children = true ->
  npD (fst (fst (processLine st children ls src))) = true.
Proof.
  intros Hc Hg Hn. unfold processLine. cbv zeta.
  set (p0 := resetLP st children ls src).
  assert (G0 : G p0).
  { unfold p0, resetLP. split; [split; [cbn; lia|]|split; [cbn; apply len_nonneg|split; cbn; discriminate]].
    cbn [li line col tabRem]. intros Hl Ha. apply computeTabRem_spec; [lia|exact Hl|exact Ha]. }
  assert (I0 : GI p0).
  { split; [|split].
    - unfold ccP, wf, p0, resetLP, cdepth. cbn [root container]. split; [reflexivity|split; [exact Hc|eexists; reflexivity]].
    - unfold p0, resetLP. cbn [root]. apply gb_intro; [reflexivity|exact Hg].
    - reflexivity. }
  assert (N0 : npP p0) by (unfold npP, p0, resetLP; cbn [root]; rewrite npD_doc; exact Hn).
  pose proof (G_descend_loop (bheight (root p0)) p0 O G0) as G1.
  pose proof (GI_descend_loop (bheight (root p0)) p0 O I0 eq_refl) as I1.
  pose proof (npP_descend_loop (bheight (root p0)) p0 O N0) as N1.
  fold (descendOpenBlocks p0) in G1, I1, N1.
  destruct (descendOpenBlocks p0) as [am p1]. cbn [snd] in G1, I1, N1.
  assert (H2 : npP (snd (if negb (state p1 =? stDescendTerminated) then openNewBlocks p1 am else (false, p1))) /\
               GW (snd (if negb (state p1 =? stDescendTerminated) then openNewBlocks p1 am else (false, p1))) /\
               (fst (if negb (state p1 =? stDescendTerminated) then openNewBlocks p1 am else (false, p1)) = true ->
                GI (snd (if negb (state p1 =? stDescendTerminated) then openNewBlocks p1 am else (false, p1))) /\
                L2Kind2.goodSt (snd (if negb (state p1 =? stDescendTerminated) then openNewBlocks p1 am else (false, p1))))).
  { destruct (negb _).
    - split; [apply npP_openNewBlocks; exact (conj G1 (conj I1 N1))|]. destruct (GI_openNewBlocks p1 am I1) as [A B]. split; [exact A|].
      intros Ht. split; [apply B, Ht|apply L2Kind2.openNewBlocks_good, Ht].
    - split; [exact N1|]. split; [apply GI_GW, I1|cbn; discriminate]. }
  destruct (if negb (state p1 =? stDescendTerminated) then openNewBlocks p1 am else (false, p1)) as [ht p2]. cbn [fst snd] in H2. cbn [fst].
  destruct H2 as (H2 & W2 & G2).
  assert (H3 : npP (if ht then addLineText p2 else p2)) by (destruct ht; [apply npP_addLineText|]; exact H2).
  assert (W3 : GW (if ht then addLineText p2 else p2)).
  { destruct ht; [|exact W2]. destruct (G2 eq_refl) as [A B]. apply GI_GW, GI_addLineText; [exact A|exact B]. }
  destruct W3 as [(Ek & _) _]. unfold npP in H3.
  destruct (np_parts _ H3) as (A & _ & C). rewrite Ek in A. destruct (kidsK_parts _ _ A) as (A1 & _ & A3).
  unfold npD. rewrite A1, (A3 ltac:(discriminate)), C. reflexivity.
Qed.
