From Coq Require Import List ZArith Lia Bool.
Import ListNotations.
Require Import Base Utf8 Html Safe.
Require GenConsts.
Open Scope Z_scope.

(* Tie: what /repo's source builds from the x/net/html/atom table.
   - htmlBlockStarters6 (parse_html.go: 62 calls atom.X.String()) is the model's starters6, element by element;
   - the atoms mentioned by the renderer's preBlock/preInline are exactly the model's tag vocabulary
     (tagVocab ++ voidVocab, the vocabulary C07's `safe` predicate allows), and those mentioned by
     postBlock/postInline are exactly the non-void part: every element the source can open it can close,
     and nothing outside the fixed vocabulary is mentioned at all. *)
Definition subsetb (a b : list bytes) : bool := forallb (mem b) a.
Definition seteqb (a b : list bytes) : bool := subsetb a b && subsetb b a.

Lemma subsetb_In a b : subsetb a b = true -> forall n, In n a -> mem b n = true.
Proof. unfold subsetb. intros H n Hn. rewrite forallb_forall in H. exact (H n Hn). Qed.

Lemma tie_atoms :
  GenConsts.c_htmlBlockStarters6 = starters6 /\
  seteqb (GenConsts.a_preBlock ++ GenConsts.a_preInline) (tagVocab ++ voidVocab) = true /\
  seteqb (GenConsts.a_postBlock ++ GenConsts.a_postInline) tagVocab = true.
Proof.
  split; [reflexivity|]. split; vm_compute; reflexivity.
Qed.

(* the renderer's source mentions no element outside the model's vocabulary *)
Lemma render_atoms_in_vocab n :
  In n (GenConsts.a_preBlock ++ GenConsts.a_preInline ++ GenConsts.a_postBlock ++ GenConsts.a_postInline) ->
  mem (tagVocab ++ voidVocab) n = true.
Proof.
  apply subsetb_In. vm_compute. reflexivity.
Qed.
Print Assumptions tie_atoms.
Print Assumptions render_atoms_in_vocab.
