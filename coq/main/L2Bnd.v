From Coq Require Import List ZArith Lia Bool.
Import ListNotations.
Require Import Base Tree Rdr Link Collect Html Recog LP Rules Starts Driver Leaf3e RdrBound L2Kind.
Open Scope Z_scope.

(* Bounds, relative to the end H of the line being processed: ends of closed blocks and of inline entries do not
   exceed H; a SoftLineBreak entry is the empty span at H. (Entries of link reference definitions are exempt:
   their spans come out of the reader and are not needed here.) *)
Section Bnd.
  Variable H : Z.
  Hypothesis H0 : 0 <= H.
  Variable ns : bool.   (* no-soft mode: the tree holds no SoftLineBreak entry (outside definitions) *)

  Definition entOK (u : inline) : bool :=
    (istart u <=? H) && (iend u <=? H) &&
    (if ikind u =? SoftLineBreakKind then (istart u =? iend u) && (H <=? iend u) && negb ns else true).
  Fixpoint bnd (b : block) : bool :=
    match b with Blk K _ e bk ik _ _ _ _ _ =>
      ((e <? 0) || (e <=? H)) && ((K =? LinkReferenceDefinitionKind) || forallb entOK ik) && forallb bnd bk end.
  Definition bndL (l : list block) : bool := forallb bnd l.
  Definition loc (b : block) : bool :=
    ((bend b <? 0) || (bend b <=? H)) && ((bkind b =? LinkReferenceDefinitionKind) || forallb entOK (bik b)).

  Lemma bnd_eq b : bnd b = loc b && bndL (bkids b). Proof. destruct b; reflexivity. Qed.
  Lemma bnd_parts b : bnd b = true -> loc b = true /\ bndL (bkids b) = true.
  Proof. rewrite bnd_eq. apply andb_true_iff. Qed.
  Lemma bnd_mk b : loc b = true -> bndL (bkids b) = true -> bnd b = true.
  Proof. intros A B. rewrite bnd_eq, A, B. reflexivity. Qed.

  Lemma loc_set_bstart b v : loc (set_bstart b v) = loc b. Proof. destruct b; reflexivity. Qed.
  Lemma loc_set_bn b v : loc (set_bn b v) = loc b. Proof. destruct b; reflexivity. Qed.
  Lemma loc_set_bchar b v : loc (set_bchar b v) = loc b. Proof. destruct b; reflexivity. Qed.
  Lemma loc_set_bindent b v : loc (set_bindent b v) = loc b. Proof. destruct b; reflexivity. Qed.
  Lemma loc_set_bloose b v : loc (set_bloose b v) = loc b. Proof. destruct b; reflexivity. Qed.
  Lemma loc_set_blast b v : loc (set_blast b v) = loc b. Proof. destruct b; reflexivity. Qed.
  Lemma loc_set_bkids b v : loc (set_bkids b v) = loc b. Proof. destruct b; reflexivity. Qed.
  Lemma bkids_set_bstart b v : bkids (set_bstart b v) = bkids b. Proof. destruct b; reflexivity. Qed.
  Lemma bkids_set_bn b v : bkids (set_bn b v) = bkids b. Proof. destruct b; reflexivity. Qed.
  Lemma bkids_set_bchar b v : bkids (set_bchar b v) = bkids b. Proof. destruct b; reflexivity. Qed.
  Lemma bkids_set_bindent b v : bkids (set_bindent b v) = bkids b. Proof. destruct b; reflexivity. Qed.
  Lemma bkids_set_bloose b v : bkids (set_bloose b v) = bkids b. Proof. destruct b; reflexivity. Qed.
  Lemma bkids_set_blast' b v : bkids (set_blast b v) = bkids b. Proof. destruct b; reflexivity. Qed.
  Lemma bkids_set_bik b v : bkids (set_bik b v) = bkids b. Proof. destruct b; reflexivity. Qed.
  Lemma bkids_set_bend b v : bkids (set_bend b v) = bkids b. Proof. destruct b; reflexivity. Qed.
  Lemma bkids_set_bkind b v : bkids (set_bkind b v) = bkids b. Proof. destruct b; reflexivity. Qed.

  Lemma bnd_set_bn b v : bnd (set_bn b v) = bnd b. Proof. destruct b; reflexivity. Qed.
  Lemma bnd_set_bchar b v : bnd (set_bchar b v) = bnd b. Proof. destruct b; reflexivity. Qed.
  Lemma bnd_set_bindent b v : bnd (set_bindent b v) = bnd b. Proof. destruct b; reflexivity. Qed.
  Lemma bnd_set_bloose b v : bnd (set_bloose b v) = bnd b. Proof. destruct b; reflexivity. Qed.
  Lemma bnd_set_blast b v : bnd (set_blast b v) = bnd b. Proof. destruct b; reflexivity. Qed.
  Lemma bnd_set_bstart b v : bnd (set_bstart b v) = bnd b. Proof. destruct b; reflexivity. Qed.
  Lemma bnd_set_bend b e : e <= H -> bnd b = true -> bnd (set_bend b e) = true.
  Proof.
    intros He Hb. destruct b as [K s e0 bk ik a n c l lb]. cbn [bnd set_bend] in *.
    apply andb_true_iff in Hb. destruct Hb as [Hb Hk]. apply andb_true_iff in Hb. destruct Hb as [_ Hi].
    rewrite Hi, Hk. replace (e <=? H) with true by (symmetry; apply Z.leb_le; exact He). rewrite orb_true_r. reflexivity.
  Qed.
  Lemma bnd_set_bkids b ks : bnd b = true -> bndL ks = true -> bnd (set_bkids b ks) = true.
  Proof. intros Hb Hk. apply bnd_parts in Hb. destruct Hb as [Hb _]. apply bnd_mk; [rewrite loc_set_bkids; exact Hb|destruct b; exact Hk]. Qed.
  Lemma bnd_set_bik b ik : bnd b = true -> forallb entOK ik = true -> bnd (set_bik b ik) = true.
  Proof.
    intros Hb Hi. destruct b as [K s e bk ik0 a n c l lb]. cbn [bnd set_bik] in *.
    apply andb_true_iff in Hb. destruct Hb as [Hb Hk]. apply andb_true_iff in Hb. destruct Hb as [He _].
    rewrite He, Hk, Hi, orb_true_r. reflexivity.
  Qed.
  Lemma bnd_add_ik b u : bnd b = true -> entOK u = true -> bnd (set_bik b (bik b ++ [u])) = true.
  Proof.
    intros Hb Hu. destruct b as [K s e bk ik a n c l lb]. cbn [bnd set_bik bik] in *.
    apply andb_true_iff in Hb. destruct Hb as [Hb Hk]. apply andb_true_iff in Hb. destruct Hb as [He Hi].
    rewrite He, Hk. cbn [andb]. rewrite andb_true_r. destruct (K =? LinkReferenceDefinitionKind); [reflexivity|].
    cbn [orb] in *. rewrite forallb_app, Hi. cbn. rewrite Hu. reflexivity.
  Qed.
  Lemma bnd_set_bkind_nonref b K' : bkind b <> LinkReferenceDefinitionKind -> bnd b = true -> bnd (set_bkind b K') = true.
  Proof.
    intros N Hb. destruct b as [K s e bk ik a n c l lb]. cbn [bnd set_bkind bkind] in *.
    replace (K =? LinkReferenceDefinitionKind) with false in Hb by (symmetry; apply Z.eqb_neq; exact N). cbn [orb] in Hb.
    apply andb_true_iff in Hb. destruct Hb as [Hb Hk]. apply andb_true_iff in Hb. destruct Hb as [He Hi].
    rewrite He, Hk, Hi, orb_true_r. reflexivity.
  Qed.
  Lemma bnd_newBlock k s : bnd (newBlock k s) = true.
  Proof. unfold newBlock. cbn [bnd forallb]. rewrite orb_true_r. reflexivity. Qed.

  Lemma bndL_app a b : bndL (a ++ b) = bndL a && bndL b. Proof. apply forallb_app. Qed.
  Lemma bnd_lastBlock b c : bnd b = true -> lastBlock b = Some c -> bnd c = true.
  Proof.
    intros Hb Hl. apply bnd_parts in Hb. destruct Hb as [_ Hb]. unfold bndL in Hb. rewrite forallb_forall in Hb.
    apply Hb. eapply lastBlock_In. exact Hl.
  Qed.
  Lemma bnd_set_lastBlocks b repl : bnd b = true -> bndL repl = true -> bnd (set_lastBlocks b repl) = true.
  Proof.
    intros Hb Hr. unfold set_lastBlocks. apply bnd_set_bkids; [assumption|].
    rewrite bndL_app, Hr, andb_true_r. apply bnd_parts in Hb. destruct Hb as [_ Hb]. revert Hb. apply forallb_sub. intros x. apply removelast_In.
  Qed.
  Lemma bnd_updAt_at f : forall d b, bnd b = true ->
    (forall x, getAt d b = Some x -> bnd x = true -> bnd (f x) = true) -> bnd (updAt d f b) = true.
  Proof.
    induction d as [|d IH]; intros b Hb Hf; [apply Hf; [reflexivity|assumption]|]. cbn [updAt].
    destruct (lastBlock b) as [c|] eqn:El; [|assumption].
    apply bnd_set_lastBlocks; [assumption|]. unfold bndL. cbn [forallb]. rewrite andb_true_r.
    apply IH; [eapply bnd_lastBlock; eassumption|]. intros x Hx. apply Hf. cbn [getAt]. rewrite El. exact Hx.
  Qed.
  Lemma bnd_updAt f d b : bnd b = true -> (forall x, bnd x = true -> bnd (f x) = true) -> bnd (updAt d f b) = true.
  Proof. intros Hb Hf. apply bnd_updAt_at; [assumption|]. intros x _. apply Hf. Qed.

  (* ---- onClose handlers ---- *)
  Lemma bnd_sub_ik b ik' : bnd b = true -> (forall x, In x ik' -> In x (bik b)) -> bnd (set_bik b ik') = true.
  Proof.
    intros Hb Hs. destruct b as [K s e bk ik a n c l lb]. cbn [bnd set_bik bik] in *.
    apply andb_true_iff in Hb. destruct Hb as [Hb Hk]. apply andb_true_iff in Hb. destruct Hb as [He Hi].
    rewrite He, Hk. cbn [andb]. rewrite andb_true_r. destruct (K =? LinkReferenceDefinitionKind); [reflexivity|].
    cbn [orb] in *. revert Hi. apply forallb_sub. exact Hs.
  Qed.
  Lemma bnd_onCloseIndented src b : bnd b = true -> bnd (onCloseIndented src b) = true.
  Proof.
    intros Hb. unfold onCloseIndented. apply bnd_sub_ik; [assumption|]. intros x Hx.
    apply in_rev in Hx. apply trimBlankTail_sub in Hx. apply in_rev in Hx.
    destruct (rev (bik b)) as [|lst [|prev r]] eqn:Er; try exact Hx.
    destruct (_ && _ && _ && _); [|exact Hx].
    apply in_rev in Hx. apply in_rev. rewrite Er. right. exact Hx.
  Qed.
  Lemma bnd_onCloseList b : bnd b = true -> bnd (onCloseList b) = true.
  Proof.
    intros Hb. unfold onCloseList. cbv zeta. destruct (bloose b || _); [|assumption].
    apply bnd_set_bkids; [rewrite bnd_set_bloose; assumption|].
    apply bnd_parts in Hb. destruct Hb as [_ Hb]. unfold bndL in *. rewrite forallb_forall in *.
    intros x Hx. apply in_map_iff in Hx. destruct Hx as (y & <- & Hy). rewrite bnd_set_bloose. apply Hb, Hy.
  Qed.
  Lemma bnd_refDef s e kids : e <= H -> bnd (refDefBlock s e kids) = true.
  Proof. intros He. unfold refDefBlock. cbn [bnd forallb]. replace (e <=? H) with true by (symmetry; apply Z.leb_le; exact He). rewrite orb_true_r. reflexivity. Qed.

  Lemma HB1 : -1 <= H. Proof. lia. Qed.
  Lemma len_nonneg' {A} (l : list A) : 0 <= len l. Proof. unfold len. lia. Qed.
  Notation RBH := (RB H).

  Lemma bnd_ocp : forall fuel rfuel src orig orphan r result,
    bnd orig = true -> RBH r ->
    (match orphan with Some o => bnd o = true | None => True end) -> bndL result = true ->
    bndL (ocp_loop fuel rfuel src orig orphan r result) = true.
  Proof.
    induction fuel as [|f IH]; intros rfuel src orig orphan r result Ho HR Hor Hr.
    { cbn [ocp_loop]. rewrite bndL_app, Hr. cbn. rewrite Ho. reflexivity. }
    assert (Hkeep : bndL (result ++ [orig]) = true) by (rewrite bndL_app, Hr; cbn; rewrite Ho; reflexivity).
    assert (Hwo : forall res, bndL res = true -> bndL (match orphan with Some o => res ++ [o] | None => res end) = true).
    { intros res Hres. destruct orphan as [o|]; [|assumption]. rewrite bndL_app, Hres. cbn. rewrite Hor. reflexivity. }
    assert (Hcut : forall pos, bnd (set_bik (set_bstart orig pos) (from_ (bik orig) (nodeIndexForPosition (bik orig) pos))) = true).
    { intros pos. apply bnd_sub_ik; [rewrite bnd_set_bstart; assumption|]. rewrite bik_set_bstart. intros x. apply from_sub. }
    cbn [ocp_loop]. cbv zeta.
    pose proof (RB_parseLinkLabel H rfuel r HR) as HR1. destruct (parseLinkLabel rfuel r) as [[lspan linner] r1]. cbn [snd] in HR1.
    destruct (negb (spanValid lspan)); [assumption|].
    pose proof (RB_current H r1 HR1) as HR2. destruct (current r1) as [c r2]. cbn [snd] in HR2. destruct (negb (c =? 58)); [assumption|].
    pose proof (RB_next' H r2 HR2) as HR3. destruct (next r2) as [? r3]. cbn [snd] in HR3.
    pose proof (RB_skipLinkSpace H rfuel r3 HR3) as HR4. destruct (skipLinkSpace rfuel r3) as [ok r4]. cbn [snd] in HR4. destruct (negb ok); [assumption|].
    pose proof (RB_parseLinkDestination H rfuel r4 HR4) as HR5. destruct (parseLinkDestination rfuel r4) as [[dspan dtext] r5]. cbn [snd] in HR5.
    destruct (negb (spanValid dspan)); [assumption|].
    pose proof (RB_readEOL H HB1 rfuel r5 HR5) as [HR6 Hd]. destruct (readEOL rfuel r5) as [destEOL r6]. cbn [fst snd] in HR6, Hd.
    pose proof (RB_current H r6 HR6) as HR7. destruct (current r6) as [c6 r7]. cbn [snd] in HR7.
    destruct (_ && _ && _); [assumption|].
    set (labelInline := Inl LinkLabelKind _ _ 0 _ _). set (destInline := Inl LinkDestinationKind _ _ 0 [] _).
    assert (H2 : bndL (result ++ [refDefBlock (fst lspan) destEOL [labelInline; destInline]]) = true).
    { rewrite bndL_app, Hr. cbn [bndL forallb andb]. rewrite bnd_refDef; [reflexivity|exact Hd]. }
    pose proof (RB_skipLinkSpace H rfuel r7 HR7) as HR8. destruct (skipLinkSpace rfuel r7) as [ok2 r8]. cbn [snd] in HR8.
    destruct (negb ok2); [apply Hwo; assumption|].
    pose proof (RB_parseLinkTitle H rfuel r8 HR8) as HR9. destruct (parseLinkTitle rfuel r8) as [[tspan ttext] r9]. cbn [snd] in HR9.
    destruct (negb (spanValid tspan)).
    { destruct (destEOL <? 0); [assumption|]. destruct (_ <? 0); [apply Hwo; assumption|].
      apply IH; [apply Hcut|exact HR6|assumption|assumption]. }
    pose proof (RB_readEOL H HB1 rfuel r9 HR9) as [HR10 Ht]. destruct (readEOL rfuel r9) as [titleEOL r10]. cbn [fst snd] in HR10, Ht.
    destruct (titleEOL <? 0).
    { destruct (destEOL <? 0); [assumption|]. destruct (_ <? 0); [apply Hwo; assumption|].
      rewrite app_assoc, bndL_app, H2. cbn. rewrite Hcut. reflexivity. }
    set (titleInline := Inl LinkTitleKind _ _ 0 [] _).
    assert (H3 : bndL (result ++ [refDefBlock (fst lspan) titleEOL [labelInline; destInline; titleInline]]) = true).
    { rewrite bndL_app, Hr. cbn [bndL forallb andb]. rewrite bnd_refDef; [reflexivity|exact Ht]. }
    destruct (_ <? 0); [apply Hwo; assumption|]. apply IH; [apply Hcut|exact HR10|assumption|assumption].
  Qed.

  Lemma skipSpTabIdx_le src M : len src <= M -> forall fuel i, i <= M -> skipSpTabIdx fuel src i <= M.
  Proof.
    intros Hl. induction fuel as [|f IH]; intros i Hi; [exact Hi|]. cbn [skipSpTabIdx].
    destruct (isSpTab (at_ src i)) eqn:E; [|exact Hi]. apply IH.
    assert (i < len src).
    { unfold at_ in E. destruct (Z.ltb_spec i 0); [discriminate|].
      destruct (Z.lt_ge_cases i (len src)); [assumption|]. rewrite nth_overflow in E by (unfold len in *; lia). discriminate. }
    lia.
  Qed.

  Lemma entOK_plain k s e : s <= H -> e <= H -> k <> SoftLineBreakKind -> entOK (mkI k s e) = true.
  Proof.
    intros Hs He Nk. unfold entOK, mkI. cbn [istart iend ikind].
    replace (k =? SoftLineBreakKind) with false by (symmetry; apply Z.eqb_neq; exact Nk).
    rewrite andb_true_r. apply andb_true_iff. split; apply Z.leb_le; assumption.
  Qed.
  Lemma entOK_le u : entOK u = true -> istart u <= H /\ iend u <= H.
  Proof. unfold entOK. rewrite !andb_true_iff, !Z.leb_le. tauto. Qed.

  Lemma bnd_onCloseParagraph src orig : len src <= H -> bnd orig = true ->
    bkind orig <> LinkReferenceDefinitionKind -> bndL (onCloseParagraph src orig) = true.
  Proof.
    intros Hl Ho Nk. unfold onCloseParagraph. destruct (bik orig) as [|first rest] eqn:Eb; [cbn; rewrite Ho; reflexivity|].
    cbv zeta. rewrite <- Eb.
    assert (Hent : forallb entOK (bik orig) = true).
    { apply bnd_parts in Ho. destruct Ho as [Ho _]. unfold loc in Ho. apply andb_true_iff in Ho. destruct Ho as [_ Ho].
      replace (bkind orig =? LinkReferenceDefinitionKind) with false in Ho by (symmetry; apply Z.eqb_neq; exact Nk). exact Ho. }
    apply bnd_ocp; [assumption| | |reflexivity].
    - unfold RB, newReader. cbn [r_spans r_pos r_prev]. split; [|split; [|lia]].
      + apply Forall_forall. intros x Hx. rewrite forallb_forall in Hent. apply entOK_le, Hent, Hx.
      + rewrite forallb_forall in Hent. apply (entOK_le first). apply Hent. rewrite Eb. left. reflexivity.
    - destruct (bkind orig =? SetextHeadingKind); [|exact I].
      assert (Hbs : (match rev (bik orig) with l :: _ => iend l | [] => 0 end) <= H).
      { destruct (rev (bik orig)) as [|l r] eqn:Er; [lia|]. rewrite forallb_forall in Hent. apply (entOK_le l). apply Hent.
        apply in_rev. rewrite Er. left. reflexivity. }
      assert (Hbe : bend orig <= H).
      { apply bnd_parts in Ho. destruct Ho as [Ho _]. unfold loc in Ho. apply andb_true_iff in Ho. destruct Ho as [Ho _].
        apply orb_true_iff in Ho. destruct Ho as [Ho|Ho]; [apply Z.ltb_lt in Ho; lia|apply Z.leb_le in Ho; exact Ho]. }
      cbn [bnd forallb]. change (-1 <? 0) with true. change (ParagraphKind =? LinkReferenceDefinitionKind) with false.
      cbn [orb andb]. rewrite entOK_plain; [reflexivity|apply skipSpTabIdx_le; assumption|exact Hbe|discriminate].
  Qed.

  Lemma bnd_closeBlock src e : len src <= H -> e <= H -> forall fuel b, bnd b = true -> bndL (closeBlock fuel src b e) = true.
  Proof.
    intros Hl He. induction fuel as [|f IH]; intros b Hb; [cbn; rewrite Hb; reflexivity|]. cbn [closeBlock].
    destruct (negb (isOpen b)); [cbn; rewrite Hb; reflexivity|]. cbv zeta.
    assert (Hcl : forall x, bnd x = true ->
              bnd (match lastBlock x with Some c => set_lastBlocks x (closeBlock f src c e) | None => x end) = true).
    { intros x Hx. destruct (lastBlock x) as [c|] eqn:El; [|assumption].
      apply bnd_set_lastBlocks; [assumption|]. apply IH. eapply bnd_lastBlock; eassumption. }
    assert (H1 : bnd (set_bend b e) = true) by (apply bnd_set_bend; assumption).
    destruct (bkind (set_bend b e) =? ListKind).
    { cbn [bndL forallb]. rewrite Hcl; [reflexivity|]. apply bnd_onCloseList. assumption. }
    destruct (bkind (set_bend b e) =? IndentedCodeBlockKind).
    { cbn [bndL forallb]. rewrite Hcl; [reflexivity|]. apply bnd_onCloseIndented. assumption. }
    destruct ((bkind (set_bend b e) =? ParagraphKind) || (bkind (set_bend b e) =? SetextHeadingKind)) eqn:Ep.
    { apply bnd_onCloseParagraph; [assumption|assumption|].
      apply orb_true_iff in Ep. destruct Ep as [Ep|Ep]; apply Z.eqb_eq in Ep; rewrite Ep; discriminate. }
    cbn [bndL forallb]. rewrite Hcl; [reflexivity|assumption].
  Qed.

  (* ---- the line parser ---- *)
  Definition bndP (p : lp) : Prop :=
    bnd (root p) = true /\ 0 <= lineStart p /\ 0 <= li p <= len (line p) /\ lineStart p + len (line p) = H /\ len (source p) <= H /\
    (ns = true -> hasByteSuffixEOL (line p) = true).
  Definition envEq (p p' : lp) : Prop :=
    lineStart p' = lineStart p /\ line p' = line p /\ source p' = source p.

  Lemma bndP_tree p p' : bndP p -> envEq p p' -> li p' = li p -> bnd (root p') = true -> bndP p'.
  Proof. intros (A & B & C & D & E & F) (E1 & E2 & E3) E4 Hr. unfold bndP. rewrite E1, E2, E3, E4. tauto. Qed.
  Lemma bndP_cursor p p' : bndP p -> envEq p p' -> root p' = root p -> 0 <= li p' <= len (line p) -> bndP p'.
  Proof. intros (A & B & C & D & E & F) (E1 & E2 & E3) Er Hl. unfold bndP. rewrite E1, E2, E3, Er. tauto. Qed.
  Lemma env_refl p : envEq p p. Proof. repeat split. Qed.

  Lemma bndP_opened p : bndP p -> bndP (if state p =? stOpening then withState p stOpenMatched else p).
  Proof. intros Hp. destruct (_ =? _); exact Hp. Qed.
  Lemma bndP_advance p n : bndP p -> bndP (advance p n).
  Proof.
    intros Hp. unfold advance. destruct (Z.ltb_spec n 0); [exact Hp|]. destruct (n =? 0); [exact Hp|]. cbv zeta.
    set (p0 := if state p =? stOpening then withState p stOpenMatched else p).
    assert (E0 : envEq p p0 /\ root p0 = root p /\ li p0 = li p) by (unfold p0; destruct (_ =? _); repeat split).
    destruct E0 as ((E1 & E2 & E3) & Er & El).
    destruct (Z.ltb_spec (len (line p0)) (li p0 + n)).
    - apply (bndP_cursor p); [exact Hp|repeat split; assumption|exact Er|]. cbn. rewrite El. apply Hp.
    - apply (bndP_cursor p); [exact Hp|repeat split; assumption|exact Er|]. cbn [li withCursor setLP].
      rewrite E2 in *. destruct Hp as (_ & _ & C & _). lia.
  Qed.
  Lemma bndP_consumeLine p : bndP p -> bndP (consumeLine p).
  Proof.
    intros Hp. unfold consumeLine. cbv zeta. pose proof (bndP_advance p (len (line p) - li p) Hp) as H1.
    destruct (_ || _); [exact H1|]. destruct (_ =? stDescending); exact H1.
  Qed.
  Lemma bndP_consumeIndent_loop : forall fuel p n, bndP p -> bndP (consumeIndent_loop fuel p n).
  Proof.
    induction fuel as [|f IH]; intros p n Hp; [exact Hp|]. cbn [consumeIndent_loop].
    destruct (n <=? 0); [exact Hp|]. cbv zeta.
    set (p0 := if state p =? stOpening then withState p stOpenMatched else p).
    assert (H0p : bndP p0) by (apply bndP_opened, Hp).
    destruct (Z.ltb_spec (li p0) (len (line p0))) as [L|L]; cbn [andb]; [|exact H0p].
    assert (Hstep : forall cl tr, bndP (withCursor p0 (li p0 + 1) cl tr)).
    { intros cl tr. apply (bndP_cursor p0); [exact H0p|(split; [reflexivity|split; reflexivity])|reflexivity|]. cbn. destruct H0p as (_ & _ & C & _). lia. }
    destruct (at_ (line p0) (li p0) =? 32); [apply IH, Hstep|].
    destruct (at_ (line p0) (li p0) =? 9); [|exact H0p].
    destruct (n <? _); [|apply IH, Hstep].
    apply (bndP_cursor p0); [exact H0p|(split; [reflexivity|split; reflexivity])|reflexivity|]. cbn. apply H0p.
  Qed.
  Lemma bndP_consumeIndent p n : bndP p -> bndP (consumeIndent p n). Proof. apply bndP_consumeIndent_loop. Qed.

  Lemma bndP_updCont_at p f : bndP p ->
    (forall x, getAt (cdepth p) (root p) = Some x -> bnd x = true -> bnd (f x) = true) -> bndP (updCont p f).
  Proof.
    intros Hp Hf. apply (bndP_tree p); [exact Hp|(split; [reflexivity|split; reflexivity])|reflexivity|]. cbn. apply bnd_updAt_at; [apply Hp|exact Hf].
  Qed.
  Lemma bndP_updCont p f : bndP p -> (forall x, bnd x = true -> bnd (f x) = true) -> bndP (updCont p f).
  Proof. intros Hp Hf. apply bndP_updCont_at; [exact Hp|]. intros x _. apply Hf. Qed.

  Lemma bndP_closeLastChildAt p d e : bndP p -> e <= H -> bndP (closeLastChildAt p d e).
  Proof.
    intros Hp He. apply (bndP_tree p); [exact Hp|(split; [reflexivity|split; reflexivity])|reflexivity|]. unfold closeLastChildAt. cbn [root withRoot setLP].
    apply bnd_updAt; [apply Hp|]. intros x Hx. destruct (lastBlock x) as [c|] eqn:El; [|exact Hx].
    apply bnd_set_lastBlocks; [exact Hx|]. apply bnd_closeBlock; [apply Hp|exact He|]. eapply bnd_lastBlock; eassumption.
  Qed.
  Lemma ls_le p : bndP p -> lineStart p <= H /\ lineStart p + li p <= H.
  Proof. intros (_ & B & C & D & _ & _). pose proof (len_nonneg' (line p)). lia. Qed.

  Lemma bndP_openBlock_up : forall fuel p kind, bndP p -> bndP (openBlock_up fuel p kind).
  Proof.
    induction fuel as [|f IH]; intros p kind Hp; [exact Hp|]. cbn [openBlock_up].
    destruct (canContain _ _); [exact Hp|]. destruct (cdepth p); [exact Hp|].
    apply IH. apply (bndP_closeLastChildAt p n (lineStart p) Hp). apply (ls_le p Hp).
  Qed.
  Lemma bndP_openBlock p kind : bndP p -> bndP (openBlock p kind).
  Proof.
    intros Hp. unfold openBlock. destruct (_ || _); [exact Hp|]. cbv zeta.
    set (p2 := openBlock_up _ _ kind). assert (H2 : bndP p2) by (apply bndP_openBlock_up, bndP_opened, Hp).
    set (p3 := closeLastChildAt p2 (cdepth p2) (lineStart p2)).
    assert (H3 : bndP p3) by (apply bndP_closeLastChildAt; [exact H2|apply (ls_le p2 H2)]).
    match goal with |- bndP (withCont ?q _) => change (bndP q) end.
    apply bndP_updCont; [exact H3|]. intros x Hx. apply bnd_set_bkids; [exact Hx|].
    rewrite bndL_app. apply bnd_parts in Hx. destruct Hx as [_ Hx]. rewrite Hx. unfold bndL. cbn [forallb andb]. rewrite bnd_newBlock. reflexivity.
  Qed.
  Lemma bndP_endBlock p : bndP p -> bndP (endBlock p).
  Proof.
    intros Hp. unfold endBlock. destruct (_ || _); [exact Hp|]. cbv zeta.
    set (p0 := if state p =? stOpening then withState p stOpenMatched else p).
    assert (H0p : bndP p0) by (apply bndP_opened, Hp).
    destruct (cdepth p0); [exact H0p|].
    match goal with |- bndP (withCont ?q _) => change (bndP q) end.
    apply bndP_closeLastChildAt; [exact H0p|apply (ls_le p0 H0p)].
  Qed.

  Lemma entOK_indent s e ind : s <= H -> e <= H -> entOK (Inl IndentKind s e ind [] []) = true.
  Proof.
    intros Hs He. unfold entOK. cbn [istart iend ikind]. change (IndentKind =? SoftLineBreakKind) with false.
    rewrite andb_true_r. apply andb_true_iff. split; apply Z.leb_le; assumption.
  Qed.
  Lemma entOK_info src s e : s <= H -> e <= H -> entOK (parseInfoString src s e) = true.
  Proof.
    intros Hs He. unfold parseInfoString. destruct (infoString_loop _ _ _ _ _ _) as [acc ps].
    unfold entOK. cbn [istart iend ikind]. change (InfoStringKind =? SoftLineBreakKind) with false.
    rewrite andb_true_r. apply andb_true_iff. split; apply Z.leb_le; assumption.
  Qed.

  Lemma bndP_collectInline p kind n : bndP p -> kind <> SoftLineBreakKind -> bndP (collectInline p kind n).
  Proof.
    intros Hp Nk. unfold collectInline. destruct (_ =? stDescendTerminated); [exact Hp|]. cbv zeta.
    set (p0 := if state p =? stOpening then withState p stOpenMatched else p).
    assert (H0p : bndP p0) by (apply bndP_opened, Hp).
    set (p1 := if 0 <? indent p0 then _ else p0).
    assert (H1 : bndP p1).
    { unfold p1. destruct (0 <? indent p0); [|exact H0p].
      pose proof (bndP_advance p0 (indentLength (rest p0)) H0p) as Ha.
      apply bndP_updCont; [exact Ha|]. intros x Hx. apply bnd_add_ik; [exact Hx|].
      apply entOK_indent; [apply (ls_le p0 H0p)|apply (ls_le _ Ha)]. }
    pose proof (bndP_advance p1 n H1) as Ha.
    apply bndP_updCont; [exact Ha|]. intros x Hx. apply bnd_add_ik; [exact Hx|].
    destruct (kind =? InfoStringKind).
    - apply entOK_info; [apply (ls_le p1 H1)|apply (ls_le _ Ha)].
    - apply entOK_plain; [apply (ls_le p1 H1)|apply (ls_le _ Ha)|exact Nk].
  Qed.

  Lemma bndP_matchRule p : bndP p -> bndP (snd (matchRule p)).
  Proof.
    intros Hp. unfold matchRule. cbv zeta.
    destruct (_ || _); [assumption|].
    destruct (_ =? ListItemKind).
    { unfold matchListItem. destruct (isRestBlank p); [destruct (negb _); [assumption|apply bndP_consumeIndent, Hp]|].
      destruct (_ <=? _); [apply bndP_consumeIndent, Hp|assumption]. }
    destruct (_ =? BlockQuoteKind).
    { unfold matchBlockQuote. cbv zeta. destruct (_ <=? _); [assumption|]. destruct (negb _); [assumption|]. cbn [snd].
      unfold eatQuoteMarker. cbv zeta. destruct (0 <? _); repeat first [apply bndP_consumeIndent|apply bndP_advance]; assumption. }
    destruct (_ =? FencedCodeBlockKind).
    { unfold matchFenced. cbv zeta. destruct (if _ <? _ then _ else false); cbn [snd]; [apply bndP_consumeLine|apply bndP_consumeIndent]; assumption. }
    destruct (_ =? IndentedCodeBlockKind).
    { unfold matchIndented. cbv zeta. destruct (_ <? _); [destruct (negb _)|]; cbn [snd]; try apply bndP_consumeIndent; assumption. }
    destruct (_ =? HTMLBlockKind).
    { unfold matchHTML. destruct (htmlEnd _ _); [|assumption]. destruct (isRestBlank _); [assumption|]. cbn [snd]. apply bndP_consumeLine.
      apply bndP_collectInline; [assumption|discriminate]. }
    assumption.
  Qed.
  Lemma bndP_descend_loop : forall fuel p d, bndP p -> bndP (snd (descend_loop fuel p d)).
  Proof.
    induction fuel as [|f IH]; intros p d Hp; [exact Hp|]. cbn [descend_loop]. cbv zeta.
    destruct (getAt (S d) (root p)) as [c|]; [|exact Hp].
    destruct (negb (isOpen c)); [exact Hp|]. destruct (negb (hasMatch _)); [exact Hp|].
    pose proof (bndP_matchRule (withState (withCont p (Some (S d))) stDescending) Hp) as H2.
    destruct (matchRule _) as [ok p2]. cbn [snd] in H2.
    destruct (state p2 =? stDescendTerminated).
    { cbn [snd]. match goal with |- bndP (withCont ?q _) => change (bndP q) end.
      apply bndP_closeLastChildAt; [exact H2|apply (ls_le p2 H2)]. }
    destruct (negb ok); [exact H2|]. apply IH. exact H2.
  Qed.

  Ltac chainb Hh :=
    repeat match goal with
    | |- bndP (consumeLine _) => apply bndP_consumeLine
    | |- bndP (endBlock _) => apply bndP_endBlock
    | |- bndP (advance _ _) => apply bndP_advance
    | |- bndP (consumeIndent _ _) => apply bndP_consumeIndent
    | |- bndP (openBlock _ _) => apply bndP_openBlock
    | |- bndP (collectInline _ _ _) => apply bndP_collectInline; [|discriminate]
    | |- bndP (updCont _ _) => apply bndP_updCont; [|intros ? ?; rewrite ?bnd_set_bn, ?bnd_set_bchar, ?bnd_set_bindent; assumption]
    | |- bndP (if ?c then _ else _) => destruct c
    end;
    try exact Hh.

  Definition startOKb (f : lp -> lp) : Prop := forall p, bndP p -> bndP (f p).
  Lemma blockStarts_okb : Forall startOKb blockStarts.
  Proof.
    unfold blockStarts.
    apply Forall_cons. { intros p Hp. unfold startBlockQuote. cbv zeta. chainb Hp. }
    apply Forall_cons. { intros p Hp. unfold startATX. cbv zeta. destruct (_ <=? _); [exact Hp|].
                         destruct (parseATXHeading _) as [[level cs] ce]. chainb Hp. }
    apply Forall_cons. { intros p Hp. unfold startFenced. cbv zeta. destruct (_ <=? _); [exact Hp|].
                         destruct (parseCodeFence _) as [[[fc fnn] is_] ie]. chainb Hp. }
    apply Forall_cons. { intros p Hp. unfold startHTML. cbv zeta. chainb Hp. }
    apply Forall_cons.
    { intros p Hp. unfold startSetext. cbv zeta. destruct (negb (containerKind p =? ParagraphKind)) eqn:Ek; [exact Hp|].
      do 3 (match goal with |- bndP (if ?c then _ else _) => destruct c end; [exact Hp|]).
      apply negb_false_iff, Z.eqb_eq in Ek.
      apply bndP_endBlock, bndP_consumeLine. apply bndP_updCont_at; [exact Hp|].
      intros x Hx Hb. rewrite bnd_set_bn. apply bnd_set_bkind_nonref; [|exact Hb].
      rewrite (ckind_self p x Hx), Ek. discriminate. }
    apply Forall_cons. { intros p Hp. unfold startThematic. cbv zeta. chainb Hp. }
    apply Forall_cons.
    { intros p Hp. unfold startListItem. cbv zeta. destruct (_ <=? _); [exact Hp|].
      destruct (parseListMarker _) as [[delim n] mend]. destruct (_ || _); [exact Hp|]. destruct (_ && _); [exact Hp|].
      match goal with |- context [endBlock ?X] => assert (H1 : bndP (endBlock X)) by chainb Hp end.
      match goal with |- context [endBlock ?X] => set (q := endBlock X) in * end.
      destruct (isRestBlank q); [chainb H1|].
      destruct (indent q <? 1); [chainb H1|]. destruct (4 <? indent q); chainb H1. }
    apply Forall_cons. { intros p Hp. unfold startIndented. chainb Hp. }
    apply Forall_nil.
  Qed.
  Lemma bndP_tryStarts : forall fs p, Forall startOKb fs -> bndP p -> bndP (snd (tryStarts fs p)).
  Proof.
    induction fs as [|f r IH]; intros p Hfs Hp; [exact Hp|]. cbn [tryStarts]. cbv zeta. inversion Hfs as [|? ? Hf Hr]; subst.
    assert (H1 : bndP (f (withState p stOpening))) by (apply Hf; exact Hp).
    destruct (_ || _); [exact H1|]. apply IH; assumption.
  Qed.
  Lemma bndP_opening_loop : forall fuel p, bndP p -> bndP (snd (opening_loop fuel p)).
  Proof.
    induction fuel as [|f IH]; intros p Hp; [exact Hp|]. cbn [opening_loop].
    destruct (_ || _); [|exact Hp].
    pose proof (bndP_tryStarts blockStarts p blockStarts_okb Hp) as H1. destruct (tryStarts blockStarts p) as [[|] p1]; cbn [snd] in H1.
    - destruct (_ =? stLineConsumed); [exact H1|apply IH; exact H1].
    - exact H1.
  Qed.
  Lemma bndP_deferredClose p : bndP p -> bndP (deferredClose p).
  Proof.
    intros Hp. unfold deferredClose. cbv zeta. destruct (_ && _); [exact Hp|].
    apply bndP_closeLastChildAt; [exact Hp|apply (ls_le p Hp)].
  Qed.
  Lemma bndP_openNewBlocks p am : bndP p -> bndP (snd (openNewBlocks p am)).
  Proof.
    intros Hp. unfold openNewBlocks. destruct (_ =? 0).
    - cbn [snd]. apply (bndP_tree p); [exact Hp|split; [reflexivity|split; reflexivity]|reflexivity|]. cbn [root withCont withRoot setLP].
      pose proof (bnd_closeBlock (source p) (lineStart p) ltac:(apply Hp) ltac:(apply (ls_le p Hp)) (bheight (root p)) (root p) ltac:(apply Hp)) as Hc.
      destruct (closeBlock _ _ _ _) as [|b r]; [apply Hp|]. cbn in Hc. apply andb_true_iff in Hc. tauto.
    - pose proof (bndP_opening_loop (S (length (line p))) p Hp) as H1. destruct (opening_loop _ p) as [ht p1]. cbn [snd] in H1.
      destruct am; cbn [snd]; [exact H1|apply bndP_deferredClose, H1].
  Qed.

  Lemma bnd_setLastBlankUpTo v : forall d rt, bnd rt = true -> bnd (setLastBlankUpTo d v rt) = true.
  Proof.
    induction d as [|d IH]; intros rt Hr; cbn [setLastBlankUpTo].
    - cbn [updAt]. rewrite bnd_set_blast. exact Hr.
    - apply IH. apply bnd_updAt; [exact Hr|]. intros x Hx. rewrite bnd_set_blast. exact Hx.
  Qed.

  Lemma bndP_addLineText p : bndP p -> bndP (addLineText p).
  Proof.
    intros Hp. unfold addLineText. cbv zeta.
    set (p1 := if isRestBlank p then _ else p).
    assert (H1 : bndP p1).
    { unfold p1. destruct (isRestBlank p); [|exact Hp]. apply bndP_updCont; [exact Hp|].
      intros x Hx. destruct (lastBlock x) as [c|] eqn:El; [|exact Hx].
      apply bnd_set_lastBlocks; [exact Hx|]. unfold bndL. cbn [forallb]. rewrite bnd_set_blast, andb_true_r. eapply bnd_lastBlock; eassumption. }
    set (p2 := withRoot p1 _).
    assert (H2 : bndP p2).
    { apply (bndP_tree p1); [exact H1|split; [reflexivity|split; reflexivity]|reflexivity|]. cbn [root withRoot setLP].
      apply bnd_setLastBlankUpTo. apply H1. }
    assert (Hgo : forall q, bndP q ->
      bndP (let k := containerKind q in
            let inlineKind := if isCode k then TextKind else if k =? HTMLBlockKind then RawHTMLKind else UnparsedKind in
            let q' := updCont q (fun b => set_bik b (bik b ++ [mkI inlineKind (lineStart q + li q) (lineStart q + len (line q))])) in
            if isCode k && negb (hasByteSuffixEOL (line q')) then
              updCont q' (fun b => set_bik b (bik b ++ [mkI SoftLineBreakKind (lineStart q' + len (line q')) (lineStart q' + len (line q'))]))
            else q')).
    { intros q Hq. cbv zeta. pose proof Hq as (_ & Q1 & Q2 & Q3 & _ & _).
      set (q' := updCont q _).
      assert (Hq' : bndP q').
      { apply bndP_updCont; [exact Hq|]. intros x Hx. apply bnd_add_ik; [exact Hx|].
        apply entOK_plain; [apply (ls_le q Hq)|lia|]. destruct (isCode _); [discriminate|]. destruct (_ =? HTMLBlockKind); discriminate. }
      match goal with |- bndP (if ?c then _ else _) => destruct c eqn:Ecs end; [|exact Hq'].
      apply bndP_updCont; [exact Hq'|]. intros x Hx. apply bnd_add_ik; [exact Hx|].
      change (lineStart q') with (lineStart q). change (line q') with (line q).
      assert (Ens : ns = false).
      { destruct ns eqn:En; [|reflexivity]. exfalso. apply andb_true_iff in Ecs. destruct Ecs as [_ Ecs]. apply negb_true_iff in Ecs.
        change (line q') with (line q) in Ecs. destruct Hq as (_ & _ & _ & _ & _ & F). rewrite (F En) in Ecs. discriminate. }
      unfold entOK, mkI. cbn [istart iend ikind]. rewrite Q3, Ens. rewrite !Z.eqb_refl, !Z.leb_refl. reflexivity. }
    match goal with |- bndP (if ?c then _ else _) => destruct c end.
    - apply Hgo. match goal with |- bndP (if ?c then _ else _) => destruct c eqn:Ec end; [|exact H2].
      apply bndP_consumeIndent. apply bndP_updCont; [exact H2|]. intros x Hx. apply bnd_add_ik; [exact Hx|].
      apply andb_true_iff in Ec. destruct Ec as [Ec _]. apply andb_true_iff in Ec. destruct Ec as [Ec _]. apply andb_true_iff in Ec. destruct Ec as [Ec _].
      apply Z.ltb_lt in Ec. pose proof H2 as (_ & Q1 & Q2 & Q3 & _ & _).
      apply entOK_indent; lia.
    - match goal with |- bndP (if ?c then _ else _) => destruct c end; [|exact H2]. apply Hgo.
      apply bndP_consumeIndent, bndP_openBlock, H2.
  Qed.
End Bnd.
