From Coq Require Import List ZArith Lia Bool.
Import ListNotations.
Require Import Base Tables Utf8 Tree Rdr Link Collect ShapesBase ShapesR IFBase IFLink IFCollect LARpce IS8b EolCRLFDefs EolCRLFSimBytes EolCRLFSimStream
  EolGenCrlfRdrDefs EolGenCrlfRdrStep EolGenCrlfRdrNext EolGenCrlfRdrLink EolGenCrlfRdrColl.
Open Scope Z_scope.

(* the shared tail of one round of collect_loop, as a function *)
Definition cpost (f : nat) (e tk : Z) (esc : bool) (ok : bool) (r1 : reader) (ps : Z) (acc : list inline) : list inline * Z :=
  if negb ok then (acc, ps) else
  if jumped r1 then
    let acc := if ps <=? r_prev r1 then acc ++ [mkI tk ps (r_prev r1 + 1)] else acc in
    collect_loop f r1 e tk esc (r_pos r1) acc
  else collect_loop f r1 e tk esc ps acc.
Definition ctail (f : nat) (e tk : Z) (esc : bool) (r : reader) (ps : Z) (acc : list inline) : list inline * Z :=
  if e <=? r_pos r then (acc, ps) else let '(ok, r1) := next r in cpost f e tk esc ok r1 ps acc.

Lemma collect_loop_S f r e tk esc ps acc : collect_loop (S f) r e tk esc ps acc =
  if e <=? r_pos r then (acc, ps) else
  let '(cn, r0) := curNode r in
  if okind cn =? IndentKind then
    let acc := if ps <? r_pos r0 then acc ++ [mkI tk ps (r_prev r0 + 1)] else acc in
    let node := match cn with Some n => n | None => mkI 0 0 0 end in
    let acc := acc ++ [node] in
    let r1 := skipSameNode (S f) r0 node in
    collect_loop f r1 e tk esc (r_pos r1) acc
  else
    if esc && (okind cn =? UnparsedKind) then
      let '(c, r1) := current r0 in
      if c =? 92 then
        let '(ok, r2) := next r1 in
        if ok && (r_pos r2 <? e) && isASCIIPunctuation (cur r2) then
          let acc := if ps <? r_prev r2 then acc ++ [mkI tk ps (r_prev r2)] else acc in
          ctail f e tk esc r2 (r_pos r2) acc
        else ctail f e tk esc r2 ps acc
      else if c =? 38 then
        let '(rem, r2) := remainingNodeBytes r1 in
        let en := parseCharacterEscape rem in
        if 0 <=? en then
          let acc := if ps <? r_pos r2 then acc ++ [mkI tk ps (r_pos r2)] else acc in
          let acc := acc ++ [mkI CharacterReferenceKind (r_pos r2) (r_pos r2 + en)] in
          let ps := r_pos r2 + en in
          let r3 := nextN (Z.to_nat (en - 1)) r2 in
          let '(ok, r4) := next r3 in
          if negb ok then (acc, ps) else collect_loop f r4 e tk esc ps acc
        else ctail f e tk esc r2 ps acc
      else ctail f e tk esc r1 ps acc
    else ctail f e tk esc r0 ps acc.
Proof. reflexivity. Qed.

Lemma ctail_ext f e tk esc x y ps acc : r_pos x = r_pos y -> next x = next y -> ctail f e tk esc x ps acc = ctail f e tk esc y ps acc.
Proof. intros A B. unfold ctail. rewrite A, B. reflexivity. Qed.
Lemma cur_curNode r : cur (snd (curNode r)) = cur r.
Proof.
  unfold cur, current. destruct (curNode_fields r) as (A & B & C & _). cbv zeta in *. rewrite A, B, C, curNode_idem. destruct (len (r_src r) <=? r_pos r); reflexivity.
Qed.
(* on an LF inside a node that is not an Indent node a round of collect_loop is just its tail *)
Lemma ctail_refold f r e tk esc ps acc : cur r = 10 -> ctail f e tk esc r ps acc = collect_loop (S f) r e tk esc ps acc.
Proof.
  intros E. rewrite collect_loop_S. unfold ctail at 1. destruct (e <=? r_pos r) eqn:Ee; [reflexivity|].
  assert (K : okind (fst (curNode r)) <> IndentKind).
  { intros K. destruct (cur_indent r K) as [Q|Q]; rewrite Q in E; discriminate. }
  destruct (curNode r) as [cn r0] eqn:Ec. cbn [fst] in K. destruct (Z.eqb_spec (okind cn) IndentKind); [contradiction|].
  assert (E0 : r0 = snd (curNode r)) by (rewrite Ec; reflexivity).
  assert (T0 : ctail f e tk esc r0 ps acc = ctail f e tk esc r ps acc).
  { apply ctail_ext; [rewrite E0; apply pos_curNode|rewrite E0; apply next_curNode]. }
  assert (Tr : ctail f e tk esc r ps acc = (let '(ok, r1) := next r in cpost f e tk esc ok r1 ps acc)) by (unfold ctail; rewrite Ee; reflexivity).
  destruct (esc && (okind cn =? UnparsedKind)); [|rewrite T0, Tr; reflexivity].
  destruct (current r0) as [c r1] eqn:Ecu.
  assert (Ec0 : c = 10).
  { replace c with (cur r0) by (unfold cur; rewrite Ecu; reflexivity). rewrite E0, cur_curNode. exact E. }
  subst c. change (10 =? 92) with false. change (10 =? 38) with false. cbv iota.
  assert (E1 : r1 = snd (current r0)) by (rewrite Ecu; reflexivity).
  rewrite (ctail_ext f e tk esc r1 r0); [rewrite T0, Tr; reflexivity|rewrite E1; apply pos_current|rewrite E1; apply next_current].
Qed.

Section CollSim2.
  Variable R : bytes.
  Variable Eb : Z.
  Hypothesis R13 : ~ In 13 R.
  Notation P := (phiP R).
  Notation R' := (crlf R).
  Notation F := (phiI R).
  Notation RR := (RR R Eb).
  Notation RM := (RM R Eb).
  Notation PVc := (PVc R).
  Notation SPI := (SPI R Eb).
  Notation W := (W R Eb).

  Ltac f0 HW := exfalso; destruct (W_PL R Eb _ _ HW) as [?P1 ?P2]; first [eapply (fuel0 R); eassumption|eapply (fuel0 R'); eassumption].

  Definition ResC (x y : list inline * Z) : Prop := fst y = map F (fst x) /\ snd y = P (snd x).
  Lemma F_mkI k a b : F (mkI k a b) = mkI k (P a) (P b). Proof. reflexivity. Qed.
  Lemma W_posle x x' : W x x' -> forall y, (P y <=? r_pos x') = (y <=? r_pos x).
  Proof.
    intros [H|H] y.
    - rewrite (RR_pos R Eb _ _ H). apply P_leb.
    - destruct H as (_ & _ & _ & D & _ & _ & H10 & _). rewrite D. apply (posR_le R), posR_mid, H10.
  Qed.
  Lemma P_le_prev ps pv pv' : pv' + 1 = P (pv + 1) -> (P ps <=? pv') = (ps <=? pv).
  Proof.
    intros E. pose proof (phiP_ltb R ps (pv + 1)) as Q.
    destruct (Z.leb_spec ps pv) as [L|L].
    - apply Z.leb_le. destruct (Z.ltb_spec (P ps) (P (pv + 1))) as [L2|L2]; [lia|]. destruct (Z.ltb_spec ps (pv + 1)); [discriminate|lia].
    - apply Z.leb_gt. destruct (Z.ltb_spec (P ps) (P (pv + 1))) as [L2|L2]; [|lia]. destruct (Z.ltb_spec ps (pv + 1)); [lia|discriminate].
  Qed.
  Lemma next_ok_InNode r r2 : next r = (true, r2) -> InNode r.
  Proof. intros E. destruct (next_true r r2 E) as (node & rest & Ec & _). exists node. rewrite Ec. reflexivity. Qed.
  Lemma entch_ne10 c : isEntCh c = true -> c <> 10.
  Proof. intros H ->. discriminate H. Qed.

  Lemma collect_sim : forall f' f r r' e tk esc ps acc, W r r' -> nu R r < Z.of_nat f -> nu R' r' < Z.of_nat f' ->
    ResC (collect_loop f r e tk esc ps acc) (collect_loop f' r' (P e) tk esc (P ps) (map F acc)).
  Proof.
    induction f' as [|f' IH]; intros f r r' e tk esc ps acc HW Hn Hn'; [f0 HW|]. destruct f as [|f]; [f0 HW|].
    (* after the step, both readers synchronised *)
    assert (LS : forall ok x1 x1' ps0 acc0, RR x1 x1' -> (ok = true -> nu R x1 < nu R r) -> (ok = true -> nu R' x1' < nu R' r') ->
      ResC (cpost f e tk esc ok x1 ps0 acc0) (cpost f' (P e) tk esc ok x1' (P ps0) (map F acc0))).
    { intros ok x1 x1' ps0 acc0 H1 L1 L1'. unfold cpost. destruct ok; cbn [negb]; [|split; reflexivity].
      specialize (L1 eq_refl). specialize (L1' eq_refl). rewrite (jumped_sim R Eb _ _ H1).
      pose proof (RR_PVc R Eb _ _ H1) as Hpv. unfold EolGenCrlfRdrStep.PVc in Hpv. pose proof (RR_pos R Eb _ _ H1) as Hp.
      destruct (jumped x1).
      - cbv zeta. rewrite (P_le_prev ps0 _ _ Hpv), Hpv, Hp.
        replace (if ps0 <=? r_prev x1 then map F acc0 ++ [mkI tk (P ps0) (P (r_prev x1 + 1))] else map F acc0)
          with (map F (if ps0 <=? r_prev x1 then acc0 ++ [mkI tk ps0 (r_prev x1 + 1)] else acc0))
          by (destruct (ps0 <=? r_prev x1); [rewrite map_app; reflexivity|reflexivity]).
        apply IH; [left; exact H1|lia|lia].
      - apply IH; [left; exact H1|lia|lia]. }
    (* the tail of a round, from either kind of pair *)
    assert (T : forall x x' ps0 acc0, W x x' -> nu R x <= nu R r -> nu R' x' <= nu R' r' ->
      ResC (ctail f e tk esc x ps0 acc0) (ctail f' (P e) tk esc x' (P ps0) (map F acc0))).
    { intros x x' ps0 acc0 HX L L'.
      destruct (e <=? r_pos x) eqn:Ee.
      { unfold ctail. rewrite (W_posle _ _ HX), Ee. split; reflexivity. }
      assert (G' : ctail f' (P e) tk esc x' (P ps0) (map F acc0) = (let '(ok, r1) := next x' in cpost f' (P e) tk esc ok r1 (P ps0) (map F acc0)))
        by (unfold ctail; rewrite (W_posle _ _ HX), Ee; reflexivity).
      assert (G : ctail f e tk esc x ps0 acc0 = (let '(ok, r1) := next x in cpost f e tk esc ok r1 ps0 acc0))
        by (unfold ctail; rewrite Ee; reflexivity).
      destruct (next x) as [ok x1] eqn:En. destruct (next x') as [ok' x1'] eqn:En'.
      destruct HX as [H|H].
      - destruct (Z.eq_dec (cur x) 10) as [E10|N10].
        + destruct (nextE_RR10 R Eb _ _ _ _ _ _ H E10 En En') as [(-> & -> & H2 & _)|(-> & HM & Hlt)].
          * rewrite G, G'. split; reflexivity.
          * rewrite G'. unfold cpost. cbn [negb]. rewrite (RM_not_jumped R Eb _ _ HM). rewrite (ctail_refold f x e tk esc ps0 acc0 E10).
            apply IH; [right; exact HM|lia|lia].
        + destruct (nextE_RR R Eb _ _ _ _ _ _ H N10 En En') as (-> & H2 & _ & [U1 U2] & [U1' U2']).
          rewrite G, G'. apply LS; [exact H2|intros Eo; specialize (U2 Eo); lia|intros Eo; specialize (U2' Eo); lia].
      - destruct (nextE_RM R Eb _ _ _ _ _ _ H En En') as (-> & H2 & _ & [U1 U2] & [U1' U2']).
        rewrite G, G'. apply LS; [exact H2|intros Eo; specialize (U2 Eo); lia|intros Eo; specialize (U2' Eo); lia]. }
    rewrite !collect_loop_S. rewrite (W_posle _ _ HW). destruct (e <=? r_pos r) eqn:Ee; [split; reflexivity|].
    destruct (curNode r) as [cn r0] eqn:Ec. destruct (curNode r') as [cn' r0'] eqn:Ec'.
    destruct (curNodeE_W R Eb r r' cn r0 cn' r0' HW Ec Ec') as (-> & Q1 & Q2 & N0 & N0' & Hp0 & Ecn). rewrite okind_phiI.
    assert (HW0 : W r0 r0') by (destruct HW as [H|H]; [left; apply Q1, H|right; apply Q2, H]).
    destruct (Z.eqb_spec (okind cn) IndentKind) as [K|K].
    - (* an Indent node *)
      destruct HW as [H|H].
      2:{ exfalso. destruct H as (_ & _ & _ & _ & _ & _ & _ & _ & nd & Hnd & Knd). rewrite Ec in Hnd. cbn [fst] in Hnd. subst cn. exact (Knd K). }
      specialize (Q1 H). destruct cn as [node|]; [|discriminate K]. cbn [okind] in K. cbn [option_map]. cbv zeta.
      pose proof (RR_PVc R Eb _ _ Q1) as Hpv. unfold EolGenCrlfRdrStep.PVc in Hpv.
      rewrite (RR_pos R Eb _ _ Q1), phiP_ltb, Hpv.
      replace ((if ps <? r_pos r0 then map F acc ++ [mkI tk (P ps) (P (r_prev r0 + 1))] else map F acc) ++ [F node])
        with (map F ((if ps <? r_pos r0 then acc ++ [mkI tk ps (r_prev r0 + 1)] else acc) ++ [node]))
        by (destruct (ps <? r_pos r0); rewrite !map_app; reflexivity).
      destruct (RR_PL R Eb _ _ Q1) as [PL0 PL0'].
      assert (Ecn' : fst (curNode r0') = Some (F node)) by (destruct (RR_curNode R Eb r0 r0' Q1) as [X _]; rewrite X, Ecn; reflexivity).
      pose proof (skipSameNode_sim R Eb (S f') (S f) r0 r0' node Q1 ltac:(rewrite Ecn; exact K) K ltac:(lia) ltac:(lia)) as H1.
      pose proof (skipSameNode_lt R f r0 node node PL0 Ecn) as L1. pose proof (skipSameNode_lt R' f' r0' (F node) (F node) PL0' Ecn') as L1'.
      set (r1 := skipSameNode (S f) r0 node) in *. set (r1' := skipSameNode (S f') r0' (F node)) in *.
      rewrite (RR_pos R Eb _ _ H1). apply IH; [left; exact H1|lia|lia].
    - destruct (esc && (okind cn =? UnparsedKind)) eqn:Ees; [|apply T; [exact HW0|lia|lia]].
      destruct (current r0) as [c r1] eqn:Ecu. destruct (current r0') as [c' r1'] eqn:Ecu'.
      destruct HW as [H|H].
      + specialize (Q1 H). destruct (currentE_RR R Eb R13 _ _ _ _ _ _ Q1 Ecu Ecu') as (-> & H1 & Hc & N1 & N1' & Hp1 & Hp1' & _).
        rewrite !m13_eqb by discriminate.
        destruct (Z.eqb_spec c 92) as [->|N92].
        * destruct (next r1) as [ok r2] eqn:En. destruct (next r1') as [ok' r2'] eqn:En'.
          destruct (nextE_RR R Eb _ _ _ _ _ _ H1 ltac:(rewrite Hc; discriminate) En En') as (-> & H2 & _ & [U1 U2] & [U1' U2']).
          destruct (RR_current R Eb _ _ H2) as [Hcu _]. rewrite Hcu. fold (m13 (cur r2)). rewrite m13_punct, (RR_pos R Eb _ _ H2), phiP_ltb.
          destruct (ok && (r_pos r2 <? e) && isASCIIPunctuation (cur r2)) eqn:Eok; [|apply T; [left; exact H2|lia|lia]].
          assert (ok = true) by (destruct ok; [reflexivity|discriminate Eok]). subst ok.
          destruct (prevE_in R Eb r1 r1' true r2 true r2' H1 (next_ok_InNode r1 r2 En) ltac:(rewrite Hc; discriminate) ltac:(rewrite Hc; discriminate) En En') as [A _].
          cbv zeta. rewrite A, phiP_ltb.
          replace (if ps <? r_prev r2 then map F acc ++ [mkI tk (P ps) (P (r_prev r2))] else map F acc)
            with (map F (if ps <? r_prev r2 then acc ++ [mkI tk ps (r_prev r2)] else acc))
            by (destruct (ps <? r_prev r2); [rewrite map_app; reflexivity|reflexivity]).
          apply T; [left; exact H2|lia|lia].
        * destruct (Z.eqb_spec c 38) as [->|N38]; [|apply T; [left; exact H1|lia|lia]].
          destruct (rnb_sim R Eb r1 r1' H1) as [Erem H2].
          assert (Nr : nu R (snd (remainingNodeBytes r1)) = nu R r1) by apply nu_remaining.
          assert (Nr' : nu R' (snd (remainingNodeBytes r1')) = nu R' r1') by apply nu_remaining.
          (* the node under the reader *)
          assert (Hnode : exists node rest, remainingNodeBytes r1 = (sub R (r_pos r1) (iend node), withSpans r1 (node :: rest)) /\
                     spanHas node (r_pos r1) = true /\ ikind node <> IndentKind).
          { assert (Ecn1 : fst (curNode r1) = cn).
            { replace r1 with (snd (current r0)) by (rewrite Ecu; reflexivity). rewrite fstcn_current. exact Ecn. }
            unfold remainingNodeBytes. destruct (curNode_cases r1) as [E0|(pre & n & rest & E1 & E0 & E3)]; rewrite E0 in Ecn1 |- *; cbn [fst] in Ecn1.
            - rewrite <- Ecn1 in Ees. apply andb_true_iff in Ees. destruct Ees as [_ Ees]. discriminate Ees.
            - exists n, rest. replace (r_src r1) with R by (symmetry; apply H1). split; [reflexivity|]. split; [exact E3|].
              rewrite <- Ecn1 in K. cbn [okind] in K. exact K. }
          destruct Hnode as (node & rest & Ernb & Hh & Kn). rewrite Ernb in Erem, H2, Nr. cbn [fst snd] in Erem, H2, Nr.
          destruct (remainingNodeBytes r1') as [rem' r2'] eqn:Ernb'. cbn [fst snd] in Erem, H2, Nr'. subst rem'. rewrite Ernb.
          rewrite pce_crlf. set (rem := sub R (r_pos r1) (iend node)) in *. set (r2 := withSpans r1 (node :: rest)) in *.
          set (en := parseCharacterEscape rem).
          cbv zeta. destruct (Z.leb_spec 0 en) as [Len|Len]; [|apply T; [left; exact H2|lia|lia]].
          destruct (pce_spec rem Len) as [[En1 En2] Ech]. fold en in En1, En2, Ech.
          pose proof (spanHas_range _ _ Hh) as (S1 & S2 & S3).
          assert (Hsp : r_spans r2 = node :: rest) by reflexivity. assert (Hp2 : r_pos r2 = r_pos r1) by reflexivity.
          pose proof (RR_SPI R Eb _ _ H2) as G2. rewrite Hsp in G2. destruct G2 as (G2 & _). pose proof (spW_cons _ _ _ G2) as (_ & _ & S4 & _).
          assert (Lrem : len rem = iend node - r_pos r1) by (apply len_sub_in; lia).
          assert (Hno : forall k, 0 <= k < en -> at_ R (r_pos r1 + k) <> 10).
          { intros k Hk. rewrite <- (at_sub R (r_pos r1) (iend node) k) by lia. apply entch_ne10, Ech. lia. }
          assert (Hpk : forall k : nat, Z.of_nat k < en -> r_pos (nextN k r2) = r_pos r1 + Z.of_nat k).
          { intros k Hk. destruct (nextN_contig node rest Kn k r2 Hsp ltac:(rewrite Hp2; exact Hh) ltac:(rewrite Hp2; lia)) as (_ & Q & _). rewrite Q, Hp2. reflexivity. }
          pose proof (nextN_sim R Eb (Z.to_nat (en - 1)) r2 r2' H2) as H3.
          assert (H3' : RR (nextN (Z.to_nat (en - 1)) r2) (nextN (Z.to_nat (en - 1)) r2')).
          { apply H3. intros k Hk. rewrite Hpk by lia. apply Hno. lia. }
          clear H3. destruct (RR_PL R Eb _ _ H2) as [PL2 PL2'].
          destruct (nextN_prog R (Z.to_nat (en - 1)) r2 PL2) as (_ & _ & M3 & _). destruct (nextN_prog R' (Z.to_nat (en - 1)) r2' PL2') as (_ & _ & M3' & _).
          assert (Hp3 : r_pos (nextN (Z.to_nat (en - 1)) r2) = r_pos r1 + (en - 1)) by (rewrite Hpk by lia; lia).
          set (r3 := nextN (Z.to_nat (en - 1)) r2) in *. set (r3' := nextN (Z.to_nat (en - 1)) r2') in *.
          assert (N3 : cur r3 <> 10).
          { intros E3. destruct (cur_10 R r3 ltac:(apply H3') E3) as [Q _]. rewrite Hp3 in Q. exact (Hno (en - 1) ltac:(lia) Q). }
          destruct (next r3) as [ok r4] eqn:En4. destruct (next r3') as [ok' r4'] eqn:En4'.
          destruct (nextE_RR R Eb _ _ _ _ _ _ H3' N3 En4 En4') as (-> & H4 & _ & [U1 U2] & [U1' U2']).
          cbv zeta. rewrite (RR_pos R Eb _ _ H2), phiP_ltb, Hp2.
          assert (Epe : P (r_pos r1) + en = P (r_pos r1 + en)).
          { pose proof (P_add_noLF R (r_pos r1) (Z.to_nat en)) as Q. rewrite Z2Nat.id in Q by lia. symmetry. apply Q. intros k Hk. apply Hno. lia. }
          rewrite Epe.
          replace ((if ps <? r_pos r1 then map F acc ++ [mkI tk (P ps) (P (r_pos r1))] else map F acc) ++ [mkI CharacterReferenceKind (P (r_pos r1)) (P (r_pos r1 + en))])
            with (map F ((if ps <? r_pos r1 then acc ++ [mkI tk ps (r_pos r1)] else acc) ++ [mkI CharacterReferenceKind (r_pos r1) (r_pos r1 + en)]))
            by (destruct (ps <? r_pos r1); rewrite !map_app; reflexivity).
          destruct ok; cbn [negb]; [|split; reflexivity].
          apply IH; [left; exact H4|specialize (U2 eq_refl); lia|specialize (U2' eq_refl); lia].
      + specialize (Q2 H). destruct (currentE_RM R Eb _ _ _ _ _ _ Q2 Ecu Ecu') as (-> & -> & H1 & N1 & N1' & _).
        change (10 =? 92) with false. change (10 =? 38) with false. cbv iota. apply T; [right; exact H1|lia|lia].
  Qed.

  Lemma collectTextNodes_sim f f' r r' e tk esc : RR r r' -> nu R r < Z.of_nat f -> nu R' r' < Z.of_nat f' ->
    collectTextNodes f' r' (P e) tk esc = map F (collectTextNodes f r e tk esc).
  Proof.
    intros H Hn Hn'. unfold collectTextNodes. rewrite (RR_pos R Eb _ _ H).
    destruct (collect_sim f' f r r' e tk esc (r_pos r) [] (or_introl H) Hn Hn') as [A B]. cbn [map] in A, B.
    destruct (collect_loop f r e tk esc (r_pos r) []) as [acc ps]. destruct (collect_loop f' r' (P e) tk esc (P (r_pos r)) []) as [acc' ps'].
    cbn [fst snd] in A, B. subst acc' ps'. rewrite phiP_ltb. destruct (ps <? e); [rewrite map_app; reflexivity|reflexivity].
  Qed.
End CollSim2.
