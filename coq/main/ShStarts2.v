From Coq Require Import List ZArith Lia Bool.
Import ListNotations.
Require Import Base Tree Rdr Link Collect Html Recog LP Rules Starts Driver Props L2Kind L2CC GramTree GramLP GramLP2 Cursor CursorX NoPanic12
  Rec16 Rec17 Rec18 RecBounds BSDef BSRdr BSTree BSOcp BSOrph BSClose
  BSLine1 BSLine2 BSLine3 BSLine4 BSLine5 BShDef ShDef ShRdr ShClose ShEnv ShLine1 ShLine2 ShFresh ShRecog ShSetext ShStarts1.
Open Scope Z_scope.

(* ---- the cursor only moves right, inside the line ---- *)
Definition lstep (p p' : lp) : Prop := envOf p' = envOf p /\ (0 <= li p <= len (line p) -> li p <= li p' <= len (line p)).
Lemma lstep_refl p : lstep p p. Proof. split; [reflexivity|lia]. Qed.
Lemma lstep_trans a b c : lstep a b -> lstep b c -> lstep a c.
Proof.
  intros [A1 A2] [B1 B2]. split; [congruence|]. intros H. specialize (A2 H). destruct (env_parts _ _ A1) as (_ & _ & E). rewrite E in B2.
  specialize (B2 ltac:(lia)). lia.
Qed.
Lemma lstep_cstep p p' : cstep p p' -> lstep p p'.
Proof. intros H. split; [apply env_of_cstep, H|apply H]. Qed.
Lemma lstep_updCont p f : lstep p (updCont p f). Proof. split; [reflexivity|cbn; lia]. Qed.
Lemma lstep_collectInline p kind n : lstep p (collectInline p kind n).
Proof.
  unfold collectInline. destruct (_ =? stDescendTerminated); [apply lstep_cstep, cstep_panic|]. cbv zeta.
  eapply lstep_trans; [|apply lstep_updCont]. eapply lstep_trans; [|apply lstep_cstep, cstep_advance].
  destruct (0 <? _); [|apply lstep_cstep, cstep_opened].
  eapply lstep_trans; [|apply lstep_updCont]. eapply lstep_trans; [|apply lstep_cstep, cstep_advance]. apply lstep_cstep, cstep_opened.
Qed.
Lemma li_openBlock p K : li (openBlock p K) = li p.
Proof. unfold openBlock. destruct (_ || _); [reflexivity|]. cbv zeta. cbn [li withCont updCont withRoot closeLastChildAt setLP]. rewrite li_openBlock_up. apply li_opened. Qed.
Lemma lstep_openBlock p K : lstep p (openBlock p K).
Proof. split; [apply env_openBlock|rewrite li_openBlock; lia]. Qed.
Lemma li_endBlock p : li (endBlock p) = li p.
Proof. unfold endBlock. destruct (_ || _); [reflexivity|]. cbv zeta. destruct (cdepth _); cbn; apply li_opened. Qed.
Lemma lstep_li p p' : lstep p p' -> 0 <= li p <= len (line p) -> 0 <= li p' <= len (line p') /\ lineStart p' = lineStart p /\ line p' = line p.
Proof. intros [A B] H. destruct (env_parts _ _ A) as (_ & E2 & E3). rewrite E2, E3. specialize (B H). repeat split; lia. Qed.

Lemma nd_of_ms_sstep p p' : ms p -> sstep p p' -> nd p'.
Proof. intros H Hs. apply ms_nd. eapply ms_sstep; eassumption. Qed.

(* fields of the fresh block *)
Ltac fresh_tac := cbn [newBlock set_bn set_bchar set_bindent set_bik set_bend bkind bstart bend bkids bn].

Lemma sOKsh_startFenced : startOKsh startFenced.
Proof.
  intros p Hlk Hs HA HL HSL. unfold startFenced. cbv zeta.
  assert (Same : SR p /\ SC1 p /\ SLI2 p /\ (SLI p \/ ms p)) by (split; [apply HA|split; [apply HA|split; [left; exact HSL|left; exact HSL]]]).
  destruct (_ <=? _); [exact Same|]. destruct (parseCodeFence (bytesAfterIndent p)) as [[[fc fnn] is_] ie] eqn:Ep.
  destruct (Z.eqb_spec fnn 0) as [E0|N0]; [exact Same|]. clear Same.
  destruct (open_indented p FencedCodeBlockKind Hs HA HL HSL ltac:(discriminate)) as (B1 & B2 & B3 & B4 & B5 & B6 & B7 & B8 & B9 & B10 & B11 & B12).
  set (p1 := consumeIndent p (indent p)) in *. set (q := obPre p1 FencedCodeBlockKind) in *. set (s := lineStart p + li p1) in *.
  set (p2 := openBlock p1 FencedCodeBlockKind) in *.
  pose proof (state_openBlock p1 FencedCodeBlockKind B11) as C. fold p2 in C.
  set (q1 := updCont p2 (fun b => set_bn (set_bchar b fc) fnn)). set (q2 := updCont q1 (fun b => set_bindent b (indent p))).
  pose proof (frs_updCont _ _ _ (fun b => set_bindent b (indent p)) (frs_updCont _ _ _ (fun b => set_bn (set_bchar b fc) fnn) B6)) as F2. fold q1 q2 in F2.
  assert (M2 : ms q2) by (apply ms_state; exact C).
  set (q3 := if spanValid (is_, ie) then collectInline (advance q2 is_) InfoStringKind (ie - is_) else q2).
  assert (H3 : (exists ik, frs q q3 (set_bik (set_bindent (set_bn (set_bchar (newBlock FencedCodeBlockKind s) fc) fnn) (indent p)) ik)) /\ ms q3).
  { unfold q3. destruct (spanValid _).
    - split; [apply frs_collectInline; eapply frs_cstep; [exact F2|apply cstep_advance]|].
      eapply ms_sstep; [apply sstep_collectInline|]. eapply ms_sstep; [apply sstep_advance|exact M2].
    - split; [eexists; rewrite set_bik_self; exact F2|exact M2]. }
  destruct H3 as [(ik & F3) M3].
  pose proof (frs_cstep _ _ _ _ F3 (cstep_consumeLine q3)) as Hf.
  destruct (ms_consumeLine q3 (ms_nd _ M3)) as [M4 _].
  destruct (fence_head _ _ _ _ _ Ep N0) as (Q1 & Q2 & Q3 & Q4). destruct (env_parts _ _ B7) as (E1 & _).
  rewrite B8 in Q2, Q3, Q4. rewrite (Rec17.at_from (source p) s 0) in Q2, Q3, Q4 by lia. rewrite (Rec17.at_from (source p) s 1) in Q3 by lia.
  rewrite (Rec17.at_from (source p) s 2) in Q4 by lia. replace (s + 0) with s in * by lia.
  match type of Hf with frs _ _ ?Y => assert (HY : sh (source q) (len (source q)) Y) end.
  { apply sh_open_leaf; [cbn; lia|reflexivity|]. fresh_tac. rewrite E1.
    split; [|split; [intros; discriminate|repeat split; discriminate]]. intros _. split; [lia|]. unfold fence3. tauto. }
  destruct (fin_in q _ _ B1 B3 B4 Hf HY eq_refl) as [F1' F2'].
  split; [exact F1'|split; [exact F2'|split; [|right; exact M4]]].
  eapply SLI2_in; [apply B1|exact Hf|reflexivity|discriminate].
Qed.

Lemma sOKsh_startIndented : startOKsh startIndented.
Proof.
  intros p Hlk Hs HA HL HSL. unfold startIndented.
  assert (Same : SR p /\ SC1 p /\ SLI2 p /\ (SLI p \/ ms p)) by (split; [apply HA|split; [apply HA|split; [left; exact HSL|left; exact HSL]]]).
  destruct (_ || _ || _); [exact Same|]. clear Same.
  pose proof (cstep_consumeIndent p codeBlockIndentLimit) as Hc. set (p1 := consumeIndent p codeBlockIndentLimit) in *.
  assert (S1 : st_open p1) by (apply st_open_consumeIndent, Hs).
  assert (A1 : AllI p1) by (eapply AllI_cstep; [exact Hc|apply G_consumeIndent, HA|exact HA]).
  assert (L1' : LI p1) by (eapply LI_cstep; eassumption). assert (SL1 : SLI p1) by (eapply SLI_cstep; eassumption).
  destruct (open_basic p1 IndentedCodeBlockKind S1 A1 L1' SL1 ltac:(discriminate)) as (B1 & B2 & B3 & B4 & B5 & B6 & B7).
  set (q := obPre p1 IndentedCodeBlockKind) in *.
  assert (HY : sh (source q) (len (source q)) (newBlock IndentedCodeBlockKind (lineStart p1 + li p1))).
  { apply sh_open_leaf; [cbn; lia|reflexivity|]. apply openOK_other; discriminate. }
  destruct (fin_in q _ _ B1 B3 B4 B6 HY eq_refl) as [F1 F2].
  split; [exact F1|split; [exact F2|split; [|right; apply ms_state; apply (state_openBlock p1 _ S1)]]].
  eapply SLI2_in; [apply B1|exact B6|reflexivity|discriminate].
Qed.

(* closing the fresh block Y at the cursor: the state after endBlock *)
Lemma fin_endBlock q p Y K : BP q -> SR q -> kidsClosed q -> EV q -> canContain (containerKind q) K = true -> K <> ListItemKind ->
  frs q p Y -> nd p -> bend Y < 0 -> bkids Y = [] -> simpleK (bkind Y) -> 0 <= lineStart p + li p ->
  shapeKN (sub (source q) (bstart Y) (lineStart p + li p)) (bkind Y) (bn Y) = true ->
  SR (endBlock p) /\ SC1 (endBlock p) /\ SLI (endBlock p).
Proof.
  intros HB HS HK Hev Hcan NK Hf Hn Ho Hk Hs He Hsh.
  destruct (frs_endBlock q p Y Hf Hn Ho Hk Hs) as (A & B & C).
  assert (HY : sh (source q) (len (source q)) (set_bend Y (lineStart p + li p))).
  { apply sh_closed_leaf; [rewrite bend_set_bend; exact He|rewrite bk_set_bend; exact Hk|].
    rewrite bstart_set_bend, bend_set_bend, bkind_set_bend. destruct Y; exact Hsh. }
  destruct (fin_out q (endBlock p) _ HB HS HK A B C HY ltac:(rewrite bend_set_bend; exact He)) as [F1 F2].
  split; [exact F1|split; [exact F2|]]. eapply SLI_fresh_out; try eassumption. apply HB.
Qed.

Lemma sOKsh_startThematic : startOKsh startThematic.
Proof.
  intros p Hlk Hs HA HL HSL. unfold startThematic. cbv zeta.
  assert (Same : SR p /\ SC1 p /\ SLI2 p /\ (SLI p \/ ms p)) by (split; [apply HA|split; [apply HA|split; [left; exact HSL|left; exact HSL]]]).
  destruct (_ <=? _); [exact Same|]. destruct (_ <? 0); [exact Same|]. clear Same.
  destruct (open_indented p ThematicBreakKind Hs HA HL HSL ltac:(discriminate)) as (B1 & B2 & B3 & B4 & B5 & B6 & B7 & B8 & B9 & B10 & B11 & B12).
  set (p1 := consumeIndent p (indent p)) in *. set (q := obPre p1 ThematicBreakKind) in *. set (s := lineStart p + li p1) in *.
  set (p2 := openBlock p1 ThematicBreakKind) in *.
  pose proof (state_openBlock p1 ThematicBreakKind B11) as C. fold p2 in C.
  set (q2 := advance p2 (parseThematicBreak (bytesAfterIndent p))).
  assert (M2 : ms q2) by (eapply ms_sstep; [apply sstep_advance|apply ms_state; exact C]).
  destruct (ms_consumeLine q2 (ms_nd _ M2)) as [_ N4].
  assert (Hf : frs q (consumeLine q2) (newBlock ThematicBreakKind s)).
  { eapply frs_cstep; [|apply cstep_consumeLine]. eapply frs_cstep; [exact B6|apply cstep_advance]. }
  assert (Hl : lstep p1 (consumeLine q2)).
  { eapply lstep_trans; [apply lstep_openBlock|]. eapply lstep_trans; apply lstep_cstep; [apply cstep_advance|apply cstep_consumeLine]. }
  pose proof B12 as (_ & (It1 & Lt1 & _) & Ev1 & _).
  destruct (lstep_li _ _ Hl ltac:(destruct It1; lia)) as (P1 & P2 & P3).
  destruct (fin_endBlock q (consumeLine q2) _ ThematicBreakKind B1 B3 B4 B5 B2 ltac:(discriminate) Hf N4 ltac:(cbn; lia) eq_refl
              ltac:(repeat split; discriminate) ltac:(rewrite P2; destruct Ev1 as (_ & ?); lia) ltac:(apply shape_other; discriminate)) as (F1 & F2 & F3).
  split; [exact F1|split; [exact F2|split; [left; exact F3|left; exact F3]]].
Qed.

Lemma sOKsh_startHTML : startOKsh startHTML.
Proof.
  intros p Hlk Hs HA HL HSL. unfold startHTML. cbv zeta.
  assert (Same : SR p /\ SC1 p /\ SLI2 p /\ (SLI p \/ ms p)) by (split; [apply HA|split; [apply HA|split; [left; exact HSL|left; exact HSL]]]).
  destruct (_ <=? _); [exact Same|]. destruct (negb _); [exact Same|]. destruct (_ <? 0); [exact Same|]. destruct (negb _ && _); [exact Same|]. clear Same.
  set (i := firstHtmlCond 0 7 (bytesAfterIndent p)).
  destruct (open_basic p HTMLBlockKind Hs HA HL HSL ltac:(discriminate)) as (B1 & B2 & B3 & B4 & B5 & B6 & B7).
  set (q := obPre p HTMLBlockKind) in *. set (p2 := openBlock p HTMLBlockKind) in *.
  pose proof (state_openBlock p HTMLBlockKind Hs) as C. fold p2 in C.
  set (q1 := updCont p2 (fun b => set_bn b i)).
  pose proof (frs_updCont _ _ _ (fun b => set_bn b i) B6) as F1. fold q1 in F1.
  assert (M1 : ms q1) by (apply ms_state; exact C).
  pose proof HA as (_ & (It & Lt & _) & Ev & _).
  destruct (htmlEnd _ _).
  - set (q3 := collectInline q1 RawHTMLKind (len (bytesAfterIndent q1))).
    destruct (frs_collectInline _ _ _ RawHTMLKind (len (bytesAfterIndent q1)) F1) as (ik & F3). fold q3 in F3.
    assert (M3 : ms q3) by (eapply ms_sstep; [apply sstep_collectInline|exact M1]).
    destruct (ms_consumeLine q3 (ms_nd _ M3)) as [_ N4].
    pose proof (frs_cstep _ _ _ _ F3 (cstep_consumeLine q3)) as Hf.
    assert (Hl : lstep p (consumeLine q3)).
    { eapply lstep_trans; [apply lstep_openBlock|]. eapply lstep_trans; [apply lstep_updCont|]. eapply lstep_trans; [apply lstep_collectInline|].
      apply lstep_cstep, cstep_consumeLine. }
    destruct (lstep_li _ _ Hl ltac:(destruct It; lia)) as (P1 & P2 & P3).
    destruct (fin_endBlock q (consumeLine q3) _ HTMLBlockKind B1 B3 B4 B5 B2 ltac:(discriminate) Hf N4 ltac:(cbn; lia) eq_refl
                ltac:(repeat split; discriminate) ltac:(rewrite P2; destruct Ev as (_ & ?); lia) ltac:(apply shape_other; discriminate)) as (G1 & G2 & G3).
    split; [exact G1|split; [exact G2|split; [left; exact G3|left; exact G3]]].
  - match type of F1 with frs _ _ ?Y => assert (HY : sh (source q) (len (source q)) Y) end.
    { apply sh_open_leaf; [cbn; lia|reflexivity|]. apply openOK_other; discriminate. }
    destruct (fin_in q _ _ B1 B3 B4 F1 HY eq_refl) as [G1 G2].
    split; [exact G1|split; [exact G2|split; [|right; exact M1]]]. eapply SLI2_in; [apply B1|exact F1|reflexivity|discriminate].
Qed.

Lemma sOKsh_startATX : startOKsh startATX.
Proof.
  intros p Hlk Hs HA HL HSL. unfold startATX. cbv zeta.
  assert (Same : SR p /\ SC1 p /\ SLI2 p /\ (SLI p \/ ms p)) by (split; [apply HA|split; [apply HA|split; [left; exact HSL|left; exact HSL]]]).
  destruct (_ <=? _); [exact Same|]. destruct (parseATXHeading (bytesAfterIndent p)) as [[level cs] ce] eqn:Ep.
  destruct (Z.ltb_spec level 1) as [L1|L1]; [exact Same|]. clear Same.
  destruct (open_indented p ATXHeadingKind Hs HA HL HSL ltac:(discriminate)) as (B1 & B2 & B3 & B4 & B5 & B6 & B7 & B8 & B9 & B10 & B11 & B12).
  set (p1 := consumeIndent p (indent p)) in *. set (q := obPre p1 ATXHeadingKind) in *. set (s := lineStart p + li p1) in *.
  set (p2 := openBlock p1 ATXHeadingKind) in *.
  pose proof (state_openBlock p1 ATXHeadingKind B11) as C. fold p2 in C.
  set (q1 := updCont p2 (fun b => set_bn b level)).
  pose proof (frs_updCont _ _ _ (fun b => set_bn b level) B6) as F1. fold q1 in F1.
  assert (M1 : ms q1) by (apply ms_state; exact C).
  set (q2 := advance q1 cs).
  assert (M2 : ms q2) by (eapply ms_sstep; [apply sstep_advance|exact M1]).
  set (q3 := collectInline q2 UnparsedKind (ce - cs)).
  destruct (frs_collectInline _ _ _ UnparsedKind (ce - cs) (frs_cstep _ _ _ _ F1 (cstep_advance q1 cs))) as (ik & F3). fold q2 q3 in F3.
  assert (M3 : ms q3) by (eapply ms_sstep; [apply sstep_collectInline|exact M2]).
  destruct (ms_consumeLine q3 (ms_nd _ M3)) as [_ N4].
  pose proof (frs_cstep _ _ _ _ F3 (cstep_consumeLine q3)) as Hf.
  assert (Hl : lstep p1 q3).
  { eapply lstep_trans; [apply lstep_openBlock|]. eapply lstep_trans; [apply lstep_updCont|]. eapply lstep_trans; [apply lstep_cstep, cstep_advance|].
    apply lstep_collectInline. }
  pose proof B12 as (_ & (It1 & Lt1 & _) & Ev1 & _).
  destruct (lstep_li _ _ Hl ltac:(destruct It1; lia)) as (P1 & P2 & P3).
  pose proof (li_consumeLine q3 P1) as Hli.
  destruct (env_parts _ _ (env_consumeLine q3)) as (_ & E2 & E3).
  assert (He : lineStart (consumeLine q3) + li (consumeLine q3) = len (source q)).
  { rewrite Hli, E2, P2, P3. destruct (env_parts _ _ B7) as (E1 & _). rewrite E1.
    pose proof (len_line_src p1 Ev1) as Hll. destruct (env_parts _ _ (env_of_cstep _ _ (cstep_consumeIndent p (indent p)))) as (E4 & _). fold p1 in E4. rewrite E4 in Hll. exact Hll. }
  destruct (env_parts _ _ B7) as (E1 & _).
  assert (He0 : 0 <= lineStart (consumeLine q3) + li (consumeLine q3)) by (rewrite He; apply len_nonneg).
  match type of Hf with frs _ _ ?Y =>
    destruct (fin_endBlock q (consumeLine q3) Y ATXHeadingKind B1 B3 B4 B5 B2 ltac:(discriminate) Hf N4 ltac:(cbn; lia) eq_refl
              ltac:(repeat split; discriminate) He0) as (G1 & G2 & G3) end.
  { rewrite He. fresh_tac. rewrite E1. pose proof (len_nonneg (bytesAfterIndent p)). rewrite sub_to_end by lia. rewrite <- B8. eapply shape_atx; [exact Ep|lia]. }
  split; [exact G1|split; [exact G2|split; [left; exact G3|left; exact G3]]].
Qed.
