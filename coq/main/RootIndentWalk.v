From Coq Require Import List ZArith Lia Bool.
Import ListNotations.
Require Import Base Tables Utf8 Tree Rdr Link Collect Html Recog LP Rules Starts Driver.
Require Import Rec17 L2Kind L2CC GramDefs GramTree GramLP GramLP2 GramLP3 GramLP4 BSLine1 BSLine2 BSLine3 BSLine4 BSOrph TilBase TilDefs TilLP1 TilLP2 TilLP10 TilLP11 ShEnv ShLine1 LAR1 ExOcp ExInv2 DefSpansOcp RootIndentDefs RootIndentOcp.
Require L2Kind2 LA7 LA11.
Open Scope Z_scope.

(* ================================================================================================
   T56 (b), part 3 (RootIndentWalk): the invariant on the root children (RootIndentDefs.TVl) through the line machine.
   TV does not mention the cursor; the cursor fact (the consumed part of the line is spaces/tabs while the container is the
   root or a child of the root other than a block quote / list item: CL) is kept at the loop level only: it holds after
   descendOpenBlocks, and before and after every block start unless the line has been consumed.
   ================================================================================================ *)
Notation ckind := L2Kind2.ckind.

(* ---- the children of the root under updAt ---- *)
Lemma kids_updAt_S d f r c : lastBlock r = Some c -> bkids (updAt (S d) f r) = removelast (bkids r) ++ [updAt d f c].
Proof. intros El. cbn [updAt]. rewrite El. unfold set_lastBlocks. apply GramTree.bkids_set_bkids. Qed.
Lemma updAt_S_none d f r : lastBlock r = None -> updAt (S d) f r = r.
Proof. intros El. cbn [updAt]. rewrite El. reflexivity. Qed.
Lemma sameR_updAt_deep f d c : sameR c (updAt (S d) f c).
Proof. cbn [updAt]. destruct (lastBlock c); [apply sameR_set_lastBlocks|apply sameR_refl]. Qed.
Lemma sameR_kind c c' : bstart c' = bstart c -> bend c' = bend c -> bkind c' = bkind c -> bik c' = bik c -> sameR c c'.
Proof. intros A B C D. unfold sameR. rewrite A, B, C, D. repeat split; auto. Qed.
Lemma lastL_lastBlock r : lastL (bkids r) = lastBlock r. Proof. symmetry. apply lastBlock_lastL. Qed.

Section W.
  Variable src : bytes.
  Variables ls s0 : Z.
  Variable ik0 : list inline.
  Variable ne0 : Prop.
  Hypothesis HG0 : ik0 <> [] -> GoodP src ls s0 ik0.
  Hypothesis HR0 : ik0 <> [] -> RootP src ls s0 ik0.
  Notation TVl := (TVl src ls s0 ik0 ne0).

  (* the environment of the line *)
  Definition EVp (p : lp) : Prop :=
    source p = src /\ lineStart p = ls /\ line p = from_ src ls /\ 0 <= ls <= len src /\ 0 <= li p <= len (line p).
  Lemma EVp_cs2 p p' : cs2 p p' -> EVp p -> EVp p'.
  Proof. intros ((E1 & E2 & E3) & H) (A & B & C & D & E). specialize (H E). unfold EVp. rewrite E1, E2, E3. repeat split; try assumption; lia. Qed.
  Lemma EVp_at p i : EVp p -> 0 <= i -> at_ (line p) i = at_ src (ls + i).
  Proof. intros (_ & _ & C & D & _) Hi. rewrite C. apply at_from; lia. Qed.
  Definition CLEAN (p : lp) : Prop := sptR src ls (ls + li p).
  Lemma CLEAN_same p p' : li p' = li p -> CLEAN p -> CLEAN p'. Proof. unfold CLEAN. intros ->. tauto. Qed.

  Lemma CLEAN_consumeIndent_loop : forall fuel p n, EVp p -> CLEAN p -> CLEAN (consumeIndent_loop fuel p n).
  Proof.
    induction fuel as [|f IH]; intros p n HE HC; [exact HC|]. cbn [consumeIndent_loop].
    destruct (n <=? 0); [exact HC|]. cbv zeta.
    set (p0 := if state p =? stOpening then withState p stOpenMatched else p).
    assert (E0 : EVp p0 /\ li p0 = li p /\ line p0 = line p) by (unfold p0; destruct (state p =? stOpening); repeat split; try reflexivity; apply HE).
    destruct E0 as (HE0 & El & Eln). assert (HC0 : CLEAN p0) by (unfold CLEAN; rewrite El; exact HC).
    destruct (Z.ltb_spec (li p0) (len (line p0))) as [L|L]; cbn [andb]; [|exact HC0].
    assert (Hstep : forall cl tr c, at_ (line p0) (li p0) = c -> isSpTab c = true ->
              EVp (withCursor p0 (li p0 + 1) cl tr) /\ CLEAN (withCursor p0 (li p0 + 1) cl tr)).
    { intros cl tr c Ec Hc. split.
      - destruct HE0 as (X1 & X2 & X3 & X4 & X5). unfold EVp. cbn [withCursor setLP source lineStart line li]. repeat split; try assumption; lia.
      - unfold CLEAN. cbn [withCursor setLP li]. intros i Hi. destruct (Z.eq_dec i (ls + li p0)) as [->|N]; [|apply HC0; lia].
        rewrite <- (EVp_at p0 (li p0) HE0) by (destruct HE0 as (_ & _ & _ & _ & X); lia). rewrite Ec. exact Hc. }
    destruct (Z.eqb_spec (at_ (line p0) (li p0)) 32) as [E32|N32].
    { destruct (Hstep (col p0 + 1) (computeTabRem (line p0) (li p0 + 1) (col p0 + 1)) 32 E32 eq_refl) as [H1 H2]. apply IH; assumption. }
    destruct (Z.eqb_spec (at_ (line p0) (li p0)) 9) as [E9|N9]; [|exact HC0].
    destruct (n <? tabRem p0); [unfold CLEAN; cbn [withCursor setLP li]; exact HC0|].
    destruct (Hstep (col p0 + tabRem p0) (computeTabRem (line p0) (li p0 + 1) (col p0 + tabRem p0)) 9 E9 eq_refl) as [H1 H2]. apply IH; assumption.
  Qed.
  Lemma CLEAN_consumeIndent p n : EVp p -> CLEAN p -> CLEAN (consumeIndent p n). Proof. apply CLEAN_consumeIndent_loop. Qed.

  (* ---- the invariant on the parser state; the flag says: the last root child is not an open paragraph, and there is one ---- *)
  Definition TV (p : lp) : Prop := TVl (bkids (root p)).
  Definition NUl (l : list block) : Prop := l <> [] /\ forall c, lastL l = Some c -> bend c < 0 -> isPSb (bkind c) = true -> False.
  Definition TVb (b : bool) (p : lp) : Prop := TV p /\ (b = true -> NUl (bkids (root p))).
  Lemma TVb_weak b p : TVb b p -> TVb false p. Proof. intros [A _]. split; [exact A|discriminate]. Qed.
  Lemma TVb_le b p : TVb true p -> TVb b p. Proof. intros [A B]. split; [exact A|intros _; apply B; reflexivity]. Qed.
  Lemma TVb_kids b p p' : bkids (root p') = bkids (root p) -> TVb b p -> TVb b p'.
  Proof. unfold TVb, TV. intros ->. tauto. Qed.
  Lemma TVb_root b p p' : root p' = root p -> TVb b p -> TVb b p'.
  Proof. intros E. apply TVb_kids. rewrite E. reflexivity. Qed.

  (* U1 at the level of lists, with the flag *)
  Lemma TVb_sameL b pre c c' l' : sameR c c' -> bkind c' = bkind c -> l' = pre ++ [c'] ->
    (TVl (pre ++ [c]) /\ (b = true -> NUl (pre ++ [c]))) -> (TVl l' /\ (b = true -> NUl l')).
  Proof.
    intros HS HK -> [A B]. split; [apply (TVl_same src ls s0 ik0 ne0 pre c c' HS A)|].
    intros Hb. destruct (B Hb) as [_ N]. split; [destruct pre; discriminate|]. intros x Hx. rewrite lastL_snoc in Hx. inversion Hx; subst x.
    destruct HS as (_ & S2 & S3 & _). rewrite S2, S3. apply N. apply lastL_snoc.
  Qed.

  (* an update below the root that keeps the fields of the block it reaches *)
  Lemma TVb_updAt_deep b p d f : (forall x, sameR x (f x) /\ bkind (f x) = bkind x) -> TVb b p -> TVb b (withRoot p (updAt (S d) f (root p))).
  Proof.
    intros Hf H. unfold TVb, TV in *. cbn [root withRoot setLP]. destruct (lastBlock (root p)) as [c|] eqn:El; [|rewrite (updAt_S_none d f _ El); exact H].
    rewrite (lastBlock_kids _ _ El) in H. apply (TVb_sameL b (removelast (bkids (root p))) c (updAt d f c) _); [| |apply (kids_updAt_S d f _ c El)|exact H].
    - destruct d as [|d]; [apply Hf|apply sameR_updAt_deep].
    - destruct d as [|d]; [apply Hf|]. cbn [updAt]. destruct (lastBlock c); [destruct c; reflexivity|reflexivity].
  Qed.
  Lemma TVb_updAt0 b p f : (forall x, bkids (f x) = bkids x) -> TVb b p -> TVb b (withRoot p (updAt O f (root p))).
  Proof. intros Hf. apply TVb_kids. cbn. apply Hf. Qed.
  Lemma TVb_updCont_keep b p f : (forall x, sameR x (f x) /\ bkind (f x) = bkind x /\ bkids (f x) = bkids x) -> TVb b p -> TVb b (updCont p f).
  Proof.
    intros Hf H. unfold updCont. destruct (cdepth p) as [|d]; [apply TVb_updAt0; [intros x; apply Hf|exact H]|apply TVb_updAt_deep; [intros x; split; apply Hf|exact H]].
  Qed.
  Lemma keep_bn v x : sameR x (set_bn x v) /\ bkind (set_bn x v) = bkind x /\ bkids (set_bn x v) = bkids x. Proof. destruct x; repeat split; auto. Qed.
  Lemma keep_bchar v x : sameR x (set_bchar x v) /\ bkind (set_bchar x v) = bkind x /\ bkids (set_bchar x v) = bkids x. Proof. destruct x; repeat split; auto. Qed.
  Lemma keep_bindent v x : sameR x (set_bindent x v) /\ bkind (set_bindent x v) = bkind x /\ bkids (set_bindent x v) = bkids x. Proof. destruct x; repeat split; auto. Qed.
  Lemma keep_fence fc fnn x : sameR x (set_bn (set_bchar x fc) fnn) /\ bkind (set_bn (set_bchar x fc) fnn) = bkind x /\ bkids (set_bn (set_bchar x fc) fnn) = bkids x.
  Proof. destruct x; repeat split; auto. Qed.

  (* appending entries to a container that is no paragraph *)
  Lemma TVb_set_bik b p g K : ckind p K -> isPSb K = false -> TVb b p -> TVb b (updCont p (fun x => set_bik x (g x))).
  Proof.
    intros Hc Hk H. unfold updCont. destruct (cdepth p) as [|d] eqn:Ed; [apply TVb_updAt0; [intros x; destruct x; reflexivity|exact H]|].
    unfold TVb, TV in *. cbn [root withRoot setLP]. destruct (lastBlock (root p)) as [c|] eqn:El; [|rewrite (updAt_S_none d _ _ El); exact H].
    rewrite (lastBlock_kids _ _ El) in H. apply (TVb_sameL b (removelast (bkids (root p))) c (updAt d (fun x => set_bik x (g x)) c) _); [| |apply (kids_updAt_S d _ _ c El)|exact H].
    - destruct d as [|d]; [|apply sameR_updAt_deep]. cbn [updAt].
      assert (Ek : bkind c = K). { apply Hc. rewrite Ed. cbn [getAt]. rewrite El. reflexivity. }
      unfold sameR. destruct c; cbn [set_bik bstart bend bkind bik] in *. subst K. rewrite Hk. repeat split; auto; discriminate.
    - destruct d as [|d]; [destruct c; reflexivity|]. cbn [updAt]. destruct (lastBlock c); [destruct c; reflexivity|reflexivity].
  Qed.

  (* closing the last child of a block below the root *)
  Lemma TVb_closeAt_deep b p d e : TVb b p -> TVb b (closeLastChildAt p (S d) e).
  Proof.
    intros H. unfold closeLastChildAt. apply TVb_updAt_deep; [|exact H]. intros x. destruct (lastBlock x); [split; [apply sameR_set_lastBlocks|destruct x; reflexivity]|split; [apply sameR_refl|reflexivity]].
  Qed.

  (* closing the last child of the root *)
  Lemma TVb_closeAt0 b p e : source p = src -> ls <= e -> 0 <= e -> TVb b p ->
    TVb b (closeLastChildAt p O e) /\ (forall c, top (closeLastChildAt p O e) = Some c -> 0 <= bend c) /\
    (bkids (root p) <> [] -> TVb true (closeLastChildAt p O e)).
  Proof.
    intros Hs Hle H0 H. unfold closeLastChildAt, top. cbn [root withRoot setLP updAt]. rewrite Hs.
    destruct (lastBlock (root p)) as [c|] eqn:El.
    2:{ split; [exact H|]. rewrite lastL_lastBlock, El. split; [discriminate|]. intros N. exfalso. apply N. rewrite <- lastL_lastBlock in El. apply lastL_none, El. }
    pose proof (lastBlock_kids _ _ El) as Ek. destruct H as [HT HN]. unfold TV in HT. rewrite Ek in HT.
    set (L := closeBlock (bheight (root p)) src c e).
    assert (Ekids : bkids (set_lastBlocks (root p) L) = removelast (bkids (root p)) ++ L) by (unfold set_lastBlocks; apply GramTree.bkids_set_bkids).
    destruct (Z.ltb_spec (bend c) 0) as [Lo|Lo].
    - assert (HR : RES src ls c L).
      { unfold L. destruct (bheight_S (root p)) as (n & En). rewrite En. apply (G_closeBlock src ls s0 ik0 HG0 HR0 e n c Hle H0 Lo).
        intros Hp. destruct HT as (_ & _ & _ & _ & Hid & _). destruct (Hid c (lastL_snoc _ c) Lo Hp) as [[(I1 & I2 & _)|(I1 & _)] I3]; (split; [|exact I3]); [left; split; assumption|right; exact I1]. }
      pose proof (TVl_close src ls s0 ik0 ne0 _ c L HR HT) as HT'. destruct HR as (R1 & R2 & _).
      assert (Hcl : forall x, lastL (removelast (bkids (root p)) ++ L) = Some x -> 0 <= bend x).
      { intros x Hx. rewrite lastL_app in Hx by exact R1. apply R2, lastL_In, Hx. }
      assert (HNU : NUl (removelast (bkids (root p)) ++ L)).
      { split; [intros N; apply app_eq_nil in N; destruct N as [_ N]; contradiction|]. intros x Hx Ho. specialize (Hcl x Hx). lia. }
      unfold TVb, TV. cbn [root withRoot setLP]. rewrite Ekids. split; [split; [exact HT'|intros _; exact HNU]|]. split; [exact Hcl|]. intros _. split; [exact HT'|intros _; exact HNU].
    - assert (EL : L = [c]) by (apply closeBlock_closed; exact Lo). clearbody L. subst L. rewrite <- Ek in Ekids.
      unfold TVb, TV. cbn [root withRoot setLP]. rewrite Ekids. rewrite <- Ek in HT.
      assert (HNU : NUl (bkids (root p))).
      { split; [rewrite Ek; destruct (removelast (bkids (root p))); discriminate|]. intros x Hx Ho. rewrite lastL_lastBlock, El in Hx. inversion Hx; subst x. lia. }
      split; [split; assumption|]. split; [intros x Hx; rewrite lastL_lastBlock, El in Hx; inversion Hx; subst x; exact Lo|]. intros _. split; [exact HT|intros _; exact HNU].
  Qed.
  Lemma TVb_closeAt b p d e : source p = src -> ls <= e -> 0 <= e -> TVb b p -> TVb b (closeLastChildAt p d e).
  Proof. intros A B C H. destruct d as [|d]; [apply (TVb_closeAt0 b p e A B C H)|apply TVb_closeAt_deep, H]. Qed.

  (* a new child of the root *)
  Lemma TVb_append0 b p nb : cdepth p = O -> (forall c, top p = Some c -> 0 <= bend c) -> CLEAN p -> 0 <= li p -> bstart nb = ls + li p -> bend nb < 0 ->
    (isPSb (bkind nb) = true -> bik nb = [] /\ bkind nb <> SetextHeadingKind) -> TVb b p ->
    TV (updCont p (fun x => set_bkids x (bkids x ++ [nb]))) /\ (isPSb (bkind nb) = false -> TVb true (updCont p (fun x => set_bkids x (bkids x ++ [nb])))).
  Proof.
    intros Ed Hc Hcl Hli Es Eo Hps [HT _]. unfold updCont, TVb, TV in *. rewrite Ed. cbn [root withRoot setLP updAt]. rewrite GramTree.bkids_set_bkids.
    pose proof (TVl_append src ls s0 ik0 ne0 _ nb (ls + li p) Hc Hcl ltac:(lia) Es Eo Hps HT) as HT'. split; [exact HT'|]. intros Hk. split; [exact HT'|]. intros _.
    split; [destruct (bkids (root p)); discriminate|]. intros x Hx _ Hp. rewrite lastL_snoc in Hx. inversion Hx; subst x. congruence.
  Qed.

  Ltac sev :=
    repeat match goal with
    | |- EVp (advance _ _) => eapply EVp_cs2; [apply cs2_advance|]
    | |- EVp (consumeLine _) => eapply EVp_cs2; [apply cs2_consumeLine|]
    | |- EVp (consumeIndent _ _) => eapply EVp_cs2; [apply cs2_consumeIndent|]
    | |- EVp (updCont _ _) => eapply EVp_cs2; [apply cs2_updCont|]
    | |- EVp (withCont _ _) => eapply EVp_cs2; [apply cs2_withCont|]
    | |- EVp (withState _ _) => eapply EVp_cs2; [apply cs2_withState|]
    | |- EVp (withRoot _ _) => eapply EVp_cs2; [apply cs2_withRoot|]
    | |- EVp (closeLastChildAt _ _ _) => eapply EVp_cs2; [apply cs2_closeLastChildAt|]
    | |- EVp (openBlock_up _ _ _) => eapply EVp_cs2; [apply cs2_openBlock_up|]
    | |- EVp (openBlock _ _) => eapply EVp_cs2; [apply cs2_openBlock|]
    | |- EVp (endBlock _) => eapply EVp_cs2; [apply cs2_endBlock|]
    | |- EVp (collectInline _ _ _) => eapply EVp_cs2; [apply cs2_collectInline|]
    | |- EVp (if state ?p =? stOpening then withState ?p stOpenMatched else ?p) => eapply EVp_cs2; [apply cs2_opened|]
    end;
    try assumption.

  Lemma EVp_pos p : EVp p -> source p = src /\ lineStart p = ls /\ 0 <= ls /\ ls <= ls + li p.
  Proof. intros (A & B & _ & D & E). repeat split; try assumption; lia. Qed.

  (* paragraphs and headings have no block children *)
  Lemma PS_nokids K k : isPSb K = true -> canContain K k = false.
  Proof. unfold isPSb. intros H. apply orb_true_iff in H. destruct H as [H|H]; apply Z.eqb_eq in H; subst K; reflexivity. Qed.
  Lemma NUl_kid r c0 y : cc r = true -> lastBlock r = Some c0 -> lastBlock c0 = Some y -> NUl (bkids r).
  Proof.
    intros Hcc El0 Ely. split; [intros N; unfold lastBlock in El0; rewrite N in El0; discriminate|].
    intros c' Hc' _ Hp. rewrite lastL_lastBlock, El0 in Hc'. inversion Hc'; subst c'.
    destruct (cc_lastBlock _ _ Hcc El0) as [Cc _]. destruct (cc_lastBlock _ _ Cc Ely) as [_ Hcan]. rewrite (PS_nokids _ _ Hp) in Hcan. discriminate.
  Qed.
  Lemma NUl_deep p : ccP p -> (2 <= cdepth p)%nat -> NUl (bkids (root p)).
  Proof.
    intros (_ & Hcc & (x & Hx)) Hd. destruct (getAt2_of_deep p (cdepth p) x Hd Hx) as (y & Hy). destruct (getAt2_top p y Hy) as (c & Hc & Hl).
    split; [intros N; unfold top in Hc; rewrite N in Hc; discriminate|]. intros c' Hc' _ Hp. unfold top in Hc. rewrite Hc in Hc'. inversion Hc'; subst c'.
    assert (Hcl : lastBlock (root p) = Some c) by (rewrite <- lastL_lastBlock; exact Hc).
    destruct (cc_lastBlock _ _ Hcc Hcl) as [Cc _]. destruct (cc_lastBlock _ _ Cc Hl) as [_ Hcan]. rewrite (PS_nokids _ _ Hp) in Hcan. discriminate.
  Qed.

  Lemma TVb_openBlock_up : forall fuel b p K, EVp p -> TVb b p -> TVb b (openBlock_up fuel p K).
  Proof.
    induction fuel as [|f IH]; intros b p K HE H; [exact H|]. cbn [openBlock_up].
    destruct (canContain _ _); [exact H|]. destruct (cdepth p) as [|d]; [exact H|].
    destruct (EVp_pos p HE) as (A & B & C & _). rewrite B.
    apply IH; [sev|]. apply (TVb_root b (closeLastChildAt p d ls)); [reflexivity|]. apply TVb_closeAt; try assumption; lia.
  Qed.

  Lemma TVb_openBlock b p K : K <> SetextHeadingKind -> EVp p -> TVb b p ->
    (cdepth (openBlock_up (S (cdepth (if state p =? stOpening then withState p stOpenMatched else p))) (if state p =? stOpening then withState p stOpenMatched else p) K) = O -> CLEAN p) ->
    TVb false (openBlock p K) /\ (isPSb K = false -> L2Kind2.st_open p -> ccP (openBlock p K) -> TVb true (openBlock p K)).
  Proof.
    intros HK HE H Hcl. unfold openBlock.
    destruct ((state p =? stDescending) || (state p =? stDescendTerminated)) eqn:Est.
    { split; [apply TVb_weak in H; exact H|]. intros _ [E|E]; rewrite E in Est; discriminate. }
    cbv zeta. set (q0 := if state p =? stOpening then withState p stOpenMatched else p) in *.
    assert (E0 : EVp q0) by (unfold q0; sev). assert (H0 : TVb b q0) by (apply (TVb_root b p); [unfold q0; destruct (_ =? _); reflexivity|exact H]).
    assert (L0 : li q0 = li p) by (unfold q0; destruct (_ =? _); reflexivity).
    set (q1 := openBlock_up (S (cdepth q0)) q0 K) in *.
    assert (E1 : EVp q1) by (unfold q1; sev). assert (H1 : TVb b q1) by (apply TVb_openBlock_up; assumption).
    assert (L1 : li q1 = li p) by (unfold q1; rewrite sf_openBlock_up; exact L0).
    destruct (EVp_pos q1 E1) as (A & B & C & _).
    change (lineStart (closeLastChildAt q1 (cdepth q1) (lineStart q1))) with (lineStart q1).
    change (li (closeLastChildAt q1 (cdepth q1) (lineStart q1))) with (li q1). rewrite B.
    set (nb := newBlock K (ls + li q1)).
    destruct (cdepth q1) as [|d] eqn:Ed.
    - destruct (TVb_closeAt0 b q1 ls A ltac:(lia) C H1) as (H2 & Hc2 & _).
      destruct (TVb_append0 b (closeLastChildAt q1 O ls) nb Ed Hc2) as [T1 T2]; try exact H2.
      + unfold CLEAN. change (li (closeLastChildAt q1 O ls)) with (li q1). rewrite L1. apply Hcl. reflexivity.
      + change (li (closeLastChildAt q1 O ls)) with (li q1). destruct E1 as (_ & _ & _ & _ & E1). lia.
      + reflexivity.
      + unfold nb, newBlock. cbn. lia.
      + intros _. split; [reflexivity|exact HK].
      + split; [split; [exact T1|discriminate]|]. intros Hk _ _. apply (TVb_root true (updCont (closeLastChildAt q1 O ls) (fun x => set_bkids x (bkids x ++ [nb])))); [reflexivity|].
        apply T2. exact Hk.
    - assert (H2 : TVb b (closeLastChildAt q1 (S d) ls)) by (apply TVb_closeAt_deep, H1).
      assert (H3 : TVb b (updCont (closeLastChildAt q1 (S d) ls) (fun x => set_bkids x (bkids x ++ [nb])))).
      { unfold updCont. change (cdepth (closeLastChildAt q1 (S d) ls)) with (cdepth q1). rewrite Ed. apply TVb_updAt_deep; [|exact H2].
        intros x. split; [apply sameR_kind; destruct x; reflexivity|destruct x; reflexivity]. }
      split; [apply TVb_weak in H3; apply (TVb_root false _ _ eq_refl H3)|].
      intros _ _ Hcc. destruct H3 as [T3 _]. split; [exact T3|]. intros _.
      destruct d as [|d].
      + (* the new block is a child of the last root child *)
        pose proof Hcc as (_ & Hccr & (x & Hx)). cbn [cdepth container withCont setLP] in Hx.
        change (getAt 2 ?r) with (match lastBlock r with Some c0 => getAt 1 c0 | None => None end) in Hx.
        match type of Hx with match lastBlock ?r with _ => _ end = _ => destruct (lastBlock r) as [c0|] eqn:El0; [|discriminate] end.
        cbn [getAt] in Hx. destruct (lastBlock c0) as [y|] eqn:Ely; [|discriminate].
        exact (NUl_kid _ c0 y Hccr El0 Ely).
      + apply (NUl_deep _ Hcc). cbn [cdepth container withCont setLP]. lia.
  Qed.

  Lemma TVb_endBlock b p : EVp p -> TVb b p -> TVb b (endBlock p).
  Proof.
    intros HE H. unfold endBlock. destruct (_ || _); [exact H|]. cbv zeta.
    set (q := if state p =? stOpening then withState p stOpenMatched else p).
    assert (Eq : EVp q) by (unfold q; sev). assert (Hq : TVb b q) by (apply (TVb_root b p); [unfold q; destruct (_ =? _); reflexivity|exact H]).
    destruct (cdepth q) as [|d]; [exact Hq|]. destruct (EVp_pos q Eq) as (A & B & C & D). rewrite B.
    apply (TVb_root b (closeLastChildAt q d (ls + li q))); [reflexivity|]. apply TVb_closeAt; try assumption; lia.
  Qed.
  (* closing the container when it is a root child: afterwards the last root child is closed *)
  Lemma TVb_endBlock1 b p : EVp p -> ccP p -> TVb b p -> L2Kind2.st_open p -> (1 <= cdepth p)%nat -> TVb true (endBlock p).
  Proof.
    intros HE Hcc H Hs Hd. unfold endBlock.
    replace ((state p =? stDescending) || (state p =? stDescendTerminated)) with false by (destruct Hs as [-> | ->]; reflexivity). cbv zeta.
    set (q := if state p =? stOpening then withState p stOpenMatched else p).
    assert (Eq : EVp q) by (unfold q; sev). assert (Hq : TVb b q) by (apply (TVb_root b p); [unfold q; destruct (_ =? _); reflexivity|exact H]).
    assert (Ecd : cdepth q = cdepth p) by (unfold q; destruct (_ =? _); reflexivity).
    assert (Er : root q = root p) by (unfold q; destruct (_ =? _); reflexivity).
    destruct (cdepth q) as [|d] eqn:Ed; [lia|]. destruct (EVp_pos q Eq) as (A & B & C & D). rewrite B.
    apply (TVb_root true (closeLastChildAt q d (ls + li q))); [reflexivity|].
    destruct d as [|d].
    - destruct (TVb_closeAt0 b q (ls + li q) A ltac:(lia) ltac:(lia) Hq) as (_ & _ & H3). apply H3.
      destruct Hcc as (_ & _ & (x & Hx)). rewrite <- Ecd in Hx. cbn [getAt] in Hx. rewrite <- Er in Hx. intros N. unfold lastBlock in Hx. rewrite N in Hx. discriminate.
    - apply TVb_closeAt_deep. destruct Hq as [T _]. split; [exact T|]. intros _. rewrite Er. apply (NUl_deep p Hcc). lia.
  Qed.

  Lemma TVb_collectInline b p kind n K : ckind p K -> isPSb K = false -> TVb b p -> TVb b (collectInline p kind n).
  Proof.
    intros Hc Hk H. unfold collectInline. destruct (_ =? stDescendTerminated); [exact H|]. cbv zeta.
    set (p0 := if state p =? stOpening then withState p stOpenMatched else p).
    assert (H0 : TVb b p0) by (apply (TVb_root b p); [unfold p0; destruct (_ =? _); reflexivity|exact H]).
    assert (C0' : ckind p0 K) by (eapply L2Kind2.ckind_same; [apply L2Kind2.same_opened|exact Hc]).
    set (p1 := if 0 <? indent p0 then _ else p0).
    assert (H1 : TVb b p1 /\ ckind p1 K).
    { unfold p1. destruct (0 <? indent p0); [|tauto]. split.
      - apply (TVb_set_bik b (advance p0 _) (fun x => bik x ++ [_]) K); [eapply L2Kind2.ckind_same; [apply L2Kind2.same_advance|exact C0']|exact Hk|].
        apply (TVb_root b p0); [apply (L2Kind2.same_advance p0 _)|exact H0].
      - apply L2Kind2.ckind_updCont; [intros x; apply L2Kind2.bkind_set_bik|]. eapply L2Kind2.ckind_same; [apply L2Kind2.same_advance|exact C0']. }
    destruct H1 as [H1 C1].
    apply (TVb_set_bik b (advance p1 n) (fun x => bik x ++ [_]) K); [eapply L2Kind2.ckind_same; [apply L2Kind2.same_advance|exact C1]|exact Hk|].
    apply (TVb_root b p1); [apply (L2Kind2.same_advance p1 n)|exact H1].
  Qed.

  (* ---- the cursor ---- *)
  Definition lowK (p : lp) : Prop :=
    cdepth p = O \/ (cdepth p = 1%nat /\ containerKind p <> BlockQuoteKind /\ containerKind p <> ListItemKind).
  Definition CL (p : lp) : Prop := lowK p -> CLEAN p.
  Lemma lowK_same p p' : L2Kind2.same_tree p p' -> lowK p' -> lowK p.
  Proof.
    intros Hs. pose proof (L2Kind2.containerKind_same _ _ Hs) as Ek. destruct Hs as [E1 E2]. unfold lowK, cdepth. rewrite E2, Ek. tauto.
  Qed.
  Lemma CL_same p p' : L2Kind2.same_tree p p' -> li p' = li p -> CL p -> CL p'.
  Proof. intros Hs El H Hl. apply (CLEAN_same p p' El). apply H. eapply lowK_same; eassumption. Qed.
  Lemma CL_consumeIndent p n : EVp p -> CL p -> CL (consumeIndent p n).
  Proof. intros HE H Hl. apply CLEAN_consumeIndent; [exact HE|]. apply H. eapply lowK_same; [apply L2Kind2.same_consumeIndent|exact Hl]. Qed.

  Lemma reject_kind Kc K : canContain Kc K = false -> K <> ListItemKind -> Kc <> documentKind /\ Kc <> ListItemKind /\ Kc <> BlockQuoteKind.
  Proof.
    intros H HK. assert (Hn : negb (K =? ListItemKind) = true) by (apply negb_true_iff, Z.eqb_neq; exact HK).
    repeat split; intros ->; cbn in H; rewrite Hn in H; discriminate.
  Qed.
  Lemma accept_kinds Kp Kc : canContain Kp Kc = true -> Kp = documentKind \/ Kp = ListKind \/ Kp = ListItemKind \/ Kp = BlockQuoteKind.
  Proof.
    unfold canContain. destruct (Z.eqb_spec Kp documentKind); [tauto|]. destruct (Z.eqb_spec Kp ListKind); [tauto|].
    destruct (Z.eqb_spec Kp ListItemKind); [tauto|]. destruct (Z.eqb_spec Kp BlockQuoteKind); [tauto|discriminate].
  Qed.
  Lemma containerKind_closeUp p d e y : getAt d (root p) = Some y -> containerKind (withCont (closeLastChildAt p d e) (Some d)) = bkind y.
  Proof.
    intros Hy. rewrite (containerKind_at _ (closeF p e y)); [apply closeF_kind|].
    cbn [cdepth container withCont setLP root closeLastChildAt withRoot]. fold (closeF p e). rewrite getAt_closeAt, Hy. reflexivity.
  Qed.
  (* a container at depth >= 2 that cannot contain K has a parent that can: openBlock_up stops there *)
  Lemma up_deep : forall fuel p K, ccP p -> K <> ListItemKind -> (2 <= cdepth p)%nat -> (1 <= cdepth (openBlock_up fuel p K))%nat.
  Proof.
    intros fuel p K Hcc HK Hd. destruct fuel as [|f]; [cbn; lia|]. cbn [openBlock_up].
    destruct (canContain (containerKind p) K) eqn:Ec; [lia|]. destruct (cdepth p) as [|d] eqn:Ed; [lia|].
    destruct Hcc as (_ & Hc & (x & Hx)). rewrite Ed in Hx. destruct (getAt_prefix _ _ _ Hx) as (y & Hy).
    pose proof (cc_spine d (root p) y x Hc Hy Hx) as Hyx.
    assert (Ekx : containerKind p = bkind x) by (apply containerKind_at; rewrite Ed; exact Hx).
    destruct (reject_kind _ _ Ec HK) as (N1 & N2 & N3). rewrite Ekx in N2.
    assert (Hacc : canContain (bkind y) K = true).
    { destruct (accept_kinds _ _ Hyx) as [E|[E|[E|E]]]; rewrite E in *; cbn; try (apply negb_true_iff, Z.eqb_neq; exact HK).
      cbn in Hyx. apply Z.eqb_eq in Hyx. contradiction. }
    set (p1 := withCont (closeLastChildAt p d (lineStart p)) (Some d)).
    assert (Ek1 : containerKind p1 = bkind y) by (apply containerKind_closeUp; exact Hy).
    destruct f as [|f]; [unfold p1; cbn [openBlock_up cdepth container withCont setLP]; lia|]. cbn [openBlock_up]. rewrite Ek1, Hacc. unfold p1. cbn [cdepth container withCont setLP]. lia.
  Qed.
  Lemma up_root fuel p K : ccP p -> K <> ListItemKind -> cdepth (openBlock_up fuel p K) = O -> lowK p.
  Proof.
    intros Hcc HK H. destruct (cdepth p) as [|[|d]] eqn:Ed; [left; exact Ed| |pose proof (up_deep fuel p K Hcc HK ltac:(lia)); lia].
    right. split; [exact Ed|]. destruct fuel as [|f]; [cbn in H; lia|]. cbn [openBlock_up] in H.
    destruct (canContain (containerKind p) K) eqn:Ec; [lia|]. destruct (reject_kind _ _ Ec HK) as (_ & N2 & N3). tauto.
  Qed.
  Lemma up_id f p K : canContain (containerKind p) K = true -> openBlock_up (S f) p K = p.
  Proof. intros H. cbn [openBlock_up]. rewrite H. reflexivity. Qed.

  (* the container after a successful openBlock *)
  Lemma cdepth_openBlock p K : L2Kind2.st_open p ->
    cdepth (openBlock p K) = S (cdepth (openBlock_up (S (cdepth (if state p =? stOpening then withState p stOpenMatched else p))) (if state p =? stOpening then withState p stOpenMatched else p) K)).
  Proof.
    intros Hs. unfold openBlock. replace ((state p =? stDescending) || (state p =? stDescendTerminated)) with false by (destruct Hs as [-> | ->]; reflexivity).
    reflexivity.
  Qed.
  Lemma ckind_containerKind p K : ccP p -> ckind p K -> containerKind p = K.
  Proof. intros (_ & _ & (x & Hx)) Hc. rewrite (containerKind_at p x Hx). apply Hc, Hx. Qed.
  Lemma depth_pos_kind p : ccP p -> containerKind p <> documentKind -> (1 <= cdepth p)%nat.
  Proof. intros (A & _) N. destruct (cdepth p) eqn:E; [|lia]. exfalso. apply N. rewrite (containerKind_root p E). exact A. Qed.
  Lemma not_lowK_kind p : ccP p -> containerKind p = BlockQuoteKind \/ containerKind p = ListItemKind -> ~ lowK p.
  Proof.
    intros Hcc Hk [E|(E & N1 & N2)]; [|tauto]. pose proof (depth_pos_kind p Hcc ltac:(destruct Hk as [-> | ->]; discriminate)). lia.
  Qed.

  (* ---- match rules ---- *)
  Lemma TVb_matchRule b p : TVb b p -> TVb b (snd (matchRule p)).
  Proof.
    intros H. destruct (matchRule_cases p) as [Hc|[Ek Eq]]; [apply (TVb_root b p); [apply Hc|exact H]|]. rewrite Eq.
    apply (TVb_root b (collectInline p RawHTMLKind (len (bytesAfterIndent p)))); [apply (L2Kind2.same_consumeLine _)|].
    apply (TVb_collectInline b p _ _ HTMLBlockKind); [rewrite <- Ek; apply L2Kind2.ckind_self|reflexivity|exact H].
  Qed.
  Lemma EVp_matchRule p : EVp p -> EVp (snd (matchRule p)).
  Proof.
    intros H. destruct (matchRule_cases p) as [Hc|[Ek Eq]]; [eapply EVp_cs2; [apply cs2_cstep, Hc|exact H]|]. rewrite Eq. sev.
  Qed.
  (* a match rule that fails leaves the state alone, unless it ended the line *)
  Lemma matchRule_false q : state q = stDescending -> fst (matchRule q) = false ->
    state (snd (matchRule q)) = stDescendTerminated \/ snd (matchRule q) = q.
  Proof.
    intros Es. unfold matchRule. cbv zeta.
    destruct (_ || _); [cbn; discriminate|].
    destruct (_ =? ListItemKind).
    { unfold matchListItem. destruct (isRestBlank q); [destruct (negb _); cbn; [right; reflexivity|discriminate]|].
      destruct (_ <=? _); cbn; [discriminate|right; reflexivity]. }
    destruct (_ =? BlockQuoteKind).
    { unfold matchBlockQuote. cbv zeta. destruct (_ <=? _); [right; reflexivity|]. destruct (negb _); [right; reflexivity|cbn; discriminate]. }
    destruct (_ =? FencedCodeBlockKind).
    { unfold matchFenced. cbv zeta. destruct (if _ <? _ then _ else false); cbn [fst snd]; [intros _; left; apply state_consumeLine_desc, Es|discriminate]. }
    destruct (_ =? IndentedCodeBlockKind).
    { unfold matchIndented. cbv zeta. destruct (_ <? _); [destruct (negb _)|]; cbn [fst snd]; try discriminate. right. reflexivity. }
    destruct (_ =? HTMLBlockKind).
    { unfold matchHTML. destruct (htmlEnd _ _); [|cbn; discriminate]. destruct (isRestBlank _); [right; reflexivity|]. cbn [fst snd]. intros _. left.
      apply state_consumeLine_desc. destruct (sstep_collectInline q RawHTMLKind (len (bytesAfterIndent q))) as [Hs|[Hs _]]; [congruence|rewrite Es in Hs; discriminate]. }
    cbn [fst snd]. right. reflexivity.
  Qed.
  (* a match rule of a container other than a block quote / list item only consumes spaces and tabs, unless it ends the line *)
  Lemma matchRule_clean q : state q = stDescending -> EVp q -> containerKind q <> BlockQuoteKind -> containerKind q <> ListItemKind -> CLEAN q ->
    state (snd (matchRule q)) = stDescendTerminated \/ CLEAN (snd (matchRule q)).
  Proof.
    intros Es HE N1 N2 HC. unfold matchRule. cbv zeta.
    destruct (_ || _); [right; exact HC|].
    destruct (Z.eqb_spec (containerKind q) ListItemKind); [contradiction|]. destruct (Z.eqb_spec (containerKind q) BlockQuoteKind); [contradiction|].
    destruct (_ =? FencedCodeBlockKind).
    { unfold matchFenced. cbv zeta. destruct (if _ <? _ then _ else false); cbn [snd]; [left; apply state_consumeLine_desc, Es|right; apply CLEAN_consumeIndent; assumption]. }
    destruct (_ =? IndentedCodeBlockKind).
    { right. unfold matchIndented. cbv zeta. destruct (_ <? _); [destruct (negb _)|]; cbn [snd]; try exact HC; apply CLEAN_consumeIndent; assumption. }
    destruct (_ =? HTMLBlockKind).
    { unfold matchHTML. destruct (htmlEnd _ _); [|right; exact HC]. destruct (isRestBlank _); [right; exact HC|]. cbn [snd]. left.
      apply state_consumeLine_desc. destruct (sstep_collectInline q RawHTMLKind (len (bytesAfterIndent q))) as [Hs|[Hs _]]; [congruence|rewrite Es in Hs; discriminate]. }
    right. exact HC.
  Qed.
  Lemma matchRule_true_same q : fst (matchRule q) = true -> L2Kind2.same_tree q (snd (matchRule q)).
  Proof.
    unfold matchRule. cbv zeta.
    destruct (_ || _); [intros _; apply L2Kind2.same_refl|].
    destruct (_ =? ListItemKind).
    { unfold matchListItem. destruct (isRestBlank q); [destruct (negb _); cbn [fst snd]; [discriminate|intros _; apply L2Kind2.same_consumeIndent]|].
      destruct (_ <=? _); cbn [fst snd]; [intros _; apply L2Kind2.same_consumeIndent|discriminate]. }
    destruct (_ =? BlockQuoteKind).
    { unfold matchBlockQuote. cbv zeta. destruct (_ <=? _); [cbn; discriminate|]. destruct (negb _); [cbn; discriminate|]. cbn [fst snd]. intros _.
      unfold eatQuoteMarker. cbv zeta.
      assert (H : L2Kind2.same_tree q (advance (consumeIndent q (indent q)) 1)) by (eapply L2Kind2.same_trans; [apply L2Kind2.same_consumeIndent|apply L2Kind2.same_advance]).
      destruct (0 <? _); [eapply L2Kind2.same_trans; [exact H|apply L2Kind2.same_consumeIndent]|exact H]. }
    destruct (_ =? FencedCodeBlockKind).
    { unfold matchFenced. cbv zeta. destruct (if _ <? _ then _ else false); cbn [fst snd]; [discriminate|intros _; apply L2Kind2.same_consumeIndent]. }
    destruct (_ =? IndentedCodeBlockKind).
    { unfold matchIndented. cbv zeta. destruct (_ <? _); [destruct (negb _)|]; cbn [fst snd]; try discriminate; intros _; apply L2Kind2.same_consumeIndent. }
    destruct (_ =? HTMLBlockKind).
    { unfold matchHTML. destruct (htmlEnd _ _); [destruct (isRestBlank _); cbn; discriminate|]. cbn [fst snd]. intros _. apply L2Kind2.same_refl. }
    cbn [fst snd]. intros _. apply L2Kind2.same_refl.
  Qed.

  (* ---- descendOpenBlocks ---- *)
  Lemma lowK_withCont p d : cdepth p = d -> lowK (withCont p (Some d)) -> lowK p.
  Proof. intros E. unfold lowK, containerKind, contBlock, cdepth. cbn [container root withCont setLP]. unfold cdepth in E. rewrite E. tauto. Qed.
  Lemma container_collectInline p k n : container (collectInline p k n) = container p.
  Proof.
    unfold collectInline. destruct (_ =? stDescendTerminated); [reflexivity|]. cbv zeta.
    assert (Ha : forall q m, container (advance q m) = container q) by (intros q m; destruct (L2Kind2.same_advance q m) as [_ E]; exact E).
    set (p0 := if state p =? stOpening then withState p stOpenMatched else p). assert (E0 : container p0 = container p) by (unfold p0; destruct (_ =? _); reflexivity).
    cbn [container updCont withRoot setLP]. rewrite Ha. destruct (0 <? indent p0); [cbn [container updCont withRoot setLP]; rewrite Ha; exact E0|exact E0].
  Qed.
  Lemma cdepth_matchRule q : cdepth (snd (matchRule q)) = cdepth q.
  Proof.
    destruct (matchRule_cases q) as [Hc|[Ek Eq]]; [destruct Hc as ((_ & E2) & _); unfold cdepth; rewrite E2; reflexivity|]. rewrite Eq. unfold cdepth.
    destruct (L2Kind2.same_consumeLine (collectInline q RawHTMLKind (len (bytesAfterIndent q)))) as [_ E]. rewrite E, container_collectInline. reflexivity.
  Qed.

  Lemma D_descend : forall fuel b p d, ccP p -> EVp p -> TVb b p -> cdepth p = d -> CL p -> (state p = stDescendTerminated -> b = true) ->
    let r := snd (descend_loop fuel p d) in
    TVb b r /\ EVp r /\ (state r = stDescendTerminated -> TVb true r) /\ (state r <> stDescendTerminated -> CL r).
  Proof.
    induction fuel as [|f IH]; intros b p d Hcc HE H Ed HCL Hst; cbv zeta.
    assert (Hstay : forall q, root q = root p -> li q = li p -> (state q = stDescendTerminated -> state p = stDescendTerminated) -> cdepth q = d -> containerKind q = containerKind p -> EVp q ->
              TVb b q /\ EVp q /\ (state q = stDescendTerminated -> TVb true q) /\ (state q <> stDescendTerminated -> CL q)).
    { intros q Er El Es Ec Ek Eq. assert (Hq : TVb b q) by (apply (TVb_root b p); assumption). split; [exact Hq|]. split; [exact Eq|]. split.
      - intros E. rewrite (Hst (Es E)) in Hq. exact Hq.
      - intros _ Hl. apply (CLEAN_same p q El). apply HCL. unfold lowK in *. rewrite Ec, Ek in Hl. rewrite Ed. exact Hl. }
    { cbn [descend_loop snd]. apply Hstay; try reflexivity; [exact (fun E => E)| |sev]. unfold containerKind, contBlock, cdepth in *. cbn [container root withCont setLP]. rewrite Ed. reflexivity. }
    assert (Hstay : forall q, root q = root p -> li q = li p -> (state q = stDescendTerminated -> state p = stDescendTerminated) -> cdepth q = d -> containerKind q = containerKind p -> EVp q ->
              TVb b q /\ EVp q /\ (state q = stDescendTerminated -> TVb true q) /\ (state q <> stDescendTerminated -> CL q)).
    { intros q Er El Es Ec Ek Eq. assert (Hq : TVb b q) by (apply (TVb_root b p); assumption). split; [exact Hq|]. split; [exact Eq|]. split.
      - intros E. rewrite (Hst (Es E)) in Hq. exact Hq.
      - intros _ Hl. apply (CLEAN_same p q El). apply HCL. unfold lowK in *. rewrite Ec, Ek in Hl. rewrite Ed. exact Hl. }
    assert (Hck : forall q, root q = root p -> cdepth q = d -> containerKind q = containerKind p).
    { intros q Er Ec. unfold containerKind, contBlock. rewrite Er, Ec, Ed. reflexivity. }
    cbn [descend_loop]. cbv zeta.
    destruct (getAt (S d) (root p)) as [c|] eqn:Ec; [|cbn [snd]; apply Hstay; try reflexivity; [exact (fun E => E)|apply Hck; reflexivity|sev]].
    destruct (negb (isOpen c)); [cbn [snd]; apply Hstay; try reflexivity; [exact (fun E => E)|apply Hck; reflexivity|sev]|].
    destruct (negb (hasMatch (bkind c))); [cbn [snd]; apply Hstay; try reflexivity; [exact (fun E => E)|apply Hck; reflexivity|sev]|].
    set (q := withState (withCont p (Some (S d))) stDescending).
    assert (Cq : ccP q) by (apply (ccP_withCont p (S d) Hcc); eauto).
    assert (Eq : EVp q) by (unfold q; sev). assert (Hq : TVb b q) by (apply (TVb_root b p); [reflexivity|exact H]).
    assert (Sq : state q = stDescending) by reflexivity.
    pose proof (TVb_matchRule b q Hq) as H2. pose proof (EVp_matchRule q Eq) as E2. pose proof (ccP_matchRule q Cq) as C2.
    pose proof (cdepth_matchRule q) as D2. pose proof (matchRule_false q Sq) as MF. pose proof (matchRule_true_same q) as MT. pose proof (matchRule_clean q Sq Eq) as MC.
    destruct (matchRule q) as [ok p2]. cbn [fst snd] in *. change (cdepth q) with (S d) in D2.
    destruct (Z.eqb_spec (state p2) stDescendTerminated) as [Et|Nt].
    { cbn [snd]. destruct (EVp_pos p2 E2) as (A & B & C & D). rewrite B.
      assert (Ht : TVb true (closeLastChildAt p2 d (ls + li p2))).
      { destruct d as [|d].
        - destruct (TVb_closeAt0 b p2 (ls + li p2) A ltac:(lia) ltac:(lia) H2) as (_ & _ & H3). apply H3.
          destruct C2 as (_ & _ & (x & Hx)). rewrite D2 in Hx. cbn [getAt] in Hx. intros N. unfold lastBlock in Hx. rewrite N in Hx. discriminate.
        - apply TVb_closeAt_deep. destruct H2 as [T _]. split; [exact T|]. intros _. apply (NUl_deep p2 C2). lia. }
      split; [apply TVb_le, (TVb_root true _ _ eq_refl Ht)|]. split; [sev|]. split; [intros _; apply (TVb_root true _ _ eq_refl Ht)|].
      intros N. exfalso. apply N. exact Et. }
    destruct ok; cbn [negb].
    2:{ cbn [snd]. destruct (MF eq_refl) as [E|E]; [contradiction|]. subst p2.
        apply Hstay; try reflexivity; [intros E; discriminate E|apply Hck; reflexivity|sev]. }
    apply IH; try assumption.
    - intros Hl. destruct Hl as [E|(E & N1 & N2)]; [lia|]. assert (Hd0 : d = O) by lia. rewrite Hd0 in *.
      pose proof (L2Kind2.containerKind_same _ _ (MT eq_refl)) as Ek. rewrite Ek in N1, N2.
      destruct (MC N1 N2) as [X|X]; [|contradiction|exact X].
      apply (CLEAN_same p q eq_refl). apply HCL. left. exact Ed.
    - intros E. contradiction.
  Qed.

  (* ---- block starts ---- *)
  Ltac scc :=
    repeat match goal with
    | |- ccP (consumeLine _) => apply ccP_consumeLine
    | |- ccP (endBlock _) => apply ccP_endBlock
    | |- ccP (advance _ _) => apply ccP_advance
    | |- ccP (consumeIndent _ _) => apply ccP_consumeIndent
    | |- ccP (collectInline _ _ _) => apply ccP_collectInline
    | |- ccP (openBlock _ _) => apply ccP_openBlock; [|left; discriminate]
    | |- ccP (updCont _ _) => apply ccP_updCont; [|intros ? _ ?;
          rewrite ?cc_set_bn, ?cc_set_bchar, ?cc_set_bindent, ?bkind_set_bn, ?bkind_set_bchar, ?bkind_set_bindent; tauto]
    | |- ccP (if state ?p =? stOpening then withState ?p stOpenMatched else ?p) => apply ccP_opened
    end;
    try assumption.

  Definition SPost (b : bool) (p r : lp) : Prop := TVb b r /\ (state r = stLineConsumed \/ CL r) /\ (r = p \/ TVb true r).
  Lemma SPost_id b p : TVb b p -> CL p -> SPost b p p.
  Proof. intros H C. split; [exact H|]. split; [right; exact C|left; reflexivity]. Qed.
  Lemma SPost_true b p r : TVb true r -> (state r = stLineConsumed \/ CL r) -> SPost b p r.
  Proof. intros H C. split; [apply TVb_le, H|]. split; [exact C|right; exact H]. Qed.

  Lemma open_gen b p K : K <> SetextHeadingKind -> isPSb K = false -> ccP p -> ccP (openBlock p K) -> EVp p -> TVb b p -> L2Kind2.st_open p ->
    ((K <> ListItemKind /\ CL p) \/ (canContain (containerKind p) K = true /\ containerKind p <> documentKind)) -> TVb true (openBlock p K).
  Proof.
    intros HK Hps Hcc Hcc' HE H Hs Hor. destruct (TVb_openBlock b p K HK HE H) as [_ T]; [|apply T; assumption].
    set (q0 := if state p =? stOpening then withState p stOpenMatched else p).
    assert (Hs0 : L2Kind2.same_tree p q0) by apply L2Kind2.same_opened. assert (C0 : ccP q0) by (unfold q0; scc).
    intros Hd. destruct Hor as [[HL HC]|[Hcan Hnd]].
    - apply HC. apply (lowK_same p q0 Hs0). apply (up_root _ q0 K C0 HL Hd).
    - exfalso. rewrite <- (L2Kind2.containerKind_same _ _ Hs0) in Hcan, Hnd. rewrite (up_id _ q0 K Hcan) in Hd. pose proof (depth_pos_kind q0 C0 Hnd). lia.
  Qed.
  Lemma st_open_consumeLine p : L2Kind2.st_open p -> state (consumeLine p) = stLineConsumed.
  Proof.
    intros Hs. unfold consumeLine. cbv zeta. pose proof (L2Kind2.st_open_advance p (len (line p) - li p) Hs) as [E|E]; rewrite E; reflexivity.
  Qed.
  Lemma state_endBlock_lc p : state p = stLineConsumed -> state (endBlock p) = stLineConsumed.
  Proof.
    intros E. unfold endBlock. rewrite E. change ((stLineConsumed =? stDescending) || (stLineConsumed =? stDescendTerminated)) with false.
    change (stLineConsumed =? stOpening) with false. cbv iota zeta. destruct (cdepth p); exact E.
  Qed.
  Lemma st_open_collectInline p k n : L2Kind2.st_open p -> L2Kind2.st_open (collectInline p k n).
  Proof. intros H. destruct (sstep_collectInline p k n) as [E|[E1 E2]]; [destruct H as [H|H]; [left|right]; congruence|right; exact E2]. Qed.
  Lemma st_open_updCont p f : L2Kind2.st_open p -> L2Kind2.st_open (updCont p f). Proof. exact (fun H => H). Qed.

  Definition startOKr (f : lp -> lp) : Prop :=
    forall b p, ccP p -> EVp p -> TVb b p -> L2Kind2.st_open p -> CL p -> SPost b p (f p).

  Lemma sOKr_startBlockQuote : startOKr startBlockQuote.
  Proof.
    intros b p Hcc HE H Hs HC. unfold startBlockQuote. cbv zeta. destruct (_ <=? _); [apply SPost_id; assumption|]. destruct (negb _); [apply SPost_id; assumption|].
    set (q1 := consumeIndent p (indent p)).
    assert (A1 : ccP q1 /\ EVp q1 /\ TVb b q1 /\ L2Kind2.st_open q1 /\ CL q1).
    { unfold q1. split; [scc|]. split; [sev|]. split; [apply (TVb_root b p); [apply (L2Kind2.same_consumeIndent p _)|exact H]|]. split; [apply L2Kind2.st_open_consumeIndent, Hs|apply CL_consumeIndent; assumption]. }
    destruct A1 as (C1 & E1 & H1 & S1 & L1).
    set (q2 := openBlock q1 BlockQuoteKind). assert (C2 : ccP q2) by (unfold q2; scc).
    assert (H2 : TVb true q2) by (apply (open_gen b q1); try assumption; try discriminate; [reflexivity|left; split; [discriminate|exact L1]]).
    assert (K2 : ckind q2 BlockQuoteKind) by (apply L2Kind2.ckind_openBlock, S1).
    assert (Fin : forall r, L2Kind2.same_tree q2 r -> ccP r -> SPost b p r).
    { intros r Hsr Cr. apply SPost_true; [apply (TVb_root true q2); [apply Hsr|exact H2]|]. right. intros Hl. exfalso. apply (not_lowK_kind r Cr); [|exact Hl].
      left. apply ckind_containerKind; [exact Cr|]. eapply L2Kind2.ckind_same; eassumption. }
    fold q1. fold q2. destruct (0 <? _).
    - apply Fin; [eapply L2Kind2.same_trans; [apply L2Kind2.same_advance|apply L2Kind2.same_consumeIndent]|scc].
    - apply Fin; [apply L2Kind2.same_advance|scc].
  Qed.

  Lemma sOKr_startATX : startOKr startATX.
  Proof.
    intros b p Hcc HE H Hs HC. unfold startATX. cbv zeta. destruct (_ <=? _); [apply SPost_id; assumption|].
    destruct (parseATXHeading _) as [[level cs] ce]. destruct (level <? 1); [apply SPost_id; assumption|].
    set (q1 := consumeIndent p (indent p)).
    assert (A1 : ccP q1 /\ EVp q1 /\ TVb b q1 /\ L2Kind2.st_open q1 /\ CL q1).
    { unfold q1. split; [scc|]. split; [sev|]. split; [apply (TVb_root b p); [apply (L2Kind2.same_consumeIndent p _)|exact H]|]. split; [apply L2Kind2.st_open_consumeIndent, Hs|apply CL_consumeIndent; assumption]. }
    destruct A1 as (C1 & E1 & H1 & S1 & L1).
    set (q2 := openBlock q1 ATXHeadingKind). assert (C2 : ccP q2) by (unfold q2; scc).
    assert (H2 : TVb true q2) by (apply (open_gen b q1); try assumption; try discriminate; [reflexivity|left; split; [discriminate|exact L1]]).
    assert (S2 : L2Kind2.st_open q2) by (apply L2Kind2.st_open_openBlock, S1).
    assert (K2 : ckind q2 ATXHeadingKind) by (apply L2Kind2.ckind_openBlock, S1).
    set (q4 := advance (updCont q2 (fun x => set_bn x level)) cs).
    assert (H4 : TVb true q4) by (apply (TVb_root true (updCont q2 (fun x => set_bn x level))); [apply (L2Kind2.same_advance _ cs)|apply TVb_updCont_keep; [intros x; apply keep_bn|exact H2]]).
    assert (K4 : ckind q4 ATXHeadingKind).
    { eapply L2Kind2.ckind_same; [apply L2Kind2.same_advance|]. apply L2Kind2.ckind_updCont; [intros x; destruct x; reflexivity|exact K2]. }
    assert (S4 : L2Kind2.st_open q4) by (apply L2Kind2.st_open_advance, S2).
    set (q5 := collectInline q4 UnparsedKind (ce - cs)).
    assert (H5 : TVb true q5) by (apply (TVb_collectInline true q4 _ _ ATXHeadingKind); [exact K4|reflexivity|exact H4]).
    assert (S5 : L2Kind2.st_open q5) by (apply st_open_collectInline, S4).
    assert (E5 : EVp q5) by (unfold q5, q4, q2; sev).
    apply SPost_true.
    - apply TVb_endBlock; [sev|]. apply (TVb_root true q5); [apply (L2Kind2.same_consumeLine q5)|exact H5].
    - left. apply state_endBlock_lc, st_open_consumeLine, S5.
  Qed.

  Lemma prep b p n : ccP p -> EVp p -> TVb b p -> L2Kind2.st_open p -> CL p ->
    ccP (consumeIndent p n) /\ EVp (consumeIndent p n) /\ TVb b (consumeIndent p n) /\ L2Kind2.st_open (consumeIndent p n) /\ CL (consumeIndent p n).
  Proof.
    intros Hcc HE H Hs HC. split; [scc|]. split; [sev|]. split; [apply (TVb_root b p); [apply (L2Kind2.same_consumeIndent p _)|exact H]|].
    split; [apply L2Kind2.st_open_consumeIndent, Hs|apply CL_consumeIndent; assumption].
  Qed.
  Lemma CL_openBlock p K : ccP p -> K <> ListItemKind -> L2Kind2.st_open p -> CL p -> CL (openBlock p K).
  Proof.
    intros Hcc HK Hs HC Hl. apply (CLEAN_same p _ (li_openBlock p K)). apply HC.
    set (q0 := if state p =? stOpening then withState p stOpenMatched else p).
    assert (Hs0 : L2Kind2.same_tree p q0) by apply L2Kind2.same_opened. assert (C0 : ccP q0) by (unfold q0; scc).
    apply (lowK_same p q0 Hs0). apply (up_root (S (cdepth q0)) q0 K C0 HK). pose proof (cdepth_openBlock p K Hs) as E. fold q0 in E.
    destruct Hl as [Hl|(Hl & _)]; lia.
  Qed.
  Lemma CL_updCont_keep p f : (forall x, bkind (f x) = bkind x) -> CL p -> CL (updCont p f).
  Proof.
    intros Hf HC Hl. apply (CLEAN_same p _ eq_refl). apply HC. unfold lowK in *. rewrite (L2Kind2.containerKind_updCont p f Hf) in Hl. exact Hl.
  Qed.

  Lemma sOKr_startFenced : startOKr startFenced.
  Proof.
    intros b p Hcc HE H Hs HC. unfold startFenced. cbv zeta. destruct (_ <=? _); [apply SPost_id; assumption|].
    destruct (parseCodeFence _) as [[[fc fnn] is_] ie]. destruct (fnn =? 0); [apply SPost_id; assumption|].
    destruct (prep b p (indent p) Hcc HE H Hs HC) as (C1 & E1 & H1 & S1 & L1). set (q1 := consumeIndent p (indent p)) in *.
    set (q2 := openBlock q1 FencedCodeBlockKind). assert (C2 : ccP q2) by (unfold q2; scc).
    assert (H2 : TVb true q2) by (apply (open_gen b q1); try assumption; try discriminate; [reflexivity|left; split; [discriminate|exact L1]]).
    assert (S2 : L2Kind2.st_open q2) by (apply L2Kind2.st_open_openBlock, S1).
    assert (K2 : ckind q2 FencedCodeBlockKind) by (apply L2Kind2.ckind_openBlock, S1).
    set (q4 := updCont (updCont q2 (fun x => set_bn (set_bchar x fc) fnn)) (fun x => set_bindent x (indent p))).
    assert (H4 : TVb true q4) by (apply TVb_updCont_keep; [intros x; apply keep_bindent|apply TVb_updCont_keep; [intros x; apply keep_fence|exact H2]]).
    assert (K4 : ckind q4 FencedCodeBlockKind) by (apply L2Kind2.ckind_updCont; [intros x; destruct x; reflexivity|apply L2Kind2.ckind_updCont; [intros x; destruct x; reflexivity|exact K2]]).
    assert (S4 : L2Kind2.st_open q4) by exact S2.
    fold q2. fold q4.
    assert (Fin : forall q5, TVb true q5 -> L2Kind2.st_open q5 -> SPost b p (consumeLine q5)).
    { intros q5 H5 S5. apply SPost_true; [apply (TVb_root true q5); [apply (L2Kind2.same_consumeLine q5)|exact H5]|left; apply st_open_consumeLine, S5]. }
    destruct (spanValid _); [|apply Fin; assumption].
    apply Fin; [|apply st_open_collectInline, L2Kind2.st_open_advance, S4].
    apply (TVb_collectInline true _ _ _ FencedCodeBlockKind); [eapply L2Kind2.ckind_same; [apply L2Kind2.same_advance|exact K4]|reflexivity|].
    apply (TVb_root true q4); [apply (L2Kind2.same_advance q4 is_)|exact H4].
  Qed.

  Lemma sOKr_startHTML : startOKr startHTML.
  Proof.
    intros b p Hcc HE H Hs HC. unfold startHTML. cbv zeta. destruct (_ <=? _); [apply SPost_id; assumption|]. destruct (negb _); [apply SPost_id; assumption|].
    destruct (_ <? 0); [apply SPost_id; assumption|]. destruct (negb _ && _); [apply SPost_id; assumption|].
    set (q2 := openBlock p HTMLBlockKind). assert (C2 : ccP q2) by (unfold q2; scc).
    assert (H2 : TVb true q2) by (apply (open_gen b p); try assumption; try discriminate; [reflexivity|left; split; [discriminate|exact HC]]).
    assert (S2 : L2Kind2.st_open q2) by (apply L2Kind2.st_open_openBlock, Hs).
    assert (K2 : ckind q2 HTMLBlockKind) by (apply L2Kind2.ckind_openBlock, Hs).
    match goal with |- context [updCont q2 ?f] => set (q3 := updCont q2 f) end.
    assert (H3 : TVb true q3) by (apply TVb_updCont_keep; [intros x; apply keep_bn|exact H2]).
    assert (K3 : ckind q3 HTMLBlockKind) by (apply L2Kind2.ckind_updCont; [intros x; destruct x; reflexivity|exact K2]).
    destruct (htmlEnd _ _).
    - set (q4 := collectInline q3 RawHTMLKind (len (bytesAfterIndent q3))).
      assert (H4 : TVb true q4) by (apply (TVb_collectInline true q3 _ _ HTMLBlockKind); [exact K3|reflexivity|exact H3]).
      assert (S4 : L2Kind2.st_open q4) by (apply st_open_collectInline; exact S2).
      apply SPost_true.
      + apply TVb_endBlock; [unfold q4, q3, q2; sev|]. apply (TVb_root true q4); [apply (L2Kind2.same_consumeLine q4)|exact H4].
      + left. apply state_endBlock_lc, st_open_consumeLine, S4.
    - apply SPost_true; [exact H3|]. right. apply CL_updCont_keep; [intros x; destruct x; reflexivity|]. apply CL_openBlock; try assumption. discriminate.
  Qed.

  Lemma sOKr_startThematic : startOKr startThematic.
  Proof.
    intros b p Hcc HE H Hs HC. unfold startThematic. cbv zeta. destruct (_ <=? _); [apply SPost_id; assumption|]. destruct (_ <? 0); [apply SPost_id; assumption|].
    destruct (prep b p (indent p) Hcc HE H Hs HC) as (C1 & E1 & H1 & S1 & L1). set (q1 := consumeIndent p (indent p)) in *.
    set (q2 := openBlock q1 ThematicBreakKind). assert (C2 : ccP q2) by (unfold q2; scc).
    assert (H2 : TVb true q2) by (apply (open_gen b q1); try assumption; try discriminate; [reflexivity|left; split; [discriminate|exact L1]]).
    assert (S2 : L2Kind2.st_open q2) by (apply L2Kind2.st_open_openBlock, S1).
    apply SPost_true.
    - apply TVb_endBlock; [unfold q2; sev|]. apply (TVb_root true q2); [|exact H2].
      eapply L2Kind2.same_trans; [apply L2Kind2.same_advance|apply L2Kind2.same_consumeLine].
    - left. apply state_endBlock_lc, st_open_consumeLine, L2Kind2.st_open_advance, S2.
  Qed.

  Lemma sOKr_startIndented : startOKr startIndented.
  Proof.
    intros b p Hcc HE H Hs HC. unfold startIndented. destruct (_ || _ || _); [apply SPost_id; assumption|].
    destruct (prep b p codeBlockIndentLimit Hcc HE H Hs HC) as (C1 & E1 & H1 & S1 & L1). set (q1 := consumeIndent p codeBlockIndentLimit) in *.
    assert (C2 : ccP (openBlock q1 IndentedCodeBlockKind)) by scc.
    apply SPost_true; [apply (open_gen b q1); try assumption; try discriminate; [reflexivity|left; split; [discriminate|exact L1]]|].
    right. apply CL_openBlock; try assumption. discriminate.
  Qed.

  (* ---- setext heading: the paragraph container becomes a heading and is closed ---- *)
  Lemma TVb_setextL b pre c level : bkind c = ParagraphKind -> (bend c < 0 -> lpok src (bik c) = true) ->
    (TVl (pre ++ [c]) /\ (b = true -> NUl (pre ++ [c]))) ->
    (TVl (pre ++ [set_bn (set_bkind c SetextHeadingKind) level]) /\ (b = true -> NUl (pre ++ [set_bn (set_bkind c SetextHeadingKind) level]))).
  Proof.
    intros HK Hl [(A & B & C & D & E & F) N]. set (c' := set_bn (set_bkind c SetextHeadingKind) level).
    assert (Ef : bstart c' = bstart c /\ bend c' = bend c /\ bik c' = bik c /\ bkind c' = SetextHeadingKind) by (destruct c; repeat split).
    destruct Ef as (F1 & F2 & F3 & F4). unfold RootIndentDefs.TVl, tcl, r6, r7, idl, nel in *. rewrite !removelast_last in *. rewrite !lastL_snoc in *.
    split; [split; [exact A|split; [|split; [|split; [|split]]]]|].
    - apply gaps_app_inv in B. destruct B as [B1 B2]. apply gaps_app; [exact B1|]. cbn [gaps] in *. rewrite F1. tauto.
    - intros x Hx. inversion Hx; subst x. rewrite F2. apply C; reflexivity.
    - intros H. destruct pre; discriminate.
    - intros x Hx. inversion Hx; subst x. rewrite F2, F1, F3, F4. intros Ho _.
      destruct (E c eq_refl Ho ltac:(rewrite HK; reflexivity)) as [E1 _]. split; [exact E1|intros _; apply Hl, Ho].
    - intros H Hn. destruct pre; discriminate.
    - intros Hb. destruct (N Hb) as [_ N']. split; [destruct pre; discriminate|]. intros x Hx. rewrite lastL_snoc in Hx. inversion Hx; subst x. rewrite F2. intros Ho _.
      apply (N' c (lastL_snoc _ c) Ho). rewrite HK. reflexivity.
  Qed.
  Lemma TVb_setext b p level : ccP p -> containerKind p = ParagraphKind -> containerHasParagraphContent p = true -> source p = src -> TVb b p ->
    TVb b (updCont p (fun x => set_bn (set_bkind x SetextHeadingKind) level)).
  Proof.
    intros Hcc Ek PC Hs H. pose proof (depth_pos_kind p Hcc ltac:(rewrite Ek; discriminate)) as Hd.
    pose proof Hcc as (_ & _ & (x & Hx)). pose proof (containerKind_at p x Hx) as Ekx. rewrite Ek in Ekx.
    unfold updCont, TVb, TV in *. cbn [root withRoot setLP]. destruct (cdepth p) as [|d] eqn:Ed; [lia|].
    rewrite getAt_S in Hx. destruct (lastBlock (root p)) as [c|] eqn:El; [|discriminate].
    rewrite (lastBlock_kids _ _ El) in H. rewrite (kids_updAt_S d _ _ c El).
    destruct d as [|d].
    - cbn [getAt] in Hx. inversion Hx; subst x. cbn [updAt]. apply TVb_setextL; [symmetry; exact Ekx| |exact H]. intros _.
      unfold containerHasParagraphContent in PC. rewrite Ek in PC. change (negb (ParagraphKind =? ParagraphKind)) with false in PC. cbv iota zeta in PC.
      unfold contBlock in PC. rewrite Ed in PC. cbn [getAt] in PC. rewrite El in PC. rewrite <- (lpok_of_para src c (eq_sym Ekx)). rewrite <- Hs. exact PC.
    - set (f := fun x : block => set_bn (set_bkind x SetextHeadingKind) level).
      apply (TVb_sameL b (removelast (bkids (root p))) c (updAt (S d) f c) _); [apply sameR_updAt_deep| |reflexivity|exact H].
      cbn [updAt]. destruct (lastBlock c); [destruct c; reflexivity|reflexivity].
  Qed.

  Lemma sOKr_startSetext : startOKr startSetext.
  Proof.
    intros b p Hcc HE H Hs HC. unfold startSetext. cbv zeta. destruct (negb (containerKind p =? ParagraphKind)) eqn:Ek; [apply SPost_id; assumption|].
    do 2 (match goal with |- SPost _ _ (if ?c then _ else _) => destruct c end; [apply SPost_id; assumption|]).
    destruct (containerHasParagraphContent p) eqn:PC; cbn [negb]; [|apply SPost_id; assumption].
    apply negb_false_iff, Z.eqb_eq in Ek.
    match goal with |- context [updCont p ?f] => set (q1 := updCont p f) end.
    assert (H1 : TVb b q1) by (apply TVb_setext; [exact Hcc|exact Ek|exact PC|apply HE|exact H]).
    assert (C1 : ccP q1) by (apply ccP_updCont_compat; [exact Hcc| |intros E0; exfalso; pose proof (depth_pos_kind p Hcc ltac:(rewrite Ek; discriminate)); lia];
      intros x Hx Hcx; split; [rewrite cc_set_bn; destruct x; cbn [set_bkind cc bkids bkind] in *; pose proof (containerKind_at p _ Hx) as Ekx; rewrite Ek in Ekx; cbn [bkind] in Ekx; subst; exact Hcx|
        right; pose proof (containerKind_at p x Hx) as Ekx; rewrite Ek in Ekx; rewrite <- Ekx; split; [discriminate|destruct x; cbn; discriminate]]).
    assert (D1 : (1 <= cdepth q1)%nat) by (change (cdepth q1) with (cdepth p); apply (depth_pos_kind p Hcc); rewrite Ek; discriminate).
    assert (S1 : L2Kind2.st_open (consumeLine q1) \/ True) by (right; exact I).
    apply SPost_true.
    - (* the heading is closed at the end of the line *)
      assert (Hs2 : state (consumeLine q1) = stLineConsumed) by (apply st_open_consumeLine; exact Hs).
      unfold endBlock. rewrite Hs2. change ((stLineConsumed =? stDescending) || (stLineConsumed =? stDescendTerminated)) with false.
      change (stLineConsumed =? stOpening) with false. cbv iota zeta.
      set (q2 := consumeLine q1). assert (E2 : EVp q2) by (unfold q2, q1; sev).
      assert (H2 : TVb b q2) by (apply (TVb_root b q1); [apply (L2Kind2.same_consumeLine q1)|exact H1]).
      assert (C2 : ccP q2) by (unfold q2; scc).
      assert (D2 : cdepth q2 = cdepth q1) by (unfold cdepth, q2; destruct (L2Kind2.same_consumeLine q1) as [_ E]; rewrite E; reflexivity).
      destruct (cdepth q2) as [|d] eqn:Ed; [lia|]. destruct (EVp_pos q2 E2) as (A & B & C & D). rewrite B.
      apply (TVb_root true (closeLastChildAt q2 d (ls + li q2))); [reflexivity|].
      destruct d as [|d].
      + destruct (TVb_closeAt0 b q2 (ls + li q2) A ltac:(lia) ltac:(lia) H2) as (_ & _ & H3). apply H3.
        destruct C2 as (_ & _ & (x & Hx)). rewrite Ed in Hx. cbn [getAt] in Hx. intros N. unfold lastBlock in Hx. rewrite N in Hx. discriminate.
      + apply TVb_closeAt_deep. destruct H2 as [T _]. split; [exact T|]. intros _. apply (NUl_deep q2 C2). lia.
    - left. apply state_endBlock_lc, st_open_consumeLine. exact Hs.
  Qed.

  (* ---- list item ---- *)
  Lemma cdepth_endBlock p : L2Kind2.st_open p -> (1 <= cdepth p)%nat -> cdepth (endBlock p) = pred (cdepth p).
  Proof.
    intros Hs Hd. unfold endBlock. replace ((state p =? stDescending) || (state p =? stDescendTerminated)) with false by (destruct Hs as [-> | ->]; reflexivity). cbv zeta.
    assert (E : cdepth (if state p =? stOpening then withState p stOpenMatched else p) = cdepth p) by (destruct (_ =? _); reflexivity). rewrite E.
    destruct (cdepth p); [lia|reflexivity].
  Qed.
  Lemma cdepth_open_in p K : L2Kind2.st_open p -> canContain (containerKind p) K = true -> cdepth (openBlock p K) = S (cdepth p).
  Proof.
    intros Hs Hc. rewrite (cdepth_openBlock p K Hs). set (q0 := if state p =? stOpening then withState p stOpenMatched else p).
    assert (Hs0 : L2Kind2.same_tree p q0) by apply L2Kind2.same_opened. rewrite up_id by (rewrite (L2Kind2.containerKind_same _ _ Hs0); exact Hc).
    destruct Hs0 as [_ E]. unfold cdepth. rewrite E. reflexivity.
  Qed.
  Lemma not_lowK_depth p : (2 <= cdepth p)%nat -> ~ lowK p.
  Proof. intros H [E|(E & _)]; lia. Qed.

  Lemma sOKr_startListItem : startOKr startListItem.
  Proof.
    intros b p Hcc HE H Hs HC. unfold startListItem. cbv zeta. destruct (_ <=? _); [apply SPost_id; assumption|].
    destruct (parseListMarker _) as [[delim n] mend]. destruct (_ || _); [apply SPost_id; assumption|]. destruct (_ && _); [apply SPost_id; assumption|].
    destruct (prep b p (indent p) Hcc HE H Hs HC) as (C1 & E1 & H1 & S1 & L1). set (q1 := consumeIndent p (indent p)) in *.
    (* the list *)
    match goal with |- context [if ?c then updCont (openBlock q1 ListKind) ?f else q1] => set (cnd := c); set (q2 := if c then updCont (openBlock q1 ListKind) f else q1) end.
    assert (A2 : ccP q2 /\ EVp q2 /\ L2Kind2.st_open q2 /\ containerKind q2 = ListKind /\ exists b2, TVb b2 q2 /\ (b2 = false -> q2 = q1 /\ b = false \/ True)).
    { unfold q2, cnd. match goal with |- ccP (if ?c then _ else _) /\ _ => destruct c eqn:Ec end.
      - assert (Co : ccP (openBlock q1 ListKind)) by scc.
        assert (Ho : TVb true (openBlock q1 ListKind)) by (apply (open_gen b q1); try assumption; try discriminate; [reflexivity|left; split; [discriminate|exact L1]]).
        assert (Ko : ckind (updCont (openBlock q1 ListKind) (fun x => set_bchar x delim)) ListKind).
        { apply L2Kind2.ckind_updCont; [intros x; destruct x; reflexivity|apply L2Kind2.ckind_openBlock, S1]. }
        assert (Cu : ccP (updCont (openBlock q1 ListKind) (fun x => set_bchar x delim))) by scc.
        split; [exact Cu|]. split; [sev|]. split; [apply L2Kind2.st_open_openBlock, S1|]. split; [apply ckind_containerKind; assumption|].
        exists true. split; [apply TVb_updCont_keep; [intros x; apply keep_bchar|exact Ho]|intros E; discriminate].
      - split; [exact C1|]. split; [exact E1|]. split; [exact S1|]. split.
        + apply orb_false_iff in Ec. destruct Ec as [Ec _]. apply negb_false_iff, Z.eqb_eq in Ec. exact Ec.
        + exists b. split; [exact H1|intros _; right; exact I]. }
    destruct A2 as (C2 & E2 & S2 & K2 & (b2 & H2 & _)).
    assert (D2 : (1 <= cdepth q2)%nat) by (apply (depth_pos_kind q2 C2); rewrite K2; discriminate).
    (* the item *)
    set (q3 := updCont (openBlock q2 ListItemKind) (fun x => set_bchar x delim)).
    assert (Cio : ccP (openBlock q2 ListItemKind)) by (apply ccP_openBlock; [exact C2|right; rewrite K2; reflexivity]).
    assert (Hio : TVb true (openBlock q2 ListItemKind)).
    { apply (open_gen b2 q2); try assumption; try discriminate; [reflexivity|]. right. rewrite K2. split; [reflexivity|discriminate]. }
    assert (C3 : ccP q3) by (unfold q3; scc).
    assert (H3 : TVb true q3) by (apply TVb_updCont_keep; [intros x; apply keep_bchar|exact Hio]).
    assert (S3 : L2Kind2.st_open q3) by (apply L2Kind2.st_open_openBlock, S2).
    assert (K3 : containerKind q3 = ListItemKind).
    { apply ckind_containerKind; [exact C3|]. apply L2Kind2.ckind_updCont; [intros x; destruct x; reflexivity|apply L2Kind2.ckind_openBlock, S2]. }
    assert (D3 : cdepth q3 = S (cdepth q2)) by (change (cdepth q3) with (cdepth (openBlock q2 ListItemKind)); apply cdepth_open_in; [exact S2|rewrite K2; reflexivity]).
    assert (E3 : EVp q3) by (unfold q3; sev).
    (* the marker *)
    set (q4 := openBlock q3 ListMarkerKind). assert (C4 : ccP q4) by (unfold q4; scc).
    assert (H4 : TVb true q4).
    { apply (open_gen true q3); try assumption; try discriminate; [reflexivity|]. right. rewrite K3. split; [reflexivity|discriminate]. }
    assert (S4 : L2Kind2.st_open q4) by (apply L2Kind2.st_open_openBlock, S3).
    assert (D4 : cdepth q4 = S (cdepth q3)) by (apply cdepth_open_in; [exact S3|rewrite K3; reflexivity]).
    set (q5 := advance q4 mend).
    assert (S5 : L2Kind2.st_open q5) by (apply L2Kind2.st_open_advance, S4).
    assert (D5 : cdepth q5 = cdepth q4) by (unfold cdepth, q5; destruct (L2Kind2.same_advance q4 mend) as [_ E]; rewrite E; reflexivity).
    assert (H5 : TVb true q5) by (apply (TVb_root true q4); [apply (L2Kind2.same_advance q4 mend)|exact H4]).
    assert (E5 : EVp q5) by (unfold q5, q4; sev).
    set (q6 := endBlock q5).
    assert (H6 : TVb true q6) by (apply TVb_endBlock; assumption).
    assert (D6 : (2 <= cdepth q6)%nat) by (unfold q6; rewrite (cdepth_endBlock q5 S5) by lia; rewrite D5, D4, D3; cbn [pred]; lia).
    assert (Fin : forall r0 v r, L2Kind2.same_tree q6 r0 -> L2Kind2.same_tree (updCont r0 (fun x => set_bindent x v)) r -> SPost b p r).
    { intros r0 v r [Er0 Ec0] [Er Ec]. apply SPost_true.
      - apply (TVb_root true (updCont r0 (fun x => set_bindent x v)) r Er). apply TVb_updCont_keep; [intros x; apply keep_bindent|apply (TVb_root true q6 r0 Er0 H6)].
      - right. intros Hl. exfalso. apply (not_lowK_depth r); [|exact Hl]. unfold cdepth. rewrite Ec.
        assert (Eu : container (updCont r0 (fun x => set_bindent x v)) = container r0) by (unfold updCont; destruct (cdepth r0); reflexivity).
        rewrite Eu, Ec0. exact D6. }
    change (SPost b p (if isRestBlank q6 then consumeLine (updCont q6 (fun b0 => set_bindent b0 (indent p + mend + 1))) else
      let '(padding, p0) := if indent q6 <? 1 then (1, q6) else if 4 <? indent q6 then (1, consumeIndent q6 1) else (indent q6, consumeIndent q6 (indent q6)) in
      updCont p0 (fun b0 => set_bindent b0 (indent p + mend + padding)))).
    destruct (isRestBlank q6).
    - apply (Fin q6 (indent p + mend + 1)); [split; reflexivity|apply L2Kind2.same_consumeLine].
    - destruct (indent q6 <? 1).
      + apply (Fin q6 (indent p + mend + 1)); split; reflexivity.
      + destruct (4 <? indent q6).
        * apply (Fin (consumeIndent q6 1) (indent p + mend + 1)); [apply L2Kind2.same_consumeIndent|split; reflexivity].
        * apply (Fin (consumeIndent q6 (indent q6)) (indent p + mend + indent q6)); [apply L2Kind2.same_consumeIndent|split; reflexivity].
  Qed.

  (* ---- cs2 for the starts ---- *)
  Ltac scs :=
    repeat first
      [ apply cs2_refl
      | match goal with
        | |- cs2 _ (if ?c then _ else _) => destruct c
        | |- cs2 _ (let '(_, _) := (if ?c then _ else _) in _) => destruct c
        | |- cs2 _ (let '(_, _) := ?c in _) => destruct c
        | |- cs2 _ (advance _ _) => eapply cs2_trans; [|apply cs2_advance]
        | |- cs2 _ (consumeLine _) => eapply cs2_trans; [|apply cs2_consumeLine]
        | |- cs2 _ (consumeIndent _ _) => eapply cs2_trans; [|apply cs2_consumeIndent]
        | |- cs2 _ (updCont _ _) => eapply cs2_trans; [|apply cs2_updCont]
        | |- cs2 _ (openBlock _ _) => eapply cs2_trans; [|apply cs2_openBlock]
        | |- cs2 _ (endBlock _) => eapply cs2_trans; [|apply cs2_endBlock]
        | |- cs2 _ (collectInline _ _ _) => eapply cs2_trans; [|apply cs2_collectInline]
        end ].
  Lemma cs2_blockStarts f : In f blockStarts -> forall q, cs2 q (f q).
  Proof.
    intros Hin q. unfold blockStarts in Hin. cbn [In] in Hin.
    destruct Hin as [<-|[<-|[<-|[<-|[<-|[<-|[<-|[<-|[]]]]]]]]].
    - unfold startBlockQuote. cbv zeta. scs.
    - unfold startATX. cbv zeta. scs.
    - unfold startFenced. cbv zeta. scs.
    - unfold startHTML. cbv zeta. scs.
    - unfold startSetext. cbv zeta. scs.
    - unfold startThematic. cbv zeta. scs.
    - unfold startListItem. cbv zeta. scs.
    - unfold startIndented. cbv zeta. scs.
  Qed.

  (* ---- the starts in a row ---- *)
  Lemma blockStarts_okr : Forall startOKr blockStarts.
  Proof.
    unfold blockStarts.
    apply Forall_cons; [exact sOKr_startBlockQuote|]. apply Forall_cons; [exact sOKr_startATX|].
    apply Forall_cons; [exact sOKr_startFenced|]. apply Forall_cons; [exact sOKr_startHTML|].
    apply Forall_cons; [exact sOKr_startSetext|]. apply Forall_cons; [exact sOKr_startThematic|].
    apply Forall_cons; [exact sOKr_startListItem|]. apply Forall_cons; [exact sOKr_startIndented|]. apply Forall_nil.
  Qed.

  Definition RN (p : lp) : Prop := (containerKind p = ParagraphKind -> isRestBlank p = false) /\ (bkids (root p) = [] -> isRestBlank p = false).
  Lemma RN_same p p' : L2Kind2.same_tree p p' -> li p' = li p -> line p' = line p -> RN p -> RN p'.
  Proof. intros Hs El Eln H. unfold RN, isRestBlank, rest. rewrite (L2Kind2.containerKind_same _ _ Hs), El, Eln. destruct Hs as [-> _]. exact H. Qed.
  (* at depth 0 the last root child is not an open paragraph *)
  Definition J0 (p : lp) : Prop := cdepth p = O -> forall c, top p = Some c -> bend c < 0 -> isPSb (bkind c) = true -> False.
  Lemma J0_of_true p : TVb true p -> J0 p.
  Proof. intros [_ N] _ c Hc. destruct (N eq_refl) as [_ N']. apply N'. exact Hc. Qed.

  Lemma R_tryStarts : forall fs, Forall startOKr fs -> Forall GramLP4.startOKg fs -> (forall f, In f fs -> forall q, cs2 q (f q)) ->
    forall b p, GramLP.GI p -> EVp p -> TVb b p -> CL p ->
    let r := snd (tryStarts fs p) in
    GramLP.GI r /\ EVp r /\ TVb b r /\ (state r = stLineConsumed \/ CL r) /\
    (fst (tryStarts fs p) = true -> TVb true r) /\ (r = p \/ r = withState p stOpening \/ TVb true r).
  Proof.
    induction fs as [|f rest IH]; intros Hr Hg Hc b p HG HE H HC; cbv zeta.
    { cbn [tryStarts snd fst]. split; [exact HG|]. split; [exact HE|]. split; [exact H|]. split; [right; exact HC|]. split; [discriminate|left; reflexivity]. }
    inversion Hr as [|? ? Hf Hr']; subst. inversion Hg as [|? ? Hgf Hg']; subst.
    cbn [tryStarts]. cbv zeta. set (p0 := withState p stOpening).
    assert (S0 : L2Kind2.same_tree p p0) by (split; reflexivity).
    assert (G0 : GramLP.GI p0) by (apply (GramLP.GI_same p); assumption).
    assert (E0 : EVp p0) by (unfold p0; sev).
    assert (C0 : CL p0) by (apply (CL_same p); [exact S0|reflexivity|exact HC]).
    assert (So : L2Kind2.st_open p0) by (left; reflexivity).
    assert (Post : forall b', TVb b' p -> SPost b' p0 (f p0)).
    { intros b' H'. apply Hf; [apply G0|exact E0|apply (TVb_root b' p); [reflexivity|exact H']|exact So|exact C0]. }
    set (p1 := f p0) in *.
    assert (G1 : GramLP.GI p1) by (apply Hgf; assumption).
    assert (E1 : EVp p1) by (eapply EVp_cs2; [apply (Hc f (or_introl eq_refl))|exact E0]).
    destruct (Post b H) as (H1 & L1 & D1).
    destruct ((state p1 =? stOpenMatched) || (state p1 =? stLineConsumed)) eqn:Et.
    - cbn [snd fst]. assert (T1 : TVb true p1).
      { destruct D1 as [D1|D1]; [|exact D1]. exfalso. rewrite D1 in Et. cbn in Et. discriminate. }
      split; [exact G1|]. split; [exact E1|]. split; [exact H1|]. split; [exact L1|]. split; [intros _; exact T1|right; right; exact T1].
    - assert (C1 : CL p1).
      { destruct L1 as [L1|L1]; [|exact L1]. rewrite L1 in Et. cbn in Et. discriminate. }
      assert (Hc' : forall g, In g rest -> forall q, cs2 q (g q)) by (intros g Hin; apply Hc; right; exact Hin).
      destruct (IH Hr' Hg' Hc' b p1 G1 E1 H1 C1) as (A1 & A2 & A3 & A4 & A5 & A6).
      split; [exact A1|]. split; [exact A2|]. split; [exact A3|]. split; [exact A4|]. split; [exact A5|].
      destruct D1 as [D1|D1].
      + clearbody p1. subst p1. destruct A6 as [A6|[A6|A6]]; [right; left; exact A6|right; left; exact A6|right; right; exact A6].
      + destruct (IH Hr' Hg' Hc' true p1 G1 E1 D1 C1) as (_ & _ & B3 & _). right; right; exact B3.
  Qed.

  Lemma R_opening : forall fuel b p, GI p -> EVp p -> TVb b p -> CL p -> (RN p \/ TVb true p) -> state p <> stDescendTerminated ->
    let ht := fst (opening_loop fuel p) in let r := snd (opening_loop fuel p) in
    GI r /\ EVp r /\ TVb b r /\ (RN r \/ TVb true r) /\ ((J0 p \/ TVb true p) -> (J0 r \/ TVb true r)) /\ state r <> stDescendTerminated /\
    (ht = true -> CL r) /\ (ht = false -> TVb true r).
  Proof.
    induction fuel as [|f IH]; intros b p HG HE H HC HR Hst; cbv zeta.
    { cbn [opening_loop fst snd]. split; [exact HG|]. split; [exact HE|]. split; [exact H|]. split; [exact HR|]. split; [exact (fun X => X)|]. split; [exact Hst|].
      split; [intros _; exact HC|discriminate]. }
    cbn [opening_loop]. destruct (_ || _).
    2:{ cbn [fst snd]. split; [exact HG|]. split; [exact HE|]. split; [exact H|]. split; [exact HR|]. split; [exact (fun X => X)|]. split; [exact Hst|].
        split; [intros _; exact HC|discriminate]. }
    pose proof (R_tryStarts blockStarts blockStarts_okr blockStarts_okg cs2_blockStarts b p HG HE H HC) as T. cbv zeta in T.
    pose proof (L2Kind2.tryStarts_true blockStarts p) as Tt.
    pose proof (L2Kind2.tryStarts_false blockStarts (withState p stOpening) L2Kind2.blockStarts_st3) as Tf.
    assert (Eq : tryStarts blockStarts (withState p stOpening) = tryStarts blockStarts p) by reflexivity. rewrite Eq in Tf.
    destruct (tryStarts blockStarts p) as [[|] p1] eqn:Et; cbn [fst snd] in *.
    - destruct T as (G1 & E1 & H1 & L1 & T1 & _). specialize (T1 eq_refl).
      destruct (state p1 =? stLineConsumed) eqn:El.
      + cbn [fst snd]. split; [exact G1|]. split; [exact E1|]. split; [exact H1|]. split; [right; exact T1|]. split; [intros _; right; exact T1|].
        apply Z.eqb_eq in El. split; [rewrite El; discriminate|]. split; [discriminate|intros _; exact T1].
      + apply Z.eqb_neq in El. assert (C1 : CL p1) by (destruct L1 as [L1|L1]; [contradiction|exact L1]).
        assert (N1 : state p1 <> stDescendTerminated) by (destruct (Tt eq_refl) as [E|E]; rewrite E; discriminate).
        destruct (IH true p1 G1 E1 T1 C1 (or_intror T1) N1) as (A1 & A2 & A3 & A4 & A5 & A6 & A7 & A8).
        split; [exact A1|]. split; [exact A2|]. split; [apply TVb_le, A3|]. split; [exact A4|]. split; [intros _; apply A5; right; exact T1|]. split; [exact A6|]. split; assumption.
    - destruct T as (G1 & E1 & H1 & L1 & _ & D1). specialize (Tf (or_introl eq_refl) eq_refl).
      assert (C1 : CL p1) by (destruct L1 as [L1|L1]; [destruct Tf as [E|E]; rewrite E in L1; discriminate|exact L1]).
      assert (Hsame : p1 = p \/ p1 = withState p stOpening -> L2Kind2.same_tree p p1 /\ li p1 = li p /\ line p1 = line p).
      { intros [-> | ->]; repeat split. }
      split; [exact G1|]. split; [exact E1|]. split; [exact H1|]. split; [|split; [|split; [|split]]].
      + destruct D1 as [D1|[D1|D1]]; [| |right; exact D1].
        * destruct (Hsame (or_introl D1)) as (S1 & S2 & S3). destruct HR as [HR|HR]; [left; apply (RN_same p); assumption|right; apply (TVb_root true p); [apply S1|exact HR]].
        * destruct (Hsame (or_intror D1)) as (S1 & S2 & S3). destruct HR as [HR|HR]; [left; apply (RN_same p); assumption|right; apply (TVb_root true p); [apply S1|exact HR]].
      + intros HJ. assert (HJs : p1 = p \/ p1 = withState p stOpening -> J0 p \/ TVb true p -> J0 p1 \/ TVb true p1).
        { intros Hp [X|X]; [left|right].
          - destruct Hp as [-> | ->]; exact X.
          - destruct Hp as [-> | ->]; [exact X|apply (TVb_root true p); [reflexivity|exact X]]. }
        destruct D1 as [D1|[D1|D1]]; [apply HJs; [left; exact D1|exact HJ]|apply HJs; [right; exact D1|exact HJ]|right; exact D1].
      + destruct Tf as [E|E]; rewrite E; discriminate.
      + intros _. exact C1.
      + discriminate.
  Qed.

  (* ---- the deferred close ---- *)
  Lemma RN_cd p p' : root p' = root p -> cdepth p' = cdepth p -> li p' = li p -> line p' = line p -> RN p -> RN p'.
  Proof. intros E1 E2 E3 E4 H. unfold RN, isRestBlank, rest, containerKind, contBlock in *. rewrite E1, E2, E3, E4. exact H. Qed.
  Lemma para_depth1 p t : ccP p -> getAt 1 (root p) = Some t -> bkind t = ParagraphKind -> lowK p.
  Proof.
    intros (A & B & (x & Hx)) Et Ek. destruct (cdepth p) as [|[|k]] eqn:Ed; [left; exact Ed|right; split; [exact Ed|]|exfalso].
    - rewrite (containerKind_at p t) by (rewrite Ed; exact Et). rewrite Ek. split; discriminate.
    - destruct (getAt_le (S (S k)) 2 _ _ ltac:(lia) Hx) as (y & Hy). pose proof (cc_spine 1 _ t y B Et Hy) as Hc. rewrite Ek in Hc. discriminate.
  Qed.
  Lemma kids_closeAt_nil p d e : bkids (root (closeLastChildAt p d e)) = [] -> bkids (root p) = [].
  Proof.
    unfold closeLastChildAt. cbn [root withRoot setLP]. destruct (lastBlock (root p)) as [c|] eqn:El.
    - intros N. exfalso. destruct d as [|d].
      + cbn [updAt] in N. rewrite El in N. unfold set_lastBlocks in N. rewrite bkids_set_bkids in N. apply app_eq_nil in N. destruct N as [_ N]. exact (closeBlock_nonnil _ _ _ _ N).
      + rewrite (kids_updAt_S d _ _ c El) in N. apply app_eq_nil in N. destruct N as [_ N]. discriminate.
    - destruct d as [|d]; [cbn [updAt]; rewrite El; exact (fun X => X)|rewrite (updAt_S_none d _ _ El); exact (fun X => X)].
  Qed.
  Lemma getAt_S_kids d r x : getAt (S d) r = Some x -> bkids r <> [].
  Proof. rewrite getAt_S. intros H N. unfold lastBlock in H. rewrite N in H. discriminate. Qed.
  Lemma R_deferredClose b p : GI p -> EVp p -> TVb b p -> CL p -> (RN p \/ TVb true p) ->
    let r := deferredClose p in
    GI r /\ EVp r /\ TVb b r /\ CL r /\ (RN r \/ TVb true r) /\ J0 r /\ (TVb true p -> TVb true r) /\ state r = state p.
  Proof.
    intros HG HE H HC HR. cbv zeta. pose proof (GI_deferredClose p HG) as HG'. unfold deferredClose in *. cbv zeta in *.
    destruct (EVp_pos p HE) as (As & Bs & Cs & _). pose proof HG as (Hcc & _).
    assert (Close : forall r, r = closeLastChildAt p (cdepth p) (lineStart p) -> GI r ->
              GI r /\ EVp r /\ TVb b r /\ CL r /\ (RN r \/ TVb true r) /\ J0 r /\ (TVb true p -> TVb true r) /\ state r = state p).
    { intros r -> Gr. rewrite Bs in *. split; [exact Gr|]. split; [sev|]. split; [apply TVb_closeAt; try assumption; lia|]. split; [|split; [|split; [|split]]].
      - intros Hl. apply (CLEAN_same p _ eq_refl). apply HC. unfold lowK in *. rewrite L2Kind2.containerKind_closeHere in Hl. exact Hl.
      - destruct HR as [HR|HR]; [left|right; apply TVb_closeAt; try assumption; lia].
        destruct HR as [R1 R2]. split; [rewrite L2Kind2.containerKind_closeHere; exact R1|]. intros N. apply R2. apply (kids_closeAt_nil p (cdepth p) ls N).
      - intros Ed c Hc Ho _. change (cdepth (closeLastChildAt p (cdepth p) ls)) with (cdepth p) in Ed. rewrite Ed in Hc.
        destruct (TVb_closeAt0 b p ls As ltac:(lia) Cs H) as (_ & X & _). specialize (X c Hc). lia.
      - intros T. apply TVb_closeAt; try assumption; lia.
      - reflexivity. }
    destruct (negb (isRestBlank p)) eqn:Eb; cbn [andb] in *; [|apply Close; [reflexivity|exact HG']].
    destruct (getAt (tipDepth (bheight (root p)) (root p)) (root p)) as [t|] eqn:Et; [|apply Close; [reflexivity|exact HG']].
    destruct (Z.eqb_spec (bkind t) ParagraphKind) as [Ek|Nk]; [|apply Close; [reflexivity|exact HG']].
    set (tipD := tipDepth (bheight (root p)) (root p)) in *. set (r := withCont p (Some tipD)) in *.
    assert (Kr : containerKind r = ParagraphKind) by (rewrite (containerKind_at r t); [exact Ek|exact Et]).
    split; [exact HG'|]. split; [unfold r; sev|]. split; [apply (TVb_root b p); [reflexivity|exact H]|]. split; [|split; [|split; [|split]]].
    - intros Hl. apply (CLEAN_same p r eq_refl). apply HC.
      destruct Hl as [E|(E & _)]; change (cdepth r) with tipD in E.
      + exfalso. rewrite E in Et. cbn in Et. inversion Et; subst t. destruct Hcc as (A & _). rewrite A in Ek. discriminate.
      + rewrite E in Et. apply (para_depth1 p t Hcc Et Ek).
    - left. apply negb_true_iff in Eb. split; intros _; exact Eb.
    - intros E. exfalso. change (cdepth r) with tipD in E. rewrite E in Et. cbn in Et. inversion Et; subst t. destruct Hcc as (A & _). rewrite A in Ek. discriminate.
    - intros T. apply (TVb_root true p); [reflexivity|exact T].
    - reflexivity.
  Qed.

  (* ---- more on the descent ---- *)
  Lemma matchRule_para q : containerKind q = ParagraphKind -> matchRule q = (negb (isRestBlank q), q).
  Proof. intros E. unfold matchRule. rewrite E. reflexivity. Qed.
  Lemma cdepth_descend_ge : forall fuel p d, (d <= cdepth (snd (descend_loop fuel p d)))%nat.
  Proof.
    induction fuel as [|f IH]; intros p d; [cbn; lia|]. cbn [descend_loop]. cbv zeta.
    destruct (getAt (S d) (root p)) as [c|]; [|cbn; lia]. destruct (negb (isOpen c)); [cbn; lia|]. destruct (negb (hasMatch (bkind c))); [cbn; lia|].
    destruct (matchRule _) as [ok p2]. destruct (state p2 =? stDescendTerminated); [cbn; lia|]. destruct (negb ok); [cbn; lia|].
    specialize (IH p2 (S d)). lia.
  Qed.
  Lemma RN_descend : forall fuel p d, ccP p -> cdepth p = d -> RN p -> RN (snd (descend_loop fuel p d)).
  Proof.
    induction fuel as [|f IH]; intros p d Hcc Ed HR.
    { cbn [descend_loop snd]. apply (RN_cd p); try reflexivity; [cbn; symmetry; exact Ed|exact HR]. }
    cbn [descend_loop]. cbv zeta.
    assert (Back : RN (withCont p (Some d))) by (apply (RN_cd p); try reflexivity; [cbn; symmetry; exact Ed|exact HR]).
    destruct (getAt (S d) (root p)) as [c|] eqn:Ec; [|exact Back]. destruct (negb (isOpen c)); [exact Back|].
    destruct (negb (hasMatch (bkind c))); [exact Back|].
    set (q := withState (withCont p (Some (S d))) stDescending).
    assert (Cq : ccP q) by (apply (ccP_same_cd (withCont p (Some (S d)))); [reflexivity|reflexivity|apply ccP_withCont; [exact Hcc|exists c; exact Ec]]).
    pose proof (ccP_matchRule q Cq) as C2. pose proof (L2CC.cdepth_matchRule q) as D2. pose proof (matchRule_true_same q) as Sm.
    pose proof (matchRule_para q) as Mp.
    destruct (matchRule q) as [ok p2]. cbn [fst snd] in *. change (cdepth q) with (S d) in D2.
    pose proof C2 as (_ & _ & (x2 & Hx2)). rewrite D2 in Hx2. destruct (getAt_prefix _ _ _ Hx2) as (y & Hy).
    assert (Hk2 : bkids (root p2) <> []).
    { destruct (getAt_le (S d) 1 _ _ ltac:(lia) Hx2) as (z & Hz). apply (getAt_S_kids O _ z Hz). }
    assert (Up : forall r, containerKind r = bkind y -> (bkids (root r) = [] -> bkids (root p2) = []) -> RN r).
    { intros r Kr Hn. split; [|intros N; exfalso; apply Hk2, Hn, N]. intros Hk. exfalso. pose proof C2 as (_ & B2 & _).
      pose proof (cc_spine d _ y x2 B2 Hy Hx2) as Hc. rewrite <- Kr, Hk in Hc. discriminate. }
    destruct (state p2 =? stDescendTerminated).
    { cbn [snd]. apply Up; [apply containerKind_closeUp; exact Hy|]. intros N. apply (kids_closeAt_nil p2 d _ N). }
    destruct ok; cbn [negb].
    - apply IH; [exact C2|exact D2|]. split; [|intros N; contradiction]. intros Hk. specialize (Sm eq_refl). rewrite (L2Kind2.containerKind_same _ _ Sm) in Hk.
      specialize (Mp Hk). inversion Mp as [[X Y]]. apply negb_true_iff. symmetry. exact X.
    - cbn [snd]. apply Up; [apply containerKind_at; exact Hy|exact (fun X => X)].
  Qed.
  Lemma J0_descend b fuel p : EVp p -> TVb b p -> cdepth p = O -> fst (descend_loop (S fuel) p O) = true -> J0 (snd (descend_loop (S fuel) p O)).
  Proof.
    intros HE H Ed. cbn [descend_loop]. cbv zeta. rewrite top_getAt1.
    destruct (top p) as [c|] eqn:Et.
    2:{ intros _ _ c Hc. change (top (snd (true, withCont p (Some O)))) with (top p) in Hc. rewrite Et in Hc. discriminate. }
    destruct (negb (isOpen c)) eqn:Eo.
    { intros _ _ c' Hc' Ho. change (top (snd (true, withCont p (Some O)))) with (top p) in Hc'. rewrite Et in Hc'. inversion Hc'; subst c'.
      apply negb_true_iff in Eo. unfold isOpen in Eo. apply Z.ltb_ge in Eo. lia. }
    destruct (negb (hasMatch (bkind c))); [cbn; discriminate|].
    set (q := withState (withCont p (Some 1%nat)) stDescending).
    assert (Eq : EVp q) by (unfold q; sev). assert (Hq : TVb b q) by (apply (TVb_root b p); [reflexivity|exact H]).
    pose proof (EVp_matchRule q Eq) as E2. pose proof (TVb_matchRule b q Hq) as H2.
    pose proof (cdepth_descend_ge fuel (snd (matchRule q)) 1) as Hge.
    destruct (matchRule q) as [ok p2]. cbn [fst snd] in *.
    destruct (state p2 =? stDescendTerminated).
    { intros _ _ c' Hc' Ho. cbn [snd] in Hc'. destruct (EVp_pos p2 E2) as (As & Bs & Cs & Ds). rewrite Bs in Hc'.
      destruct (TVb_closeAt0 b p2 (ls + li p2) As Ds ltac:(lia) H2) as (_ & X & _).
      change (top (withCont (closeLastChildAt p2 0 (ls + li p2)) (Some O))) with (top (closeLastChildAt p2 0 (ls + li p2))) in Hc'. specialize (X c' Hc'). lia. }
    destruct (negb ok); [cbn; discriminate|]. intros _ E0. lia.
  Qed.

  (* ---- closing the last root child, as a fact about lists; the end of the input ---- *)
  Lemma TVb_closeL b kids c n e : lastL kids = Some c -> ls <= e -> 0 <= e -> (TVl kids /\ (b = true -> NUl kids)) ->
    TVl (removelast kids ++ closeBlock (S n) src c e) /\ NUl (removelast kids ++ closeBlock (S n) src c e).
  Proof.
    intros El Hle H0 [HT HN]. rewrite (lastL_split _ _ El) in HT. set (L := closeBlock (S n) src c e).
    destruct (Z.ltb_spec (bend c) 0) as [Lo|Lo].
    - assert (HR : RES src ls c L).
      { unfold L. apply (G_closeBlock src ls s0 ik0 HG0 HR0 e n c Hle H0 Lo).
        intros Hp. destruct HT as (_ & _ & _ & _ & Hid & _). destruct (Hid c (lastL_snoc _ c) Lo Hp) as [[(I1 & I2 & _)|(I1 & _)] I3]; (split; [|exact I3]); [left; split; assumption|right; exact I1]. }
      pose proof (TVl_close src ls s0 ik0 ne0 _ c L HR HT) as HT'. destruct HR as (R1 & R2 & _). split; [exact HT'|].
      split; [intros N; apply app_eq_nil in N; destruct N as [_ N]; contradiction|]. intros x Hx Ho. rewrite lastL_app in Hx by exact R1. pose proof (R2 x (lastL_In _ _ Hx)). lia.
    - assert (EL : L = [c]) by (apply closeBlock_closed; exact Lo). clearbody L. subst L. split; [exact HT|].
      split; [destruct (removelast kids); discriminate|]. intros x Hx Ho. rewrite lastL_snoc in Hx. inversion Hx; subst x. lia.
  Qed.

  Lemma bheight_kidW b x : In x (bkids b) -> (bheight x < bheight b)%nat.
  Proof.
    destruct b as [k s e bk ik ind n ch l lb]. cbn [bkids bheight]. induction bk as [|y r IH]; intros H; [destruct H|].
    cbn [fold_right]. destruct H as [->|H]; [lia|]. specialize (IH H). lia.
  Qed.
  Lemma R_eof b p : GI p -> EVp p -> TVb b p ->
    let rt := match closeBlock (bheight (root p)) (source p) (root p) (lineStart p) with x :: _ => x | [] => root p end in
    TVb b (withCont (withRoot p rt) None) /\ (TVb true (withCont (withRoot p rt) None) \/ bkids rt = []).
  Proof.
    intros HG HE H. cbv zeta. destruct (EVp_pos p HE) as (As & Bs & Cs & _). rewrite As, Bs.
    pose proof HG as ((A & _) & _ & So). apply so_open in So.
    destruct (bheight_S (root p)) as (n & En).
    assert (Hn : forall c, lastBlock (root p) = Some c -> exists n', n = S n').
    { intros c Hc. pose proof (bheight_kidW (root p) c (lastBlock_In _ _ Hc)) as Hlt. destruct (bheight_S c) as (m & Em). rewrite En, Em in Hlt. destruct n; [lia|eexists; reflexivity]. }
    rewrite En. unfold TVb, TV in *. cbn [root withRoot withCont setLP].
    destruct (root p) as [k s e bk ik ind nn ch l lb] eqn:Er. cbn [bkind] in A. subst k. unfold isOpen in So. cbn [bend] in So.
    cbn [closeBlock]. unfold isOpen. cbn [bend set_bend bkind]. rewrite So. cbn [negb].
    change (documentKind =? ListKind) with false. change (documentKind =? IndentedCodeBlockKind) with false.
    change ((documentKind =? ParagraphKind) || (documentKind =? SetextHeadingKind)) with false. cbv iota.
    change (lastBlock (Blk documentKind s ls bk ik ind nn ch l lb)) with (lastBlock (Blk documentKind s e bk ik ind nn ch l lb)).
    destruct (lastBlock (Blk documentKind s e bk ik ind nn ch l lb)) as [c|] eqn:El.
    - destruct (Hn c eq_refl) as (n' & ->). unfold set_lastBlocks. rewrite bkids_set_bkids. cbn [bkids] in *.
      assert (Ell : lastL bk = Some c) by (rewrite <- El; apply (lastL_lastBlock (Blk documentKind s e bk ik ind nn ch l lb))).
      destruct (TVb_closeL b bk c n' ls Ell ltac:(lia) Cs H) as [T N].
      split; [split; [exact T|intros _; exact N]|left; split; [exact T|intros _; exact N]].
    - cbn [bkids] in *. split; [exact H|right]. unfold lastBlock in El. cbn [bkids] in El. destruct (rev bk) as [|x t] eqn:Erv; [|discriminate].
      rewrite <- (rev_involutive bk), Erv. reflexivity.
  Qed.

  Lemma R_openNew b p am : GI p -> EVp p -> TVb b p -> CL p -> (RN p \/ TVb true p) -> (am = true -> J0 p \/ TVb true p) -> state p <> stDescendTerminated ->
    let ht := fst (openNewBlocks p am) in let r := snd (openNewBlocks p am) in
    EVp r /\ TVb b r /\ state r <> stDescendTerminated /\
    (ht = true -> GI r /\ CL r /\ (RN r \/ TVb true r) /\ J0 r /\ L2Kind2.goodSt r) /\
    (ht = false -> TVb true r \/ (len (line p) = 0 /\ bkids (root r) = [])).
  Proof.
    intros HG HE H HC HR HJ Hst. cbv zeta. pose proof (L2Kind2.openNewBlocks_good p am) as Gd. unfold openNewBlocks in *.
    destruct (len (line p) =? 0) eqn:E0.
    { cbn [fst snd]. destruct (R_eof b p HG HE H) as [T1 T2]. split; [sev; exact HE|]. split; [exact T1|]. split; [exact Hst|]. split; [discriminate|].
      intros _. destruct T2 as [T2|T2]; [left; exact T2|right; split; [apply Z.eqb_eq, E0|exact T2]]. }
    pose proof (R_opening (S (length (line p))) b p HG HE H HC HR Hst) as O. cbv zeta in O.
    destruct (opening_loop (S (length (line p))) p) as [ht p1]. cbn [fst snd] in *.
    destruct O as (G1 & E1 & H1 & R1 & J1 & N1 & C1 & F1).
    destruct am; cbn [fst snd] in *.
    - split; [exact E1|]. split; [exact H1|]. split; [exact N1|]. split.
      + intros Ht. split; [exact G1|]. split; [apply C1, Ht|]. split; [exact R1|]. split; [destruct (J1 (HJ eq_refl)) as [J|J]; [exact J|apply J0_of_true, J]|apply Gd, Ht].
      + intros Ht. left. apply F1, Ht.
    - destruct ht.
      + destruct (R_deferredClose b p1 G1 E1 H1 (C1 eq_refl) R1) as (A1 & A2 & A3 & A4 & A5 & A6 & A7 & A8). cbv zeta in *.
        split; [exact A2|]. split; [exact A3|]. split; [rewrite A8; exact N1|]. split; [|discriminate].
        intros _. split; [exact A1|]. split; [exact A4|]. split; [exact A5|]. split; [exact A6|apply Gd; reflexivity].
      + specialize (F1 eq_refl). unfold deferredClose. cbv zeta. destruct (EVp_pos p1 E1) as (As & Bs & Cs & _).
        destruct (negb (isRestBlank p1) && _).
        * split; [sev; exact E1|]. split; [apply (TVb_root b p1); [reflexivity|exact H1]|]. split; [exact N1|]. split; [discriminate|]. intros _. left. apply (TVb_root true p1); [reflexivity|exact F1].
        * rewrite Bs. split; [sev; exact E1|]. split; [apply TVb_closeAt; try assumption; lia|]. split; [exact N1|]. split; [discriminate|]. intros _. left. apply TVb_closeAt; try assumption; lia.
  Qed.

  (* ================= addLineText ================= *)
  (* the facts handed to the next line *)
  Definition TW (l : list block) : Prop := tcl l /\ gaps src 0 l /\ nel ne0 l.
  Definition LASTP (r : lp) : Prop := forall c, top r = Some c -> bend c < 0 -> bkind c = ParagraphKind ->
    RootP src (len src) (bstart c) (bik c) /\ bik c <> [].
  Lemma TW_of_TVb b p : TVb b p -> TW (bkids (root p)).
  Proof. intros [(A & B & _ & _ & _ & F) _]. split; [exact A|split; [exact B|exact F]]. Qed.
  Lemma TW_last pre c c' : bstart c' = bstart c -> TVl (pre ++ [c]) -> TW (pre ++ [c']).
  Proof.
    intros Es (A & B & _ & _ & _ & F). unfold TW, tcl, nel in *. rewrite removelast_last in *. split; [exact A|]. split.
    - apply gaps_app_inv in B. destruct B as [B1 B2]. apply gaps_app; [exact B1|]. cbn [gaps] in *. rewrite Es. tauto.
    - intros _ N. destruct pre; discriminate.
  Qed.
  Lemma LASTP_of_NUl r : NUl (bkids (root r)) -> LASTP r.
  Proof. intros [_ N] c Hc Ho Hk. exfalso. apply (N c Hc Ho). rewrite Hk. reflexivity. Qed.

  (* two lists of root children that differ in fields of the last one that the invariant does not look at *)
  Definition lsim (l l' : list block) : Prop :=
    l' = l \/ exists pre c c', l = pre ++ [c] /\ l' = pre ++ [c'] /\ sameR c c' /\ bkind c' = bkind c.
  Lemma lsim_refl l : lsim l l. Proof. left. reflexivity. Qed.
  Lemma lsim_trans a b c : lsim a b -> lsim b c -> lsim a c.
  Proof.
    intros [->|(pre & x & x' & E1 & E2 & S1 & K1)] H2; [exact H2|]. destruct H2 as [->|(pre2 & y & y' & E3 & E4 & S2 & K2)].
    - right. exists pre, x, x'. split; [exact E1|]. split; [exact E2|]. split; [exact S1|exact K1].
    - rewrite E2 in E3. apply app_inj_tail in E3. destruct E3 as [<- <-]. right. exists pre, x, y'. split; [exact E1|]. split; [exact E4|]. split; [|congruence].
      destruct S1 as (A1 & A2 & A3 & A4). destruct S2 as (B1 & B2 & B3 & B4). split; [congruence|]. split; [congruence|]. split; [congruence|].
      intros Hp. destruct (A4 Hp) as [A5 A6]. assert (Hp' : isPSb (bkind x') = true) by (rewrite A3; exact Hp). destruct (B4 Hp') as [B5 B6].
      split; [congruence|]. intros E. apply A6, B6, E.
  Qed.
  Lemma bkind_updAt_S f d c : bkind (updAt (S d) f c) = bkind c.
  Proof. cbn [updAt]. destruct (lastBlock c); [destruct c; reflexivity|reflexivity]. Qed.
  Lemma lsim_updAt_S f d r : (forall x, sameR x (f x) /\ bkind (f x) = bkind x) -> lsim (bkids r) (bkids (updAt (S d) f r)).
  Proof.
    intros Hf. destruct (lastBlock r) as [c|] eqn:El; [|rewrite (updAt_S_none d f r El); apply lsim_refl].
    right. exists (removelast (bkids r)), c, (updAt d f c). split; [apply lastBlock_kids, El|]. split; [apply kids_updAt_S, El|].
    destruct d as [|d]; [apply Hf|split; [apply sameR_updAt_deep|apply bkind_updAt_S]].
  Qed.
  Lemma lsim_updAt f d r : (forall x, sameR x (f x) /\ bkind (f x) = bkind x /\ (d = O -> lsim (bkids x) (bkids (f x)))) -> lsim (bkids r) (bkids (updAt d f r)).
  Proof. intros Hf. destruct d as [|d]; [apply Hf; reflexivity|apply lsim_updAt_S; intros x; split; apply Hf]. Qed.
  Lemma TVb_lsim b p p' : lsim (bkids (root p)) (bkids (root p')) -> TVb b p -> TVb b p'.
  Proof.
    intros [E|(pre & c & c' & E1 & E2 & S1 & K1)] H; [apply (TVb_kids b p); assumption|]. unfold TVb, TV in *. rewrite E1 in H.
    apply (TVb_sameL b pre c c' _ S1 K1 E2 H).
  Qed.
  Lemma top_lsim p p' c' : lsim (bkids (root p)) (bkids (root p')) -> top p' = Some c' -> exists c, top p = Some c /\ sameR c c' /\ bkind c' = bkind c.
  Proof.
    unfold top. intros [E|(pre & c & x & E1 & E2 & S1 & K1)] Hc.
    - rewrite E in Hc. exists c'. split; [exact Hc|split; [apply sameR_refl|reflexivity]].
    - rewrite E2, lastL_snoc in Hc. inversion Hc; subst x. exists c. rewrite E1, lastL_snoc. split; [reflexivity|]. split; [exact S1|exact K1].
  Qed.
  Lemma J0_lsim p p' : cdepth p' = cdepth p -> lsim (bkids (root p)) (bkids (root p')) -> J0 p -> J0 p'.
  Proof.
    intros Ed Hl HJ E0 c' Hc' Ho Hp. destruct (top_lsim p p' c' Hl Hc') as (c & Hc & (S1 & S2 & S3 & _) & _).
    apply (HJ ltac:(congruence) c Hc); [lia|congruence].
  Qed.

  (* the paragraph gets the rest of the line *)
  Lemma RootP_ext s ik extra a' : (RootP src ls s ik \/ (ik = [] /\ ls <= s)) -> ls <= a' -> sptR src ls a' ->
    (exists q, a' <= q < len src /\ isSpaceTabOrLineEnding (at_ src q) = false) -> (forall u, In u extra -> ikind u <> UnparsedKind) ->
    RootP src (len src) s (ik ++ extra ++ [mkI UnparsedKind a' (len src)]).
  Proof.
    intros Hold Hle Hsp (w & Hw & Hwb) Hex. split.
    - intros q Hq Hn. destruct (Z.lt_ge_cases q ls) as [L|L].
      + destruct Hold as [[R1 _]|[_ R1]]; [|lia]. apply R1; [lia|]. intros (u & Hu & Hin). apply Hn. exists u. split; [apply in_or_app; left; exact Hu|exact Hin].
      + destruct (Z.lt_ge_cases q a') as [L2|L2]; [apply Hsp; lia|]. exfalso. apply Hn. exists (mkI UnparsedKind a' (len src)).
        split; [apply in_or_app; right; apply in_or_app; right; left; reflexivity|cbn; lia].
    - intros u Hu Hk. apply in_app_or in Hu. destruct Hu as [Hu|Hu].
      + destruct Hold as [[_ R2]|[E _]]; [apply R2; assumption|subst ik; destruct Hu].
      + apply in_app_or in Hu. destruct Hu as [Hu|[<-|[]]]; [exfalso; apply (Hex u Hu Hk)|]. exists w. cbn [istart iend mkI]. split; [lia|exact Hwb].
  Qed.
  Lemma notblank_ex : forall l : bytes, isBlankLine l = false -> exists j, 0 <= j < len l /\ isSpaceTabOrLineEnding (at_ l j) = false.
  Proof.
    unfold isBlankLine. induction l as [|c r IH]; intros H; [discriminate|]. cbn [forallb] in H. rewrite len_cons. pose proof (Zle_0_nat (length r)) as Hr. fold (len r) in Hr.
    destruct (isSpaceTabOrLineEnding c) eqn:Ec.
    - cbn [andb] in H. destruct (IH H) as (j & Hj & Hb). exists (j + 1). split; [lia|]. rewrite at_consS by lia. exact Hb.
    - exists 0. split; [lia|]. rewrite at_cons0. exact Ec.
  Qed.
  Lemma rest_witness p a' : EVp p -> isRestBlank p = false -> ls + li p <= a' -> sptR src (ls + li p) a' ->
    exists q, a' <= q < len src /\ isSpaceTabOrLineEnding (at_ src q) = false.
  Proof.
    intros HE Hb Hle Hsp. pose proof HE as (E1 & E2 & E3 & E4 & E5). unfold isRestBlank, rest in Hb. destruct (notblank_ex _ Hb) as (j & Hj & Hjb).
    rewrite len_from in Hj by lia. rewrite at_from in Hjb by lia. rewrite (EVp_at p _ HE) in Hjb by lia.
    assert (Hl : len (line p) = len src - ls) by (rewrite E3; apply len_from; lia).
    exists (ls + (li p + j)). split; [|exact Hjb]. split; [|lia].
    destruct (Z.lt_ge_cases (ls + (li p + j)) a') as [L|L]; [|exact L]. exfalso. specialize (Hsp (ls + (li p + j)) ltac:(lia)). apply isSpTab_blk in Hsp. unfold blk in Hsp. congruence.
  Qed.

  Lemma lsim_setLastBlank v : forall d rt, lsim (bkids rt) (bkids (setLastBlankUpTo d v rt)).
  Proof.
    assert (Step : forall d rt, lsim (bkids rt) (bkids (updAt d (fun x => set_blast x v) rt))).
    { intros d rt. apply lsim_updAt. intros x. split; [apply sameR_set_blast|]. split; [destruct x; reflexivity|]. intros _. left. destruct x; reflexivity. }
    induction d as [|d IH]; intros rt; cbn [setLastBlankUpTo]; [apply Step|]. eapply lsim_trans; [apply Step|apply IH].
  Qed.
  Lemma lsim_fblast d rt : lsim (bkids rt) (bkids (updAt d fblast rt)).
  Proof.
    apply lsim_updAt. intros x. unfold fblast. destruct (lastBlock x) as [c|] eqn:El.
    - split; [apply sameR_set_lastBlocks|]. split; [destruct x; reflexivity|]. intros _. right. exists (removelast (bkids x)), c, (set_blast c true).
      split; [apply lastBlock_kids, El|]. split; [unfold set_lastBlocks; apply bkids_set_bkids|]. split; [apply sameR_set_blast|destruct c; reflexivity].
    - split; [apply sameR_refl|]. split; [reflexivity|intros _; apply lsim_refl].
  Qed.

  Lemma A_p2 b p : GI p -> EVp p -> TVb b p -> CL p -> J0 p ->
    GI (alP2 p) /\ EVp (alP2 p) /\ TVb b (alP2 p) /\ CL (alP2 p) /\ J0 (alP2 p) /\
    containerKind (alP1 p) = containerKind p /\ containerKind (alP2 p) = containerKind p /\ cdepth (alP2 p) = cdepth p /\
    li (alP2 p) = li p /\ line (alP2 p) = line p /\ state (alP2 p) = state p /\ lsim (bkids (root p)) (bkids (root (alP2 p))).
  Proof.
    intros H HE HT HC HJ.
    assert (H1 : GI (alP1 p)).
    { unfold alP1. destruct (isRestBlank p); [|assumption]. apply GI_updCont; [assumption| |].
      - intros x _ Hcb Hgb. unfold fblast. destruct (lastBlock x) as [c|] eqn:El; [|split; [exact Hcb|split; [exact Hgb|apply sameAs_refl]]].
        split; [|split; [|apply sameAs_set_lastBlocks]].
        + eapply cc_set_lastBlocks; [exact Hcb|exact El|]. constructor; [|constructor].
          rewrite cc_set_blast, bkind_set_blast. split; [eapply cc_lastBlock; eassumption|apply compat_refl].
        + eapply gb_set_lastBlocks; [exact Hgb|exact El|]. apply okRepl_one; [|left; apply sameAs_set_blast].
          rewrite gb_set_blast. eapply gb_lastBlock; eassumption.
      - intros x. unfold fblast. destruct (lastBlock x); [apply isOpen_set_lastBlocks|reflexivity]. }
    assert (K1 : containerKind (alP1 p) = containerKind p).
    { unfold alP1. destruct (isRestBlank p); [|reflexivity]. apply L2Kind2.containerKind_updCont.
      intros x. unfold fblast. destruct (lastBlock x); [destruct x; reflexivity|reflexivity]. }
    assert (D1 : cdepth (alP1 p) = cdepth p) by (unfold alP1; destruct (isRestBlank p); reflexivity).
    assert (F1 : li (alP1 p) = li p /\ line (alP1 p) = line p /\ state (alP1 p) = state p) by (unfold alP1; destruct (isRestBlank p); repeat split).
    assert (E1 : EVp (alP1 p)) by (unfold alP1; destruct (isRestBlank p); [sev; exact HE|exact HE]).
    assert (L1 : lsim (bkids (root p)) (bkids (root (alP1 p)))).
    { unfold alP1. destruct (isRestBlank p); [|apply lsim_refl]. unfold updCont. cbn [root withRoot setLP]. apply lsim_fblast. }
    assert (H2 : GI (alP2 p)) by (apply GI_setLastBlank, H1).
    assert (K2 : containerKind (alP2 p) = containerKind p).
    { rewrite <- K1. unfold containerKind, contBlock, alP2, cdepth. cbn [root container withRoot setLP]. fold (cdepth (alP1 p)).
      match goal with |- bkind (match getAt ?k (setLastBlankUpTo ?d ?v ?r) with _ => _ end) = _ =>
        pose proof (L2Kind2.kindAt_setLastBlankUpTo v d k r) as E end.
      destruct (getAt (cdepth (alP1 p)) (setLastBlankUpTo _ _ _)); destruct (getAt (cdepth (alP1 p)) (root (alP1 p))); cbn in E; try congruence; reflexivity. }
    assert (L2 : lsim (bkids (root p)) (bkids (root (alP2 p)))).
    { eapply lsim_trans; [exact L1|]. unfold alP2. cbn [root withRoot setLP]. apply lsim_setLastBlank. }
    assert (D2 : cdepth (alP2 p) = cdepth p) by exact D1.
    destruct F1 as (F1 & F2 & F3).
    split; [exact H2|]. split; [unfold alP2; sev; exact E1|]. split; [apply (TVb_lsim b p); assumption|]. split; [|split; [|split; [|split; [|split; [|split; [|split; [|split]]]]]]]; try assumption.
    - intros Hl. apply (CLEAN_same p _ F1). apply HC. unfold lowK in *. rewrite K2, D2 in Hl. exact Hl.
    - apply (J0_lsim p); assumption.
  Qed.

  Lemma lsim_updAt_SS f d r : lsim (bkids r) (bkids (updAt (S (S d)) f r)).
  Proof.
    destruct (lastBlock r) as [c|] eqn:El; [|rewrite (updAt_S_none (S d) f r El); apply lsim_refl].
    right. exists (removelast (bkids r)), c, (updAt (S d) f c). split; [apply lastBlock_kids, El|]. split; [apply kids_updAt_S, El|].
    split; [apply sameR_updAt_deep|apply bkind_updAt_S].
  Qed.
  Lemma acc_notPS K : acceptsLines K = true -> K <> ParagraphKind -> isPSb K = false.
  Proof.
    unfold acceptsLines. intros H N. repeat (apply orb_true_iff in H; destruct H as [H|H]); apply Z.eqb_eq in H; subst K; try reflexivity. contradiction.
  Qed.
  Lemma TVb_setbik_nonA b q g : ~ (cdepth q = 1%nat /\ containerKind q = ParagraphKind) -> acceptsLines (containerKind q) = true ->
    TVb b q -> TVb b (updCont q (fun x => set_bik x (g x))).
  Proof.
    intros HN Ha H. destruct (cdepth q) as [|[|d]] eqn:Ed.
    - unfold updCont. rewrite Ed. apply TVb_updAt0; [intros x; destruct x; reflexivity|exact H].
    - apply (TVb_set_bik b q g (containerKind q)); [apply L2Kind2.ckind_self| |exact H]. apply acc_notPS; [exact Ha|]. intros E. apply HN. split; [reflexivity|exact E].
    - unfold updCont. rewrite Ed. apply (TVb_lsim b q); [|exact H]. cbn [root withRoot setLP]. apply lsim_updAt_SS.
  Qed.
  Lemma LASTP_vac r : ccP r -> ~ (cdepth r = 1%nat /\ containerKind r = ParagraphKind) -> (cdepth r = O -> J0 r) -> LASTP r.
  Proof.
    intros Hcc HN HJ c Hc Ho Hk. exfalso. destruct (cdepth r) as [|[|d]] eqn:Ed.
    - apply (HJ eq_refl Ed c Hc Ho). rewrite Hk. reflexivity.
    - apply HN. split; [reflexivity|]. rewrite (containerKind_at r c); [exact Hk|]. rewrite Ed, top_getAt1. exact Hc.
    - destruct (NUl_deep r Hcc ltac:(lia)) as [_ N]. apply (N c Hc Ho). rewrite Hk. reflexivity.
  Qed.
  Lemma upd1 q f c : cdepth q = 1%nat -> top q = Some c ->
    bkids (root (updCont q f)) = removelast (bkids (root q)) ++ [f c] /\ top (updCont q f) = Some (f c).
  Proof.
    intros Ed Ht. unfold updCont. rewrite Ed. cbn [root withRoot setLP]. unfold top in *. rewrite lastL_lastBlock in Ht.
    cbn [root withRoot setLP]. rewrite (kids_updAt_S O f _ c Ht). cbn [updAt]. split; [reflexivity|apply lastL_snoc].
  Qed.
  Lemma goF_para q : containerKind q = ParagraphKind ->
    goF q = updCont q (fun x => set_bik x (bik x ++ [mkI UnparsedKind (lineStart q + li q) (lineStart q + len (line q))])).
  Proof. intros E. unfold goF. cbv zeta. rewrite E. reflexivity. Qed.

  (* the last step on a root paragraph *)
  Lemma A_para_fin pre c0 c' q s ik extra : cdepth q = 1%nat -> bkids (root q) = pre ++ [c'] -> containerKind q = ParagraphKind -> EVp q -> CLEAN q ->
    (exists w, ls + li q <= w < len src /\ isSpaceTabOrLineEnding (at_ src w) = false) ->
    bstart c' = s -> bik c' = ik ++ extra -> (RootP src ls s ik \/ (ik = [] /\ ls <= s)) -> (forall u, In u extra -> ikind u <> UnparsedKind) ->
    TVl (pre ++ [c0]) -> bstart c0 = s ->
    TW (bkids (root (goF q))) /\ LASTP (goF q).
  Proof.
    intros Ed Ek EK HE HC Hw Es Eb Hold Hex HT Es0. rewrite (goF_para q EK).
    assert (Ht : top q = Some c') by (unfold top; rewrite Ek; apply lastL_snoc).
    destruct (upd1 q (fun x => set_bik x (bik x ++ [mkI UnparsedKind (lineStart q + li q) (lineStart q + len (line q))])) c' Ed Ht) as [U1 U2].
    rewrite Ek, removelast_last in U1. pose proof HE as (E1 & E2 & E3 & E4 & E5).
    assert (Hl : lineStart q + len (line q) = len src) by (rewrite E2, E3, len_from by lia; lia). rewrite Hl, E2 in *.
    split.
    - rewrite U1. apply (TW_last pre c0); [|exact HT]. rewrite Es0, <- Es. destruct c'; reflexivity.
    - intros c Hc Ho Hk. rewrite U2 in Hc. inversion Hc; subst c. clear Hc.
      assert (B1 : bstart (set_bik c' (bik c' ++ [mkI UnparsedKind (ls + li q) (len src)])) = s) by (rewrite <- Es; destruct c'; reflexivity).
      assert (B2 : bik (set_bik c' (bik c' ++ [mkI UnparsedKind (ls + li q) (len src)])) = ik ++ extra ++ [mkI UnparsedKind (ls + li q) (len src)]) by (destruct c'; cbn [bik set_bik] in *; rewrite Eb, <- app_assoc; reflexivity).
      rewrite B1, B2. split; [|intros N; apply app_eq_nil in N; destruct N as [_ N]; apply app_eq_nil in N; destruct N as [_ N]; discriminate].
      apply RootP_ext; try assumption. lia.
  Qed.

  Lemma goF_shape q : cdepth (goF q) = cdepth q /\ containerKind (goF q) = containerKind q.
  Proof.
    unfold goF. cbv zeta. set (q1 := updCont q _).
    assert (K1 : containerKind q1 = containerKind q) by (apply L2Kind2.containerKind_updCont; intros x; apply L2Kind2.bkind_set_bik).
    destruct (_ && _); [|split; [reflexivity|exact K1]]. split; [reflexivity|]. rewrite L2Kind2.containerKind_updCont; [exact K1|intros x; apply L2Kind2.bkind_set_bik].
  Qed.
  Lemma TVb_goF_nonA b q : ~ (cdepth q = 1%nat /\ containerKind q = ParagraphKind) -> acceptsLines (containerKind q) = true -> TVb b q -> TVb b (goF q).
  Proof.
    intros HN Ha H. unfold goF. cbv zeta. set (q1 := updCont q _).
    assert (K1 : containerKind q1 = containerKind q) by (apply L2Kind2.containerKind_updCont; intros x; apply L2Kind2.bkind_set_bik).
    assert (H1 : TVb b q1) by (unfold q1; apply TVb_setbik_nonA; assumption).
    destruct (_ && _); [|exact H1]. apply TVb_setbik_nonA; [change (cdepth q1) with (cdepth q); rewrite K1; exact HN|rewrite K1; exact Ha|exact H1].
  Qed.

  Lemma A_addLineText b p : GI p -> EVp p -> TVb b p -> CL p -> (RN p \/ TVb true p) -> J0 p -> L2Kind2.goodSt p ->
    TW (bkids (root (addLineText p))) /\ LASTP (addLineText p).
  Proof.
    intros HG HE H HC HR HJ Hgs.
    pose proof (GI_addLineText p HG Hgs) as Gr. rewrite addLineText_eq in *.
    destruct (A_p2 b p HG HE H HC HJ) as (G2 & E2 & H2 & C2 & J2 & K1 & K2 & D2 & Fli & Fln & Fst & L2).
    assert (T2 : TVb true p -> TVb true (alP2 p)) by (intros T; apply (TVb_lsim true p); assumption).
    set (q := alP2 p) in *. rewrite K1 in *. pose proof G2 as (Cq & _). pose proof E2 as (_ & Els & _ & _ & Eli).
    destruct (acceptsLines (containerKind p)) eqn:Ea.
    - (* the container takes the line *)
      set (q' := if tabCond q then addInd q else q) in *.
      assert (Q : cdepth q' = cdepth q /\ containerKind q' = containerKind q /\ EVp q' /\ (CLEAN q -> CLEAN q') /\ li q <= li q' /\
                  exists extra, (forall u, In u extra -> ikind u <> UnparsedKind) /\
                    (forall b', ~ (cdepth q = 1%nat /\ containerKind q = ParagraphKind) -> TVb b' q -> TVb b' q') /\
                    (cdepth q = 1%nat -> forall c, top q = Some c -> bkids (root q') = removelast (bkids (root q)) ++ [set_bik c (bik c ++ extra)])).
      { unfold q'. destruct (tabCond q).
        - unfold addInd. set (g0 := fun x : block => set_bik x (bik x ++ [Inl IndentKind (lineStart q + li q) (lineStart q + li q + 1) (tabRem q) [] []])).
          set (q1 := updCont q g0). assert (E1 : EVp q1) by (unfold q1; sev; exact E2).
          destruct (L2Kind2.same_consumeIndent q1 (tabRem q)) as [Sr Sc].
          split; [unfold cdepth; rewrite Sc; reflexivity|]. split.
          { rewrite (L2Kind2.containerKind_same _ _ (L2Kind2.same_consumeIndent q1 (tabRem q))). apply L2Kind2.containerKind_updCont. intros x. apply L2Kind2.bkind_set_bik. }
          split; [sev; exact E1|]. split; [intros Hc; apply CLEAN_consumeIndent; [exact E1|exact Hc]|]. split.
          { destruct (cs2_consumeIndent q1 (tabRem q)) as [_ X]. change (li q1) with (li q) in X. change (line q1) with (line q) in X. specialize (X Eli). lia. }
          exists [Inl IndentKind (lineStart q + li q) (lineStart q + li q + 1) (tabRem q) [] []]. split; [intros u [<-|[]]; discriminate|]. split.
          + intros b' HN Hb'. apply (TVb_root b' q1); [exact Sr|]. unfold q1, g0. apply TVb_setbik_nonA; [exact HN|rewrite K2; exact Ea|exact Hb'].
          + intros Ed c Hc. rewrite Sr. destruct (upd1 q g0 c Ed Hc) as [U _]. exact U.
        - split; [reflexivity|]. split; [reflexivity|]. split; [exact E2|]. split; [exact (fun X => X)|]. split; [lia|]. exists []. split; [intros u []|]. split; [intros b' _ X; exact X|].
          intros Ed c Hc. rewrite app_nil_r. replace (set_bik c (bik c)) with c by (destruct c; reflexivity). apply lastL_split. exact Hc. }
      destruct Q as (Qd & Qk & QE & QC & Qli & extra & Qex & QT & Qkids).
      destruct (Nat.eq_dec (cdepth q) 1) as [Ed|Nd]; [destruct (Z.eq_dec (containerKind q) ParagraphKind) as [Ek|Nk]|].
      + (* a root paragraph *)
        destruct (GI_wf q G2) as (x & Hx & Ho). rewrite Ed, top_getAt1 in Hx. unfold isOpen in Ho. apply Z.ltb_lt in Ho.
        assert (Kx : bkind x = ParagraphKind) by (rewrite <- Ek; symmetry; apply containerKind_at; rewrite Ed, top_getAt1; exact Hx).
        assert (Hps : isPSb (bkind x) = true) by (rewrite Kx; reflexivity).
        assert (Hrb : isRestBlank p = false).
        { destruct HR as [HR|HR]; [apply (proj1 HR); rewrite <- K2; exact Ek|]. exfalso. destruct (T2 HR) as [_ N]. destruct (N eq_refl) as [_ N']. apply (N' x Hx Ho Hps). }
        pose proof H2 as [HT2 _]. unfold TV in HT2. pose proof HT2 as (_ & _ & _ & _ & Eid & _). destruct (Eid x Hx Ho Hps) as [Hid _].
        assert (Hold : RootP src ls (bstart x) (bik x) \/ (bik x = [] /\ ls <= bstart x)).
        { destruct Hid as [(I1 & I2 & I3)|I]; [left; rewrite I1, I2; apply HR0, I3|right; exact I]. }
        assert (Hc' : CLEAN q') by (apply QC, C2; right; split; [exact Ed|rewrite Ek; split; discriminate]).
        rewrite (lastL_split _ _ Hx) in HT2.
        apply (A_para_fin (removelast (bkids (root q))) x (set_bik x (bik x ++ extra)) q' (bstart x) (bik x) extra); try assumption.
        * rewrite Qd; exact Ed.
        * apply Qkids; assumption.
        * rewrite Qk; exact Ek.
        * apply (rest_witness p (ls + li q') HE Hrb); [lia|]. apply (sptR_sub src ls (ls + li q')); [exact Hc'|lia|lia].
        * destruct x; reflexivity.
        * destruct x; reflexivity.
        * reflexivity.
      + (* depth 1, not a paragraph *)
        assert (HN : ~ (cdepth q = 1%nat /\ containerKind q = ParagraphKind)) by (intros [_ X]; contradiction).
        destruct (goF_shape q') as [Sd Sk].
        split; [apply (TW_of_TVb b), TVb_goF_nonA; [rewrite Qd, Qk; exact HN|rewrite Qk, K2; exact Ea|apply QT; assumption]|].
        apply LASTP_vac; [apply Gr|rewrite Sd, Sk, Qd, Qk; exact HN|rewrite Sd, Qd; intros X; lia].
      + assert (HN : ~ (cdepth q = 1%nat /\ containerKind q = ParagraphKind)) by (intros [X _]; contradiction).
        destruct (goF_shape q') as [Sd Sk].
        split; [apply (TW_of_TVb b), TVb_goF_nonA; [rewrite Qd, Qk; exact HN|rewrite Qk, K2; exact Ea|apply QT; assumption]|].
        apply LASTP_vac; [apply Gr|rewrite Sd, Sk, Qd, Qk; exact HN|rewrite Sd, Qd]. intros X. exfalso.
        pose proof Cq as (A & _). rewrite <- K2, (containerKind_root q X), A in Ea. discriminate.
    - destruct (negb (isRestBlank p)) eqn:Eb.
      + (* a new paragraph *)
        apply negb_true_iff in Eb.
        assert (So : L2Kind2.st_open q) by (unfold L2Kind2.st_open; rewrite Fst; apply Hgs; exact Ea).
        set (q0 := if state q =? stOpening then withState q stOpenMatched else q).
        assert (Hs0 : L2Kind2.same_tree q q0) by apply L2Kind2.same_opened. assert (C0 : ccP q0) by (unfold q0; scc).
        assert (Hclean : cdepth (openBlock_up (S (cdepth q0)) q0 ParagraphKind) = O -> CLEAN q).
        { intros Hd. apply C2. apply (lowK_same q q0 Hs0). apply (up_root _ q0 ParagraphKind C0 ltac:(discriminate) Hd). }
        destruct (TVb_openBlock b q ParagraphKind ltac:(discriminate) E2 H2 Hclean) as [T1 _].
        pose proof (cdepth_openBlock q ParagraphKind So) as Dq1. fold q0 in Dq1.
        set (q1 := openBlock q ParagraphKind) in *.
        assert (C1 : ccP q1) by (apply ccP_openBlock; [exact Cq|left; discriminate]).
        assert (Kq1 : containerKind q1 = ParagraphKind) by (apply ckind_containerKind; [exact C1|apply L2Kind2.ckind_openBlock, So]).
        assert (E1 : EVp q1) by (unfold q1; sev; exact E2).
        set (q2 := consumeIndent q1 (indent q1)) in *.
        destruct (L2Kind2.same_consumeIndent q1 (indent q1)) as [Sr Sc]. fold q2 in Sr, Sc.
        assert (Kq2 : containerKind q2 = ParagraphKind) by (unfold q2; rewrite (L2Kind2.containerKind_same _ _ (L2Kind2.same_consumeIndent q1 (indent q1))); exact Kq1).
        assert (Dq2 : cdepth q2 = cdepth q1) by (unfold cdepth; rewrite Sc; reflexivity).
        assert (E2' : EVp q2) by (unfold q2; sev; exact E1).
        assert (Tq2 : TVb false q2) by (apply (TVb_root false q1); [exact Sr|exact T1]).
        destruct (goF_shape q2) as [Sd Sk].
        destruct (cdepth (openBlock_up (S (cdepth q0)) q0 ParagraphKind)) as [|d] eqn:Eup.
        * (* at the root *)
          pose proof C1 as (_ & _ & (x & Hx)). pose proof (LA7.openBlock_cont q ParagraphKind x So Hx) as Enb. fold q1 in Hx. rewrite Dq1, top_getAt1 in Hx.
          rewrite Els in Enb.
          destruct T1 as [HT1 _]. unfold TV in HT1. rewrite (lastL_split _ _ Hx) in HT1.
          assert (Cq2 : CLEAN q2).
          { unfold q2. apply CLEAN_consumeIndent; [exact E1|]. apply (CLEAN_same q q1 (li_openBlock q ParagraphKind)). apply Hclean. reflexivity. }
          assert (Lq2 : li q <= li q2).
          { destruct (cs2_consumeIndent q1 (indent q1)) as [_ X]. fold q2 in X. pose proof E1 as (_ & _ & _ & _ & X1). specialize (X X1).
            pose proof (li_openBlock q ParagraphKind) as Lq1. fold q1 in Lq1. lia. }
          apply (A_para_fin (removelast (bkids (root q1))) x x q2 (ls + li q) [] []); try assumption.
          -- rewrite Dq2, Dq1. reflexivity.
          -- rewrite Sr. apply lastL_split. exact Hx.
          -- apply (rest_witness p (ls + li q2) HE Eb); [lia|]. apply (sptR_sub src ls (ls + li q2)); [exact Cq2|lia|lia].
          -- rewrite Enb. reflexivity.
          -- rewrite Enb. reflexivity.
          -- right. split; [reflexivity|lia].
          -- intros u [].
          -- rewrite Enb. reflexivity.
        * assert (HN : ~ (cdepth q2 = 1%nat /\ containerKind q2 = ParagraphKind)) by (rewrite Dq2, Dq1; intros [X _]; lia).
          split; [apply (TW_of_TVb false), TVb_goF_nonA; [exact HN|rewrite Kq2; reflexivity|exact Tq2]|].
          apply LASTP_vac; [apply Gr|rewrite Sd, Sk; exact HN|rewrite Sd, Dq2, Dq1; intros X; lia].
      + (* a blank line outside leaf blocks *)
        split; [apply (TW_of_TVb b), H2|]. apply LASTP_vac; [exact Cq| |intros _; exact J2].
        intros [_ X]. rewrite K2 in X. rewrite X in Ea. discriminate.
  Qed.

  Lemma kids_of_depth r : ccP r -> (1 <= cdepth r)%nat -> bkids (root r) <> [].
  Proof. intros (_ & _ & (x & Hx)) Hd. destruct (getAt_le (cdepth r) 1 _ _ Hd Hx) as (z & Hz). apply (getAt_S_kids O _ z Hz). Qed.
  Lemma lsim_nonnil l l' : lsim l l' -> l <> [] -> l' <> [].
  Proof. intros [->|(pre & c & c' & _ & -> & _)] H; [exact H|destruct pre; discriminate]. Qed.
  Lemma A_addLineText_ne b p : GI p -> EVp p -> TVb b p -> CL p -> J0 p -> L2Kind2.goodSt p ->
    (bkids (root p) <> [] \/ isRestBlank p = false) -> bkids (root (addLineText p)) <> [].
  Proof.
    intros HG HE H HC HJ Hgs Hne.
    pose proof (GI_addLineText p HG Hgs) as (Cr & _). rewrite addLineText_eq in *.
    destruct (A_p2 b p HG HE H HC HJ) as (G2 & E2 & H2 & C2 & J2 & K1 & K2 & D2 & Fli & Fln & Fst & L2).
    set (q := alP2 p) in *. rewrite K1 in *. pose proof HG as (Cp & _).
    destruct (acceptsLines (containerKind p)) eqn:Ea.
    - apply (kids_of_depth _ Cr). destruct (goF_shape (if tabCond q then addInd q else q)) as [Sd _]. rewrite Sd.
      assert (Dq : cdepth (if tabCond q then addInd q else q) = cdepth q).
      { destruct (tabCond q); [|reflexivity]. unfold addInd. destruct (L2Kind2.same_consumeIndent (updCont q (fun x => set_bik x (bik x ++ [Inl IndentKind (lineStart q + li q) (lineStart q + li q + 1) (tabRem q) [] []]))) (tabRem q)) as [_ Sc].
        unfold cdepth. rewrite Sc. reflexivity. }
      rewrite Dq, D2. apply (depth_pos_kind p Cp). intros E. rewrite E in Ea. discriminate.
    - destruct (negb (isRestBlank p)) eqn:Eb.
      + apply (kids_of_depth _ Cr).
        assert (So : L2Kind2.st_open q) by (unfold L2Kind2.st_open; rewrite Fst; apply Hgs; exact Ea).
        destruct (goF_shape (consumeIndent (openBlock q ParagraphKind) (indent (openBlock q ParagraphKind)))) as [Sd _]. rewrite Sd.
        destruct (L2Kind2.same_consumeIndent (openBlock q ParagraphKind) (indent (openBlock q ParagraphKind))) as [_ Sc]. unfold cdepth at 1. rewrite Sc. fold (cdepth (openBlock q ParagraphKind)).
        rewrite (cdepth_openBlock q ParagraphKind So). lia.
      + apply negb_false_iff in Eb. destruct Hne as [Hne|Hne]; [|congruence]. apply (lsim_nonnil _ _ L2 Hne).
  Qed.

  (* ================= one line ================= *)
  Theorem L_processLine b st children : 0 <= ls <= len src -> ccF children = true -> gbL children = true ->
    TVl children -> (b = true -> NUl children) -> (st = stDescendTerminated -> b = true) ->
    (children = [] -> isBlankLine (from_ src ls) = false) ->
    let r := processLine st children ls src in
    TW (fst (fst r)) /\
    (forall c, lastL (fst (fst r)) = Some c -> bend c < 0 -> bkind c = ParagraphKind -> RootP src (len src) (bstart c) (bik c) /\ bik c <> []) /\
    (snd (fst r) = stDescendTerminated -> NUl (fst (fst r))) /\
    (children = [] -> fst (fst r) <> []).
  Proof.
    intros Hls Hc Hg HT HN Hst Hnb. cbv zeta. unfold processLine. cbv zeta.
    set (p0 := resetLP st children ls src).
    assert (G0 : GI p0).
    { split; [|split].
      - unfold ccP, wf, p0, resetLP, cdepth. cbn [root container]. split; [reflexivity|split; [exact Hc|eexists; reflexivity]].
      - unfold p0, resetLP. cbn [root]. apply gb_intro; [reflexivity|exact Hg].
      - reflexivity. }
    assert (E0 : EVp p0).
    { unfold EVp, p0, resetLP. cbn [source lineStart line li]. split; [reflexivity|]. split; [reflexivity|]. split; [reflexivity|]. split; [exact Hls|].
      pose proof (Zle_0_nat (length (from_ src ls))). unfold len. lia. }
    assert (T0 : TVb b p0) by (split; [exact HT|exact HN]).
    assert (C0 : CL p0) by (intros _; unfold CLEAN; apply sptR_empty; cbn; lia).
    assert (R0 : RN p0).
    { split.
      - intros E. exfalso. rewrite (containerKind_root p0 eq_refl) in E. discriminate.
      - intros N. unfold isRestBlank, rest. change (li p0) with 0. change (line p0) with (from_ src ls). change (from_ (from_ src ls) 0) with (from_ src ls). apply Hnb. exact N. }
    destruct (bheight_S (root p0)) as (n & En).
    pose proof (D_descend (bheight (root p0)) b p0 O (proj1 G0) E0 T0 eq_refl C0 Hst) as D. cbv zeta in D.
    pose proof (GI_descend_loop (bheight (root p0)) p0 O G0 eq_refl) as G1.
    pose proof (RN_descend (bheight (root p0)) p0 O (proj1 G0) eq_refl R0) as R1.
    pose proof (J0_descend b n p0 E0 T0 eq_refl) as J1. rewrite <- En in J1.
    unfold descendOpenBlocks. destruct (descend_loop (bheight (root p0)) p0 O) as [am p1]. cbn [fst snd] in *.
    destruct D as (T1 & E1 & D3 & D4).
    destruct (state p1 =? stDescendTerminated) eqn:Es; cbn [negb].
    - apply Z.eqb_eq in Es. cbn [fst snd]. specialize (D3 Es). pose proof D3 as [_ N3]. specialize (N3 eq_refl).
      split; [apply (TW_of_TVb true), D3|]. split; [apply (LASTP_of_NUl p1 N3)|]. split; [intros _; exact N3|intros _; apply N3].
    - apply Z.eqb_neq in Es. specialize (D4 Es).
      pose proof (R_openNew b p1 am G1 E1 T1 D4 (or_introl R1) (fun X => or_introl (J1 X)) Es) as O. cbv zeta in O.
      destruct (openNewBlocks p1 am) as [ht p2]. cbn [fst snd] in *. destruct O as (E2 & T2 & S2 & O1 & O2).
      destruct ht.
      + destruct (O1 eq_refl) as (G2 & C2 & R2 & J2 & Gs2). cbn [fst snd].
        destruct (A_addLineText b p2 G2 E2 T2 C2 R2 J2 Gs2) as [A1 A2].
        split; [exact A1|]. split; [exact A2|]. split; [intros X; exfalso; exact (LA11.state_addLineText p2 S2 X)|]. intros _.
        apply (A_addLineText_ne b p2 G2 E2 T2 C2 J2 Gs2).
        destruct (bkids (root p2)) as [|k0 kr] eqn:Ek; [right|left; discriminate].
        destruct R2 as [R2|R2]; [apply (proj2 R2), Ek|]. exfalso. destruct R2 as [_ N]. destruct (N eq_refl) as [N' _]. apply N', Ek.
      + cbn [fst snd]. split; [apply (TW_of_TVb b), T2|]. destruct (O2 eq_refl) as [T|[L0 K0]].
        * pose proof T as [_ N3]. specialize (N3 eq_refl). split; [apply (LASTP_of_NUl p2 N3)|]. split; [intros _; exact N3|intros _; apply N3].
        * split; [intros c Hc'; rewrite K0 in Hc'; discriminate|]. split; [intros X; contradiction|]. intros Ech. exfalso.
          pose proof E1 as (_ & _ & El & _). rewrite El in L0. specialize (Hnb Ech). destruct (from_ src ls); [discriminate|]. unfold len in L0. cbn [length] in L0. lia.
  Qed.
End W.

Print Assumptions L_processLine.
