From Coq Require Import List ZArith Lia Bool.
Import ListNotations.
Require Import Base Tables Utf8 Tree Rdr Link Collect Html Recog Inl3a Inl3b Inl3c Inl3d Inl3e Driver Props SpanBridge InlineSpans.
Open Scope Z_scope.

(* The hypothesis of parseInlines_spans is satisfied by the leaf blocks the block layer produces (so the theorem is not vacuous),
   and the conclusion computed on the same leaves; run on whole documents through parseBlocks, with the reference labels of parseFull. *)
Definition concl (src : bytes) (m : list bytes) (b : block) : bool :=
  let ks := parseInlines src m b in
  ordered_in (bstart b) (bend b) ks && forallb (spansI false src (bstart b) (bend b)) ks.
Fixpoint leaves (fuel : nat) (b : block) : list block :=
  match fuel with O => [] | S f =>
    if (0 <? len (bik b)) && hasUnparsed b then [b] else flat_map (leaves f) (bkids b) end.
(* for every leaf with unparsed entries: (entriesOK, conclusion) *)
Definition run (input : bytes) : list (bool * bool) :=
  let '(roots, code) := parseBlocks input in
  let refs := fold_left (fun a r => extractB (bheight (rb_blk r)) (rb_blk r) a) roots [] in
  flat_map (fun r => map (fun b => (entriesOK (rb_src r) b, concl (rb_src r) refs b)) (leaves (bheight (rb_blk r)) (rb_blk r))) roots.
Definition allTrue (l : list (bool * bool)) : bool := forallb (fun x => fst x && snd x) l.
Definition t0 : bytes := [104;101;108;108;111;32;42;119;111;114;108;100;42;32;97;110;100;32;42;42;115;116;114;111;110;103;32;42;110;101;115;116;42;32;109;111;114;101;42;42;32;101;110;100;10].
Definition t1 : bytes := [97;32;91;108;105;110;107;93;40;104;116;116;112;58;47;47;120;46;121;32;34;116;105;116;108;101;10;111;118;101;114;32;116;119;111;34;41;32;98;10].
Definition t2 : bytes := [33;91;105;109;103;93;40;47;117;32;39;116;116;39;41;32;97;110;100;32;91;114;101;102;93;32;97;110;100;32;91;97;93;91;114;101;102;93;32;97;110;100;32;91;114;101;102;93;91;93;10;10;91;114;101;102;93;58;32;47;117;114;108;10].
Definition t3 : bytes := [99;111;100;101;32;96;97;10;98;96;32;97;110;100;32;96;96;32;120;32;96;32;121;32;96;96;32;122;10].
Definition t4 : bytes := [104;97;114;100;32;32;10;98;114;101;97;107;92;10;104;101;114;101;10].
Definition t5 : bytes := [114;97;119;32;60;97;32;104;114;101;102;61;34;120;34;10;32;32;98;61;39;99;39;62;32;116;97;103;32;60;33;45;45;32;99;32;45;45;62;32;60;63;112;105;63;62;32;60;98;47;62;10].
Definition t6 : bytes := [101;115;99;32;92;42;32;92;92;32;38;97;109;112;59;32;38;35;51;53;59;32;38;35;120;49;70;59;32;38;98;111;103;117;115;59;32;92;195;169;10].
Definition t7 : bytes := [112;97;114;97;10;32;32;32;32;105;110;100;101;110;116;101;100;32;99;111;110;116;105;110;117;97;116;105;111;110;10;9;97;110;100;32;116;97;98;10].
Definition t8 : bytes := [62;32;113;117;111;116;101;32;42;101;109;10;62;32;109;111;114;101;42;32;91;120;93;40;121;41;10].
Definition t9 : bytes := [45;32;105;116;101;109;32;42;97;42;32;96;99;96;10;32;32;99;111;110;116;32;42;42;98;42;42;10].
Definition t10 : bytes := [42;42;42;97;42;42;32;98;42;32;95;99;32;95;95;100;95;95;32;101;95;32;42;102;42;42;103;42;42;104;42;10].
Definition t11 : bytes := [60;104;116;116;112;58;47;47;97;117;116;111;46;108;105;110;107;62;32;60;109;101;64;120;46;99;111;109;62;32;60;110;111;116;97;116;97;103;10].
Definition t12 : bytes := [35;32;104;101;97;100;32;42;101;109;42;32;35;10;10;83;101;116;101;120;116;32;42;42;120;42;42;10;61;61;61;10].
Definition t13 : bytes := [91;97;32;42;98;93;40;99;41;32;100;42;32;33;91;120;32;91;121;93;40;122;41;93;40;119;41;32;91;91;110;93;40;109;41;93;40;111;41;10].
Definition t14 : bytes := [42;97;32;96;98;42;32;99;96;32;91;100;32;96;101;93;40;102;41;96;32;93;93;32;91;32;33;91;10].
Definition t15 : bytes := [97;92;10;32;32;9;98;32;32;10;32;32;32;99;10].
Definition t16 : bytes := [91;102;111;111;93;58;32;47;117;114;108;32;34;116;34;10;10;91;42;102;111;111;42;93;32;32;91;70;111;111;93;91;93;32;91;120;93;91;102;111;111;93;32;91;102;111;111;10;98;97;114;93;32;91;97;10;93;91;102;111;111;93;10].
Definition t17 : bytes := [91;108;105;110;107;93;40;60;100;101;115;116;32;119;105;116;104;32;115;112;62;32;40;112;97;114;101;110;32;116;105;116;108;101;41;41;32;91;108;93;40;32;47;117;10;32;32;34;116;34;10;32;41;10].
Definition t18 : bytes := [62;9;97;32;42;120;42;10;62;9;98;32;96;99;10;62;9;100;96;32;101;10].
Definition t19 : bytes := [45;32;97;10;32;9;98;32;42;99;42;10].
Definition t20 : bytes := [49;46;32;97;10;10;32;32;9;98;32;91;120;93;40;121;10;32;32;9;122;41;10].
Definition t21 : bytes := [62;9;60;97;10;62;9;98;61;34;99;10;62;9;100;34;62;32;32;10;62;9;120;10].
Definition t22 : bytes := [62;9;91;102;111;111;10;62;9;98;97;114;93;10;10;91;102;111;111;32;98;97;114;93;58;32;47;117;10].
Definition t23 : bytes := [35;32;91;97;93;40;98;32;35;10;41;10].
Definition t24 : bytes := [35;10].
Definition t25 : bytes := [35;32;35;10].
Definition t26 : bytes := [91;97;93;40;98;10;61;61;61;10].
Definition t27 : bytes := [45;32;91;97;93;40;98;10;10;32;32;41;10].
Definition t28 : bytes := [35;32;60;97;32;35;10;62;10].
Definition t29 : bytes := [97;10;61;61;61].
Definition t30 : bytes := [35;32;97].
Definition t31 : bytes := [62;32;97;10;62;10;62;32;98;32;42;99;42;10].
Definition t32 : bytes := [45;32;97;32;96;120;10;45;32;98;96;32;99;10].
Definition tests : list bytes := [t0;t1;t2;t3;t4;t5;t6;t7;t8;t9;t10;t11;t12;t13;t14;t15;t16;t17;t18;t19;t20;t21;t22;t23;t24;t25;t26;t27;t28;t29;t30;t31;t32].
Definition d0 : bytes := [62;32;91;93;40;47;117;120;92;10;62;32;41;10].
Definition d1 : bytes := [62;32;91;97;93;40;47;117;120;92;10;62;32;41;10].

(* every leaf of every test document satisfies entriesOK, and the conclusion holds on it *)
Lemma tests_ok : forallb (fun t => allTrue (run t)) tests = true.
Proof. vm_compute. reflexivity. Qed.
Lemma tests_nonempty : forallb (fun t => negb (len (run t) =? 0)) tests = true.
Proof. vm_compute. reflexivity. Qed.

(* defect D23, repaired (regression): before the repair of collectTextNodes the input "> [](/ux\<LF>> )" gave
   Link [2,13] > LinkDestination [5,9] > Text [5,10] (child past its parent); now the leaf satisfies entriesOK and the span statement *)
Example d23_regression : run d0 = [(true, true)] /\ run d1 = [(true, true)].
Proof. vm_compute. split; reflexivity. Qed.
Example d23_tree : (let '(roots, _) := parseBlocks d0 in
                    flat_map (fun r => flat_map (fun b => parseInlines (rb_src r) [] b) (leaves (bheight (rb_blk r)) (rb_blk r))) roots) =
  [Inl LinkKind 2 13 0 [] [Inl LinkDestinationKind 5 9 0 [] [Inl TextKind 5 9 0 [] []]]].
Proof. vm_compute. reflexivity. Qed.
(* an adversarial leaf for the original wording: entry [0,4] of the source "[a]()" (the byte after the last entry closes a link) *)
Lemma tail_counterexample :
  let src := [91; 97; 93; 40; 41] in
  let b := Blk ParagraphKind 0 4 [] [Inl UnparsedKind 0 4 0 [] []] 0 0 0 false false in
  entriesBasic src b = true /\ concl src [] b = false /\ entriesOK src b = false.
Proof. vm_compute. repeat split; reflexivity. Qed.
