From Coq Require Import List ZArith Lia Bool.
Import ListNotations.
Require Import Base.
Open Scope Z_scope.

(* parseThematicBreak (blocks.go:971): end or -1 *)
Fixpoint tb_loop (l : bytes) (i n want e : Z) : Z :=
  match l with
  | [] => if n <? 3 then -1 else e
  | b :: r =>
    if (b =? 45) || (b =? 95) || (b =? 42) then
      if n =? 0 then tb_loop r (i + 1) 1 b (i + 1)
      else if b =? want then tb_loop r (i + 1) (n + 1) want (i + 1) else -1
    else if isSpaceTabOrLineEnding b then tb_loop r (i + 1) n want e
    else -1
  end.
Definition parseThematicBreak (line : bytes) : Z := tb_loop line 0 0 0 0.

(* parseATXHeading (blocks.go:1006): (level, start, end); level 0 = no heading *)
Fixpoint countWhile (p : Z -> bool) (l : bytes) : Z :=
  match l with c :: r => if p c then 1 + countWhile p r else 0 | [] => 0 end.

Fixpoint atx_scanBack (fuel : nat) (line : bytes) (start e : Z) : Z * bool :=
  match fuel with
  | O => (e, false)
  | S f =>
    if e <=? start then (e, false) else
    let c := at_ line (e - 1) in
    if (c =? 13) || (c =? 10) then atx_scanBack f line start (e - 1)
    else if isSpTab c then (if isEndEscaped (upto line (e - 1)) then (e, false) else atx_scanBack f line start (e - 1))
    else if c =? 35 then (e, true)
    else (e, false)
  end.

(* returns (newEnd, 0 = return h unchanged | 1 = End:=Start | 2 = End:=i+1 then trim) *)
Fixpoint atx_trailing (fuel : nat) (line : bytes) (start i : Z) : Z * Z :=
  match fuel with
  | O => (start, 1)
  | S f =>
    if i <? start then (start, 1) else
    let c := at_ line i in
    if c =? 35 then atx_trailing f line start (i - 1)
    else if isSpTab c then (i + 1, 2)
    else (0, 0)
  end.

Fixpoint atx_trim (fuel : nat) (line : bytes) (start e : Z) : Z :=
  match fuel with
  | O => e
  | S f =>
    if e <=? start then e else
    let b := at_ line (e - 1) in
    if negb (isSpTab b) || isEndEscaped (upto line (e - 1)) then e else atx_trim f line start (e - 1)
  end.

Definition parseATXHeading (line : bytes) : Z * Z * Z :=
  let level := countWhile (fun c => c =? 35) line in
  if (level =? 0) || (6 <? level) then (0, 0, 0) else
  let i := level in
  if (len line <=? i) || (at_ line i =? 10) || (at_ line i =? 13) then (level, i, i) else
  if negb (isSpTab (at_ line i)) then (0, 0, 0) else
  let start := i + 1 + countWhile isSpTab (from_ line (i + 1)) in
  let fuel := S (length line) in
  let '(e1, hit) := atx_scanBack fuel line start (len line) in
  if negb hit then (level, start, e1) else
  let '(e2, mode) := atx_trailing fuel line start (e1 - 1) in
  if mode =? 0 then (level, start, e1)
  else (level, start, atx_trim fuel line start e2).

(* parseSetextHeadingUnderline (blocks.go:1088) *)
Fixpoint setext_loop (l : bytes) (c0 : Z) (level : Z) : Z :=
  match l with
  | [] => level
  | c :: r => if c =? c0 then setext_loop r c0 level else if isBlankLine l then level else 0
  end.
Definition parseSetextHeadingUnderline (line : bytes) : Z :=
  match line with
  | [] => 0
  | c :: r => if c =? 61 then setext_loop r c 1 else if c =? 45 then setext_loop r c 2 else 0
  end.

(* parseCodeFence (blocks.go:1122): (char, n, infoStart, infoEnd); n = 0 means no fence; info (-1,-1) when absent *)
Fixpoint firstNonWs (l : bytes) (i : Z) : Z :=
  match l with [] => -1 | c :: r => if isSpaceTabOrLineEnding c then firstNonWs r (i + 1) else i end.
Fixpoint trimEndWs (fuel : nat) (line : bytes) (start e : Z) : Z :=
  match fuel with
  | O => e
  | S f => if e <=? start then e else if isSpaceTabOrLineEnding (at_ line (e - 1)) then trimEndWs f line start (e - 1) else e
  end.
Definition parseCodeFence (line : bytes) : Z * Z * Z * Z :=
  let none := (0, 0, -1, -1) in
  match line with
  | [] => none
  | c0 :: _ =>
    if (len line <? 3) || negb ((c0 =? 96) || (c0 =? 126)) then none else
    let n := countWhile (fun c => c =? c0) line in
    if n <? 3 then none else
    let is := firstNonWs (from_ line n) n in
    if is <? 0 then (c0, n, -1, -1) else
    let ie := trimEndWs (S (length line)) line is (len line) in
    if (c0 =? 96) && existsb (fun c => c =? 96) (sub line is ie) then none
    else (c0, n, is, ie)
  end.

(* parseListMarker (blocks.go:1175): (delim, n, end); end = -1 means none *)
Fixpoint lm_digits (fuel : nat) (line : bytes) (i n : Z) : Z * Z * Z :=
  match fuel with
  | O => (0, 0, -1)
  | S f =>
    if (10 <=? i) || (len line <=? i) then (0, 0, -1) else
    let c := at_ line i in
    if isASCIIDigit c then lm_digits f line (i + 1) (n * 10 + (c - 48))
    else if (c =? 46) || (c =? 41) then
      (if hasTabOrSpacePrefixOrEOL (from_ line (i + 1)) then (c, n, i + 1) else (0, 0, -1))
    else (0, 0, -1)
  end.
Definition parseListMarker (line : bytes) : Z * Z * Z :=
  match line with
  | [] => (0, 0, -1)
  | c :: r =>
    if (c =? 45) || (c =? 43) || (c =? 42) then
      (if hasTabOrSpacePrefixOrEOL r then (c, 0, 1) else (0, 0, -1))
    else if isASCIIDigit c then lm_digits 11 line 1 (c - 48)
    else (0, 0, -1)
  end.
Definition lmIsOrdered (delim : Z) := (delim =? 46) || (delim =? 41).
