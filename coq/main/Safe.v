From Coq Require Import List ZArith Lia Bool.
Import ListNotations.
Require Import Base Tables Utf8 Tree Recog Inl3b Driver Inl3e Render.
Open Scope Z_scope.

(* ---- the language of safe output (Spec/SafeHtml.v) ---- *)
Definition inertb (t : bytes) : bool := forallb (fun c => negb (c =? 60) && negb (c =? 62) && negb (c =? 34)) t.
Definition tagVocab : list bytes :=
  [[112]; [104;49]; [104;50]; [104;51]; [104;52]; [104;53]; [104;54]; [112;114;101]; [99;111;100;101];
   [98;108;111;99;107;113;117;111;116;101]; [111;108]; [117;108]; [108;105]; [101;109]; [115;116;114;111;110;103]; [97]].
Definition voidVocab : list bytes := [[104;114]; [98;114]; [105;109;103]].
Definition attrVocab : list bytes := [s_href; s_title; s_src; s_alt; [99;108;97;115;115]; [115;116;97;114;116]].
Definition mem (l : list bytes) (n : bytes) : bool := existsb (Utf8.bytes_eqb n) l.

(* attribute lists:  name="value"  with a known name and a value that cannot close the quote or the tag *)
Inductive attrs_ok : bytes -> Prop :=
| AO_nil : attrs_ok []
| AO_cons n v rest : mem attrVocab n = true -> inertb v = true -> attrs_ok rest -> attrs_ok (attr n v ++ rest).

Inductive safe : bytes -> Prop :=
| S_nil : safe []
| S_text t : inertb t = true -> safe t
| S_cat a b : safe a -> safe b -> safe (a ++ b)
| S_elem n at_ body : mem tagVocab n = true -> attrs_ok at_ -> safe body ->
    safe ([60] ++ n ++ at_ ++ [62] ++ body ++ [60; 47] ++ n ++ [62])
| S_void n at_ : mem voidVocab n = true -> attrs_ok at_ -> safe ([60] ++ n ++ at_ ++ [62]).

(* ---- what a tree must satisfy leaf by leaf ---- *)
Fixpoint iok (ign : bool) (src : bytes) (i : inline) : bool :=
  match i with Inl k s e _ _ ks =>
    (if k =? CharacterReferenceKind then inertb (sub src s e) else true) &&
    (if k =? SoftLineBreakKind then inertb (sub src s e) else true) &&
    (if k =? RawHTMLKind then ign else true) &&
    forallb (iok ign src) ks
  end.
Fixpoint bok (ign : bool) (src : bytes) (b : block) : bool :=
  match b with Blk _ _ _ bk ik _ _ _ _ _ => forallb (bok ign src) bk && forallb (iok ign src) ik end.

(* ---- inertness of the escaping functions ---- *)
Lemma inertb_app a b : inertb (a ++ b) = inertb a && inertb b.
Proof. unfold inertb. apply forallb_app. Qed.

Lemma inertb_flat_map {A} (f : A -> bytes) l : (forall x, In x l -> inertb (f x) = true) -> inertb (flat_map f l) = true.
Proof.
  induction l as [|x l IH]; intros H; [reflexivity|]. cbn [flat_map]. rewrite inertb_app, H by (left; reflexivity).
  apply IH. intros y Hy. apply H. right. assumption.
Qed.

Lemma escapeHTML_inert s : inertb (escapeHTML s) = true.
Proof.
  unfold escapeHTML. apply inertb_flat_map. intros c _.
  destruct (c =? 38); [reflexivity|]. destruct (c =? 39); [reflexivity|].
  destruct (c =? 60) eqn:E1; [reflexivity|]. destruct (c =? 62) eqn:E2; [reflexivity|].
  destruct (c =? 34) eqn:E3; [reflexivity|]. cbn. rewrite E1, E2, E3. reflexivity.
Qed.

Lemma escapeString_inert s : inertb (escapeString s) = true.
Proof.
  unfold escapeString. apply inertb_flat_map. intros c _.
  destruct (c =? 38); [reflexivity|]. destruct (c =? 39); [reflexivity|].
  destruct (c =? 60) eqn:E1; [reflexivity|]. destruct (c =? 62) eqn:E2; [reflexivity|].
  destruct (c =? 34) eqn:E3; [reflexivity|]. cbn. rewrite E1, E2, E3. reflexivity.
Qed.

Lemma repeat_space_inert n : inertb (repeat 32 n) = true.
Proof. induction n; [reflexivity|]. cbn. assumption. Qed.

Lemma digit_inert d : 48 <= d <= 57 -> inertb [d] = true.
Proof.
  intros H. unfold inertb. cbn [forallb].
  destruct (Z.eqb_spec d 60); [lia|]. destruct (Z.eqb_spec d 62); [lia|]. destruct (Z.eqb_spec d 34); [lia|]. reflexivity.
Qed.

Lemma decimal_inert fuel n : 0 <= n -> inertb (decimal fuel n) = true.
Proof.
  revert n; induction fuel as [|f IH]; intros n Hn; [reflexivity|]. cbn [decimal].
  destruct (Z.ltb_spec n 10).
  - apply digit_inert. lia.
  - rewrite inertb_app, IH by (apply Z.div_pos; lia).
    pose proof (Z.mod_pos_bound n 10 ltac:(lia)). rewrite digit_inert by lia. reflexivity.
Qed.

(* ---- the renderer's output is safe ---- *)
Lemma safe_flat_map {A} (f : A -> bytes) l : (forall x, In x l -> safe (f x)) -> safe (flat_map f l).
Proof.
  induction l as [|x l IH]; intros H; [constructor|]. cbn [flat_map]. apply S_cat.
  - apply H. left; reflexivity.
  - apply IH. intros y Hy. apply H. right; assumption.
Qed.

Lemma forallb_In {A} (p : A -> bool) l x : forallb p l = true -> In x l -> p x = true.
Proof. intros H Hin. rewrite forallb_forall in H. apply H. assumption. Qed.

Section R.
  Variable c : cfg.
  Variable refs : list (bytes * linkDef).
  Variable src : bytes.
  Hypothesis nofilter : filterOn c = false.

  Lemma reject_false n : reject c n = false.
  Proof. unfold reject. rewrite nofilter. reflexivity. Qed.

  Lemma elem_safe n A body : mem tagVocab n = true -> attrs_ok A -> safe body ->
    safe (openTagAttr c n ++ A ++ [62] ++ body ++ closeTag c n).
  Proof.
    intros Hn HA Hb. unfold openTagAttr, closeTag. rewrite !reject_false.
    replace (([60] ++ n) ++ A ++ [62] ++ body ++ [60; 47] ++ n ++ [62])
      with ([60] ++ n ++ A ++ [62] ++ body ++ [60; 47] ++ n ++ [62]) by (rewrite <- !app_assoc; reflexivity).
    apply S_elem; assumption.
  Qed.

  Lemma elem0_safe n body : mem tagVocab n = true -> safe body -> safe (openTag c n ++ body ++ closeTag c n).
  Proof.
    intros Hn Hb. unfold openTag.
    replace ((openTagAttr c n ++ [62]) ++ body ++ closeTag c n)
      with (openTagAttr c n ++ [] ++ [62] ++ body ++ closeTag c n) by (rewrite <- !app_assoc; reflexivity).
    apply elem_safe; [assumption|constructor|assumption].
  Qed.

  Lemma void_safe n A : mem voidVocab n = true -> attrs_ok A -> safe (openTagAttr c n ++ A ++ [62]).
  Proof.
    intros Hn HA. unfold openTagAttr. rewrite reject_false.
    replace (([60] ++ n) ++ A ++ [62]) with ([60] ++ n ++ A ++ [62]) by (rewrite <- !app_assoc; reflexivity).
    apply S_void; assumption.
  Qed.

  Lemma br_safe : safe (openTag c s_brname ++ [10]).
  Proof.
    unfold openTag. apply S_cat.
    - replace (openTagAttr c s_brname ++ [62]) with (openTagAttr c s_brname ++ [] ++ [62]) by reflexivity.
      apply void_safe; [reflexivity|constructor].
    - apply S_text. reflexivity.
  Qed.

  Lemma attrs1 n v : mem attrVocab n = true -> inertb v = true -> attrs_ok (attr n v).
  Proof. intros. rewrite <- (app_nil_r (attr n v)). apply AO_cons; [assumption|assumption|constructor]. Qed.

  Lemma altText_inert : forall fuel i, iok (ignoreRaw c) src i = true -> inertb (altText fuel src i) = true.
  Proof.
    induction fuel as [|f IH]; intros i Hi; [reflexivity|].
    destruct i as [k s e ind r ks]. cbn [altText ikind spanOf istart iend ikids].
    cbn [iok] in Hi. apply andb_true_iff in Hi. destruct Hi as [Hi Hks].
    apply andb_true_iff in Hi. destruct Hi as [Hi _]. apply andb_true_iff in Hi. destruct Hi as [Hcr _].
    destruct (k =? TextKind); [apply escapeHTML_inert|].
    destruct (k =? CharacterReferenceKind); [exact Hcr|].
    destruct ((k =? IndentKind) || (k =? SoftLineBreakKind) || (k =? HardLineBreakKind)); [reflexivity|].
    destruct ((k =? LinkDestinationKind) || (k =? LinkTitleKind) || (k =? LinkLabelKind)); [reflexivity|].
    apply inertb_flat_map. intros x Hx. apply IH. eapply forallb_In; eassumption.
  Qed.

  Lemma linkAttrs_ok nm d : mem attrVocab nm = true ->
    attrs_ok (attr nm (escapeString (normalizeURI (ld_dest d))) ++
              (if ld_has d then attr s_title (escapeString (ld_title d)) else [])).
  Proof.
    intros Hn. apply AO_cons; [assumption|apply escapeString_inert|].
    destruct (ld_has d); [apply attrs1; [reflexivity|apply escapeString_inert]|constructor].
  Qed.

  Theorem renderI_safe : forall fuel i, iok (ignoreRaw c) src i = true -> safe (renderI fuel c refs src i).
  Proof.
    induction fuel as [|f IH]; intros i Hi; [constructor|].
    destruct i as [k s e ind r ks].
    pose proof Hi as Hi0.
    cbn [iok] in Hi. apply andb_true_iff in Hi. destruct Hi as [Hi Hks].
    apply andb_true_iff in Hi. destruct Hi as [Hi Hraw]. apply andb_true_iff in Hi. destruct Hi as [Hcr Hsoft].
    cbn [renderI ikind spanOf istart iend ikids iindent].
    assert (Hkids : safe (flat_map (renderI f c refs src) ks)).
    { apply safe_flat_map. intros x Hx. apply IH. eapply forallb_In; eassumption. }
    destruct ((k =? TextKind) || (k =? UnparsedKind)); [apply S_text, escapeHTML_inert|].
    destruct (k =? CharacterReferenceKind); [apply S_text; exact Hcr|].
    destruct (k =? RawHTMLKind).
    { rewrite Hraw. constructor. }
    destruct (k =? SoftLineBreakKind).
    { destruct (softBreak c =? 2); [apply br_safe|]. destruct (softBreak c =? 1); [apply S_text; reflexivity|].
      destruct (0 <? e - s); [apply S_text; exact Hsoft | apply S_text; reflexivity]. }
    destruct (k =? HardLineBreakKind); [apply br_safe|].
    destruct (k =? EmphasisKind); [apply elem0_safe; [reflexivity|assumption]|].
    destruct (k =? StrongKind); [apply elem0_safe; [reflexivity|assumption]|].
    destruct (k =? CodeSpanKind); [apply elem0_safe; [reflexivity|assumption]|].
    destruct (k =? LinkKind).
    { set (d := defOf refs src (Inl k s e ind r ks)).
      replace (openTagAttr c [97] ++ attr s_href (escapeString (normalizeURI (ld_dest d))) ++
               (if ld_has d then attr s_title (escapeString (ld_title d)) else []) ++ [62] ++
               flat_map (renderI f c refs src) ks ++ closeTag c [97])
        with (openTagAttr c [97] ++ (attr s_href (escapeString (normalizeURI (ld_dest d))) ++
               (if ld_has d then attr s_title (escapeString (ld_title d)) else [])) ++ [62] ++
               flat_map (renderI f c refs src) ks ++ closeTag c [97]) by (rewrite <- !app_assoc; reflexivity).
      apply elem_safe; [reflexivity|apply linkAttrs_ok; reflexivity|assumption]. }
    destruct (k =? ImageKind).
    { set (d := defOf refs src (Inl k s e ind r ks)).
      set (alt := altText (isize (Inl k s e ind r ks)) src (Inl k s e ind r ks)).
      replace (openTagAttr c [105;109;103] ++ attr s_src (escapeString (normalizeURI (ld_dest d))) ++
               (if ld_has d then attr s_title (escapeString (ld_title d)) else []) ++ attr s_alt alt ++ [62])
        with (openTagAttr c [105;109;103] ++ (attr s_src (escapeString (normalizeURI (ld_dest d))) ++
               (if ld_has d then attr s_title (escapeString (ld_title d)) else []) ++ attr s_alt alt) ++ [62])
        by (rewrite <- !app_assoc; reflexivity).
      apply void_safe; [reflexivity|].
      apply AO_cons; [reflexivity|apply escapeString_inert|].
      assert (Halt : attrs_ok (attr s_alt alt)) by (apply attrs1; [reflexivity|apply altText_inert; exact Hi0]).
      destruct (ld_has d); [|exact Halt].
      apply AO_cons; [reflexivity|apply escapeString_inert|exact Halt]. }
    destruct (k =? AutolinkKind).
    { set (dest := match ks with t :: _ => spanOf src t | [] => [] end).
      set (v := (if isEmailAddress dest then [109;97;105;108;116;111;58] else []) ++ escapeString (normalizeURI dest)).
      replace (openTagAttr c [97] ++ [32] ++ s_href ++ [61; 34] ++
               (if isEmailAddress dest then [109;97;105;108;116;111;58] else []) ++ escapeString (normalizeURI dest) ++
               [34; 62] ++ escapeString dest ++ closeTag c [97])
        with (openTagAttr c [97] ++ attr s_href v ++ [62] ++ escapeString dest ++ closeTag c [97])
        by (unfold attr, v; rewrite <- !app_assoc; reflexivity).
      apply elem_safe; [reflexivity| |apply S_text, escapeString_inert].
      apply attrs1; [reflexivity|]. unfold v. rewrite inertb_app, escapeString_inert.
      destruct (isEmailAddress dest); reflexivity. }
    destruct (k =? IndentKind); [apply S_text, repeat_space_inert|].
    destruct (k =? HTMLTagKind); [assumption|constructor].
  Qed.
End R.

Section RB.
  Variable c : cfg.
  Variable refs : list (bytes * linkDef).
  Variable src : bytes.
  Hypothesis nofilter : filterOn c = false.

  Lemma hTag_vocab l : mem tagVocab (hTag l) = true.
  Proof.
    unfold hTag. destruct ((1 <=? l) && (l <=? 5)) eqn:E; [|reflexivity].
    apply andb_true_iff in E. destruct E as [E1 E2]. apply Z.leb_le in E1, E2.
    assert (H : l = 1 \/ l = 2 \/ l = 3 \/ l = 4 \/ l = 5) by lia.
    destruct H as [->|[->|[->|[->| ->]]]]; reflexivity.
  Qed.

  Theorem renderB_safe : forall fuel pt b, bok (ignoreRaw c) src b = true -> safe (renderB fuel c refs src pt b).
  Proof.
    induction fuel as [|f IH]; intros pt b Hb; [constructor|].
    destruct b as [k s e bk ik ind n ch loose lb].
    cbn [bok] in Hb. apply andb_true_iff in Hb. destruct Hb as [Hbk Hik].
    cbn [renderB bkind bkids bik bn].
    set (kidsB := flat_map (renderB f c refs src (isTightList (Blk k s e bk ik ind n ch loose lb))) bk).
    set (kidsI := flat_map (fun i => renderI (isize i) c refs src i) ik).
    assert (HkB : safe kidsB).
    { apply safe_flat_map. intros x Hx. apply IH. eapply forallb_In; eassumption. }
    assert (HkI : safe kidsI).
    { apply safe_flat_map. intros x Hx. apply renderI_safe; [assumption|]. eapply forallb_In; eassumption. }
    assert (Hkids : safe (match bk with [] => kidsI | _ :: _ => kidsB end)) by (destruct bk; assumption).
    set (kids := match bk with [] => kidsI | _ :: _ => kidsB end) in *.
    destruct (k =? ParagraphKind).
    { destruct pt; [assumption|]. apply elem0_safe; [assumption|reflexivity|assumption]. }
    destruct (k =? ThematicBreakKind).
    { unfold openTag. replace (openTagAttr c [104;114] ++ [62]) with (openTagAttr c [104;114] ++ [] ++ [62]) by reflexivity.
      apply void_safe; [assumption|reflexivity|constructor]. }
    destruct (isHeading k); [apply elem0_safe; [assumption|apply hTag_vocab|assumption]|].
    destruct (isCode k).
    { set (cls := match _ with Some i0 => _ | None => [] end).
      replace (openTag c [112;114;101] ++ openTagAttr c [99;111;100;101] ++ cls ++ [62] ++ kids ++
               closeTag c [99;111;100;101] ++ closeTag c [112;114;101])
        with (openTag c [112;114;101] ++ (openTagAttr c [99;111;100;101] ++ cls ++ [62] ++ kids ++ closeTag c [99;111;100;101]) ++
              closeTag c [112;114;101]) by (rewrite <- !app_assoc; reflexivity).
      apply elem0_safe; [assumption|reflexivity|].
      apply elem_safe; [assumption|reflexivity| |assumption].
      unfold cls. destruct (if k =? FencedCodeBlockKind then _ else None) as [i0|]; [|constructor].
      set (w := firstField _ _ _). destruct (0 <? len w); [|constructor].
      change ([32;99;108;97;115;115;61;34;108;97;110;103;117;97;103;101;45] ++ escapeString w ++ [34])
        with (attr [99;108;97;115;115] ([108;97;110;103;117;97;103;101;45] ++ escapeString w)).
      apply attrs1; [reflexivity|]. rewrite inertb_app, escapeString_inert. reflexivity. }
    destruct (k =? BlockQuoteKind); [apply elem0_safe; [assumption|reflexivity|assumption]|].
    destruct (k =? ListKind).
    { destruct (isOrdered _); [|apply elem0_safe; [assumption|reflexivity|assumption]].
      set (num := match bk with it :: _ => listItemNumber src it | [] => -1 end).
      set (A := if (0 <=? num) && negb (num =? 1) then [32;115;116;97;114;116;61;34] ++ decimal 12 num ++ [34] else []).
      apply elem_safe; [assumption|reflexivity| |assumption].
      unfold A. destruct (Z.leb_spec 0 num); cbn [andb]; [|constructor].
      destruct (negb (num =? 1)); [|constructor].
      change ([32;115;116;97;114;116;61;34] ++ decimal 12 num ++ [34]) with (attr [115;116;97;114;116] (decimal 12 num)).
      apply attrs1; [reflexivity|apply decimal_inert; assumption]. }
    destruct (k =? ListItemKind); [apply elem0_safe; [assumption|reflexivity|assumption]|].
    destruct (k =? HTMLBlockKind); [destruct (ignoreRaw c); [constructor|assumption]|constructor].
  Qed.

  (* whole documents: blocks joined by blank lines *)
  Lemma joinBlocks_safe l : Forall safe l -> safe (joinBlocks l).
  Proof.
    induction l as [|x l IH]; intros H; [constructor|]. inversion H; subst.
    destruct l as [|y l']; [assumption|]. cbn [joinBlocks].
    apply S_cat; [assumption|]. apply S_cat; [apply S_text; reflexivity|]. apply IH. assumption.
  Qed.
End RB.

(* C07: with the tag filter unset and raw HTML ignored (or absent), every tree whose leaves are sane renders to safe HTML *)
Theorem C07_render_safe c refs src fuel b :
  filterOn c = false -> bok (ignoreRaw c) src b = true -> safe (renderB fuel c refs src false b).
Proof. intros. apply renderB_safe; assumption. Qed.
Print Assumptions C07_render_safe.
