From Coq Require Import List ZArith Lia Bool.
Import ListNotations.
Require Import Base Tree Rdr Link Collect Html Recog LP Rules Starts Driver Render L2Kind L2CC GramDefs GramTree GramLP GramLP2 GramLP3
  Rec17 Rec18 BSLine1 BSLine3 TilBase TilDefs.
Open Scope Z_scope.

(* ================= basic steps of the line parser ================= *)

(* ---- the frame: source, line start and line never change; the cursor only moves forward inside the line ---- *)
Definition fr (p p' : lp) : Prop :=
  source p' = source p /\ lineStart p' = lineStart p /\ line p' = line p /\
  (0 <= li p <= len (line p) -> li p <= li p' <= len (line p)).
Lemma fr_refl p : fr p p. Proof. repeat split; lia. Qed.
Lemma fr_trans a b c : fr a b -> fr b c -> fr a c.
Proof.
  intros (A1 & A2 & A3 & A4) (B1' & B2 & B3 & B4). repeat split; try congruence.
  - specialize (A4 H). rewrite A3 in B4. specialize (B4 ltac:(lia)). lia.
  - specialize (A4 H). rewrite A3 in B4. specialize (B4 ltac:(lia)). lia.
Qed.
Lemma fr_cstep p p' : cstep p p' -> fr p p'.
Proof. intros (_ & (E1 & E2 & E3) & H). repeat split; try assumption; specialize (H H0); lia. Qed.
Lemma fr_fields p p' : source p' = source p -> lineStart p' = lineStart p -> line p' = line p -> li p' = li p -> fr p p'.
Proof. intros A B C D. repeat split; try assumption; rewrite D; lia. Qed.
Lemma EV_fr p p' : fr p p' -> EV p -> EV p'.
Proof.
  intros (A & B & C & D) (E1 & E2 & E3 & E4). specialize (D E3). unfold EV. rewrite A, B, C. repeat split; try assumption; lia.
Qed.

Definition TI (p : lp) : Prop := GI p /\ EV p /\ TT p.

(* ---- container and top ---- *)
Lemma top_cont1 p c : cdepth p = 1%nat -> top p = Some c -> getAt (cdepth p) (root p) = Some c.
Proof. intros E H. rewrite E. cbn [getAt]. rewrite lastBlock_lastL. unfold top in H. rewrite H. reflexivity. Qed.
Lemma top_getAt1 p : getAt 1 (root p) = top p.
Proof. cbn [getAt]. rewrite lastBlock_lastL. unfold top. destruct (lastL (bkids (root p))); reflexivity. Qed.
Lemma contKind_top p c : cdepth p = 1%nat -> top p = Some c -> containerKind p = bkind c.
Proof. intros E H. unfold containerKind, contBlock. rewrite (top_cont1 p c E H). reflexivity. Qed.

(* a container that is neither the root nor a paragraph: the blank-prefix clauses do not apply *)
Definition loud (p : lp) : Prop := cdepth p <> O /\ (forall c, cdepth p = 1%nat -> top p = Some c -> bkind c <> ParagraphKind).
Lemma loud_not_quiet p : loud p -> ~ quiet p.
Proof. intros [A B] [H|(H & c & Hc & Hk & _)]; [contradiction|]. exact (B c H Hc Hk). Qed.
Lemma loud_of_kind p K : ccP p -> containerKind p = K -> K <> documentKind -> K <> ParagraphKind -> loud p.
Proof.
  intros (A & _) E N1 N2. split.
  - intros E0. rewrite (containerKind_root p E0), A in E. congruence.
  - intros c E1 Hc. rewrite (contKind_top p c E1 Hc) in E. congruence.
Qed.
Lemma loud_ckind p K : ccP p -> ckind p K -> K <> documentKind -> K <> ParagraphKind -> loud p.
Proof. intros H Hk. apply loud_of_kind; [exact H|apply containerKind_of; assumption]. Qed.

Lemma TT_loud p : T0 p -> loud p -> TT p.
Proof.
  intros (A & D & E & F) HL. split; [exact A|]. split; [|split; [|split; [exact D|split; [exact E|exact F]]]].
  - intros Hq. exfalso. exact (loud_not_quiet p HL Hq).
  - intros E0. destruct HL as [HL _]. contradiction.
Qed.

(* ---- steps that keep the tree and the container ---- *)
Lemma TT_same_cursor p p' : same_tree p p' -> fr p p' -> li p' = li p -> TT p -> TT p'.
Proof.
  intros [E1 E2] (F1 & F2 & F3 & _) E3. apply TT_ksim; try assumption.
  - unfold cdepth. rewrite E2. reflexivity.
  - rewrite E1. apply ksim_refl.
Qed.
Lemma TI_same_cursor p p' : same_tree p p' -> fr p p' -> li p' = li p -> TI p -> TI p'.
Proof. intros S F L (A & B & C). split; [eapply GI_same; eassumption|]. split; [eapply EV_fr; eassumption|eapply TT_same_cursor; eassumption]. Qed.
Lemma TI_opened p : TI p -> TI (if state p =? stOpening then withState p stOpenMatched else p).
Proof. apply TI_same_cursor; [apply same_opened|destruct (_ =? _); apply fr_fields; reflexivity|destruct (_ =? _); reflexivity]. Qed.
Lemma TI_withState p st : TI p -> TI (withState p st).
Proof. apply TI_same_cursor; [split; reflexivity|apply fr_fields; reflexivity|reflexivity]. Qed.
Lemma TI_panic p st : TI p -> TI (panic p st).
Proof. apply TI_same_cursor; [split; reflexivity|apply fr_fields; reflexivity|reflexivity]. Qed.

(* the cursor moves over spaces and tabs *)
Lemma TT_move_spt p p' : same_tree p p' -> fr p p' -> EV p -> sptR (source p) (cur p) (cur p') -> TT p -> TT p'.
Proof.
  intros [E1 E2] (F1 & F2 & F3 & F4) HE Hs (A & B & C & D & E & F).
  assert (Ecd : cdepth p' = cdepth p) by (unfold cdepth; rewrite E2; reflexivity).
  assert (Etop : top p' = top p) by (unfold top; rewrite E1; reflexivity).
  unfold TT, TA, TB1, TB2, TP, TS, TC, B1, quiet, topOpen. rewrite E1, F1, F2, Ecd, Etop.
  split; [exact A|]. split; [|split; [|split; [exact D|split; [exact E|exact F]]]].
  - intros Hq Ho. eapply sptR_app; [apply B; assumption|exact Hs].
  - intros Hd c Hc Ho. eapply blankR_app; [apply (C Hd c Hc Ho)|apply sptR_blankR, Hs].
Qed.
(* the cursor moves while a loud block is the container *)
Lemma T0_same p p' : root p' = root p -> source p' = source p -> lineStart p' = lineStart p -> T0 p -> T0 p'.
Proof. intros E1 E2 E3. apply T0_ksim; [exact E2|exact E3|rewrite E1; apply ksim_refl]. Qed.
Lemma TT_move_loud p p' : same_tree p p' -> fr p p' -> loud p -> TT p -> TT p'.
Proof.
  intros [E1 E2] (F1 & F2 & F3 & F4) HL H.
  assert (Ecd : cdepth p' = cdepth p) by (unfold cdepth; rewrite E2; reflexivity).
  assert (Etop : top p' = top p) by (unfold top; rewrite E1; reflexivity).
  apply TT_loud; [eapply T0_same; [exact E1|exact F1|exact F2|apply TT_T0, H]|].
  unfold loud. rewrite Ecd, Etop. exact HL.
Qed.

Lemma cur_consumeIndent_loop : forall fuel p n, EV p ->
  sptR (source p) (cur p) (cur (consumeIndent_loop fuel p n)).
Proof.
  induction fuel as [|f IH]; intros p n HE; [cbn [consumeIndent_loop]; apply sptR_empty; lia|]. cbn [consumeIndent_loop].
  destruct (n <=? 0); [apply sptR_empty; lia|]. cbv zeta.
  set (p0 := if state p =? stOpening then withState p stOpenMatched else p).
  assert (E0 : EV p0 /\ cur p0 = cur p /\ source p0 = source p /\ li p0 = li p /\ line p0 = line p /\ lineStart p0 = lineStart p).
  { unfold p0. destruct (state p =? stOpening); repeat split; try reflexivity; apply HE. }
  destruct E0 as (HE0 & Ec & Es & El & Eln & Els). rewrite <- Ec, <- Es.
  destruct (Z.ltb_spec (li p0) (len (line p0))) as [L|L]; cbn [andb]; [|apply sptR_empty; unfold cur; cbn; lia].
  pose proof HE0 as (_ & _ & Hli & _).
  assert (Hstep : forall cl tr c, at_ (line p0) (li p0) = c -> isSpTab c = true ->
            EV (withCursor p0 (li p0 + 1) cl tr) /\ sptR (source p0) (cur p0) (cur (withCursor p0 (li p0 + 1) cl tr))).
  { intros cl tr c Ec' Hc. split.
    - destruct HE0 as (X1 & X2 & X3 & X4). unfold EV. cbn [withCursor setLP source lineStart line li]. repeat split; try assumption; lia.
    - intros i Hi. unfold cur in Hi. cbn [withCursor setLP lineStart li] in Hi. assert (i = lineStart p0 + li p0) by lia. subst i.
      rewrite <- (EV_at p0 (li p0) HE0) by lia. rewrite Ec'. exact Hc. }
  destruct (Z.eqb_spec (at_ (line p0) (li p0)) 32) as [E32|N32].
  { destruct (Hstep (col p0 + 1) (computeTabRem (line p0) (li p0 + 1) (col p0 + 1)) 32 E32 eq_refl) as [H1 H2].
    eapply sptR_app; [exact H2|]. apply (IH _ (n - 1) H1). }
  destruct (Z.eqb_spec (at_ (line p0) (li p0)) 9) as [E9|N9]; [|apply sptR_empty; unfold cur; cbn; lia].
  destruct (n <? tabRem p0); [apply sptR_empty; unfold cur; cbn; lia|].
  destruct (Hstep (col p0 + tabRem p0) (computeTabRem (line p0) (li p0 + 1) (col p0 + tabRem p0)) 9 E9 eq_refl) as [H1 H2].
  eapply sptR_app; [exact H2|]. apply (IH _ (n - tabRem p0) H1).
Qed.

Lemma TI_consumeIndent p n : TI p -> TI (consumeIndent p n).
Proof.
  intros (A & B & C). split; [apply GI_consumeIndent, A|]. pose proof (fr_cstep _ _ (cstep_consumeIndent p n)) as F.
  split; [eapply EV_fr; eassumption|].
  eapply TT_move_spt; [apply same_consumeIndent|exact F|exact B| |exact C]. apply cur_consumeIndent_loop, B.
Qed.
Lemma TI_advance p n : TI p -> loud p -> TI (advance p n).
Proof.
  intros (A & B & C) HL. split; [apply GI_advance, A|]. pose proof (fr_cstep _ _ (cstep_advance p n)) as F.
  split; [eapply EV_fr; eassumption|]. eapply TT_move_loud; [apply same_advance|exact F|exact HL|exact C].
Qed.
Lemma TI_consumeLine p : TI p -> loud p -> TI (consumeLine p).
Proof.
  intros (A & B & C) HL. split; [apply GI_consumeLine, A|]. pose proof (fr_cstep _ _ (cstep_consumeLine p)) as F.
  split; [eapply EV_fr; eassumption|]. eapply TT_move_loud; [apply same_consumeLine|exact F|exact HL|exact C].
Qed.
Lemma loud_same p p' : same_tree p p' -> loud p -> loud p'.
Proof. intros [E1 E2]. unfold loud, top, cdepth. rewrite E1, E2. tauto. Qed.

Lemma li_advance_all p : 0 <= li p <= len (line p) -> li (advance p (len (line p) - li p)) = len (line p).
Proof.
  intros H. unfold advance. destruct (Z.ltb_spec (len (line p) - li p) 0); [lia|].
  destruct (Z.eqb_spec (len (line p) - li p) 0) as [E|N]; [lia|]. cbv zeta.
  set (p0 := if state p =? stOpening then withState p stOpenMatched else p).
  assert (E0 : li p0 = li p /\ line p0 = line p) by (unfold p0; destruct (state p =? stOpening); split; reflexivity).
  destruct E0 as [E1 E2]. rewrite E1, E2. destruct (Z.ltb_spec (len (line p)) (li p + (len (line p) - li p))); [lia|].
  cbn [withCursor setLP li]. lia.
Qed.
Lemma li_consumeLine p : 0 <= li p <= len (line p) -> li (consumeLine p) = len (line p) /\ line (consumeLine p) = line p.
Proof.
  intros H. pose proof (li_advance_all p H) as E. pose proof (cstep_advance p (len (line p) - li p)) as (_ & (_ & E2 & _) & _).
  unfold consumeLine. cbv zeta.
  destruct (_ || _); [cbn [withState setLP li line]; tauto|]. destruct (_ =? stDescending); [cbn [withState setLP li line]; tauto|tauto].
Qed.
