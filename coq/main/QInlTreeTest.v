From Coq Require Import List ZArith Lia Bool String Ascii.
Import ListNotations.
Require Import Base Tree LP Driver Inl3a Inl3e Render SliceBase QuoteSimDefs QuoteSimDrv1 QuoteSimTest QS2Test QCutsDef QIRdrBase QInlDefs.
Open Scope Z_scope.
Fixpoint pneqb (a b : pn) {struct a} : bool :=
  match a, b with PN i k s e n r ks, PN i' k' s' e' n' r' ks' =>
    (i =? i') && (k =? k') && (s =? s') && (e =? e') && (n =? n') && leqb Z.eqb r r' &&
    (fix go (l l' : list pn) := match l, l' with [], [] => true | x :: t, y :: t' => pneqb x y && go t t' | _, _ => false end) ks ks' end.
Fixpoint slb (sD : bytes) (n : pn) {struct n} : bool :=
  match n with PN i k s e _ _ ks =>
    ((i =? 0) || negb (splitK k && (s <? e)) || (len (cuts sD s e) =? 1)) && forallb (slb sD) ks end.
Definition deqb (a b : delim) := (d_typ a =? d_typ b) && (d_flags a =? d_flags b) && (d_n a =? d_n b) && (d_node a =? d_node b).
Definition irb (sD : bytes) (sg : Z -> Z) (st st' : ist) : bool :=
  leqb ieqb (unp st') (map (mvS sg) (unp st)) && (upos st' =? upos st) && leqb deqb (stk st') (stk st) && Bool.eqb (ign st') (ign st) &&
  (nid st' =? nid st) && leqb pneqb (rk st') (qPs sD sg (rk st)) && forallb (slb sD) (rk st) && ((len (unp st) <=? upos st) || (spanEnd st <=? rootEnd st)) && (0 <? rootEnd st).
Fixpoint iloop2 (fuel : nat) sD sg (st st' : ist) (pos pos' ps ps' : Z) : bool * (ist * Z) * (ist * Z) :=
  match fuel with
  | O => (true, (st, ps), (st', ps'))
  | S f =>
    if (upos st <? len (unp st)) && (pos <? spanEnd st) then
      let '(st1, p1, q1) := istep st pos ps in
      let '(st1', p1', q1') := istep st' pos' ps' in
      let ok := irb sD sg st1 st1' in
      let '(ok2, a, b) := iloop2 f sD sg st1 st1' p1 p1' q1 q1' in (ok && ok2, a, b)
    else (true, (st, ps), (st', ps'))
  end.
Fixpoint outer2 (fuel : nat) sD sg (st st' : ist) : bool :=
  match fuel with
  | O => true
  | S f =>
    if len (unp st) <=? upos st then true else
    let u := nth (Z.to_nat (upos st)) (unp st) (mkI 0 0 0) in
    let u' := nth (Z.to_nat (upos st')) (unp st') (mkI 0 0 0) in
    if ikind u =? UnparsedKind then
      let pos := istart u in let pos' := istart u' in
      let pos := if ign st then skipSpTab (List.length (isrc st)) (isrc st) pos (spanEnd st) else pos in
      let pos' := if ign st' then skipSpTab (List.length (isrc st')) (isrc st') pos' (spanEnd st') else pos' in
      let st0 := setIgn st false in let st0' := setIgn st' false in
      let '(ok, (st1, ps), (st1', ps')) := iloop2 (S (List.length (isrc st))) sD sg st0 st0' pos pos' pos pos' in
      let st2 := addText st1 ps (spanEnd st1) in let st2' := addText st1' ps' (spanEnd st1') in
      ok && irb sD sg st2 st2' && outer2 f sD sg (setUpos st2 (upos st2 + 1)) (setUpos st2' (upos st2' + 1))
    else true
  end.
Definition leaf2 (sD sQ : bytes) sg (m : list bytes) (b b' : block) : bool :=
  let st := {| rk := []; isrc := sD; unp := bik b; upos := 0; stk := []; ign := false; nid := 1; rootEnd := bend b; matcher := m |} in
  let st' := {| rk := []; isrc := sQ; unp := bik b'; upos := 0; stk := []; ign := false; nid := 1; rootEnd := bend b'; matcher := m |} in
  outer2 (S (List.length (bik b))) sD sg st st'.
Fixpoint tree2 (fuel : nat) (sD sQ : bytes) sg m (b b' : block) : bool :=
  match fuel with O => true | S f =>
    if (0 <? len (bik b)) && hasUnparsed b then leaf2 sD sQ sg m b b'
    else (fix go (l l' : list block) := match l, l' with x :: t, y :: t' => tree2 f sD sQ sg m x y && go t t' | _, _ => true end) (bkids b) (bkids b') end.
Definition chk6 (D : bytes) : bool :=
  let '(roots, _) := parseBlocks D in
  let refs := fold_left (fun a r => extractB (bheight (rb_blk r)) (rb_blk r) a) roots [] in
  match parseBlocks (quote D) with
  | ([q], _) => (fix go (l : list rootB) (l' : list block) := match l, l' with r :: t, y :: t' => tree2 (bheight (rb_blk r)) (rb_src r) (quote D) (sgO D (rb_start r)) refs (rb_blk r) y && go t t' | _, _ => true end) roots (bkids (rb_blk q))
  | _ => false end.
Compute (filter (fun s => negb (chk6 (s2b s))) (docs ++ docs2)).
Definition A5 : bytes := [97; 32; 10; 60; 62; 42; 96].
Definition A6 : bytes := [97; 10; 91; 93; 40; 41; 33].
Definition A7 : bytes := [97; 10; 42; 95; 92; 38; 35].
Time Compute (filter (fun D => negb (chk6 D)) (allStr A5 5), filter (fun D => negb (chk6 D)) (allStr A6 5), filter (fun D => negb (chk6 D)) (allStr A7 5)).
