From Coq Require Import List ZArith Lia Bool.
Import ListNotations.
Require Import Base Tree Rdr Link Collect Html Recog LP Rules Starts Driver Leaf3e RdrBound L2Kind L2Kind2 L2CC TRdr TDefs TOcp TInv TDesc TStarts.
Open Scope Z_scope.

(* ---- tryStarts and the opening loop ---- *)
Lemma blockStarts_spec : Forall StartSpec blockStarts.
Proof.
  unfold blockStarts.
  apply Forall_cons; [exact spec_startBlockQuote|]. apply Forall_cons; [exact spec_startATX|].
  apply Forall_cons; [exact spec_startFenced|]. apply Forall_cons; [exact spec_startHTML|].
  apply Forall_cons; [exact spec_startSetext|]. apply Forall_cons; [exact spec_startThematic|].
  apply Forall_cons; [exact spec_startListItem|]. apply Forall_cons; [exact spec_startIndented|]. apply Forall_nil.
Qed.

Lemma withState_idem p s : withState (withState p s) s = withState p s. Proof. reflexivity. Qed.

Lemma tryStarts_spec : forall fs p, Forall StartSpec fs ->
  X (withState p stOpening) -> PH (withState p stOpening) -> guard p = true -> 0 < len (line p) ->
  (exists p', tryStarts fs p = (false, p') /\ (p' = p \/ p' = withState p stOpening)) \/
  (exists q, tryStarts fs p = (true, q) /\ Fin (withState p stOpening) q).
Proof.
  induction fs as [|f r IH]; intros p Hfs HX HP Hg Hl.
  { left. exists p. split; [reflexivity|left; reflexivity]. }
  inversion Hfs as [|? ? Hf Hr]; subst. cbn [tryStarts]. cbv zeta.
  destruct (Hf (withState p stOpening) HX HP eq_refl Hg Hl) as [E|HF].
  - rewrite E. cbn [state withState setLP]. change ((stOpening =? stOpenMatched) || (stOpening =? stLineConsumed)) with false. cbv iota.
    destruct (IH (withState p stOpening) Hr HX HP Hg Hl) as [(p' & E1 & E2)|(q & E1 & E2)].
    + left. exists p'. split; [exact E1|right]. destruct E2 as [E2|E2]; exact E2.
    + right. exists q. split; [exact E1|exact E2].
  - right. exists (f (withState p stOpening)). split; [|exact HF].
    destruct HF as (_ & _ & _ & [S|S] & _); rewrite S; reflexivity.
Qed.

Definition PHs (p : lp) : Prop :=
  OKroot p \/ ((1 <= cdepth p)%nat /\
               (containerKind p = BlockQuoteKind \/ containerKind p = ListItemKind \/ containerKind p = HTMLBlockKind \/
                containerKind p = IndentedCodeBlockKind)).
Lemma PHs_PH p : PHs p -> PH p.
Proof. intros [H|[Hd H]]; [left; exact H|right; split; [exact Hd|]]. destruct H as [H|[H|[H|H]]]; tauto. Qed.
Lemma PH_PHs p : PH p -> ldb p = false -> PHs p.
Proof. intros [H|[Hd H]] Hl; [left; exact H|right; split; [exact Hd|]]. destruct H as [H|[H|[H|[H|H]]]]; try tauto. congruence. Qed.

Definition OI (p : lp) : Prop := ccP p /\ CU p /\ Rb false p /\ PHs p.
Definition OP (p : lp) (ht : bool) (p' : lp) : Prop :=
  ccP p' /\ CU p' /\ R p' /\ PH p' /\ envS p p' /\
  (ht = true -> Rb false p' /\ PHs p' /\ (state p' = state p \/ state p' = stOpening \/ state p' = stOpenMatched)) /\
  (ht = false -> state p' = stLineConsumed) /\
  (NE p' \/ (ht = true /\ (p' = p \/ p' = withState p stOpening))).

Lemma OI_X0 p : OI p -> X (withState p stOpening) /\ PH (withState p stOpening).
Proof.
  intros (a & b & c & d). split; [|apply PHs_PH; exact d].
  split; [left; left; reflexivity|]. split; [exact a|]. split; [exact b|]. apply Rb_false. exact c.
Qed.
Lemma OP_keep p p' : OI p -> (p' = p \/ p' = withState p stOpening) -> OP p true p'.
Proof.
  intros (a & b & c & d) Hp.
  assert (H : ccP p' /\ CU p' /\ Rb false p' /\ PHs p' /\ envS p p') by (destruct Hp as [->| ->]; (split; [exact a|split; [exact b|split; [exact c|split; [exact d|repeat split]]]])).
  destruct H as (a' & b' & c' & d' & e'). split; [exact a'|]. split; [exact b'|]. split; [apply Rb_false, c'|]. split; [apply PHs_PH, d'|].
  split; [exact e'|]. split; [intros _; split; [exact c'|split; [exact d'|destruct Hp as [->| ->]; [left; reflexivity|right; left; reflexivity]]]|]. split; [discriminate|right; tauto].
Qed.

Lemma opening_loop_spec : forall fuel p, OI p -> 0 < len (line p) ->
  OP p (fst (opening_loop fuel p)) (snd (opening_loop fuel p)).
Proof.
  induction fuel as [|f IH]; intros p HI Hl; [apply OP_keep; [exact HI|left; reflexivity]|].
  cbn [opening_loop]. fold (guard p). destruct (guard p) eqn:Hg; [|apply OP_keep; [exact HI|left; reflexivity]].
  destruct (OI_X0 p HI) as [HX HP].
  destruct (tryStarts_spec blockStarts p blockStarts_spec HX HP Hg Hl) as [(p' & E1 & E2)|(q & E1 & HF)]; rewrite E1.
  - apply OP_keep; assumption.
  - destruct HF as (Xq & Pq & Eq & Sq & Nq).
    destruct Sq as [Sq|Sq]; rewrite Sq.
    + change (stOpenMatched =? stLineConsumed) with false. cbv iota.
      assert (Hlq : ldb q = false) by (unfold ldb; rewrite Sq; reflexivity).
      assert (HIq : OI q).
      { destruct Xq as (a & b & c & d). split; [exact b|]. split; [exact c|]. split; [apply R_Rb_false; assumption|apply PH_PHs; assumption]. }
      assert (Hlq' : 0 < len (line q)) by (destruct Eq as (_ & El & _); rewrite El; exact Hl).
      destruct (IH q HIq Hlq') as (a & b & c & d & e & g & h & i).
      split; [exact a|]. split; [exact b|]. split; [exact c|]. split; [exact d|].
      split; [eapply envS_trans; [exact Eq|exact e]|].
      split; [intros Et; destruct (g Et) as (g1 & g2 & g3); split; [exact g1|split; [exact g2|]]; rewrite Sq in g3; tauto|]. split; [exact h|]. left.
      destruct i as [i|[_ [i|i]]]; [exact i|rewrite i; exact Nq|rewrite i; exact Nq].
    + change (stLineConsumed =? stLineConsumed) with true. cbv iota. cbn [fst snd].
      destruct Xq as (a & b & c & d). split; [exact b|]. split; [exact c|]. split; [exact d|]. split; [exact Pq|].
      split; [exact Eq|]. split; [discriminate|]. split; [intros _; exact Sq|left; exact Nq].
Qed.

Definition nonlastLe (LS : Z) (l : list block) : Prop := forall pre c, l = pre ++ [c] -> Forall (fun x => bend x <= LS) pre.

(* ---- deferredClose ---- *)
Definition AOK (p : lp) : Prop := acceptsLines (containerKind p) = true \/ openOK p ParagraphKind.

Lemma deferred_spec ld p : CU p -> Rb ld p -> PH p ->
  Rb ld (deferredClose p) /\ CU (deferredClose p) /\ envS p (deferredClose p) /\ (NE p -> NE (deferredClose p)) /\
  state (deferredClose p) = state p.
Proof.
  intros HC HR HP. unfold deferredClose. cbv zeta.
  match goal with |- context [if ?c then _ else _] => destruct c end.
  - split; [exact HR|]. split; [exact HC|]. split; [repeat split|]. split; [tauto|reflexivity].
  - split; [|split; [exact HC|split; [repeat split|split; [apply NE_close|reflexivity]]]].
    destruct (cdepth p) as [|d] eqn:Ed.
    + destruct HP as [HO|[Hd _]]; [|lia].
      apply (Rb_close0 ld ld p (lineStart p) (proj1 HC) HR ltac:(lia) (or_intror HO) (or_introl eq_refl) (fun x => x)).
    + apply Rb_close_deep; [lia|exact HR].
Qed.

Lemma AOK_deferred p : 0 <= lineStart p -> Rb false p -> PHs p -> AOK (deferredClose p).
Proof.
  intros H0 HR HP. unfold deferredClose. cbv zeta.
  destruct (getAt (tipDepth (bheight (root p)) (root p)) (root p)) as [t|] eqn:Et.
  - destruct (negb (isRestBlank p) && (bkind t =? ParagraphKind)) eqn:Ec.
    + left. apply andb_true_iff in Ec. destruct Ec as [_ Ec]. apply Z.eqb_eq in Ec.
      unfold containerKind, contBlock. cbn [cdepth container withCont setLP root]. rewrite Et, Ec. reflexivity.
    + clear Ec Et.
      destruct HP as [HO|[Hd HK]].
      * right. left. destruct (cdepth p) as [|d] eqn:Ed.
        -- apply OKroot_done. apply (Rb_close0 false false p (lineStart p) H0 HR ltac:(lia) (or_intror HO) (or_introl eq_refl) (fun x => x)).
        -- eapply OKroot_ksRel; [apply ksRel_close_deep; lia|reflexivity|exact HO].
      * pose proof (containerKind_closeHere p (lineStart p)) as Ek.
        destruct HK as [HK|[HK|[HK|HK]]]; rewrite HK in Ek.
        -- right. right. split; [exact Hd|]. rewrite Ek. reflexivity.
        -- right. right. split; [exact Hd|]. rewrite Ek. reflexivity.
        -- left. rewrite Ek. reflexivity.
        -- left. rewrite Ek. reflexivity.
  - rewrite andb_false_r.
    destruct HP as [HO|[Hd HK]].
    * right. left. destruct (cdepth p) as [|d] eqn:Ed.
      -- apply OKroot_done. apply (Rb_close0 false false p (lineStart p) H0 HR ltac:(lia) (or_intror HO) (or_introl eq_refl) (fun x => x)).
      -- eapply OKroot_ksRel; [apply ksRel_close_deep; lia|reflexivity|exact HO].
    * pose proof (containerKind_closeHere p (lineStart p)) as Ek.
      destruct HK as [HK|[HK|[HK|HK]]]; rewrite HK in Ek.
      -- right. right. split; [exact Hd|]. rewrite Ek. reflexivity.
      -- right. right. split; [exact Hd|]. rewrite Ek. reflexivity.
      -- left. rewrite Ek. reflexivity.
      -- left. rewrite Ek. reflexivity.
Qed.
Lemma AOK_PHs p : PHs p -> AOK p.
Proof.
  intros [HO|[Hd HK]]; [right; left; exact HO|]. destruct HK as [HK|[HK|[HK|HK]]].
  - right. right. split; [exact Hd|]. rewrite HK. reflexivity.
  - right. right. split; [exact Hd|]. rewrite HK. reflexivity.
  - left. rewrite HK. reflexivity.
  - left. rewrite HK. reflexivity.
Qed.

(* ---- end of input: the document block is closed ---- *)
Lemma fold_max_ge (k : list block) c : In c k -> (bheight c <= fold_right (fun c acc => Nat.max (bheight c) acc) O k)%nat.
Proof. induction k as [|x k IH]; intros H; [destruct H|]. cbn [fold_right]. destruct H as [->|H]; [lia|specialize (IH H); lia]. Qed.
Lemma bheight_last b c : lastBlock b = Some c -> exists f, bheight b = S (S f).
Proof.
  intros H. apply lastBlock_In in H. destruct b as [K s e bk ik a n ch l lb]. cbn [bkids] in H. cbn [bheight].
  pose proof (fold_max_ge bk c H) as Hm. destruct (bheight_S c) as [n0 En]. rewrite En in Hm.
  destruct (fold_right _ O bk) as [|m]; [lia|]. exists m. reflexivity.
Qed.

Lemma eof_spec ld p : bkind (root p) = documentKind -> isOpen (root p) = true -> 0 <= lineStart p -> Rb ld p -> OKroot p ->
  let rt := match closeBlock (bheight (root p)) (source p) (root p) (lineStart p) with b :: _ => b | [] => root p end in
  (GoodL 0 (bkids rt) /\ UB (lineStart p) ld (bkids rt)) /\ (ks p <> [] -> lastClosed (bkids rt)).
Proof.
  intros Hk Ho H0 [HG HU] HO. cbv zeta. destruct (bheight_S (root p)) as [f0 Ef]. rewrite Ef. cbn [closeBlock]. rewrite Ho. cbn [negb]. cbv zeta.
  rewrite !bkind_set_bend', Hk.
  change (documentKind =? ListKind) with false. change (documentKind =? IndentedCodeBlockKind) with false.
  change ((documentKind =? ParagraphKind) || (documentKind =? SetextHeadingKind)) with false. cbv iota.
  set (b1 := set_bend (root p) (lineStart p)).
  assert (Eb : bkids b1 = ks p) by (unfold b1, ks; destruct (root p); reflexivity).
  destruct (list_snoc_cases (ks p)) as [E|(pre & c & E)].
  - assert (El : lastBlock b1 = None) by (unfold lastBlock; rewrite Eb, E; reflexivity). rewrite El, Eb, E. split; [split; exact I|congruence].
  - assert (El : lastBlock b1 = Some c) by (apply (lastBlock_snoc b1 pre c); rewrite Eb; exact E). rewrite El.
    rewrite (bkids_set_lastBlocks b1 pre c) by (rewrite Eb; exact E).
    assert (El0 : lastBlock (root p) = Some c) by (apply (lastBlock_snoc _ pre c); exact E).
    destruct (bheight_last _ _ El0) as (f1 & Ef1). rewrite Ef in Ef1. inversion Ef1; subst f0.
    unfold ks in *. rewrite E in HG, HU.
    assert (HE : lineStart p < lineStart p \/ OKl (lineStart p) (pre ++ [c])) by (right; unfold OKroot, ks in HO; rewrite E in HO; exact HO).
    destruct (close0_list f1 (source p) (lineStart p) ld ld pre c (lineStart p) H0 HG HU ltac:(lia) HE (or_introl eq_refl) (fun x => x)) as (A & B & C).
    split; [split; [exact A|exact B]|intros _; exact C].
Qed.
Lemma UB_nonlast LS ld l : UB LS ld l -> nonlastLe LS l.
Proof. intros H pre c E. rewrite E in H. apply UB_snoc in H. apply H. Qed.

(* ---- addLineText ---- *)
Definition Qb (B : Z) (p : lp) : Prop :=
  GoodL 0 (ks p) /\
  (forall pre c, ks p = pre ++ [c] -> Forall (fun x => bend x <= lineStart p) pre /\
     (isOpen c = true -> bkind c = ParagraphKind -> Forall (fun u => iend u <= B) (bik c))).

Lemma Qb_of_Rb p : Rb false p -> Qb (lineStart p) p.
Proof.
  intros [HG HU]. split; [exact HG|]. intros pre c E. rewrite E in HU. apply UB_snoc in HU. destruct HU as [A [_ B]].
  split; [exact A|]. intros Ho Hk. specialize (B Ho Hk). revert B. apply Forall_impl. intros u Hu. apply Hu.
Qed.
Lemma Qb_mono B B' p : B <= B' -> Qb B p -> Qb B' p.
Proof.
  intros Hle [A C]. split; [exact A|]. intros pre c E. destruct (C pre c E) as [C1 C2]. split; [exact C1|].
  intros Ho Hk. specialize (C2 Ho Hk). revert C2. apply Forall_impl. intros u Hu. lia.
Qed.
Lemma Qb_ksRel B p p' : ksRel (ks p) (ks p') -> lineStart p' = lineStart p -> Qb B p -> Qb B p'.
Proof.
  intros Hr El [A C]. split; [eapply ksRel_GoodL; eassumption|]. rewrite El.
  destruct Hr as [[E1 E2]|(pre0 & c0 & c0' & E1 & E2 & Hs)].
  - intros pre c E. rewrite E2 in E. destruct pre; discriminate.
  - intros pre c E. rewrite E2 in E. apply app_inj_tail in E. destruct E as [Ea Eb]. subst pre c.
    destruct (C pre0 c0 E1) as [C1 C2]. split; [exact C1|]. pose proof (shEq_isOpen _ _ Hs) as Eo. destruct Hs as (_ & Hk & Hb).
    rewrite Eo, Hk. intros Ho Hp. rewrite (Hb Ho Hp). apply C2; assumption.
Qed.

Lemma Qb_append p u B : 0 <= lineStart p -> Qb B p -> B <= istart u -> lineStart p <= istart u ->
  Qb (Z.max B (iend u)) (updCont p (fun b => set_bik b (bik b ++ [u]))).
Proof.
  intros H0 HQ HB HL. apply (Qb_mono B (Z.max B (iend u)) p ltac:(lia)) in HQ as HQ'.
  unfold updCont. destruct (cdepth p) as [|[|d]] eqn:Ed.
  - cbn [updAt]. apply (Qb_ksRel _ p); [|reflexivity|exact HQ']. unfold ks. cbn [root withRoot setLP].
    replace (bkids (set_bik (root p) (bik (root p) ++ [u]))) with (bkids (root p)) by (destruct (root p); reflexivity). apply ksRel_refl.
  - destruct (lastBlock (root p)) as [c|] eqn:El.
    2:{ apply (Qb_ksRel _ p); [|reflexivity|exact HQ']. unfold ks. cbn [root withRoot setLP updAt]. rewrite El. apply ksRel_refl. }
    destruct (lastBlock_some _ _ El) as (pre & E).
    assert (Ek : ks (withRoot p (updAt 1 (fun b => set_bik b (bik b ++ [u])) (root p))) = pre ++ [set_bik c (bik c ++ [u])]).
    { unfold ks. cbn [root withRoot setLP]. rewrite bkids_updAt_S, El, E, removelast_snoc. reflexivity. }
    destruct HQ as [HG HC]. unfold ks in HG, HC. destruct (HC pre c E) as [C1 C2].
    rewrite E in HG. apply GoodL_app_inv in HG; [|discriminate]. destruct HG as (Hcp & Hgp & Hgc).
    pose proof (endOf_le_LS _ pre H0 C1) as Hlo.
    set (c' := set_bik c (bik c ++ [u])) in *.
    assert (Eo : isOpen c' = isOpen c) by (unfold c'; destruct c; reflexivity).
    assert (Ekk : bkind c' = bkind c) by (unfold c'; destruct c; reflexivity).
    assert (Ebe : bend c' = bend c) by (unfold c'; destruct c; reflexivity).
    assert (Ebi : bik c' = bik c ++ [u]) by (unfold c'; destruct c; reflexivity).
    split.
    + rewrite Ek. apply GoodL_app; [exact Hcp|exact Hgp|]. cbn [GoodL] in *. rewrite Eo. destruct (isOpen c) eqn:Eoc.
      * destruct Hgc as (_ & Hns & Hp). split; [reflexivity|]. split; [rewrite Ekk; exact Hns|]. rewrite Ekk. intros Hk.
        destruct (Hp Hk) as [Hs Hl]. specialize (C2 eq_refl Hk). rewrite Ebi. split.
        -- apply srt_app_one; [exact Hs|]. revert C2. apply Forall_impl. intros a Ha. lia.
        -- apply Forall_app. split; [exact Hl|]. constructor; [lia|constructor].
      * rewrite Ebe. exact Hgc.
    + intros pre1 c1 E1. rewrite Ek in E1. apply app_inj_tail in E1. destruct E1 as [<- <-]. cbn [lineStart withRoot setLP].
      split; [exact C1|]. rewrite Eo, Ekk, Ebi. intros Ho Hk. apply Forall_app. split.
      * specialize (C2 Ho Hk). revert C2. apply Forall_impl. intros a Ha. lia.
      * constructor; [lia|constructor].
  - apply (Qb_ksRel _ p); [|reflexivity|exact HQ']. unfold ks. cbn [root withRoot setLP]. apply ksRel_updAt_deep. lia.
Qed.
Lemma Qb_append_np p u B : Qb B p -> containerKind p <> ParagraphKind -> Qb B (updCont p (fun b => set_bik b (bik b ++ [u]))).
Proof.
  intros HQ Hk. apply (Qb_ksRel _ p); [|reflexivity|exact HQ]. apply (ksRel_updCont_ik p (fun b => bik b ++ [u])).
  apply (ckind_cond p (containerKind p) (ckind_self p) Hk).
Qed.

Lemma getAt_updAt_above g : (forall x, bkids (g x) = bkids x) -> forall d k r, (d < k)%nat -> getAt k (updAt d g r) = getAt k r.
Proof.
  intros Hg. induction d as [|d IH]; intros k r Hk; (destruct k as [|k]; [lia|]).
  - cbn [updAt]. rewrite !getAt_S. unfold lastBlock. rewrite Hg. reflexivity.
  - cbn [updAt]. destruct (lastBlock r) as [c|] eqn:El; [|reflexivity]. rewrite !getAt_S, El.
    rewrite lastBlock_set_last; [apply IH; lia|]. intros E. unfold lastBlock in El. rewrite E in El. discriminate.
Qed.
Lemma kindAt_updAt_any g : (forall x, bkids (g x) = bkids x) -> (forall x, bkind (g x) = bkind x) ->
  forall d d' r, kindAt d (updAt d' g r) = kindAt d r.
Proof.
  intros H1 H2 d d' r. destruct (Nat.le_gt_cases d d') as [L|L]; [apply kindAt_updAt; assumption|].
  unfold kindAt. rewrite getAt_updAt_above; [reflexivity|exact H1|exact L].
Qed.
Lemma containerKind_kindAt p : containerKind p = match kindAt (cdepth p) (root p) with Some k => k | None => 0 end.
Proof. unfold containerKind, contBlock, kindAt. destruct (getAt (cdepth p) (root p)); reflexivity. Qed.
Lemma kindAt_setLB v : forall d k rt, kindAt k (setLastBlankUpTo d v rt) = kindAt k rt.
Proof.
  assert (St : forall d k rt, kindAt k (updAt d (fun b => set_blast b v) rt) = kindAt k rt).
  { intros d k rt. apply kindAt_updAt_any; intros x; destruct x; reflexivity. }
  induction d as [|d IH]; intros k rt; cbn [setLastBlankUpTo]; [apply St|]. rewrite IH. apply St.
Qed.
Lemma shEq_set_blast c v : shEq c (set_blast c v). Proof. destruct c; apply shEq_full; reflexivity. Qed.
Lemma ksRel_setLB v : forall d rt, ksRel (bkids rt) (bkids (setLastBlankUpTo d v rt)).
Proof.
  assert (St : forall d rt, ksRel (bkids rt) (bkids (updAt d (fun b => set_blast b v) rt))).
  { intros d rt. destruct d as [|d]; [cbn [updAt]; rewrite bkids_set_blast; apply ksRel_refl|].
    apply ksRel_updAt_f; [lia|intros c; apply shEq_set_blast]. }
  induction d as [|d IH]; intros rt; cbn [setLastBlankUpTo]; [apply St|]. eapply ksRel_trans; [apply St|apply IH].
Qed.
Lemma bkind_setLB v : forall d rt, bkind (setLastBlankUpTo d v rt) = bkind rt.
Proof.
  assert (St : forall d rt, bkind (updAt d (fun b => set_blast b v) rt) = bkind rt).
  { intros d rt. apply bkind_updAt. intros _. destruct rt; reflexivity. }
  induction d as [|d IH]; intros rt; cbn [setLastBlankUpTo]; [apply St|]. rewrite IH. apply St.
Qed.

Definition blankF (b : block) : block := match lastBlock b with Some c => set_lastBlocks b [set_blast c true] | None => b end.
Lemma shEq_blankF b : shEq b (blankF b).
Proof. unfold blankF. destruct (lastBlock b); [apply shEq_set_lastBlocks|apply shEq_refl]. Qed.
Lemma bkind_blankF b : bkind (blankF b) = bkind b.
Proof. unfold blankF. destruct (lastBlock b); [apply bkind_set_lastBlocks|reflexivity]. Qed.
Lemma ksRel_blankF p : ksRel (ks p) (ks (updCont p blankF)).
Proof.
  unfold ks, updCont. cbn [root withRoot setLP]. destruct (cdepth p) as [|d].
  - cbn [updAt]. unfold blankF. destruct (lastBlock (root p)) as [c|] eqn:El; [|apply ksRel_refl].
    destruct (lastBlock_some _ _ El) as (pre & E). right. exists pre, c, (set_blast c true).
    split; [exact E|]. split; [apply (bkids_set_lastBlocks _ pre c); exact E|apply shEq_set_blast].
  - apply ksRel_updAt_f; [lia|apply shEq_blankF].
Qed.
Lemma containerKind_updCont p f : (forall b, bkind (f b) = bkind b) -> containerKind (updCont p f) = containerKind p.
Proof.
  intros Hf. unfold containerKind, contBlock, updCont. cbn [root cdepth container withRoot setLP]. fold (cdepth p).
  rewrite getAt_updAt_same. destruct (getAt (cdepth p) (root p)); cbn [option_map]; [apply Hf|reflexivity].
Qed.

(* a partial tab at the cursor: consuming the rest of the tab moves one byte forward *)
Lemma li_consumeIndent_tab p : li p < len (line p) -> at_ (line p) (li p) = 9 -> 0 < tabRem p ->
  li (consumeIndent p (tabRem p)) = li p + 1.
Proof.
  intros Hl Ha Ht. unfold consumeIndent. cbn [consumeIndent_loop].
  destruct (Z.leb_spec (tabRem p) 0) as [L|L]; [lia|]. cbv zeta.
  set (p0 := if state p =? stOpening then withState p stOpenMatched else p).
  assert (E : li p0 = li p /\ line p0 = line p /\ tabRem p0 = tabRem p) by (unfold p0; destruct (_ =? _); repeat split; reflexivity).
  destruct E as (E1 & E2 & E3). rewrite E1, E2, E3.
  replace (li p <? len (line p)) with true by (symmetry; apply Z.ltb_lt; exact Hl). rewrite Ha.
  cbn [andb Z.eqb Pos.eqb]. rewrite Z.ltb_irrefl.
  destruct (length (line p)) as [|n]; [reflexivity|]. cbn [consumeIndent_loop]. rewrite Z.sub_diag. cbn [Z.leb Z.compare]. reflexivity.
Qed.

Definition goF (q : lp) : lp :=
  let k := containerKind q in
  let inlineKind := if isCode k then TextKind else if k =? HTMLBlockKind then RawHTMLKind else UnparsedKind in
  let q' := updCont q (fun b => set_bik b (bik b ++ [mkI inlineKind (lineStart q + li q) (lineStart q + len (line q))])) in
  if isCode k && negb (hasByteSuffixEOL (line q')) then
    updCont q' (fun b => set_bik b (bik b ++ [mkI SoftLineBreakKind (lineStart q' + len (line q')) (lineStart q' + len (line q'))]))
  else q'.

Lemma NE_append q u : NE q -> NE (updCont q (fun b => set_bik b (bik b ++ [u]))).
Proof. apply NE_updCont. intros b. apply (NEr_set_bik (fun b => bik b ++ [u])). Qed.

Lemma Qb_nonlast B p : Qb B p -> nonlastLe (lineStart p) (ks p).
Proof. intros [_ H] pre c E. apply (H pre c E). Qed.
Lemma go_ls q : lineStart (goF q) = lineStart q.
Proof. unfold goF. cbv zeta. destruct (_ && _); reflexivity. Qed.

Lemma go_spec q B : 0 <= lineStart q -> 0 <= li q -> Qb B q -> B <= lineStart q + li q ->
  (GoodL 0 (ks (goF q)) /\ nonlastLe (lineStart q) (ks (goF q))) /\ (NE q -> NE (goF q)).
Proof.
  intros H0 Hl HQ HB. rewrite <- (go_ls q). unfold goF. cbv zeta.
  set (u := mkI _ (lineStart q + li q) (lineStart q + len (line q))).
  assert (H1 : Qb (Z.max B (iend u)) (updCont q (fun b => set_bik b (bik b ++ [u])))).
  { apply Qb_append; [exact H0|exact HQ|exact HB|]. unfold u, mkI. cbn [istart]. lia. }
  set (q' := updCont q (fun b => set_bik b (bik b ++ [u]))) in *.
  destruct (isCode (containerKind q)) eqn:Ec; cbn [andb].
  - destruct (negb (hasByteSuffixEOL (line q'))).
    + split; [|intros Hn; apply NE_append, NE_append, Hn].
      match goal with |- GoodL 0 (ks ?x) /\ _ => assert (HQ2 : Qb (Z.max B (iend u)) x) end.
      { apply (Qb_append_np q' _ _ H1). unfold q'. rewrite containerKind_updCont by (intros b; apply bkind_set_bik').
        intros E. rewrite E in Ec. discriminate. }
      split; [apply HQ2|apply (Qb_nonlast _ _ HQ2)].
    + split; [split; [apply H1|apply (Qb_nonlast _ _ H1)]|intros Hn; apply NE_append, Hn].
  - split; [split; [apply H1|apply (Qb_nonlast _ _ H1)]|intros Hn; apply NE_append, Hn].
Qed.

Lemma NEr_blankF b : NEr b (blankF b).
Proof. unfold NEr, blankF. destruct (lastBlock b); [|tauto]. intros _. unfold set_lastBlocks. destruct b. cbn [bkids set_bkids]. apply app_ne_r. discriminate. Qed.

Lemma addLineText_spec p : CU p -> Rb false p -> AOK p ->
  (GoodL 0 (ks (addLineText p)) /\ nonlastLe (lineStart p) (ks (addLineText p))) /\ (NE p -> NE (addLineText p)) /\
  (cdepth p = O -> bkind (root p) = documentKind -> st_open p -> isRestBlank p = false -> NE (addLineText p)).
Proof.
  intros HC HR HA. destruct HC as [H0 Hli].
  unfold addLineText. cbv zeta.
  change (fun b : block => match lastBlock b with Some c => set_lastBlocks b [set_blast c true] | None => b end) with blankF.
  set (pa := if isRestBlank p then updCont p blankF else p).
  assert (Fa : ksRel (ks p) (ks pa) /\ containerKind pa = containerKind p /\ (NE p -> NE pa) /\ (isRestBlank p = false -> pa = p)).
  { unfold pa. destruct (isRestBlank p).
    - split; [apply ksRel_blankF|]. split; [apply containerKind_updCont, bkind_blankF|]. split; [apply NE_updCont, NEr_blankF|discriminate].
    - split; [apply ksRel_refl|]. split; [reflexivity|]. split; [tauto|reflexivity]. }
  assert (Ea : lineStart pa = lineStart p /\ li pa = li p /\ line pa = line p /\ cdepth pa = cdepth p /\ state pa = state p /\ tabRem pa = tabRem p /\ source pa = source p)
    by (unfold pa; destruct (isRestBlank p); repeat split; reflexivity).
  destruct Fa as (Fa1 & Fa2 & Fa3 & Fa4). destruct Ea as (Ea1 & Ea2 & Ea3 & Ea4 & Ea5 & Ea6 & Ea7).
  fold (containerKind pa). rewrite Fa2.
  match goal with |- context [setLastBlankUpTo (cdepth pa) ?v (root pa)] => set (llb := v) end.
  set (pb := withRoot pa (setLastBlankUpTo (cdepth pa) llb (root pa))).
  assert (Fb : ksRel (ks p) (ks pb)) by (eapply ksRel_trans; [exact Fa1|apply ksRel_setLB]).
  assert (Eb : lineStart pb = lineStart p /\ li pb = li p /\ line pb = line p /\ cdepth pb = cdepth p /\ state pb = state p /\ tabRem pb = tabRem p).
  { unfold pb. cbn [lineStart li line cdepth container state tabRem withRoot setLP]. fold (cdepth pa). tauto. }
  destruct Eb as (Eb1 & Eb2 & Eb3 & Eb4 & Eb5 & Eb6).
  assert (Kb : containerKind pb = containerKind p).
  { rewrite <- Fa2. rewrite !containerKind_kindAt. unfold pb. cbn [root cdepth container withRoot setLP]. fold (cdepth pa). rewrite kindAt_setLB. reflexivity. }
  assert (Rbb : Rb false pb) by (apply (Rb_ksRel false p pb Fb Eb1 HR)).
  assert (Qbb : Qb (lineStart pb) pb) by (apply Qb_of_Rb, Rbb).
  assert (Nb : NE p -> NE pb) by (intros Hn; unfold NE in *; intros E; apply (ksRel_nil _ _ Fb) in E; exact (Hn E)).
  destruct (acceptsLines (containerKind p)) eqn:Eacc.
  - (* the container takes the line *)
    fold (goF pb).
    match goal with |- context [if ?c then consumeIndent ?x ?n else pb] => set (cnd := c); set (pi := x) end.
    set (pc := if cnd then consumeIndent pi (tabRem pi) else pb).
    fold (goF pc).
    assert (Hpc : exists B, Qb B pc /\ B <= lineStart pc + li pc /\ lineStart pc = lineStart p /\ 0 <= li pc /\ (NE p -> NE pc)).
    { unfold pc. destruct cnd eqn:Ecnd.
      - unfold cnd in Ecnd. rewrite !andb_true_iff in Ecnd. destruct Ecnd as (((C1 & C2) & C3) & C4).
        apply Z.ltb_lt in C1. apply Z.eqb_eq in C2. apply Z.ltb_lt in C3.
        assert (Qi : Qb (Z.max (lineStart pb) (lineStart pb + li pb + 1)) pi).
        { unfold pi. apply (Qb_append pb (Inl IndentKind (lineStart pb + li pb) (lineStart pb + li pb + 1) (tabRem pb) [] [])); [lia|exact Qbb| |]; cbn [istart]; lia. }
        assert (Eli : li (consumeIndent pi (tabRem pi)) = li pb + 1) by (apply (li_consumeIndent_tab pi); assumption).
        exists (Z.max (lineStart pb) (lineStart pb + li pb + 1)).
        pose proof (sameT_consumeIndent pi (tabRem pi)) as HT.
        split; [eapply Qb_ksRel; [apply ksRel_sameT, HT|apply HT|exact Qi]|].
        assert (Els : lineStart (consumeIndent pi (tabRem pi)) = lineStart pb) by apply HT.
        rewrite Els, Eli. split; [lia|]. split; [exact Eb1|]. split; [lia|].
        intros Hn. eapply NE_sameT; [exact HT|]. apply NE_append, Nb, Hn.
      - exists (lineStart pb). split; [exact Qbb|]. split; [lia|]. split; [exact Eb1|]. split; [lia|exact Nb]. }
    destruct Hpc as (B & Q1 & Q2 & Q3 & Q4 & Q5).
    destruct (go_spec pc B ltac:(lia) Q4 Q1 Q2) as [G1 G2]. rewrite Q3 in G1.
    split; [exact G1|]. split; [intros Hn; apply G2, Q5, Hn|].
    intros Ed Hk _ _. exfalso. rewrite (containerKind_root p Ed), Hk in Eacc. discriminate.
  - destruct (negb (isRestBlank p)) eqn:Ebl.
    + (* a new paragraph *)
      fold (goF (consumeIndent (openBlock pb ParagraphKind) (indent (openBlock pb ParagraphKind)))).
      set (po := openBlock pb ParagraphKind).
      pose proof (curS_openBlock pb ParagraphKind) as [(Eo1 & Eo2 & Eo3) Eo4]. fold po in Eo1, Eo2, Eo3, Eo4.
      assert (Ro : Rb false po /\ (NE p -> NE po)).
      { split; [|intros Hn; apply NE_openBlock, Nb, Hn].
        destruct ((state pb =? stDescending) || (state pb =? stDescendTerminated)) eqn:End.
        - unfold po, openBlock. rewrite End. exact Rbb.
        - apply Rb_openBlock_nd; [exact End|discriminate|lia|exact Rbb|].
          destruct HA as [HA|[HA|[HA1 HA2]]]; [congruence| |].
          + left. eapply OKroot_ksRel; [exact Fb|exact Eb1|exact HA].
          + right. split; [lia|]. rewrite Kb. exact HA2. }
      destruct Ro as [Ro No].
      set (pq := consumeIndent po (indent po)).
      pose proof (sameT_consumeIndent po (indent po)) as HT. fold pq in HT.
      assert (Qq : Qb (lineStart pq) pq).
      { apply Qb_of_Rb. eapply Rb_sameT; [exact HT|exact Ro]. }
      assert (Cq : CU pq).
      { apply CU_consumeIndent. unfold CU. rewrite Eo1, Eo2, Eo4, Eb1, Eb2, Eb3. split; [exact H0|exact Hli]. }
      destruct (go_spec pq (lineStart pq) (proj1 Cq) (proj1 (proj2 Cq)) Qq ltac:(destruct Cq; lia)) as [G1 G2].
      assert (Elq : lineStart pq = lineStart p) by (destruct HT as (_ & _ & El & _); rewrite El, Eo1; exact Eb1). rewrite Elq in G1.
      split; [exact G1|]. split; [intros Hn; apply G2; eapply NE_sameT; [exact HT|apply No, Hn]|].
      intros Ed Hk Hs Hb. apply G2. eapply NE_sameT; [exact HT|].
      (* the root had no need to have children: the new paragraph is one *)
      assert (Epa : pa = p) by (apply Fa4, Hb).
      assert (Sb : st_open pb) by (destruct Hs as [E|E]; [left|right]; rewrite Eb5; exact E).
      assert (Cb : canContain (containerKind pb) ParagraphKind = true).
      { rewrite Kb, (containerKind_root p Ed), Hk. reflexivity. }
      destruct (root_openBlock_in pb ParagraphKind Sb Cb) as (e & s & Er). unfold NE, ks. fold po in Er. rewrite Er, Eb4, Ed. cbn [updAt].
      unfold appendNb. destruct (closeF pb e (root pb)). cbn [bkids set_bkids]. apply app_ne_r. discriminate.
    + split; [split; [apply Qbb|rewrite <- Eb1; apply (Qb_nonlast _ _ Qbb)]|]. split; [exact Nb|]. intros _ _ _ Hb. rewrite Hb in Ebl. discriminate.
Qed.

(* ---- the state after addLineText ---- *)
Definition stSame (p p' : lp) : Prop := state p' = state p \/ state p' = stOpenMatched.
Lemma stSame_refl p : stSame p p. Proof. left. reflexivity. Qed.
Lemma stSame_trans a b c : stSame a b -> stSame b c -> stSame a c.
Proof. intros [A|A] [B|B]; unfold stSame; rewrite ?B, ?A; tauto. Qed.
Lemma stSame_consumeIndent p n : stSame p (consumeIndent p n).
Proof.
  destruct (Z.eqb_spec (state p) stOpening) as [E|E]; [|left; apply state_consumeIndent_ne0, E].
  destruct (st_open_consumeIndent p n (or_introl E)) as [H|H]; [left; congruence|right; exact H].
Qed.
Lemma state_openBlock_up : forall fuel q k, state (openBlock_up fuel q k) = state q.
Proof.
  induction fuel as [|f IH]; intros q k; [reflexivity|]. cbn [openBlock_up]. destruct (canContain _ _); [reflexivity|].
  destruct (cdepth q); [reflexivity|]. rewrite IH. reflexivity.
Qed.
Lemma stSame_openBlock p k : stSame p (openBlock p k).
Proof.
  unfold openBlock. destruct (_ || _); [left; reflexivity|]. cbv zeta.
  set (p0 := if state p =? stOpening then withState p stOpenMatched else p).
  unfold stSame.
  match goal with |- state ?t = _ \/ _ => change (state t) with (state (openBlock_up (S (cdepth p0)) p0 k)) end.
  rewrite state_openBlock_up. unfold p0.
  destruct (state p =? stOpening); [right; reflexivity|left; reflexivity].
Qed.
Lemma stSame_goF q : state (goF q) = state q.
Proof. unfold goF. cbv zeta. destruct (_ && _); reflexivity. Qed.
Lemma stSame_addLineText p : stSame p (addLineText p).
Proof.
  unfold addLineText. cbv zeta.
  change (fun b : block => match lastBlock b with Some c => set_lastBlocks b [set_blast c true] | None => b end) with blankF.
  set (pa := if isRestBlank p then updCont p blankF else p).
  assert (Ea : state pa = state p) by (unfold pa; destruct (isRestBlank p); reflexivity).
  match goal with |- context [setLastBlankUpTo (cdepth pa) ?v (root pa)] => set (llb := v) end.
  set (pb := withRoot pa (setLastBlankUpTo (cdepth pa) llb (root pa))).
  assert (Eb : state pb = state p) by exact Ea.
  destruct (acceptsLines _).
  - fold (goF pb).
    match goal with |- context [if ?c then consumeIndent ?x ?n else pb] => set (cnd := c); set (pi := x) end.
    fold (goF (if cnd then consumeIndent pi (tabRem pi) else pb)). unfold stSame. rewrite stSame_goF.
    destruct cnd; [|left; exact Eb]. destruct (stSame_consumeIndent pi (tabRem pi)) as [H|H]; [left; rewrite H; exact Eb|right; exact H].
  - destruct (negb (isRestBlank p)); [|left; exact Eb].
    fold (goF (consumeIndent (openBlock pb ParagraphKind) (indent (openBlock pb ParagraphKind)))). unfold stSame. rewrite stSame_goF.
    pose proof (stSame_trans _ _ _ (stSame_openBlock pb ParagraphKind) (stSame_consumeIndent (openBlock pb ParagraphKind) (indent (openBlock pb ParagraphKind)))) as [H|H];
      [left; rewrite H; exact Eb|right; exact H].
Qed.
