From Coq Require Import List ZArith Bool String Ascii.
Import ListNotations.
Require Import Base Tree LP Driver Inl3e Props BShDef BShTest T48Test T52Test ComposeC02.
Open Scope Z_scope.
Open Scope string_scope.

(* the two residual checkers of ComposeC02 and the structure part of C02, evaluated *)
Definition chk56 (input : bytes) : bool * bool * bool :=
  (defSpansRoots (fst (parseBlocks input)), rootIndentRoots (fst (parseBlocks input)), forallb (chk_C02_root false) (fst (parseFull input))).
Definition y1 := bs ("[a]: b" ++ nl ++ "   [c]: <d e>" ++ nl ++ "  'title" ++ nl ++ "  more'" ++ nl ++ " rest of para" ++ nl ++ "   # h" ++ nl).
Definition y2 := bs (" - a" ++ nl ++ nl ++ "  foo" ++ nl ++ "    [x]: y" ++ nl ++ "> q" ++ nl ++ "   ***" ++ nl).
Definition y3 := bs (tab ++ "code" ++ nl ++ "  [a" ++ nl ++ "  b]: /u &amp; (t)" ++ nl ++ "  [c]: d" ++ nl ++ "==" ++ nl).
Definition y4 := bs ("  [a]: b" ++ nl ++ tab ++ "'t'" ++ nl ++ "  [c]: d  " ++ nl ++ "   " ++ tab ++ "e" ++ nl ++ " - x" ++ nl).
Eval vm_compute in map chk56 [x1; x2; x3; x4; x5; y1; y2; y3; y4].
Eval vm_compute in forallb (fun d => let '(a, b0, c) := chk56 d in a && b0 && c) (nuls ++ BShTest.all).
