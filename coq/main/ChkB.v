(* ChkB.v -- T30, stage 1: chkDoc holds for every input whose BLOCK-layer output passes an executable local check blkOK.
   blkOK true src b (on a root block b of parseBlocks, with its source text src):
     - a block whose entries are rewritten by the inline pass has an entry list that satisfies ChkComp3.bikIn;
     - the other entries are closed (C17local.iClosed; InfoString entries are exempt, the renderer does not look inside),
       except that the LAST RawHTML entry of an HTML block on the right spine of the root block may be open. *)
From Coq Require Import List ZArith Lia Bool.
Import ListNotations.
Require Import Base Tables Utf8 Tree Rdr Link Collect Html Recog Inl3a Inl3b Inl3c Inl3d Inl3e Driver Render Safe MainTok.
Require Import ShapesBase C17bytes C17chk C17tags C17local ChkA ChkHT ChkCollect ChkComp1 ChkComp2 ChkComp3.
Open Scope Z_scope.

Definition isUnp (i : inline) : bool := ikind i =? UnparsedKind.
Definition entOKb (src : bytes) (u : inline) : bool := (ikind u =? InfoStringKind) || iClosed false src u.
Fixpoint entsB (src : bytes) (w : bool) (ik : list inline) : bool :=
  match ik with
  | [] => true
  | [u] => entOKb src u || (w && (ikind u =? RawHTMLKind))
  | u :: r => entOKb src u && entsB src w r
  end.
Fixpoint blkOK (src : bytes) (x : bool) (b : block) : bool :=
  match b with Blk K _ _ bk ik _ _ _ _ _ =>
    (negb (rendK K) ||
     (if (0 <? len ik) && existsb isUnp ik then bikIn src ik else entsB src (x && (K =? HTMLBlockKind)) ik)) &&
    (fix wl (l : list block) : bool :=
       match l with [] => true | [k] => blkOK src x k | k :: r => blkOK src false k && wl r end) bk
  end.
Fixpoint blkOKL (src : bytes) (x : bool) (l : list block) : bool :=
  match l with [] => true | [k] => blkOK src x k | k :: r => blkOK src false k && blkOKL src x r end.
Lemma blkOK_eq src x b : blkOK src x b =
  (negb (rendK (bkind b)) ||
   (if (0 <? len (bik b)) && hasUnparsed b then bikIn src (bik b) else entsB src (x && (bkind b =? HTMLBlockKind)) (bik b))) &&
  blkOKL src x (bkids b).
Proof.
  destruct b as [K s e bk ik a n ch l lb]. cbn [blkOK bkind bik bkids]. unfold hasUnparsed. cbn [bik]. f_equal.
  induction bk as [|k r IH]; [reflexivity|]. destruct r as [|k2 r]; [reflexivity|].
  change (blkOKL src x (k :: k2 :: r)) with (blkOK src false k && blkOKL src x (k2 :: r)). rewrite <- IH. reflexivity.
Qed.

Section R.
  Variable c : cfg.
  Variable refs : list (bytes * linkDef).
  Variable src : bytes.
  Notation iSafe := (iSafe c refs src).
  Notation iSafeW := (iSafeW c refs src).
  Notation entsF := (entsF c refs src).
  Notation FB := (FB c refs src).
  Notation FL := (FL c refs src).

  Lemma entOKb_iSafe u : entOKb src u = true -> iSafe u.
  Proof.
    unfold entOKb. intros H. apply orb_true_iff in H. destruct H as [H|H].
    - apply kind_iSafe. rewrite H. apply orb_true_r.
    - apply iClosed_false_iSafe, H.
  Qed.
  Lemma entsB_entsF w ik : entsB src w ik = true -> entsF w ik.
  Proof.
    induction ik as [|u r IH]; intros H; [exact I|]. destruct r as [|v r].
    - cbn [entsB] in H. cbn [ChkA.entsF]. apply orb_true_iff in H. destruct H as [H|H].
      + destruct w; [apply iSafe_W|]; apply entOKb_iSafe, H.
      + apply andb_true_iff in H. destruct H as [-> H]. apply Z.eqb_eq in H. apply raw_iSafeW, H.
    - change (entsB src w (u :: v :: r)) with (entOKb src u && entsB src w (v :: r)) in H.
      apply andb_true_iff in H. destruct H as [H1 H2]. split; [apply entOKb_iSafe, H1|apply IH, H2].
  Qed.
  Lemma closed_entsF w ik : forallb (iClosed false src) ik = true -> entsF w ik.
  Proof. intros H. apply entsF_all. rewrite forallb_forall in H. intros u Hu. apply iClosed_false_iSafe, H, Hu. Qed.
  Lemma bikIn_closed ik : bikIn src ik = true -> forallb (iClosed false src) ik = true.
  Proof.
    unfold bikIn. intros H. apply andb_true_iff in H. destruct H as [H _]. apply andb_true_iff in H. destruct H as [H _].
    rewrite forallb_forall in *. intros u Hu. specialize (H u Hu). apply andb_true_iff in H. tauto.
  Qed.

  (* a block-layer tree as it is (no rewriting) *)
  Lemma FB_plain : forall b x, blkOK src x b = true -> FB x b.
  Proof.
    fix IH 1. intros b x H. rewrite blkOK_eq in H. apply andb_true_iff in H. destruct H as [HI HK]. apply FB_eq. split.
    - intros Hr. rewrite Hr in HI. cbn [negb orb] in HI. destruct (_ && _); [apply closed_entsF, bikIn_closed, HI|apply entsB_entsF, HI].
    - clear HI. destruct b as [K s e bk ik a n ch l lb]. cbn [bkids] in *. revert HK. induction bk as [|k r IHr]; intros HK; [exact I|].
      destruct r as [|k2 r].
      + cbn [blkOKL ChkA.FL] in *. apply IH, HK.
      + change (blkOKL src x (k :: k2 :: r)) with (blkOK src false k && blkOKL src x (k2 :: r)) in HK.
        apply andb_true_iff in HK. destruct HK as [H1 H2]. split; [apply IH, H1|apply IHr, H2].
  Qed.
  Lemma FL_plain x : forall l, blkOKL src x l = true -> FL x l.
  Proof.
    induction l as [|k r IHr]; intros HK; [exact I|]. destruct r as [|k2 r].
    - apply FB_plain, HK.
    - change (blkOKL src x (k :: k2 :: r)) with (blkOK src false k && blkOKL src x (k2 :: r)) in HK.
      apply andb_true_iff in HK. destruct HK as [H1 H2]. split; [apply FB_plain, H1|apply IHr, H2].
  Qed.

  Lemma bkind_rewriteB m fuel b : bkind (rewriteB fuel src m b) = bkind b.
  Proof. destruct fuel as [|f]; [reflexivity|]. cbn [rewriteB]. destruct (_ && _); destruct b; reflexivity. Qed.

  Lemma FB_rewriteB m : forall fuel b x, blkOK src x b = true -> FB x (rewriteB fuel src m b).
  Proof.
    induction fuel as [|f IH]; intros b x H; [apply FB_plain, H|]. cbn [rewriteB].
    pose proof H as H'. rewrite blkOK_eq in H'. apply andb_true_iff in H'. destruct H' as [HI HK].
    destruct ((0 <? len (bik b)) && hasUnparsed b) eqn:Er.
    - apply FB_eq. destruct b as [K s e bk ik a n ch l lb]. cbn [set_bik bkind bik bkids] in *. split.
      + intros Hr. rewrite Hr in HI. cbn [negb orb] in HI. apply closed_entsF.
        apply (parseInlines_closed_partial src m (Blk K s e bk ik a n ch l lb)). exact HI.
      + apply FL_plain, HK.
    - apply FB_eq. destruct b as [K s e bk ik a n ch l lb]. cbn [set_bkids bkind bik bkids] in *. split.
      + intros Hr. rewrite Hr in HI. cbn [negb orb] in HI. apply entsB_entsF, HI.
      + clear HI Er H. revert HK. induction bk as [|k r IHr]; intros HK; [exact I|]. destruct r as [|k2 r].
        * cbn [map ChkA.FL blkOKL] in *. apply IH, HK.
        * change (blkOKL src x (k :: k2 :: r)) with (blkOK src false k && blkOKL src x (k2 :: r)) in HK.
          apply andb_true_iff in HK. destruct HK as [H1 H2].
          change (map (rewriteB f src m) (k :: k2 :: r)) with (rewriteB f src m k :: map (rewriteB f src m) (k2 :: r)).
          split; [apply IH, H1|apply IHr, H2].
  Qed.
End R.

(* the block-layer side condition, for a whole input *)
Definition blocksOK (input : bytes) : bool :=
  forallb (fun r => blkOK (rb_src r) true (rb_blk r)) (fst (parseBlocks input)).

Theorem chkDoc_of_blocksOK_partial : forall c input, filterOn c = true -> blocksOK input = true -> chkDoc c input = true.
Proof.
  intros c input _ H. unfold chkDoc, parseFull. unfold blocksOK in H. destruct (parseBlocks input) as [roots code]. cbn [fst] in H.
  apply chkJoin_FB. intros r Hr. apply in_map_iff in Hr. destruct Hr as (r0 & <- & Hr0). cbn [rb_src rb_blk].
  apply FB_rewriteB. rewrite forallb_forall in H. apply H, Hr0.
Qed.
Print Assumptions chkDoc_of_blocksOK_partial.
