(* ChkE5.v -- T30, stage 3: the entry bounds through openNewBlocks, addLineText and processLine. *)
From Coq Require Import List ZArith Lia Bool.
Import ListNotations.
Require Import Base Tree Rdr Link Collect Html Recog LP Rules Starts Driver L2Kind2 L2CC ShapesBase ShEnv GramDefs GramTree
  GramLP GramLP2 GramLP3 GramLP4 Cursor CursorX NoPanic12 BSLine1 StreamFuel ChkW1 ChkW2 ChkW3 ChkW4 ChkW5 ChkW6 ChkE1 ChkE2 ChkE3 ChkE4.
Open Scope Z_scope.

Definition EX (q : lp) : Prop := state q = stLineConsumed /\ ESH q /\ noKids q.

Lemma E_tryStarts : forall fs p, Forall startAll fs -> Forall startE fs -> FA p -> ES p ->
  FA (snd (tryStarts fs p)) /\ envOf (snd (tryStarts fs p)) = envOf p /\
  (ES (snd (tryStarts fs p)) \/ EX (snd (tryStarts fs p))) /\
  (fst (tryStarts fs p) = false -> ES (snd (tryStarts fs p))).
Proof.
  induction fs as [|f r IH]; intros p Hfs Hes HF HW.
  { cbn [tryStarts fst snd]. split; [exact HF|]. split; [reflexivity|]. split; [left; exact HW|intros _; exact HW]. }
  cbn [tryStarts]. cbv zeta. inversion Hfs as [|? ? Hf Hr]; subst. inversion Hes as [|? ? He Her]; subst. destruct Hf as [_ HG Hg Hen].
  set (p0 := withState p stOpening).
  assert (HF0 : FA p0) by (apply FA_withOpening, HF).
  assert (Hs0 : st_open p0) by (left; reflexivity).
  destruct HF0 as (C0 & G0 & I0).
  pose proof (He p0 Hs0 C0 I0 HW) as H1.
  assert (E1 : envOf (f p0) = envOf p) by (rewrite Hen; reflexivity).
  assert (HF1 : FA (f p0)).
  { split; [apply (CUR_of p); [exact E1|apply HG, G0|apply HF]|]. split; [apply HG, G0|apply Hg; assumption]. }
  destruct ((state (f p0) =? stOpenMatched) || (state (f p0) =? stLineConsumed)) eqn:Est.
  - cbn [fst snd]. split; [exact HF1|]. split; [exact E1|]. split; [exact H1|discriminate].
  - apply orb_false_iff in Est. destruct Est as [_ Est]. apply Z.eqb_neq in Est.
    assert (HW1 : ES (f p0)) by (destruct H1 as [H1|(S1 & _)]; [exact H1|contradiction]).
    destruct (IH (f p0) Hr Her HF1 HW1) as (A & B & C & D).
    split; [exact A|]. split; [rewrite B; exact E1|]. split; assumption.
Qed.

Lemma E_opening_loop : forall fuel p, FA p -> ES p ->
  FA (snd (opening_loop fuel p)) /\ envOf (snd (opening_loop fuel p)) = envOf p /\
  (ES (snd (opening_loop fuel p)) \/ (fst (opening_loop fuel p) = false /\ EX (snd (opening_loop fuel p)))).
Proof.
  induction fuel as [|f IH]; intros p HF HW.
  { cbn [opening_loop fst snd]. split; [exact HF|]. split; [reflexivity|left; exact HW]. }
  cbn [opening_loop].
  destruct (_ || _); [|cbn [fst snd]; split; [exact HF|]; split; [reflexivity|left; exact HW]].
  destruct (E_tryStarts blockStarts p blockStarts_all blockStarts_E HF HW) as (A & B & C & D).
  destruct (tryStarts blockStarts p) as [[|] p1]; cbn [fst snd] in *.
  - destruct (Z.eqb_spec (state p1) stLineConsumed) as [E|E].
    + cbn [fst snd]. split; [exact A|]. split; [exact B|]. destruct C as [C|C]; [left; exact C|right; split; [reflexivity|exact C]].
    + assert (HW1 : ES p1) by (destruct C as [C|(S1 & _)]; [exact C|contradiction]).
      destruct (IH p1 A HW1) as (A' & B' & C'). split; [exact A'|]. split; [rewrite B'; exact B|exact C'].
  - split; [exact A|]. split; [exact B|]. left. apply D. reflexivity.
Qed.

(* closing the last child of a container without children changes nothing *)
Lemma set_lastBlocks_same b c : lastBlock b = Some c -> set_lastBlocks b [c] = b.
Proof.
  intros El. unfold set_lastBlocks. rewrite <- (lastBlock_split' b c El). destruct b; reflexivity.
Qed.
Lemma updAt_noop f : forall d r, (forall x, getAt d r = Some x -> f x = x) -> updAt d f r = r.
Proof.
  induction d as [|d IH]; intros r H; [apply H; reflexivity|]. cbn [updAt]. destruct (lastBlock r) as [c|] eqn:El; [|reflexivity].
  rewrite (IH c); [apply set_lastBlocks_same, El|]. intros x Hx. apply H. cbn [getAt]. rewrite El. exact Hx.
Qed.
Lemma closeHere_noKids p e : noKids p -> root (closeLastChildAt p (cdepth p) e) = root p.
Proof.
  intros Hn. unfold closeLastChildAt. cbn [root withRoot setLP]. apply updAt_noop. intros x Hx. rewrite (Hn x Hx). reflexivity.
Qed.

Lemma E_deferredClose p : CUR p -> ES p -> ES (deferredClose p).
Proof.
  intros HC H. unfold deferredClose. cbv zeta. destruct (_ && _); [exact H|].
  apply ES_closeLastChildAt; [destruct HC as (_ & B & _); lia|lia|exact H].
Qed.
Lemma EX_deferredClose p : ESH p -> noKids p -> ESH (deferredClose p).
Proof.
  intros H Hn. unfold deferredClose. cbv zeta. destruct (_ && _); [exact H|].
  apply (ESH_tree p); [apply closeHere_noKids, Hn|reflexivity|reflexivity|exact H].
Qed.

(* closing the document at the end of the input *)
Lemma ER_set_bend M U b e : isOpen b = true -> 0 <= e -> U <= e -> ER M U b = true -> ER M U (set_bend b e) = true.
Proof.
  intros Ho He HU H. apply ER_parts in H. destruct H as (A & B & C). unfold isOpen in Ho. apply Z.ltb_lt in Ho.
  apply ER_mk; [destruct b; exact A| |destruct b; exact C].
  replace (bstart (set_bend b e)) with (bstart b) by (destruct b; reflexivity). replace (bend (set_bend b e)) with e by (destruct b; reflexivity).
  replace (bik (set_bend b e)) with (bik b) by (destruct b; reflexivity). rewrite forallb_forall in *. intros u Hu.
  apply (eb_close _ (bend b)); [exact Ho|exact He|exact HU|apply B, Hu].
Qed.
Lemma E_closeDoc M U s0 e r : bkind r = documentKind -> isOpen r = true -> 0 <= e -> U <= e -> ER M U r = true ->
  ER M U (match closeBlock (bheight r) s0 r e with b :: _ => b | [] => r end) = true.
Proof.
  intros Hk Ho He HU H. destruct (bheight_S r) as (f & Ef). rewrite Ef. cbn [closeBlock]. rewrite Ho. cbn [negb]. cbv zeta.
  replace (bkind (set_bend r e)) with documentKind by (destruct r; exact (eq_sym Hk)).
  change (documentKind =? ListKind) with false. change (documentKind =? IndentedCodeBlockKind) with false.
  change ((documentKind =? ParagraphKind) || (documentKind =? SetextHeadingKind)) with false. cbv iota.
  change (match lastBlock (set_bend r e) with Some c => set_lastBlocks (set_bend r e) (closeBlock f s0 c e) | None => set_bend r e end)
    with (CLf' f s0 e (set_bend r e)).
  apply (E_CLf M U f s0 e He HU). apply ER_set_bend; assumption.
Qed.

Lemma E_openNewBlocks p am : FA p -> ES p ->
  ESH (snd (openNewBlocks p am)) /\ (fst (openNewBlocks p am) = true -> ES (snd (openNewBlocks p am))).
Proof.
  intros HF HW. pose proof HF as (HC & HG & HI). unfold openNewBlocks. destruct (len (line p) =? 0) eqn:E0.
  - cbn [fst snd]. split; [|discriminate]. apply Z.eqb_eq in E0.
    unfold ESH, HL. cbn [root lineStart line withCont withRoot setLP]. rewrite E0.
    destruct HC as (_ & B & C). destruct HI as ((Hk & _ & _) & _ & Hso).
    eapply (ER_mono (Mc p) (lineStart p)); [unfold Mc; lia|lia|].
    apply E_closeDoc; [exact Hk|eapply so_open; exact Hso|lia|lia|exact HW].
  - destruct (E_opening_loop (S (length (line p))) p HF HW) as (A & B & C).
    destruct (opening_loop _ p) as [ht p1]. cbn [fst snd] in *. pose proof A as (A1 & _ & _).
    destruct am; cbn [fst snd].
    + split; [destruct C as [C|(_ & _ & C & _)]; [apply ES_ESH; assumption|exact C]|].
      intros Ht. destruct C as [C|(C & _)]; [exact C|congruence].
    + split.
      * destruct C as [C|(_ & _ & C & Cn)]; [apply ES_ESH; [unfold deferredClose; cbv zeta; destruct (_ && _); exact A1|apply E_deferredClose; assumption]|].
        apply EX_deferredClose; assumption.
      * intros Ht. destruct C as [C|(C & _)]; [apply E_deferredClose; assumption|congruence].
Qed.

(* ---- addLineText ---- *)
Lemma Eb_set_blast M U b v : Eb M U (set_blast b v) = Eb M U b. Proof. apply Eb_ext; destruct b; reflexivity. Qed.
Lemma hasRefB_set_blast b v : hasRefB (set_blast b v) = hasRefB b. Proof. apply hasRefB_ext; destruct b; reflexivity. Qed.
Definition fbl (b : block) : block := match lastBlock b with Some c => set_lastBlocks b [set_blast c true] | None => b end.
Lemma fbl_facts M U b : (ER M U b = true -> ER M U (fbl b) = true) /\ (Eb M U b = true -> EbH M U (fbl b)) /\ (hasRefB b = true -> hasRefB (fbl b) = true).
Proof.
  unfold fbl. destruct (lastBlock b) as [c|] eqn:El; [|split; [tauto|split; [intros H; right; exact H|tauto]]].
  assert (P : hasRefB c = true -> hasRefL [set_blast c true] = true) by (intros H; cbn [hasRefL existsb]; rewrite hasRefB_set_blast, H; reflexivity).
  split; [|split].
  - intros H. apply (ER_set_lastBlocks M U b c _ El H); [|exact P]. intros [Hc|Hc]; cbn [EP]; [rewrite hasRefB_set_blast, Hc; reflexivity|rewrite Eb_set_blast, Hc; apply orb_true_r].
  - intros H. apply (EbH_set_lastBlocks M U b c _ El (or_intror H)); [|exact P]. cbn [EP]. rewrite Eb_set_blast, (EbH_lastBlock M U b c El H). apply orb_true_r.
  - intros H. apply (hasRefB_set_lastBlocks b c _ El H). exact P.
Qed.
Lemma ER_updAt_simple M U g : (forall x, (ER M U x = true -> ER M U (g x) = true) /\ (Eb M U x = true -> EbH M U (g x)) /\ (hasRefB x = true -> hasRefB (g x) = true)) ->
  forall d r, ER M U r = true -> ER M U (updAt d g r) = true.
Proof.
  intros Hg d r H. apply ER_updAt_at; [intros x; apply Hg|exact H|intros _; apply Hg, H|intros x _ _; apply Hg].
Qed.
Lemma sbl_facts M U v b : (ER M U b = true -> ER M U (set_blast b v) = true) /\ (Eb M U b = true -> EbH M U (set_blast b v)) /\ (hasRefB b = true -> hasRefB (set_blast b v) = true).
Proof.
  split; [|split].
  - intros H. unfold ER in *. replace (bstart (set_blast b v)) with (bstart b) by (destruct b; reflexivity).
    replace (bend (set_blast b v)) with (bend b) by (destruct b; reflexivity). replace (bik (set_blast b v)) with (bik b) by (destruct b; reflexivity).
    replace (bkids (set_blast b v)) with (bkids b) by (destruct b; reflexivity). exact H.
  - intros H. right. rewrite Eb_set_blast. exact H.
  - rewrite hasRefB_set_blast. tauto.
Qed.
Lemma ER_setLastBlankUpTo M U v : forall d r, ER M U r = true -> ER M U (setLastBlankUpTo d v r) = true.
Proof.
  induction d as [|d IH]; intros r H; cbn [setLastBlankUpTo].
  - apply (ER_updAt_simple M U _ (sbl_facts M U v)). exact H.
  - apply IH. apply (ER_updAt_simple M U _ (sbl_facts M U v)). exact H.
Qed.

Lemma E_go q : GI q -> CUR q -> nikK (containerKind q) = false -> ER (Mc q) (HL q) (root q) = true ->
  ER (HL q) (HL q) (root (let k := containerKind q in
        let inlineKind := if isCode k then TextKind else if k =? HTMLBlockKind then RawHTMLKind else UnparsedKind in
        let q' := updCont q (fun b => set_bik b (bik b ++ [mkI inlineKind (lineStart q + li q) (lineStart q + len (line q))])) in
        if isCode k && negb (hasByteSuffixEOL (line q')) then
          updCont q' (fun b => set_bik b (bik b ++ [mkI SoftLineBreakKind (lineStart q' + len (line q')) (lineStart q' + len (line q'))]))
        else q')) = true.
Proof.
  intros HI HC Hn H. cbv zeta. pose proof HC as (_ & B & C).
  set (q' := updCont q _).
  assert (H' : ER (Mc q) (HL q) (root q') = true).
  { unfold q', updCont. cbn [root withRoot setLP]. apply E_add_entries; [exact HI|exact H|].
    intros u [<-|[]]. cbn [mkI istart iend]. unfold Mc, HL. lia. }
  assert (HI' : GI q') by (apply (GI_updCont_ik q (fun b => bik b ++ [_]) (containerKind q)); [exact HI|apply ckind_self|exact Hn]).
  assert (Hup : forall r, ER (Mc q) (HL q) r = true -> ER (HL q) (HL q) r = true) by (intros r Hr; eapply ER_mono; [| |exact Hr]; unfold Mc, HL; lia).
  destruct (_ && _); [|apply Hup, H'].
  apply Hup. unfold updCont. cbn [root withRoot setLP]. change (cdepth q') with (cdepth q).
  change (cdepth q) with (cdepth q'). apply E_add_entries; [exact HI'|exact H'|].
  intros u [<-|[]]. cbn [mkI istart iend lineStart line q' updCont withRoot setLP]. unfold Mc, HL. lia.
Qed.

Lemma E_addLineText p : FA p -> goodSt p -> ES p -> ER (HL p) (HL p) (root (addLineText p)) = true.
Proof.
  intros (HC & HG & HI) Hst HW. unfold addLineText. cbv zeta.
  set (p1 := if isRestBlank p then _ else p).
  assert (H1 : GI p1 /\ ES p1).
  { unfold p1. destruct (isRestBlank p); [|split; assumption]. split.
    - apply GI_updCont; [assumption| |].
      + intros b _ Hcb Hgb. destruct (lastBlock b) as [c|] eqn:El; [|split; [exact Hcb|split; [exact Hgb|apply sameAs_refl]]].
        split; [|split; [|apply sameAs_set_lastBlocks]].
        * eapply cc_set_lastBlocks; [exact Hcb|exact El|]. constructor; [|constructor].
          rewrite cc_set_blast, bkind_set_blast. split; [eapply cc_lastBlock; eassumption|apply compat_refl].
        * eapply gb_set_lastBlocks; [exact Hgb|exact El|]. apply okRepl_one; [|left; apply sameAs_set_blast].
          rewrite gb_set_blast. eapply gb_lastBlock; eassumption.
      + intros x. destruct (lastBlock x); [destruct x; reflexivity|reflexivity].
    - unfold ES, updCont, Mc. cbn [root lineStart li withRoot setLP]. change (fun b : block => match lastBlock b with Some c => set_lastBlocks b [set_blast c true] | None => b end) with fbl.
      apply (ER_updAt_simple _ _ _ (fbl_facts _ _)). exact HW. }
  destruct H1 as [HI1 HW1].
  assert (K1 : containerKind p1 = containerKind p).
  { unfold p1. destruct (isRestBlank p); [|reflexivity]. apply containerKind_updCont.
    intros b. destruct (lastBlock b); [destruct b; reflexivity|reflexivity]. }
  assert (S1 : state p1 = state p) by (unfold p1; destruct (isRestBlank p); reflexivity).
  assert (HC1 : CUR p1) by (unfold p1; destruct (isRestBlank p); exact HC).
  assert (Eenv1 : lineStart p1 = lineStart p /\ line p1 = line p /\ li p1 = li p) by (unfold p1; destruct (isRestBlank p); repeat split; reflexivity).
  set (llb := isRestBlank p && _).
  set (p2 := withRoot p1 (setLastBlankUpTo (cdepth p1) llb (root p1))).
  assert (HI2 : GI p2) by (apply GI_setLastBlank, HI1).
  assert (HW2 : ES p2) by (unfold ES, p2, Mc; cbn [root lineStart li withRoot setLP]; apply ER_setLastBlankUpTo, HW1).
  assert (HC2 : CUR p2) by exact HC1.
  assert (K2 : containerKind p2 = containerKind p).
  { rewrite <- K1. unfold containerKind, contBlock, p2, cdepth. cbn [root container withRoot setLP]. fold (cdepth p1).
    match goal with |- bkind (match getAt ?k (setLastBlankUpTo ?d ?v ?r) with _ => _ end) = _ =>
      pose proof (kindAt_setLastBlankUpTo v d k r) as E end.
    destruct (getAt (cdepth p1) (setLastBlankUpTo _ _ _)); destruct (getAt (cdepth p1) (root p1)); cbn in E; try congruence; reflexivity. }
  assert (S2 : state p2 = state p) by exact S1.
  assert (Eenv2 : lineStart p2 = lineStart p /\ line p2 = line p /\ li p2 = li p) by exact Eenv1.
  destruct Eenv2 as (L2 & Ln2 & Li2).
  change (bkind (contBlock p1)) with (containerKind p1). rewrite K1.
  assert (HLe : forall q, lineStart q = lineStart p -> line q = line p -> HL q = HL p) by (intros q A B; unfold HL; rewrite A, B; reflexivity).
  assert (Hraise : forall q, CUR q -> ES q -> ER (Mc q) (HL q) (root q) = true).
  { intros q (_ & B & C) Hq. eapply ER_mono; [apply Z.le_refl| |exact Hq]. unfold HL. lia. }
  destruct (acceptsLines (containerKind p)) eqn:Ea.
  - set (p3 := if (li p2 <? len (line p2)) && (at_ (line p2) (li p2) =? 9) && (0 <? tabRem p2) && (tabRem p2 <? 4) then _ else p2).
    assert (H3 : GI p3 /\ CUR p3 /\ ER (Mc p3) (HL p3) (root p3) = true /\ containerKind p3 = containerKind p /\ lineStart p3 = lineStart p /\ line p3 = line p).
    { unfold p3. destruct ((li p2 <? len (line p2)) && (at_ (line p2) (li p2) =? 9) && (0 <? tabRem p2) && (tabRem p2 <? 4)) eqn:Et.
      2:{ split; [exact HI2|]. split; [exact HC2|]. split; [apply Hraise; assumption|split; [exact K2|split; assumption]]. }
      apply andb_true_iff in Et. destruct Et as [Et _]. apply andb_true_iff in Et. destruct Et as [Et _]. apply andb_true_iff in Et. destruct Et as [T1 T2].
      apply Z.ltb_lt in T1.
      set (I := Inl IndentKind (lineStart p2 + li p2) (lineStart p2 + li p2 + 1) (tabRem p2) [] []).
      set (q := updCont p2 (fun b => set_bik b (bik b ++ [I]))).
      assert (HIq : GI q).
      { apply (GI_updCont_ik p2 (fun b => bik b ++ [_]) (containerKind p2)); [exact HI2|apply ckind_self|]. rewrite K2. apply acceptsLines_nik, Ea. }
      assert (HWq : ER (Mc p2) (HL p2) (root q) = true).
      { unfold q, updCont. cbn [root withRoot setLP]. apply E_add_entries; [exact HI2|apply Hraise; assumption|].
        intros u [<-|[]]. unfold I. cbn [istart iend]. unfold Mc, HL. lia. }
      set (q3 := consumeIndent q (tabRem q)).
      destruct (env_src q q3 (env_consumeIndent q (tabRem q))) as (_ & E2 & E3).
      split; [apply GI_consumeIndent, HIq|]. split; [apply CUR_consumeIndent, CUR_updCont, HC2|].
      split; [|split; [|split]].
      + change (ER (Mc q3) (HL q3) (root q3) = true). unfold q3 at 3. rewrite (proj1 (same_consumeIndent _ _)).
        unfold HL, Mc. rewrite E2, E3.
        eapply ER_mono; [|apply Z.le_refl|exact HWq]. unfold Mc. pose proof (li_consumeIndent_ge q (tabRem q)). fold q3 in H. cbn [lineStart li q updCont withRoot setLP] in *. lia.
      + change (containerKind q3 = containerKind p). unfold q3. rewrite (containerKind_same _ _ (same_consumeIndent _ _)). unfold q. rewrite containerKind_updCont; [exact K2|]. intros b. apply bkind_set_bik.
      + change (lineStart q3 = lineStart p). rewrite E2. exact L2.
      + change (line q3 = line p). rewrite E3. exact Ln2. }
    destruct H3 as (HI3 & HC3 & HW3 & K3 & L3 & Ln3).
    rewrite <- (HLe p3 L3 Ln3). apply E_go; [exact HI3|exact HC3|rewrite K3; apply acceptsLines_nik, Ea|exact HW3].
  - destruct (negb (isRestBlank p)).
    2:{ apply (ES_ESH p2 HC2) in HW2. unfold ESH in HW2. rewrite (HLe p2 L2 Ln2) in HW2. exact HW2. }
    assert (So : st_open p2) by (unfold st_open; rewrite S2; exact (Hst Ea)).
    set (p3 := consumeIndent (openBlock p2 ParagraphKind) (indent (openBlock p2 ParagraphKind))).
    assert (HI3 : GI p3).
    { unfold p3. apply GI_consumeIndent. apply GI_openBlock; [exact HI2|discriminate|discriminate|intros; reflexivity]. }
    assert (HC3 : CUR p3) by (unfold p3; cchainC).
    assert (HW3 : ES p3) by (unfold p3; echain; exact HW2).
    assert (E3 : lineStart p3 = lineStart p /\ line p3 = line p).
    { unfold p3. destruct (env_src _ _ (env_consumeIndent (openBlock p2 ParagraphKind) (indent (openBlock p2 ParagraphKind)))) as (_ & X1 & X2).
      destruct (env_src _ _ (env_openBlock p2 ParagraphKind)) as (_ & Y1 & Y2). split; congruence. }
    destruct E3 as [L3 Ln3].
    assert (Ck : ckind p3 ParagraphKind).
    { eapply ckind_same; [apply same_consumeIndent|]. apply ckind_openBlock, So. }
    rewrite <- (HLe p3 L3 Ln3). apply E_go; [exact HI3|exact HC3| |apply Hraise; assumption].
    unfold containerKind, contBlock.
    match goal with |- nikK (bkind (match getAt ?d ?r with _ => _ end)) = false => destruct (getAt d r) as [x|] eqn:Ex end;
      [rewrite (Ck x Ex); reflexivity|reflexivity].
Qed.

(* ---- one line ---- *)
Theorem E_processLine st children ls src : 0 <= ls <= len src -> ccF children = true -> gbL children = true ->
  EP ls ls children = true ->
  EP (ls + len (from_ src ls)) (ls + len (from_ src ls)) (fst (fst (processLine st children ls src))) = true.
Proof.
  intros Hls Hc Hg HW. unfold processLine. cbv zeta.
  set (p0 := resetLP st children ls src).
  assert (HI0 : GI p0).
  { split; [|split].
    - unfold ccP, wf, p0, resetLP, cdepth. cbn [root container]. split; [reflexivity|split; [exact Hc|eexists; reflexivity]].
    - unfold p0, resetLP. cbn [root]. apply gb_intro; [reflexivity|exact Hg].
    - reflexivity. }
  assert (HG0 : G p0).
  { unfold p0, resetLP. split; [split; [cbn; lia|]|split; [cbn; apply len_nonneg|split; cbn; discriminate]].
    cbn [li line col tabRem]. intros Hl Ht. apply computeTabRem_spec; [lia|exact Hl|exact Ht]. }
  assert (HC0 : CUR p0).
  { unfold CUR, p0, resetLP. cbn [line source lineStart li]. split; [reflexivity|]. split; [exact Hls|]. pose proof (len_nonneg (from_ src ls)). lia. }
  assert (HW0 : ES p0).
  { unfold ES, Mc, p0, resetLP. cbn [root lineStart li]. apply ER_mk; [cbn [bstart]; lia|reflexivity|]. cbn [bkids]. replace (ls + 0) with ls by lia. exact HW. }
  change (ls + len (from_ src ls)) with (HL p0).
  pose proof (E_descend_loop (bheight (root p0)) p0 O HC0 HW0) as D1.
  pose proof (G_descend_loop (bheight (root p0)) p0 O HG0) as G1.
  pose proof (GI_descend_loop (bheight (root p0)) p0 O HI0 eq_refl) as I1.
  pose proof (env_descend_loop (bheight (root p0)) p0 O) as E1.
  fold (descendOpenBlocks p0) in D1, G1, I1, E1.
  destruct (descendOpenBlocks p0) as [am p1]. cbn [snd] in D1, G1, I1, E1.
  assert (C1 : CUR p1) by (apply (CUR_of p0); assumption).
  destruct (env_src p0 p1 E1) as (_ & El1 & Eln1).
  assert (HL1 : HL p1 = HL p0) by (unfold HL; rewrite El1, Eln1; reflexivity).
  assert (H2 : ER (HL p0) (HL p0) (root (let '(hasText, q) := if negb (state p1 =? stDescendTerminated) then openNewBlocks p1 am else (false, p1) in
                           if hasText then addLineText q else q)) = true).
  { destruct (Z.eqb_spec (state p1) stDescendTerminated) as [Et|Et]; cbn [negb].
    - rewrite <- HL1. apply (ES_ESH p1 C1 D1).
    - assert (HF1 : FA p1) by (split; [exact C1|split; [exact G1|exact I1]]).
      destruct (E_openNewBlocks p1 am HF1 D1) as (A & B).
      destruct (GI_openNewBlocks p1 am I1) as [_ Ig]. pose proof (openNewBlocks_good p1 am) as Gd.
      pose proof (G_openNewBlocks p1 am G1) as Gg. pose proof (env_openNewBlocks p1 am) as Ee.
      destruct (openNewBlocks p1 am) as [ht p2]. cbn [fst snd] in *.
      destruct (env_src p1 p2 Ee) as (_ & El2 & Eln2).
      assert (HL2 : HL p2 = HL p0) by (unfold HL; rewrite El2, Eln2; exact HL1).
      destruct ht.
      + rewrite <- HL2. apply E_addLineText; [split; [apply (CUR_of p1); assumption|split; [exact Gg|apply Ig; reflexivity]]|apply Gd; reflexivity|apply B; reflexivity].
      + rewrite <- HL2. exact A. }
  destruct (if negb (state p1 =? stDescendTerminated) then openNewBlocks p1 am else (false, p1)) as [ht p2].
  apply ER_parts in H2. cbn [fst]. tauto.
Qed.
Print Assumptions E_processLine.
