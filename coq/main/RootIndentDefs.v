From Coq Require Import List ZArith Lia Bool.
Import ListNotations.
Require Import Base Tables Utf8 Tree Rdr Link Collect Html Recog LP Rules Starts Driver.
Require Import GramTree TilBase TilDefs LAR1 ExOcp.
Open Scope Z_scope.

(* ================================================================================================
   T56 (b), part 1 (RootIndentDefs): the invariant on the list of ROOT CHILDREN of the line machine, relative to the source
   src of the line and its start ls, and its three kinds of update.
     gaps   spaces/tabs between the start of the source and the first root child, and between the end of one root child and
            the start of the next;
     tcl    only the last root child can be open;
     r6     the bytes between the end of a closed last root child and the line start are spaces/tabs;
     r7     without a root child the bytes before the line start are spaces/tabs;
     idl    an open last root child that is a paragraph / setext heading either has no entries yet and starts in the current
            line, or it is THE root paragraph of the start of the line: start s0 and entries ik0 <> [] (about which the
            facts GoodP / RootP are known);
            an open setext heading keeps paragraph content (ExOcp.lpok);
     ne     the list does not become empty.
   ================================================================================================ *)

Fixpoint gaps (s : bytes) (lo : Z) (l : list block) : Prop :=
  match l with [] => True | c :: r => sptR s lo (bstart c) /\ gaps s (bend c) r end.
Lemma gaps_lo s lo lo' l : gaps s lo' l -> sptR s lo lo' -> gaps s lo l.
Proof. destruct l as [|c r]; [exact (fun _ _ => I)|]. cbn [gaps]. intros [A B] H. split; [eapply sptR_app; eassumption|exact B]. Qed.
Definition runEnd (lo : Z) (l : list block) : Z := match lastL l with Some c => bend c | None => lo end.
Lemma runEnd_snoc lo l x : runEnd lo (l ++ [x]) = bend x. Proof. unfold runEnd. rewrite lastL_snoc. reflexivity. Qed.
Lemma runEnd_cons lo c r : runEnd lo (c :: r) = runEnd (bend c) r.
Proof.
  unfold runEnd. destruct r as [|x r'] ; [reflexivity|]. change (c :: x :: r') with ([c] ++ (x :: r')). rewrite lastL_app by discriminate.
  destruct (lastL (x :: r')) eqn:E; [reflexivity|]. apply lastL_none in E. discriminate.
Qed.
Lemma gaps_app s : forall l lo l', gaps s lo l -> gaps s (runEnd lo l) l' -> gaps s lo (l ++ l').
Proof.
  induction l as [|c r IH]; intros lo l' H H'; [exact H'|]. cbn [app gaps] in *. destruct H as [A B]. split; [exact A|].
  apply IH; [exact B|]. rewrite runEnd_cons in H'. exact H'.
Qed.
Lemma gaps_app_inv s : forall l lo l', gaps s lo (l ++ l') -> gaps s lo l /\ gaps s (runEnd lo l) l'.
Proof.
  induction l as [|c r IH]; intros lo l' H; [split; [exact I|exact H]|]. cbn [app gaps] in *. destruct H as [A B].
  destruct (IH _ _ B) as [B1 B2]. rewrite runEnd_cons. tauto.
Qed.

(* the fields of a root child the invariant looks at *)
Definition sameR (c c' : block) : Prop :=
  bstart c' = bstart c /\ bend c' = bend c /\ isPSb (bkind c') = isPSb (bkind c) /\
  (isPSb (bkind c) = true -> bik c' = bik c /\ (bkind c' = SetextHeadingKind -> bkind c = SetextHeadingKind)).
Lemma sameR_refl c : sameR c c. Proof. repeat split; auto. Qed.
Lemma sameR_set_lastBlocks c v : sameR c (set_lastBlocks c v). Proof. destruct c; repeat split; auto. Qed.
Lemma sameR_set_blast c v : sameR c (set_blast c v). Proof. destruct c; repeat split; auto. Qed.

Section L.
  Variable src : bytes.
  Variable ls : Z.
  Variable s0 : Z.
  Variable ik0 : list inline.
  Variable ne0 : Prop.

  Definition tcl (l : list block) : Prop := forall c, In c (removelast l) -> 0 <= bend c.
  Definition r6 (l : list block) : Prop := forall c, lastL l = Some c -> 0 <= bend c -> sptR src (bend c) ls.
  Definition r7 (l : list block) : Prop := l = [] -> sptR src 0 ls.
  Definition idl (l : list block) : Prop := forall c, lastL l = Some c -> bend c < 0 -> isPSb (bkind c) = true ->
    ((bstart c = s0 /\ bik c = ik0 /\ ik0 <> []) \/ (bik c = [] /\ ls <= bstart c)) /\ (bkind c = SetextHeadingKind -> lpok src (bik c) = true).
  Definition nel (l : list block) : Prop := ne0 -> l <> [].
  Definition TVl (l : list block) : Prop := tcl l /\ gaps src 0 l /\ r6 l /\ r7 l /\ idl l /\ nel l.

  (* U1: the last root child is replaced by one with the same fields *)
  Lemma TVl_same pre c c' : sameR c c' -> TVl (pre ++ [c]) -> TVl (pre ++ [c']).
  Proof.
    intros (S1 & S2 & S3 & S4) (A & B & C & D & E & F). unfold TVl, tcl, r6, r7, idl, nel in *. rewrite !removelast_last in *. rewrite !lastL_snoc in *.
    split; [exact A|]. split; [|split; [|split; [|split]]].
    - apply gaps_app_inv in B. destruct B as [B1 B2]. apply gaps_app; [exact B1|]. cbn [gaps] in *. rewrite S1. tauto.
    - intros x Hx. inversion Hx; subst x. rewrite S2. apply C; reflexivity.
    - intros H. destruct pre; discriminate.
    - intros x Hx. inversion Hx; subst x. rewrite S2, S3, S1. intros Ho Hp. destruct (S4 Hp) as [S5 S6]. rewrite S5.
      destruct (E c eq_refl Ho Hp) as [E1 E2]. split; [exact E1|]. intros Ek. apply E2, S6, Ek.
    - intros H N. destruct pre; discriminate.
  Qed.

  (* U2: an open last root child is replaced by the (closed) result of closing it *)
  Definition RES (c : block) (L : list block) : Prop :=
    L <> [] /\ (forall x, In x L -> 0 <= bend x) /\ gaps src (bstart c) L /\ (forall x, lastL L = Some x -> sptR src (bend x) ls).
  Lemma TVl_close pre c L : RES c L -> TVl (pre ++ [c]) -> TVl (pre ++ L).
  Proof.
    intros (R1 & R2 & R3 & R4) (A & B & C & D & E & F). unfold TVl, tcl, r6, r7, idl, nel in *. rewrite removelast_last in A.
    split; [|split; [|split; [|split; [|split]]]].
    - intros x Hx. rewrite removelast_app in Hx by exact R1. apply in_app_or in Hx. destruct Hx as [Hx|Hx]; [apply A, Hx|apply R2, removelast_In, Hx].
    - apply gaps_app_inv in B. destruct B as [B1 B2]. apply gaps_app; [exact B1|]. cbn [gaps] in B2. eapply gaps_lo; [exact R3|apply B2].
    - intros x Hx _. rewrite lastL_app in Hx by exact R1. apply R4, Hx.
    - intros H. exfalso. destruct pre; [cbn in H; contradiction|discriminate].
    - intros x Hx Ho. rewrite lastL_app in Hx by exact R1. pose proof (R2 x (lastL_In _ _ Hx)). lia.
    - intros _ H. destruct pre; [cbn in H; contradiction|discriminate].
  Qed.
  (* a closed last root child stays *)
  Lemma RES_closed c e : bend c = e -> ls <= e -> 0 <= e -> RES c [c].
  Proof.
    intros Ee Hle H0. split; [discriminate|]. split; [intros x [<-|[]]; lia|]. split; [cbn [gaps]; split; [apply sptR_empty; lia|exact I]|].
    intros x Hx. inversion Hx; subst x. apply sptR_empty. lia.
  Qed.

  (* U3: a new open root child at position cu, after a closed one (or as the first) *)
  Lemma TVl_append l nb cu : (forall c, lastL l = Some c -> 0 <= bend c) -> sptR src ls cu -> ls <= cu -> bstart nb = cu -> bend nb < 0 ->
    (isPSb (bkind nb) = true -> bik nb = [] /\ bkind nb <> SetextHeadingKind) -> TVl l -> TVl (l ++ [nb]).
  Proof.
    intros Hc Hcl Hcu Es Eo Hps (A & B & C & D & E & F). unfold TVl, tcl, r6, r7, idl, nel in *. rewrite removelast_last, lastL_snoc.
    split; [|split; [|split; [|split; [|split]]]].
    - intros x Hx. destruct (lastL l) as [c|] eqn:El.
      + rewrite (lastL_split l c El) in Hx. apply in_app_or in Hx. destruct Hx as [Hx|[<-|[]]]; [apply A, Hx|apply (Hc c eq_refl)].
      + apply lastL_none in El. subst l. destruct Hx.
    - apply gaps_app; [exact B|]. cbn [gaps]. split; [|exact I]. rewrite Es. unfold runEnd. destruct (lastL l) as [c|] eqn:El.
      + eapply sptR_app; [apply (C c eq_refl (Hc c eq_refl))|exact Hcl].
      + apply lastL_none in El. eapply sptR_app; [apply D, El|exact Hcl].
    - intros x Hx Hb. inversion Hx; subst x. lia.
    - intros H. destruct l; discriminate.
    - intros x Hx _ Hp. inversion Hx; subst x. destruct (Hps Hp) as [P1 P2]. split; [right; split; [exact P1|lia]|intros Ek; contradiction].
    - intros _ H. destruct l; discriminate.
  Qed.
End L.
