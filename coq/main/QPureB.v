From Coq Require Import List ZArith Lia Bool.
Import ListNotations.
Require Import Base Tables Utf8 Tree Rdr Link Collect Html Recog Inl3a Inl3b Inl3c Inl3d Inl3e LP Rules Starts Driver Leaf3e RdrBound
  L2Kind L2CC L2CCfull L2Bnd L2BndS Rec16 Rec17 Rec18
  BSDef BSRdr BSTree BSOcp BSOrph BSClose BSLine1 BSLine2 BSLine3 BSLine4 BSLine5 BSLine6 BSLine7 BSLine8 BSErase BSLine9 BSLine10 BSShift BlockSpans.
Require Import QPureA1 QPureA2 QPureA QPureB1 QPureB2.
Open Scope Z_scope.

(* T64-pure, third goal: the byte behind the content entry of an ATX heading.

   For every input D, every root block r of parseBlocks D, every ATX heading block x of its tree and every entry u of x that
   is not empty and ends inside the root's source text (0 <= iend u < len (rb_src r)): the byte at iend u is a space, tab,
   LF, CR or '#' -- or one of the three bytes of U+FFFD that fillNulls writes over a NUL (only when D contains NUL).  In
   particular it is never '>' (parseBlocks_atx_after).  For D without NUL: it is a space, tab, LF, CR or '#'
   (parseBlocks_atx_after_noNul).

   Route: recognizer lemma QPureB1.atx_tail2; per-entry predicate `atq B u` relative to the BUFFER B = buf s (which only
   changes by the shift of makeRoot), tree invariant `aq B`, walk QPureB1/QPureB2 on top of the invariants J (the container
   is never an ATX heading, QPureA1/2) and NoPanic12.G (cursor); the stream layer below follows En2Drv.v / BlockSpans.v
   (SJ gives 0 <= ls <= bi s <= len (buf s) and bi s = lineEnd (buf s) ls, so that a source that does not end with a line
   ending is the whole buffer). *)

(* ---- shifting (makeRoot) ---- *)
Lemma len_from_max {A} (l : list A) n : 0 <= n -> len (from_ l n) = Z.max 0 (len l - n).
Proof. intros Hn. unfold len, from_. rewrite skipn_length. lia. Qed.
Lemma at_neg' l i : i < 0 -> at_ l i = 0.
Proof. intros H. unfold at_. destruct (Z.ltb_spec i 0); [reflexivity|lia]. Qed.
Lemma Lst_nonzero c : In c Lst -> c <> 0.
Proof. unfold Lst. cbn. intros [<-|[<-|[<-|[<-|[<-|[]]]]]]; discriminate. Qed.
Lemma at_In_lt l i c : at_ l i = c -> c <> 0 -> 0 <= i < len l.
Proof.
  intros H N. unfold at_ in H. destruct (Z.ltb_spec i 0) as [L|L]; [congruence|]. split; [exact L|].
  destruct (Z.lt_ge_cases i (len l)) as [X|X]; [exact X|]. rewrite nth_overflow in H by (unfold len in X; lia). congruence.
Qed.

Lemma atq_shift B n u : 0 <= n -> atq B u -> atq (from_ B n) (shiftI (- n) u).
Proof.
  intros Hn H. destruct u as [k s e ind r ks]. unfold atq in *. cbn [shiftI iend istart] in *.
  destruct (Z.leb_spec 0 e) as [Le|Le]; [|left; lia].
  destruct (Z.lt_ge_cases e n) as [Lt|Ge]; [left; lia|].
  destruct H as [H|[H|[H|H]]]; [lia|right; left; lia|right; right; left; rewrite len_from_max by lia; lia|].
  right. right. right. rewrite at_from by lia. replace (n + (e + - n)) with e by lia. exact H.
Qed.
Lemma aq_shift B n : 0 <= n -> forall b, aq B b -> aq (from_ B n) (shiftB (- n) b).
Proof.
  intros Hn. fix IH 1. intros [K s e bk ik a nn c l lb]. cbn [shiftB aq]. intros [Hi Hk]. split.
  - intros E u Hu. apply in_map_iff in Hu. destruct Hu as (v & <- & Hv). apply atq_shift; [exact Hn|apply (Hi E v Hv)].
  - clear Hi. induction bk as [|x r IHr]; [exact I|]. cbn [map allP] in *. destruct Hk as [Hx Hr]. split; [apply IH, Hx|apply IHr, Hr].
Qed.

(* ---- NUL filling ---- *)
Definition fffdL : bytes := [239; 191; 189].
Lemma len_fill_aux' : forall l k, length (fill_aux k l) = length l.
Proof.
  induction l as [|b r IH]; intros k; [reflexivity|]. cbn [fill_aux].
  destruct k as [|[|[|k]]]; try (destruct (b =? 0)); cbn [length]; rewrite IH; reflexivity.
Qed.
Lemma len_fillNulls' l : len (fillNulls l) = len l.
Proof. unfold len, fillNulls. rewrite len_fill_aux'. reflexivity. Qed.
Lemma fill_at' : forall l k i, 0 <= i -> at_ (fill_aux k l) i = at_ l i \/ In (at_ (fill_aux k l) i) fffdL.
Proof.
  induction l as [|b r IH]; intros k i Hi; [left; reflexivity|].
  destruct (Z.eq_dec i 0) as [->|N].
  - cbn [fill_aux]. unfold fffdL. destruct k as [|[|[|k]]]; try (right; rewrite at_cons0; cbn; tauto);
      (destruct (Z.eqb_spec b 0) as [->|Nb]; [right; rewrite at_cons0; cbn; tauto|left; reflexivity]).
  - replace i with ((i - 1) + 1) by lia. cbn [fill_aux].
    destruct k as [|[|[|k]]]; try (destruct (b =? 0)); rewrite !at_consS by lia; apply IH; lia.
Qed.
Lemma fill_id : forall l, ~ In 0 l -> fill_aux 0 l = l.
Proof.
  induction l as [|b r IH]; intros H; [reflexivity|]. cbn [fill_aux].
  destruct (Z.eqb_spec b 0) as [E|N]; [exfalso; apply H; left; exact E|]. rewrite IH; [reflexivity|]. intros X. apply H. right. exact X.
Qed.
Lemma nth_firstn' {A} (d : A) : forall k l j, (j < length (firstn k l))%nat -> nth j (firstn k l) d = nth j l d.
Proof.
  induction k as [|k IH]; intros l j H; [cbn in H; lia|]. destruct l as [|x l]; [reflexivity|]. cbn [firstn] in *.
  destruct j as [|j]; [reflexivity|]. cbn [nth length] in *. apply IH. lia.
Qed.
Lemma at_upto_lt l n i : 0 <= i < len (upto l n) -> at_ (upto l n) i = at_ l i.
Proof.
  intros [H0 H1]. unfold at_. destruct (Z.ltb_spec i 0); [lia|]. unfold upto in *. apply nth_firstn'. unfold len in H1. lia.
Qed.
Lemma len_upto_le (l : bytes) n : len (upto l n) <= len l.
Proof. unfold len, upto. rewrite firstn_length. lia. Qed.

(* ---- the stream layer ---- *)
Section Stream.
  (* a property of buffers kept by taking suffixes (instantiated with "True" and with "contains no NUL byte") *)
  Variable P : bytes -> Prop.
  Hypothesis P_from : forall l n, P l -> P (from_ l n).

  Definition BJ (s : bpst) (ch : list block) : Prop := atL ch = true /\ allP (aq (buf s)) ch /\ P (buf s).
  Definition okRB (r : rootB) : Prop :=
    exists B, P B /\ rb_src r = fillNulls (upto B (bend (rb_blk r))) /\ aq B (rb_blk r).
  Definition okNB (x : nb) : Prop :=
    match x with NBBlock r s' => okRB r /\ (exists ns, SJ s' (pending s') ns) /\ BJ s' (pending s') | _ => True end.

  Lemma BJ_makeRoot s children r s' : BJ s children -> makeRoot children s = Some (r, s') -> okRB r /\ BJ s' (pending s').
  Proof.
    intros (Ht & Ha & Hp) Hm. destruct (at_makeRoot children s r s' Ht Hm) as [_ Ht'].
    unfold makeRoot in Hm. destruct children as [|b rest]; [discriminate|].
    destruct (isOpen b) eqn:Eo; [discriminate|]. inversion Hm; subst. clear Hm.
    unfold isOpen in Eo. apply Z.ltb_ge in Eo. destruct Ha as [Ab Ar]. split.
    - exists (buf s). cbn [rb_blk rb_src]. split; [exact Hp|split; [reflexivity|exact Ab]].
    - split; [exact Ht'|]. cbn [buf pending]. split; [|apply P_from, Hp]. apply allP_map. revert Ar. apply allP_impl. intros x. apply aq_shift, Eo.
  Qed.

  Lemma BJ_lineLoop : forall fuel st children ls s ns, 0 <= ls <= len (buf s) -> bi s = lineEnd (buf s) ls ->
    bndL ls ns children = true -> (ns = false -> ls = len (buf s)) -> ccF children = true -> kidsOK ls children ->
    BJ s children -> okNB (lineLoop fuel st children ls s).
  Proof.
    induction fuel as [|f IH]; intros st children ls s ns Hls Hbi Hc Hn Hcc Hk (Ht & Ha & Hp); [exact I|]. cbn [lineLoop].
    destruct (lineEnd_spec (buf s) ls Hls) as [A B]. rewrite <- Hbi in A, B.
    set (ln := from_ (upto (buf s) (bi s)) ls).
    destruct (line_of (buf s) ls (bi s) ltac:(lia) ltac:(lia)) as [Ll _]. fold ln in Ll.
    set (ns' := if ns then hasByteSuffixEOL ln else false).
    assert (Hc' : bndL (bi s) ns' children = true).
    { unfold ns'. destruct ns.
      - pose proof (bndL_mono ls (bi s) children ltac:(lia) Hc) as Hm. destruct (hasByteSuffixEOL ln); [exact Hm|apply bndL_weaken, Hm].
      - rewrite (Hn eq_refl) in *. replace (bi s) with (len (buf s)) by lia. exact Hc. }
    assert (Hn' : ns' = false -> bi s = len (buf s)).
    { unfold ns'. destruct ns; [|intros _; rewrite (Hn eq_refl) in *; lia].
      intros Ee. destruct (Z.lt_ge_cases (bi s) (len (buf s))) as [Lt|Ge]; [|lia].
      exfalso. rewrite Hbi in Lt. pose proof (line_hasEOL (buf s) ls Hls Lt) as Hh. rewrite <- Hbi in Hh. fold ln in Hh. congruence. }
    pose proof (bnd_processLine (bi s) ns' st children ls (upto (buf s) (bi s)) ltac:(lia) ltac:(lia) ltac:(fold ln; lia)
                  ltac:(rewrite len_upto by lia; lia) ltac:(unfold ns'; fold ln; destruct ns; [tauto|discriminate]) Hc') as H1.
    pose proof (sp_processLine (bi s) ns' st children ls (upto (buf s) (bi s)) ltac:(lia) ltac:(lia) ltac:(fold ln; lia)
                  ltac:(rewrite len_upto by lia; lia) ltac:(unfold ns'; fold ln; destruct ns; [tauto|discriminate]) Hc' Hcc Hk) as H2.
    pose proof (cc_processLine st children ls (upto (buf s) (bi s)) Hcc) as H3.
    pose proof (at_processLine st children ls (upto (buf s) (bi s)) Ht) as H4.
    pose proof (aq_processLine (buf s) (bi s) st children ls ltac:(lia) ltac:(lia) ltac:(intros Lt; apply (B Lt)) Ht Ha) as H5.
    destruct (processLine st children ls (upto (buf s) (bi s))) as [[children' st'] pn]. cbn [fst] in H1, H2, H3, H4, H5.
    destruct (negb (pn =? 0)); [exact I|].
    assert (HS : SJ s children' ns') by (split; [repeat split; try lia; assumption|split; assumption]).
    assert (HB : BJ s children') by (split; [exact H4|split; [exact H5|exact Hp]]).
    destruct (makeRoot children' s) as [[r s']|] eqn:Em.
    - cbn [okNB]. destruct (SJ_makeRoot _ _ _ _ _ HS Em) as [_ Hs']. destruct (BJ_makeRoot _ _ _ _ HB Em) as [Hr Hb'].
      split; [exact Hr|split; [eauto|exact Hb']].
    - apply (IH st' children' (bi s) _ ns'); cbn [buf bi]; try assumption; try lia; reflexivity.
  Qed.

  Lemma BJ_skipLoop : forall fuel s, bi s = 0 -> P (buf s) -> okNB (skipLoop fuel s).
  Proof.
    induction fuel as [|f IH]; intros s Hb Hp; [exact I|]. cbn [skipLoop]. cbv zeta.
    destruct (negb _); [exact I|]. destruct (isBlankLine _); [apply IH; [reflexivity|cbn [buf]; apply P_from, Hp]|].
    apply (BJ_lineLoop f 0 [] 0 _ true); cbn [buf bi];
      [pose proof (len_nonneg (buf s)); lia|rewrite Hb; reflexivity|reflexivity|discriminate|reflexivity|split; exact I|].
    split; [reflexivity|split; [exact I|exact Hp]].
  Qed.

  Lemma BJ_nextBlock fuel s ns : SJ s (pending s) ns -> BJ s (pending s) -> okNB (nextBlock fuel s).
  Proof.
    intros HS HB. unfold nextBlock. destruct (makeRoot (pending s) s) as [[r s']|] eqn:Em.
    - cbn [okNB]. destruct (SJ_makeRoot _ _ _ _ _ HS Em) as [_ Hs']. destruct (BJ_makeRoot _ _ _ _ HB Em) as [Hr Hb'].
      split; [exact Hr|split; [eauto|exact Hb']].
    - destruct HS as ((Hb & Hc & Hn) & Hcc & Hk). destruct (pending s) as [|b0 rest] eqn:Ep.
      + apply BJ_skipLoop; [reflexivity|]. cbn [buf]. apply P_from. apply HB.
      + apply (BJ_lineLoop fuel 0 (b0 :: rest) (bi s) _ ns); cbn [buf bi]; try assumption; try lia; reflexivity.
  Qed.

  Lemma BJ_allBlocks : forall fuel s acc ns, SJ s (pending s) ns -> BJ s (pending s) -> Forall okRB acc -> Forall okRB (fst (allBlocks fuel s acc)).
  Proof.
    induction fuel as [|f IH]; intros s acc ns HS HB Ha; [exact Ha|]. cbn [allBlocks].
    pose proof (BJ_nextBlock (3 + length (buf s)) s ns HS HB) as Hn.
    destruct (nextBlock _ s) as [r s'| | |]; try exact Ha.
    destruct Hn as (Hr & (ns' & Hs') & Hb'). apply (IH s' _ ns'); [exact Hs'|exact Hb'|]. apply Forall_app. split; [exact Ha|]. constructor; [exact Hr|constructor].
  Qed.

  Theorem parseBlocks_okRB : forall input, P (pad input) -> Forall okRB (fst (parseBlocks input)).
  Proof.
    intros input Hp. unfold parseBlocks. apply (BJ_allBlocks _ _ _ true); [| |constructor].
    - split; [|split; [reflexivity|split; exact I]].
      unfold SI. cbn [buf bi pending]. pose proof (len_nonneg (pad input)). repeat split; try lia.
    - split; [reflexivity|split; [exact I|exact Hp]].
  Qed.
End Stream.

(* ---- from the invariant to the statement ---- *)
Lemma aq_inBk B x : forall b, inBk x b -> aq B b -> aq B x.
Proof.
  intros b Hin. induction Hin as [|b c Hc Hin IH]; intros H; [exact H|]. apply IH.
  apply aq_eq in H. destruct H as [_ H]. eapply allP_In; eassumption.
Qed.

Lemma okRB_after P r : okRB P r -> forall x, inBk x (rb_blk r) -> bkind x = ATXHeadingKind -> forall u, In u (bik x) ->
  istart u < iend u -> 0 <= iend u < len (rb_src r) ->
  exists B, P B /\ rb_src r = fillNulls (upto B (bend (rb_blk r))) /\ In (at_ (upto B (bend (rb_blk r))) (iend u)) Lst.
Proof.
  intros (B & Hp & Es & Ha) x Hx Hk u Hu Hne He. exists B. split; [exact Hp|]. split; [exact Es|].
  pose proof (aq_inBk B x _ Hx Ha) as Hax. apply aq_eq in Hax. destruct Hax as [Hl _]. specialize (Hl Hk u Hu).
  rewrite Es, len_fillNulls' in He. pose proof (len_upto_le B (bend (rb_blk r))) as Hle.
  rewrite at_upto_lt by lia. destruct Hl as [H|[H|[H|H]]]; [lia|lia|lia|exact H].
Qed.

(* every input: the byte behind the entry is a blank, a line ending, '#', or a byte of U+FFFD written over a NUL *)
Theorem parseBlocks_atx_after_gen : forall D r x, In r (fst (parseBlocks D)) -> inBk x (rb_blk r) -> bkind x = ATXHeadingKind ->
  forall u, In u (bik x) -> istart u < iend u -> 0 <= iend u < len (rb_src r) ->
  In (at_ (rb_src r) (iend u)) (Lst ++ fffdL).
Proof.
  intros D r x Hr Hx Hk u Hu Hne He.
  pose proof (parseBlocks_okRB (fun _ => True) (fun _ _ _ => I) D I) as H. rewrite Forall_forall in H.
  destruct (okRB_after _ r (H r Hr) x Hx Hk u Hu Hne He) as (B & _ & Es & Hin).
  rewrite Es. unfold fillNulls. apply in_or_app.
  destruct (fill_at' (upto B (bend (rb_blk r))) 0 (iend u) ltac:(lia)) as [E|F]; [left; rewrite E; exact Hin|right; exact F].
Qed.
Print Assumptions parseBlocks_atx_after_gen.

(* MAIN THEOREM (third goal), as asked: every input; the hypotheses on the byte before the end are not needed *)
Theorem parseBlocks_atx_after : forall D r x, In r (fst (parseBlocks D)) -> inBk x (rb_blk r) -> bkind x = ATXHeadingKind ->
  forall u, In u (bik x) -> istart u < iend u -> iend u < len (rb_src r) ->
  at_ (rb_src r) (iend u - 1) <> 10 -> at_ (rb_src r) (iend u - 1) <> 13 -> at_ (rb_src r) (iend u) <> 62.
Proof.
  intros D r x Hr Hx Hk u Hu Hne He _ _.
  destruct (Z.lt_ge_cases (iend u) 0) as [L|L]; [rewrite at_neg' by exact L; discriminate|].
  pose proof (parseBlocks_atx_after_gen D r x Hr Hx Hk u Hu Hne ltac:(lia)) as H.
  intros E. rewrite E in H. unfold Lst, fffdL in H. cbn in H.
  repeat (destruct H as [H|H]; [discriminate H|]). exact H.
Qed.
Print Assumptions parseBlocks_atx_after.

(* inputs without NUL: the byte behind the entry is a space, tab, LF, CR or '#' *)
Lemma noNul_pad D : ~ In 0 D -> pad D = D.
Proof.
  induction D as [|b r IH]; intros H; [reflexivity|]. unfold pad in *. cbn [flat_map].
  destruct (Z.eqb_spec b 0) as [E|N]; [exfalso; apply H; left; exact E|]. cbn [app]. rewrite IH; [reflexivity|]. intros X. apply H. right. exact X.
Qed.
Theorem parseBlocks_atx_after_noNul : forall D, ~ In 0 D -> forall r x, In r (fst (parseBlocks D)) -> inBk x (rb_blk r) ->
  bkind x = ATXHeadingKind -> forall u, In u (bik x) -> istart u < iend u -> 0 <= iend u < len (rb_src r) ->
  In (at_ (rb_src r) (iend u)) [32; 9; 10; 13; 35].
Proof.
  intros D Hn r x Hr Hx Hk u Hu Hne He.
  assert (Pf : forall l n, ~ In 0 l -> ~ In 0 (from_ l n)) by (intros l n H X; apply H; eapply L2Kind2.from_sub; exact X).
  pose proof (parseBlocks_okRB (fun l => ~ In 0 l) Pf D ltac:(rewrite noNul_pad by exact Hn; exact Hn)) as H. rewrite Forall_forall in H.
  destruct (okRB_after _ r (H r Hr) x Hx Hk u Hu Hne He) as (B & Hp & Es & Hin).
  rewrite Es. unfold fillNulls. rewrite fill_id; [exact Hin|].
  intros X. apply Hp. unfold upto in X. rewrite <- (firstn_skipn (Z.to_nat (bend (rb_blk r))) B). apply in_or_app. left. exact X.
Qed.
Print Assumptions parseBlocks_atx_after_noNul.
