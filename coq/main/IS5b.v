From Coq Require Import List ZArith Lia Bool.
Import ListNotations.
Require Import Base Tables Utf8 Tree Rdr Link Collect Html Recog Inl3a Inl3b Inl3c Inl3d ShapesBase ShapesR ShapesHT.
Open Scope Z_scope.

(* ================================================================== *)
(* IS5b: where the link scanners stop: an inline link ends just after  *)
(* a ")", a link label just after a "]", and neither ends before the   *)
(* position it was started from.                                       *)
(* ================================================================== *)

Section LK.
  Variable src : bytes.
  Variable B : Z.
  Notation HB := (HB src B).

  Ltac hstep :=
    repeat match goal with
    | |- context [current ?r] =>
        match goal with Hr : HB r |- _ =>
          let H := fresh "Hc" in let c := fresh "c" in let r' := fresh "r" in let E := fresh "Ec" in
          pose proof (HB_current src B r Hr) as H; destruct (current r) as [c r'] eqn:E; cbn [snd] in H end
    | |- context [next ?r] =>
        match goal with Hr : HB r |- _ =>
          let H := fresh "Hn" in let ok := fresh "ok" in let r' := fresh "r" in let E := fresh "En" in
          pose proof (HB_next src B r Hr) as H; destruct (next r) as [ok r'] eqn:E; cbn [snd] in H end
    end.

  Lemma HB_ld_angle : forall fuel r start, HB r -> HB (snd (ld_angle fuel r start)).
  Proof.
    induction fuel as [|f IH]; intros r start H; [exact H|]. cbn [ld_angle]. hstep.
    destruct (negb ok); [exact Hn|]. hstep.
    destruct (_ || _); [exact Hc|].
    destruct (c =? 92).
    { hstep. destruct (negb ok0); [exact Hn0|]. hstep. destruct (_ || _); [exact Hc0|]. apply IH. exact Hc0. }
    destruct (c =? 62); [hstep; exact Hn0|]. apply IH. exact Hc.
  Qed.
  Lemma HB_ld_bare : forall fuel r paren, HB r -> HB (ld_bare fuel r paren).
  Proof.
    induction fuel as [|f IH]; intros r paren H; [exact H|]. cbn [ld_bare]. hstep.
    destruct (_ || _); [exact Hc|].
    destruct (c =? 92).
    { hstep. destruct ok; [|exact Hn]. hstep. destruct (_ || _); [exact Hc0|]. hstep. destruct ok0; [apply IH|]; assumption. }
    destruct (c =? 40).
    { hstep. destruct ok; [apply IH|]; assumption. }
    destruct (c =? 41).
    { destruct (_ <? 0); [exact Hc|]. hstep. destruct ok; [apply IH|]; assumption. }
    hstep. destruct ok; [apply IH|]; assumption.
  Qed.
  Lemma HB_parseLinkDestination fuel r : HB r -> HB (snd (parseLinkDestination fuel r)).
  Proof.
    intros H. unfold parseLinkDestination. hstep.
    destruct (c =? 60); [apply HB_ld_angle; exact Hc|].
    destruct (_ && _ && _); [|exact Hc]. cbn [snd]. apply HB_ld_bare. exact Hc.
  Qed.
  Lemma HB_lt_loop : forall fuel r start term, HB r -> HB (snd (lt_loop fuel r start term)).
  Proof.
    induction fuel as [|f IH]; intros r start term H; [exact H|]. cbn [lt_loop]. hstep.
    destruct (negb ok); [exact Hn|]. hstep.
    destruct (c =? 92).
    { hstep. destruct (negb ok0); [exact Hn0|]. apply IH. exact Hn0. }
    destruct (c =? term); [hstep; exact Hn0|]. apply IH. exact Hc.
  Qed.
  Lemma HB_parseLinkTitle fuel r : HB r -> HB (snd (parseLinkTitle fuel r)).
  Proof.
    intros H. unfold parseLinkTitle. hstep. destruct (negb _); [exact Hc|]. apply HB_lt_loop. exact Hc.
  Qed.

  Lemma HB_ll_skip : forall fuel r chars r1 ch1, HB r -> ll_skip fuel r chars = Some (r1, ch1) -> HB r1.
  Proof.
    induction fuel as [|f IH]; intros r chars r1 ch1 H E; [discriminate E|]. cbn [ll_skip] in E. revert E. hstep.
    destruct (negb ok); [intros E0; discriminate E0|]. hstep. destruct (_ || _ || _); [intros E0; discriminate E0|].
    destruct (negb _); intros E; [inversion E; subst; exact Hc|]. eapply IH; [|exact E]; assumption.
  Qed.
  Lemma HB_ll_body : forall fuel r chars ie r1 ie1, HB r -> ll_body fuel r chars ie = Some (r1, ie1) -> HB r1.
  Proof.
    induction fuel as [|f IH]; intros r chars ie r1 ie1 H E; [discriminate E|]. cbn [ll_body] in E. revert E. hstep.
    destruct (negb _); [intros E; inversion E; subst; exact Hc|].
    destruct (c =? 92).
    { hstep. intros E. destruct ok; cbn [negb] in E; [|discriminate E]. destruct ok0; cbn [negb] in E; [|discriminate E]. eapply IH; [|exact E]; assumption. }
    hstep. intros E. destruct ok; cbn [negb] in E; [|discriminate E]. eapply IH; [|exact E]; assumption.
  Qed.
End LK.

(* a label: valid span => it starts at the reader's position and ends just after a "]" *)
Lemma parseLinkLabel_end src fuel r lspan linner r' : RI src r ->
  parseLinkLabel fuel r = (lspan, linner, r') -> spanValid lspan = true ->
  fst lspan = r_pos r /\ at_ src (snd lspan - 1) = 93 /\ r_pos r + 1 <= snd lspan.
Proof.
  intros HRI E Hv. unfold parseLinkLabel in E.
  assert (H0 : HB src (r_pos r) r) by (split; [exact HRI|lia]).
  pose proof (HB_current src _ r H0) as Hc0. destruct (current_fields r) as (_ & P0 & _). cbv zeta in P0.
  destruct (current r) as [c r0]. cbn [snd] in *.
  destruct (negb (c =? 91)); [inversion E; subst; discriminate|].
  destruct (ll_skip fuel r0 0) as [[r1 chars]|] eqn:Es; [|inversion E; subst; discriminate].
  pose proof (HB_ll_skip src _ _ _ _ _ _ Hc0 Es) as H1.
  destruct (ll_body fuel r1 chars (-1)) as [[r2 innerEnd]|] eqn:Eb; [|inversion E; subst; discriminate].
  pose proof (HB_ll_body src _ _ _ _ _ _ _ H1 Eb) as H2.
  pose proof (HB_current src _ r2 H2) as Hc2. destruct (current_fields r2) as (S2 & P2 & _). cbv zeta in S2, P2.
  destruct (current r2) as [c2 r3] eqn:Ec2. cbn [snd] in *.
  destruct (Z.eqb_spec c2 93) as [E93|E93]; cbn [negb] in E; [|inversion E; subst; discriminate].
  destruct (next r3) as [ok4 r4]. inversion E; subst lspan linner r'. cbn [fst snd].
  assert (Hcur : cur r2 = 93) by (unfold cur; rewrite Ec2; exact E93).
  destruct (cur_src r2 93 Hcur eq_refl) as (A & _). destruct H2 as ((Hs2 & _) & Hb2). rewrite Hs2 in A.
  split; [lia|]. split; [rewrite P2; replace (r_pos r2 + 1 - 1) with (r_pos r2) by lia; exact A|]. rewrite P2. lia.
Qed.

(* an inline link: valid span => it starts at `start` and ends just after a ")" that lies after the "(" *)
Lemma parseInlineLink_end fuel st start ispan d t : spOK (isrc st) (unpFrom st) = true ->
  parseInlineLink fuel st start = (ispan, d, t) -> spanValid ispan = true ->
  fst ispan = start /\ at_ (isrc st) (snd ispan - 1) = 41 /\ start + 2 <= snd ispan.
Proof.
  intros Hok E Hv. unfold parseInlineLink in E. set (src := isrc st) in *.
  set (r := newReader src (unpFrom st) (start + 1)) in *.
  assert (H0 : HB src (start + 1) r) by (split; [split; [reflexivity|exact Hok]|cbn; lia]).
  pose proof (HB_skipLinkSpace src _ fuel r H0) as H1. destruct (skipLinkSpace fuel r) as [ok r1]. cbn [snd] in H1.
  destruct (negb ok); [inversion E; subst; discriminate|].
  pose proof (HB_parseLinkDestination src _ fuel r1 H1) as H2. destruct (parseLinkDestination fuel r1) as [[dspan dtext] r2]. cbn [snd] in H2.
  assert (H3 : HB src (start + 1) (snd (if spanValid dspan then skipLinkSpace fuel r2 else (true, r2)))).
  { destruct (spanValid dspan); [apply HB_skipLinkSpace|]; exact H2. }
  destruct (if spanValid dspan then skipLinkSpace fuel r2 else (true, r2)) as [ok2 r3]. cbn [snd] in H3.
  destruct (negb ok2); [inversion E; subst; discriminate|].
  pose proof (HB_parseLinkTitle src _ fuel r3 H3) as H4. destruct (parseLinkTitle fuel r3) as [[tspan ttext] r4]. cbn [snd] in H4.
  assert (H5 : HB src (start + 1) (snd (if spanValid tspan then skipLinkSpace fuel r4 else (true, r4)))).
  { destruct (spanValid tspan); [apply HB_skipLinkSpace|]; exact H4. }
  destruct (if spanValid tspan then skipLinkSpace fuel r4 else (true, r4)) as [ok3 r5]. cbn [snd] in H5.
  destruct (negb ok3); [inversion E; subst; discriminate|].
  destruct (Z.eqb_spec (cur r5) 41) as [E41|E41]; cbn [negb] in E; [|inversion E; subst; discriminate].
  inversion E; subst ispan d t. cbn [fst snd].
  destruct (cur_src r5 41 E41 eq_refl) as (A & _). destruct H5 as ((Hs5 & _) & Hb5). rewrite Hs5 in A.
  split; [reflexivity|]. split; [replace (r_pos r5 + 1 - 1) with (r_pos r5) by lia; exact A|lia].
Qed.

Lemma parseLinkLabel_inner_ge src fuel r lspan linner r' : RI src r ->
  parseLinkLabel fuel r = (lspan, linner, r') -> spanValid lspan = true -> r_pos r <= fst linner.
Proof.
  intros HRI E Hv. unfold parseLinkLabel in E.
  assert (H0 : HB src (r_pos r) r) by (split; [exact HRI|lia]).
  pose proof (HB_current src _ r H0) as Hc0. destruct (current r) as [c r0]. cbn [snd] in *.
  destruct (negb (c =? 91)); [inversion E; subst; discriminate|].
  destruct (ll_skip fuel r0 0) as [[r1 chars]|] eqn:Es; [|inversion E; subst; discriminate].
  pose proof (HB_ll_skip src _ _ _ _ _ _ Hc0 Es) as H1.
  destruct (ll_body fuel r1 chars (-1)) as [[r2 innerEnd]|] eqn:Eb; [|inversion E; subst; discriminate].
  destruct (current r2) as [c2 r3]. destruct (negb (c2 =? 93)); [inversion E; subst; discriminate|].
  destruct (next r3) as [ok4 r4]. inversion E; subst. cbn [fst]. apply H1.
Qed.
