From Coq Require Import List ZArith Lia Bool.
Import ListNotations.
Require Import Base Tree Rdr Link Collect Html Recog LP Rules Starts Driver L2Kind L2CC BSDef BSRdr BSTree BSOcp BSOrph BSClose BSLine1 BSLine2 BSLine3 BSLine4
  GramTree GramLP GramLP2 Cursor CursorX NoPanic12 ShDef ShRdr ShClose ShEnv ShLine1 ShLine2 ShFresh ShStarts2.
Require Import Props ShapesBase ShapesA EntBase EntOcpDefs EntOcp EntTree EntCur EntLP1 EntLP2 BndDefs BndBDefs BndB1 BndB2.
Open Scope Z_scope.

(* ================================================================== *)
(* BndB3: the info string, collectInline, the match rules and          *)
(* descendOpenBlocks.                                                  *)
(* ================================================================== *)

(* ---- positions that are good because of a neighbouring ASCII byte ---- *)
Section Info.
  Variable src : bytes.
  Variable g : Z -> bool.
  Hypothesis Gp : forall p, at_ src (p - 1) <> 0 -> at_ src (p - 1) < 128 -> g p = true.
  Hypothesis Gc : forall p, at_ src p <> 0 -> at_ src p < 128 -> g p = true.

  Lemma punct_ascii c : isASCIIPunctuation c = true -> c <> 0 /\ c < 128.
  Proof.
    unfold isASCIIPunctuation. intros H.
    repeat (apply orb_true_iff in H; destruct H as [H|H]); apply andb_true_iff in H; destruct H as [H1 H2]; apply Z.leb_le in H1, H2; lia.
  Qed.

  Lemma infoString_loop_good : forall fuel i e ps acc, 0 <= i -> g ps = true -> forallb (gI g) acc = true ->
    forallb (gI g) (fst (infoString_loop fuel src i e ps acc)) = true /\ g (snd (infoString_loop fuel src i e ps acc)) = true.
  Proof.
    induction fuel as [|f IH]; intros i e ps acc Hi Hps Hacc; [cbn; tauto|]. cbn [infoString_loop].
    destruct (e <=? i); [cbn; tauto|]. cbv zeta.
    assert (Hsnoc : forall u, gI g u = true -> forallb (gI g) (acc ++ [u]) = true).
    { intros u Hu. rewrite forallb_app, Hacc. cbn [forallb]. rewrite Hu. reflexivity. }
    destruct (Z.eqb_spec (at_ src i) 92) as [E92|N92].
    { assert (Gi : g i = true) by (apply Gc; rewrite E92; lia).
      destruct ((e <=? i + 1) || negb (isASCIIPunctuation (at_ src (i + 1)))) eqn:Ep; [apply IH; [lia|assumption|assumption]|].
      apply orb_false_iff in Ep. destruct Ep as [_ Ep]. apply negb_false_iff in Ep. destruct (punct_ascii _ Ep) as [P0 P1].
      assert (G1 : g (i + 1) = true) by (apply Gp; replace (i + 1 - 1) with i by lia; rewrite E92; lia).
      assert (G2 : g (i + 2) = true) by (apply Gp; replace (i + 2 - 1) with (i + 1) by lia; assumption).
      apply IH; [lia|exact G2|].
      assert (Hacc' : forallb (gI g) (if ps <? i then acc ++ [mkI TextKind ps i] else acc) = true).
      { destruct (ps <? i); [apply Hsnoc, gI_mkI; assumption|exact Hacc]. }
      rewrite forallb_app, Hacc'. cbn [forallb]. rewrite (gI_mkI g TextKind (i + 1) (i + 2) G1 G2). reflexivity. }
    destruct (Z.eqb_spec (at_ src i) 38) as [E38|N38]; [|apply IH; [lia|assumption|assumption]].
    assert (Gi : g i = true) by (apply Gc; rewrite E38; lia).
    destruct (Z.ltb_spec (parseCharacterEscape (sub src i e)) 0) as [Ln|Ln]; [apply IH; [lia|assumption|assumption]|].
    destruct (parseCharacterEscape_shape _ _ eq_refl Ln) as (_ & A1 & A2 & A3). set (en := parseCharacterEscape (sub src i e)) in *.
    pose proof (len_sub_le src i e) as Hle.
    rewrite at_sub in A1 by lia.
    assert (Ge : g (i + en) = true) by (apply Gp; replace (i + en - 1) with (i + (en - 1)) by lia; rewrite A1; lia).
    apply IH; [lia|exact Ge|].
    assert (Hacc' : forallb (gI g) (if ps <? i then acc ++ [mkI TextKind ps i] else acc) = true).
    { destruct (ps <? i); [apply Hsnoc, gI_mkI; assumption|exact Hacc]. }
    rewrite forallb_app, Hacc'. cbn [forallb]. rewrite (gI_mkI g CharacterReferenceKind i (i + en) Gi Ge). reflexivity.
  Qed.

  Lemma parseInfoString_good s e : 0 <= s -> g s = true -> g e = true -> gI g (parseInfoString src s e) = true.
  Proof.
    intros Hs Gs Ge. unfold parseInfoString.
    destruct (infoString_loop_good (S (Z.to_nat (e - s))) s e s [] Hs Gs eq_refl) as [H1 H2].
    destruct (infoString_loop _ src s e s []) as [acc ps]. cbn [fst snd] in H1, H2. cbn [gI]. rewrite Gs, Ge. cbn [andb].
    destruct (ps <? e); [|exact H1]. rewrite forallb_app, H1. cbn [forallb]. rewrite (gI_mkI g TextKind ps e H2 Ge). reflexivity.
  Qed.
End Info.

Lemma adv_cases p n : li (advance p n) = li p \/ (0 < n /\ li p + n <= len (line p) /\ li (advance p n) = li p + n).
Proof.
  unfold advance. destruct (Z.ltb_spec n 0); [left; reflexivity|]. destruct (Z.eqb_spec n 0); [left; reflexivity|]. cbv zeta.
  set (p0 := if state p =? stOpening then withState p stOpenMatched else p).
  assert (E : li p0 = li p /\ line p0 = line p) by (unfold p0; destruct (_ =? _); split; reflexivity). destruct E as [E1 E2].
  rewrite E1, E2. destruct (Z.ltb_spec (len (line p)) (li p + n)); [left; unfold panic; cbn; exact E1|].
  right. cbn. lia.
Qed.

Lemma adv_li p n : 0 <= n -> li p + n <= len (line p) -> li (advance p n) = li p + n.
Proof.
  intros Hn Hl. destruct (Z.eq_dec n 0) as [->|N]; [unfold advance; cbn; lia|].
  destruct (adv_cases p n) as [E|(_ & _ & E)]; [|exact E].
  exfalso. revert E. unfold advance. destruct (Z.ltb_spec n 0); [lia|]. destruct (Z.eqb_spec n 0); [lia|]. cbv zeta.
  set (p0 := if state p =? stOpening then withState p stOpenMatched else p).
  assert (E : li p0 = li p /\ line p0 = line p) by (unfold p0; destruct (_ =? _); split; reflexivity). destruct E as [E1 E2].
  rewrite E1, E2. destruct (Z.ltb_spec (len (line p)) (li p + n)); [lia|]. cbn. lia.
Qed.

Section Coll.
  Variable B : bytes.
  Hypothesis HVB : asciiOK B.
  Hypothesis HV0 : boundary_ok B 0 = true.
  Hypothesis Hocp : OcpG B.
  Notation g := (gdb B).
  Notation XP := (XP B).
  Notation Cg := (Cg B).

  (* the source of the line parser: neighbours *)
  Lemma src_Gp p : envB B p -> forall x, at_ (source p) (x - 1) <> 0 -> at_ (source p) (x - 1) < 128 -> g x = true.
  Proof.
    intros He x H0 H1. destruct (src_of B p He) as (S1 & S2 & S3). rewrite S1 in H0, H1.
    pose proof (at_nonzero_lt _ _ H0) as Hr. rewrite len_upto in Hr. rewrite at_upto in H0, H1 by lia.
    apply gdb_prev; assumption.
  Qed.
  Lemma src_Gc p : envB B p -> forall x, at_ (source p) x <> 0 -> at_ (source p) x < 128 -> g x = true.
  Proof.
    intros He x H0 H1. destruct (src_of B p He) as (S1 & S2 & S3). rewrite S1 in H0, H1.
    pose proof (at_nonzero_lt _ _ H0) as Hr. rewrite len_upto in Hr. rewrite at_upto in H0, H1 by lia.
    apply gdb_cur; assumption.
  Qed.

  Definition nodeOf (p : lp) (kind s e : Z) : inline :=
    if kind =? InfoStringKind then parseInfoString (source p) s e else mkI kind s e.
  Lemma nodeOf_good p kind s e : envB B p -> 0 <= s -> g s = true -> g e = true -> gI g (nodeOf p kind s e) = true.
  Proof.
    intros He Hs Gs Ge. unfold nodeOf. destruct (kind =? InfoStringKind); [|apply gI_mkI; assumption].
    apply (parseInfoString_good (source p) g (src_Gp p He) (src_Gc p He)); assumption.
  Qed.

  (* collectInline: the tree.  The end of the collected span must be good for both possible starts (with / without an
     indentation entry in front) *)
  Lemma gB_collectInline p kind n : envB B p -> curP p -> gB g (root p) = true -> Cg p ->
    (forall s e, ((s = li p /\ indent p <= 0) \/ (s = li p + indentLength (rest p) /\ 0 < indent p)) -> (e = s \/ (0 < n /\ e = s + n /\ e <= len (line p))) ->
                 g (lineStart p + s) = true -> g (lineStart p + e) = true) ->
    gB g (root (collectInline p kind n)) = true.
  Proof.
    intros He (C0 & C1) Hg Hc Hend. unfold collectInline. destruct (_ =? stDescendTerminated); [exact Hg|]. cbv zeta.
    set (p0 := if state p =? stOpening then withState p stOpenMatched else p).
    assert (E0 : lineStart p0 = lineStart p /\ li p0 = li p /\ line p0 = line p /\ root p0 = root p /\ source p0 = source p /\ rest p0 = rest p /\ indent p0 = indent p)
      by (unfold p0, rest, indent; destruct (state p =? stOpening); repeat split; reflexivity).
    destruct E0 as (E1 & E2 & E3 & E4 & E5 & E6 & E7).
    destruct (indentLength_spec (rest p)) as (I1 & I2 & I3).
    assert (Hrl : len (rest p) = len (line p) - li p) by (apply len_rest; lia).
    set (p1 := if 0 <? indent p0 then _ else p0).
    assert (H1 : gB g (root p1) = true /\ lineStart p1 = lineStart p /\ line p1 = line p /\ source p1 = source p /\
                 ((li p1 = li p /\ indent p <= 0) \/ (li p1 = li p + indentLength (rest p) /\ 0 < indent p)) /\ g (lineStart p + li p1) = true).
    { unfold p1. destruct (Z.ltb_spec 0 (indent p0)) as [Li|Li]; [|rewrite E1, E2, E3, E4, E5; repeat split; try assumption; left; split; [reflexivity|lia]].
      set (q := advance p0 (indentLength (rest p0))).
      destruct (env_parts _ _ (env_advance p0 (indentLength (rest p0)))) as (V1 & V2 & V3). fold q in V1, V2, V3.
      assert (Rq : root q = root p) by (unfold q; rewrite (root_cstep _ _ (cstep_advance p0 _)); exact E4).
      assert (Lq : li q = li p + indentLength (rest p) /\ g (lineStart p + li q) = true).
      { assert (Ea3 : li q = li p0 + indentLength (rest p0)) by (apply adv_li; rewrite ?E6, ?E2, ?E3; lia).
        rewrite Ea3, E2, E6. split; [reflexivity|].
        destruct (Z.eq_dec (indentLength (rest p)) 0) as [Ek|Ek]; [rewrite Ek; replace (li p + 0) with (li p) by lia; exact Hc|].
        assert (Ea1 : 0 < indentLength (rest p)) by lia.
        - set (k := indentLength (rest p)) in *.
          specialize (I2 (k - 1) ltac:(lia)). rewrite rest_at in I2 by lia.
          replace (lineStart p + (li p + k)) with (lineStart p + (li p + (k - 1)) + 1) by lia.
          unfold isSpTab in I2. apply orb_true_iff in I2.
          apply (g_after B HVB p); [exact He|lia| |]; destruct I2 as [I2|I2]; apply Z.eqb_eq in I2; rewrite I2; lia. }
      destruct Lq as (Lq1 & Lq3).
      cbn [lineStart line source li updCont withRoot setLP]. rewrite V2, V3, V1, E1, E3, E5.
      split; [|repeat split; try assumption; right; split; [exact Lq1|lia]].
      apply gB_updCont; [rewrite Rq; exact Hg|]. intros b Hb. apply gB_add_ik; [exact Hb|].
      cbn [gI forallb]. rewrite E2, Lq3. unfold BndB2.Cg in Hc. rewrite Hc. reflexivity. }
    destruct H1 as (G1 & L1 & L2 & L3 & L4 & L6).
    set (p2 := advance p1 n).
    destruct (env_parts _ _ (env_advance p1 n)) as (W1 & W2 & W3). fold p2 in W1, W2, W3.
    assert (R2 : root p2 = root p1) by apply (root_cstep _ _ (cstep_advance p1 n)).
    apply gB_updCont; [rewrite R2; exact G1|]. intros b Hb. apply gB_add_ik; [exact Hb|].
    rewrite W1, W2, L1, L3.
    assert (Ge : g (lineStart p + li p2) = true).
    { apply (Hend (li p1) (li p2)); [exact L4| |exact L6].
      destruct (adv_cases p1 n) as [Ea|(Ea1 & Ea2 & Ea3)]; fold p2 in Ea || fold p2 in Ea3; [left; exact Ea|right]. rewrite L2 in Ea2. lia. }
    change (if kind =? InfoStringKind then parseInfoString (source p) (lineStart p + li p1) (lineStart p + li p2) else mkI kind (lineStart p + li p1) (lineStart p + li p2))
      with (nodeOf p kind (lineStart p + li p1) (lineStart p + li p2)).
    apply nodeOf_good; [exact He|lia|exact L6|exact Ge].
  Qed.

  Lemma X_collectInline_free p kind n K : XP p -> ckind p K -> freeK K -> kind <> UnparsedKind -> Cg p ->
    (forall s e, ((s = li p /\ indent p <= 0) \/ (s = li p + indentLength (rest p) /\ 0 < indent p)) -> (e = s \/ (0 < n /\ e = s + n /\ e <= len (line p))) ->
                 g (lineStart p + s) = true -> g (lineStart p + e) = true) ->
    XP (collectInline p kind n).
  Proof.
    intros [HE Hg] Hck HK Hk Hc Hend. split; [apply (EP_collectInline_free B p kind n K); assumption|].
    pose proof HE as (A & A1 & _). apply gB_collectInline; assumption.
  Qed.
End Coll.
