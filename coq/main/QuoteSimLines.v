(* QuoteSimLines.v -- T51: the lines of a document D (no tab, CR, NUL) and of quote D.
   A line start a of D, with pre = D[0, a), body (no LF), eol ([10] or nothing at the end of D), post:
     lineEnd D a, the bytes of the line, the corresponding line of quote D at position epsB D a = a + 2 * (number of the line),
     and the arithmetic of sigma / epsB on the line. *)
From Coq Require Import List ZArith Lia Bool Arith.
Import ListNotations.
Require Import Base Tree LP Driver Rec16 Rec17 Rec18 QuoteSimDefs.
Require BlankPrefix.
Open Scope Z_scope.

Definition noLF (l : bytes) : Prop := Forall (fun c => c <> 10) l.
Definition lineAt (D : bytes) (a : Z) (pre body eol post : bytes) : Prop :=
  D = pre ++ body ++ eol ++ post /\ len pre = a /\ noLF body /\ (eol = [10] \/ (eol = [] /\ post = [])) /\
  (pre = [] \/ exists pre0, pre = pre0 ++ [10]) /\ body ++ eol <> [].

(* ---- splitting at the first LF ---- *)
Fixpoint takeLine (l : bytes) : bytes * bytes * bytes :=
  match l with
  | [] => ([], [], [])
  | c :: r => if c =? 10 then ([], [10], r) else let '(b, e, p) := takeLine r in (c :: b, e, p)
  end.
Lemma takeLine_spec : forall l, let '(b, e, p) := takeLine l in l = b ++ e ++ p /\ noLF b /\ (e = [10] \/ (e = [] /\ p = [])).
Proof.
  induction l as [|c r IH]; [cbn; repeat split; [constructor|right; tauto]|]. cbn [takeLine].
  destruct (Z.eqb_spec c 10) as [->|N]; [repeat split; [constructor|left; reflexivity]|].
  destruct (takeLine r) as [[b e] p]. destruct IH as (E & Hb & He). repeat split; [cbn; rewrite <- E; reflexivity|constructor; assumption|exact He].
Qed.

Lemma upto_from {A} (l : list A) n : upto l n ++ from_ l n = l. Proof. apply firstn_skipn. Qed.
Lemma len_upto' {A} (l : list A) n : 0 <= n <= len l -> len (upto l n) = n.
Proof. intros H. unfold len, upto in *. rewrite firstn_length. lia. Qed.

Lemma lineAt_exists D a : 0 <= a < len D -> (a = 0 \/ at_ D (a - 1) = 10) ->
  exists pre body eol post, lineAt D a pre body eol post.
Proof.
  intros Ha Hs. pose proof (takeLine_spec (from_ D a)) as T. destruct (takeLine (from_ D a)) as [[b e] p]. destruct T as (E & Hb & He).
  exists (upto D a), b, e, p. unfold lineAt. split; [rewrite <- E; symmetry; apply upto_from|]. split; [apply len_upto'; lia|]. split; [exact Hb|]. split; [exact He|]. split.
  - destruct Hs as [->|Hs]; [left; reflexivity|right]. destruct (Z.eq_dec a 0) as [->|Na]; [|].
    + exfalso. replace (0 - 1) with (-1) in Hs by lia. unfold at_ in Hs. cbn in Hs. discriminate.
    + exists (upto D (a - 1)). replace (upto D a) with (upto (upto D a) (a - 1) ++ from_ (upto D a) (a - 1)) by apply upto_from.
      assert (E1 : upto (upto D a) (a - 1) = upto D (a - 1)).
      { unfold upto. rewrite firstn_firstn. f_equal. lia. }
      rewrite E1. f_equal.
      assert (E2 : from_ (upto D a) (a - 1) = [at_ D (a - 1)]).
      { rewrite (Rec16.from_cons (upto D a) (a - 1)) by (rewrite ?len_upto' by lia; lia). rewrite (at_upto D a (a - 1)) by lia.
        f_equal. apply Rec16.from_nil. rewrite len_upto' by lia; lia. }
      rewrite E2, Hs. reflexivity.
  - intros En. assert (El : len (from_ D a) = len D - a) by (apply len_from; lia).
    rewrite E in El. apply app_eq_nil in En. destruct En as [-> ->]. destruct He as [He|[_ ->]]; [discriminate|]. unfold len in *. cbn in El. lia.
Qed.

(* ---- lineEnd ---- *)
Lemma findEol_ge : forall l i, 0 <= i -> findEol l i = -1 \/ i <= findEol l i.
Proof.
  induction l as [|c r IH]; intros i Hi; [left; reflexivity|]. cbn [findEol]. destruct (_ || _); [right; lia|].
  destruct (IH (i + 1) ltac:(lia)) as [E|E]; [left; exact E|right; lia].
Qed.
Lemma findEol_shift : forall l i k, 0 <= i -> 0 <= k -> findEol l (i + k) = if findEol l i <? 0 then -1 else findEol l i + k.
Proof.
  induction l as [|c r IH]; intros i k Hi Hk; [reflexivity|]. cbn [findEol]. destruct (_ || _).
  - destruct (Z.ltb_spec i 0); [lia|reflexivity].
  - replace (i + k + 1) with (i + 1 + k) by lia. apply IH; lia.
Qed.
Lemma at_app_shift (P X : bytes) j : 0 <= j -> at_ (P ++ X) (len P + j) = at_ X j.
Proof. intros H. rewrite at_app_r by lia. f_equal. lia. Qed.
Lemma from_app_shift (P X : bytes) j : 0 <= j -> from_ (P ++ X) (len P + j) = from_ X j.
Proof.
  intros H. rewrite <- (from_from (P ++ X) (len P) j) by (pose proof (len_nonneg P); lia). rewrite from_app. reflexivity.
Qed.
Lemma lineEnd_app_shift P X i : 0 <= i -> lineEnd (P ++ X) (len P + i) = len P + lineEnd X i.
Proof.
  intros Hi. unfold lineEnd. cbv zeta. rewrite from_app_shift by lia. pose proof (len_nonneg P) as HP.
  replace (len P + i) with (i + len P) by lia. rewrite (findEol_shift (from_ X i) i (len P)) by lia.
  destruct (findEol_ge (from_ X i) i Hi) as [E|E].
  - rewrite E. cbn. rewrite len_app. reflexivity.
  - destruct (Z.ltb_spec (findEol (from_ X i) i) 0) as [L|L]; [lia|]. destruct (Z.ltb_spec (findEol (from_ X i) i + len P) 0); [lia|].
    set (e := findEol (from_ X i) i) in *. replace (e + len P) with (len P + e) by lia. rewrite at_app_shift by lia.
    destruct (at_ X e =? 10); [lia|]. rewrite len_app.
    destruct (Z.ltb_spec (e + 1) (len X)); destruct (Z.ltb_spec (len P + e + 1) (len P + len X)); try lia.
    replace (len P + e + 1) with (len P + (e + 1)) by lia. rewrite at_app_shift by lia. destruct (_ =? 10); lia.
Qed.
Lemma noLF_noEol l : noLF l -> Forall (fun c => c <> 13) l -> BlankPrefix.noEol l.
Proof.
  intros H1 H2. unfold BlankPrefix.noEol, noLF in *. rewrite Forall_forall in *. intros c Hc. apply orb_false_iff. split; apply Z.eqb_neq; [apply H1|apply H2]; exact Hc.
Qed.
Lemma lineEnd_noEol body : BlankPrefix.noEol body -> lineEnd body 0 = len body.
Proof.
  intros H. unfold lineEnd. change (from_ body 0) with body. cbv zeta.
  assert (E : findEol body 0 = -1).
  { replace body with (body ++ []) by apply app_nil_r. rewrite (BlankPrefix.findEol_app_noeol body [] 0 H). reflexivity. }
  rewrite E. reflexivity.
Qed.

Definition noCR (l : bytes) : Prop := Forall (fun c => c <> 13) l.
Lemma noCR_app a b : noCR (a ++ b) <-> noCR a /\ noCR b. Proof. apply Forall_app. Qed.

Lemma lineAt_lineEnd D a pre body eol post : noCR D -> lineAt D a pre body eol post -> lineEnd D a = a + len body + len eol.
Proof.
  intros Hc (E & Ha & Hb & He & _ & _). subst D. rewrite <- Ha. replace (len pre) with (len pre + 0) at 1 by lia. rewrite lineEnd_app_shift by lia.
  apply noCR_app in Hc. destruct Hc as [_ Hc]. apply noCR_app in Hc. destruct Hc as [Hcb _].
  destruct He as [->|[-> ->]].
  - cbn [app]. rewrite (BlankPrefix.lineEnd_first body 10 post (noLF_noEol _ Hb Hcb) eq_refl). change (10 =? 10) with true. cbv iota. change (len [10]) with 1. lia.
  - cbn [app]. rewrite app_nil_r, (lineEnd_noEol body (noLF_noEol _ Hb Hcb)). change (len (@nil Z)) with 0. lia.
Qed.
Lemma lineAt_from D a pre body eol post : lineAt D a pre body eol post -> from_ D a = body ++ eol ++ post.
Proof. intros (E & Ha & _). subst D. rewrite <- Ha. apply from_app. Qed.
Lemma lineAt_line D a pre body eol post : lineAt D a pre body eol post -> from_ (upto D (a + len body + len eol)) a = body ++ eol.
Proof.
  intros (E & Ha & _). subst D. rewrite <- Ha.
  replace (pre ++ body ++ eol ++ post) with ((pre ++ body ++ eol) ++ post) by (rewrite <- !app_assoc; reflexivity).
  replace (len pre + len body + len eol) with (len (pre ++ body ++ eol)) by (rewrite !len_app; lia).
  rewrite BlankPrefix.upto_app_len. apply from_app.
Qed.

(* ---- counting lines ---- *)
Lemma nlc_app a b : nlc (a ++ b) = nlc a + nlc b.
Proof. induction a as [|c a IH]; [reflexivity|]. cbn [app nlc]. rewrite IH. lia. Qed.
Lemma nlc_noLF l : noLF l -> nlc l = 0.
Proof. induction 1 as [|c l Hc Hl IH]; [reflexivity|]. cbn [nlc]. destruct (Z.eqb_spec c 10); [contradiction|]. rewrite IH. reflexivity. Qed.
Lemma nlc_nonneg l : 0 <= nlc l.
Proof. induction l as [|c l IH]; [cbn; lia|]. cbn [nlc]. destruct (c =? 10); lia. Qed.
Lemma noLF_upto l n : noLF l -> noLF (upto l n).
Proof. unfold noLF. intros H. apply Forall_forall. intros x Hx. rewrite Forall_forall in H. apply H. unfold upto in Hx. revert Hx. generalize (Z.to_nat n). intros k. revert l H. induction k as [|k IH]; intros [|y l] H Hx; cbn in *; try contradiction. destruct Hx as [->|Hx]; [left; reflexivity|right; apply (IH l); [intros z Hz; apply H; right; exact Hz|exact Hx]]. Qed.
Lemma upto_app_in (P X : bytes) x : 0 <= x -> upto (P ++ X) (len P + x) = P ++ upto X x.
Proof.
  intros H. unfold upto, len. replace (Z.to_nat (Z.of_nat (length P) + x)) with (length P + Z.to_nat x)%nat by lia.
  rewrite firstn_app_2. reflexivity.
Qed.
Lemma lineAt_nl D a pre body eol post x : lineAt D a pre body eol post -> 0 <= x <= len body -> nl D (a + x) = nlc pre.
Proof.
  intros (E & Ha & Hb & _) Hx. unfold nl. subst D. rewrite <- Ha. rewrite upto_app_in by lia. rewrite nlc_app.
  assert (E1 : upto (body ++ eol ++ post) x = upto body x).
  { unfold upto. rewrite firstn_app. replace (Z.to_nat x - length body)%nat with O by (unfold len in Hx; lia). cbn [firstn]. apply app_nil_r. }
  rewrite E1, (nlc_noLF _ (noLF_upto _ _ Hb)). lia.
Qed.
Lemma lineAt_nl_end D a pre body post : lineAt D a pre body [10] post -> nl D (a + len body + 1) = nlc pre + 1.
Proof.
  intros (E & Ha & Hb & _). unfold nl. subst D. rewrite <- Ha.
  replace (pre ++ body ++ [10] ++ post) with ((pre ++ body ++ [10]) ++ post) by (rewrite <- !app_assoc; reflexivity).
  replace (len pre + len body + 1) with (len (pre ++ body ++ [10])) by (rewrite !len_app; change (len [10]) with 1; lia).
  rewrite BlankPrefix.upto_app_len, !nlc_app, (nlc_noLF _ Hb). cbn. lia.
Qed.

(* ---- quote D around a line ---- *)
Lemma quoteAux_false_noLF : forall x rest, noLF x -> quoteAux false (x ++ rest) = x ++ quoteAux false rest.
Proof.
  induction x as [|c x IH]; intros rest H; [reflexivity|]. inversion H as [|? ? Hc Hx]; subst. cbn [app quoteAux].
  destruct (Z.eqb_spec c 10); [contradiction|]. rewrite (IH rest Hx). reflexivity.
Qed.
Lemma quoteAux_line body eol post : noLF body -> (eol = [10] \/ (eol = [] /\ post = [])) -> body ++ eol <> [] ->
  quoteAux true (body ++ eol ++ post) = 62 :: 32 :: body ++ eol ++ quoteAux true post.
Proof.
  intros Hb He Hn. destruct body as [|c b].
  - destruct He as [->|[-> _]]; [reflexivity|contradiction].
  - inversion Hb as [|? ? Hc Hb']; subst. cbn [app quoteAux]. destruct (Z.eqb_spec c 10); [contradiction|]. rewrite (quoteAux_false_noLF b _ Hb').
    destruct He as [->|[-> ->]]; reflexivity.
Qed.
Definition endFlag (b : bool) (l : bytes) : bool := match rev l with [] => b | c :: _ => c =? 10 end.
Lemma quoteAux_app : forall l1 l2 b, quoteAux b (l1 ++ l2) = quoteAux b l1 ++ quoteAux (endFlag b l1) l2.
Proof.
  induction l1 as [|c l1 IH]; intros l2 b; [reflexivity|]. cbn [app quoteAux]. rewrite (IH l2 (c =? 10)). rewrite <- app_assoc. cbn [app]. do 2 f_equal.
  unfold endFlag. cbn [rev]. destruct (rev l1) as [|y r] eqn:Er; reflexivity.
Qed.
Lemma lineAt_quote D a pre body eol post : lineAt D a pre body eol post ->
  quote D = quote pre ++ 62 :: 32 :: body ++ eol ++ quoteAux true post.
Proof.
  intros (E & Ha & Hb & He & Hp & Hn). subst D. unfold quote. rewrite quoteAux_app.
  assert (Ef : endFlag true pre = true).
  { destruct Hp as [->|(pre0 & ->)]; [reflexivity|]. unfold endFlag. rewrite rev_app_distr. reflexivity. }
  rewrite Ef. rewrite (quoteAux_line body eol post Hb He Hn). reflexivity.
Qed.

Fixpoint cntL (b : bool) (l : bytes) : Z := match l with [] => 0 | c :: r => (if b then 1 else 0) + cntL (c =? 10) r end.
Lemma len_quoteAux : forall l b, len (quoteAux b l) = len l + 2 * cntL b l.
Proof.
  induction l as [|c l IH]; intros b; [reflexivity|]. cbn [quoteAux cntL]. rewrite len_app, len_cons, (IH (c =? 10)), len_cons.
  destruct b; [change (len [62; 32]) with 2|change (len (@nil Z)) with 0]; lia.
Qed.
Lemma cntL_snoc10 : forall l b, cntL b (l ++ [10]) = (if b then 1 else 0) + nlc l.
Proof.
  induction l as [|c l IH]; intros b; [cbn; lia|]. cbn [app cntL nlc]. rewrite (IH (c =? 10)). lia.
Qed.
Lemma len_quote_pre pre : (pre = [] \/ exists pre0, pre = pre0 ++ [10]) -> len (quote pre) = len pre + 2 * nlc pre.
Proof.
  intros [->|(pre0 & ->)]; [reflexivity|]. unfold quote. rewrite len_quoteAux, cntL_snoc10, nlc_app. cbn [nlc]. change (10 =? 10) with true. cbv iota. lia.
Qed.

(* ---- sigma / epsB on the line ---- *)
Lemma nl_neg D p : p <= 0 -> nl D p = 0.
Proof. intros H. unfold nl, upto. replace (Z.to_nat p) with O by lia. reflexivity. Qed.
Lemma lineAt_epsB_start D a pre body eol post : lineAt D a pre body eol post -> epsB D a = a + 2 * nlc pre.
Proof.
  intros L. pose proof L as (E & Ha & Hb & He & Hp & Hn). unfold epsB. destruct (Z.leb_spec a 0) as [L0|L0].
  - assert (pre = []) by (destruct pre; [reflexivity|rewrite len_cons in Ha; pose proof (len_nonneg pre); lia]). subst pre. cbn. unfold len in Ha. cbn in Ha. lia.
  - destruct Hp as [->|(pre0 & Ep)]; [unfold len in Ha; cbn in Ha; lia|].
    unfold sigma, nl. subst pre. rewrite len_app in Ha. change (len [10]) with 1 in Ha.
    assert (Eu : upto D (a - 1) = pre0).
    { subst D. replace (a - 1) with (len pre0) by lia. rewrite <- !app_assoc. apply BlankPrefix.upto_app_len. }
    rewrite Eu, nlc_app. cbn [nlc]. change (10 =? 10) with true. cbv iota. lia.
Qed.
Lemma lineAt_sigma D a pre body eol post x : lineAt D a pre body eol post -> 0 <= x <= len body -> sigma D (a + x) = epsB D a + 2 + x.
Proof. intros L Hx. unfold sigma. rewrite (lineAt_nl _ _ _ _ _ _ x L Hx), (lineAt_epsB_start _ _ _ _ _ _ L). lia. Qed.
Lemma lineAt_epsB_in D a pre body eol post x : lineAt D a pre body eol post -> 0 < x <= len body + len eol -> epsB D (a + x) = epsB D a + 2 + x.
Proof.
  intros L Hx. pose proof L as (E & Ha & Hb & He & Hp & Hn). pose proof (len_nonneg pre). unfold epsB at 1. destruct (Z.leb_spec (a + x) 0); [lia|].
  assert (Hx1 : 0 <= x - 1 <= len body) by (destruct He as [->|[-> _]]; [change (len [10]) with 1 in Hx|change (len (@nil Z)) with 0 in Hx]; lia).
  replace (a + x - 1) with (a + (x - 1)) by lia. rewrite (lineAt_sigma _ _ _ _ _ _ (x - 1) L Hx1). lia.
Qed.
Lemma epsB_nonneg D y : 0 <= y -> 0 <= epsB D y.
Proof.
  intros H. unfold epsB. destruct (Z.leb_spec y 0); [lia|]. unfold sigma. pose proof (nlc_nonneg (upto D (y - 1))). unfold nl. lia.
Qed.
Lemma nl_mono D p p' : p <= p' -> nl D p <= nl D p'.
Proof.
  intros H. unfold nl. destruct (Z.le_gt_cases p 0) as [L|L]; [rewrite (nl_neg D p L) || (unfold upto; replace (Z.to_nat p) with O by lia; cbn); apply nlc_nonneg|].
  replace (upto D p') with (upto (upto D p') p ++ from_ (upto D p') p) by apply upto_from.
  assert (E : upto (upto D p') p = upto D p) by (unfold upto; rewrite firstn_firstn; f_equal; lia).
  rewrite E, nlc_app. pose proof (nlc_nonneg (from_ (upto D p') p)). lia.
Qed.
Lemma lineAt_mono_ge D a pre body eol post y : lineAt D a pre body eol post -> a <= y -> epsB D a <= sigma D y.
Proof.
  intros L Hy. unfold sigma. pose proof (nl_mono D a y Hy). rewrite <- (Z.add_0_r a) in H at 1. rewrite (lineAt_nl _ _ _ _ _ _ 0 L) in H by (pose proof (len_nonneg body); lia).
  rewrite (lineAt_epsB_start _ _ _ _ _ _ L). lia.
Qed.
Lemma lineAt_mono_lt D a pre body eol post y : lineAt D a pre body eol post -> 0 <= y < a -> sigma D y < epsB D a.
Proof.
  intros L Hy. pose proof L as (E & Ha & Hb & He & Hp & Hn). rewrite (lineAt_epsB_start _ _ _ _ _ _ L). unfold sigma.
  destruct Hp as [->|(pre0 & Ep)]; [unfold len in Ha; cbn in Ha; lia|]. subst pre. rewrite len_app in Ha. change (len [10]) with 1 in Ha.
  assert (Hn1 : nl D y <= nlc pre0).
  { pose proof (nl_mono D y (a - 1) ltac:(lia)) as Hm. unfold nl at 2 in Hm.
    assert (Eu : upto D (a - 1) = pre0) by (subst D; replace (a - 1) with (len pre0) by lia; rewrite <- !app_assoc; apply BlankPrefix.upto_app_len).
    rewrite Eu in Hm. exact Hm. }
  rewrite nlc_app. cbn [nlc]. change (10 =? 10) with true. cbv iota. lia.
Qed.

(* ---- the line of quote D ---- *)
Lemma lineAt_Q D a pre body eol post : noCR D -> lineAt D a pre body eol post ->
  let lsq := epsB D a in let Q := quote D in
  len (quote pre) = lsq /\
  lineEnd Q lsq = lsq + 2 + len body + len eol /\
  from_ (upto Q (lsq + 2 + len body + len eol)) lsq = 62 :: 32 :: body ++ eol /\
  lsq + 2 + len body + len eol <= len Q.
Proof.
  intros Hc L. cbv zeta. pose proof L as (E & Ha & Hb & He & Hp & Hn).
  assert (Elq : len (quote pre) = epsB D a) by (rewrite (len_quote_pre pre Hp), (lineAt_epsB_start _ _ _ _ _ _ L); lia).
  split; [exact Elq|]. rewrite (lineAt_quote _ _ _ _ _ _ L). rewrite <- Elq.
  assert (Hcb : noCR body) by (subst D; apply noCR_app in Hc; destruct Hc as [_ Hc]; apply noCR_app in Hc; apply Hc).
  assert (Hne : BlankPrefix.noEol (62 :: 32 :: body)).
  { constructor; [reflexivity|]. constructor; [reflexivity|]. apply noLF_noEol; assumption. }
  split; [|split].
  - replace (len (quote pre)) with (len (quote pre) + 0) at 1 by lia. rewrite lineEnd_app_shift by lia.
    destruct He as [->|[-> ->]].
    + change (62 :: 32 :: body ++ [10] ++ quoteAux true post) with ((62 :: 32 :: body) ++ 10 :: quoteAux true post).
      rewrite (BlankPrefix.lineEnd_first (62 :: 32 :: body) 10 _ Hne eq_refl). change (10 =? 10) with true. cbv iota. change (len [10]) with 1. rewrite !len_cons. lia.
    + cbn [app quoteAux]. rewrite app_nil_r. rewrite (lineEnd_noEol _ Hne). change (len (@nil Z)) with 0. rewrite !len_cons. lia.
  - replace (quote pre ++ 62 :: 32 :: body ++ eol ++ quoteAux true post) with ((quote pre ++ 62 :: 32 :: body ++ eol) ++ quoteAux true post)
      by (rewrite <- !app_assoc; cbn [app]; rewrite <- !app_assoc; reflexivity).
    replace (len (quote pre) + 2 + len body + len eol) with (len (quote pre ++ 62 :: 32 :: body ++ eol)) by (rewrite !len_app, !len_cons, len_app; lia).
    rewrite BlankPrefix.upto_app_len. apply from_app.
  - rewrite !len_app, !len_cons, !len_app. pose proof (len_nonneg (quoteAux true post)). lia.
Qed.

(* ---- the length of quote D ---- *)
Lemma cntL_removelast : forall l b, l <> [] -> cntL b l = (if b then 1 else 0) + nlc (removelast l).
Proof.
  induction l as [|c l IH]; intros b Hn; [contradiction|]. destruct l as [|c' r]; [cbn; lia|].
  change (cntL b (c :: c' :: r)) with ((if b then 1 else 0) + cntL (c =? 10) (c' :: r)). rewrite (IH (c =? 10)) by discriminate.
  change (removelast (c :: c' :: r)) with (c :: removelast (c' :: r)). cbn [nlc]. lia.
Qed.
Lemma upto_removelast (l : bytes) : l <> [] -> upto l (len l - 1) = removelast l.
Proof.
  intros Hn. unfold upto, len. replace (Z.to_nat (Z.of_nat (length l) - 1)) with (length l - 1)%nat by lia.
  destruct l as [|c r]; [contradiction|]. rewrite removelast_firstn_len. f_equal. lia.
Qed.
Lemma len_quote_epsB D : D <> [] -> len (quote D) = epsB D (len D).
Proof.
  intros Hn. unfold quote. rewrite len_quoteAux, (cntL_removelast D true Hn). unfold epsB.
  assert (Hl : 0 < len D) by (destruct D; [contradiction|rewrite len_cons; pose proof (len_nonneg D); lia]).
  destruct (Z.leb_spec (len D) 0); [lia|]. unfold sigma, nl. rewrite (upto_removelast D Hn). lia.
Qed.
