From Coq Require Import List ZArith Lia Bool.
Import ListNotations.
Require Import Base Tree Rdr Link Collect Html Recog LP Rules Starts Driver L2Kind L2CC BSDef BSRdr BSTree BSOcp BSOrph BSClose BSLine1 BSLine2 BSLine3 BSLine4 BSLine5 BSLine7.
Open Scope Z_scope.

Lemma clG_bend CB g y : bend (clG CB g y) = bend y.
Proof. unfold clG. destruct (lastBlock y); [apply bend_set_lastBlocks|reflexivity]. Qed.
Lemma clG_bstart CB g y : bstart (clG CB g y) = bstart y.
Proof. unfold clG. destruct (lastBlock y); [apply bstart_set_lastBlocks|reflexivity]. Qed.
Lemma clG_kind CB g y : bkind (clG CB g y) = bkind y.
Proof. unfold clG. destruct (lastBlock y); [apply bkind_set_lastBlocks|reflexivity]. Qed.

Lemma sOK_startSetext : startOKs startSetext.
Proof.
  intros p Hs H HL.
  assert (Same : OPx p /\ LI2 p /\ (LI p \/ ms p)) by (split; [exact H|split; [left; exact HL|left; exact HL]]).
  pose proof (ccP_startSetext p ltac:(apply H)) as Hcc. revert Hcc. unfold startSetext. cbv zeta.
  destruct (negb (containerKind p =? ParagraphKind)) eqn:Ek; [intros _; exact Same|].
  destruct (_ <=? _); [intros _; exact Same|]. destruct (_ =? 0); [intros _; exact Same|].
  destruct (containerHasParagraphContent p) eqn:PC; cbn [negb]; [|intros _; exact Same]. clear Same.
  apply negb_false_iff, Z.eqb_eq in Ek.
  set (level := parseSetextHeadingUnderline (bytesAfterIndent p)).
  set (g := fun b : block => set_bn (set_bkind b SetextHeadingKind) level).
  destruct H as [HB H1]. pose proof HB as (A & B & C & D).
  destruct (cdepth p) as [|d] eqn:Ed.
  { exfalso. rewrite (containerKind_root p Ed) in Ek. destruct D as (D1 & _). rewrite D1 in Ek. discriminate. }
  destruct (wf_le p (S d) D ltac:(lia)) as (x & Ex). destruct (wf_le p d D ltac:(lia)) as (y & Ey).
  assert (Kx : bkind x = ParagraphKind) by (rewrite <- Ek; symmetry; apply containerKind_at; rewrite Ed; exact Ex).
  assert (Ox : bend x < 0) by (apply (C (S d) x); [lia|exact Ex]).
  assert (Cx : cc x = true) by (eapply cc_getAt; [apply D|exact Ex]).
  assert (Ly : lastBlock y = Some x) by (rewrite getAt_S_last, Ey in Ex; exact Ex).
  assert (HP : lastIsPara (onCloseParagraph (source p) x) = true).
  { unfold containerHasParagraphContent in PC. rewrite Ek in PC. change (negb (ParagraphKind =? ParagraphKind)) with false in PC. cbv iota zeta in PC.
    unfold contBlock in PC. rewrite Ed, Ex in PC. exact PC. }
  set (q0 := updCont p g).
  assert (Hc : cstep q0 (if state (consumeLine q0) =? stOpening then withState (consumeLine q0) stOpenMatched else consumeLine q0))
    by (eapply cstep_trans; [apply cstep_consumeLine|apply cstep_opened]).
  assert (Nq : nd (consumeLine q0)) by (apply ms_consumeLine, st_open_nd; exact Hs).
  unfold endBlock. fold q0.
  replace ((state (consumeLine q0) =? stDescending) || (state (consumeLine q0) =? stDescendTerminated)) with false
    by (destruct Nq as [-> |[-> | ->]]; reflexivity).
  cbv zeta. set (p6 := if state (consumeLine q0) =? stOpening then withState (consumeLine q0) stOpenMatched else consumeLine q0) in *.
  destruct Hc as ((E1 & E2) & (E3 & E4 & E5) & E6).
  assert (Ecd : cdepth p6 = S d) by (unfold cdepth; rewrite E2; exact Ed).
  rewrite Ecd. intros Hcc.
  assert (Acur : curP p6 /\ Mc p <= Mc p6).
  { specialize (E6 ltac:(apply A)). unfold curP, Mc. rewrite E3, E4. change (lineStart q0) with (lineStart p). change (line q0) with (line p).
    change (li q0) with (li p) in E6. change (line q0) with (line p) in E6. destruct A. lia. }
  destruct Acur as [A6 Hm].
  set (e := lineStart p6 + li p6). change e with (Mc p6) in *.
  set (CB := fun c : block => closeBlock (bheight (root p6)) (source p6) c (Mc p6)).
  assert (Eroot : updAt d (closeF p6 (Mc p6)) (root p6) = updAt d (clG CB g) (root p)).
  { rewrite E1. change (root q0) with (updAt (cdepth p) g (root p)). rewrite Ed. change (closeF p6 (Mc p6)) with (clF CB). apply fuse. }
  destruct (bheight_S (root p6)) as (n & En).
  assert (Sx : sp (Mc p) x) by (eapply sp_getAt; eassumption).
  assert (Hx : 0 <= bstart x <= Mc p6 /\ ascI (bstart x) (Mc p6) (bik x)).
  { pose proof Sx as Sx'. rewrite sp_eq in Sx'. destruct Sx' as (X1 & _ & X3 & _). destruct (X3 Ox) as [_ X4].
    split; [lia|eapply ascI_mono; [exact Hm|apply X4, Kx]]. }
  assert (Oy : bend y < 0) by (apply (C d y); [lia|exact Ey]).
  destruct (setext_close n (source p6) x level (Mc p6) (bend y) ltac:(left; exact Oy) Cx Kx Ox (proj1 Hx) (proj2 Hx)
             ltac:(rewrite E5; exact HP)) as (L1 & L2 & L3).
  rewrite <- En in L1, L2, L3. fold g in L1, L2, L3. change (closeBlock (bheight (root p6)) (source p6) (g x) (Mc p6)) with (CB (g x)) in L1, L2, L3.
  assert (Hroot : sp (Mc p6) (updAt d (clG CB g) (root p))).
  { apply (sp_updAt_at (Mc p6) (clG CB g) d (root p) ltac:(eapply sp_mono; eassumption)).
    intros y' Ey' Sy'. rewrite Ey in Ey'. inversion Ey'; subst y'. split; [|split; [apply clG_bstart|apply clG_bend]].
    unfold clG. rewrite Ly. eapply sp_set_lastBlocks; [exact Sy'|exact Ly|exact L1|exact L2]. }
  assert (Final : OPx (withCont (closeLastChildAt p6 d (Mc p6)) (Some d)) /\ LI (withCont (closeLastChildAt p6 d (Mc p6)) (Some d))).
  { split; [split; [split; [exact A6|split; [|split; [|exact Hcc]]]|]|].
    - rewrite closeLastChildAt_eq. cbn [root withCont withRoot setLP]. rewrite Eroot. exact Hroot.
    - intros j z Hj Ez. change (cdepth (withCont (closeLastChildAt p6 d (Mc p6)) (Some d))) with d in Hj.
      rewrite closeLastChildAt_eq in Ez. cbn [root withCont withRoot setLP] in Ez. rewrite Eroot in Ez.
      destruct (getAt_updAt_low (clG CB g) ltac:(intros; apply clG_bend) d j (root p) z Hj Ez) as (z0 & Z1 & Z2 & _).
      rewrite Z2. apply (C j z0); [lia|exact Z1].
    - intros z Ez Oz. exfalso. change (cdepth (withCont (closeLastChildAt p6 d (Mc p6)) (Some d))) with d in Ez.
      rewrite closeLastChildAt_eq in Ez. cbn [root withCont withRoot setLP] in Ez. rewrite Eroot, getAt_S_updAt, Ey in Ez.
      unfold clG in Ez. rewrite Ly in Ez. rewrite lastBlock_of_list in Ez by (apply closeBlock_nonnil).
      assert (L3' : match rev (CB (g x)) with w :: _ => bend w = Mc p6 | [] => False end) by exact L3.
      destruct (rev (CB (g x))) as [|w t]; [discriminate|]. inversion Ez; subst z. destruct A6. unfold Mc in L3'. lia.
    - intros z Ez. right. change (cdepth (withCont (closeLastChildAt p6 d (Mc p6)) (Some d))) with d in Ez.
      rewrite closeLastChildAt_eq in Ez. cbn [root withCont withRoot setLP] in Ez. rewrite Eroot, getAt_updAt_same, Ey in Ez. cbn in Ez.
      inversion Ez; subst z. rewrite clG_kind. eapply wide_of_child; [eapply (cc_spine d (root p) y x); [apply D|exact Ey|exact Ex]|rewrite Kx; discriminate]. }
  destruct Final as [F1 F2]. split; [exact F1|split; [left; exact F2|left; exact F2]].
Qed.
