From Coq Require Import List ZArith Lia Bool Permutation.
Import ListNotations.
Require Import Base Tree Inl3a SpanForest.
Open Scope Z_scope.

(* ================================================================================================
   Identities: the positive identities of a forest, and what findNode / updNode / removeId / wrapIn
   compute when the target identity occurs exactly once, at a known level.
   ================================================================================================ *)

Fixpoint pidsN (n : pn) : list Z :=
  match n with PN i _ _ _ _ _ ks => (if 0 <? i then [i] else []) ++ flat_map pidsN ks end.
Definition pidsF (l : list pn) : list Z := flat_map pidsN l.

Lemma pidsF_app a b : pidsF (a ++ b) = pidsF a ++ pidsF b. Proof. apply flat_map_app. Qed.
Lemma pidsF_cons n l : pidsF (n :: l) = pidsN n ++ pidsF l. Proof. reflexivity. Qed.
Lemma pidsN_eq n : pidsN n = (if 0 <? pid n then [pid n] else []) ++ pidsF (pkids n).
Proof. destruct n; reflexivity. Qed.
Lemma pidsN_setSpan n s e : pidsN (setSpan n s e) = pidsN n. Proof. destruct n; reflexivity. Qed.
Lemma pidsN_setRef n r : pidsN (setRef n r) = pidsN n. Proof. destruct n; reflexivity. Qed.
Lemma pidsN_setKids n ks : pidsN (setKids n ks) = (if 0 <? pid n then [pid n] else []) ++ pidsF ks.
Proof. destruct n; reflexivity. Qed.

Lemma pid_in_pidsN n : 0 < pid n -> In (pid n) (pidsN n).
Proof. intros H. rewrite pidsN_eq. apply Z.ltb_lt in H. rewrite H. left. reflexivity. Qed.
Lemma kids_in_pidsN n i : In i (pidsF (pkids n)) -> In i (pidsN n).
Proof. intros H. rewrite pidsN_eq. apply in_or_app. right. exact H. Qed.
Lemma in_pidsF n l i : In n l -> In i (pidsN n) -> In i (pidsF l).
Proof. intros A B. unfold pidsF. apply in_flat_map. exists n. tauto. Qed.
Lemma pidsN_pos : forall n i, In i (pidsN n) -> 0 < i.
Proof.
  fix IH 1. intros [id k s e ind r ks] i H. cbn [pidsN] in H. apply in_app_or in H. destruct H as [H|H].
  - destruct (Z.ltb_spec 0 id) as [L|L]; [|destruct H]. destruct H as [<-|[]]. exact L.
  - induction ks as [|x ks IHks]; [destruct H|]. cbn [flat_map] in H. apply in_app_or in H. destruct H as [H|H].
    + exact (IH x i H).
    + exact (IHks H).
Qed.
Lemma pidsF_pos l i : In i (pidsF l) -> 0 < i.
Proof. unfold pidsF. intros H. apply in_flat_map in H. destruct H as (n & _ & H). eapply pidsN_pos, H. Qed.

(* top-level identities *)
Lemma top_not_in id l : 0 < id -> ~ In id (pidsF l) -> ~ In id (map pid l).
Proof.
  intros Hid H Hin. apply in_map_iff in Hin. destruct Hin as (n & E & Hn). apply H.
  eapply in_pidsF; [exact Hn|]. rewrite <- E. apply pid_in_pidsN. rewrite E. exact Hid.
Qed.
Lemma hasId_false id l : ~ In id (map pid l) -> hasId id l = false.
Proof.
  intros H. unfold hasId. apply not_true_is_false. intros E. apply existsb_exists in E. destruct E as (n & Hn & E).
  apply Z.eqb_eq in E. apply H. apply in_map_iff. exists n. tauto.
Qed.
Lemma hasId_true id l n : In n l -> pid n = id -> hasId id l = true.
Proof. intros A B. unfold hasId. apply existsb_exists. exists n. split; [exact A|]. apply Z.eqb_eq. exact B. Qed.

(* ---- sizes (fuel) ---- *)
Lemma psize_pos n : (1 <= psize n)%nat. Proof. destruct n. cbn. lia. Qed.
Lemma fsize_S l : exists f, fsize l = S f. Proof. unfold fsize. eexists. reflexivity. Qed.
Lemma sum_psize_len l : (length l <= fold_right (fun c a => (psize c + a)%nat) O l)%nat.
Proof. induction l as [|x l IH]; cbn [fold_right length]; [lia|]. pose proof (psize_pos x). lia. Qed.
Lemma fsize_len l : (S (length l) <= fsize l)%nat.
Proof. unfold fsize. pose proof (sum_psize_len l). lia. Qed.
Lemma sum_psize_app a b :
  fold_right (fun c x => (psize c + x)%nat) O (a ++ b) =
  (fold_right (fun c x => (psize c + x)%nat) O a + fold_right (fun c x => (psize c + x)%nat) O b)%nat.
Proof. induction a as [|x a IH]; cbn [app fold_right]; [reflexivity|]. rewrite IH. lia. Qed.
Lemma psize_eq n : psize n = fsize (pkids n). Proof. destruct n. reflexivity. Qed.
Lemma fsize_last pre n : (S (length pre) + fsize (pkids n) <= fsize (pre ++ [n]))%nat.
Proof.
  unfold fsize at 2. rewrite sum_psize_app. cbn [fold_right]. rewrite psize_eq. pose proof (sum_psize_len pre). lia.
Qed.

(* ---- findNode ---- *)
Lemma findNode_absent : forall fuel id l, 0 < id -> ~ In id (pidsF l) -> findNode fuel id l = None.
Proof.
  induction fuel as [|f IH]; intros id l Hid H; [reflexivity|]. destruct l as [|n r]; [reflexivity|]. cbn [findNode].
  rewrite pidsF_cons in H.
  destruct (Z.eqb_spec (pid n) id) as [E|E].
  { exfalso. apply H. apply in_or_app. left. rewrite <- E. apply pid_in_pidsN. lia. }
  rewrite (IH id (pkids n) Hid).
  - apply IH; [exact Hid|]. intros Hin. apply H. apply in_or_app. right. exact Hin.
  - intros Hin. apply H. apply in_or_app. left. apply kids_in_pidsN. exact Hin.
Qed.
Lemma findNode_skip : forall pre fuel id l, 0 < id -> ~ In id (pidsF pre) -> (length pre <= fuel)%nat ->
  findNode fuel id (pre ++ l) = findNode (fuel - length pre) id l.
Proof.
  induction pre as [|n pre IH]; intros fuel id l Hid H Hf; [cbn; f_equal; lia|].
  destruct fuel as [|f]; [cbn in Hf; lia|]. cbn [app findNode length]. rewrite pidsF_cons in H.
  destruct (Z.eqb_spec (pid n) id) as [E|E].
  { exfalso. apply H. apply in_or_app. left. rewrite <- E. apply pid_in_pidsN. lia. }
  rewrite (findNode_absent f id (pkids n) Hid).
  - rewrite IH; [f_equal|exact Hid| |cbn in Hf; lia]. intros Hin. apply H. apply in_or_app. right. exact Hin.
  - intros Hin. apply H. apply in_or_app. left. apply kids_in_pidsN. exact Hin.
Qed.
Lemma findNode_top pre n post fuel id : 0 < id -> ~ In id (pidsF pre) -> pid n = id -> (length pre < fuel)%nat ->
  findNode fuel id (pre ++ n :: post) = Some n.
Proof.
  intros Hid H E Hf. rewrite findNode_skip; [|exact Hid|exact H|lia].
  destruct (fuel - length pre)%nat as [|f] eqn:Ef; [lia|]. cbn [findNode]. apply Z.eqb_eq in E. rewrite E. reflexivity.
Qed.

(* ---- updNode ---- *)
Definition updTop (id : Z) (g : pn -> pn) (l : list pn) : list pn := map (fun n => if pid n =? id then g n else n) l.
Lemma updNode_absent g : forall fuel id l, 0 < id -> ~ In id (pidsF l) -> updNode fuel id g l = l.
Proof.
  induction fuel as [|f IH]; intros id l Hid H; [reflexivity|]. cbn [updNode].
  rewrite <- (map_id l) at 2. apply map_ext_in. intros n Hn.
  destruct (Z.eqb_spec (pid n) id) as [E|E].
  { exfalso. apply H. eapply in_pidsF; [exact Hn|]. rewrite <- E. apply pid_in_pidsN. lia. }
  rewrite IH; [apply setKids_same|exact Hid|]. intros Hin. apply H. eapply in_pidsF; [exact Hn|]. apply kids_in_pidsN. exact Hin.
Qed.
(* when the identity does not occur below the top level, updNode acts on the top level only *)
Lemma updNode_top g fuel id l : 0 < id -> (forall n, In n l -> ~ In id (pidsF (pkids n))) ->
  updNode (S fuel) id g l = updTop id g l.
Proof.
  intros Hid H. cbn [updNode]. unfold updTop. apply map_ext_in. intros n Hn.
  destruct (pid n =? id); [reflexivity|]. rewrite updNode_absent; [apply setKids_same|exact Hid|apply H, Hn].
Qed.
Lemma updTop_split id g pre n post : ~ In id (map pid pre) -> ~ In id (map pid post) -> pid n = id ->
  updTop id g (pre ++ n :: post) = pre ++ g n :: post.
Proof.
  intros A B E. unfold updTop. rewrite map_app. cbn [map]. apply Z.eqb_eq in E. rewrite E.
  assert (Hid : forall l, ~ In id (map pid l) -> map (fun n0 => if pid n0 =? id then g n0 else n0) l = l).
  { intros l Hl. rewrite <- (map_id l) at 2. apply map_ext_in. intros x Hx.
    destruct (Z.eqb_spec (pid x) id) as [E'|E']; [|reflexivity]. exfalso. apply Hl. apply in_map_iff. exists x. tauto. }
  rewrite (Hid pre A), (Hid post B). reflexivity.
Qed.

(* ---- removeId ---- *)
Lemma removeId_absent : forall fuel id l, 0 < id -> ~ In id (pidsF l) -> removeId fuel id l = l.
Proof.
  induction fuel as [|f IH]; intros id l Hid H; [reflexivity|]. cbn [removeId].
  rewrite hasId_false by (apply top_not_in; assumption).
  rewrite <- (map_id l) at 2. apply map_ext_in. intros n Hn.
  rewrite IH; [apply setKids_same|exact Hid|]. intros Hin. apply H. eapply in_pidsF; [exact Hn|]. apply kids_in_pidsN. exact Hin.
Qed.
Lemma filter_notid id l : ~ In id (map pid l) -> filter (fun n => negb (pid n =? id)) l = l.
Proof.
  induction l as [|x l IH]; intros H; [reflexivity|]. cbn [filter]. cbn [map] in H.
  destruct (Z.eqb_spec (pid x) id) as [E|E]; [exfalso; apply H; left; exact E|]. cbn [negb]. f_equal. apply IH.
  intros Hin. apply H. right. exact Hin.
Qed.
Lemma removeId_top fuel id pre n post : ~ In id (map pid pre) -> ~ In id (map pid post) -> pid n = id ->
  removeId (S fuel) id (pre ++ n :: post) = pre ++ post.
Proof.
  intros A B E. cbn [removeId]. rewrite (hasId_true id _ n); [|apply in_or_app; right; left; reflexivity|exact E].
  rewrite filter_app. cbn [filter]. apply Z.eqb_eq in E. rewrite E. cbn [negb].
  rewrite (filter_notid id pre A), (filter_notid id post B). reflexivity.
Qed.

(* ---- wrapIn ---- *)
Lemma wrapIn_absent newId kind endId endStart : forall fuel startId parentEnd l, 0 < startId -> ~ In startId (pidsF l) ->
  wrapIn fuel newId kind startId endId endStart parentEnd l = l.
Proof.
  induction fuel as [|f IH]; intros startId parentEnd l Hid H; [reflexivity|]. cbn [wrapIn].
  rewrite hasId_false by (apply top_not_in; assumption).
  rewrite <- (map_id l) at 2. apply map_ext_in. intros n Hn.
  rewrite IH; [apply setKids_same|exact Hid|]. intros Hin. apply H. eapply in_pidsF; [exact Hn|]. apply kids_in_pidsN. exact Hin.
Qed.
Lemma splitAtId_split id pre n post : ~ In id (map pid pre) -> pid n = id ->
  splitAtId id (pre ++ n :: post) = (pre ++ [n], post).
Proof.
  induction pre as [|x pre IH]; intros H E; cbn [app splitAtId].
  - apply Z.eqb_eq in E. rewrite E. reflexivity.
  - cbn [map] in H. destruct (Z.eqb_spec (pid x) id) as [E'|E']; [exfalso; apply H; left; exact E'|].
    rewrite IH; [reflexivity| |exact E]. intros Hin. apply H. right. exact Hin.
Qed.
Lemma splitBeforeId_split id pre n post : ~ In id (map pid pre) -> pid n = id ->
  splitBeforeId (Some id) (pre ++ n :: post) = (pre, n :: post).
Proof.
  induction pre as [|x pre IH]; intros H E; cbn [app splitBeforeId].
  - apply Z.eqb_eq in E. rewrite E. reflexivity.
  - cbn [map] in H. destruct (Z.eqb_spec (pid x) id) as [E'|E']; [exfalso; apply H; left; exact E'|].
    rewrite IH; [reflexivity| |exact E]. intros Hin. apply H. right. exact Hin.
Qed.
Lemma splitBeforeId_none : forall l, splitBeforeId None l = (l, []).
Proof. induction l as [|x l IH]; cbn [splitBeforeId]; [reflexivity|]. rewrite IH. reflexivity. Qed.

Lemma wrapLevel_some newId kind sid eid es parentEnd pre a mid b rest :
  ~ In sid (map pid pre) -> pid a = sid -> ~ In eid (map pid mid) -> pid b = eid ->
  wrapLevel newId kind sid (Some eid) (Some es) parentEnd (pre ++ a :: mid ++ b :: rest) =
  pre ++ a :: PN newId kind (pe a) es 0 [] mid :: b :: rest.
Proof.
  intros A Ea B Eb. unfold wrapLevel. rewrite splitAtId_split by assumption. rewrite splitBeforeId_split by assumption.
  rewrite rev_app_distr. cbn [rev app]. rewrite <- app_assoc. reflexivity.
Qed.
Lemma wrapLevel_none newId kind sid parentEnd pre a post :
  ~ In sid (map pid pre) -> pid a = sid ->
  wrapLevel newId kind sid None None parentEnd (pre ++ a :: post) =
  pre ++ a :: [PN newId kind (pe a) parentEnd 0 [] post].
Proof.
  intros A Ea. unfold wrapLevel. rewrite splitAtId_split by assumption. rewrite splitBeforeId_none.
  rewrite rev_app_distr. cbn [rev app]. rewrite <- app_assoc. reflexivity.
Qed.
Lemma wrapIn_top fuel newId kind sid endId endStart parentEnd l n : In n l -> pid n = sid ->
  wrapIn (S fuel) newId kind sid endId endStart parentEnd l = wrapLevel newId kind sid endId endStart parentEnd l.
Proof. intros A B. cbn [wrapIn]. rewrite (hasId_true sid l n A B). reflexivity. Qed.

(* ---- one level down: the identity lives among the children of the last root node ---- *)
Lemma updNode_last g fuel id pre n : 0 < id -> ~ In id (pidsF pre) -> pid n <> id ->
  updNode (S fuel) id g (pre ++ [n]) = pre ++ [setKids n (updNode fuel id g (pkids n))].
Proof.
  intros Hid A B. change (updNode (S fuel) id g (pre ++ [n])) with
    (map (fun n0 => if pid n0 =? id then g n0 else setKids n0 (updNode fuel id g (pkids n0))) (pre ++ [n])).
  rewrite map_app. cbn [map]. apply Z.eqb_neq in B. rewrite B.
  change (map (fun n0 => if pid n0 =? id then g n0 else setKids n0 (updNode fuel id g (pkids n0))) pre) with (updNode (S fuel) id g pre).
  rewrite updNode_absent by assumption. reflexivity.
Qed.
Lemma removeId_last fuel id pre n : 0 < id -> ~ In id (pidsF pre) -> pid n <> id ->
  removeId (S fuel) id (pre ++ [n]) = pre ++ [setKids n (removeId fuel id (pkids n))].
Proof.
  intros Hid A B. cbn [removeId]. rewrite hasId_false.
  - rewrite map_app. cbn [map]. f_equal.
    assert (E : removeId (S fuel) id pre = pre) by (apply removeId_absent; assumption).
    cbn [removeId] in E. rewrite hasId_false in E by (apply top_not_in; assumption). exact E.
  - rewrite map_app. cbn [map]. intros Hin. apply in_app_or in Hin. destruct Hin as [Hin|[Hin|[]]].
    + revert Hin. apply top_not_in; assumption.
    + apply B. exact Hin.
Qed.
Lemma wrapIn_last fuel newId kind sid endId endStart parentEnd pre n : 0 < sid -> ~ In sid (pidsF pre) -> pid n <> sid ->
  wrapIn (S fuel) newId kind sid endId endStart parentEnd (pre ++ [n]) =
  pre ++ [setKids n (wrapIn fuel newId kind sid endId endStart (pe n) (pkids n))].
Proof.
  intros Hid A B. cbn [wrapIn]. rewrite hasId_false.
  - rewrite map_app. cbn [map]. f_equal.
    assert (E : wrapIn (S fuel) newId kind sid endId endStart parentEnd pre = pre) by (apply wrapIn_absent; assumption).
    cbn [wrapIn] in E. rewrite hasId_false in E by (apply top_not_in; assumption). exact E.
  - rewrite map_app. cbn [map]. intros Hin. apply in_app_or in Hin. destruct Hin as [Hin|[Hin|[]]].
    + revert Hin. apply top_not_in; assumption.
    + apply B. exact Hin.
Qed.
Lemma findNode_last fuel id pre n : 0 < id -> ~ In id (pidsF pre) -> pid n <> id -> (length pre < fuel)%nat ->
  findNode fuel id (pre ++ [n]) = findNode (fuel - length pre - 1) id (pkids n).
Proof.
  intros Hid A B Hf. rewrite findNode_skip; [|exact Hid|exact A|lia].
  destruct (fuel - length pre)%nat as [|f] eqn:Ef; [lia|]. cbn [findNode]. apply Z.eqb_neq in B. rewrite B.
  replace (S f - 1)%nat with f by lia. destruct (findNode f id (pkids n)); [reflexivity|]. destruct f; reflexivity.
Qed.

(* ---- NoDup of positive identities ---- *)
Lemma NoDup_app_l {A} (a b : list A) : NoDup (a ++ b) -> NoDup a.
Proof. induction a as [|x a IH]; intros H; [constructor|]. inversion H; subst. constructor; [|apply IH; assumption]. intros Hin. apply H2. apply in_or_app. left. exact Hin. Qed.
Lemma NoDup_app_r {A} (a b : list A) : NoDup (a ++ b) -> NoDup b.
Proof. induction a as [|x a IH]; intros H; [exact H|]. inversion H; subst. apply IH. assumption. Qed.
Lemma NoDup_app_disj {A} (a b : list A) x : NoDup (a ++ b) -> In x a -> In x b -> False.
Proof.
  induction a as [|y a IH]; intros H Ha Hb; [destruct Ha|]. inversion H; subst. destruct Ha as [->|Ha].
  - apply H2. apply in_or_app. right. exact Hb.
  - apply IH; assumption.
Qed.
Lemma NoDup_app_intro {A} (a b : list A) : NoDup a -> NoDup b -> (forall x, In x a -> In x b -> False) -> NoDup (a ++ b).
Proof.
  induction a as [|y a IH]; intros Ha Hb H; [exact Hb|]. inversion Ha; subst. cbn [app]. constructor.
  - intros Hin. apply in_app_or in Hin. destruct Hin as [Hin|Hin]; [contradiction|]. apply (H y); [left; reflexivity|exact Hin].
  - apply IH; [assumption|assumption|]. intros x Hx. apply H. right. exact Hx.
Qed.

(* the node with a given positive identity, at the top of a forest without repeated identities *)
Lemma split_unique pre n post id : NoDup (pidsF (pre ++ n :: post)) -> 0 < id -> pid n = id ->
  ~ In id (pidsF pre) /\ ~ In id (pidsF post) /\ ~ In id (pidsF (pkids n)).
Proof.
  intros H Hid E. rewrite pidsF_app, pidsF_cons in H.
  assert (Hn : In id (pidsN n)) by (rewrite <- E; apply pid_in_pidsN; lia).
  split; [|split].
  - intros Hin. eapply NoDup_app_disj; [exact H|exact Hin|]. apply in_or_app. left. exact Hn.
  - intros Hin. apply NoDup_app_r in H. eapply NoDup_app_disj; [exact H|exact Hn|exact Hin].
  - intros Hin. apply NoDup_app_r in H. apply NoDup_app_l in H. rewrite pidsN_eq in H.
    apply Z.ltb_lt in Hid. rewrite E, Hid in H. cbn [app] in H. inversion H; subst. contradiction.
Qed.

(* ================================================================================================
   Contexts: the level the delimiter stack works on is either the root list or the children of the
   last root node (the link being finished).
   ================================================================================================ *)
Inductive ctx := CRoot | CLast (pre0 : list pn) (n0 : pn).
Definition plug (c : ctx) (L : list pn) : list pn :=
  match c with CRoot => L | CLast pre0 n0 => pre0 ++ [setKids n0 L] end.
Definition ctxFree (c : ctx) (id : Z) : Prop :=
  match c with CRoot => True | CLast pre0 n0 => ~ In id (pidsF pre0) /\ pid n0 <> id end.

Lemma pidsF_plug c L :
  pidsF (plug c L) = match c with CRoot => pidsF L
                     | CLast pre0 n0 => pidsF pre0 ++ (if 0 <? pid n0 then [pid n0] else []) ++ pidsF L end.
Proof.
  destruct c as [|pre0 n0]; [reflexivity|]. cbn [plug]. rewrite pidsF_app. cbn [pidsF flat_map]. rewrite app_nil_r.
  rewrite pidsN_setKids. reflexivity.
Qed.
Lemma NoDup_plug_level c L : NoDup (pidsF (plug c L)) -> NoDup (pidsF L).
Proof.
  rewrite pidsF_plug. destruct c as [|pre0 n0]; [exact (fun H => H)|]. intros H. apply NoDup_app_r in H. apply NoDup_app_r in H. exact H.
Qed.
Lemma ctxFree_of c L id : NoDup (pidsF (plug c L)) -> In id (pidsF L) -> ctxFree c id.
Proof.
  rewrite pidsF_plug. destruct c as [|pre0 n0]; [exact (fun _ _ => I)|]. intros H Hin. cbn [ctxFree]. split.
  - intros Hp. eapply NoDup_app_disj; [exact H|exact Hp|]. apply in_or_app. right. exact Hin.
  - intros E. apply NoDup_app_r in H. destruct (Z.ltb_spec 0 (pid n0)) as [Lt|Ge].
    + eapply NoDup_app_disj; [exact H|left; exact E|exact Hin].
    + apply pidsF_pos in Hin. lia.
Qed.
Lemma in_top_pidsF pre n post : 0 < pid n -> In (pid n) (pidsF (pre ++ n :: post)).
Proof. intros H. eapply in_pidsF; [apply in_or_app; right; left; reflexivity|]. apply pid_in_pidsN. exact H. Qed.

Section Level.
  Variables (c : ctx) (pre : list pn) (n : pn) (post : list pn) (id : Z).
  Hypothesis Hid : 0 < id.
  Hypothesis Hn : pid n = id.
  Hypothesis Hnd : NoDup (pidsF (plug c (pre ++ n :: post))).

  Let HL : NoDup (pidsF (pre ++ n :: post)) := NoDup_plug_level _ _ Hnd.
  Lemma lvl_free : ctxFree c id.
  Proof. eapply ctxFree_of; [exact Hnd|]. rewrite <- Hn. apply in_top_pidsF. rewrite Hn. exact Hid. Qed.
  Lemma lvl_pre : ~ In id (pidsF pre). Proof. apply (split_unique pre n post id HL Hid Hn). Qed.
  Lemma lvl_post : ~ In id (pidsF post). Proof. apply (split_unique pre n post id HL Hid Hn). Qed.
  Lemma lvl_kids : ~ In id (pidsF (pkids n)). Proof. apply (split_unique pre n post id HL Hid Hn). Qed.
  Lemma lvl_pre_top : ~ In id (map pid pre). Proof. apply top_not_in; [exact Hid|exact lvl_pre]. Qed.
  Lemma lvl_post_top : ~ In id (map pid post). Proof. apply top_not_in; [exact Hid|exact lvl_post]. Qed.
  Lemma lvl_deep : forall m, In m (pre ++ n :: post) -> ~ In id (pidsF (pkids m)).
  Proof.
    intros m Hm Hin. apply in_app_or in Hm. destruct Hm as [Hm|[<-|Hm]].
    - apply lvl_pre. eapply in_pidsF; [exact Hm|]. apply kids_in_pidsN. exact Hin.
    - apply lvl_kids. exact Hin.
    - apply lvl_post. eapply in_pidsF; [exact Hm|]. apply kids_in_pidsN. exact Hin.
  Qed.

  Lemma find_plug : findNode (fsize (plug c (pre ++ n :: post))) id (plug c (pre ++ n :: post)) = Some n.
  Proof.
    pose proof lvl_free as Hc; pose proof lvl_pre as P1; pose proof lvl_post as P2; pose proof lvl_deep as P3; pose proof lvl_pre_top as P4; pose proof lvl_post_top as P5.
    destruct c as [|pre0 n0]; cbn [plug ctxFree] in *.
    - apply findNode_top; [exact Hid|exact P1|exact Hn|]. pose proof (fsize_len (pre ++ n :: post)) as Hl.
      rewrite app_length in Hl. cbn [length] in Hl. lia.
    - destruct Hc as [Hc1 Hc2].
      pose proof (fsize_last pre0 (setKids n0 (pre ++ n :: post))) as Hf. rewrite pkids_setKids in Hf.
      pose proof (fsize_len (pre ++ n :: post)) as Hl. rewrite app_length in Hl. cbn [length] in Hl.
      rewrite findNode_last; [|exact Hid|exact Hc1|rewrite pid_setKids; exact Hc2|lia].
      rewrite pkids_setKids. apply findNode_top; [exact Hid|exact P1|exact Hn|lia].
  Qed.
  Lemma upd_plug g : updNode (fsize (plug c (pre ++ n :: post))) id g (plug c (pre ++ n :: post)) = plug c (pre ++ g n :: post).
  Proof.
    pose proof lvl_free as Hc; pose proof lvl_pre as P1; pose proof lvl_post as P2; pose proof lvl_deep as P3; pose proof lvl_pre_top as P4; pose proof lvl_post_top as P5.
    destruct c as [|pre0 n0]; cbn [plug ctxFree] in *.
    - destruct (fsize_S (pre ++ n :: post)) as [f ->]. rewrite updNode_top; [|exact Hid|exact P3].
      apply updTop_split; [exact P4|exact P5|exact Hn].
    - destruct Hc as [Hc1 Hc2].
      pose proof (fsize_last pre0 (setKids n0 (pre ++ n :: post))) as Hf. rewrite pkids_setKids in Hf.
      destruct (fsize_S (pre ++ n :: post)) as [f1 E1]. rewrite E1 in Hf.
      destruct (fsize (pre0 ++ [setKids n0 (pre ++ n :: post)])) as [|[|f]] eqn:Ef; [lia|lia|].
      rewrite updNode_last; [|exact Hid|exact Hc1|rewrite pid_setKids; exact Hc2]. rewrite pkids_setKids.
      rewrite updNode_top; [|exact Hid|exact P3].
      rewrite updTop_split; [|exact P4|exact P5|exact Hn].
      destruct n0; reflexivity.
  Qed.
  Lemma remove_plug : removeId (fsize (plug c (pre ++ n :: post))) id (plug c (pre ++ n :: post)) = plug c (pre ++ post).
  Proof.
    pose proof lvl_free as Hc; pose proof lvl_pre as P1; pose proof lvl_post as P2; pose proof lvl_deep as P3; pose proof lvl_pre_top as P4; pose proof lvl_post_top as P5.
    destruct c as [|pre0 n0]; cbn [plug ctxFree] in *.
    - destruct (fsize_S (pre ++ n :: post)) as [f ->]. apply removeId_top; [exact P4|exact P5|exact Hn].
    - destruct Hc as [Hc1 Hc2].
      pose proof (fsize_last pre0 (setKids n0 (pre ++ n :: post))) as Hf. rewrite pkids_setKids in Hf.
      destruct (fsize_S (pre ++ n :: post)) as [f1 E1]. rewrite E1 in Hf.
      destruct (fsize (pre0 ++ [setKids n0 (pre ++ n :: post)])) as [|[|f]] eqn:Ef; [lia|lia|].
      rewrite removeId_last; [|exact Hid|exact Hc1|rewrite pid_setKids; exact Hc2]. rewrite pkids_setKids.
      rewrite removeId_top; [|exact P4|exact P5|exact Hn].
      destruct n0; reflexivity.
  Qed.
  Lemma wrap_plug newId kind endId endStart parentEnd :
    wrapIn (fsize (plug c (pre ++ n :: post))) newId kind id endId endStart parentEnd (plug c (pre ++ n :: post)) =
    plug c (wrapLevel newId kind id endId endStart (match c with CRoot => parentEnd | CLast _ n0 => pe n0 end) (pre ++ n :: post)).
  Proof.
    pose proof lvl_free as Hc; pose proof lvl_pre as P1; pose proof lvl_post as P2; pose proof lvl_deep as P3; pose proof lvl_pre_top as P4; pose proof lvl_post_top as P5.
    destruct c as [|pre0 n0]; cbn [plug ctxFree] in *.
    - destruct (fsize_S (pre ++ n :: post)) as [f ->]. apply (wrapIn_top _ _ _ _ _ _ _ _ n); [apply in_or_app; right; left; reflexivity|exact Hn].
    - destruct Hc as [Hc1 Hc2].
      pose proof (fsize_last pre0 (setKids n0 (pre ++ n :: post))) as Hf. rewrite pkids_setKids in Hf.
      destruct (fsize_S (pre ++ n :: post)) as [f1 E1]. rewrite E1 in Hf.
      destruct (fsize (pre0 ++ [setKids n0 (pre ++ n :: post)])) as [|[|f]] eqn:Ef; [lia|lia|].
      rewrite wrapIn_last; [|exact Hid|exact Hc1|rewrite pid_setKids; exact Hc2]. rewrite pkids_setKids, pe_setKids.
      rewrite (wrapIn_top _ _ _ _ _ _ _ _ n); [|apply in_or_app; right; left; reflexivity|exact Hn].
      destruct n0; reflexivity.
  Qed.
End Level.
