From Coq Require Import List ZArith Lia Bool.
Import ListNotations.
Require Import Base Tree Rdr Link Collect Html Recog LP Rules Starts Driver L2Kind L2CC BSDef BSRdr BSTree BSOcp BSOrph BSClose BSLine1 BSLine2 BSLine3 BSLine4.
Require Import EolCRLFSimTree EolCRLFSimLeDefs EolCRLFSimLe EolCRLFSimStream EolCRLFSimCtDef EolCRLFSimCtClose.
Open Scope Z_scope.

(* ---- updating the container in place ---- *)
Lemma BPe_updCont M p f : spineOpen p -> BPe M p ->
  (forall x, getAt (cdepth p) (root p) = Some x -> ct M x -> ct M (f x)) -> BPe M (updCont p f).
Proof.
  intros C [N Hr] Hf. split; [exact N|]. cbn [root updCont withRoot setLP].
  apply ct_updAt_open; [exact Hr| |exact Hf]. intros j y Hj Ey. apply (C j y); [lia|exact Ey].
Qed.
Lemma BPX_updCont M p f : BPX M p -> keeps f ->
  (forall x, getAt (cdepth p) (root p) = Some x -> sp M x -> sp M (f x)) ->
  (forall x, getAt (cdepth p) (root p) = Some x -> ct M x -> ct M (f x)) -> BPX M (updCont p f).
Proof. intros [A B] Hk H1 H2. split; [apply BPb_updCont; assumption|apply BPe_updCont; [apply A|exact B|exact H2]]. Qed.
Lemma C1e_updCont p f : keeps f -> C1e p -> C1e (updCont p f).
Proof. intros Hk H c Ec. change (cdepth (updCont p f)) with (cdepth p) in Ec. rewrite getAt_below_updCont in Ec by exact Hk. apply H, Ec. Qed.
Lemma C1X_updCont p f : keeps f -> C1X p -> C1X (updCont p f).
Proof. intros Hk [A B]. split; [apply C1_updCont|apply C1e_updCont]; assumption. Qed.
Lemma OPX_updCont p f : OPX p -> keeps f ->
  (forall x, getAt (cdepth p) (root p) = Some x -> sp (Mc p) x -> sp (Mc p) (f x)) ->
  (forall x, getAt (cdepth p) (root p) = Some x -> ct (Mc p) x -> ct (Mc p) (f x)) -> OPX (updCont p f).
Proof. intros [A B] Hk H1 H2. split; [apply (BPX_updCont (Mc p)); assumption|apply C1X_updCont; assumption]. Qed.
Lemma OPX_field p f : OPX p -> keeps f -> (forall M x, sp M x -> sp M (f x)) -> (forall M x, ct M x -> ct M (f x)) -> OPX (updCont p f).
Proof. intros H Hk H1 H2. apply OPX_updCont; [exact H|exact Hk|intros x _; apply H1|intros x _; apply H2]. Qed.

Lemma LIe_updCont_field p f : keeps f -> (forall M x, ct M x -> ct M (f x)) -> LIe p -> LIe (updCont p f).
Proof.
  intros Hk Hf H y Ey. change (cdepth (updCont p f)) with (cdepth p) in Ey. cbn [root updCont withRoot setLP lineStart] in *.
  rewrite getAt_updAt_same in Ey. destruct (getAt (cdepth p) (root p)) as [x|] eqn:Ex; [|discriminate]. cbn in Ey. inversion Ey; subst y.
  destruct (Hk x) as (_ & _ & _ & K4). rewrite K4. destruct (H x Ex) as [S|W]; [left; apply Hf, S|right; exact W].
Qed.
Lemma LIX_updCont_field p f : keeps f -> (forall M x, sp M x -> sp M (f x)) -> (forall M x, ct M x -> ct M (f x)) -> LIX p -> LIX (updCont p f).
Proof. intros Hk H1 H2 [A B]. split; [apply LI_updCont_field; assumption|apply LIe_updCont_field; assumption]. Qed.

(* ---- entries ---- *)
Lemma leI_plain k H s e : s <= H -> e <= H -> leI H (mkI k s e) = true.
Proof. intros Hs He. unfold mkI. cbn [leI forallb]. rewrite andb_true_r. apply andb_true_iff. split; apply Z.leb_le; assumption. Qed.
Lemma geI_plain k n s e : n <= s -> n <= e -> geI n (mkI k s e) = true.
Proof.
  intros Hs He. unfold mkI. cbn [geI forallb]. rewrite andb_true_r. apply andb_true_iff. split; [apply Z.leb_le; exact Hs|].
  apply orb_true_iff. right. apply Z.leb_le. exact He.
Qed.
Lemma leI_ind H s e ind : s <= H -> e <= H -> leI H (Inl IndentKind s e ind [] []) = true.
Proof. intros Hs He. cbn [leI forallb]. rewrite andb_true_r. apply andb_true_iff. split; apply Z.leb_le; assumption. Qed.
Lemma geI_ind n s e ind : n <= s -> n <= e -> geI n (Inl IndentKind s e ind [] []) = true.
Proof.
  intros Hs He. cbn [geI forallb]. rewrite andb_true_r. apply andb_true_iff. split; [apply Z.leb_le; exact Hs|].
  apply orb_true_iff. right. apply Z.leb_le. exact He.
Qed.

Lemma forallb_snoc' {A} (f : A -> bool) l x : forallb f l = true -> f x = true -> forallb f (l ++ [x]) = true.
Proof. intros A1 A2. rewrite forallb_app, A1. cbn [forallb]. rewrite A2. reflexivity. Qed.
Lemma geI_infoString_loop lo src e : forall fuel i ps acc, lo <= ps -> ps <= i -> forallb (geI lo) acc = true ->
  forallb (geI lo) (fst (infoString_loop fuel src i e ps acc)) = true /\ lo <= snd (infoString_loop fuel src i e ps acc).
Proof.
  induction fuel as [|f IH]; intros i ps acc H1 H2 Ha; cbn [infoString_loop]; [split; [exact Ha|exact H1]|].
  destruct (Z.leb_spec e i) as [L|L]; [split; [exact Ha|exact H1]|].
  assert (Hflush : forallb (geI lo) (if ps <? i then acc ++ [mkI TextKind ps i] else acc) = true).
  { destruct (Z.ltb_spec ps i) as [L1|L1]; [|exact Ha]. apply forallb_snoc'; [exact Ha|apply geI_plain; lia]. }
  destruct (at_ src i =? 92).
  - destruct ((e <=? i + 1) || negb (isASCIIPunctuation (at_ src (i + 1)))); [apply IH; [lia|lia|exact Ha]|].
    apply IH; [lia|lia|]. apply forallb_snoc'; [exact Hflush|apply geI_plain; lia].
  - destruct (at_ src i =? 38); [|apply IH; [lia|lia|exact Ha]].
    destruct (Z.ltb_spec (parseCharacterEscape (sub src i e)) 0) as [Ln|Ln]; [apply IH; [lia|lia|exact Ha]|].
    apply IH; [lia|lia|]. apply forallb_snoc'; [exact Hflush|apply geI_plain; lia].
Qed.
Lemma geI_parseInfoString lo src s e : lo <= s -> s <= e -> geI lo (parseInfoString src s e) = true.
Proof.
  intros Hs He. unfold parseInfoString.
  pose proof (geI_infoString_loop lo src e (S (Z.to_nat (e - s))) s s [] Hs ltac:(lia) eq_refl) as [Hl Hp].
  destruct (infoString_loop _ _ _ _ _ _) as [acc ps]. cbn [fst snd] in Hl, Hp.
  cbn [geI]. apply andb_true_iff. split; [apply andb_true_iff; split; [apply Z.leb_le; exact Hs|apply orb_true_iff; right; apply Z.leb_le; lia]|].
  destruct (Z.ltb_spec ps e) as [L|L]; [|exact Hl]. apply forallb_snoc'; [exact Hl|apply geI_plain; lia].
Qed.

(* an entry builder whose positions lie inside [s, e] *)
Definition mkOK (mk : Z -> Z -> inline) : Prop := forall s e, s <= e -> leI e (mk s e) = true /\ geI s (mk s e) = true.
Lemma mkOK_ind ind : mkOK (fun s e => Inl IndentKind s e ind [] []).
Proof. intros s e H. split; [apply leI_ind; lia|apply geI_ind; lia]. Qed.
Lemma mkOK_node kind src : mkOK (fun s e => if kind =? InfoStringKind then parseInfoString src s e else mkI kind s e).
Proof.
  intros s e H. destruct (kind =? InfoStringKind).
  - split; [apply leI_parseInfoString; lia|apply geI_parseInfoString; lia].
  - split; [apply leI_plain; lia|apply geI_plain; lia].
Qed.

(* advance, then append an entry spanning the distance advanced, to a container that is not a paragraph *)
Lemma OPX_adv_entry q m K mk : OPX q -> ckind q K -> K <> ParagraphKind -> mkOK mk ->
  OPX (updCont (advance q m) (fun b => set_bik b (bik b ++ [mk (lineStart q + li q) (lineStart (advance q m) + li (advance q m))]))) /\
  ckind (updCont (advance q m) (fun b => set_bik b (bik b ++ [mk (lineStart q + li q) (lineStart (advance q m) + li (advance q m))]))) K.
Proof.
  intros H Hc N Hmk. pose proof (cstep_advance q m) as Hs. set (qa := advance q m) in *.
  assert (Ha : OPX qa) by (eapply OPX_cstep; eassumption).
  assert (Ca : ckind qa K) by (eapply ckind_cstep; eassumption).
  set (u := mk (lineStart q + li q) (lineStart qa + li qa)).
  split; [|apply ckind_updCont; [intros b; apply bkind_set_bik|exact Ca]].
  pose proof (OPx_addik qa (fun b => bik b ++ [u]) K (OPX_OPx _ Ha) Ca N) as [T1 T2].
  destruct H as [[HB [_ Hr]] _]. destruct Ha as [[HBa HEa] [H1a H1ea]].
  destruct (cstep_Mc q qa Hs ltac:(apply HB)) as (_ & Hm & _).
  destruct (Hmk (Mc q) (Mc qa) Hm) as [U1 U2]. fold u in U1, U2.
  split; [split; [exact T1|]|split; [exact T2|apply C1e_updCont; [apply keeps_bik|exact H1ea]]].
  change (BPe (Mc qa) (updCont qa (fun b => set_bik b (bik b ++ [u])))).
  apply BPe_updCont; [apply HBa|exact HEa|]. intros x Ex Hx.
  assert (Ox : bend x < 0) by (destruct HBa as (_ & _ & C & _); apply (C (cdepth qa) x); [lia|exact Ex]).
  apply ct_add_ik; [exact Hx|rewrite (bnd_open _ _ Ox); exact U1|].
  eapply geI_down; [|exact U2].
  destruct Hs as ((E1 & E2) & _ & _). unfold cdepth in Ex. rewrite E1, E2 in Ex.
  pose proof (ct_getAt (Mc q) _ _ _ Hr Ex) as Hxq. rewrite ct_eq in Hxq. rewrite (bnd_open _ _ Ox) in Hxq. tauto.
Qed.

Lemma OPX_collectInline p kind n K : OPX p -> ckind p K -> K <> ParagraphKind ->
  OPX (collectInline p kind n) /\ ckind (collectInline p kind n) K.
Proof.
  intros H Hc N. unfold collectInline. destruct (_ =? stDescendTerminated); [split; [exact H|exact Hc]|]. cbv zeta.
  set (p0 := if state p =? stOpening then withState p stOpenMatched else p).
  assert (H0 : OPX p0 /\ ckind p0 K) by (split; [eapply OPX_cstep|eapply ckind_cstep]; try apply cstep_opened; assumption).
  set (p1 := if 0 <? indent p0 then _ else p0).
  assert (H1 : OPX p1 /\ ckind p1 K).
  { unfold p1. destruct (0 <? indent p0); [|exact H0]. destruct H0 as [A B].
    apply (OPX_adv_entry p0 (indentLength (rest p0)) K (fun s e => Inl IndentKind s e (indent p0) [] []) A B N). apply mkOK_ind. }
  destruct H1 as [A B].
  apply (OPX_adv_entry p1 n K (fun s e => if kind =? InfoStringKind then parseInfoString (source (advance p1 n)) s e else mkI kind s e) A B N).
  apply mkOK_node.
Qed.

(* ---- endBlock ---- *)
Lemma OPX_endBlock p K : OPX p -> nd p -> ckind p K -> K <> ParagraphKind -> K <> SetextHeadingKind ->
  OPX (endBlock p) /\ (K <> ListItemKind -> LIX (endBlock p)).
Proof.
  intros H Hn Hc N1 N2.
  destruct (OPx_endBlock p K (OPX_OPx _ H) Hn Hc N1 N2) as [[T1 T2] T3].
  revert T1 T2 T3. unfold endBlock.
  replace ((state p =? stDescending) || (state p =? stDescendTerminated)) with false by (destruct Hn as [-> |[-> | ->]]; reflexivity).
  cbv zeta. set (p0 := if state p =? stOpening then withState p stOpenMatched else p).
  pose proof (cstep_opened p) as Hc0. fold p0 in Hc0.
  assert (H0 : OPX p0) by (eapply OPX_cstep; eassumption). assert (C0 : ckind p0 K) by (eapply ckind_cstep; eassumption).
  destruct (cdepth p0) as [|d] eqn:Ed.
  { intros T1 T2 T3. split; [exact H0|]. intros N3. split; [apply T3, N3|]. apply (LIe_ext p0); try reflexivity.
    intros x Ex. right. rewrite Ed in Ex. cbn in Ex. inversion Ex; subst x. left. apply H0. }
  intros T1 T2 T3.
  destruct H0 as [[HB0 HE0] [H10 H10e]]. pose proof HB0 as (A & B & C & D). pose proof HE0 as [N0 R0].
  destruct (wf_le p0 (S d) D ltac:(lia)) as (c & Ecx). destruct (wf_le p0 d D ltac:(lia)) as (y & Ey).
  assert (Kc : bkind c = K) by (apply C0; rewrite Ed; exact Ecx).
  assert (Oc : bend c < 0) by (apply (C (S d) c); [lia|exact Ecx]).
  set (q := withCont (closeLastChildAt p0 d (lineStart p0 + li p0)) (Some d)) in *.
  assert (HEq : BPe (Mc q) q).
  { change (BPe (Mc p0) q). apply BPe_closeAt; [exact HB0|exact HE0|unfold Mc; lia|lia|].
    intros x c' Ex El _. eapply ct_getAt; [exact R0|]. rewrite getAt_S_last, Ex. exact El. }
  split; [split; [split; [exact T1|exact HEq]|split; [exact T2|]]|].
  - intros z Ez Oz. exfalso. unfold q, cdepth in Ez. cbn [container root withCont closeLastChildAt withRoot setLP] in Ez.
    fold (closeF p0 (lineStart p0 + li p0)) in Ez.
    destruct (closeAt_child p0 d _ z Ez) as (x & c' & Ex & El & Hin).
    rewrite getAt_S_last, Ex in Ecx. rewrite El in Ecx. inversion Ecx; subst c'.
    destruct (bheight_S (root p0)) as (n & En). rewrite En in Hin.
    pose proof (closeBlock_one (source p0) _ N0 n c z Oc Hin) as Ez'.
    destruct A. lia.
  - intros N3. split; [apply T3, N3|]. intros z Ez. right. unfold q, cdepth in Ez. cbn [container root withCont closeLastChildAt withRoot setLP] in Ez.
    fold (closeF p0 (lineStart p0 + li p0)) in Ez. rewrite getAt_closeAt, Ey in Ez. cbn in Ez. inversion Ez; subst z.
    rewrite closeF_kind. eapply wide_of_child; [eapply (cc_spine d (root p0) y c); [apply D|exact Ey|exact Ecx]|rewrite Kc; exact N3].
Qed.

(* ---- end of the line; match rules; descendOpenBlocks ---- *)
Definition cleanRX (p : lp) : Prop := cleanR p /\ ct (lineStart p) (root p).
Definition WX (p : lp) : Prop := W p /\ BPe (lineStart p + len (line p)) p.

Lemma BPX_WX M p : BPX M p -> M <= lineStart p + len (line p) -> WX p.
Proof. intros [A B] H. split; [eapply BPb_W; eassumption|eapply BPe_mono; eassumption]. Qed.
Lemma BX_WX p : BX p -> WX p.
Proof. intros H. eapply BPX_WX; [exact H|]. destruct H as (((_ & A) & _) & _). unfold Mc. lia. Qed.

Lemma clean_C1X p : cleanRX p -> C1X p.
Proof. intros [A B]. split; [apply clean_C1; exact A|]. intros c Ec _. eapply ct_getAt; eassumption. Qed.
Lemma clean_LIX p : cleanRX p -> LIX p.
Proof. intros [A B]. split; [apply clean_LI; exact A|]. intros x Ex. left. eapply ct_getAt; eassumption. Qed.

Lemma BX_withCont_le p d : BX p -> (d <= cdepth p)%nat -> BX (withCont p (Some d)).
Proof. intros [A B] Hd. split; [apply BP_withCont_le; assumption|exact B]. Qed.

Lemma OPX_matchRule q : OPX q -> OPX (snd (matchRule q)).
Proof.
  intros H. destruct (matchRule_cases q) as [Hc|[Ek Eq]]; [eapply OPX_cstep; eassumption|]. rewrite Eq.
  eapply OPX_cstep; [apply cstep_consumeLine|]. eapply (OPX_collectInline q _ _ HTMLBlockKind); [exact H| |discriminate].
  rewrite <- Ek. apply ckind_self.
Qed.

Lemma descend_okX : forall fuel p d, BX p -> cleanRX p -> cdepth p = d ->
  (state (snd (descend_loop fuel p d)) = stDescendTerminated /\ WX (snd (descend_loop fuel p d))) \/
  (BX (snd (descend_loop fuel p d)) /\ cleanRX (snd (descend_loop fuel p d))).
Proof.
  induction fuel as [|f IH]; intros p d HB Hcl Ed.
  { right. cbn [descend_loop snd]. split; [apply BX_withCont_le; [exact HB|lia]|exact Hcl]. }
  assert (Hexit : BX (withCont p (Some d)) /\ cleanRX (withCont p (Some d))) by (split; [apply BX_withCont_le; [exact HB|lia]|exact Hcl]).
  cbn [descend_loop]. cbv zeta.
  destruct (getAt (S d) (root p)) as [c|] eqn:Ec; [|right; exact Hexit].
  destruct (isOpen c) eqn:Eo; cbn [negb]; [|right; exact Hexit].
  destruct (negb (hasMatch (bkind c))); [right; exact Hexit|].
  unfold isOpen in Eo. apply Z.ltb_lt in Eo.
  set (q := withState (withCont p (Some (S d))) stDescending).
  assert (HBq : BX q).
  { destruct HB as [(A & B & C & D) HE]. split; [|exact HE]. split; [exact A|split; [exact B|split]].
    - intros j x Hj Ex. change (cdepth q) with (S d) in Hj. destruct (Nat.eq_dec j (S d)) as [->|N].
      + change (root q) with (root p) in Ex. rewrite Ec in Ex. inversion Ex; subst x. exact Eo.
      + apply (C j x); [lia|exact Ex].
    - apply (ccP_withCont p (S d) D). eauto. }
  assert (Hq : OPX q) by (split; [exact HBq|apply (clean_C1X q); exact Hcl]).
  pose proof (OPX_matchRule q Hq) as H2. pose proof (cdepth_matchRule q) as Ecd. pose proof (matchRule_term q eq_refl) as Ht.
  destruct (matchRule q) as [ok p2]. cbn [snd] in H2, Ecd, Ht. change (cdepth q) with (S d) in Ecd.
  destruct (Z.eqb_spec (state p2) stDescendTerminated) as [Et|Et].
  { left. cbn [snd]. split; [exact Et|]. destruct H2 as [HB2 _]. pose proof HB2 as [HB2b [N2 R2]]. pose proof HB2b as (A2 & B2 & C2 & D2).
    apply (BPX_WX (Mc p2)); [|cbn; unfold Mc; destruct A2; lia].
    apply BPX_closeAt; [exact HB2|unfold Mc; lia|lia|lia|].
    intros x c' Ex El _. split; [eapply sp_getAt; [exact B2|]|eapply ct_getAt; [exact R2|]]; rewrite getAt_S_last, Ex; exact El. }
  destruct Ht as [Hc|Ht]; [|contradiction].
  assert (Hcl2 : cleanRX p2).
  { destruct Hc as ((E1 & _) & (E2 & _) & _). unfold cleanRX, cleanR. rewrite E1, E2. exact Hcl. }
  destruct (negb ok).
  { right. cbn [snd]. split; [apply BX_withCont_le; [apply H2|lia]|exact Hcl2]. }
  apply IH; [apply H2|exact Hcl2|exact Ecd].
Qed.
