(* QInlStep9.v -- T64 (asm): parseEndBracket on the two sides, after an active opener was found: the wrapper node, the common end
   (finishLink), the four successful forms (inline link, collapsed, full and shortcut reference) and the failure. *)
From Coq Require Import List ZArith Lia Bool.
Import ListNotations.
Require Import Base Tables Utf8 Tree Rdr Link Collect Html Recog Inl3a Inl3b Inl3c Inl3d Driver Inl3e Props PEProof.
Require Import ShapesBase ShapesR IFBase IFLink IFCollect IFLabel GI0 GI1 GI2 GI3 GI4 GI6 IS0 IS2 IS1 IS3 IS4 IS5a IS5b IS5 IS6a IS6b IS6 IFTokDef IFTokAux IFTokUm IFFrame IFTokLoop IFTree IFPe IFTk1 IFTk2 IFTk3 IFTk4.
Require Import SpanSmall SpanHypDef.
Require Import QCutsDef QCuts QIRdrBase QIRdrLink QIRdrCollect QInlDefs QInlBytes QInlBytesEmph QInlHtml QInlTree1 QInlTree2 QInlTree3 QInlTree.
Require Import QInlStep0 QInlStep1 QInlStep2 QInlStep3 QInlStep4 QInlStepF QInlStep5 QInlStep6 QInlStep6b QInlStepLab QInlStep7.
Open Scope Z_scope.

Section Step9.
  Variables (sD sQ : bytes) (sg : Z -> Z) (U : list inline).
  Hypothesis SG : SGood sD sQ sg.
  Hypothesis GP : GapSp sD sQ sg.
  Hypothesis HG : Forall (gsp sD sg U) U.
  Hypothesis HOK : spOK sD U = true.
  Hypothesis HKl : forall u, In u U -> ikids u = [].
  Hypothesis HLn : IS6b.linesOK sD U = true.
  Hypothesis HNG : NoGtBehindLast sD U.
  Hypothesis HTl : tailOKX sD U = true.
  Hypothesis HGN : GapNoParen sD sQ sg.
  Set Default Proof Using "All".
  Local Notation Hy l := (l sD sQ sg U SG GP HG HOK HKl HLn HNG) (only parsing).
  Local Notation Hz l := (l sD sQ sg U SG GP HG HOK HKl HLn HNG HTl HGN) (only parsing).
  Notation tr := (QInlBytes.tr sg).
  Notation IR := (QInlDefs.IR sD sQ sg).
  Notation SL := (QInlTree1.SL sD).
  Notation eE := (QInlDefs.eE sg).
  Notation qN := (QInlTree1.qN sD sg).
  Notation qPs := (QInlDefs.qPs sD sg).
  Notation qI3 := (QInlDefs.qI3 sD sg).
  Notation curU := QInlTree3.curU.
  Notation Ctx := (Ctx sD sQ sg U).
  Notation InIK := (QIRdrBase.InIK U).
  Notation sgE := (QIRdrBase.sgE sD sg).
  Notation PosR := (QInlStep1.PosR sg U).
  Notation J := (IS3.J sD U).
  Notation HWU := (Hy HW).

  (* the result of parseEndBracket on the two sides *)
  Definition R2 (x y : ist * Z) : Prop := IR (fst x) (fst y) /\ SL (rk (fst x)) /\ PosR (fst x) (fst y) (snd x) (snd x) (snd y) (snd y).

  (* ---------------------------------------------------------------- the context: an active opener at index odi of the stack *)
  Section BK.
  Variables (rf : nat) (st st' : ist) (u : inline) (start hi odi : Z).
  Hypothesis HrfQ : len sQ < Z.of_nat rf.
  Hypothesis HC : Ctx st st' u.
  Hypothesis Hs : istart u <= start < iend u.
  Hypothesis H93 : at_ sD start = 93.
  Hypothesis HM : MI true U st.
  Hypothesis HJ : J hi st.
  Hypothesis Hhi : hi <= start.
  Hypothesis HTK : TKb (nid st) st.
  Hypothesis HLd : load st <= len sD.
  Hypothesis HRE : forall v, In v U -> iend v <= rootEnd st.
  Notation od := (nthD (stk st) odi).
  Notation kind := (if d_typ od =? tImage then ImageKind else LinkKind).
  Variables (low high : list delim) (pre M : list pn) (sb eb s0 e0 : Z).
  Hypothesis BP :
      stk st = low ++ od :: high /\ len low = odi /\ In (d_node od) (ids (rk st)) /\
      rk st = pre ++ M /\ forallb (idb (nid st)) pre = true /\
      LS st pre M kind [] [] s0 e0 (fst (wrap st kind (d_node od) None)) /\
      occF (d_node od) (rk st) = [(TextKind, sb, eb, true)] /\ 0 <= sb /\ sb < eb /\ eb <= hi /\ IS3.dOK sD od sb eb /\
      ps (nodeOf st (d_node od)) = sb /\ pe (nodeOf st (d_node od)) = eb /\ 1 <= d_node od < nid st /\
      (forall T rfv E st3, LS st pre M kind T rfv sb E st3 -> start + 1 <= E -> (at_ sD (E - 1) = 93 \/ at_ sD (E - 1) = 41) ->
         forallb (zok sD) T = true -> vokF sD T = true -> J hi st3).
  Hypothesis Htyp : d_typ od = tLink \/ d_typ od = tImage.

  Lemma Hrf : len sD < Z.of_nat rf. Proof. pose proof (len_sD_sQ sD sQ sg SG). lia. Qed.
  Lemma kind_nosplit : splitK kind = false. Proof. destruct (d_typ od =? tImage); reflexivity. Qed.
  Lemma st_facts : IR st st' /\ SL (rk st) /\ unp st = U /\ 0 <= upos st < len U /\ isrc st = sD /\ isrc st' = sQ /\ gsp sD sg U u /\ 1 <= nid st /\
    forallb (idb (nid st)) (pre ++ M) = true /\ stk st' = stk st.
  Proof.
    destruct HC as (HI & HS & Eu & Hu & Ecu). destruct ((Hy Ctx_facts) st st' u HC) as (Hin & Gu & Es & Es' & _).
    split; [exact HI|]. split; [exact HS|]. split; [exact Eu|]. split; [exact Hu|]. split; [exact Es|]. split; [exact Es'|]. split; [exact Gu|].
    split; [apply (j_nid _ _ _ _ HJ)|]. split; [|apply HI]. destruct BP as (_ & _ & _ & Er & _). rewrite <- Er. apply (j_idb _ _ _ _ HJ).
  Qed.

  (* the bracket node and its image *)
  Lemma bracket_q : nodeOf st' (d_node od) = qN (nodeOf st (d_node od)) /\ 0 <= sb < len sD /\ sg eb = eE sb eb /\ eb <= start.
  Proof.
    destruct st_facts as (HI & HS & _). destruct BP as (_ & _ & _ & _ & _ & _ & Ob & Hsb & Hse & Heb & Dob & _ & _ & Hid & _).
    split; [apply (nodeOf_q_occ sD sQ sg st st' (d_node od) _ _ HI HS ltac:(lia) Ob)|].
    assert (H91 : 0 <= sb < len sD /\ at_ sD (eb - 1) = 91).
    { unfold IS3.dOK, tStar, tUnder, tLink, tImage in *.
      destruct Dob as [(T & _)|[(T & _)|[(T & Ee & A1)|(T & Ee & A1 & A2)]]]; try (destruct Htyp as [Ht|Ht]; rewrite Ht in T; discriminate).
      - split; [apply in_src; rewrite A1; discriminate|]. replace (eb - 1) with sb by lia. exact A1.
      - split; [apply in_src; rewrite A1; discriminate|]. replace (eb - 1) with (sb + 1) by lia. exact A2. }
    destruct H91 as [R A]. split; [exact R|]. split; [|lia].
    rewrite (eE_lt sg sb eb Hse). replace eb with (eb - 1 + 1) at 1 by lia. apply (SG_succ _ _ _ SG); [|rewrite A; discriminate].
    pose proof (in_src sD (eb - 1) ltac:(rewrite A; discriminate)). lia.
  Qed.

  (* ---------------------------------------------------------------- the wrapper *)
  Lemma wrap_q : IR (fst (wrap st kind (d_node od) None)) (fst (wrap st' kind (d_node od) None)) /\
    snd (wrap st kind (d_node od) None) = nid st /\ snd (wrap st' kind (d_node od) None) = nid st /\
    Good (nid st) st (fst (wrap st kind (d_node od) None)).
  Proof.
    destruct st_facts as (HI & HS & Eu & Hu & Es & Es' & Gu & Hn & Hb & _). destruct bracket_q as (_ & Rsb & Esg & Hes).
    destruct BP as (_ & _ & Hod & _ & _ & _ & Ob & _ & Hse & _ & _ & _ & _ & Hid & _). pose proof Gu as (_ & _ & _ & _).
    destruct (IR_wrap_none sD sQ sg st st' kind (d_node od) HI HS ltac:(lia) kind_nosplit ltac:(apply hasId_In; exact Hod)) as [A B].
    { intros sn Hsn Hp. pose proof (occF_top (d_node od) sn (rk st) Hsn Hp) as Hin. rewrite Ob in Hin. destruct Hin as [Hin|[]].
      unfold sig in Hin. inversion Hin as [[E1 E2 E3 E4]]. rewrite <- E2, <- E3. split; [exact Esg|].
      destruct ((Hy Ctx_facts) st st' u HC) as (Hinu & _). pose proof (HRE u Hinu). lia. }
    split; [exact A|]. split; [reflexivity|]. split; [rewrite B; reflexivity|]. apply G_wrap; [apply Good_refl, HTK|lia].
  Qed.

  (* ---------------------------------------------------------------- the end: finishLink on a state that still has the wrapper shape *)
  Lemma finish_q st3 st3' T rfv E : IR st3 st3' -> LS st pre M kind T rfv sb E st3 -> Good (nid st) st st3 -> start + 1 <= E ->
    (at_ sD (E - 1) = 93 \/ at_ sD (E - 1) = 41) -> forallb (zok sD) T = true -> vokF sD T = true ->
    IR (finishLink st3 kind odi) (finishLink st3' kind odi) /\ SL (rk (finishLink st3 kind odi)) /\ SL (rk st3).
  Proof.
    intros HI3 HLS HGd HE Hl HT HTv. destruct st_facts as (HI & HS & Eu & Hu & Es & Es' & Gu & Hn & Hb & _).
    destruct BP as (Estk & Hlow & _ & Er & _ & _ & _ & _ & _ & _ & _ & _ & _ & _ & HJ3).
    pose proof (HJ3 T rfv E st3 HLS HE Hl HT HTv) as J3.
    assert (HTz : forallb zid T = true) by (apply forallb_forall; intros x Hx; rewrite forallb_forall in HT; apply (zok_zid sD), HT, Hx).
    pose proof (LS_SL sD sQ sg U SG GP HG HOK HKl HLn HNG HTl HGN st pre M kind T rfv sb E st3 HS Er HLS kind_nosplit HTz Hn) as S3.
    destruct HGd as [T3 L3]. destruct (LS_fields sD sQ sg U SG GP HG HOK HKl HLn HNG HTl HGN _ _ _ _ _ _ _ _ _ HLS) as (_ & _ & _ & Es3).
    destruct (IR_finishLink sD sQ sg SG U hi st3 st3' kind odi HI3 J3 S3 ltac:(pose proof (PEProof.len_nonneg low); lia) (TKb_TI _ _ T3)) as [A B].
    { rewrite Es3, Es. unfold load in *. lia. }
    split; [exact A|]. split; [exact B|exact S3].
  Qed.

  (* ---------------------------------------------------------------- the wrapper on the two sides, through the updates *)
  Definition WS (T : list pn) (rfv : bytes) (s e : Z) (a a' : ist) : Prop :=
    IR a a' /\ LS st pre M kind T rfv s e a /\ Good (nid st) st a /\ forallb (zok sD) T = true /\ vokF sD T = true /\
    upos a = upos st /\ upos a' = upos st' /\ unp a' = unp st' /\ isrc a' = isrc st'.

  Lemma WS_SL T rfv s e a a' : WS T rfv s e a a' -> SL (rk a) /\ forallb zid T = true.
  Proof.
    intros (HIa & HLS & _ & HT & _). destruct st_facts as (HI & HS & _ & _ & _ & _ & _ & Hn & _). destruct BP as (_ & _ & _ & Er & _).
    assert (HTz : forallb zid T = true) by (apply forallb_forall; intros x Hx; rewrite forallb_forall in HT; apply (zok_zid sD), HT, Hx).
    split; [|exact HTz]. apply ((Hz LS_SL) st pre M kind T rfv s e a HS Er HLS kind_nosplit HTz Hn).
  Qed.
  Lemma WS_wrap : WS [] [] s0 e0 (fst (wrap st kind (d_node od) None)) (fst (wrap st' kind (d_node od) None)).
  Proof.
    destruct wrap_q as (A & _ & _ & G). destruct BP as (_ & _ & _ & _ & _ & L0 & _). split; [exact A|]. split; [exact L0|]. split; [exact G|]. repeat split; reflexivity.
  Qed.
  Lemma WS_kind T rfv s e a a' n : WS T rfv s e a a' -> In (sig n) (occF (nid st) (rk a)) -> pkind n = kind.
  Proof.
    intros HW Hin. destruct (WS_SL _ _ _ _ _ _ HW) as [_ HTz]. destruct HW as (_ & HLS & _). destruct st_facts as (_ & _ & _ & _ & _ & _ & _ & Hn & Hb & _).
    apply ((Hz LS_occ) st pre M kind T rfv s e a n Hb HLS HTz Hn Hin).
  Qed.
  Lemma Hpre' : forallb (idb (nid st)) pre = true. Proof. apply BP. Qed.
  Lemma nid_pos : nid st <> 0. Proof. destruct st_facts as (_ & _ & _ & _ & _ & _ & _ & Hn & _). lia. Qed.

  Lemma WS_span T rfv s e a a' E : WS T rfv s e a a' ->
    WS T rfv sb E (updN a (nid st) (fun n => setSpan n sb E)) (updN a' (nid st) (fun n => setSpan n (sg sb) (eE sb E))).
  Proof.
    intros HW. destruct (WS_SL _ _ _ _ _ _ HW) as [Sa _]. pose proof HW as (HIa & HLS & HGd & HT & HTv & U1 & U2 & U3 & U4).
    split; [|split; [apply (LS_span st pre M kind Hpre' T rfv s e sb E a HLS)|split; [apply G_updSpan; [exact HGd|lia]|repeat split; assumption]]].
    apply (IR_updN sD sQ sg a a' (nid st) _ _ HIa Sa nid_pos). intros n Hp Sn Hin.
    apply (qP_setSpan sD sg n sb E); [|reflexivity|reflexivity]. rewrite (WS_kind _ _ _ _ _ _ n HW Hin), kind_nosplit. discriminate.
  Qed.
  Lemma WS_spanRef T rfv s e a a' E lab : WS T rfv s e a a' ->
    WS T lab sb E (updN a (nid st) (fun n => setRef (setSpan n sb E) lab)) (updN a' (nid st) (fun n => setRef (setSpan n (sg sb) (eE sb E)) lab)).
  Proof.
    intros HW. destruct (WS_SL _ _ _ _ _ _ HW) as [Sa _]. pose proof HW as (HIa & HLS & HGd & HT & HTv & U1 & U2 & U3 & U4).
    split; [|split; [apply (LS_spanRef st pre M kind Hpre' T rfv s e sb E lab a HLS)|split; [apply G_updSpanRef; [exact HGd|lia]|repeat split; assumption]]].
    apply (IR_updN sD sQ sg a a' (nid st) _ _ HIa Sa nid_pos). intros n Hp Sn Hin.
    pose proof (WS_kind _ _ _ _ _ _ n HW Hin) as Ek.
    rewrite (qP_setRef sD sg (setSpan n sb E) lab).
    - destruct n; reflexivity.
    - apply sgl_nosplit. destruct n. cbn [setSpan pkind] in *. rewrite Ek. apply kind_nosplit.
  Qed.
  Lemma WS_append T rfv s e a a' K ks ke r kids : WS T rfv s e a a' -> splitK K = false -> zok sD (PN 0 K ks ke 0 r kids) = true ->
    vok sD (PN 0 K ks ke 0 r kids) = true -> zkeys kids ->
    WS (T ++ [PN 0 K ks ke 0 r kids]) rfv s e (appendKid a (nid st) (PN 0 K ks ke 0 r kids)) (appendKid a' (nid st) (PN 0 K (sg ks) (eE ks ke) 0 r (qPs kids))).
  Proof.
    intros HW HK Hz Hv Hzk. destruct (WS_SL _ _ _ _ _ _ HW) as [Sa _]. pose proof HW as (HIa & HLS & HGd & HT & HTv & U1 & U2 & U3 & U4).
    split; [|split; [apply (LS_append st pre M kind Hpre' T rfv s e _ a HLS)|split; [apply G_appendKid; assumption|split; [|split; [|repeat split; assumption]]]]].
    - apply (IR_appendKid sD sQ sg a a' (nid st) (PN 0 K ks ke 0 r kids) HIa Sa nid_pos). apply sgl_nosplit. exact HK.
    - rewrite forallb_app, HT. cbn [forallb]. rewrite Hz. reflexivity.
    - rewrite vokF_app, HTv. cbn [vokF forallb]. rewrite Hv. reflexivity.
  Qed.
  Lemma WS_finish T rfv E a a' : WS T rfv sb E a a' -> start + 1 <= E -> (at_ sD (E - 1) = 93 \/ at_ sD (E - 1) = 41) ->
    IR (finishLink a kind odi) (finishLink a' kind odi) /\ SL (rk (finishLink a kind odi)).
  Proof.
    intros (HIa & HLS & HGd & HT & HTv & _) HE Hl. destruct (finish_q a a' T rfv E HIa HLS HGd HE Hl HT HTv) as (A & B & _). split; assumption.
  Qed.
  Lemma WS_fields T rfv s e a a' : WS T rfv s e a a' -> unp a = U /\ isrc a = sD /\ stk a = stk st /\ SL (rk a).
  Proof.
    intros HW. destruct (WS_SL _ _ _ _ _ _ HW) as [Sa _]. destruct HW as (_ & HLS & _). destruct ((Hz LS_fields) _ _ _ _ _ _ _ _ _ HLS) as (_ & A & B & C).
    destruct st_facts as (_ & _ & Eu & _ & Es & _). split; [congruence|]. split; [congruence|]. split; [exact A|exact Sa].
  Qed.

  (* ---------------------------------------------------------------- a link part (destination / title) appended to the wrapper *)
  Notation SpTxR := (QIRdrLink.SpTxR sD sQ sg U).
  Lemma WS_cursor T rfv s e a a' : WS T rfv s e a a' -> unp a = U /\ 0 <= upos a < len U /\ curU a = u /\ IR a a'.
  Proof.
    intros HW. destruct (WS_fields _ _ _ _ _ _ HW) as (Eu & _). destruct HW as (HIa & _ & _ & _ & _ & U1 & _).
    destruct HC as (_ & _ & Eu0 & Hu0 & Ecu). split; [exact Eu|]. split; [lia|]. split; [|exact HIa].
    unfold QInlTree3.curU. rewrite Eu, U1. rewrite Ecu. unfold QInlTree3.curU. rewrite Eu0. reflexivity.
  Qed.
  Lemma zok_part K ks ke r kids : isC K = false -> forallb (zok sD) kids = true -> zok sD (PN 0 K ks ke 0 r kids) = true.
  Proof. intros HK Hk. cbn [zok]. rewrite HK, Hk. reflexivity. Qed.
  Lemma vok_part K ks ke r kids : 0 <= ks -> ks <= ke -> ke <= len sD -> vokF sD kids = true -> vok sD (PN 0 K ks ke 0 r kids) = true.
  Proof. intros A B C Hk. cbn [vok]. rewrite span_valid_intro by lia. exact Hk. Qed.

  Lemma kid_step T rfv s e a a' K sp tx x sp' tx' x' : WS T rfv s e a a' -> SpTxR sp tx x sp' tx' x' -> splitK K = false -> isC K = false ->
    (spanValid sp = true -> snd sp <= len sD /\ snd tx <= len sD) -> start <= fst sp \/ spanValid sp = false ->
    exists T', WS T' rfv s e
      (if spanValid sp then appendKid a (nid st) (PN 0 K (fst sp) (snd sp) 0 []
         (if spanValid tx then kidsOf (collectTextNodes rf (newReader sD (unpFrom a) (fst tx)) (snd tx) TextKind true) else [])) else a)
      (if spanValid sp' then appendKid a' (nid st) (PN 0 K (fst sp') (snd sp') 0 []
         (if spanValid tx' then kidsOf (collectTextNodes rf (newReader sQ (unpFrom a') (fst tx')) (snd tx') TextKind true) else [])) else a').
  Proof.
    intros HW HR HK HKc Hb Hst. destruct (WS_cursor _ _ _ _ _ _ HW) as (Eu & Hu & Ecu & HIa). destruct (WS_fields _ _ _ _ _ _ HW) as (_ & Esa & _).
    destruct st_facts as (_ & _ & _ & _ & _ & _ & Gu & _). pose proof Gu as (Ua & Ub & Uc & _).
    destruct HR as [[-> ->]|[(Hx & A1 & A2 & A3 & (q0 & Hq0 & Eq0 & Eq0') & A5 & A6 & A7 & A8 & A9 & A10 & A11)|(Hx & HXm & -> & -> & -> & ->)]].
    - change (spanValid nullSpan) with false. cbv iota. exists T. exact HW.
    - destruct sp as [ps0 pe0]. destruct sp' as [ps0' pe0']. destruct tx as [ts0 te0]. destruct tx' as [ts0' te0']. cbn [fst snd] in *. subst ps0' pe0 pe0' ts0' te0'.
      assert (V1 : spanValid (ps0, q0 + 1) = true) by (apply (Hy spanValid_in); lia).
      destruct (Hb V1) as [B1 B2]. destruct Hst as [Hst|Hst]; [|rewrite V1 in Hst; discriminate].
      assert (V1' : spanValid (sg ps0, sg q0 + 1) = true).
      { apply (Hy spanValid_in); [apply (SG_nn _ _ _ SG); lia|]. pose proof ((Hy sg_le') ps0 q0 ltac:(lia) ltac:(lia)). lia. }
      assert (V2 : spanValid (ts0, te0) = true) by (apply (Hy spanValid_in); lia).
      assert (V2' : spanValid (sgE ts0, sgE te0) = true).
      { apply (Hy spanValid_in); [apply (bsgE_nn sD sQ sg SG); lia|]. pose proof (bsgE_leb sD sQ sg SG ts0 te0 ltac:(lia) ltac:(lia)) as X.
        destruct (Z.leb_spec ts0 te0); [|lia]. apply Z.leb_le. exact X. }
      rewrite V1, V1', V2, V2'.
      assert (Hok : (InIK (te0 - 1) /\ sgE te0 = sg (te0 - 1) + 1) \/ (InIK te0 /\ sgE te0 = sg te0)).
      { destruct A11 as [Hi|[Hi N]].
        - right. split; [exact Hi|]. destruct Hi as (w & Hw & Hr). pose proof ((Hy U_gsp) w Hw) as (_ & _ & Wc & _). apply (bsgE_in sD sQ sg SG). lia.
        - left. split; [exact Hi|]. destruct Hi as (w & Hw & Hr). pose proof ((Hy U_gsp) w Hw) as (Wa & _ & Wc & _).
          replace te0 with (te0 - 1 + 1) at 1 by lia. apply (sgE_after sD sQ sg SG); [lia|exact N]. }
      assert (HinE : InE sD sQ sg U (unpFrom a) ts0).
      { right. left. destruct A10 as (w & Hw & Hr). exists w. split; [|exact Hr]. apply ((Hy from_cursor) a w ts0 Eu Hu Hw); [rewrite Ecu; lia|lia]. }
      destruct ((Hz q_collectF) rf a a' TextKind ts0 te0 (sgE te0) true Hrf HIa Eu eq_refl ltac:(lia) Hok ltac:(lia) HinE) as [EK _].
      rewrite EK, (Hy kidsOf_q). clear EK.
      set (kids := kidsOf (collectTextNodes rf (newReader sD (unpFrom a) ts0) te0 TextKind true)).
      replace (sg q0 + 1) with (eE ps0 (q0 + 1)) by (rewrite (eE_lt sg ps0 (q0 + 1)) by lia; f_equal; f_equal; lia).
      eexists. apply (WS_append T rfv s e a a' K ps0 (q0 + 1) [] kids HW HK).
      + apply zok_part; [exact HKc|]. unfold kids. apply (kids_part sD U HKl a rf ts0 te0 true Esa Eu).
      + apply vok_part; try lia. unfold kids. apply (kids_valid sD U HKl HOK a rf ts0 te0 TextKind true Esa Eu); lia.
      + apply zkeys_kidsOf.
    - pose proof (RR_pos sD sQ sg U x x' Hx) as [Pz Pz']. destruct HXm as (_ & Hp & _).
      rewrite ((Hy spanValid_in) (r_pos x) (r_pos x)) by lia.
      assert (Vp' : spanValid (r_pos x', r_pos x') = true) by (apply (Hy spanValid_in); [rewrite Pz'; apply (bsgE_nn sD sQ sg SG); lia|lia]).
      rewrite Vp'. cbn [fst snd]. rewrite !collectTextNodes_empty by (cbn [newReader r_pos]; lia).
      change (kidsOf []) with (@nil pn). rewrite Pz', (bsgE_in sD sQ sg SG) by lia.
      assert (Ee : eE (r_pos x) (r_pos x) = sg (r_pos x)) by (apply (eE_ge sg); lia).
      assert (W : WS (T ++ [PN 0 K (r_pos x) (r_pos x) 0 [] []]) rfv s e (appendKid a (nid st) (PN 0 K (r_pos x) (r_pos x) 0 [] []))
                     (appendKid a' (nid st) (PN 0 K (sg (r_pos x)) (eE (r_pos x) (r_pos x)) 0 [] (qPs [])))).
      { apply (WS_append T rfv s e a a' K (r_pos x) (r_pos x) [] [] HW HK).
        - apply zok_part; [exact HKc|reflexivity].
        - apply vok_part; try lia. reflexivity.
        - apply zkeys_nil. }
      rewrite Ee in W. eexists. exact W.
  Qed.

  (* ---------------------------------------------------------------- the end of a successful form: advance (or not), finishLink *)
  Lemma end_adv T rfv E a a' : WS T rfv sb E a a' -> start + 1 <= E -> E <= len sD -> (at_ sD (E - 1) = 93 \/ at_ sD (E - 1) = 41) ->
    (InIK (E - 1) \/ forall v, In v U -> iend v <= E - 1) ->
    R2 (finishLink (advanceTo a (E - 1)) kind odi, E) (finishLink (advanceTo a' (sg (E - 1))) kind odi, sg (E - 1) + 1).
  Proof.
    intros HW HE HEl Hl Hpos. destruct (WS_cursor _ _ _ _ _ _ HW) as (Eu & Hu & Ecu & HIa). destruct (WS_fields _ _ _ _ _ _ HW) as (_ & _ & _ & Sa).
    destruct st_facts as (_ & _ & _ & _ & _ & _ & Gu & _). pose proof Gu as (Ua & Ub & Uc & _).
    destruct ((Hz adv_end) a a' E HIa Sa Eu Hu ltac:(rewrite Ecu; lia) HEl Hpos) as (I2 & Erk & Eun & HP).
    destruct HW as (_ & HLS & HGd & HT & HTv & _).
    destruct (finish_q _ _ T rfv E I2 (LS_advanceTo st pre M kind T rfv sb E (E - 1) a HLS) (G_advanceTo _ _ _ (E - 1) HGd) HE Hl HT HTv) as (A & B & _).
    unfold R2. cbn [fst snd]. split; [exact A|]. split; [exact B|].
    apply ((Hz PosR_frame) (advanceTo a (E - 1)) (advanceTo a' (sg (E - 1)))); [apply fr_finishLink|apply ux_finishLink|apply fr_finishLink|apply ux_finishLink|exact HP].
  Qed.

  Lemma PosR_here (b b' : ist) E : unp b = U -> upos b = upos st -> istart u <= E -> E <= iend u -> PosR b b' E E (tr u E) (tr u E).
  Proof.
    intros Eu Ep H1 H2. destruct HC as (_ & _ & Eu0 & Hu0 & Ecu). split.
    - intros _. cbv zeta. unfold QInlTree3.curU. rewrite Eu, Ep, <- Eu0. fold (curU st). rewrite <- Ecu. repeat split; lia.
    - intros L. lia.
  Qed.
  Lemma end_same T rfv E a a' : WS T rfv sb E a a' -> start + 1 <= E -> E <= iend u -> (at_ sD (E - 1) = 93 \/ at_ sD (E - 1) = 41) ->
    R2 (finishLink a kind odi, E) (finishLink a' kind odi, tr u E).
  Proof.
    intros HW HE HEl Hl. destruct (WS_finish _ _ _ _ _ HW HE Hl) as [A B]. destruct (WS_fields _ _ _ _ _ _ HW) as (Eu & _).
    destruct HW as (_ & _ & _ & _ & _ & U1 & _). unfold R2. cbn [fst snd]. split; [exact A|]. split; [exact B|].
    apply PosR_here; [destruct (fr_finishLink a kind odi) as [_ ->]; exact Eu|rewrite ux_finishLink; exact U1|lia|exact HEl].
  Qed.
  Lemma fail_q : R2 (setStk (addText st start (start + 1)) (delStack (stk st) odi (odi + 1)), start + 1)
                    (setStk (addText st' (tr u start) (tr u start + 1)) (delStack (stk st') odi (odi + 1)), tr u start + 1).
  Proof.
    destruct st_facts as (HI & HS & Eu & Hu & _ & _ & Gu & _ & _ & Estk).
    destruct ((Hy addText_tr) st st' u start (start + 1) HI HS Gu ltac:(lia) ltac:(lia) ltac:(lia)) as [A B]. rewrite tr_add in A.
    unfold R2. cbn [fst snd]. rewrite Estk. split; [apply (IR_setStk sD sQ sg), A|]. split; [exact B|]. rewrite <- tr_add.
    apply PosR_here; [cbn [setStk unp]; rewrite unp_addText; exact Eu|cbn [setStk upos]; apply upos_addText|lia|lia].
  Qed.

  (* ---------------------------------------------------------------- the inline link *)
  Notation bracket := (nodeOf st (d_node od)).
  Notation bracket' := (nodeOf st' (d_node od)).
  Lemma inline_path ispan dspan dtext tspan ttext ispan' dspan' dtext' tspan' ttext' q xd xd' xt xt' :
    ispan = (start + 1, q + 1) -> ispan' = (tr u start + 1, sg q + 1) -> start + 2 <= q -> q < len sD -> at_ sD q = 41 ->
    (InIK q \/ forall v, In v U -> iend v <= q) ->
    SpTxR dspan dtext xd dspan' dtext' xd' -> SpTxR tspan ttext xt tspan' ttext' xt' ->
    (spanValid dspan = true -> snd dspan <= len sD /\ snd dtext <= len sD) -> (spanValid tspan = true -> snd tspan <= len sD /\ snd ttext <= len sD) ->
    (spanValid dspan = true -> start <= fst dspan) -> (spanValid tspan = true -> start <= fst tspan) ->
    R2 (let '(st2, lid) := wrap st kind (d_node od) None in
        let st3 := updN st2 lid (fun n => setSpan n (ps bracket) (snd ispan)) in
        let st4 := if spanValid dspan then
                     let kids := if spanValid dtext then kidsOf (collectTextNodes rf (newReader sD (unpFrom st3) (fst dtext)) (snd dtext) TextKind true) else [] in
                     appendKid st3 lid (PN 0 LinkDestinationKind (fst dspan) (snd dspan) 0 [] kids)
                   else st3 in
        let st5 := if spanValid tspan then
                     let kids := if spanValid ttext then kidsOf (collectTextNodes rf (newReader sD (unpFrom st4) (fst ttext)) (snd ttext) TextKind true) else [] in
                     appendKid st4 lid (PN 0 LinkTitleKind (fst tspan) (snd tspan) 0 [] kids)
                   else st4 in
        let st6 := advanceTo st5 (snd ispan - 1) in
        (finishLink st6 kind odi, snd ispan))
       (let '(st2, lid) := wrap st' kind (d_node od) None in
        let st3 := updN st2 lid (fun n => setSpan n (ps bracket') (snd ispan')) in
        let st4 := if spanValid dspan' then
                     let kids := if spanValid dtext' then kidsOf (collectTextNodes rf (newReader sQ (unpFrom st3) (fst dtext')) (snd dtext') TextKind true) else [] in
                     appendKid st3 lid (PN 0 LinkDestinationKind (fst dspan') (snd dspan') 0 [] kids)
                   else st3 in
        let st5 := if spanValid tspan' then
                     let kids := if spanValid ttext' then kidsOf (collectTextNodes rf (newReader sQ (unpFrom st4) (fst ttext')) (snd ttext') TextKind true) else [] in
                     appendKid st4 lid (PN 0 LinkTitleKind (fst tspan') (snd tspan') 0 [] kids)
                   else st4 in
        let st6 := advanceTo st5 (snd ispan' - 1) in
        (finishLink st6 kind odi, snd ispan')).
  Proof.
    intros -> -> Hq Hql H41 Hpos HD HT Bd Bt Ld Lt. cbn [fst snd]. cbv zeta.
    destruct wrap_q as (_ & E1 & E2 & _). pose proof WS_wrap as W2.
    destruct bracket_q as (Eb & Rsb & _ & _). pose proof BP as (_ & _ & _ & _ & _ & _ & _ & _ & _ & _ & _ & Eps & _).
    rewrite Eb, (ps_qN sD sg), Eps.
    pose proof (WS_span _ _ _ _ _ _ (q + 1) W2) as W3. clear W2.
    rewrite (surjective_pairing (wrap st kind (d_node od) None)), (surjective_pairing (wrap st' kind (d_node od) None)). rewrite E1, E2. cbv beta iota.
    set (st2 := fst (wrap st kind (d_node od) None)) in *. set (st2' := fst (wrap st' kind (d_node od) None)) in *. rewrite (eE_lt sg sb (q + 1)) in W3 by lia. replace (q + 1 - 1) with q in * by lia.
    set (st3 := updN st2 (nid st) (fun n => setSpan n sb (q + 1))) in *. set (st3' := updN st2' (nid st) (fun n => setSpan n (sg sb) (sg q + 1))) in *.
    destruct (kid_step _ _ _ _ st3 st3' LinkDestinationKind _ _ _ _ _ _ W3 HD eq_refl eq_refl Bd
                ltac:(destruct (spanValid dspan); [left; apply Ld; reflexivity|right; reflexivity])) as (T4 & W4).
    set (st4 := if spanValid dspan then _ else st3) in *. set (st4' := if spanValid dspan' then _ else st3') in *.
    destruct (kid_step _ _ _ _ st4 st4' LinkTitleKind _ _ _ _ _ _ W4 HT eq_refl eq_refl Bt
                ltac:(destruct (spanValid tspan); [left; apply Lt; reflexivity|right; reflexivity])) as (T5 & W5).
    set (st5 := if spanValid tspan then _ else st4) in *. set (st5' := if spanValid tspan' then _ else st4') in *.
    replace (sg q + 1 - 1) with (sg q) by lia.
    assert (X : R2 (finishLink (advanceTo st5 (q + 1 - 1)) kind odi, q + 1) (finishLink (advanceTo st5' (sg (q + 1 - 1))) kind odi, sg (q + 1 - 1) + 1)).
    { apply (end_adv T5 [] (q + 1) st5 st5' W5); try lia; [right; replace (q + 1 - 1) with q by lia; exact H41|replace (q + 1 - 1) with q by lia; exact Hpos]. }
    replace (q + 1 - 1) with q in X by lia. exact X.
  Qed.

  (* ---------------------------------------------------------------- collapsed (w = 3) and shortcut (w = 1) references *)
  Lemma ref_simple w : 1 <= w -> start + w <= iend u -> at_ sD (start + w - 1) = 93 ->
    R2 (let label := transformLinkReferenceSpan rf sD (unp st) (pe bracket) start in
        if negb (matchRef st label) then (setStk (addText st start (start + 1)) (delStack (stk st) odi (odi + 1)), start + 1) else
        let '(st2, lid) := wrap st kind (d_node od) None in
        let st3 := updN st2 lid (fun n => setRef (setSpan n (ps bracket) (start + w)) label) in
        (finishLink st3 kind odi, start + w))
       (let label := transformLinkReferenceSpan rf sQ (unp st') (pe bracket') (tr u start) in
        if negb (matchRef st' label) then (setStk (addText st' (tr u start) (tr u start + 1)) (delStack (stk st') odi (odi + 1)), tr u start + 1) else
        let '(st2, lid) := wrap st' kind (d_node od) None in
        let st3 := updN st2 lid (fun n => setRef (setSpan n (ps bracket') (tr u start + w)) label) in
        (finishLink st3 kind odi, tr u start + w)).
  Proof.
    intros Hw Hwe H93w. cbv zeta.
    destruct st_facts as (HI & HS & Eu & Hu & Es & Es' & Gu & _). pose proof Gu as (Ua & Ub & Uc & _).
    destruct bracket_q as (Eb & Rsb & Esg & Hes). pose proof BP as (_ & _ & _ & _ & _ & _ & _ & _ & _ & _ & _ & Eps & Epe & _).
    destruct ((Hy Ctx_facts) st st' u HC) as (Hinu & _).
    assert (Elab : transformLinkReferenceSpan rf sQ (unp st') (pe bracket') (tr u start) = transformLinkReferenceSpan rf sD (unp st) (pe bracket) start).
    { rewrite Eb, (pe_qN sD sg), Eps, Epe, <- Esg, Eu. destruct HI as (_ & _ & -> & _). rewrite Eu. rewrite ((Hy tr_in) u start Gu) by lia.
      apply ((Hz q_tlrs_le) rf eb start); [lia|exact Hes|exists u; split; [exact Hinu|lia]]. }
    rewrite Elab, (matchRef_q sD sQ sg st st' _ HI).
    set (label := transformLinkReferenceSpan rf sD (unp st) (pe bracket) start).
    destruct (negb (matchRef st label)); [apply fail_q|].
    destruct wrap_q as (_ & E1 & E2 & _). pose proof WS_wrap as W2.
    rewrite Eb, (ps_qN sD sg), Eps.
    pose proof (WS_spanRef _ _ _ _ _ _ (start + w) label W2) as W3. rewrite (eE_lt sg sb (start + w)) in W3 by lia. clear W2.
    rewrite (surjective_pairing (wrap st kind (d_node od) None)), (surjective_pairing (wrap st' kind (d_node od) None)). rewrite E1, E2. cbv beta iota.
    replace (sg (start + w - 1) + 1) with (tr u start + w) in W3.
    2:{ rewrite <- ((Hy tr_in) u (start + w - 1) Gu) by lia. unfold QInlBytes.tr. lia. }
    rewrite <- tr_add. rewrite <- (tr_add sg u start w) in W3.
    apply (end_same [] label (start + w) _ _ W3); [lia|exact Hwe|left; exact H93w].
  Qed.

  (* ---------------------------------------------------------------- the full reference *)
  Notation IER := (QIRdrLink.IER sD sg U).
  Lemma full_path lspan linner lspan' linner' ql : start + 1 < iend u -> fst lspan = start + 1 -> fst lspan' = tr u start + 1 -> snd lspan = ql + 1 -> snd lspan' = sg ql + 1 ->
    start + 1 <= ql -> ql < len sD -> at_ sD ql = 93 -> (InIK ql \/ forall v, In v U -> iend v <= ql) ->
    start + 1 <= fst linner < len sD -> fst linner' = sg (fst linner) -> InIK (fst linner) -> IER (fst linner) (snd linner) (snd linner') -> snd linner <= len sD ->
    R2 (let lkids := collectTextNodes rf (newReader sD (unpFrom st) (fst linner)) (snd linner) TextKind false in
        let lref := transformLinkReference rf sD lkids in
        if negb (matchRef st lref) then (setStk (addText st start (start + 1)) (delStack (stk st) odi (odi + 1)), start + 1) else
        let '(st2, lid) := wrap st kind (d_node od) None in
        let st2 := appendKid st2 lid (PN 0 LinkLabelKind (fst lspan) (snd lspan) 0 lref (kidsOf lkids)) in
        let st3 := updN st2 lid (fun n => setSpan n (ps bracket) (snd lspan)) in
        let st4 := advanceTo st3 (snd lspan - 1) in
        (finishLink st4 kind odi, snd lspan))
       (let lkids := collectTextNodes rf (newReader sQ (unpFrom st') (fst linner')) (snd linner') TextKind false in
        let lref := transformLinkReference rf sQ lkids in
        if negb (matchRef st' lref) then (setStk (addText st' (tr u start) (tr u start + 1)) (delStack (stk st') odi (odi + 1)), tr u start + 1) else
        let '(st2, lid) := wrap st' kind (d_node od) None in
        let st2 := appendKid st2 lid (PN 0 LinkLabelKind (fst lspan') (snd lspan') 0 lref (kidsOf lkids)) in
        let st3 := updN st2 lid (fun n => setSpan n (ps bracket') (snd lspan')) in
        let st4 := advanceTo st3 (snd lspan' - 1) in
        (finishLink st4 kind odi, snd lspan')).
  Proof.
    intros Hs1 F1 F1' F2 F2' Hq Hql H93q Hpos Hli Eli' Hini Hie Hile. cbv zeta. rewrite F1, F1', F2, F2', Eli'.
    destruct st_facts as (HI & HS & Eu & Hu & Es & Es' & Gu & _). pose proof Gu as (Ua & Ub & Uc & _).
    destruct bracket_q as (Eb & Rsb & Esg & Hes). pose proof BP as (_ & _ & _ & _ & _ & _ & _ & _ & _ & _ & _ & Eps & Epe & _).
    destruct HC as (_ & _ & _ & _ & Ecu).
    (* the collected label nodes *)
    assert (HK : collectTextNodes rf (newReader sQ (unpFrom st') (sg (fst linner))) (snd linner') TextKind false =
                 flat_map qI3 (collectTextNodes rf (newReader sD (unpFrom st) (fst linner)) (snd linner) TextKind false) /\
                 Forall (inR sD TextKind) (collectTextNodes rf (newReader sD (unpFrom st) (fst linner)) (snd linner) TextKind false)).
    { destruct Hie as [[-> ->]|(qi & Hqi & Nqi & -> & -> & Hiqi)].
      - rewrite !collectTextNodes_empty; [split; [reflexivity|constructor]|cbn [newReader r_pos]; lia|cbn [newReader r_pos]; pose proof (SG_nn _ _ _ SG (fst linner) ltac:(lia)); lia].
      - rewrite <- (bsgE_in sD sQ sg SG (fst linner)) by lia.
        apply ((Hz q_collectF) rf st st' TextKind (fst linner) (qi + 1) (sg qi + 1) false Hrf HI Eu eq_refl ltac:(lia)); [left; replace (qi + 1 - 1) with qi by lia; split; [exact Hiqi|reflexivity]|lia|].
        right. left. destruct Hini as (w & Hw & Hr). exists w. split; [|exact Hr]. apply ((Hy from_cursor) st w (fst linner) Eu Hu Hw); [rewrite <- Ecu; lia|lia]. }
    destruct HK as [EK HinR]. rewrite EK.
    set (lkids := collectTextNodes rf (newReader sD (unpFrom st) (fst linner)) (snd linner) TextKind false) in *.
    assert (Hkinds : Forall (fun i => ikind i = TextKind) lkids).
    { apply collect_noesc_kinds. pose proof ((Hy unpFrom_gsp) st Eu) as G. rewrite Forall_forall in *. intros v Hv. apply (G v Hv). }
    assert (HspW : spW sD lkids = true).
    { apply (collectTextNodes_asc sD (unpFrom st) ((Hy unpFrom_spW) st Eu)); [|lia|lia|rewrite ((Hy unpFrom_bud) st Eu); pose proof Hrf; lia].
      intros i Hi Hk. exfalso. pose proof ((Hy unpFrom_gsp) st Eu) as G. rewrite Forall_forall in G. destruct (G i Hi) as (_ & _ & _ & _ & Gk & _). rewrite Gk in Hk. discriminate. }
    assert (Elref : transformLinkReference rf sQ (flat_map qI3 lkids) = transformLinkReference rf sD lkids).
    { apply (tlr_cut sD sQ sg SG lkids rf HspW); [|exact HrfQ]. rewrite Forall_forall in *. intros i Hi. destruct (HinR i Hi) as (A & B & C & _). split; [apply Hkinds, Hi|]. repeat split; assumption. }
    rewrite Elref, (matchRef_q sD sQ sg st st' _ HI). set (lref := transformLinkReference rf sD lkids).
    destruct (negb (matchRef st lref)); [apply fail_q|].
    destruct wrap_q as (_ & E1 & E2 & _). pose proof WS_wrap as W2.
    rewrite Eb, (ps_qN sD sg), Eps.
    rewrite (Hy kidsOf_q).
    assert (W3 : WS ([] ++ [PN 0 LinkLabelKind (start + 1) (ql + 1) 0 lref (kidsOf lkids)]) [] s0 e0
                   (appendKid (fst (wrap st kind (d_node od) None)) (nid st) (PN 0 LinkLabelKind (start + 1) (ql + 1) 0 lref (kidsOf lkids)))
                   (appendKid (fst (wrap st' kind (d_node od) None)) (nid st) (PN 0 LinkLabelKind (sg (start + 1)) (eE (start + 1) (ql + 1)) 0 lref (qPs (kidsOf lkids))))).
    { apply (WS_append [] [] s0 e0 _ _ LinkLabelKind (start + 1) (ql + 1) lref (kidsOf lkids) W2 eq_refl).
      - apply zok_part; [reflexivity|]. unfold lkids. apply (kids_part sD U HKl st rf (fst linner) (snd linner) false Es Eu).
      - apply vok_part; try lia. unfold lkids. apply (kids_valid sD U HKl HOK st rf (fst linner) (snd linner) TextKind false Es Eu); lia.
      - apply zkeys_kidsOf. }
    clear W2. pose proof (WS_span _ _ _ _ _ _ (ql + 1) W3) as W4. clear W3. rewrite (eE_lt sg sb (ql + 1)) in W4 by lia.
    rewrite (eE_lt sg (start + 1) (ql + 1)) in W4 by lia. replace (ql + 1 - 1) with ql in W4 by lia.
    rewrite (surjective_pairing (wrap st kind (d_node od) None)), (surjective_pairing (wrap st' kind (d_node od) None)). rewrite E1, E2. cbv beta iota.
    assert (Etr1 : tr u start + 1 = sg (start + 1)) by (rewrite <- ((Hy tr_in) u (start + 1) Gu) by lia; rewrite tr_add; reflexivity).
    rewrite Etr1.
    match type of W4 with WS ?T _ _ _ ?a ?a' =>
      assert (X : R2 (finishLink (advanceTo a (ql + 1 - 1)) kind odi, ql + 1) (finishLink (advanceTo a' (sg (ql + 1 - 1))) kind odi, sg (ql + 1 - 1) + 1));
      [apply (end_adv T [] (ql + 1) a a' W4); try lia; [left; replace (ql + 1 - 1) with ql by lia; exact H93q|replace (ql + 1 - 1) with ql by lia; exact Hpos]|] end.
    replace (ql + 1 - 1) with ql in * by lia. replace (sg ql + 1 - 1) with (sg ql) by lia. exact X.
  Qed.

  (* ---------------------------------------------------------------- the three reference forms *)
  Lemma ref_path :
    R2 (let isCollapsed := (start + 2 <? spanEnd st) && (at_ sD (start + 1) =? 91) && (at_ sD (start + 2) =? 93) in
        let '(lspan, linner) :=
          if negb isCollapsed && (start + 1 <? spanEnd st) && (at_ sD (start + 1) =? 91) then
            let '(a, b, _) := parseLinkLabel rf (newReader sD (unpFrom st) (start + 1)) in (a, b)
          else (nullSpan, nullSpan) in
        if isCollapsed then
          let label := transformLinkReferenceSpan rf sD (unp st) (pe bracket) start in
          if negb (matchRef st label) then (setStk (addText st start (start + 1)) (delStack (stk st) odi (odi + 1)), start + 1) else
          let '(st2, lid) := wrap st kind (d_node od) None in
          let st3 := updN st2 lid (fun n => setRef (setSpan n (ps bracket) (start + 3)) label) in
          (finishLink st3 kind odi, start + 3)
        else if spanValid lspan then
          let lkids := collectTextNodes rf (newReader sD (unpFrom st) (fst linner)) (snd linner) TextKind false in
          let lref := transformLinkReference rf sD lkids in
          if negb (matchRef st lref) then (setStk (addText st start (start + 1)) (delStack (stk st) odi (odi + 1)), start + 1) else
          let '(st2, lid) := wrap st kind (d_node od) None in
          let st2 := appendKid st2 lid (PN 0 LinkLabelKind (fst lspan) (snd lspan) 0 lref (kidsOf lkids)) in
          let st3 := updN st2 lid (fun n => setSpan n (ps bracket) (snd lspan)) in
          let st4 := advanceTo st3 (snd lspan - 1) in
          (finishLink st4 kind odi, snd lspan)
        else
          let label := transformLinkReferenceSpan rf sD (unp st) (pe bracket) start in
          if negb (matchRef st label) then (setStk (addText st start (start + 1)) (delStack (stk st) odi (odi + 1)), start + 1) else
          let '(st2, lid) := wrap st kind (d_node od) None in
          let st3 := updN st2 lid (fun n => setRef (setSpan n (ps bracket) (start + 1)) label) in
          (finishLink st3 kind odi, start + 1))
       (let isCollapsed := (tr u start + 2 <? spanEnd st') && (at_ sQ (tr u start + 1) =? 91) && (at_ sQ (tr u start + 2) =? 93) in
        let '(lspan, linner) :=
          if negb isCollapsed && (tr u start + 1 <? spanEnd st') && (at_ sQ (tr u start + 1) =? 91) then
            let '(a, b, _) := parseLinkLabel rf (newReader sQ (unpFrom st') (tr u start + 1)) in (a, b)
          else (nullSpan, nullSpan) in
        if isCollapsed then
          let label := transformLinkReferenceSpan rf sQ (unp st') (pe bracket') (tr u start) in
          if negb (matchRef st' label) then (setStk (addText st' (tr u start) (tr u start + 1)) (delStack (stk st') odi (odi + 1)), tr u start + 1) else
          let '(st2, lid) := wrap st' kind (d_node od) None in
          let st3 := updN st2 lid (fun n => setRef (setSpan n (ps bracket') (tr u start + 3)) label) in
          (finishLink st3 kind odi, tr u start + 3)
        else if spanValid lspan then
          let lkids := collectTextNodes rf (newReader sQ (unpFrom st') (fst linner)) (snd linner) TextKind false in
          let lref := transformLinkReference rf sQ lkids in
          if negb (matchRef st' lref) then (setStk (addText st' (tr u start) (tr u start + 1)) (delStack (stk st') odi (odi + 1)), tr u start + 1) else
          let '(st2, lid) := wrap st' kind (d_node od) None in
          let st2 := appendKid st2 lid (PN 0 LinkLabelKind (fst lspan) (snd lspan) 0 lref (kidsOf lkids)) in
          let st3 := updN st2 lid (fun n => setSpan n (ps bracket') (snd lspan)) in
          let st4 := advanceTo st3 (snd lspan - 1) in
          (finishLink st4 kind odi, snd lspan)
        else
          let label := transformLinkReferenceSpan rf sQ (unp st') (pe bracket') (tr u start) in
          if negb (matchRef st' label) then (setStk (addText st' (tr u start) (tr u start + 1)) (delStack (stk st') odi (odi + 1)), tr u start + 1) else
          let '(st2, lid) := wrap st' kind (d_node od) None in
          let st3 := updN st2 lid (fun n => setRef (setSpan n (ps bracket') (tr u start + 1)) label) in
          (finishLink st3 kind odi, tr u start + 1)).
  Proof.
    destruct st_facts as (HI & HS & Eu & Hu & Es & Es' & Gu & _). pose proof Gu as (Ua & Ub & Uc & _).
    destruct ((Hy Ctx_facts) st st' u HC) as (Hinu & _ & _ & _ & Ee & Ee' & _). pose proof HC as (_ & _ & _ & _ & Ecu).
    cbv zeta. rewrite Ee, Ee'. rewrite (isCollapsed_tr sD sQ sg U SG u Gu start) by lia.
    destruct ((start + 2 <? iend u) && (at_ sD (start + 1) =? 91) && (at_ sD (start + 2) =? 93)) eqn:Ecol.
    { cbn [negb andb]. apply andb_true_iff in Ecol. destruct Ecol as [Ecol E93]. apply andb_true_iff in Ecol. destruct Ecol as [Elt _].
      apply Z.ltb_lt in Elt. apply Z.eqb_eq in E93. apply (ref_simple 3); [lia|lia|replace (start + 3 - 1) with (start + 2) by lia; exact E93]. }
    cbn [negb andb]. rewrite (test_and sD sQ sg U SG u Gu start 1 91) by lia.
    assert (Hshort : R2 _ _) by (apply (ref_simple 1 ltac:(lia) ltac:(lia)); replace (start + 1 - 1) with start by lia; exact H93). cbv zeta in Hshort.
    destruct ((start + 1 <? iend u) && (at_ sD (start + 1) =? 91)) eqn:Ec2; [|change (spanValid nullSpan) with false; cbv iota; exact Hshort].
    apply andb_true_iff in Ec2. destruct Ec2 as [Elt1 _]. apply Z.ltb_lt in Elt1.
    assert (HR : QIRdrBase.RR sD sQ sg U true (newReader sD (unpFrom st) (start + 1)) (newReader sQ (unpFrom st') (tr u start + 1))).
    { rewrite (unpFrom_q sD sQ sg st st' HI). replace (tr u start + 1) with (sgE (start + 1)).
      - apply (bRR_new sD sQ sg U true SG); [apply (Hy unpFrom_gsp), Eu|apply (Hy unpFrom_spW), Eu|lia|intros; lia| |apply (Hy unpFrom_suffix), Eu].
        intros _. right. left. exists u. split; [rewrite Ecu; apply (Hy curU_in_from); assumption|lia].
      - rewrite (bsgE_in sD sQ sg SG) by lia. rewrite <- ((Hy tr_in) u (start + 1) Gu) by lia. apply tr_add. }
    pose proof (q_parseLinkLabel sD sQ sg U SG HWU rf _ _ HR) as HL. pose proof ((Hz q_label_end) rf _ _ HR) as HLe.
    assert (HRI : RI sD (newReader sD (unpFrom st) (start + 1))).
    { split; [reflexivity|]. cbn [newReader r_spans]. unfold unpFrom. rewrite Eu. apply spOK_from, HOK. }
    pose proof (parseLinkLabel_end sD rf (newReader sD (unpFrom st) (start + 1))) as HPe.
    destruct (parseLinkLabel rf (newReader sD (unpFrom st) (start + 1))) as [[lspan linner] rx]. destruct (parseLinkLabel rf (newReader sQ (unpFrom st') (tr u start + 1))) as [[lspan' linner'] rx'].
    cbn [fst snd] in HL, HLe. specialize (HPe lspan linner rx HRI eq_refl). cbn [newReader r_pos] in HPe.
    destruct HL as [[-> ->]|(_ & L1 & L2 & (ql & Hql & Eql & Eql') & L4 & L5 & L6 & L7 & L8)]; [change (spanValid nullSpan) with false; cbv iota; exact Hshort|].
    assert (V : spanValid lspan = true) by (destruct lspan as [a b]; cbn [fst snd] in *; apply (Hy spanValid_in); lia).
    assert (V' : spanValid lspan' = true).
    { destruct lspan as [a b]. destruct lspan' as [a' b']. cbn [fst snd] in *. subst. apply (Hy spanValid_in); [apply (SG_nn _ _ _ SG); lia|].
      pose proof ((Hy sg_le') a ql ltac:(lia) ltac:(lia)). lia. }
    rewrite V, V'. destruct (HPe V) as (P1 & P2 & P3). specialize (HLe V).
    assert (Hile : snd linner <= len sD) by (destruct L6 as [[-> _]|(qi & Hqi & _ & -> & _)]; [pose proof (len_nonneg sD); lia|lia]).
    apply (full_path lspan linner lspan' linner' ql); try assumption; try lia.
    - rewrite L2, P1. rewrite <- ((Hy tr_in) u (start + 1) Gu) by lia. apply tr_add.
    - rewrite Eql in P2. replace (ql + 1 - 1) with ql in P2 by lia. exact P2.
    - rewrite Eql in HLe. replace (ql + 1 - 1) with ql in HLe by lia. exact HLe.
  Qed.
  End BK.
End Step9.
