From Coq Require Import List ZArith Lia Bool.
Import ListNotations.
Require Import Base Tree Rdr Link Collect Html Recog LP Rules Starts Driver StreamFuel.
Open Scope Z_scope.

(* T50 continuation: every block produced by closing a paragraph / setext heading at e is a link reference definition,
   or ends at e, or is the (open) orphan paragraph of a setext heading. *)
Definition ocpP (e : Z) (y : block) : Prop := bkind y = LinkReferenceDefinitionKind \/ bend y = e \/ isOpen y = true.

Lemma ocp_all e : forall fuel rfuel src orig orphan r result,
  Forall (ocpP e) result -> bend orig = e -> (forall o, orphan = Some o -> isOpen o = true) ->
  (forall ik pos, bend (set_bik (set_bstart orig pos) ik) = e) ->
  Forall (ocpP e) (ocp_loop fuel rfuel src orig orphan r result).
Proof.
  induction fuel as [|f IH]; intros rfuel src orig orphan r result Hres He Horph Hcut.
  { cbn [ocp_loop]. apply Forall_app. split; [exact Hres|]. constructor; [right; left; exact He|constructor]. }
  assert (Hkeep : Forall (ocpP e) (result ++ [orig])).
  { apply Forall_app. split; [exact Hres|]. constructor; [right; left; exact He|constructor]. }
  assert (Hrd : forall s e0 k, Forall (ocpP e) (result ++ [refDefBlock s e0 k])).
  { intros. apply Forall_app. split; [exact Hres|]. constructor; [left; reflexivity|constructor]. }
  assert (Hwo : forall res, Forall (ocpP e) res -> Forall (ocpP e) (match orphan with Some o => res ++ [o] | None => res end)).
  { intros res Hr. destruct orphan as [o|]; [|exact Hr]. apply Forall_app. split; [exact Hr|]. constructor; [right; right; apply Horph; reflexivity|constructor]. }
  cbn [ocp_loop]. cbv zeta.
  destruct (parseLinkLabel rfuel r) as [[lspan linner] r1].
  destruct (negb (spanValid lspan)); [assumption|].
  destruct (current r1) as [c r2]. destruct (negb (c =? 58)); [assumption|].
  destruct (next r2) as [? r3]. destruct (skipLinkSpace rfuel r3) as [ok r4]. destruct (negb ok); [assumption|].
  destruct (parseLinkDestination rfuel r4) as [[dspan dtext] r5]. destruct (negb (spanValid dspan)); [assumption|].
  destruct (readEOL rfuel r5) as [destEOL r6]. destruct (current r6) as [c6 r7].
  destruct (_ && _ && _); [assumption|].
  set (labelInline := Inl LinkLabelKind _ _ 0 _ _). set (destInline := Inl LinkDestinationKind _ _ 0 [] _).
  destruct (skipLinkSpace rfuel r7) as [ok2 r8]. destruct (negb ok2); [apply Hwo, Hrd|].
  destruct (parseLinkTitle rfuel r8) as [[tspan ttext] r9].
  assert (Hcut2 : forall pos ik ik' pos', bend (set_bik (set_bstart (set_bik (set_bstart orig pos) ik) pos') ik') = e).
  { intros. destruct orig; cbn in *. exact He. }
  destruct (negb (spanValid tspan)).
  { destruct (destEOL <? 0); [assumption|]. destruct (_ <? 0); [apply Hwo, Hrd|].
    apply IH; [apply Hrd|apply Hcut|exact Horph|]. intros ik pos. apply Hcut2. }
  destruct (readEOL rfuel r9) as [titleEOL r10].
  destruct (titleEOL <? 0).
  { destruct (destEOL <? 0); [assumption|]. destruct (_ <? 0); [apply Hwo, Hrd|].
    apply Forall_app. split; [exact Hres|]. constructor; [left; reflexivity|]. constructor; [right; left; apply Hcut|constructor]. }
  set (titleInline := Inl LinkTitleKind _ _ 0 [] _).
  destruct (_ <? 0); [apply Hwo, Hrd|].
  apply IH; [apply Hrd|apply Hcut|exact Horph|]. intros ik pos. apply Hcut2.
Qed.

Lemma onCloseParagraph_all src b : Forall (ocpP (bend b)) (onCloseParagraph src b).
Proof.
  unfold onCloseParagraph. destruct (bik b) as [|first rest]; [constructor; [right; left; reflexivity|constructor]|]. cbv zeta.
  apply ocp_all; [constructor|reflexivity| |intros ik pos; destruct b; reflexivity].
  intros o. destruct (bkind b =? SetextHeadingKind); [|discriminate]. intros E. inversion E. reflexivity.
Qed.

Lemma closeBlock_para_all f src c e : isOpen c = true -> (bkind c = ParagraphKind \/ bkind c = SetextHeadingKind) ->
  Forall (ocpP e) (closeBlock (S f) src c e).
Proof.
  intros Ho Hk. cbn [closeBlock]. rewrite Ho. cbn [negb]. cbv zeta.
  assert (Ek : bkind (set_bend c e) = bkind c) by (destruct c; reflexivity). rewrite Ek.
  destruct Hk as [Hk|Hk]; rewrite Hk; cbn.
  - pose proof (onCloseParagraph_all src (set_bend c e)) as H. rewrite StreamFuel.bend_set_bend in H. exact H.
  - pose proof (onCloseParagraph_all src (set_bend c e)) as H. rewrite StreamFuel.bend_set_bend in H. exact H.
Qed.

(* the same induction for an arbitrary property of the produced blocks *)
Lemma ocp_forall (P : block -> Prop) : (forall s e k, P (refDefBlock s e k)) ->
  forall fuel rfuel src orig orphan r result,
  Forall P result -> P orig -> (forall o, orphan = Some o -> P o) ->
  (forall b ik pos, P b -> P (set_bik (set_bstart b pos) ik)) ->
  Forall P (ocp_loop fuel rfuel src orig orphan r result).
Proof.
  intros Href. induction fuel as [|f IH]; intros rfuel src orig orphan r result Hres Ho Horph Hcut.
  { cbn [ocp_loop]. apply Forall_app. split; [exact Hres|]. constructor; [exact Ho|constructor]. }
  assert (Hkeep : Forall P (result ++ [orig])) by (apply Forall_app; split; [exact Hres|constructor; [exact Ho|constructor]]).
  assert (Hrd : forall s e0 k, Forall P (result ++ [refDefBlock s e0 k])).
  { intros. apply Forall_app. split; [exact Hres|]. constructor; [apply Href|constructor]. }
  assert (Hwo : forall res, Forall P res -> Forall P (match orphan with Some o => res ++ [o] | None => res end)).
  { intros res Hr. destruct orphan as [o|]; [|exact Hr]. apply Forall_app. split; [exact Hr|]. constructor; [apply Horph; reflexivity|constructor]. }
  cbn [ocp_loop]. cbv zeta.
  destruct (parseLinkLabel rfuel r) as [[lspan linner] r1].
  destruct (negb (spanValid lspan)); [assumption|].
  destruct (current r1) as [c r2]. destruct (negb (c =? 58)); [assumption|].
  destruct (next r2) as [? r3]. destruct (skipLinkSpace rfuel r3) as [ok r4]. destruct (negb ok); [assumption|].
  destruct (parseLinkDestination rfuel r4) as [[dspan dtext] r5]. destruct (negb (spanValid dspan)); [assumption|].
  destruct (readEOL rfuel r5) as [destEOL r6]. destruct (current r6) as [c6 r7].
  destruct (_ && _ && _); [assumption|].
  set (labelInline := Inl LinkLabelKind _ _ 0 _ _). set (destInline := Inl LinkDestinationKind _ _ 0 [] _).
  destruct (skipLinkSpace rfuel r7) as [ok2 r8]. destruct (negb ok2); [apply Hwo, Hrd|].
  destruct (parseLinkTitle rfuel r8) as [[tspan ttext] r9].
  destruct (negb (spanValid tspan)).
  { destruct (destEOL <? 0); [assumption|]. destruct (_ <? 0); [apply Hwo, Hrd|].
    apply IH; [apply Hrd|apply Hcut, Ho|exact Horph|exact Hcut]. }
  destruct (readEOL rfuel r9) as [titleEOL r10].
  destruct (titleEOL <? 0).
  { destruct (destEOL <? 0); [assumption|]. destruct (_ <? 0); [apply Hwo, Hrd|].
    apply Forall_app. split; [exact Hres|]. constructor; [apply Href|]. constructor; [apply Hcut, Ho|constructor]. }
  set (titleInline := Inl LinkTitleKind _ _ 0 [] _).
  destruct (_ <? 0); [apply Hwo, Hrd|].
  apply IH; [apply Hrd|apply Hcut, Ho|exact Horph|exact Hcut].
Qed.

Lemma onCloseParagraph_forall (P : block -> Prop) src b : (forall s e k, P (refDefBlock s e k)) -> P b ->
  (forall bs ik, P (Blk ParagraphKind bs (-1) [] ik 0 0 0 false false)) ->
  (forall x ik pos, P x -> P (set_bik (set_bstart x pos) ik)) -> Forall P (onCloseParagraph src b).
Proof.
  intros Href Hb Horph Hcut. unfold onCloseParagraph. destruct (bik b) as [|first rest]; [constructor; [exact Hb|constructor]|]. cbv zeta.
  apply ocp_forall; [exact Href|constructor|exact Hb| |exact Hcut].
  intros o. destruct (bkind b =? SetextHeadingKind); [|discriminate]. intros E. inversion E. apply Horph.
Qed.
