From Coq Require Import List ZArith Lia Bool.
Import ListNotations.
Require Import Base Tree Rdr Link Collect Html Recog LP Rules Starts Driver L2Kind L2CC TDefs TOcp StreamFuel LA2 BSLine3 ReparseOpen ReparseFrame ReparseSI ReparseOcp.
Open Scope Z_scope.

(* T50 continuation: closing the last item of a list first and the list afterwards gives the same block as closing the list
   (top down) at once; the lastLineBlank flag of the list itself is not looked at. *)
Lemma ewb_fuel2 : forall f f' b, (bheight b <= f)%nat -> (bheight b <= f')%nat -> endsWithBlankLine f b = endsWithBlankLine f' b.
Proof.
  induction f as [|f IH]; intros f' b H1 H2; [destruct (bheight_S b) as [n E]; lia|].
  destruct f' as [|f']; [destruct (bheight_S b) as [n E]; lia|]. cbn [endsWithBlankLine].
  destruct (blastBlank b); [reflexivity|]. destruct (negb _); [reflexivity|].
  destruct (lastBlock b) as [c|] eqn:El; [|reflexivity]. pose proof (bheight_last b c El). apply IH; lia.
Qed.

Lemma combine_seq_snoc {A} (l : list A) x a :
  combine (seq a (length (l ++ [x]))) (l ++ [x]) = combine (seq a (length l)) l ++ [((a + length l)%nat, x)].
Proof.
  revert a. induction l as [|y r IH]; intros a; [cbn; rewrite Nat.add_0_r; reflexivity|].
  cbn [app length seq combine]. rewrite IH. cbn [app]. replace (S a + length r)%nat with (a + S (length r))%nat by lia. reflexivity.
Qed.

Definition subTest (h : nat) (notLast : bool) (nsubs : nat) (jx : nat * block) : bool :=
  let '(j, sb) := jx in (notLast || Nat.ltb (S j) nsubs) && endsWithBlankLine h sb.
Definition looseItem (h nitems : nat) (ix : nat * block) : bool :=
  let '(i, item) := ix in
  (Nat.ltb (S i) nitems && endsWithBlankLine h item) ||
  existsb (subTest h (Nat.ltb (S i) nitems) (length (bkids item))) (combine (seq 0 (length (bkids item))) (bkids item)).
Lemma onCloseList_eq b : onCloseList b =
  if bloose b || existsb (looseItem (bheight b) (length (bkids b))) (combine (seq 0 (length (bkids b))) (bkids b))
  then set_bkids (set_bloose b true) (map (fun it => set_bloose it true) (bkids b)) else b.
Proof.
  unfold onCloseList. cbv zeta. 
  assert (E : forall l, existsb (fun ix : nat * block => let '(i, item) := ix in
            (Nat.ltb (S i) (length (bkids b)) && endsWithBlankLine (bheight b) item) ||
            existsb (fun jx : nat * block => let '(j, sb) := jx in (Nat.ltb (S i) (length (bkids b)) || Nat.ltb (S j) (length (bkids item))) && endsWithBlankLine (bheight b) sb)
                    (combine (seq 0 (length (bkids item))) (bkids item))) l = existsb (looseItem (bheight b) (length (bkids b))) l).
  { induction l as [|[i item] r IH]; [reflexivity|]. cbn [existsb]. rewrite IH. reflexivity. }
  rewrite E. reflexivity.
Qed.

Lemma existsb_ext_in {A} (f g : A -> bool) l : (forall x, In x l -> f x = g x) -> existsb f l = existsb g l.
Proof. induction l as [|x r IH]; intros H; [reflexivity|]. cbn [existsb]. rewrite (H x (or_introl eq_refl)), IH; [reflexivity|]. intros y Hy. apply H. right. exact Hy. Qed.
Lemma in_combine_seq {A} (l : list A) a i x : In (i, x) (combine (seq a (length l)) l) -> In x l /\ (a <= i < a + length l)%nat.
Proof. intros H. split; [eapply in_combine_r; exact H|]. apply in_combine_l in H. apply in_seq in H. exact H. Qed.

Lemma looseItem_fuel h h' n i item : (bheight item <= h)%nat -> (bheight item <= h')%nat -> looseItem h n (i, item) = looseItem h' n (i, item).
Proof.
  intros H1 H2. unfold looseItem. rewrite (ewb_fuel2 h h' item H1 H2). f_equal.
  apply existsb_ext_in. intros [j sb] Hin. destruct (in_combine_seq (bkids item) 0 j sb Hin) as [Hs _].
  pose proof (bheight_kid' item sb Hs). unfold subTest. rewrite (ewb_fuel2 h h' sb); [reflexivity|lia|lia].
Qed.

(* the last item: only its children except the last are looked at *)
Lemma looseItem_last h h' n spre w w' I I' : bkids I = spre ++ [w] -> bkids I' = spre ++ [w'] ->
  (forall sb, In sb spre -> (bheight sb <= h)%nat /\ (bheight sb <= h')%nat) ->
  forall i, Nat.ltb (S i) n = false -> looseItem h n (i, I) = looseItem h' n (i, I').
Proof.
  intros E1 E2 Hb i Hi. unfold looseItem. rewrite Hi. cbn [andb orb].
  rewrite E1, E2, !combine_seq_snoc, !existsb_app. cbn [existsb]. rewrite !app_length. cbn [length subTest orb].
  replace (Nat.ltb (S (0 + length spre)) (length spre + 1)) with false by (symmetry; apply Nat.ltb_ge; lia). cbn [andb orb].
  f_equal. apply existsb_ext_in. intros [j sb] Hin. destruct (in_combine_seq spre 0 j sb Hin) as [Hs _].
  destruct (Hb sb Hs) as [A B]. unfold subTest. rewrite (ewb_fuel2 h h' sb A B). reflexivity.
Qed.
Lemma looseItem_nokids h h' n I I' : bkids I = [] -> bkids I' = [] -> forall i, Nat.ltb (S i) n = false -> looseItem h n (i, I) = looseItem h' n (i, I').
Proof. intros E1 E2 i Hi. unfold looseItem. rewrite Hi, E1, E2. reflexivity. Qed.

(* heights do not grow when a block is closed *)
Definition maxH (l : list block) : nat := fold_right (fun c acc => Nat.max (bheight c) acc) O l.
Lemma maxH_app a b : maxH (a ++ b) = Nat.max (maxH a) (maxH b).
Proof. induction a as [|x r IH]; [reflexivity|]. cbn [app maxH fold_right] in *. fold (maxH (r ++ b)). fold (maxH r). rewrite IH. lia. Qed.
Lemma maxH_le l m : Forall (fun r => (bheight r <= m)%nat) l -> (maxH l <= m)%nat.
Proof. induction l as [|x r IH]; intros H; [cbn; lia|]. inversion H; subst. cbn [maxH fold_right]. fold (maxH r). specialize (IH H3). lia. Qed.
Lemma bheight_maxH b : bheight b = S (maxH (bkids b)). Proof. destruct b; reflexivity. Qed.
Lemma bheight_set_lastBlocks_le z R c0 : lastBlock z = Some c0 -> Forall (fun r => (bheight r <= bheight c0)%nat) R ->
  (bheight (set_lastBlocks z R) <= bheight z)%nat.
Proof.
  intros El HR. destruct (lastBlock_some z c0 El) as (pre & Ek).
  rewrite !bheight_maxH, (bkids_set_lastBlocks z pre c0 R Ek), Ek, !maxH_app. pose proof (maxH_le R (bheight c0) HR).
  cbn [maxH fold_right]. lia.
Qed.

Lemma close_height_le src e : forall f x, Forall (fun r => (bheight r <= bheight x)%nat) (closeBlock f src x e).
Proof.
  induction f as [|f IH]; intros x; [constructor; [lia|constructor]|]. cbn [closeBlock].
  destruct (negb (isOpen x)); [constructor; [lia|constructor]|]. cbv zeta.
  assert (Hcl : forall y, (bheight y <= bheight x)%nat ->
            (bheight (match lastBlock y with Some c => set_lastBlocks y (closeBlock f src c e) | None => y end) <= bheight x)%nat).
  { intros y Hy. destruct (lastBlock y) as [c0|] eqn:El; [|exact Hy]. pose proof (bheight_set_lastBlocks_le y _ c0 El (IH c0)). lia. }
  destruct (_ =? ListKind); [constructor; [apply Hcl; rewrite bheight_onCloseList, bheight_set_bend; lia|constructor]|].
  destruct (_ =? IndentedCodeBlockKind); [constructor; [apply Hcl; rewrite bheight_onCloseIndented, bheight_set_bend; lia|constructor]|].
  destruct (_ || _); [|constructor; [apply Hcl; rewrite bheight_set_bend; lia|constructor]].
  apply onCloseParagraph_forall.
  - intros s0 e0 k. cbn. destruct (bheight_S x) as [n ->]. lia.
  - rewrite bheight_set_bend. lia.
  - intros bs ik. cbn. destruct (bheight_S x) as [n ->]. lia.
  - intros y ik pos Hy. destruct y; exact Hy.
Qed.

Section SC.
  Variables (src : bytes) (T : Z).
  Notation CL f y := (match lastBlock y with Some z => set_lastBlocks y (closeBlock f src z T) | None => y end).

  Lemma closeBlock_item f x : isOpen x = true -> bkind x = ListItemKind ->
    closeBlock (S f) src x T = [match lastBlock x with Some w => set_lastBlocks (set_bend x T) (closeBlock f src w T) | None => set_bend x T end].
  Proof.
    intros Ho Hk. cbn [closeBlock]. rewrite Ho. cbn [negb]. cbv zeta.
    assert (Ek : bkind (set_bend x T) = ListItemKind) by (destruct x; exact Hk). rewrite Ek.
    change (ListItemKind =? ListKind) with false. change (ListItemKind =? IndentedCodeBlockKind) with false.
    change ((ListItemKind =? ParagraphKind) || (ListItemKind =? SetextHeadingKind)) with false. cbv iota.
    rewrite lastBlock_set_bend. reflexivity.
  Qed.

  Lemma set_bloose_commute f x v : isOpen x = true -> bkind x = ListItemKind ->
    closeBlock f src (set_bloose x v) T = map (fun y => set_bloose y v) (closeBlock f src x T).
  Proof.
    intros Ho Hk. destruct f as [|f]; [reflexivity|].
    rewrite (closeBlock_item f x Ho Hk), (closeBlock_item f (set_bloose x v)); [|rewrite isOpen_set_bloose; exact Ho|rewrite bkind_set_bloose'; exact Hk].
    rewrite lastBlock_set_bloose. cbn [map]. destruct (lastBlock x); destruct x; reflexivity.
  Qed.

  Hypothesis HT : 0 <= T.

  Lemma set_lastBlocks_twice b R R' : bkids b <> [] -> R <> [] -> set_lastBlocks (set_lastBlocks b R) R' = set_lastBlocks b (removelast R ++ R').
  Proof.
    intros Hn HR. destruct b as [k s e bk ik a n ch l lb]. cbn [bkids] in Hn. unfold set_lastBlocks. cbn [set_bkids bkids].
    rewrite (ShDef.removelast_app_ne (removelast bk) R HR), app_assoc. reflexivity.
  Qed.

  Theorem SC_list h h0 c I : bkind c = ListKind -> isOpen c = true -> lastBlock c = Some I -> bkind I = ListItemKind -> isOpen I = true ->
    (bheight c < h)%nat -> (bheight c < h0)%nat ->
    (forall f w, lastBlock I = Some w -> exists w1, closeBlock f src w T = [w1]) ->
    closeBlock h src (clF h0 src T c) T = closeBlock h src c T.
  Proof.
    intros Hk Ho El HkI HoI Hh Hh0 Hw.
    pose proof (bheight_last c I El) as HhI.
    destruct h as [|f]; [lia|]. destruct h0 as [|f0]; [lia|].
    destruct (lastBlock_some c I El) as (pre & Ekc).
    (* the closed item *)
    set (I1 := match lastBlock I with Some w => set_lastBlocks (set_bend I T) (closeBlock f0 src w T) | None => set_bend I T end).
    assert (EI0 : closeBlock (S f0) src I T = [I1]) by (apply closeBlock_item; assumption).
    assert (EIf : forall g, (bheight I <= g)%nat -> closeBlock g src I T = [I1]).
    { intros g Hg. rewrite (closeBlock_fuel2 src T g (S f0) I Hg ltac:(lia)). exact EI0. }
    assert (HbI1 : bend I1 = T) by (unfold I1; destruct (lastBlock I); rewrite ?bend_set_lastBlocks; apply StreamFuel.bend_set_bend).
    assert (HcI1 : isOpen I1 = false) by (unfold isOpen; rewrite HbI1; apply Z.ltb_ge; exact HT).
    assert (HkidsI1 : (bkids I = [] /\ bkids I1 = []) \/ exists spre w w1, bkids I = spre ++ [w] /\ bkids I1 = spre ++ [w1]).
    { unfold I1. destruct (lastBlock I) as [w|] eqn:Ew.
      - right. destruct (lastBlock_some I w Ew) as (spre & Es). destruct (Hw f0 w eq_refl) as (w1 & Ew1). exists spre, w, w1. split; [exact Es|].
        rewrite Ew1. rewrite (bkids_set_lastBlocks (set_bend I T) spre w [w1]); [reflexivity|rewrite bkids_set_bend; exact Es].
      - left. apply lastBlock_none in Ew. split; [exact Ew|rewrite bkids_set_bend; exact Ew]. }
    unfold clF. rewrite El, EI0.
    set (c' := set_lastBlocks c [I1]).
    assert (Ekc' : bkids c' = pre ++ [I1]) by (apply (bkids_set_lastBlocks c pre I [I1] Ekc)).
    assert (Hoc' : isOpen c' = true) by (unfold c', isOpen; rewrite bend_set_lastBlocks; exact Ho).
    assert (Hkc' : bkind c' = ListKind) by (unfold c'; rewrite bkind_set_lastBlocks'; exact Hk).
    cbn [closeBlock]. rewrite Ho, Hoc'. cbn [negb]. cbv zeta.
    assert (Eb : forall x, bkind (set_bend x T) = bkind x) by (intros x; destruct x; reflexivity).
    rewrite !Eb, Hk, Hkc'. change (ListKind =? ListKind) with true. cbv iota.
    set (b := set_bend c T). set (b' := set_bend c' T).
    assert (Ekb : bkids b = pre ++ [I]) by (unfold b; rewrite bkids_set_bend; exact Ekc).
    assert (Ekb' : bkids b' = pre ++ [I1]) by (unfold b'; rewrite bkids_set_bend; exact Ekc').
    assert (Ebb' : b' = set_lastBlocks b [I1]) by (unfold b, b', c'; destruct c; reflexivity).
    assert (Hhb : bheight b = bheight c) by apply bheight_set_bend.
    (* the same looseness *)
    assert (A1 : forall x, In x (bkids b) -> (bheight x < bheight b)%nat) by (intros x; apply bheight_kid').
    assert (A2 : forall x, In x (bkids b') -> (bheight x < bheight b')%nat) by (intros x; apply bheight_kid').
    rewrite Ekb in A1. rewrite Ekb' in A2.
    assert (Eloose : existsb (looseItem (bheight b') (length (bkids b'))) (combine (seq 0 (length (bkids b'))) (bkids b')) =
                     existsb (looseItem (bheight b) (length (bkids b))) (combine (seq 0 (length (bkids b))) (bkids b))).
    { rewrite Ekb, Ekb', !combine_seq_snoc, !existsb_app. cbn [existsb]. rewrite !app_length. cbn [length]. rewrite !orb_false_r. f_equal.
      - apply existsb_ext_in. intros [i x] Hin. destruct (in_combine_seq pre 0 i x Hin) as [Hx _].
        pose proof (A1 x ltac:(apply in_or_app; left; exact Hx)). pose proof (A2 x ltac:(apply in_or_app; left; exact Hx)).
        apply looseItem_fuel; lia.
      - assert (Hi : Nat.ltb (S (0 + length pre)) (length pre + 1) = false) by (apply Nat.ltb_ge; lia).
        pose proof (A1 I ltac:(apply in_or_app; right; left; reflexivity)) as HI. pose proof (A2 I1 ltac:(apply in_or_app; right; left; reflexivity)) as HI1.
        destruct HkidsI1 as [[K1 K2]|(spre & w & w1 & K1 & K2)].
        + symmetry. apply (looseItem_nokids _ _ _ I I1 K1 K2 _ Hi).
        + symmetry. apply (looseItem_last _ _ _ spre w w1 I I1 K1 K2); [|exact Hi]. intros sb Hsb. split.
          * pose proof (bheight_kid' I sb ltac:(rewrite K1; apply in_or_app; left; exact Hsb)). lia.
          * pose proof (bheight_kid' I1 sb ltac:(rewrite K2; apply in_or_app; left; exact Hsb)). lia. }
    rewrite !onCloseList_eq, Eloose.
    assert (Elo : bloose b' = bloose b) by (rewrite Ebb'; destruct b; reflexivity). rewrite Elo.
    assert (HfI : (bheight I <= f)%nat) by lia.
    destruct (bloose b || _).
    - (* loose *)
      rewrite Ekb, Ekb', !map_app. cbn [map].
      set (sl := fun it : block => set_bloose it true).
      assert (L1 : lastBlock (set_bkids (set_bloose b' true) (map sl pre ++ [sl I1])) = Some (sl I1)).
      { apply (lastBlock_snoc _ (map sl pre)). destruct b'; reflexivity. }
      assert (L2 : lastBlock (set_bkids (set_bloose b true) (map sl pre ++ [sl I])) = Some (sl I)).
      { apply (lastBlock_snoc _ (map sl pre)). destruct b; reflexivity. }
      change (set_bloose I1 true) with (sl I1). change (set_bloose I true) with (sl I). rewrite L1, L2.
      rewrite (TOcp.closeBlock_closed f src (sl I1) T ltac:(unfold sl; rewrite isOpen_set_bloose; exact HcI1)).
      change (closeBlock f src (sl I) T) with (closeBlock f src (set_bloose I true) T).
      rewrite (set_bloose_commute f I true HoI HkI), (EIf f HfI). cbn [map]. f_equal.
      rewrite Ebb'. destruct b as [k0 s0 e0 bk0 ik0 a0 n0 ch0 l0 lb0]. unfold set_lastBlocks. cbn [set_bkids set_bloose bkids]. rewrite !removelast_snoc. reflexivity.
    - (* not loose *)
      assert (L1 : lastBlock b' = Some I1) by (apply (lastBlock_snoc _ pre); exact Ekb').
      assert (L2 : lastBlock b = Some I) by (apply (lastBlock_snoc _ pre); exact Ekb).
      rewrite L1, L2, (TOcp.closeBlock_closed f src I1 T HcI1), (EIf f HfI). f_equal.
      rewrite Ebb'. destruct b as [k0 s0 e0 bk0 ik0 a0 n0 ch0 l0 lb0]. cbn [bkids] in Ekb. subst bk0. unfold set_lastBlocks. cbn [set_bkids bkids]. rewrite !removelast_snoc. reflexivity.
  Qed.

  (* the lastLineBlank flag of the list itself is carried through *)
  Lemma closeBlock_list_blast f x v : bkind x = ListKind ->
    closeBlock f src (set_blast x v) T = map (fun y => set_blast y v) (closeBlock f src x T).
  Proof.
    intros Hk. destruct f as [|f]; [reflexivity|]. cbn [closeBlock].
    assert (Eo : isOpen (set_blast x v) = isOpen x) by (destruct x; reflexivity). rewrite Eo.
    destruct (negb (isOpen x)); [reflexivity|]. cbv zeta.
    assert (Ek : bkind (set_bend (set_blast x v) T) = ListKind) by (destruct x; exact Hk).
    assert (Ek' : bkind (set_bend x T) = ListKind) by (destruct x; exact Hk). rewrite Ek, Ek'. change (ListKind =? ListKind) with true. cbv iota.
    assert (E1 : onCloseList (set_bend (set_blast x v) T) = set_blast (onCloseList (set_bend x T)) v).
    { rewrite !onCloseList_eq. destruct x as [k0 s0 e0 bk0 ik0 a0 n0 ch0 l0 lb0]. cbn [set_blast set_bend bloose bkids bheight].
      destruct (l0 || _); reflexivity. }
    rewrite E1. cbn [map]. f_equal. set (y := onCloseList (set_bend x T)).
    assert (E2 : lastBlock (set_blast y v) = lastBlock y) by (destruct y; reflexivity). rewrite E2.
    destruct (lastBlock y); destruct y; reflexivity.
  Qed.
End SC.
