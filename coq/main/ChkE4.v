(* ChkE4.v -- T30, stage 3: the entry bounds through descendOpenBlocks and the block starts. *)
From Coq Require Import List ZArith Lia Bool.
Import ListNotations.
Require Import Base Tree Rdr Link Collect Html Recog LP Rules Starts Driver L2Kind2 L2CC ShapesBase ShEnv GramDefs GramTree
  GramLP GramLP2 GramLP3 GramLP4 Cursor CursorX NoPanic12 BSLine1 ChkW1 ChkW2 ChkW3 ChkW4 ChkW5 ChkE1 ChkE2 ChkE3.
Open Scope Z_scope.

Lemma li_collectInline_ge p kind n : li p <= li (collectInline p kind n).
Proof.
  unfold collectInline. destruct (state p =? stDescendTerminated); [cbn; lia|]. cbv zeta. cbn [li updCont withRoot setLP].
  set (p0 := if state p =? stOpening then withState p stOpenMatched else p).
  assert (I0 : li p0 = li p) by (unfold p0; destruct (state p =? stOpening); reflexivity).
  eapply Z.le_trans; [|apply li_advance_ge]. destruct (0 <? indent p0); [|lia].
  cbn [li updCont withRoot setLP]. rewrite <- I0. apply li_advance_ge.
Qed.
Lemma li_matchRule_ge p : CUR p -> li p <= li (snd (matchRule p)).
Proof.
  intros HC. unfold matchRule. cbv zeta.
  destruct (_ || _); [cbn; lia|].
  destruct (_ =? ListItemKind).
  { unfold matchListItem. destruct (isRestBlank p); [destruct (negb _); [cbn; lia|apply li_consumeIndent_ge]|].
    destruct (_ <=? _); [apply li_consumeIndent_ge|cbn; lia]. }
  destruct (_ =? BlockQuoteKind).
  { unfold matchBlockQuote. cbv zeta. destruct (_ <=? _); [cbn; lia|]. destruct (negb _); [cbn; lia|]. cbn [snd].
    unfold eatQuoteMarker. cbv zeta. pose proof (li_consumeIndent_ge p (indent p)) as H1.
    pose proof (li_advance_ge (consumeIndent p (indent p)) 1) as H2.
    destruct (0 <? _); [pose proof (li_consumeIndent_ge (advance (consumeIndent p (indent p)) 1) 1)|]; lia. }
  destruct (_ =? FencedCodeBlockKind).
  { unfold matchFenced. cbv zeta. destruct (if _ <? _ then _ else false); cbn [snd]; [apply li_consumeLine_ge, HC|apply li_consumeIndent_ge]. }
  destruct (_ =? IndentedCodeBlockKind).
  { unfold matchIndented. cbv zeta. destruct (_ <? _); [destruct (negb _)|]; cbn [snd]; try apply li_consumeIndent_ge; lia. }
  destruct (containerKind p =? HTMLBlockKind).
  { unfold matchHTML. destruct (htmlEnd _ _); [|cbn; lia]. destruct (isRestBlank _); [cbn; lia|]. cbn [snd].
    eapply Z.le_trans; [apply (li_collectInline_ge p RawHTMLKind)|]. apply li_consumeLine_ge, CUR_collectInline, HC. }
  cbn. lia.
Qed.

Lemma matchRule_cases p :
  (root (snd (matchRule p)) = root p) \/
  (containerKind p = HTMLBlockKind /\ snd (matchRule p) = consumeLine (collectInline p RawHTMLKind (len (bytesAfterIndent p)))).
Proof.
  unfold matchRule. cbv zeta.
  destruct (_ || _); [left; reflexivity|].
  destruct (_ =? ListItemKind).
  { left. unfold matchListItem. destruct (isRestBlank p); [destruct (negb _); [reflexivity|apply same_consumeIndent]|].
    destruct (_ <=? _); [apply same_consumeIndent|reflexivity]. }
  destruct (_ =? BlockQuoteKind).
  { left. unfold matchBlockQuote. cbv zeta. destruct (_ <=? _); [reflexivity|]. destruct (negb _); [reflexivity|]. cbn [snd].
    unfold eatQuoteMarker. cbv zeta. destruct (0 <? _).
    - rewrite (proj1 (same_consumeIndent _ _)), (proj1 (same_advance _ _)). apply same_consumeIndent.
    - rewrite (proj1 (same_advance _ _)). apply same_consumeIndent. }
  destruct (_ =? FencedCodeBlockKind).
  { left. unfold matchFenced. cbv zeta. destruct (if _ <? _ then _ else false); cbn [snd]; [apply same_consumeLine|apply same_consumeIndent]. }
  destruct (_ =? IndentedCodeBlockKind).
  { left. unfold matchIndented. cbv zeta. destruct (_ <? _); [destruct (negb _)|]; cbn [snd]; try apply same_consumeIndent; reflexivity. }
  destruct (containerKind p =? HTMLBlockKind) eqn:EH; [|left; reflexivity].
  unfold matchHTML. destruct (htmlEnd _ _); [|left; reflexivity]. destruct (isRestBlank _); [left; reflexivity|]. cbn [snd].
  right. split; [apply Z.eqb_eq, EH|reflexivity].
Qed.

Lemma E_descend_loop : forall fuel p d, CUR p -> ES p -> ES (snd (descend_loop fuel p d)).
Proof.
  induction fuel as [|f IH]; intros p d HC HW; [exact HW|].
  cbn [descend_loop]. cbv zeta.
  destruct (getAt (S d) (root p)) as [c|] eqn:Ec; [|exact HW].
  destruct (negb (isOpen c)) eqn:Eo; [exact HW|]. apply negb_false_iff in Eo.
  destruct (negb (hasMatch _)); [exact HW|].
  set (q := withState (withCont p (Some (S d))) stDescending).
  assert (HCq : CUR q) by exact HC. assert (HWq : ES q) by exact HW.
  pose proof (matchRule_cases q) as Hr. pose proof (CUR_matchRule q HCq) as HC2. pose proof (li_matchRule_ge q HCq) as Hli.
  pose proof (env_matchRule q) as He2.
  destruct (matchRule q) as [ok p2]. cbn [snd] in Hr, HC2, Hli, He2.
  destruct (env_src q p2 He2) as (Es2 & El2 & Eln2).
  destruct Hr as [Hr|(Hk & Hr)].
  - assert (HW2 : ES p2) by (apply (ES_tree q p2 Hr El2 Hli), HWq).
    destruct (state p2 =? stDescendTerminated).
    + cbn [snd]. apply (ES_tree (closeLastChildAt p2 d (lineStart p2 + li p2))); [reflexivity|reflexivity|cbn; lia|].
      apply ES_closeLastChildAt; [destruct HC2 as (_ & B & C); lia|destruct HC2 as (_ & B & C); lia|exact HW2].
    + destruct (negb ok); [exact HW2|]. apply IH; assumption.
  - assert (Hst2 : state p2 = stDescendTerminated) by (rewrite Hr; apply state_consumeLine_desc, state_collectInline_desc; reflexivity).
    rewrite Hst2. change (stDescendTerminated =? stDescendTerminated) with true. cbv iota. cbn [snd].
    unfold ES, Mc. cbn [root lineStart li withCont closeLastChildAt withRoot setLP]. fold (CLf (bheight (root p2)) (source p2) (lineStart p2 + li p2)).
    eapply (ER_mono (lineStart q + li q) (lineStart q)); [rewrite El2; lia|rewrite El2; lia|].
    apply (collect_close_E q RawHTMLKind (len (bytesAfterIndent q)) d (lineStart p2 + li p2) p2); try assumption; try reflexivity.
    + rewrite El2. assert (Hge : li (collectInline q RawHTMLKind (len (bytesAfterIndent q))) <= li p2).
      { rewrite Hr. apply li_consumeLine_ge, CUR_collectInline, HCq. }
      lia.
    + intros c' Hc'. change (root q) with (root p) in Hc'. rewrite Ec in Hc'. inversion Hc'; subst c'. exact Eo.
    + rewrite Hr. apply same_consumeLine.
Qed.

(* ---- the invariant with the bounds raised to the end of the current line ---- *)
Definition HL (p : lp) : Z := lineStart p + len (line p).
Definition ESH (p : lp) : Prop := ER (HL p) (HL p) (root p) = true.
Lemma ES_ESH p : CUR p -> ES p -> ESH p.
Proof. intros (_ & B & C) H. unfold ESH, HL. eapply ER_mono; [| |exact H]; unfold Mc; lia. Qed.
Lemma ESH_tree p p' : root p' = root p -> lineStart p' = lineStart p -> line p' = line p -> ESH p -> ESH p'.
Proof. unfold ESH, HL. intros -> -> ->. tauto. Qed.

(* appending entries to the (open) container *)
Lemma hasRefB_set_bik' x ik : hasRefB x = true -> hasRefB (set_bik x ik) = true.
Proof. rewrite hasRefB_set_bik. tauto. Qed.
Lemma Eb_add_entries M U c extra : isOpen c = true -> Eb M U c = true ->
  (forall u, In u extra -> bstart c <= istart u /\ iend u <= U) -> Eb M U (set_bik c (bik c ++ extra)) = true.
Proof.
  intros Ho H Hx. apply Eb_parts in H. destruct H as (A & B & C). unfold isOpen in Ho.
  apply Eb_mk; [destruct c; exact A| |destruct c; exact C].
  replace (bstart (set_bik c (bik c ++ extra))) with (bstart c) by (destruct c; reflexivity).
  replace (bend (set_bik c (bik c ++ extra))) with (bend c) by (destruct c; reflexivity).
  replace (bik (set_bik c (bik c ++ extra))) with (bik c ++ extra) by (destruct c; reflexivity).
  rewrite forallb_app, B. cbn [andb]. apply forallb_forall. intros u Hu. destruct (Hx u Hu) as [X1 X2].
  unfold eb. apply orb_true_iff. right. rewrite Ho. apply andb_true_iff. split; apply Z.leb_le; lia.
Qed.
Lemma E_add_entries M U p extra : GI p -> ER M U (root p) = true ->
  (forall u, In u extra -> M <= istart u /\ iend u <= U) ->
  ER M U (updAt (cdepth p) (fun c => set_bik c (bik c ++ extra)) (root p)) = true.
Proof.
  intros HI H Hx. destruct (GI_wf p HI) as (c & Ec & Ho).
  apply ER_updAt_at; [intros x; apply hasRefB_set_bik'|exact H| |].
  - intros E0. rewrite E0 in Ec. cbn [getAt] in Ec. inversion Ec; subst c.
    apply ER_parts in H. destruct H as (A & B & C). unfold isOpen in Ho.
    apply ER_mk; [destruct (root p); exact A| |destruct (root p); exact C].
    replace (bstart (set_bik (root p) (bik (root p) ++ extra))) with (bstart (root p)) by (destruct (root p); reflexivity).
    replace (bend (set_bik (root p) (bik (root p) ++ extra))) with (bend (root p)) by (destruct (root p); reflexivity).
    replace (bik (set_bik (root p) (bik (root p) ++ extra))) with (bik (root p) ++ extra) by (destruct (root p); reflexivity).
    rewrite forallb_app, B. cbn [andb]. apply forallb_forall. intros u Hu. destruct (Hx u Hu) as [X1 X2].
    unfold eb. apply orb_true_iff. right. rewrite Ho. apply andb_true_iff. split; apply Z.leb_le; lia.
  - intros x _ Ex HEx. rewrite Ec in Ex. inversion Ex; subst x. right. apply Eb_add_entries; [exact Ho|exact HEx|].
    intros u Hu. destruct (Hx u Hu) as [X1 X2]. apply Eb_parts in HEx. destruct HEx as (A & _). lia.
Qed.

Definition noKids (q : lp) : Prop := forall c, getAt (cdepth q) (root q) = Some c -> lastBlock c = None.

(* collectInline without a close (the info string of a code fence): the bounds are raised to the end of the line *)
Lemma ESH_collectInline p kind n : CUR p -> (state p =? stDescendTerminated) = false -> GI p -> ES p -> ESH (collectInline p kind n).
Proof.
  intros HC Hst HI H. destruct (collectInline_root_pos p kind n HC Hst) as (extra & Hroot & Hpos).
  destruct (env_src p _ (env_collectInline p kind n)) as (_ & El & Eln).
  pose proof (CUR_collectInline p kind n HC) as (_ & _ & C2). rewrite Eln in C2.
  unfold ESH, HL. rewrite Hroot, El, Eln.
  eapply (ER_mono (Mc p) (lineStart p + len (line p))); [destruct HC as (_ & B & C); unfold Mc; lia|lia|].
  apply E_add_entries; [exact HI| |].
  - eapply ER_mono; [apply Z.le_refl| |exact H]. pose proof (len_nonneg (line p)). lia.
  - intros u Hu. destruct (Hpos u Hu) as [P1 P2]. unfold Mc. lia.
Qed.

(* ---- collectInline, the end of the line, endBlock ---- *)
Lemma E_collect_end p kind n K : st_open p -> CUR p -> GI p -> ckind p K -> K <> documentKind ->
  ES p -> ES (endBlock (consumeLine (collectInline p kind n))).
Proof.
  intros Hs HC HG Hc HD HW.
  set (q := consumeLine (collectInline p kind n)).
  assert (Sq : state q = stLineConsumed) by (apply state_consumeLine_open, st_open_collectInline, Hs).
  destruct (cdepth_pos p K HG Hc HD) as (d & Hd).
  assert (Dq : cdepth q = S d).
  { unfold q, cdepth. rewrite (proj2 (same_consumeLine _)). fold (cdepth (collectInline p kind n)). rewrite cdepth_collectInline. exact Hd. }
  assert (HCq : CUR q) by (apply CUR_consumeLine, CUR_collectInline, HC).
  assert (Eq : lineStart q = lineStart p).
  { destruct (env_src (collectInline p kind n) q (env_consumeLine _)) as (_ & B & _).
    destruct (env_src p _ (env_collectInline p kind n)) as (_ & B' & _). congruence. }
  assert (Hge : li (collectInline p kind n) <= li q) by (apply li_consumeLine_ge, CUR_collectInline, HC).
  pose proof (li_collectInline_ge p kind n) as Hge0.
  unfold endBlock. rewrite Sq. change ((stLineConsumed =? stDescending) || (stLineConsumed =? stDescendTerminated)) with false. cbv iota.
  cbv zeta. change (stLineConsumed =? stOpening) with false. cbv iota. rewrite Dq.
  unfold ES, Mc. cbn [root lineStart li withCont closeLastChildAt withRoot setLP].
  fold (CLf (bheight (root q)) (source q) (lineStart q + li q)). rewrite Eq.
  eapply (ER_mono (lineStart p + li p) (lineStart p)); [lia|lia|].
  apply (collect_close_E p kind n d (lineStart p + li q) q); try assumption.
  - destruct Hs as [E|E]; rewrite E; reflexivity.
  - lia.
  - intros c Ec. destruct (GI_wf p HG) as (x & Ex & Ho). rewrite Hd in Ex. rewrite Ex in Ec. inversion Ec; subst x. exact Ho.
  - apply same_consumeLine.
Qed.

(* ---- the block starts ---- *)
Definition startE (f : lp -> lp) : Prop := forall p, st_open p -> CUR p -> GI p -> ES p ->
  ES (f p) \/ (state (f p) = stLineConsumed /\ ESH (f p) /\ noKids (f p)).

Ltac echain :=
  repeat match goal with
  | |- ES (consumeLine ?q) => apply ES_consumeLine; [cchainC|]
  | |- ES (advance _ _) => apply ES_advance
  | |- ES (consumeIndent _ _) => apply ES_consumeIndent
  | |- ES (endBlock ?q) => apply ES_endBlock; [cchainC|]
  | |- ES (openBlock ?q _) => apply ES_openBlock; [cchainC|]
  | |- ES (updCont _ (fun b => set_bn _ _)) => apply ES_updCont_ext; [intros ?x; destruct x; repeat split|intros ?x; destruct x; tauto|]
  | |- ES (updCont _ (fun b => set_bchar _ _)) => apply ES_updCont_ext; [intros ?x; destruct x; repeat split|intros ?x; destruct x; tauto|]
  | |- ES (updCont _ (fun b => set_bindent _ _)) => apply ES_updCont_ext; [intros ?x; destruct x; repeat split|intros ?x; destruct x; tauto|]
  | |- ES (updCont _ (fun b => set_bn (set_bchar _ _) _)) => apply ES_updCont_ext; [intros ?x; destruct x; repeat split|intros ?x; destruct x; tauto|]
  end.

Lemma E_startBlockQuote : startE startBlockQuote.
Proof.
  intros p Hs HC HI HW. left. unfold startBlockQuote. cbv zeta.
  destruct (_ <=? _); [assumption|]. destruct (negb _); [assumption|]. destruct (0 <? _); echain; exact HW.
Qed.
Lemma E_startThematic : startE startThematic.
Proof.
  intros p Hs HC HI HW. left. unfold startThematic. cbv zeta.
  destruct (_ <=? _); [assumption|]. destruct (_ <? 0); [assumption|]. echain; exact HW.
Qed.
Lemma E_startIndented : startE startIndented.
Proof. intros p Hs HC HI HW. left. unfold startIndented. destruct (_ || _ || _); [assumption|]. echain; exact HW. Qed.
Lemma E_startListItem : startE startListItem.
Proof.
  intros p Hs HC HI HW. left. unfold startListItem. cbv zeta. destruct (_ <=? _); [assumption|].
  destruct (parseListMarker _) as [[delim n] mend]. destruct (_ || _); [assumption|]. destruct (_ && _); [assumption|].
  match goal with |- context [endBlock ?X] => assert (H1 : ES (endBlock X) /\ CUR (endBlock X)) end.
  { split.
    - destruct (negb _ || negb _); echain; exact HW.
    - destruct (negb _ || negb _); cchainC. }
  match goal with |- context [endBlock ?X] => set (q := endBlock X) in * end. destruct H1 as [H1 C1].
  destruct (isRestBlank q); [echain; exact H1|].
  destruct (indent q <? 1); [echain; exact H1|]. destruct (4 <? indent q); echain; exact H1.
Qed.

Lemma ckind_collectInline p kind n K : ckind p K -> ckind (collectInline p kind n) K.
Proof.
  intros Hc. unfold collectInline. destruct (_ =? stDescendTerminated); [exact Hc|]. cbv zeta.
  set (p0 := if state p =? stOpening then withState p stOpenMatched else p).
  assert (C0 : ckind p0 K) by (eapply ckind_same; [apply same_opened|exact Hc]).
  apply ckind_updCont; [intros b; apply bkind_set_bik|]. eapply ckind_same; [apply same_advance|].
  destruct (0 <? indent p0); [|exact C0].
  apply ckind_updCont; [intros b; apply bkind_set_bik|]. eapply ckind_same; [apply same_advance|exact C0].
Qed.
Lemma noKids_leaf q K : GI q -> ckind q K -> (forall k, canContain K k = false) -> noKids q.
Proof.
  intros ((_ & Hcc & _) & _ & _) Hc HK c Ec. pose proof (cc_getAt _ _ _ Hcc Ec) as H. apply cc_parts in H. destruct H as [H _].
  rewrite (Hc c Ec) in H. unfold lastBlock. destruct (bkids c) as [|k r]; [reflexivity|].
  cbn [forallb] in H. rewrite HK in H. discriminate.
Qed.

Lemma E_startATX : startE startATX.
Proof.
  intros p Hs HC HI HW. left. unfold startATX. cbv zeta. destruct (_ <=? _); [assumption|].
  destruct (parseATXHeading _) as [[level cs] ce] eqn:Ep. destruct (level <? 1) eqn:El; [assumption|].
  apply Z.ltb_ge in El. pose proof (atx_level_le _ _ _ _ Ep) as Hl.
  set (p1 := consumeIndent p (indent p)).
  assert (Hs1 : st_open p1) by (apply st_open_consumeIndent, Hs).
  set (p4 := advance (updCont (openBlock p1 ATXHeadingKind) (fun b => set_bn b level)) cs).
  assert (HI4 : GI p4).
  { apply GI_advance, GI_openBlock_init; [exact Hs1|apply GI_consumeIndent, HI|discriminate|discriminate|].
    intros pos. split; [reflexivity|]. split; [reflexivity|]. split; [apply gb_newATX; lia|reflexivity]. }
  assert (Hc4 : ckind p4 ATXHeadingKind).
  { eapply ckind_same; [apply same_advance|]. apply ckind_updCont; [intros b; destruct b; reflexivity|]. apply ckind_openBlock, Hs1. }
  assert (HC4 : CUR p4) by (unfold p4, p1; cchainC).
  assert (HW4 : ES p4) by (unfold p4, p1; echain; exact HW).
  assert (Hs4 : st_open p4) by (apply st_open_advance, st_open_updCont, st_open_openBlock, Hs1).
  apply (E_collect_end p4 UnparsedKind (ce - cs) ATXHeadingKind Hs4 HC4 HI4 Hc4); [discriminate|exact HW4].
Qed.

Lemma E_startHTML : startE startHTML.
Proof.
  intros p Hs HC HI HW. left. unfold startHTML. cbv zeta. destruct (_ <=? _); [assumption|].
  destruct (negb _); [assumption|]. destruct (_ <? 0); [assumption|]. destruct (negb _ && _); [assumption|].
  match goal with |- context [endBlock (consumeLine (collectInline ?Q _ _))] => set (q := Q) end.
  assert (Hq : GI q).
  { unfold q. apply GI_openBlock_init; [exact Hs|exact HI|discriminate|discriminate|].
    intros pos. repeat split; reflexivity. }
  assert (HCq : CUR q) by (unfold q; cchainC).
  assert (HWq : ES q) by (unfold q; echain; exact HW).
  assert (Hsq : st_open q) by (apply st_open_updCont, st_open_openBlock, Hs).
  assert (Hcq : ckind q HTMLBlockKind) by (unfold q; apply ckind_updCont; [intros b; destruct b; reflexivity|]; apply ckind_openBlock, Hs).
  destruct (htmlEnd _ _); [|exact HWq].
  apply (E_collect_end q RawHTMLKind _ HTMLBlockKind Hsq HCq Hq Hcq); [discriminate|exact HWq].
Qed.

Lemma E_startFenced : startE startFenced.
Proof.
  intros p Hs HC HI HW. unfold startFenced. cbv zeta. destruct (_ <=? _); [left; assumption|].
  destruct (parseCodeFence _) as [[[fc fnn] is_] ie]. destruct (fnn =? 0); [left; assumption|].
  set (p1 := consumeIndent p (indent p)).
  assert (Hs1 : st_open p1) by (apply st_open_consumeIndent, Hs).
  match goal with |- context [consumeLine (if _ then collectInline (advance ?Q _) _ _ else _)] => set (q := Q) end.
  assert (Hq : GI q).
  { unfold q. apply GI_updCont_bindent.
    apply GI_openBlock_init; [exact Hs1|apply GI_consumeIndent, HI|discriminate|discriminate|].
    intros pos. repeat split; reflexivity. }
  assert (HCq : CUR q) by (unfold q, p1; cchainC).
  assert (HWq : ES q) by (unfold q, p1; echain; exact HW).
  assert (Hsq : st_open q) by (apply st_open_updCont, st_open_updCont, st_open_openBlock, Hs1).
  assert (Hcq : ckind q FencedCodeBlockKind).
  { unfold q. apply ckind_updCont; [intros b; destruct b; reflexivity|]. apply ckind_updCont; [intros b; destruct b; reflexivity|].
    apply ckind_openBlock, Hs1. }
  destruct (spanValid _); [|left; apply ES_consumeLine; assumption].
  right. set (q2 := collectInline (advance q is_) InfoStringKind (ie - is_)).
  assert (Hs2 : st_open q2) by (apply st_open_collectInline, st_open_advance, Hsq).
  split; [apply state_consumeLine_open, Hs2|]. split.
  - apply (ESH_tree q2); [apply same_consumeLine|apply (env_src _ _ (env_consumeLine q2))|apply (env_src _ _ (env_consumeLine q2))|].
    apply ESH_collectInline; [apply CUR_advance, HCq|pose proof (st_open_advance q is_ Hsq) as [E|E]; rewrite E; reflexivity|apply GI_advance, Hq|apply ES_advance, HWq].
  - apply (noKids_leaf _ FencedCodeBlockKind); [| |intros k; reflexivity].
    + apply GI_consumeLine. eapply (GI_collectInline _ _ _ FencedCodeBlockKind); [apply GI_advance, Hq| |reflexivity].
      eapply ckind_same; [apply same_advance|exact Hcq].
    + eapply ckind_same; [apply same_consumeLine|]. apply ckind_collectInline. eapply ckind_same; [apply same_advance|exact Hcq].
Qed.

(* the setext underline: the kind of the container changes (a paragraph is never a definition) *)
Lemma updAt_ext_at g g2 : forall d r, (forall x, getAt d r = Some x -> g x = g2 x) -> updAt d g r = updAt d g2 r.
Proof.
  induction d as [|d IH]; intros r H; [apply H; reflexivity|]. cbn [updAt]. destruct (lastBlock r) as [c|] eqn:El; [|reflexivity].
  rewrite (IH c); [reflexivity|]. intros x Hx. apply H. cbn [getAt]. rewrite El. exact Hx.
Qed.
Lemma E_startSetext : startE startSetext.
Proof.
  intros p Hs HC HI HW. left. unfold startSetext. cbv zeta.
  destruct (negb (containerKind p =? ParagraphKind)) eqn:Ek; [assumption|].
  destruct (_ <=? _); [assumption|].
  destruct (parseSetextHeadingUnderline (bytesAfterIndent p) =? 0) eqn:E0; [assumption|].
  destruct (negb (containerHasParagraphContent p)); [assumption|].
  apply negb_false_iff, Z.eqb_eq in Ek.
  set (level := parseSetextHeadingUnderline (bytesAfterIndent p)).
  set (g := fun b : block => set_bn (set_bkind b SetextHeadingKind) level).
  set (g2 := fun b : block => if bkind b =? ParagraphKind then g b else b).
  assert (Eg : updCont p g = updCont p g2).
  { unfold updCont. f_equal. apply updAt_ext_at. intros x Hx. unfold g2.
    rewrite (ckind_self p x Hx), Ek. reflexivity. }
  rewrite Eg. echain.
  apply ES_updCont_ext; [| |exact HW].
  - intros b. unfold g2, g. destruct (bkind b =? ParagraphKind); destruct b; repeat split.
  - intros b Hb. unfold g2, g. destruct (Z.eqb_spec (bkind b) ParagraphKind) as [E|N]; [|exact Hb].
    rewrite hasRefB_eq in *. rewrite E in Hb. cbn [orb] in Hb. change (ParagraphKind =? LinkReferenceDefinitionKind) with false in Hb. cbn [orb] in Hb.
    replace (bkids (set_bn (set_bkind b SetextHeadingKind) level)) with (bkids b) by (destruct b; reflexivity). rewrite Hb. apply orb_true_r.
Qed.

Lemma blockStarts_E : Forall startE blockStarts.
Proof.
  unfold blockStarts.
  repeat (apply Forall_cons; [first [exact E_startBlockQuote|exact E_startATX|exact E_startFenced|exact E_startHTML|exact E_startSetext|exact E_startThematic|exact E_startListItem|exact E_startIndented]|]).
  apply Forall_nil.
Qed.
