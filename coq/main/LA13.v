From Coq Require Import List ZArith Lia Bool.
Import ListNotations.
Require Import Base Tree Rdr Link Collect Html Recog LP Rules Starts Driver Rec16 Rec17 Rec18 L2Kind L2CC L2BndS BSDef BSRdr BSTree BSShift
  LADef LA1 LA2 LARec LA6 LA11 LA12 LAPad.
Open Scope Z_scope.

(* ===== the stream layer: lines of the buffer, root blocks, pending blocks (mirrors BlockSpans.v) ===== *)

(* ---- buffer arithmetic ---- *)
Lemma at_upto' (l : bytes) n q : 0 <= q < n -> n <= len l -> at_ (upto l n) q = at_ l q.
Proof. intros. apply at_upto; assumption. Qed.
Lemma agree_upto buf a b : 0 <= a <= b -> b <= len buf -> agree (upto buf a) (upto buf b) a.
Proof. intros H1 H2 q Hq. rewrite !at_upto' by lia. reflexivity. Qed.
Lemma from_upto (buf : bytes) n b : 0 <= n <= b -> b <= len buf -> from_ (upto buf b) n = upto (from_ buf n) (b - n).
Proof.
  intros H1 H2. unfold from_, upto. replace (Z.to_nat (b - n)) with (Z.to_nat b - Z.to_nat n)%nat by lia.
  rewrite skipn_firstn_comm. reflexivity.
Qed.
Lemma upto_upto (buf : bytes) a b : 0 <= a <= b -> upto (upto buf b) a = upto buf a.
Proof. intros H. unfold upto. rewrite firstn_firstn. f_equal. lia. Qed.

(* ---- a line read from the buffer holds one line ending, at its end ---- *)
Lemma findEol_first : forall l i j, 0 <= i -> i <= j -> (findEol l i < 0 \/ j < findEol l i) -> j < i + len l -> isEOLz (at_ l (j - i)) = false.
Proof.
  induction l as [|b r IH]; intros i j Hi Hj He Hl; [unfold len in Hl; cbn in Hl; lia|]. cbn [findEol] in He. rewrite len_cons in Hl.
  destruct ((b =? 10) || (b =? 13)) eqn:Eb; [lia|].
  destruct (Z.eq_dec j i) as [Eji|N].
  { rewrite Eji. replace (i - i) with 0 by lia. rewrite at_cons0. unfold isEOLz. exact Eb. }
  replace (j - i) with ((j - (i + 1)) + 1) by lia. rewrite at_consS by lia. apply IH; lia.
Qed.
Lemma eolEnd_line buf ls : 0 <= ls <= len buf -> eolEnd (from_ (upto buf (lineEnd buf ls)) ls).
Proof.
  intros Hls. destruct (lineEnd_spec buf ls Hls) as [A B]. set (e := lineEnd buf ls) in *.
  destruct (line_of buf ls e ltac:(lia) ltac:(lia)) as [Ll La]. intros j Hj Ej. rewrite Ll in *. rewrite La in Ej by lia.
  assert (Hne : forall k, ls <= k -> (findEol (from_ buf ls) ls < 0 \/ k < findEol (from_ buf ls) ls) -> k < len buf -> isEOLz (at_ buf k) = false).
  { intros k Hk He Hl. pose proof (findEol_first (from_ buf ls) ls k ltac:(lia) Hk He ltac:(rewrite len_from by lia; lia)) as Hf.
    rewrite at_from in Hf by lia. replace (ls + (k - ls)) with k in Hf by lia. exact Hf. }
  unfold e, lineEnd in *. cbv zeta in *. set (f := findEol (from_ buf ls) ls) in *.
  destruct (Z.ltb_spec f 0) as [L|L].
  - rewrite (Hne (ls + j) ltac:(lia) ltac:(left; exact L) ltac:(lia)) in Ej. discriminate.
  - destruct (findEol_spec (from_ buf ls) ls L ltac:(lia)) as [F1 F2]. rewrite len_from in F1 by lia. fold f in F1, F2.
    destruct (Z.eqb_spec (at_ buf f) 10) as [E10|N10].
    + left. destruct (Z.lt_ge_cases (ls + j) f) as [Lt|Ge]; [rewrite (Hne (ls + j) ltac:(lia) ltac:(right; exact Lt) ltac:(lia)) in Ej; discriminate|lia].
    + destruct (Z.ltb_spec (f + 1) (len buf)) as [L2|L2].
      * destruct (Z.eqb_spec (at_ buf (f + 1)) 10) as [E2|N2].
        -- destruct (Z.lt_ge_cases (ls + j) f) as [Lt|Ge]; [rewrite (Hne (ls + j) ltac:(lia) ltac:(right; exact Lt) ltac:(lia)) in Ej; discriminate|].
           destruct (Z.eq_dec (ls + j) f) as [Ef|Nf]; [right|left; lia].
           split; [lia|]. rewrite !La by lia. rewrite Ef. replace (ls + (f + 2 - ls - 1)) with (f + 1) by lia. split; [|exact E2].
           rewrite at_from in F2 by lia. replace (ls + (f - ls)) with f in F2 by lia. unfold isEOLb in F2. apply orb_true_iff in F2.
           destruct F2 as [F2|F2]; apply Z.eqb_eq in F2; [exfalso; apply N10; exact F2|exact F2].
        -- left. destruct (Z.lt_ge_cases (ls + j) f) as [Lt|Ge]; [rewrite (Hne (ls + j) ltac:(lia) ltac:(right; exact Lt) ltac:(lia)) in Ej; discriminate|lia].
      * left. destruct (Z.lt_ge_cases (ls + j) f) as [Lt|Ge]; [rewrite (Hne (ls + j) ltac:(lia) ltac:(right; exact Lt) ltac:(lia)) in Ej; discriminate|lia].
Qed.

Lemma bnd0_upto buf b e : 0 <= e <= b -> b <= len buf -> bnd0 buf e -> (e = len buf -> b = len buf) -> bnd0 (upto buf b) e.
Proof.
  intros He Hb [E|[E|E]] Hx; [left; exact E|right; left; rewrite len_upto by lia; specialize (Hx E); lia|].
  destruct (Z.eq_dec e 0) as [E0|N0]; [left; exact E0|]. right; right. rewrite at_upto' by lia. exact E.
Qed.
Lemma bnd0_upto_back buf b e : 0 <= e <= b -> b <= len buf -> bnd0 (upto buf b) e -> bnd0 buf b -> bnd0 buf e.
Proof.
  intros He Hb [E|[E|E]] Hbb; [left; exact E|rewrite len_upto in E by lia; subst e; exact Hbb|].
  destruct (Z.eq_dec e 0) as [E0|N0]; [left; exact E0|]. right; right. rewrite at_upto' in E by lia. exact E.
Qed.
(* the cut positions of one buffer prefix are cut positions of a longer prefix *)
Lemma bnd0_grow buf b b' e : 0 <= e <= b -> b <= b' -> b' <= len buf -> bnd0 buf b -> bnd0 (upto buf b) e -> bnd0 (upto buf b') e.
Proof.
  intros He Hb Hb' Hbb H. pose proof (bnd0_upto_back buf b e He ltac:(lia) H Hbb) as Hg.
  destruct Hg as [E|[E|E]]; [left; exact E|right; left; rewrite len_upto by lia; lia|].
  destruct (Z.eq_dec e 0) as [E0|N0]; [left; exact E0|]. right; right. rewrite at_upto' by lia. exact E.
Qed.

Definition lbd (buf : bytes) (e : Z) : Prop := e = 0 \/ e = len buf \/ isEOLz (at_ buf (e - 1)) = true.
Lemma lbd_bnd0 buf e : lbd buf e -> bnd0 buf e.
Proof.
  intros [E|[E|E]]; [left; exact E|right; left; exact E|right; right]. unfold isEOLz in E. apply orb_true_iff in E.
  destruct E as [E|E]; apply Z.eqb_eq in E; rewrite E; discriminate.
Qed.
Lemma lbd_shift buf n e : 0 <= n <= e -> n <= len buf -> lbd buf e -> lbd (from_ buf n) (e - n).
Proof.
  intros Hn Hl [E|[E|E]].
  - left. lia.
  - right; left. rewrite len_from by lia. lia.
  - destruct (Z.eq_dec e n) as [->|N]; [left; lia|]. right; right. replace (e - n - 1) with ((e - 1) - n) by lia. rewrite at_from' by lia. exact E.
Qed.
Lemma growOK_upto buf b b' : 0 <= b <= b' -> b' <= len buf -> lbd buf b -> (b = len buf -> b' = b) -> growOK (upto buf b) (upto buf b') b.
Proof.
  intros Hb Hb' Hl Hx e He Ee. rewrite len_upto in Ee by lia. subst e. rewrite len_upto by lia.
  destruct Hl as [E|[E|E]]; [lia|left; specialize (Hx E); lia|].
  destruct (Z.eq_dec b' b) as [->|N]; [left; reflexivity|right]. rewrite at_upto' by lia. exact E.
Qed.

Section Stream.
  (* sources on which the link-definition extraction is known to keep the account; closed under taking pieces of the buffer *)
  Variable Gd : bytes -> Prop.
  Hypothesis Gd_ocp : forall src, Gd src -> OcpLoopSpec src.
  Hypothesis Gd_upto : forall src n, Gd src -> Gd (upto src n).
  Hypothesis Gd_from : forall src n, Gd src -> Gd (from_ src n).

  (* what is established of a root block, in terms of the bytes of the buffer it was cut from *)
  Definition rootLA (r : rootB) : Prop :=
    exists raw, Gd raw /\ PadF raw /\ rb_src r = fillNulls raw /\ bend (rb_blk r) = len raw /\ cc (rb_blk r) = true /\
      la raw (len raw) (rb_blk r) /\ NT raw 0 (bstart (rb_blk r)).
  Definition SL (s : bpst) : Prop :=
    0 <= bi s <= len (buf s) /\ Gd (buf s) /\ ccF (pending s) = true /\ la (upto (buf s) (bi s)) (bi s) (docRoot (pending s)) /\ bnd0 (buf s) (bi s) /\ PadF (buf s) /\ lbd (buf s) (bi s).
  Definition okL (x : nb) : Prop := match x with NBBlock r s' => rootLA r /\ SL s' | _ => True end.

  Lemma docRoot_parts src M l : la src M (docRoot l) <-> (0 <= M /\ tchain src true 0 M l /\ allQ (la src M) l).
  Proof.
    unfold docRoot. cbn [la]. change (-1 <? 0) with true. change (isLeafK documentKind) with false.
    change (documentKind =? ListMarkerKind) with false. change (documentKind =? LinkReferenceDefinitionKind) with false. cbv iota.
    split; [intros (A & _ & _ & (B & _) & C); split; [lia|split; assumption]|intros (A & B & C)].
    split; [lia|]. split; [left; lia|]. split; [intros _; discriminate|]. split; [split; [assumption|reflexivity]|assumption].
  Qed.

  Lemma SL_makeRoot s children r s' : 0 <= bi s <= len (buf s) -> Gd (buf s) -> ccF children = true ->
    la (upto (buf s) (bi s)) (bi s) (docRoot children) -> bnd0 (buf s) (bi s) -> PadF (buf s) -> lbd (buf s) (bi s) -> makeRoot children s = Some (r, s') -> rootLA r /\ SL s'.
  Proof.
    intros Hbi Hg Hcc Hla Hbb Hpf Hlb Hm. destruct (cc_makeRoot _ _ _ _ Hcc Hm) as [[Cb _] Hcc'].
    unfold makeRoot in Hm. destruct children as [|b rest]; [discriminate|].
    destruct (isOpen b) eqn:Eo; [discriminate|]. inversion Hm; subst. clear Hm. cbn [rb_blk rb_src pending buf bi] in *.
    unfold isOpen in Eo. apply Z.ltb_ge in Eo.
    apply docRoot_parts in Hla. destruct Hla as (H0 & Hch & Ha). cbn [tchain allQ] in Hch, Ha. destruct Hch as (C1 & C2 & C3). destruct Ha as [Lb Lr].
    destruct (Z.ltb_spec (bend b) 0); [lia|]. destruct C3 as [C3 C4].
    pose proof (la_bounds _ _ _ Lb) as Bb. set (n := bend b) in *. set (src := upto (buf s) (bi s)) in *.
    assert (Hlu : len (upto (buf s) n) = n) by (apply len_upto; lia).
    assert (Hbn : bnd0 (buf s) n).
    { pose proof Lb as Lb'. rewrite la_eq in Lb'. destruct Lb' as (_ & [Q|[_ Q]] & _); [fold n in Q; lia|]. fold n in Q.
      apply (bnd0_upto_back (buf s) (bi s) n); [lia|lia|exact Q|exact Hbb]. }
    destruct (PadF_cut (buf s) n Hpf ltac:(lia) Hbn) as [Hp1 Hp2].
    split.
    - exists (upto (buf s) n). split; [apply Gd_upto, Hg|]. split; [exact Hp1|]. split; [reflexivity|]. split; [symmetry; exact Hlu|]. split; [exact Cb|]. rewrite Hlu. split.
      + apply (la_agree src (upto (buf s) n) n).
        * intros q Hq. unfold src. rewrite !at_upto' by lia. reflexivity.
        * intros e0 He0 Hb0. unfold src in Hb0. pose proof (bnd0_upto_back (buf s) (bi s) e0 ltac:(lia) ltac:(lia) Hb0 Hbb) as Hg0.
          apply bnd0_upto; [lia|lia|exact Hg0|]. intros El. rewrite El in He0. lia.
        * intros e0 He0 Ee0. unfold src in Ee0. rewrite len_upto in Ee0 by lia. left. rewrite len_upto by lia. lia.
        * apply (la_closed_any src (bi s) n b); [exact Eo|lia|exact Cb|exact Lb].
      + intros q Hq. cbn [rb_blk] in Hq. rewrite at_upto' by lia. rewrite <- (at_upto' (buf s) (bi s)) by lia. apply C2. exact Hq.
    - unfold SL. cbn [buf bi pending]. split; [rewrite len_from by lia; lia|]. split; [apply Gd_from, Hg|]. split; [exact Hcc'|].
      split; [|split; [apply bnd0_shift; [lia|lia|exact Hbb]|split; [exact Hp2|apply lbd_shift; [lia|lia|exact Hlb]]]].
      rewrite <- from_upto by lia. fold src. apply docRoot_parts. split; [lia|]. split.
      + replace 0 with (n - n) at 1 by lia. apply tchain_shift; [lia|lia|exact C4].
      + assert (Hst : forall x, In x rest -> n <= bstart x) by (intros x Hx; apply (tchain_starts _ _ _ _ _ x C4 Hx)).
        assert (Hcr : ccL rest = true).
        { unfold ccF, ccL in Hcc. cbn [forallb] in Hcc. apply andb_true_iff in Hcc. destruct Hcc as [_ Hcc]. apply andb_true_iff in Hcc. tauto. }
        clear C4 Hcc' Hcc. unfold ccL in Hcr. induction rest as [|x r IH]; [exact I|]. destruct Lr as [L1 L2]. cbn [forallb] in Hcr. apply andb_true_iff in Hcr.
        cbn [map allQ]. split; [apply la_shift; [unfold src; rewrite len_upto by lia; lia|tauto|exact L1|apply Hst; left; reflexivity]|].
        apply IH; [exact L2|intros y Hy; apply Hst; right; exact Hy|tauto].
  Qed.

  Lemma SL_lineLoop : forall fuel st children ls s, 0 <= ls <= len (buf s) -> bi s = lineEnd (buf s) ls -> Gd (buf s) -> ccF children = true ->
    la (upto (buf s) (bi s)) ls (docRoot children) -> bnd0 (buf s) ls -> PadF (buf s) ->
    (st = stDescendTerminated -> exists c1, getAt 1 (docRoot children) = Some c1 /\ bend c1 < 0 /\ hasMatch (bkind c1) = true) ->
    okL (lineLoop fuel st children ls s).
  Proof.
    induction fuel as [|f IH]; intros st children ls s Hls Hbi Hg Hcc Hla Hb0 Hpf Hst; [exact I|]. cbn [lineLoop].
    destruct (lineEnd_spec (buf s) ls Hls) as [A B]. rewrite <- Hbi in A, B.
    set (src := upto (buf s) (bi s)) in *.
    assert (Hlen : len src = bi s) by (apply len_upto; lia).
    assert (Hlbi : lbd (buf s) (bi s)).
    { destruct (Z.eq_dec (bi s) (len (buf s))) as [E|N]; [right; left; exact E|]. destruct (B ltac:(lia)) as [B1 B2]. right; right. exact B2. }
    pose proof (lbd_bnd0 _ _ Hlbi) as Hbbi.
    pose proof (la_processLine st children ls src ltac:(lia) (Gd_ocp _ (Gd_upto _ _ Hg))
                  ltac:(unfold src; apply bnd0_upto; [lia|lia|exact Hb0|intros El; lia])
                  ltac:(unfold src; rewrite Hbi; apply eolEnd_line, Hls) Hcc Hla Hst) as HP.
    pose proof (cc_processLine st children ls src Hcc) as H3. cbv zeta in HP.
    assert (Hll : ls + len (from_ src ls) = bi s) by (rewrite len_from by lia; lia). rewrite Hll in HP.
    destruct (processLine st children ls src) as [[children' st'] pn]. cbn [fst snd] in HP, H3. destruct HP as [HP1 HP2].
    destruct (negb (pn =? 0)); [exact I|].
    destruct (makeRoot children' s) as [[r s']|] eqn:Em.
    - cbn [okL]. eapply SL_makeRoot; [| | | | | | |exact Em]; try assumption. lia.
    - assert (Hls' : 0 <= bi s <= len (buf s)) by lia. destruct (lineEnd_spec (buf s) (bi s) Hls') as [A' _].
      apply (IH st' children' (bi s) _); cbn [buf bi]; try assumption; try reflexivity.
      + apply (la_agree src); [apply agree_upto; lia| | |exact HP1]; [intros e0 He0 Hbe0; unfold src in Hbe0; apply (bnd0_grow (buf s) (bi s)); try lia; assumption|].
        apply growOK_upto; [lia|lia|exact Hlbi|]. intros El. destruct (lineEnd_spec (buf s) (bi s) Hls') as [A2 _]. lia.
      + intros Est. destruct (HP2 Est) as (c1 & E1 & E2). exists c1. split; [exact E1|].
        unfold makeRoot in Em. destruct children' as [|b rest]; [cbn in E1; discriminate|].
        destruct (isOpen b) eqn:Eo; [|discriminate]. unfold isOpen in Eo. apply Z.ltb_lt in Eo.
        apply docRoot_parts in HP1. destruct HP1 as (_ & Hch & _). cbn [tchain] in Hch. destruct Hch as (_ & _ & Hch).
        destruct (Z.ltb_spec (bend b) 0); [|lia]. destruct Hch as [_ ->]. cbn in E1. inversion E1; subst c1. split; [exact Eo|apply E2, Eo].
  Qed.

  Lemma SL_skipLoop : forall fuel s, bi s = 0 -> Gd (buf s) -> PadF (buf s) -> okL (skipLoop fuel s).
  Proof.
    induction fuel as [|f IH]; intros s Hb Hg Hpf; [exact I|]. cbn [skipLoop]. cbv zeta.
    pose proof (len_nonneg (buf s)) as Hl.
    destruct (negb _); [exact I|]. destruct (isBlankLine _).
    { apply IH; [reflexivity|apply Gd_from, Hg|]. cbn [buf]. destruct (lineEnd_spec (buf s) (bi s) ltac:(lia)) as [A B].
      apply (PadF_cut (buf s) _ Hpf); [lia|]. destruct (Z.eq_dec (lineEnd (buf s) (bi s)) (len (buf s))) as [E|N]; [right; left; exact E|].
      destruct (B ltac:(lia)) as [B1 B2]. right; right. unfold isEOLb in B2. apply orb_true_iff in B2. destruct B2 as [B2|B2]; apply Z.eqb_eq in B2; rewrite B2; discriminate. }
    apply (SL_lineLoop f 0 [] 0 _); cbn [buf bi]; [lia|rewrite Hb; reflexivity|exact Hg|reflexivity| |left; reflexivity|exact Hpf|discriminate].
    apply docRoot_parts. split; [lia|]. split; [cbn [tchain]; split; [lia|apply NT_empty; lia]|exact I].
  Qed.

  Lemma SL_nextBlock fuel s : SL s -> okL (nextBlock fuel s).
  Proof.
    intros (Hb & Hg & Hcc & Hla & Hbb & Hpf & Hlb). unfold nextBlock. destruct (makeRoot (pending s) s) as [[r s']|] eqn:Em.
    - cbn [okL]. eapply SL_makeRoot; [| | | | | | |exact Em]; assumption.
    - destruct (pending s) as [|b0 rest] eqn:Ep; [apply SL_skipLoop; [reflexivity|apply Gd_from, Hg|apply (PadF_cut (buf s) (bi s) Hpf Hb Hbb)]|].
      destruct (lineEnd_spec (buf s) (bi s) Hb) as [A' _].
      apply (SL_lineLoop fuel 0 (b0 :: rest) (bi s) _); cbn [buf bi]; try assumption; try reflexivity; [|discriminate].
      apply (la_agree (upto (buf s) (bi s))); [apply agree_upto; lia| | |exact Hla]; [intros e0 He0 Hbe0; apply (bnd0_grow (buf s) (bi s)); try lia; assumption|].
      apply growOK_upto; [lia|lia|exact Hlb|]. intros El. lia.
  Qed.

  Lemma SL_allBlocks : forall fuel s acc, SL s -> Forall rootLA acc -> Forall rootLA (fst (allBlocks fuel s acc)).
  Proof.
    induction fuel as [|f IH]; intros s acc HS Ha; [exact Ha|]. cbn [allBlocks].
    pose proof (SL_nextBlock (3 + length (buf s)) s HS) as Hn.
    destruct (nextBlock _ s) as [r s'| | |]; try exact Ha.
    destruct Hn as [Hr Hs']. apply IH; [exact Hs'|]. apply Forall_app. split; [exact Ha|]. constructor; [exact Hr|constructor].
  Qed.

  Theorem parseBlocks_rootLA input : Gd (pad input) -> Forall rootLA (fst (parseBlocks input)).
  Proof.
    intros Hg. unfold parseBlocks. apply SL_allBlocks; [|constructor].
    split; [cbn [buf bi]; pose proof (len_nonneg (pad input)); lia|]. split; [exact Hg|]. split; [reflexivity|].
    split; [|split; [left; reflexivity|split; [exists input; reflexivity|left; reflexivity]]]. cbn [buf bi pending]. apply docRoot_parts. split; [lia|]. split; [cbn [tchain]; split; [lia|apply NT_empty; lia]|exact I].
  Qed.
End Stream.
