(* QRender4.v -- T64 (renderer): the document level.  The root blocks of D tile D (Tiling.C01_tiles_prefix), so the source of a root is
   a slice of D; the quoted document is one block quote whose children are the mapped roots. *)
From Coq Require Import List ZArith Lia Bool.
Import ListNotations.
Require Import Base Tables Utf8 Tree Recog Inl3b LP Driver Inl3e Render RenderWalkProof Props TilBase Tiling RefSliceFold QuoteSimDefs QuoteSimDrv1 QCutsDef QIRdrBase QInlDefs QFullDefs
  QRender1 QRenderDefs QRender2 QRender3.
Open Scope Z_scope.

(* ---- slices ---- *)
Lemma sub_sub {A} (X : list A) a b s e : 0 <= a -> 0 <= s -> e <= b - a -> sub (sub X a b) s e = sub X (a + s) (a + e).
Proof.
  intros Ha Hs He. unfold sub at 2. rewrite sub_upto by lia. unfold sub, from_.
  replace (Z.to_nat (a + s)) with (Z.to_nat s + Z.to_nat a)%nat by lia. rewrite skipn_add. f_equal. lia.
Qed.
Lemma in_skipn {A} : forall n (l : list A) x, In x (skipn n l) -> In x l.
Proof. induction n as [|n IH]; intros l x H; [exact H|]. destruct l as [|y l]; [destruct H|]. right. apply IH, H. Qed.
Lemma in_sub {A} (X : list A) a b x : In x (sub X a b) -> In x X.
Proof. unfold sub, upto, from_. intros H. apply in_firstn in H. apply in_skipn in H. exact H. Qed.

Definition rootF (D : bytes) (r : rootB) : Prop :=
  0 <= rb_start r /\ forall s e, 0 <= s -> s <= e -> e <= len (rb_src r) ->
    e + rb_start r <= len D /\ sub D (s + rb_start r) (e + rb_start r) = sub (rb_src r) s e.

Lemma tilesP_rootF D : forallb (fun c => negb (c =? 0)) D = true -> forall rs p, 0 <= p -> tilesP D p rs = true -> Forall (rootF D) rs.
Proof.
  intros Hz. induction rs as [|r rs IH]; intros p Hp H; [constructor|]. cbn [tilesP] in H. apply andb_true_iff in H. destruct H as [Hr H].
  unfold rootOK in Hr. cbv zeta in Hr. rewrite Hz in Hr. rewrite !andb_true_iff in Hr.
  destruct Hr as ((((((A1 & A2) & A3) & _) & A5) & _) & A7). apply Z.leb_le in A1, A2, A3. apply Z.eqb_eq in A7.
  apply RefSliceFold.bytes_eqb_eq in A5. rewrite replaceNul_eq, replaceNul_noNul in A5.
  2:{ apply forallb_forall. intros x Hx. rewrite forallb_forall in Hz. apply Hz. apply (in_sub _ _ _ _ Hx). }
  constructor; [|apply (IH (rb_end r)); [lia|exact H]].
  split; [lia|]. intros s e Hs Hse He. rewrite <- A7 in He. split; [lia|]. rewrite A5. rewrite sub_sub by lia. f_equal; lia.
Qed.

Lemma parseFull_rootF D : tabFree D -> Forall (rootF D) (fst (parseFull D)).
Proof.
  intros HT. assert (Hz : forallb (fun c => negb (c =? 0)) D = true).
  { apply forallb_forall. intros x Hx. unfold tabFree in HT. rewrite Forall_forall in HT. destruct (HT x Hx) as (_ & _ & N). apply negb_true_iff, Z.eqb_neq, N. }
  pose proof (tilesP_rootF D Hz _ 0 ltac:(lia) (C01_tiles_prefix D)) as H.
  unfold parseFull. destruct (parseBlocks D) as [roots code]. cbn [fst] in *. rewrite Forall_forall in *. intros r Hr.
  apply in_map_iff in Hr. destruct Hr as (r0 & <- & Hr0). exact (H r0 Hr0).
Qed.

(* ---- heights and the lastLineBlank flag ---- *)
Lemma bheight_mpB D o : forall n b, (bheight b <= n)%nat -> bheight (mpB D o b) = bheight b.
Proof.
  induction n as [|n IH]; intros b Hb; [destruct b; cbn [bheight] in Hb; lia|].
  destruct b as [k s e bk ik a nn ch l lb]. rewrite mpB_eq. cbn [bheight]. f_equal.
  assert (Hk : forall x, In x bk -> (bheight x <= n)%nat).
  { intros x Hx. pose proof (bheight_kid (Blk k s e bk ik a nn ch l lb) x Hx). lia. }
  clear Hb. induction bk as [|x bk IHbk]; [reflexivity|]. cbn [map fold_right].
  rewrite (IH x (Hk x (or_introl eq_refl))), IHbk; [reflexivity|]. intros y Hy. apply Hk. right. exact Hy.
Qed.
Lemma bheight_blast b v : bheight (set_blast b v) = bheight b. Proof. destruct b; reflexivity. Qed.
Lemma renderB_blast f c refs src pt b v : renderB f c refs src pt (set_blast b v) = renderB f c refs src pt b.
Proof. destruct f; [reflexivity|]. destruct b. reflexivity. Qed.
Lemma extractDefs_blast f src b v acc : extractDefs f src (set_blast b v) acc = extractDefs f src b acc.
Proof. destruct f; [reflexivity|]. destruct b. reflexivity. Qed.
Lemma renderB_bq f c refs src pt s e kids a nn ch l lb :
  renderB (S f) c refs src pt (Blk BlockQuoteKind s e kids [] a nn ch l lb) =
  openTag c s_blockquote ++ flat_map (renderB f c refs src false) kids ++ closeTag c s_blockquote.
Proof. destruct kids; reflexivity. Qed.
Lemma extractDefs_bq f src s e kids ik a nn ch l lb acc :
  extractDefs (S f) src (Blk BlockQuoteKind s e kids ik a nn ch l lb) acc = fold_left (fun a0 ch0 => extractDefs f src ch0 a0) kids acc.
Proof. reflexivity. Qed.

Definition kidOf (D : bytes) (r : rootB) (flag : bool) : block :=
  let b := qB3 D (shiftB (rb_start r) (rb_blk r)) in if flag then set_blast b true else b.
Lemma quoteKids3_cons D r rest : exists flag, quoteKids3 D (r :: rest) = kidOf D r flag :: quoteKids3 D rest.
Proof. cbn [quoteKids3]. cbv zeta. eexists. unfold kidOf. reflexivity. Qed.
Lemma bheight_kidOf D r flag : bheight (kidOf D r flag) = bheight (rb_blk r).
Proof.
  unfold kidOf. cbv zeta. assert (E : bheight (qB3 D (shiftB (rb_start r) (rb_blk r))) = bheight (rb_blk r)) by (apply (bheight_mpB D (rb_start r) (bheight (rb_blk r))), le_n).
  destruct flag; [rewrite bheight_blast|]; exact E.
Qed.
Lemma quoteKids3_heights D : forall roots r, In r roots -> exists kid, In kid (quoteKids3 D roots) /\ bheight kid = bheight (rb_blk r).
Proof.
  induction roots as [|r0 rest IH]; intros r Hr; [destruct Hr|]. destruct (quoteKids3_cons D r0 rest) as (flag & E). rewrite E.
  destruct Hr as [->|Hr].
  - exists (kidOf D r flag). split; [left; reflexivity|apply bheight_kidOf].
  - destruct (IH r Hr) as (kid & Hk & Eh). exists kid. split; [right; exact Hk|exact Eh].
Qed.

Section Doc.
  Variables (D : bytes) (c : cfg).
  Hypothesis c_safe : ignoreRaw c = true.
  Notation Q := (quote D).

  Lemma kid_render refs H r flag : rootF D r -> okB (rb_src r) (rb_blk r) = true -> (bheight (rb_blk r) <= H)%nat ->
    renderB H c refs Q false (kidOf D r flag) = renderB (bheight (rb_blk r)) c refs (rb_src r) false (rb_blk r).
  Proof.
    intros [Ho Hs] Hok Hh. unfold kidOf. cbv zeta.
    assert (E : renderB H c refs Q false (qB3 D (shiftB (rb_start r) (rb_blk r))) = renderB (bheight (rb_blk r)) c refs (rb_src r) false (rb_blk r)).
    { apply (renderB_mp D (rb_src r) (rb_start r) Ho Hs c refs c_safe); [exact Hok|apply le_n|exact Hh]. }
    destruct flag; [rewrite renderB_blast|]; exact E.
  Qed.
  Lemma kid_defs H r flag acc : rootF D r -> okB (rb_src r) (rb_blk r) = true -> (bheight (rb_blk r) <= H)%nat ->
    extractDefs H Q (kidOf D r flag) acc = extractDefs (bheight (rb_blk r)) (rb_src r) (rb_blk r) acc.
  Proof.
    intros [Ho Hs] Hok Hh. unfold kidOf. cbv zeta.
    assert (E : extractDefs H Q (qB3 D (shiftB (rb_start r) (rb_blk r))) acc = extractDefs (bheight (rb_blk r)) (rb_src r) (rb_blk r) acc).
    { apply (extractDefs_mp D (rb_src r) (rb_start r) Ho Hs); [exact Hok|apply le_n|exact Hh]. }
    destruct flag; [rewrite extractDefs_blast|]; exact E.
  Qed.

  Lemma kids_render refs H : forall roots, Forall (rootF D) roots -> forallb (fun r => okB (rb_src r) (rb_blk r)) roots = true ->
    (forall r, In r roots -> (bheight (rb_blk r) <= H)%nat) ->
    flat_map (renderB H c refs Q false) (quoteKids3 D roots) =
    concat (map (fun r => renderB (bheight (rb_blk r)) c refs (rb_src r) false (rb_blk r)) roots).
  Proof.
    induction roots as [|r rest IH]; intros HF Hok Hh; [reflexivity|]. destruct (quoteKids3_cons D r rest) as (flag & E). rewrite E.
    inversion HF as [|? ? Fr Frest]; subst. cbn [forallb] in Hok. apply andb_true_iff in Hok. destruct Hok as [Or Orest].
    cbn [flat_map map concat]. rewrite (kid_render refs H r flag Fr Or (Hh r (or_introl eq_refl))). f_equal.
    apply IH; [exact Frest|exact Orest|]. intros x Hx. apply Hh. right. exact Hx.
  Qed.
  Lemma kids_defs H : forall roots acc, Forall (rootF D) roots -> forallb (fun r => okB (rb_src r) (rb_blk r)) roots = true ->
    (forall r, In r roots -> (bheight (rb_blk r) <= H)%nat) ->
    fold_left (fun a ch => extractDefs H Q ch a) (quoteKids3 D roots) acc =
    fold_left (fun a r => extractDefs (bheight (rb_blk r)) (rb_src r) (rb_blk r) a) roots acc.
  Proof.
    induction roots as [|r rest IH]; intros acc HF Hok Hh; [reflexivity|]. destruct (quoteKids3_cons D r rest) as (flag & E). rewrite E.
    inversion HF as [|? ? Fr Frest]; subst. cbn [forallb] in Hok. apply andb_true_iff in Hok. destruct Hok as [Or Orest].
    cbn [fold_left]. rewrite (kid_defs H r flag acc Fr Or (Hh r (or_introl eq_refl))).
    apply IH; [exact Frest|exact Orest|]. intros x Hx. apply Hh. right. exact Hx.
  Qed.

  Theorem renderDoc_quote_of_ok : tabFree D -> renderOK D = true ->
    (exists lb, parseFull (quote D) = ([quoteRoot D lb (quoteKids3 D (fst (parseFull D)))], 0)) ->
    renderDoc c (quote D) = openTag c s_blockquote ++ concat (renderPieces c D) ++ closeTag c s_blockquote.
  Proof.
    intros HT HOK [lb Hq]. pose proof (parseFull_rootF D HT) as HF. unfold renderOK in HOK.
    unfold renderPieces. unfold renderDoc at 1. rewrite Hq. destruct (parseFull D) as [roots code]. cbn [fst] in *.
    unfold quoteRoot. cbv zeta. cbn [map fold_left rb_blk rb_src joinBlocks].
    set (kids := quoteKids3 D roots). cbn [bheight]. set (H := fold_right (fun c0 acc => Nat.max (bheight c0) acc) O kids).
    assert (Hh : forall r, In r roots -> (bheight (rb_blk r) <= H)%nat).
    { intros r Hr. destruct (quoteKids3_heights D roots r Hr) as (kid & Hk & Eh). fold kids in Hk.
      pose proof (bheight_kid (Blk BlockQuoteKind 0 (len Q) kids [] 0 0 0 false lb) kid Hk) as L. cbn [bheight] in L. fold H in L. lia. }
    rewrite extractDefs_bq, renderB_bq. unfold kids. rewrite (kids_defs H roots [] HF HOK Hh).
    rewrite (kids_render _ H roots HF HOK Hh). reflexivity.
  Qed.
End Doc.
Print Assumptions renderDoc_quote_of_ok.
