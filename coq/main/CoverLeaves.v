From Coq Require Import List ZArith Lia Bool.
Import ListNotations.
Require Import Base Tables Utf8 Tree Recog Driver Inl3a Inl3e Render Props SpanForest SpanBridge.
Open Scope Z_scope.

(* ================================================================================================
   C03: general facts about leaves and cover (Props.v).
   ================================================================================================ *)

Definition inLeaf (se : Z * Z) (p : Z) : bool := (fst se <=? p) && (p <? snd se).
Lemma cover_acc : forall (ls : list (Z * Z)) (p a : Z), fold_left (fun (a : Z) (se : Z * Z) => if (fst se <=? p) && (p <? snd se) then a + 1 else a) ls a =
  a + fold_left (fun (a : Z) (se : Z * Z) => if (fst se <=? p) && (p <? snd se) then a + 1 else a) ls 0.
Proof.
  induction ls as [|x ls IH]; intros p a; cbn [fold_left]; [lia|].
  destruct ((fst x <=? p) && (p <? snd x)); [rewrite (IH p (a + 1)), (IH p (0 + 1))|rewrite (IH p a)]; lia.
Qed.
Lemma cover_cons se ls p : cover (se :: ls) p = (if inLeaf se p then 1 else 0) + cover ls p.
Proof. unfold cover, inLeaf. cbn [fold_left]. rewrite cover_acc. destruct (_ && _); reflexivity. Qed.
Lemma cover_nil p : cover [] p = 0. Proof. reflexivity. Qed.
Lemma cover_app a b p : cover (a ++ b) p = cover a p + cover b p.
Proof. induction a as [|x a IH]; [cbn [app]; rewrite cover_nil; lia|]. cbn [app]. rewrite !cover_cons, IH. lia. Qed.
Lemma cover_nonneg ls p : 0 <= cover ls p.
Proof. induction ls as [|x ls IH]; [rewrite cover_nil; lia|]. rewrite cover_cons. destruct (inLeaf x p); lia. Qed.
Lemma cover_pos ls p : 1 <= cover ls p <-> exists se, In se ls /\ inLeaf se p = true.
Proof.
  induction ls as [|x ls IH]; [rewrite cover_nil; split; [lia|intros (se & [] & _)]|]. rewrite cover_cons. split.
  - intros H. destruct (inLeaf x p) eqn:E; [exists x; split; [left; reflexivity|exact E]|].
    destruct IH as [IH _]. destruct (IH ltac:(lia)) as (se & A & B). exists se. split; [right; exact A|exact B].
  - intros (se & [->|A] & B); [rewrite B; pose proof (cover_nonneg ls p); lia|].
    destruct IH as [_ IH]. pose proof (IH (ex_intro _ se (conj A B))). destruct (inLeaf x p); lia.
Qed.

(* an ordered chain of leaves inside [lo, hi]: each end <= next start *)
Fixpoint chainL (lo hi : Z) (ls : list (Z * Z)) : Prop :=
  match ls with [] => lo <= hi | (s, e) :: r => lo <= s /\ s <= e /\ chainL e hi r end.
Lemma chainL_le : forall ls lo hi, chainL lo hi ls -> lo <= hi.
Proof. induction ls as [|[s e] r IH]; intros lo hi H; cbn in H; [exact H|]. destruct H as (A & B & C). apply IH in C. lia. Qed.
Lemma chainL_weaken : forall ls lo hi lo' hi', chainL lo hi ls -> lo' <= lo -> hi <= hi' -> chainL lo' hi' ls.
Proof.
  induction ls as [|[s e] r IH]; intros lo hi lo' hi' H A B; cbn in *; [lia|]. destruct H as (H1 & H2 & H3).
  split; [lia|]. split; [exact H2|]. eapply IH; [exact H3|lia|exact B].
Qed.
Lemma chainL_app : forall a b lo m hi, chainL lo m a -> chainL m hi b -> chainL lo hi (a ++ b).
Proof.
  induction a as [|[s e] a IH]; intros b lo m hi A B; cbn [app].
  - cbn in A. eapply chainL_weaken; [exact B|exact A|lia].
  - cbn in A. destruct A as (A1 & A2 & A3). cbn. split; [exact A1|]. split; [exact A2|]. eapply IH; eassumption.
Qed.
Lemma chainL_cover0 : forall ls lo hi p, chainL lo hi ls -> (p < lo \/ hi <= p) -> cover ls p = 0.
Proof.
  induction ls as [|[s e] r IH]; intros lo hi p H Hp; [reflexivity|]. cbn in H. destruct H as (A & B & C). pose proof (chainL_le _ _ _ C) as D.
  rewrite cover_cons. unfold inLeaf. cbn [fst snd]. rewrite (IH e hi p C ltac:(lia)).
  destruct (Z.leb_spec s p); destruct (Z.ltb_spec p e); cbn [andb]; lia.
Qed.
(* (1), general form: the leaves of an ordered chain cover no position twice *)
Lemma chainL_cover_le1 : forall ls lo hi p, chainL lo hi ls -> cover ls p <= 1.
Proof.
  induction ls as [|[s e] r IH]; intros lo hi p H; [rewrite cover_nil; lia|]. cbn in H. destruct H as (A & B & C).
  rewrite cover_cons. unfold inLeaf. cbn [fst snd]. specialize (IH e hi p C).
  destruct (Z.leb_spec s p); destruct (Z.ltb_spec p e); cbn [andb]; try lia.
  rewrite (chainL_cover0 r e hi p C ltac:(lia)). lia.
Qed.

(* ---- leaves of inline nodes satisfying the span checker ---- *)
Lemma leavesI_eq k s e ind r ks : leavesI (Inl k s e ind r ks) = match ks with [] => [(s, e)] | _ => flat_map leavesI ks end.
Proof. reflexivity. Qed.

Lemma spansI_chain src : forall i lo hi, spansI false src lo hi i = true -> chainL (istart i) (iend i) (leavesI i) /\ lo <= istart i /\ iend i <= hi.
Proof.
  fix IH 1. intros [k s e ind r ks] lo hi H. cbn [spansI] in H. rewrite !andb_true_iff in H. destruct H as ((((S1 & S2) & S3) & _) & S5).
  unfold span_valid in S1. rewrite !andb_true_iff in S1. destruct S1 as ((V1 & V2) & V3). apply Z.leb_le in V1, V2, V3, S2, S3.
  cbn [istart iend]. split; [|lia]. rewrite leavesI_eq.
  assert (G : forall prev, prev <= e ->
            (fix go (prev : Z) (l : list inline) : bool :=
               match l with [] => true | k0 :: r0 => (prev <=? istart k0) && spansI false src s e k0 && go (iend k0) r0 end) prev ks = true ->
            chainL prev e (flat_map leavesI ks)).
  { clear S5. induction ks as [|x ks IHks]; intros prev Hp Hg; [cbn; exact Hp|]. rewrite !andb_true_iff in Hg. destruct Hg as ((G1 & G2) & G3).
    apply Z.leb_le in G1. destruct (IH x s e G2) as (X1 & X2 & X3). cbn [flat_map].
    apply chainL_app with (m := iend x); [eapply chainL_weaken; [exact X1|lia|lia]|apply IHks; [lia|exact G3]]. }
  destruct ks as [|x ks]; [cbn; lia|]. apply G; [lia|exact S5].
Qed.

(* the general lemma asked for: ordered_in and spansI on every node give an ordered leaf list *)
Lemma forest_chain src : forall ks lo hi, lo <= hi -> ordered_in lo hi ks = true -> forallb (spansI false src lo hi) ks = true ->
  chainL lo hi (flat_map leavesI ks).
Proof.
  induction ks as [|k r IH]; intros lo hi Hl Ho Hs; [cbn; exact Hl|]. cbn [ordered_in forallb] in *. rewrite !andb_true_iff in *.
  destruct Ho as ((O1 & O2) & O3). destruct Hs as (S1 & S2). apply Z.leb_le in O1, O2.
  destruct (spansI_chain src k lo hi S1) as (X1 & X2 & X3). cbn [flat_map].
  apply chainL_app with (m := iend k); [eapply chainL_weaken; [exact X1|lia|lia]|].
  pose proof (chainL_le _ _ _ X1) as V.
  apply IH; [lia|exact O3|].
  (* later nodes start after this one: their spansI holds with the tighter lower bound *)
  clear - O3 S2. revert O3 S2. generalize (iend k). induction r as [|z r IHr]; intros a O3 S2; [reflexivity|].
  cbn [ordered_in forallb] in *. rewrite !andb_true_iff in *. destruct O3 as ((P1 & P2) & P3). destruct S2 as (T1 & T2).
  split.
  - destruct z as [k0 s e ind r0 ks]. cbn [spansI istart] in *. rewrite !andb_true_iff in *. destruct T1 as ((((U1 & U2) & U3) & U4) & U5). repeat split; assumption.
  - apply Z.leb_le in P1. (* the remaining ones start even later *)
    assert (G : forall l b, ordered_in b hi l = true -> forallb (spansI false src lo hi) l = true -> forallb (spansI false src a hi) l = true -> True) by trivial.
    clear G. specialize (IHr (iend z) P3 T2).
    (* from iend z to a: a <= istart z <= iend z when z is valid *)
    destruct z as [k0 s e ind r0 ks]. cbn [spansI istart iend] in *. rewrite !andb_true_iff in T1. destruct T1 as ((((U1 & _) & _) & _) & _).
    unfold span_valid in U1. rewrite !andb_true_iff in U1. destruct U1 as ((_ & U1) & _). apply Z.leb_le in U1.
    rewrite forallb_forall in *. intros y Hy. specialize (IHr y Hy). destruct y as [k1 s1 e1 ind1 r1 ks1]. cbn [spansI] in *.
    rewrite !andb_true_iff in *. destruct IHr as ((((W1 & W2) & W3) & W4) & W5). apply Z.leb_le in W2. repeat split; try assumption. apply Z.leb_le. lia.
Qed.

Theorem forest_cover_le1 src ks lo hi : ordered_in lo hi ks = true -> forallb (spansI false src lo hi) ks = true ->
  forall p, cover (flat_map leavesI ks) p <= 1.
Proof.
  intros Ho Hs p. destruct ks as [|k r]; [cbn; lia|].
  apply (chainL_cover_le1 _ lo hi). apply (forest_chain src); [|exact Ho|exact Hs].
  cbn [ordered_in forallb] in *. rewrite !andb_true_iff in *. destruct Ho as ((O1 & O2) & _). destruct Hs as (S1 & _). apply Z.leb_le in O1, O2.
  destruct (spansI_chain src k lo hi S1) as (X1 & _). pose proof (chainL_le _ _ _ X1). lia.
Qed.

(* ================================================================================================
   Coverage on parse-time forests: position p lies in a leaf of the forest.
   ================================================================================================ *)
Fixpoint covN (p : Z) (n : pn) : Prop :=
  match n with PN _ _ s e _ _ ks =>
    match ks with
    | [] => s <= p < e
    | _ => (fix any (l : list pn) : Prop := match l with [] => False | k :: r => covN p k \/ any r end) ks
    end
  end.
Definition covF (p : Z) (l : list pn) : Prop := Exists (covN p) l.

Lemma covN_leaf p id k s e ind r : covN p (PN id k s e ind r []) <-> s <= p < e. Proof. reflexivity. Qed.
Lemma any_iff p : forall l, (fix any (l : list pn) : Prop := match l with [] => False | k :: r => covN p k \/ any r end) l <-> Exists (covN p) l.
Proof.
  induction l as [|y l IHl].
  - split; [intros []|intros X; inversion X].
  - rewrite Exists_cons. rewrite <- IHl. reflexivity.
Qed.
Lemma covN_kids p id k s e ind r ks : ks <> [] -> (covN p (PN id k s e ind r ks) <-> covF p ks).
Proof.
  intros H. destruct ks as [|x ks]; [contradiction|]. unfold covF. rewrite <- any_iff. reflexivity.
Qed.
Lemma covN_iff p n : covN p n <-> (pkids n = [] /\ ps n <= p < pe n) \/ (pkids n <> [] /\ covF p (pkids n)).
Proof.
  destruct n as [id k s e ind r ks]. cbn [pkids ps pe]. destruct ks as [|x ks].
  - rewrite covN_leaf. split; [intros H; left; split; [reflexivity|exact H]|intros [[_ H]|[H _]]; [exact H|contradiction]].
  - rewrite covN_kids by discriminate. split; [intros H; right; split; [discriminate|exact H]|intros [[H _]|[_ H]]; [discriminate|exact H]].
Qed.
Lemma covF_app p a b : covF p (a ++ b) <-> covF p a \/ covF p b. Proof. apply Exists_app. Qed.
Lemma covF_cons p n l : covF p (n :: l) <-> covN p n \/ covF p l. Proof. apply Exists_cons. Qed.
Lemma covF_nil p : ~ covF p []. Proof. intros H. inversion H. Qed.
Lemma covN_setSpan_leaf p n s e : pkids n = [] -> (covN p (setSpan n s e) <-> s <= p < e).
Proof. destruct n as [i k s0 e0 ind r ks]. cbn [pkids setSpan]. intros ->. reflexivity. Qed.
Lemma covN_setKids p n ks : ks <> [] -> (covN p (setKids n ks) <-> covF p ks).
Proof. destruct n as [i k s0 e0 ind r ks0]. cbn [setKids]. apply covN_kids. Qed.
Lemma covN_setRef p n r : covN p (setRef n r) <-> covN p n. Proof. destruct n; reflexivity. Qed.

(* bridge to the leaves of the finished nodes *)
Lemma leavesI_toInline : forall n, leavesI (toInline n) = match pkids n with [] => [(ps n, pe n)] | _ => flat_map leavesI (map toInline (pkids n)) end.
Proof. intros [id k s e ind r ks]. cbn [toInline pkids ps pe]. rewrite leavesI_eq. destruct ks; reflexivity. Qed.
Lemma covN_cover : forall n p, covN p n -> 1 <= cover (leavesI (toInline n)) p.
Proof.
  fix IH 1. intros [id k s e ind r ks] p H. rewrite leavesI_toInline. cbn [pkids ps pe]. destruct ks as [|x ks].
  - rewrite covN_leaf in H. rewrite cover_cons, cover_nil. unfold inLeaf. cbn [fst snd].
    replace (s <=? p) with true by (symmetry; apply Z.leb_le; lia). replace (p <? e) with true by (symmetry; apply Z.ltb_lt; lia). cbn. lia.
  - rewrite covN_kids in H by discriminate. revert H. generalize (x :: ks). clear x ks. intros l H.
    induction l as [|y l IHl]; [inversion H|]. cbn [map flat_map]. rewrite cover_app. apply covF_cons in H.
    pose proof (cover_nonneg (leavesI (toInline y)) p). pose proof (cover_nonneg (flat_map leavesI (map toInline l)) p).
    destruct H as [H|H]; [pose proof (IH y p H); lia|specialize (IHl H); lia].
Qed.
Lemma covF_cover l p : covF p l -> 1 <= cover (flat_map leavesI (map toInline l)) p.
Proof.
  induction l as [|y l IHl]; intros H; [inversion H|]. cbn [map flat_map]. rewrite cover_app. apply covF_cons in H.
  pose proof (cover_nonneg (leavesI (toInline y)) p). pose proof (cover_nonneg (flat_map leavesI (map toInline l)) p).
  destruct H as [H|H]; [pose proof (covN_cover y p H); lia|specialize (IHl H); lia].
Qed.
Print Assumptions forest_cover_le1.
Print Assumptions covF_cover.
