From Coq Require Import List ZArith Lia Bool.
Import ListNotations.
Require Import Base Tree Rdr Link Collect Html Recog LP Rules Starts Driver Inl3e Stream C01a C01b Rec16 Rec17 Rec18 L2Bnd L2BndS StreamRd StreamSim StreamFuel.
Open Scope Z_scope.

(* ================================================================================================== *)
(* Part 3: whole runs.  The two entry points hand different amounts of fuel to their loops, so the     *)
(* in-memory results are first shown independent of the fuel once they are not NBStuck.                 *)
(* ================================================================================================== *)

Lemma lineLoop_mono : forall f f' st ch ls s, (f <= f')%nat -> lineLoop f st ch ls s <> NBStuck ->
  lineLoop f' st ch ls s = lineLoop f st ch ls s.
Proof.
  induction f as [|f IH]; intros f' st ch ls s Hle Hns; [exfalso; apply Hns; reflexivity|].
  destruct f' as [|f']; [lia|]. cbn [lineLoop] in *.
  destruct (processLine st ch ls (upto (buf s) (bi s))) as [[ch' st'] pn].
  destruct (negb (pn =? 0)); [reflexivity|].
  destruct (makeRoot ch' s) as [[r s']|]; [reflexivity|].
  apply IH; [lia|exact Hns].
Qed.

Lemma skipLoop_mono : forall f f' s, (f <= f')%nat -> skipLoop f s <> NBStuck -> skipLoop f' s = skipLoop f s.
Proof.
  induction f as [|f IH]; intros f' s Hle Hns; [exfalso; apply Hns; reflexivity|].
  destruct f' as [|f']; [lia|]. cbn [skipLoop] in *. cbv zeta in *.
  destruct (negb (bi s <? lineEnd (buf s) (bi s))); [reflexivity|].
  destruct (isBlankLine (upto (buf s) (lineEnd (buf s) (bi s)))).
  - apply IH; [lia|exact Hns].
  - apply lineLoop_mono; [lia|exact Hns].
Qed.

Lemma nextBlock_mono f f' s : (f <= f')%nat -> nextBlock f s <> NBStuck -> nextBlock f' s = nextBlock f s.
Proof.
  intros Hle Hns. unfold nextBlock in *. cbv zeta in *.
  destruct (makeRoot (pending s) s) as [[r s']|]; [reflexivity|].
  destruct (pending s) as [|b0 rest].
  - apply skipLoop_mono; assumption.
  - apply lineLoop_mono; assumption.
Qed.

(* at end of input every further call reports end of input again *)
Lemma atEOF_nextBlock fuel sm : atEOF sm -> (1 <= fuel)%nat -> exists sm', nextBlock fuel sm = NBEof sm' /\ atEOF sm'.
Proof.
  intros (Hp & Hb & He) Hf. unfold nextBlock. cbv zeta. rewrite Hp. cbn [makeRoot].
  destruct fuel as [|f]; [lia|]. cbn [skipLoop]. cbv zeta. cbn [buf bi].
  rewrite Hb. change (from_ (buf sm) 0) with (buf sm).
  destruct (Z.ltb_spec 0 (lineEnd (buf sm) 0)) as [L|L]; [lia|]. cbn [negb].
  eexists. split; [reflexivity|]. unfold atEOF. cbn [pending bi buf]. repeat split; try reflexivity. exact He.
Qed.

Lemma atEOF_SI sm : atEOF sm -> SI sm (pending sm) true.
Proof.
  intros (Hp & Hb & _). unfold SI. rewrite Hp, Hb. pose proof (len_nonneg (buf sm)).
  repeat split; try lia; try reflexivity; try discriminate.
Qed.

Lemma sfuel_ge fin sm ss : R fin sm ss -> (3 + length (buf sm) <= sfuel ss)%nat.
Proof.
  intros (_ & _ & _ & _ & _ & Hbuf & _). unfold sfuel. rewrite Hbuf, app_length.
  pose proof (length_pad_le (s_rem (srdr ss))). lia.
Qed.

Lemma extraCall_sim fin : fin <> 0 -> forall sm ss, R fin sm ss -> atEOF sm ->
  exists sm' ss', extraCall ss = (fin, ss') /\ R fin sm' ss' /\ atEOF sm'.
Proof.
  intros Hfin0 sm ss HR He. unfold extraCall.
  pose proof (nextBlock_sim fin Hfin0 (sfuel ss) sm ss true HR (atEOF_SI sm He)) as Hs.
  destruct (atEOF_nextBlock (sfuel ss) sm He ltac:(unfold sfuel; lia)) as (sm' & En & He').
  rewrite En in Hs. cbn [res_rel] in Hs.
  destruct (nextBlockS (sfuel ss) ss) as [r2 ss'|e ss'| |]; try contradiction.
  destruct Hs as (-> & HR' & _). exists sm', ss'. split; [reflexivity|]. split; assumption.
Qed.

(* the outer loop does not run out of calls *)
Fixpoint enough (fm : nat) (sm : bpst) : Prop :=
  match fm with
  | O => False
  | S f => match nextBlock (3 + length (buf sm)) sm with NBBlock _ s' => enough f s' | _ => True end
  end.
Lemma enough_of_code : forall fm sm acc, snd (allBlocks fm sm acc) <> -1 -> enough fm sm.
Proof.
  induction fm as [|fm IH]; intros sm acc H; [apply H; reflexivity|]. cbn [allBlocks enough] in *.
  destruct (nextBlock (3 + length (buf sm)) sm) as [r s'| | |site]; try exact I. eapply IH, H.
Qed.

Theorem allBlocks_sim fin : fin <> 0 -> forall fm fs sm ss acc ns, (fm <= fs)%nat ->
  R fin sm ss -> SI sm (pending sm) ns -> enough fm sm ->
  exists err s1,
    allBlocksS fs ss acc = (fst (allBlocks fm sm acc), err, s1, snd (allBlocks fm sm acc)) /\
    (snd (allBlocks fm sm acc) = 0 -> err = fin /\ exists sm1, R fin sm1 s1 /\ atEOF sm1).
Proof.
  intros Hfin0. induction fm as [|fm IH]; intros fs sm ss acc ns Hle HR HS H1.
  { destruct H1. }
  destruct fs as [|fs]; [lia|]. cbn [allBlocks allBlocksS enough] in *.
  pose proof (nextBlock_sim fin Hfin0 (sfuel ss) sm ss ns HR HS) as Hs.
  rewrite (nextBlock_adequate (sfuel ss) sm ltac:(apply HS) (sfuel_ge fin sm ss HR)) in Hs.
  destruct (nextBlock (3 + length (buf sm)) sm) as [r sm'|sm'| |site] eqn:En.
  - cbn [res_rel] in Hs. destruct (nextBlockS (sfuel ss) ss) as [r2 ss'|e ss'| |]; try contradiction.
    destruct Hs as (<- & HR' & (ns' & HS')).
    apply (IH fs sm' ss' (acc ++ [r]) ns'); try assumption; lia.
  - cbn [res_rel] in Hs. destruct (nextBlockS (sfuel ss) ss) as [r2 ss'|e ss'| |]; try contradiction.
    destruct Hs as (-> & HR' & He'). cbn [fst snd].
    exists fin, ss'. split; [reflexivity|]. intros _. split; [reflexivity|]. exists sm'. split; assumption.
  - cbn [res_rel] in Hs. destruct (nextBlockS (sfuel ss) ss) as [r2 ss'|e ss'| |]; try contradiction.
    cbn [fst snd]. exists 0, ss. split; [reflexivity|]. discriminate.
  - cbn [res_rel] in Hs. destruct (nextBlockS (sfuel ss) ss) as [r2 ss'|e ss'| |site2]; try contradiction.
    subst site2. cbn [fst snd]. exists 0, ss. split; [reflexivity|]. intros E0.
    (* a panic site is never 0: NBPanic is only produced under negb (pn =? 0) *)
    exfalso. clear - En E0.
    assert (G : forall f st ch ls s, lineLoop f st ch ls s <> NBPanic 0).
    { induction f as [|f IHf]; intros st ch ls s; [discriminate|]. cbn [lineLoop].
      destruct (processLine st ch ls (upto (buf s) (bi s))) as [[ch' st'] pn].
      destruct (pn =? 0) eqn:Ep; cbn [negb].
      - destruct (makeRoot ch' s) as [[r s']|]; [discriminate|]. apply IHf.
      - intros X. inversion X. subst pn. discriminate. }
    assert (G2 : forall f s, skipLoop f s <> NBPanic 0).
    { induction f as [|f IHf]; intros s; [discriminate|]. cbn [skipLoop]. cbv zeta.
      destruct (negb _); [discriminate|]. destruct (isBlankLine _); [apply IHf|apply G]. }
    subst site. unfold nextBlock in En. cbv zeta in En.
    destruct (makeRoot (pending sm) sm) as [[r s']|]; [discriminate|].
    destruct (pending sm); [exact (G2 _ _ En)|exact (G _ _ _ _ _ En)].
Qed.

Lemma parseFull_code input : snd (parseFull input) = snd (parseBlocks input).
Proof. unfold parseFull. destruct (parseBlocks input) as [roots code]. reflexivity. Qed.
Lemma parseFull_roots input :
  fst (parseFull input) =
  let roots := fst (parseBlocks input) in
  let refs := fold_left (fun a r => extractB (bheight (rb_blk r)) (rb_blk r) a) roots [] in
  map (fun r => {| rb_line := rb_line r; rb_start := rb_start r; rb_end := rb_end r; rb_src := rb_src r;
                   rb_blk := rewriteB (bheight (rb_blk r)) (rb_src r) refs (rb_blk r) |}) roots.
Proof. unfold parseFull. destruct (parseBlocks input) as [roots code]. reflexivity. Qed.

Print Assumptions allBlocks_sim.
