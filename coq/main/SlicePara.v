(* SlicePara.v -- block layer of slice (A) of C06: a document that consists of ONE paragraph line.
   Contents (all for inputs of any length):
     * atLine / al_* : facts about a cursor standing at the first byte c of its line;
     * st_* , tryStarts_none , opening_loop_text , openNewBlocks_text : none of the eight block starts of Starts.v fires on a
       line whose first byte satisfies paraStartByte (not blank, not one of  > # ` ~ < - _ * + ) and on which parseListMarker
       finds no marker (startSetext needs a paragraph container, which an empty document does not have);
     * openBlock_empty_doc , addLineText_open_para , processLine_first_para : the first line opens a paragraph with one
       Unparsed entry covering the whole line;
     * current_unparsed , onCloseParagraph_nolabel , closeBlock_para , closeBlock_plain , closeBlock_doc_para ,
       processLine_eof_para : the empty line at end of input closes the paragraph; onCloseParagraph returns the paragraph
       unchanged because its text does not start with '[';
     * parseBlocks_one_para : parseBlocks (body ++ [10]) = exactly one root, the closed paragraph with one Unparsed entry
       [0, len) , rb_src = the input, status 0. *)
From Coq Require Import List ZArith Lia Bool.
Import ListNotations.
Require Import Base Tables Utf8 Tree Rdr Link Collect Html Recog LP Rules Starts Driver Inl3a Inl3b Inl3e Render SliceBase.
Open Scope Z_scope.

(* a line whose first byte is c *)
Definition atLine (p : lp) (c : Z) (r : bytes) : Prop := li p = 0 /\ line p = c :: r.

Lemma atLine_withState p c r s : atLine p c r -> atLine (withState p s) c r.
Proof. intros H. exact H. Qed.

Section Line.
Variables (p : lp) (c : Z) (r : bytes).
Hypothesis H : atLine p c r.

Lemma al_rest : rest p = c :: r.
Proof. destruct H as [H1 H2]. unfold rest. rewrite H1, H2. reflexivity. Qed.
Lemma al_len_pos : (len (line p) <=? li p) = false.
Proof. destruct H as [H1 H2]. rewrite H1, H2, sl_len_cons. pose proof (sl_len_nonneg r). apply Z.leb_gt. lia. Qed.
Lemma al_at : at_ (line p) (li p) = c.
Proof. destruct H as [H1 H2]. rewrite H1, H2. reflexivity. Qed.
Lemma al_indent : isSpTab c = false -> indent p = 0.
Proof.
  intros Hc. unfold indent. rewrite al_len_pos, al_at. unfold isSpTab in Hc. apply orb_false_iff in Hc. destruct Hc as [-> ->]. reflexivity.
Qed.
Lemma al_bai : isSpTab c = false -> bytesAfterIndent p = c :: r.
Proof. intros Hc. unfold bytesAfterIndent. rewrite al_rest. cbn [trimLeftSpTab]. rewrite Hc. reflexivity. Qed.
Lemma al_blank : isSpaceTabOrLineEnding c = false -> isRestBlank p = false.
Proof. intros Hc. unfold isRestBlank. rewrite al_rest. cbn [isBlankLine forallb]. rewrite Hc. reflexivity. Qed.
End Line.

(* first bytes that cannot begin any block other than a paragraph (digits are decided by parseListMarker) *)
Definition paraStartByte (c : Z) : bool :=
  negb (isSpaceTabOrLineEnding c) &&
  negb (existsb (Z.eqb c) [62; 35; 96; 126; 60; 45; 95; 42; 43]).

Lemma psb_ws c : paraStartByte c = true -> isSpaceTabOrLineEnding c = false.
Proof. unfold paraStartByte. intros Hc. apply andb_true_iff in Hc. destruct Hc as [Hc _]. apply negb_true_iff in Hc. exact Hc. Qed.
Lemma psb_sptab c : paraStartByte c = true -> isSpTab c = false.
Proof.
  intros Hc. apply psb_ws in Hc. unfold isSpaceTabOrLineEnding in Hc. unfold isSpTab.
  destruct (c =? 32); [discriminate|]. destruct (c =? 9); [discriminate|]. reflexivity.
Qed.
Lemma psb_ne c x : paraStartByte c = true -> In x [62; 35; 96; 126; 60; 45; 95; 42; 43] -> (c =? x) = false.
Proof.
  unfold paraStartByte. intros Hc Hx. apply andb_true_iff in Hc. destruct Hc as [_ Hc]. apply negb_true_iff in Hc.
  destruct (c =? x) eqn:E; [|reflexivity]. exfalso.
  assert (existsb (Z.eqb c) [62; 35; 96; 126; 60; 45; 95; 42; 43] = true) by (apply existsb_exists; exists x; split; assumption).
  congruence.
Qed.

Section Starts.
Variables (p : lp) (c : Z) (r : bytes).
Hypothesis H : atLine p c r.
Hypothesis Hc : paraStartByte c = true.

Lemma st_bq : startBlockQuote p = p.
Proof.
  unfold startBlockQuote. rewrite (al_indent p c r H (psb_sptab c Hc)). cbn [codeBlockIndentLimit Z.leb Z.compare].
  rewrite (al_bai p c r H (psb_sptab c Hc)). cbn [hasBytePrefix].
  assert (E : (62 =? c) = false) by (rewrite Z.eqb_sym; apply psb_ne; [exact Hc|cbn; tauto]).
  rewrite E. reflexivity.
Qed.
Lemma st_atx : startATX p = p.
Proof.
  unfold startATX. rewrite (al_indent p c r H (psb_sptab c Hc)). cbn [codeBlockIndentLimit Z.leb Z.compare].
  rewrite (al_bai p c r H (psb_sptab c Hc)). unfold parseATXHeading. cbn [countWhile].
  rewrite (psb_ne c 35 Hc) by (cbn; tauto). reflexivity.
Qed.
Lemma st_fenced : startFenced p = p.
Proof.
  unfold startFenced. rewrite (al_indent p c r H (psb_sptab c Hc)). cbn [codeBlockIndentLimit Z.leb Z.compare].
  rewrite (al_bai p c r H (psb_sptab c Hc)). unfold parseCodeFence.
  rewrite (psb_ne c 96 Hc) by (cbn; tauto). rewrite (psb_ne c 126 Hc) by (cbn; tauto). cbn [orb negb]. rewrite orb_true_r. reflexivity.
Qed.
Lemma st_html : startHTML p = p.
Proof.
  unfold startHTML. rewrite (al_indent p c r H (psb_sptab c Hc)). cbn [codeBlockIndentLimit Z.leb Z.compare].
  rewrite (al_bai p c r H (psb_sptab c Hc)). cbn [hasBytePrefix].
  assert (E : (60 =? c) = false) by (rewrite Z.eqb_sym; apply psb_ne; [exact Hc|cbn; tauto]).
  rewrite E. reflexivity.
Qed.
Lemma st_setext : (containerKind p =? ParagraphKind) = false -> startSetext p = p.
Proof. intros E. unfold startSetext. rewrite E. reflexivity. Qed.
Lemma st_thematic : startThematic p = p.
Proof.
  unfold startThematic. rewrite (al_indent p c r H (psb_sptab c Hc)). cbn [codeBlockIndentLimit Z.leb Z.compare].
  rewrite (al_bai p c r H (psb_sptab c Hc)). unfold parseThematicBreak. cbn [tb_loop].
  rewrite (psb_ne c 45 Hc) by (cbn; tauto). rewrite (psb_ne c 95 Hc) by (cbn; tauto). rewrite (psb_ne c 42 Hc) by (cbn; tauto).
  cbn [orb]. rewrite (psb_ws c Hc). reflexivity.
Qed.
Lemma st_list : snd (parseListMarker (c :: r)) < 0 -> startListItem p = p.
Proof.
  intros Hm. unfold startListItem. rewrite (al_indent p c r H (psb_sptab c Hc)). cbn [codeBlockIndentLimit Z.leb Z.compare].
  rewrite (al_bai p c r H (psb_sptab c Hc)). destruct (parseListMarker (c :: r)) as [[d n] m]. cbn [snd] in Hm.
  destruct (Z.ltb_spec m 0); [|lia]. reflexivity.
Qed.
Lemma st_indented : startIndented p = p.
Proof. unfold startIndented. rewrite (al_indent p c r H (psb_sptab c Hc)). reflexivity. Qed.
End Starts.

Lemma tryStarts_id fs p : (forall f, In f fs -> f (withState p stOpening) = withState p stOpening) ->
  fs <> [] -> tryStarts fs p = (false, withState p stOpening).
Proof.
  intros Hf Hne.
  assert (G : forall gs, (forall f, In f gs -> f (withState p stOpening) = withState p stOpening) ->
                         tryStarts gs (withState p stOpening) = (false, withState p stOpening)).
  { induction gs as [|g gs IH]; intros Hg; [reflexivity|]. cbn [tryStarts].
    change (withState (withState p stOpening) stOpening) with (withState p stOpening).
    rewrite (Hg g (or_introl eq_refl)). change (state (withState p stOpening)) with stOpening.
    change ((stOpening =? stOpenMatched) || (stOpening =? stLineConsumed)) with false. cbv iota.
    apply IH. intros f Hin. apply Hg. right. exact Hin. }
  destruct fs as [|g gs]; [contradiction|]. cbn [tryStarts].
  rewrite (Hf g (or_introl eq_refl)). change (state (withState p stOpening)) with stOpening.
  change ((stOpening =? stOpenMatched) || (stOpening =? stLineConsumed)) with false. cbv iota.
  apply G. intros f Hin. apply Hf. right. exact Hin.
Qed.

Lemma tryStarts_none p c r : atLine p c r -> paraStartByte c = true -> (containerKind p =? ParagraphKind) = false ->
  snd (parseListMarker (c :: r)) < 0 -> tryStarts blockStarts p = (false, withState p stOpening).
Proof.
  intros H Hc Hk Hm.
  assert (Hq : atLine (withState p stOpening) c r) by exact H.
  assert (Hkq : (containerKind (withState p stOpening) =? ParagraphKind) = false) by exact Hk.
  apply tryStarts_id; [|discriminate].
  intros f Hin. unfold blockStarts in Hin. cbn [In] in Hin.
  destruct Hin as [<-|[<-|[<-|[<-|[<-|[<-|[<-|[<-|[]]]]]]]]].
  - apply (st_bq _ c r Hq Hc).
  - apply (st_atx _ c r Hq Hc).
  - apply (st_fenced _ c r Hq Hc).
  - apply (st_html _ c r Hq Hc).
  - apply (st_setext _ Hkq).
  - apply (st_thematic _ c r Hq Hc).
  - apply (st_list _ c r Hq Hc Hm).
  - apply (st_indented _ c r Hq Hc).
Qed.

Lemma opening_loop_text f p c r : atLine p c r -> paraStartByte c = true -> containerKind p = documentKind ->
  snd (parseListMarker (c :: r)) < 0 -> opening_loop (S f) p = (true, withState p stOpening).
Proof.
  intros H Hc Hk Hm. cbn [opening_loop]. rewrite Hk. cbn [documentKind ParagraphKind Z.eqb acceptsLines orb negb
    FencedCodeBlockKind IndentedCodeBlockKind ATXHeadingKind HTMLBlockKind].
  rewrite (tryStarts_none p c r H Hc); [reflexivity| rewrite Hk; reflexivity | exact Hm].
Qed.

Lemma openNewBlocks_text p c r : atLine p c r -> paraStartByte c = true -> containerKind p = documentKind ->
  snd (parseListMarker (c :: r)) < 0 -> openNewBlocks p true = (true, withState p stOpening).
Proof.
  intros H Hc Hk Hm. unfold openNewBlocks. destruct H as [H1 H2]. rewrite H2.
  destruct (Z.eqb_spec (len (c :: r)) 0) as [E|_]; [rewrite sl_len_cons in E; pose proof (sl_len_nonneg r); lia|].
  cbn [length]. rewrite (opening_loop_text _ p c r (conj H1 H2) Hc Hk Hm). reflexivity.
Qed.

Definition rootDoc (kids : list block) : block := Blk documentKind 0 (-1) kids [] 0 0 0 false false.
Definition paraOpen (s e : Z) : block := Blk ParagraphKind s (-1) [] [mkI UnparsedKind s e] 0 0 0 false false.

Lemma computeTabRem_0 c r cl : (c =? 9) = false -> computeTabRem (c :: r) 0 cl = 0.
Proof. intros E. unfold computeTabRem. change (at_ (c :: r) 0) with c. rewrite E. rewrite andb_false_r. reflexivity. Qed.


(* ---- primitives on an abstract cursor ---- *)
Lemma consumeIndent_le0 p n : n <= 0 -> consumeIndent p n = p.
Proof. intros Hn. unfold consumeIndent. cbn [consumeIndent_loop]. destruct (Z.leb_spec n 0); [reflexivity|lia]. Qed.

(* opening the first block of an empty document *)
Lemma openBlock_empty_doc p kind : container p = Some O -> root p = rootDoc [] ->
  (state p = stOpening \/ state p = stOpenMatched) -> canContain documentKind kind = true ->
  openBlock p kind = setLP p (rootDoc [newBlock kind (lineStart p + li p)]) (Some 1%nat) (li p) (col p) (tabRem p) stOpenMatched (panicked p).
Proof.
  destruct p as [src rt cont ls ln i cl tr st pn]. cbn [container root state lineStart li col tabRem panicked].
  intros -> -> Hst Hcc. unfold openBlock. cbn [state].
  assert (E34 : (st =? stDescending) || (st =? stDescendTerminated) = false) by (destruct Hst as [-> | ->]; reflexivity).
  rewrite E34.
  assert (E : (if st =? stOpening then withState {| source := src; root := rootDoc []; container := Some 0%nat; lineStart := ls; line := ln; li := i; col := cl; tabRem := tr; state := st; panicked := pn |} stOpenMatched
               else {| source := src; root := rootDoc []; container := Some 0%nat; lineStart := ls; line := ln; li := i; col := cl; tabRem := tr; state := st; panicked := pn |}) =
              {| source := src; root := rootDoc []; container := Some 0%nat; lineStart := ls; line := ln; li := i; col := cl; tabRem := tr; state := stOpenMatched; panicked := pn |}).
  { destruct Hst as [-> | ->]; reflexivity. }
  rewrite E. clear E. cbv zeta.
  cbn [cdepth container openBlock_up containerKind contBlock getAt root rootDoc bkind]. rewrite Hcc.
  reflexivity.
Qed.

(* the local function `go` of addLineText *)
Definition goText (p : lp) : lp :=
  let k := containerKind p in
  let inlineKind := if isCode k then TextKind else if k =? HTMLBlockKind then RawHTMLKind else UnparsedKind in
  let p := updCont p (fun b => set_bik b (bik b ++ [mkI inlineKind (lineStart p + li p) (lineStart p + len (line p))])) in
  if isCode k && negb (hasByteSuffixEOL (line p)) then
    updCont p (fun b => set_bik b (bik b ++ [mkI SoftLineBreakKind (lineStart p + len (line p)) (lineStart p + len (line p))]))
  else p.

Lemma addLineText_nonblank_open p : isRestBlank p = false -> acceptsLines (bkind (contBlock p)) = false ->
  addLineText p =
  let p1 := withRoot p (setLastBlankUpTo (cdepth p) false (root p)) in
  let p2 := openBlock p1 ParagraphKind in
  goText (consumeIndent p2 (indent p2)).
Proof.
  intros Hb Ha. unfold addLineText. rewrite Hb. cbv zeta. cbn [andb negb]. rewrite Ha. reflexivity.
Qed.

Lemma addLineText_open_para p c r : atLine p c r -> isSpaceTabOrLineEnding c = false ->
  container p = Some O -> root p = rootDoc [] -> state p = stOpening ->
  addLineText p = setLP p (rootDoc [Blk ParagraphKind (lineStart p + li p) (-1) [] [mkI UnparsedKind (lineStart p + li p) (lineStart p + len (line p))] 0 0 0 false false])
                        (Some 1%nat) (li p) (col p) (tabRem p) stOpenMatched (panicked p).
Proof.
  intros Hal Hc Hcont Hroot Hst.
  pose proof (al_blank p c r Hal Hc) as Hb.
  assert (Hsp : isSpTab c = false).
  { unfold isSpaceTabOrLineEnding in Hc. unfold isSpTab. destruct (c =? 32); [discriminate|]. destruct (c =? 9); [discriminate|reflexivity]. }
  rewrite (addLineText_nonblank_open p Hb); [|unfold contBlock, cdepth; rewrite Hcont, Hroot; reflexivity].
  cbv zeta.
  assert (E1 : withRoot p (setLastBlankUpTo (cdepth p) false (root p)) = p).
  { destruct p as [src rt cont ls ln i cl tr st pn]. cbn [container root] in Hcont, Hroot. subst rt cont. reflexivity. }
  rewrite E1.
  rewrite (openBlock_empty_doc p ParagraphKind Hcont Hroot (or_introl Hst) eq_refl).
  set (p2 := setLP p _ _ _ _ _ _ _).
  assert (Hal2 : atLine p2 c r) by exact Hal.
  rewrite (al_indent p2 c r Hal2 Hsp). rewrite (consumeIndent_le0 p2 0) by lia.
  subst p2. destruct p as [src rt cont ls ln i cl tr st pn]. reflexivity.
Qed.

Lemma processLine_first_para src ls c r : from_ src ls = c :: r -> paraStartByte c = true ->
  snd (parseListMarker (c :: r)) < 0 ->
  processLine 0 [] ls src = ([paraOpen ls (ls + len (c :: r))], stOpenMatched, 0).
Proof.
  intros Hl Hc Hm. unfold processLine, resetLP. rewrite Hl.
  set (p0 := {| source := src; root := Blk documentKind 0 (-1) [] [] 0 0 0 false false; container := Some 0%nat;
               lineStart := ls; line := c :: r; li := 0; col := 0; tabRem := computeTabRem (c :: r) 0 0; state := 0; panicked := 0 |}).
  assert (Hd : descendOpenBlocks p0 = (true, p0)) by reflexivity.
  rewrite Hd. change (negb (state p0 =? stDescendTerminated)) with true. cbv iota.
  assert (Hal : atLine p0 c r) by (split; reflexivity).
  rewrite (openNewBlocks_text p0 c r Hal Hc eq_refl Hm).
  assert (Hal' : atLine (withState p0 stOpening) c r) by (split; reflexivity).
  rewrite (addLineText_open_para (withState p0 stOpening) c r Hal' (psb_ws c Hc) eq_refl eq_refl eq_refl).
  cbn [root setLP bkids rootDoc state panicked withState p0 lineStart li line].
  rewrite Z.add_0_r. reflexivity.
Qed.

(* ---- end of input: closing a paragraph whose text does not start with '[' ---- *)
Lemma current_unparsed src s e : 0 <= s -> s < e -> s < len src -> at_ src s <> 0 ->
  fst (current (newReader src [mkI UnparsedKind s e] s)) = at_ src s.
Proof.
  intros H0 Hse Hlen Hnz. unfold current, newReader. cbn [r_src r_pos r_spans r_vpos].
  destruct (Z.leb_spec (len src) s); [lia|].
  unfold curNode. cbn [r_src r_pos r_spans r_vpos r_prev]. unfold nodeIndexForPosition. cbn [nodeIdx mkI istart iend].
  destruct (Z.ltb_spec s s); [lia|]. unfold spanHas. cbn [mkI istart iend].
  assert (E : (0 <=? s) && (0 <=? e) && (s <=? e) && (s <=? s) && (s <? e) = true).
  { repeat (apply andb_true_iff; split); try (apply Z.leb_le; lia). apply Z.ltb_lt; lia. }
  rewrite E. cbn [Z.ltb Z.compare from_ Z.to_nat skipn hd_error okind mkI ikind].
  change (UnparsedKind =? IndentKind) with false. cbv iota.
  destruct (Z.eqb_spec (at_ src s) 0); [contradiction|]. reflexivity.
Qed.

Lemma onCloseParagraph_nolabel src b first rest : bik b = first :: rest ->
  (fst (current (newReader src (bik b) (istart first))) =? 91) = false -> onCloseParagraph src b = [b].
Proof.
  intros Hb Hc. unfold onCloseParagraph. rewrite Hb. rewrite Hb in Hc. cbn [length ocp_loop]. unfold parseLinkLabel.
  destruct (current (newReader src (first :: rest) (istart first))) as [ch r0]. cbn [fst] in Hc. rewrite Hc. reflexivity.
Qed.

Lemma closeBlock_para f src b e : isOpen b = true -> bkind b = ParagraphKind ->
  closeBlock (S f) src b e = onCloseParagraph src (set_bend b e).
Proof.
  intros Ho Hk. cbn [closeBlock]. rewrite Ho. cbn [negb].
  assert (E : bkind (set_bend b e) = ParagraphKind) by (destruct b; exact Hk). rewrite E. reflexivity.
Qed.
Definition plainKind (k : Z) : bool :=
  negb ((k =? ListKind) || (k =? IndentedCodeBlockKind) || (k =? ParagraphKind) || (k =? SetextHeadingKind)).
Lemma closeBlock_plain f src b e : isOpen b = true -> plainKind (bkind b) = true ->
  closeBlock (S f) src b e =
  [match lastBlock (set_bend b e) with Some c => set_lastBlocks (set_bend b e) (closeBlock f src c e) | None => set_bend b e end].
Proof.
  intros Ho Hk. cbn [closeBlock]. rewrite Ho. cbn [negb].
  assert (E : bkind (set_bend b e) = bkind b) by (destruct b; reflexivity). rewrite E.
  unfold plainKind in Hk. apply negb_true_iff in Hk. apply orb_false_iff in Hk. destruct Hk as [Hk H4].
  apply orb_false_iff in Hk. destruct Hk as [Hk H3]. apply orb_false_iff in Hk. destruct Hk as [H1 H2].
  rewrite H1, H2, H3, H4. reflexivity.
Qed.

Definition paraClosed (s e ue : Z) : block := Blk ParagraphKind s e [] [mkI UnparsedKind s ue] 0 0 0 false false.

Lemma closeBlock_doc_para src s ue e : 0 <= s -> s < ue -> s < len src -> at_ src s <> 0 -> at_ src s <> 91 ->
  closeBlock 2 src (rootDoc [paraOpen s ue]) e = [Blk documentKind 0 e [paraClosed s e ue] [] 0 0 0 false false].
Proof.
  intros H0 Hse Hlen Hnz H91.
  assert (Ho : onCloseParagraph src (paraClosed s e ue) = [paraClosed s e ue]).
  { apply (onCloseParagraph_nolabel src _ (mkI UnparsedKind s ue) []); [reflexivity|].
    cbn [paraClosed bik mkI istart]. change (Inl UnparsedKind s ue 0 [] []) with (mkI UnparsedKind s ue).
    rewrite (current_unparsed src s ue H0 Hse Hlen Hnz). apply Z.eqb_neq. exact H91. }
  rewrite (closeBlock_plain 1 src (rootDoc [paraOpen s ue]) e eq_refl eq_refl).
  change (lastBlock (set_bend (rootDoc [paraOpen s ue]) e)) with (Some (paraOpen s ue)). cbv iota.
  rewrite (closeBlock_para 0 src (paraOpen s ue) e eq_refl eq_refl).
  change (set_bend (paraOpen s ue) e) with (paraClosed s e ue). rewrite Ho. reflexivity.
Qed.

Lemma processLine_eof_para st src s ue : 0 <= s -> s < ue -> s < len src -> at_ src s <> 0 -> at_ src s <> 91 ->
  processLine st [paraOpen s ue] (len src) src = ([paraClosed s (len src) ue], stDescending, 0).
Proof.
  intros H0 Hse Hlen Hnz H91. unfold processLine, resetLP. rewrite sl_from_all.
  change (computeTabRem [] 0 0) with 0.
  set (p0 := {| source := src; root := Blk documentKind 0 (-1) [paraOpen s ue] [] 0 0 0 false false; container := Some 0%nat;
               lineStart := len src; line := []; li := 0; col := 0; tabRem := 0; state := st; panicked := 0 |}).
  assert (Hd : descendOpenBlocks p0 = (false, setLP p0 (root p0) (Some 0%nat) 0 0 0 stDescending 0)) by reflexivity.
  rewrite Hd. set (q := setLP p0 (root p0) (Some 0%nat) 0 0 0 stDescending 0).
  change (negb (state q =? stDescendTerminated)) with true. cbv iota.
  unfold openNewBlocks. change (len (line q) =? 0) with true. cbv iota.
  change (bheight (root q)) with 2%nat. change (root q) with (rootDoc [paraOpen s ue]).
  change (source q) with src. change (lineStart q) with (len src).
  rewrite (closeBlock_doc_para src s ue (len src) H0 Hse Hlen Hnz H91).
  reflexivity.
Qed.

(* ---- the block layer on a one-line paragraph document ---- *)
Definition oneRoot (L : bytes) (b : block) : rootB :=
  {| rb_line := 1; rb_start := 0; rb_end := len L; rb_src := L; rb_blk := b |}.

Lemma noEolB_blank_hd c r : isSpaceTabOrLineEnding c = false -> isBlankLine (c :: r) = false.
Proof. intros H. cbn [isBlankLine forallb]. rewrite H. reflexivity. Qed.

Lemma sl_allBlocks_S f s acc : allBlocks (S f) s acc =
  match nextBlock (3 + length (buf s)) s with
  | NBBlock r s' => allBlocks f s' (acc ++ [r])
  | NBEof _ => (acc, 0)
  | NBStuck => (acc, -2)
  | NBPanic site => (acc, site)
  end.
Proof. reflexivity. Qed.
Lemma sl_nextBlock_start fuel L : nextBlock fuel {| buf := L; bi := 0; boff := 0; bline := 1; pending := [] |} =
  skipLoop fuel {| buf := L; bi := 0; boff := 0; bline := 1; pending := [] |}.
Proof. reflexivity. Qed.
Lemma sl_skipLoop_S f s : skipLoop (S f) s =
    let e := lineEnd (buf s) (bi s) in
    if negb (bi s <? e) then NBEof s else
    let ln := upto (buf s) e in
    if isBlankLine ln then
      skipLoop f {| buf := from_ (buf s) e; bi := 0; boff := boff s + unpadded ln; bline := bline s + 1; pending := pending s |}
    else lineLoop f 0 [] 0 {| buf := buf s; bi := e; boff := boff s; bline := bline s; pending := pending s |}.
Proof. reflexivity. Qed.
Lemma sl_lineLoop_S f st children ls s : lineLoop (S f) st children ls s =
    let '(children', st', pn) := processLine st children ls (upto (buf s) (bi s)) in
    if negb (pn =? 0) then NBPanic pn else
    match makeRoot children' s with
    | Some (r, s') => NBBlock r s'
    | None =>
      lineLoop f st' children' (bi s) {| buf := buf s; bi := lineEnd (buf s) (bi s); boff := boff s; bline := bline s; pending := pending s |}
    end.
Proof. reflexivity. Qed.

Theorem parseBlocks_one_para c r :
  let body := c :: r in let L := body ++ [10] in
  noEolB body -> noNul body -> paraStartByte c = true -> c <> 91 -> snd (parseListMarker L) < 0 ->
  parseBlocks L = ([oneRoot L (paraClosed 0 (len L) (len L))], 0).
Proof.
  intros body L Heol Hnul Hc H91 Hm.
  assert (HnulL : noNul L) by (apply noNul_app; [exact Hnul|constructor; [lia|constructor]]).
  assert (HL : L = c :: (r ++ [10])) by reflexivity.
  assert (Hlen : 0 < len L) by (rewrite HL, sl_len_cons; pose proof (sl_len_nonneg (r ++ [10])); lia).
  assert (Hc0 : c <> 0) by (inversion Hnul; assumption).
  unfold parseBlocks. rewrite (pad_noNul L HnulL).
  assert (Hfuel : exists f, length L = S (S f)).
  { rewrite HL. cbn [length]. rewrite app_length. cbn [length]. exists (length r). lia. }
  destruct Hfuel as [f Hf]. rewrite Hf.
  rewrite sl_allBlocks_S. cbn [buf]. rewrite Hf. rewrite sl_nextBlock_start.
  change (3 + S (S f))%nat with (S (S (S (S (S f))))). rewrite sl_skipLoop_S. cbv zeta. cbn [buf bi boff bline pending].
  assert (Hle : lineEnd L 0 = len L).
  { change L with ([] ++ body ++ [10]). change 0 with (len (@nil Z)) at 1. rewrite (lineEnd_lf [] body [] Heol).
    rewrite !sl_len_app. rewrite sl_len_nil. change (len [10]) with 1. lia. }
  rewrite Hle. destruct (Z.ltb_spec 0 (len L)); [|lia]. cbn [negb]. rewrite sl_upto_all.
  rewrite HL at 1. rewrite (noEolB_blank_hd c (r ++ [10]) (psb_ws c Hc)).
  rewrite sl_lineLoop_S. cbn [buf bi boff bline pending]. rewrite sl_upto_all.
  rewrite (processLine_first_para L 0 c (r ++ [10]) eq_refl Hc Hm).
  change (negb (0 =? 0)) with false. cbv iota. cbn [makeRoot paraOpen isOpen bend Z.ltb Z.compare].
  rewrite sl_lineLoop_S. cbn [buf bi boff bline pending].
  rewrite lineEnd_end. rewrite sl_upto_all.
  rewrite <- HL. rewrite Z.add_0_l.
  rewrite (processLine_eof_para stOpenMatched L 0 (len L)); [|lia|lia|lia|rewrite HL; exact Hc0|rewrite HL; exact H91].
  change (negb (0 =? 0)) with false. cbv iota. unfold makeRoot, paraClosed. unfold isOpen. cbn [bend buf bi boff bline pending].
  destruct (Z.ltb_spec (len L) 0); [lia|]. rewrite sl_upto_all, sl_from_all, Z.sub_diag.
  rewrite (unpadded_noNul L HnulL), (fillNulls_noNul L HnulL).
  rewrite sl_allBlocks_S. cbn [buf length Nat.add map app]. rewrite nextBlock_eof.
  unfold oneRoot. rewrite Z.add_0_l. reflexivity.
Qed.
Print Assumptions parseBlocks_one_para.
