(* QFullRefuted.v -- T64: with the inline map of the block layer (QuoteSimDefs.qI: only Text nodes are cut at line ends) the statement
   after the inline pass is false: the RawHTML child of a multi-line HTMLTag node is one node per line in quote D.
   Witness: D = "a <b\nc> d\n".  The corrected statement is QFullDefs.parseFull_quote_statement (qI3: Text and RawHTML nodes are cut). *)
From Coq Require Import List ZArith Lia Bool.
Import ListNotations.
Require Import Base Tree LP Driver Inl3e QuoteSimDefs.
Open Scope Z_scope.

Definition parseFull_quote_qI_statement : Prop := forall D, tabFree D -> D <> [] ->
  exists lb, parseFull (quote D) = ([quoteRoot D lb (quoteKids D (fst (parseFull D)))], 0).

Definition wD : bytes := [97; 32; 60; 98; 10; 99; 62; 32; 100; 10].   (* "a <b\nc> d\n" *)
Lemma wD_tabFree : tabFree wD.
Proof. unfold tabFree, wD. repeat constructor; discriminate. Qed.

Theorem parseFull_quote_qI_refuted : ~ parseFull_quote_qI_statement.
Proof.
  intros H. destruct (H wD wD_tabFree ltac:(discriminate)) as [lb E]. vm_compute in E. destruct lb; discriminate E.
Qed.
Print Assumptions parseFull_quote_qI_refuted.
(* what the two trees are *)
Example wD_plain : map (fun r => bik (rb_blk r)) (fst (parseFull wD)) =
  [[Inl TextKind 0 2 0 [] []; Inl HTMLTagKind 2 7 0 [] [Inl RawHTMLKind 2 7 0 [] []]; Inl TextKind 7 9 0 [] []]].
Proof. vm_compute. reflexivity. Qed.
Example wD_quoted : map (fun r => map bik (bkids (rb_blk r))) (fst (parseFull (quote wD))) =
  [[[Inl TextKind 2 4 0 [] []; Inl HTMLTagKind 4 11 0 [] [Inl RawHTMLKind 4 7 0 [] []; Inl RawHTMLKind 9 11 0 [] []]; Inl TextKind 11 13 0 [] []]]].
Proof. vm_compute. reflexivity. Qed.
