From Coq Require Import List ZArith Lia Bool.
Import ListNotations.
Require Import Base Tree Rdr Link Collect Html Recog LP Rules Starts Driver Rec16 Rec17 Rec18 L2Kind L2CC ShEnv EolCRLFSimTree
  Props LADef TOcp EolFinalDefs EolFinalSimBytes EolFinalSimTree EolFinalGenOcp EolFinalGenTree EolFinalGenClose.
Open Scope Z_scope.

(* C14 (i), final newline: the single-run invariant of the last line before its text is added: code blocks hold no
   SoftLineBreak entry and no entry of a paragraph ends at L (qB, EolFinalSimTree EolFinalGenOcp EolFinalGenTree) together with the paragraph facts nsP and peP (EolFinalGenTree), for every input. *)
(* li never becomes negative *)
Lemma li_advance_ge p n : 0 <= li p -> 0 <= li (advance p n).
Proof.
  intros H. unfold advance. destruct (Z.ltb_spec n 0); [exact H|]. destruct (Z.eqb_spec n 0); [exact H|]. cbv zeta.
  destruct (state p =? stOpening); (match goal with |- context [if ?c then _ else _] => destruct c end; [exact H|cbn [li withCursor setLP withState]; lia]).
Qed.
Lemma li_consumeIndent_loop_ge : forall fuel p n, 0 <= li p -> 0 <= li (consumeIndent_loop fuel p n).
Proof.
  induction fuel as [|f IH]; intros p n H; [exact H|]. cbn [consumeIndent_loop]. destruct (n <=? 0); [exact H|]. cbv zeta.
  set (p0 := if state p =? stOpening then withState p stOpenMatched else p). assert (H0 : 0 <= li p0) by (unfold p0; destruct (state p =? stOpening); exact H). clearbody p0.
  destruct (_ && _); [apply IH; cbn [li withCursor setLP]; lia|]. destruct (_ && _); [|exact H0].
  destruct (n <? tabRem p0); [exact H0|]. apply IH. cbn [li withCursor setLP]. lia.
Qed.
Lemma li_consumeIndent_ge p n : 0 <= li p -> 0 <= li (consumeIndent p n). Proof. apply li_consumeIndent_loop_ge. Qed.
Lemma li_consumeLine_ge p : 0 <= li p -> 0 <= li (consumeLine p).
Proof.
  intros H. unfold consumeLine. pose proof (li_advance_ge p (len (line p) - li p) H) as H1. set (q := advance p _) in *. clearbody q.
  destruct (_ || _); [exact H1|]. destruct (_ =? stDescending); exact H1.
Qed.

Section Q.
  Variable L : Z.
  (* the tree part: for some finite set SS of entry lists with the facts PE relative to the start of the line *)
  Definition QT (p : lp) : Prop := exists SS, qB2 L SS (source p) (root p) = true /\ EV (source p) SS (lineStart p).
  Definition QP (p : lp) : Prop := QT p /\ 0 <= li p.
  Lemma QP_qB p : QP p -> qB L (root p) = true. Proof. intros [(SS & A & _) _]. eapply qB2_qB, A. Qed.
  Lemma QP_li p : QP p -> 0 <= li p. Proof. intros [_ H]. exact H. Qed.
  Lemma QP_ls p : QP p -> 0 <= lineStart p. Proof. intros [(SS & _ & (_ & _ & H & _)) _]. lia. Qed.

  Lemma QP_same p p' : same_tree p p' -> envOf p' = envOf p -> 0 <= li p' -> QP p -> QP p'.
  Proof. intros [E _] Ee Hl [(SS & A & B) _]. unfold envOf in Ee. injection Ee as E1 E2 _. split; [exists SS; rewrite E, E1, E2; split; assumption|exact Hl]. Qed.
  Lemma QP_opened p : QP p -> QP (if state p =? stOpening then withState p stOpenMatched else p).
  Proof. intros H. destruct (_ =? _); exact H. Qed.
  Lemma QP_advance p n : QP p -> QP (advance p n). Proof. intros H. apply (QP_same p); [apply same_advance|apply env_advance|apply li_advance_ge, QP_li, H|exact H]. Qed.
  Lemma QP_consumeLine p : QP p -> QP (consumeLine p). Proof. intros H. apply (QP_same p); [apply same_consumeLine|apply env_consumeLine|apply li_consumeLine_ge, QP_li, H|exact H]. Qed.
  Lemma QP_consumeIndent p n : QP p -> QP (consumeIndent p n). Proof. intros H. apply (QP_same p); [apply same_consumeIndent|apply env_consumeIndent|apply li_consumeIndent_ge, QP_li, H|exact H]. Qed.
  Lemma QP_withCont p c : QP p -> QP (withCont p c). Proof. exact (fun H => H). Qed.
  Lemma QP_withState p c : QP p -> QP (withState p c). Proof. exact (fun H => H). Qed.
  Lemma QP_panic p c : QP p -> QP (panic p c). Proof. exact (fun H => H). Qed.

  Lemma qb_updAt_at SS src f d r : qB2 L SS src r = true -> (forall x, getAt d r = Some x -> qB2 L SS src x = true -> qB2 L SS src (f x) = true) -> qB2 L SS src (updAt d f r) = true.
  Proof. apply (allB_updAt_at (qP2 L SS src) (qP2_kids L SS src)). Qed.
  Lemma QP_updCont_at p f : QP p -> (forall SS x, getAt (cdepth p) (root p) = Some x -> qB2 L SS (source p) x = true -> qB2 L SS (source p) (f x) = true) -> QP (updCont p f).
  Proof. intros [(SS & A & B) Hl] Hf. split; [|exact Hl]. exists SS. split; [|exact B]. unfold updCont. cbn [root source withRoot setLP]. apply qb_updAt_at; [exact A|apply Hf]. Qed.
  Lemma QP_updCont p f : QP p -> (forall SS x, qB2 L SS (source p) x = true -> qB2 L SS (source p) (f x) = true) -> QP (updCont p f).
  Proof. intros H Hf. apply QP_updCont_at; [exact H|]. intros SS x _. apply Hf. Qed.

  Lemma QP_closeLastChildAt p d e : 0 <= e -> QP p -> QP (closeLastChildAt p d e).
  Proof.
    intros He [(SS & A & B) Hl]. split; [|exact Hl]. exists SS. split; [|exact B]. unfold closeLastChildAt. cbn [root source withRoot setLP]. apply qb_updAt_at; [exact A|].
    intros x _ Hx. destruct (lastBlock x) as [c|] eqn:El; [|exact Hx].
    apply (allB_set_lastBlocks (qP2 L SS (source p)) (qP2_kids L SS (source p))); [exact Hx|]. apply qB2_closeBlock; [exact He|]. eapply allB_lastBlock; eassumption.
  Qed.
  Lemma QP_openBlock_up : forall fuel p kind, QP p -> QP (openBlock_up fuel p kind).
  Proof.
    induction fuel as [|f IH]; intros p kind H; [exact H|]. cbn [openBlock_up].
    destruct (canContain _ _); [exact H|]. destruct (cdepth p); [exact H|]. apply IH. apply (QP_closeLastChildAt p n (lineStart p) (QP_ls p H) H).
  Qed.
  Lemma QP_openBlock p kind : QP p -> QP (openBlock p kind).
  Proof.
    intros H. unfold openBlock. destruct (_ || _); [exact H|]. cbv zeta.
    match goal with |- QP (withCont ?q _) => change (QP q) end. apply QP_updCont.
    - pose proof (QP_openBlock_up (S (cdepth (if state p =? stOpening then withState p stOpenMatched else p))) _ kind (QP_opened p H)) as H2.
      apply QP_closeLastChildAt; [apply (QP_ls _ H2)|exact H2].
    - intros SS x Hx. apply qB2_append; [exact Hx|apply qB2_newBlock].
  Qed.
  Lemma QP_endBlock p : QP p -> QP (endBlock p).
  Proof.
    intros H. unfold endBlock. destruct (_ || _); [exact H|]. cbv zeta.
    destruct (cdepth _) eqn:Ed; [destruct (state p =? stOpening); exact H|].
    match goal with |- QP (withCont ?q _) => change (QP q) end. apply QP_closeLastChildAt; [|apply QP_opened, H].
    pose proof (QP_ls p H). pose proof (QP_li p H). destruct (state p =? stOpening); cbn [lineStart li withState setLP]; lia.
  Qed.

  (* entries *)
  Lemma ikind_info src a b : ikind (parseInfoString src a b) = InfoStringKind.
  Proof. unfold parseInfoString. destruct (infoString_loop _ src a b a []). reflexivity. Qed.

  Lemma QP_collectInline p kind n K : QP p -> ckind p K -> isParaK K = false -> kind <> SoftLineBreakKind -> QP (collectInline p kind n).
  Proof.
    intros H Hc HK Hk. unfold collectInline. destruct (_ =? stDescendTerminated); [exact H|]. cbv zeta.
    set (p0 := if state p =? stOpening then withState p stOpenMatched else p).
    assert (H0 : QP p0) by (apply QP_opened, H).
    assert (C0 : ckind p0 K) by (eapply ckind_same; [apply same_opened|exact Hc]).
    set (p1 := if 0 <? indent p0 then _ else p0).
    assert (H1 : QP p1 /\ ckind p1 K).
    { unfold p1. destruct (0 <? indent p0); [|tauto]. split.
      - apply QP_updCont_at; [apply QP_advance, H0|]. intros SS x Hx Hq. apply qB2_add_ik; [exact Hq|discriminate|].
        rewrite (ckind_same p0 (advance p0 _) K (same_advance p0 _) C0 x Hx). exact HK.
      - apply ckind_updCont; [intros b; apply bkind_set_bik|]. eapply ckind_same; [apply same_advance|exact C0]. }
    destruct H1 as [H1 C1].
    apply QP_updCont_at; [apply QP_advance, H1|]. intros SS x Hx Hq. apply qB2_add_ik; [exact Hq| |].
    - destruct (kind =? InfoStringKind); [rewrite ikind_info; discriminate|exact Hk].
    - rewrite (ckind_same p1 (advance p1 n) K (same_advance p1 n) C1 x Hx). exact HK.
  Qed.

  (* match rules *)
  Lemma QP_matchRule p : QP p -> QP (snd (matchRule p)).
  Proof.
    intros H. unfold matchRule. cbv zeta.
    destruct (_ || _); [exact H|].
    destruct (_ =? ListItemKind).
    { unfold matchListItem. destruct (isRestBlank p); [destruct (negb _); [exact H|apply QP_consumeIndent, H]|].
      destruct (_ <=? _); [apply QP_consumeIndent, H|exact H]. }
    destruct (_ =? BlockQuoteKind).
    { unfold matchBlockQuote. cbv zeta. destruct (_ <=? _); [exact H|]. destruct (negb _); [exact H|]. cbn [snd].
      unfold eatQuoteMarker. cbv zeta. destruct (0 <? _); repeat first [apply QP_consumeIndent|apply QP_advance]; exact H. }
    destruct (_ =? FencedCodeBlockKind).
    { unfold matchFenced. cbv zeta. destruct (if _ <? _ then _ else false); cbn [snd]; [apply QP_consumeLine|apply QP_consumeIndent]; exact H. }
    destruct (_ =? IndentedCodeBlockKind).
    { unfold matchIndented. cbv zeta. destruct (_ <? _); [destruct (negb _)|]; cbn [snd]; try apply QP_consumeIndent; exact H. }
    destruct (containerKind p =? HTMLBlockKind) eqn:EH.
    { unfold matchHTML. destruct (htmlEnd _ _); [|exact H]. destruct (isRestBlank _); [exact H|]. cbn [snd]. apply QP_consumeLine.
      apply (QP_collectInline p RawHTMLKind _ (containerKind p)); [exact H|apply ckind_self| |discriminate].
      apply Z.eqb_eq in EH. rewrite EH. reflexivity. }
    exact H.
  Qed.
  Lemma QP_descend_loop : forall fuel p d, QP p -> QP (snd (descend_loop fuel p d)).
  Proof.
    induction fuel as [|f IH]; intros p d H; [exact H|]. cbn [descend_loop]. cbv zeta.
    destruct (getAt (S d) (root p)) as [c|]; [|exact H].
    destruct (negb (isOpen c)); [exact H|]. destruct (negb (hasMatch _)); [exact H|].
    pose proof (QP_matchRule (withState (withCont p (Some (S d))) stDescending) H) as H2.
    destruct (matchRule _) as [ok p2]. cbn [snd] in H2.
    destruct (state p2 =? stDescendTerminated); [cbn [snd]; apply (QP_closeLastChildAt p2 d); [pose proof (QP_ls p2 H2); pose proof (QP_li p2 H2); lia|exact H2]|].
    destruct (negb ok); [exact H2|]. apply IH. exact H2.
  Qed.

  (* ---- block starts ---- *)
  Ltac chainq H :=
    repeat match goal with
    | |- QP (consumeLine _) => apply QP_consumeLine
    | |- QP (endBlock _) => apply QP_endBlock
    | |- QP (advance _ _) => apply QP_advance
    | |- QP (consumeIndent _ _) => apply QP_consumeIndent
    | |- QP (openBlock _ _) => apply QP_openBlock
    | |- QP (updCont _ _) => apply QP_updCont; [|intros ? ? ?; rewrite ?qB2_set_bn, ?qB2_set_bchar, ?qB2_set_bindent; assumption]
    end;
    try exact H.

  Lemma QP_startBlockQuote p : QP p -> QP (startBlockQuote p).
  Proof. intros H. unfold startBlockQuote. cbv zeta. destruct (_ <=? _); [exact H|]. destruct (negb _); [exact H|]. destruct (0 <? _); chainq H. Qed.
  Lemma QP_startATX p : st_open p -> QP p -> QP (startATX p).
  Proof.
    intros Hs H. unfold startATX. cbv zeta. destruct (_ <=? _); [exact H|].
    destruct (parseATXHeading _) as [[level cs] ce]. destruct (level <? 1); [exact H|].
    apply QP_endBlock, QP_consumeLine.
    apply (QP_collectInline _ _ _ ATXHeadingKind); [chainq H| |reflexivity|discriminate].
    eapply ckind_same; [apply same_advance|]. apply ckind_updCont; [intros b; destruct b; reflexivity|].
    apply ckind_openBlock, st_open_consumeIndent, Hs.
  Qed.
  Lemma QP_startFenced p : st_open p -> QP p -> QP (startFenced p).
  Proof.
    intros Hs H. unfold startFenced. cbv zeta. destruct (_ <=? _); [exact H|].
    destruct (parseCodeFence _) as [[[fc fnn] is_] ie]. destruct (fnn =? 0); [exact H|].
    apply QP_consumeLine. destruct (spanValid _); [|chainq H].
    apply (QP_collectInline _ _ _ FencedCodeBlockKind); [chainq H| |reflexivity|discriminate].
    eapply ckind_same; [apply same_advance|].
    apply ckind_updCont; [intros b; destruct b; reflexivity|]. apply ckind_updCont; [intros b; destruct b; reflexivity|].
    apply ckind_openBlock, st_open_consumeIndent, Hs.
  Qed.
  Lemma QP_startHTML p : st_open p -> QP p -> QP (startHTML p).
  Proof.
    intros Hs H. unfold startHTML. cbv zeta. destruct (_ <=? _); [exact H|]. destruct (negb _); [exact H|].
    destruct (_ <? 0); [exact H|]. destruct (negb _ && _); [exact H|]. destruct (htmlEnd _ _); [|chainq H].
    apply QP_endBlock, QP_consumeLine. apply (QP_collectInline _ _ _ HTMLBlockKind); [chainq H| |reflexivity|discriminate].
    apply ckind_updCont; [intros b; destruct b; reflexivity|]. apply ckind_openBlock, Hs.
  Qed.
  Lemma chpc_leaves p x : containerKind p = ParagraphKind -> containerHasParagraphContent p = true -> getAt (cdepth p) (root p) = Some x ->
    bkind x = ParagraphKind /\ leavesPara (source p) (bik x) = true.
  Proof.
    intros Ek Hc Hx. pose proof (ckind_self p x Hx) as Ex. rewrite Ek in Ex. split; [exact Ex|].
    unfold containerHasParagraphContent in Hc. rewrite Ek in Hc. cbn [Z.eqb Pos.eqb negb ParagraphKind] in Hc. unfold contBlock in Hc. rewrite Hx in Hc.
    rewrite <- (leavesPara_of (source p) x Ex). exact Hc.
  Qed.
  Lemma QP_startSetext p : QP p -> QP (startSetext p).
  Proof.
    intros H. unfold startSetext. cbv zeta. destruct (negb (containerKind p =? ParagraphKind)) eqn:Ek; [exact H|]. apply negb_false_iff, Z.eqb_eq in Ek.
    do 2 (match goal with |- QP (if ?c then _ else _) => destruct c end; [exact H|]).
    destruct (containerHasParagraphContent p) eqn:Ec; cbn [negb]; [|exact H].
    apply QP_endBlock, QP_consumeLine. apply QP_updCont_at; [exact H|]. intros SS x Hx Hq. rewrite qB2_set_bn.
    destruct (chpc_leaves p x Ek Ec Hx) as [E1 E2]. apply qB2_set_bkind_setext; assumption.
  Qed.
  Lemma QP_startThematic p : QP p -> QP (startThematic p).
  Proof. intros H. unfold startThematic. cbv zeta. destruct (_ <=? _); [exact H|]. destruct (_ <? 0); [exact H|]. chainq H. Qed.
  Lemma QP_startListItem p : QP p -> QP (startListItem p).
  Proof.
    intros H. unfold startListItem. cbv zeta. destruct (_ <=? _); [exact H|].
    destruct (parseListMarker _) as [[delim n] mend]. destruct (_ || _); [exact H|]. destruct (_ && _); [exact H|].
    match goal with |- context [endBlock ?X] => assert (H1 : QP (endBlock X)) end.
    { destruct (negb _ || negb _); chainq H. }
    match goal with |- context [endBlock ?X] => set (q := endBlock X) in * end.
    destruct (isRestBlank q); [chainq H1|].
    destruct (indent q <? 1); [chainq H1|]. destruct (4 <? indent q); chainq H1.
  Qed.
  Lemma QP_startIndented p : QP p -> QP (startIndented p).
  Proof. intros H. unfold startIndented. destruct (_ || _ || _); [exact H|]. chainq H. Qed.

  Definition startOKq (f : lp -> lp) : Prop := forall p, st_open p -> QP p -> QP (f p).
  Lemma blockStarts_okq : Forall startOKq blockStarts.
  Proof.
    unfold blockStarts.
    apply Forall_cons; [intros p Hs H; apply QP_startBlockQuote; assumption|].
    apply Forall_cons; [intros p Hs H; apply QP_startATX; assumption|].
    apply Forall_cons; [intros p Hs H; apply QP_startFenced; assumption|].
    apply Forall_cons; [intros p Hs H; apply QP_startHTML; assumption|].
    apply Forall_cons; [intros p Hs H; apply QP_startSetext; assumption|].
    apply Forall_cons; [intros p Hs H; apply QP_startThematic; assumption|].
    apply Forall_cons; [intros p Hs H; apply QP_startListItem; assumption|].
    apply Forall_cons; [intros p Hs H; apply QP_startIndented; assumption|].
    apply Forall_nil.
  Qed.
  Lemma QP_tryStarts : forall fs p, Forall startOKq fs -> QP p -> QP (snd (tryStarts fs p)).
  Proof.
    induction fs as [|f r IH]; intros p Hfs H; [exact H|]. cbn [tryStarts]. cbv zeta. inversion Hfs as [|? ? Hf Hr]; subst.
    assert (H1 : QP (f (withState p stOpening))) by (apply Hf; [left; reflexivity|exact H]).
    destruct (_ || _); [exact H1|]. apply IH; assumption.
  Qed.
  Lemma QP_opening_loop : forall fuel p, QP p -> QP (snd (opening_loop fuel p)).
  Proof.
    induction fuel as [|f IH]; intros p H; [exact H|]. cbn [opening_loop].
    destruct (_ || _); [|exact H].
    pose proof (QP_tryStarts blockStarts p blockStarts_okq H) as H1. destruct (tryStarts blockStarts p) as [[|] p1]; cbn [snd] in H1.
    - destruct (_ =? stLineConsumed); [exact H1|apply IH; exact H1].
    - exact H1.
  Qed.
  Lemma QP_deferredClose p : QP p -> QP (deferredClose p).
  Proof. intros H. unfold deferredClose. cbv zeta. destruct (_ && _); [exact H|apply QP_closeLastChildAt; [apply (QP_ls p H)|exact H]]. Qed.
End Q.
