From Coq Require Import List ZArith Lia Bool.
Import ListNotations.
Require Import Base Tree Rdr Link Collect Html Recog LP Rules Starts Driver L2Kind2.
Open Scope Z_scope.

(* T64-pure, part 1.  The entry-kind invariant `pv`: a text container (paragraph, setext heading, ATX heading) holds
   only Unparsed entries; every other block holds no Unparsed entry.  Tree level, onClose handlers, line-parser
   operations, collectInline, match rules, descendOpenBlocks.  (A strengthening of the walk of L2Kind2.v.) *)

Definition isTextK (K : Z) : bool := (K =? ParagraphKind) || (K =? SetextHeadingKind) || (K =? ATXHeadingKind).
Definition tk (K : Z) (u : inline) : bool :=
  if isTextK K then ikind u =? UnparsedKind else negb (ikind u =? UnparsedKind).
Fixpoint pv (b : block) : bool :=
  match b with Blk K _ _ bk ik _ _ _ _ _ => forallb (tk K) ik && forallb pv bk end.
Definition pvL (l : list block) : bool := forallb pv l.

Lemma tk_shift K n u : tk K (shiftI n u) = tk K u.
Proof. destruct u as [k s e ind r ks]. reflexivity. Qed.
Lemma tk_textK K K' u : isTextK K' = isTextK K -> tk K' u = tk K u.
Proof. intros H. unfold tk. rewrite H. reflexivity. Qed.
Lemma isCode_notText K : isCode K = true -> isTextK K = false.
Proof.
  unfold isCode. intros H. apply orb_true_iff in H. destruct H as [H|H]; apply Z.eqb_eq in H; subst K; reflexivity.
Qed.

Lemma pv_eq b : pv b = forallb (tk (bkind b)) (bik b) && pvL (bkids b).
Proof. destruct b; reflexivity. Qed.
Lemma pv_parts b : pv b = true -> forallb (tk (bkind b)) (bik b) = true /\ pvL (bkids b) = true.
Proof. rewrite pv_eq. apply andb_true_iff. Qed.

Lemma pv_set_bend b v : pv (set_bend b v) = pv b. Proof. destruct b; reflexivity. Qed.
Lemma pv_set_bstart b v : pv (set_bstart b v) = pv b. Proof. destruct b; reflexivity. Qed.
Lemma pv_set_bn b v : pv (set_bn b v) = pv b. Proof. destruct b; reflexivity. Qed.
Lemma pv_set_bchar b v : pv (set_bchar b v) = pv b. Proof. destruct b; reflexivity. Qed.
Lemma pv_set_bindent b v : pv (set_bindent b v) = pv b. Proof. destruct b; reflexivity. Qed.
Lemma pv_set_bloose b v : pv (set_bloose b v) = pv b. Proof. destruct b; reflexivity. Qed.
Lemma pv_set_blast b v : pv (set_blast b v) = pv b. Proof. destruct b; reflexivity. Qed.
Lemma pv_set_bkind b K' : isTextK K' = isTextK (bkind b) -> pv b = true -> pv (set_bkind b K') = true.
Proof.
  intros HK H. apply pv_parts in H. destruct H as [Hi Hk]. destruct b as [K s e bk ik a n c l lb].
  unfold pvL in *. cbn [pv set_bkind bkind bik bkids] in *. rewrite Hk, andb_true_r.
  rewrite forallb_forall in *. intros u Hu. rewrite (tk_textK K K' u HK). apply Hi, Hu.
Qed.
Lemma pv_set_bkids b ks : pv b = true -> pvL ks = true -> pv (set_bkids b ks) = true.
Proof. intros H Hk. apply pv_parts in H. destruct H as [H _]. destruct b. unfold pvL in *. cbn [pv set_bkids bik bkids bkind] in *. rewrite H, Hk. reflexivity. Qed.
Lemma pv_set_bik b ik : pv b = true -> forallb (tk (bkind b)) ik = true -> pv (set_bik b ik) = true.
Proof. intros H Hk. apply pv_parts in H. destruct H as [_ H]. destruct b. unfold pvL in *. cbn [pv set_bik bik bkids bkind] in *. rewrite H, Hk. reflexivity. Qed.
Lemma pv_add_ik b u : pv b = true -> tk (bkind b) u = true -> pv (set_bik b (bik b ++ [u])) = true.
Proof.
  intros H Hu. apply pv_set_bik; [assumption|]. apply pv_parts in H. destruct H as [H _].
  rewrite forallb_app, H. cbn. rewrite Hu. reflexivity.
Qed.

Lemma pvL_app a b : pvL (a ++ b) = pvL a && pvL b. Proof. apply forallb_app. Qed.
Lemma pvL_removelast l : pvL l = true -> pvL (removelast l) = true.
Proof. apply forallb_sub. intros x. apply removelast_In. Qed.
Lemma pv_lastBlock b c : pv b = true -> lastBlock b = Some c -> pv c = true.
Proof.
  intros H Hl. apply pv_parts in H. destruct H as [_ H]. unfold pvL in H. rewrite forallb_forall in H.
  apply H. eapply lastBlock_In. exact Hl.
Qed.
Lemma pv_set_lastBlocks b repl : pv b = true -> pvL repl = true -> pv (set_lastBlocks b repl) = true.
Proof.
  intros H Hr. unfold set_lastBlocks. apply pv_set_bkids; [assumption|].
  rewrite pvL_app, Hr, andb_true_r. apply pvL_removelast. apply pv_parts in H. tauto.
Qed.

Lemma pv_updAt f : (forall b, pv b = true -> pv (f b) = true) ->
  forall d b, pv b = true -> pv (updAt d f b) = true.
Proof.
  intros Hf. induction d as [|d IH]; intros b H; [apply Hf; assumption|]. cbn [updAt].
  destruct (lastBlock b) as [c|] eqn:El; [|assumption].
  apply pv_set_lastBlocks; [assumption|]. unfold pvL. cbn [forallb]. rewrite andb_true_r.
  apply IH. eapply pv_lastBlock; eassumption.
Qed.
Lemma pv_updAt_at f : forall d b, pv b = true ->
  (forall x, getAt d b = Some x -> pv x = true -> pv (f x) = true) -> pv (updAt d f b) = true.
Proof.
  induction d as [|d IH]; intros b H Hf; [apply Hf; [reflexivity|assumption]|]. cbn [updAt].
  destruct (lastBlock b) as [c|] eqn:El; [|assumption].
  apply pv_set_lastBlocks; [assumption|]. unfold pvL. cbn [forallb]. rewrite andb_true_r.
  apply IH; [eapply pv_lastBlock; eassumption|]. intros x Hx. apply Hf. cbn [getAt]. rewrite El. exact Hx.
Qed.

(* ---- onClose handlers ---- *)
Lemma pv_onCloseIndented src b : pv b = true -> pv (onCloseIndented src b) = true.
Proof.
  intros H. unfold onCloseIndented. apply pv_set_bik; [assumption|].
  apply pv_parts in H. destruct H as [H _]. revert H. apply forallb_sub. intros x Hx.
  apply in_rev in Hx. apply trimBlankTail_sub in Hx. apply in_rev in Hx.
  destruct (rev (bik b)) as [|lst [|prev r]] eqn:Er; try exact Hx.
  destruct (_ && _ && _ && _); [|exact Hx].
  apply in_rev in Hx. apply in_rev. rewrite Er. right. exact Hx.
Qed.
Lemma pv_onCloseList b : pv b = true -> pv (onCloseList b) = true.
Proof.
  intros H. unfold onCloseList. cbv zeta. destruct (bloose b || _); [|assumption].
  apply pv_set_bkids; [rewrite pv_set_bloose; assumption|].
  apply pv_parts in H. destruct H as [_ H]. unfold pvL in *. rewrite forallb_forall in *.
  intros x Hx. apply in_map_iff in Hx. destruct Hx as (y & <- & Hy). rewrite pv_set_bloose. apply H, Hy.
Qed.
Lemma pv_refDef s e kids : forallb (tk LinkReferenceDefinitionKind) kids = true -> pv (refDefBlock s e kids) = true.
Proof. intros H. unfold refDefBlock. cbn [pv forallb]. rewrite H. reflexivity. Qed.

Lemma pv_ocp : forall fuel rfuel src orig orphan r result,
  pv orig = true -> (match orphan with Some o => pv o = true | None => True end) -> pvL result = true ->
  pvL (ocp_loop fuel rfuel src orig orphan r result) = true.
Proof.
  induction fuel as [|f IH]; intros rfuel src orig orphan r result Ho Hor Hr.
  { cbn [ocp_loop]. rewrite pvL_app, Hr. cbn. rewrite Ho. reflexivity. }
  assert (Hkeep : pvL (result ++ [orig]) = true) by (rewrite pvL_app, Hr; cbn; rewrite Ho; reflexivity).
  assert (Hwo : forall res, pvL res = true -> pvL (match orphan with Some o => res ++ [o] | None => res end) = true).
  { intros res Hres. destruct orphan as [o|]; [|assumption]. rewrite pvL_app, Hres. cbn. rewrite Hor. reflexivity. }
  assert (Hcut : forall pos, pv (set_bik (set_bstart orig pos) (from_ (bik orig) (nodeIndexForPosition (bik orig) pos))) = true).
  { intros pos. apply pv_set_bik; [rewrite pv_set_bstart; assumption|]. rewrite bkind_set_bstart.
    apply pv_parts in Ho. destruct Ho as [Ho _]. revert Ho. apply forallb_sub. intros x. apply from_sub. }
  cbn [ocp_loop]. cbv zeta.
  destruct (parseLinkLabel rfuel r) as [[lspan linner] r1].
  destruct (negb (spanValid lspan)); [assumption|].
  destruct (current r1) as [c r2]. destruct (negb (c =? 58)); [assumption|].
  destruct (next r2) as [? r3]. destruct (skipLinkSpace rfuel r3) as [ok r4]. destruct (negb ok); [assumption|].
  destruct (parseLinkDestination rfuel r4) as [[dspan dtext] r5]. destruct (negb (spanValid dspan)); [assumption|].
  destruct (readEOL rfuel r5) as [destEOL r6]. destruct (current r6) as [c6 r7].
  destruct (_ && _ && _); [assumption|].
  set (labelInline := Inl LinkLabelKind _ _ 0 _ _). set (destInline := Inl LinkDestinationKind _ _ 0 [] _).
  assert (H2 : pvL (result ++ [refDefBlock (fst lspan) destEOL [labelInline; destInline]]) = true).
  { rewrite pvL_app, Hr. cbn [pvL forallb andb]. rewrite pv_refDef; reflexivity. }
  destruct (skipLinkSpace rfuel r7) as [ok2 r8]. destruct (negb ok2); [apply Hwo; assumption|].
  destruct (parseLinkTitle rfuel r8) as [[tspan ttext] r9].
  destruct (negb (spanValid tspan)).
  { destruct (destEOL <? 0); [assumption|]. destruct (_ <? 0); [apply Hwo; assumption|].
    apply IH; [apply Hcut|assumption|assumption]. }
  destruct (readEOL rfuel r9) as [titleEOL r10].
  destruct (titleEOL <? 0).
  { destruct (destEOL <? 0); [assumption|]. destruct (_ <? 0); [apply Hwo; assumption|].
    rewrite app_assoc, pvL_app, H2. cbn. rewrite Hcut. reflexivity. }
  set (titleInline := Inl LinkTitleKind _ _ 0 [] _).
  assert (H3 : pvL (result ++ [refDefBlock (fst lspan) titleEOL [labelInline; destInline; titleInline]]) = true).
  { rewrite pvL_app, Hr. cbn [pvL forallb andb]. rewrite pv_refDef; reflexivity. }
  destruct (_ <? 0); [apply Hwo; assumption|]. apply IH; [apply Hcut|assumption|assumption].
Qed.

Lemma pv_onCloseParagraph src orig : pv orig = true -> pvL (onCloseParagraph src orig) = true.
Proof.
  intros H. unfold onCloseParagraph. destruct (bik orig) as [|first rest] eqn:Eb; [cbn; rewrite H; reflexivity|].
  cbv zeta. rewrite <- Eb. apply pv_ocp; [assumption| |reflexivity].
  destruct (bkind orig =? SetextHeadingKind); [|exact I]. reflexivity.
Qed.

Lemma pv_closeBlock src e : forall fuel b, pv b = true -> pvL (closeBlock fuel src b e) = true.
Proof.
  induction fuel as [|f IH]; intros b H; [cbn; rewrite H; reflexivity|]. cbn [closeBlock].
  destruct (negb (isOpen b)); [cbn; rewrite H; reflexivity|]. cbv zeta.
  assert (Hcl : forall x, pv x = true ->
            pv (match lastBlock x with Some c => set_lastBlocks x (closeBlock f src c e) | None => x end) = true).
  { intros x Hx. destruct (lastBlock x) as [c|] eqn:El; [|assumption].
    apply pv_set_lastBlocks; [assumption|]. apply IH. eapply pv_lastBlock; eassumption. }
  assert (H1 : pv (set_bend b e) = true) by (rewrite pv_set_bend; assumption).
  destruct (bkind (set_bend b e) =? ListKind).
  { cbn [pvL forallb]. rewrite Hcl; [reflexivity|]. apply pv_onCloseList. assumption. }
  destruct (bkind (set_bend b e) =? IndentedCodeBlockKind).
  { cbn [pvL forallb]. rewrite Hcl; [reflexivity|]. apply pv_onCloseIndented. assumption. }
  destruct (_ || _); [apply pv_onCloseParagraph; assumption|].
  cbn [pvL forallb]. rewrite Hcl; [reflexivity|assumption].
Qed.

(* ---- the line parser ---- *)
Definition pvP (p : lp) : Prop := pv (root p) = true.
Lemma pvP_same p p' : same_tree p p' -> pvP p -> pvP p'.
Proof. intros [E1 _]. unfold pvP. rewrite E1. tauto. Qed.
Lemma pvP_advance p n : pvP p -> pvP (advance p n). Proof. apply pvP_same, same_advance. Qed.
Lemma pvP_consumeLine p : pvP p -> pvP (consumeLine p). Proof. apply pvP_same, same_consumeLine. Qed.
Lemma pvP_consumeIndent p n : pvP p -> pvP (consumeIndent p n). Proof. apply pvP_same, same_consumeIndent. Qed.
Lemma pvP_opened p : pvP p -> pvP (if state p =? stOpening then withState p stOpenMatched else p).
Proof. apply pvP_same, same_opened. Qed.

Lemma pvP_updCont p f : pvP p -> (forall b, pv b = true -> pv (f b) = true) -> pvP (updCont p f).
Proof. intros H Hf. unfold pvP, updCont. cbn. apply pv_updAt; assumption. Qed.
Lemma pvP_updCont_at p f : pvP p ->
  (forall b, getAt (cdepth p) (root p) = Some b -> pv b = true -> pv (f b) = true) -> pvP (updCont p f).
Proof. intros H Hf. unfold pvP, updCont. cbn. apply pv_updAt_at; assumption. Qed.

Lemma pvP_closeLastChildAt p d e : pvP p -> pvP (closeLastChildAt p d e).
Proof.
  intros H. unfold pvP, closeLastChildAt. cbn. apply pv_updAt; [|assumption].
  intros b Hb. destruct (lastBlock b) as [c|] eqn:El; [|assumption].
  apply pv_set_lastBlocks; [assumption|]. apply pv_closeBlock. eapply pv_lastBlock; eassumption.
Qed.
Lemma pvP_openBlock_up : forall fuel p kind, pvP p -> pvP (openBlock_up fuel p kind).
Proof.
  induction fuel as [|f IH]; intros p kind H; [assumption|]. cbn [openBlock_up].
  destruct (canContain _ _); [assumption|]. destruct (cdepth p); [assumption|].
  apply IH. apply (pvP_closeLastChildAt p n (lineStart p) H).
Qed.
Lemma pvP_openBlock p kind : pvP p -> pvP (openBlock p kind).
Proof.
  intros H. unfold openBlock. destruct (_ || _); [assumption|]. cbv zeta.
  match goal with |- pvP (withCont ?q _) => change (pvP q) end. apply pvP_updCont.
  - apply pvP_closeLastChildAt, pvP_openBlock_up, pvP_opened, H.
  - intros b Hb. apply pv_set_bkids; [assumption|]. rewrite pvL_app. apply pv_parts in Hb. destruct Hb as [_ Hb]. rewrite Hb. reflexivity.
Qed.
Lemma pvP_endBlock p : pvP p -> pvP (endBlock p).
Proof.
  intros H. unfold endBlock. destruct (_ || _); [assumption|]. cbv zeta.
  destruct (cdepth _) eqn:Ed; [destruct (state p =? stOpening); assumption|].
  match goal with |- pvP (withCont ?q _) => change (pvP q) end. apply pvP_closeLastChildAt, pvP_opened, H.
Qed.

(* CollectInline: raw HTML into an HTML block, an info string into a fenced code block; an Unparsed entry into an ATX
   heading, and then only at a position without indentation (no Indent entry is added) *)
Definition okFor2 (p : lp) (kind K : Z) : Prop :=
  (kind = RawHTMLKind /\ K = HTMLBlockKind) \/ (kind = UnparsedKind /\ K = ATXHeadingKind /\ indent p <= 0) \/
  (kind = InfoStringKind /\ K = FencedCodeBlockKind).
Lemma indent_opened p : indent (if state p =? stOpening then withState p stOpenMatched else p) = indent p.
Proof. destruct (_ =? _); reflexivity. Qed.
Lemma tk_info K src s e : K = FencedCodeBlockKind -> tk K (parseInfoString src s e) = true.
Proof. intros ->. unfold parseInfoString. destruct (infoString_loop _ _ _ _ _ _). reflexivity. Qed.

Lemma pvP_collectInline p kind n K : pvP p -> ckind p K -> okFor2 p kind K -> pvP (collectInline p kind n).
Proof.
  intros H Hc Hk. unfold collectInline. destruct (_ =? stDescendTerminated); [assumption|]. cbv zeta.
  set (p0 := if state p =? stOpening then withState p stOpenMatched else p).
  assert (H0 : pvP p0) by (apply pvP_opened, H).
  assert (C0 : ckind p0 K) by (eapply ckind_same; [apply same_opened|exact Hc]).
  assert (I0 : indent p0 = indent p) by apply indent_opened.
  assert (HI : isTextK K = false \/ indent p0 <= 0).
  { destruct Hk as [[_ ->]|[(_ & _ & Hz)|[_ ->]]]; [left; reflexivity|right; rewrite I0; exact Hz|left; reflexivity]. }
  set (p1 := if 0 <? indent p0 then _ else p0).
  assert (H1 : pvP p1 /\ ckind p1 K).
  { unfold p1. destruct (Z.ltb_spec 0 (indent p0)) as [Li|Li]; [|tauto].
    assert (Ht : isTextK K = false) by (destruct HI as [Ht|Hz]; [exact Ht|exfalso; lia]).
    split.
    - apply pvP_updCont_at; [apply pvP_advance, H0|]. intros b Hb Hi. apply pv_add_ik; [assumption|].
      assert (Eb : bkind b = K) by (eapply (ckind_same p0 _ K (same_advance p0 _) C0); exact Hb).
      rewrite Eb. unfold tk. rewrite Ht. reflexivity.
    - apply ckind_updCont; [intros b; apply bkind_set_bik|]. eapply ckind_same; [apply same_advance|exact C0]. }
  destruct H1 as [H1 C1].
  apply pvP_updCont_at; [apply pvP_advance, H1|].
  intros b Hb Hi. apply pv_add_ik; [assumption|].
  assert (Eb : bkind b = K). { apply (ckind_same p1 (advance p1 n) K (same_advance p1 n) C1). exact Hb. }
  rewrite Eb.
  destruct Hk as [[-> ->]|[(-> & -> & _)|[-> ->]]].
  - reflexivity.
  - reflexivity.
  - cbn [Z.eqb Pos.eqb InfoStringKind]. apply tk_info. reflexivity.
Qed.

(* match rules *)
Lemma pvP_matchRule p : pvP p -> pvP (snd (matchRule p)).
Proof.
  intros H. unfold matchRule. cbv zeta.
  destruct (_ || _); [assumption|].
  destruct (_ =? ListItemKind).
  { unfold matchListItem. destruct (isRestBlank p); [destruct (negb _); [assumption|apply pvP_consumeIndent, H]|].
    destruct (_ <=? _); [apply pvP_consumeIndent, H|assumption]. }
  destruct (_ =? BlockQuoteKind).
  { unfold matchBlockQuote. cbv zeta. destruct (_ <=? _); [assumption|]. destruct (negb _); [assumption|]. cbn [snd].
    unfold eatQuoteMarker. cbv zeta. destruct (0 <? _); repeat first [apply pvP_consumeIndent|apply pvP_advance]; assumption. }
  destruct (_ =? FencedCodeBlockKind).
  { unfold matchFenced. cbv zeta. destruct (if _ <? _ then _ else false); cbn [snd]; [apply pvP_consumeLine|apply pvP_consumeIndent]; assumption. }
  destruct (_ =? IndentedCodeBlockKind).
  { unfold matchIndented. cbv zeta. destruct (_ <? _); [destruct (negb _)|]; cbn [snd]; try apply pvP_consumeIndent; assumption. }
  destruct (Z.eqb_spec (containerKind p) HTMLBlockKind) as [Eh|Nh].
  { unfold matchHTML. destruct (htmlEnd _ _); [|assumption]. destruct (isRestBlank _); [assumption|]. cbn [snd]. apply pvP_consumeLine.
    eapply (pvP_collectInline _ _ _ HTMLBlockKind); [assumption|rewrite <- Eh; apply ckind_self|left; split; reflexivity]. }
  assumption.
Qed.

Lemma pvP_descend_loop : forall fuel p d, pvP p -> pvP (snd (descend_loop fuel p d)).
Proof.
  induction fuel as [|f IH]; intros p d H; [assumption|]. cbn [descend_loop]. cbv zeta.
  destruct (getAt (S d) (root p)) as [c|]; [|assumption].
  destruct (negb (isOpen c)); [assumption|]. destruct (negb (hasMatch _)); [assumption|].
  pose proof (pvP_matchRule (withState (withCont p (Some (S d))) stDescending) H) as H2.
  destruct (matchRule _) as [ok p2]. cbn [snd] in H2.
  destruct (state p2 =? stDescendTerminated); [cbn [snd]; apply (pvP_closeLastChildAt p2 d _ H2)|].
  destruct (negb ok); [assumption|]. apply IH. assumption.
Qed.
