(* T63-F1 (D2).  Copy of En3LP5.v over the invariant EolFinalFullHbE4Tree.en = En3Tree.en plus one clause (lastX): the last entry of a
   PARAGRAPH holds a byte that is not space / tab / line ending, and once the paragraph is closed it ends at the end of the block.
   Changes w.r.t. En3LP5.v: module names; the places that build or use that clause; closing lemmas take "a paragraph is open -> e = lineStart". *)
From Coq Require Import List ZArith Lia Bool.
Import ListNotations.
Require Import Base Tree Rdr Link Collect Html Recog LP Rules Starts Driver L2Kind L2CC BSDef BSRdr BSTree BSOcp BSOrph BSClose BSLine1 BSLine2 BSLine3 BSLine4 BSLine5 BSLine7 BSLine8
  GramTree GramLP GramLP2 Cursor CursorX NoPanic12 Rec16 Rec17 Rec18 RecBounds ShDef ShRdr ShClose ShEnv ShLine1 ShLine2 ShFresh ShStarts2.
Require Import ShapesBase EntBase EntOcpDefs EntOcp EolFinalFullHbE4Tree EntCur EolFinalFullHbE4Par EolFinalFullHbE4LP1 EolFinalFullHbE4LP2 EolFinalFullHbE4LP3 EolFinalFullHbE4LP4.
Open Scope Z_scope.

(* ================================================================================================
   T28, part 8: the list item start and the setext heading start.
   ================================================================================================ *)

Lemma noPara_step p p' : (ppT (root p') -> ppT (root p)) -> ~ ppT (root p) -> ~ ppT (root p').
Proof. tauto. Qed.

(* the last byte of a list marker is not NUL *)
Lemma lm_digits_last : forall fuel line i n d m e, lm_digits fuel line i n = (d, m, e) -> 0 <= e -> at_ line (e - 1) <> 0.
Proof.
  induction fuel as [|f IH]; intros line i n d m e H He; [cbn in H; inversion H; lia|]. cbn [lm_digits] in H.
  destruct (_ || _); [inversion H; lia|]. cbv zeta in H.
  destruct (isASCIIDigit (at_ line i)); [eapply IH; eassumption|].
  destruct ((at_ line i =? 46) || (at_ line i =? 41)) eqn:Ec; [|inversion H; lia].
  destruct (hasTabOrSpacePrefixOrEOL _); [|inversion H; lia]. inversion H; subst. replace (i + 1 - 1) with i by lia.
  apply orb_true_iff in Ec. destruct Ec as [Ec|Ec]; apply Z.eqb_eq in Ec; rewrite Ec; discriminate.
Qed.
Lemma marker_last R d n e : parseListMarker R = (d, n, e) -> 0 <= e -> at_ R (e - 1) <> 0.
Proof.
  unfold parseListMarker. destruct R as [|c r]; [intros H; inversion H; lia|].
  destruct ((c =? 45) || (c =? 43) || (c =? 42)) eqn:Ec.
  - destruct (hasTabOrSpacePrefixOrEOL r); intros H He; inversion H; subst; [|lia]. cbn.
    repeat (apply orb_true_iff in Ec; destruct Ec as [Ec|Ec]); apply Z.eqb_eq in Ec; rewrite Ec; discriminate.
  - destruct (isASCIIDigit c); [apply lm_digits_last|intros H; inversion H; lia].
Qed.

Lemma lm_digits_ge : forall fuel line i n d m e, lm_digits fuel line i n = (d, m, e) -> 0 <= e -> 0 <= i -> 1 <= e.
Proof.
  induction fuel as [|f IH]; intros line i n d m e H He Hi; [cbn in H; inversion H; lia|]. cbn [lm_digits] in H.
  destruct (_ || _); [inversion H; lia|]. cbv zeta in H.
  destruct (isASCIIDigit (at_ line i)); [eapply IH; [eassumption|lia|lia]|].
  destruct (_ || _); [|inversion H; lia]. destruct (hasTabOrSpacePrefixOrEOL _); inversion H; lia.
Qed.
Lemma marker_pos' R d n e : parseListMarker R = (d, n, e) -> 0 <= e -> 1 <= e <= len R.
Proof.
  intros H He. split; [|eapply parseListMarker_le; exact H]. revert H. unfold parseListMarker. destruct R as [|c r]; [intros H; inversion H; lia|].
  destruct (_ || _ || _); [destruct (hasTabOrSpacePrefixOrEOL r); intros H; inversion H; lia|].
  destruct (isASCIIDigit c); [intros H; eapply lm_digits_ge; [exact H|lia|lia]|intros H; inversion H; lia].
Qed.

Lemma sOKe_startListItem B : startOKe B startListItem.
Proof.
  intros p HE Hs HR. unfold startListItem. cbv zeta. destruct (_ <=? _); [left; reflexivity|].
  destruct (parseListMarker (bytesAfterIndent p)) as [[delim n] mend] eqn:Elm.
  match goal with |- (if ?c then p else _) = p \/ _ => destruct c eqn:Em end; [left; reflexivity|].
  match goal with |- (if ?c then p else _) = p \/ _ => destruct c end; [left; reflexivity|]. right.
  apply orb_false_iff in Em. destruct Em as [Em _]. apply Z.ltb_ge in Em.
  pose proof HE as (A & (A0 & A1) & A2 & (A3 & ASO) & A4).
  destruct (consume_all p A3 ltac:(lia)) as (R1 & L1 & L2 & _).
  set (p1 := consumeIndent p (indent p)) in *.
  assert (H1 : EP B p1) by (apply EP_consumeIndent, HE).
  assert (S1 : st_open p1) by (eapply st_open_sstep; [apply sstep_consumeIndent|exact Hs]).
  destruct (first_marker _ _ _ _ Elm Em) as [F1' F2'].
  assert (T1 : TP B p1) by (apply (TP_cstep B p); [apply cstep_consumeIndent|apply TP_start; assumption]).
  set (cdelim := if (containerKind p1 =? ListKind) || (containerKind p1 =? ListItemKind) then bchar (contBlock p1) else 0).
  set (p2 := if negb (containerKind p1 =? ListKind) || negb (cdelim =? delim)
             then updCont (openBlock p1 ListKind) (fun b => set_bchar b delim) else p1).
  assert (H2 : EP B p2 /\ st_open p2 /\ containerKind p2 = ListKind /\ curS p1 p2 /\ envOf p2 = envOf p1 /\ TP B p2).
  { unfold p2. destruct (negb (containerKind p1 =? ListKind) || negb (cdelim =? delim)) eqn:Ec.
    - destruct (EP_openBlock B p1 ListKind H1 T1 S1 ltac:(discriminate) ltac:(discriminate) ltac:(discriminate) ltac:(left; discriminate)) as [X1 _].
      pose proof (openBlock_noPara B p1 ListKind H1 T1 S1 ltac:(discriminate) ltac:(discriminate) ltac:(discriminate) ltac:(left; discriminate)) as XN.
      destruct (EP_set_bchar B _ delim X1) as [X2 X2']. split; [exact X2|]. split; [right; apply state_openBlock, S1|].
      split; [rewrite containerKind_keeps by apply keeps_bchar; apply containerKind_open; [apply X1|exact S1]|].
      split; [eapply curS_trans; [apply curS_openBlock|repeat split]|split; [rewrite env_updCont; apply env_openBlock|]].
      apply TP_none. intros X. apply XN, X2', X.
    - apply orb_false_iff in Ec. destruct Ec as [Ec _]. apply negb_false_iff, Z.eqb_eq in Ec. split; [exact H1|]. split; [exact S1|]. split; [exact Ec|]. split; [repeat split|split; [reflexivity|exact T1]]. }
  destruct H2 as (H2 & S2 & K2 & C2 & V2 & T2).
  destruct (EP_openBlock B p2 ListItemKind H2 T2 S2 ltac:(discriminate) ltac:(discriminate) ltac:(discriminate) ltac:(right; rewrite K2; reflexivity)) as [H3 _].
  pose proof (openBlock_noPara B p2 ListItemKind H2 T2 S2 ltac:(discriminate) ltac:(discriminate) ltac:(discriminate) ltac:(right; rewrite K2; reflexivity)) as N3.
  destruct (EP_set_bchar B _ delim H3) as [H3' P3']. set (p3 := updCont (openBlock p2 ListItemKind) (fun b => set_bchar b delim)) in *.
  assert (S3 : st_open p3) by (right; apply (state_openBlock p2 ListItemKind S2)).
  assert (T3 : TP B p3) by (apply TP_none; intros X; apply N3, P3', X).
  destruct (EP_openBlock B p3 ListMarkerKind H3' T3 S3 ltac:(discriminate) ltac:(discriminate) ltac:(discriminate) ltac:(left; discriminate)) as [H4 _].
  pose proof (openBlock_noPara B p3 ListMarkerKind H3' T3 S3 ltac:(discriminate) ltac:(discriminate) ltac:(discriminate) ltac:(left; discriminate)) as N4.
  set (p4 := openBlock p3 ListMarkerKind) in *.
  assert (E4 : state p4 = stOpenMatched) by (apply state_openBlock, S3).
  set (p5 := advance p4 mend).
  assert (H5 : EP B p5) by (apply EP_advance, H4).
  assert (S5 : st_open p5) by (eapply st_open_sstep; [apply sstep_advance|right; exact E4]).
  assert (N5 : ~ ppT (root p5)) by (unfold p5; rewrite (root_cstep _ _ (cstep_advance p4 mend)); exact N4).
  assert (Hd5 : (1 <= cdepth p5)%nat).
  { unfold p5. rewrite (proj2 (cd_of_cstep _ _ (cstep_advance p4 mend))). unfold p4. rewrite (cdepth_openBlock p3 _ S3). lia. }
  assert (Hbd5 : bdy B (lineStart p5 + li p5)).
  { assert (C14 : curS p1 p4).
    { eapply curS_trans; [exact C2|]. eapply curS_trans; [eapply curS_trans; [apply (curS_openBlock p2 ListItemKind)|repeat split]|]. apply (curS_openBlock p3 ListMarkerKind). }
    assert (V14 : envOf p4 = envOf p).
    { unfold p4. rewrite env_openBlock. unfold p3. rewrite env_updCont, env_openBlock, V2. apply env_consumeIndent. }
    destruct C14 as (Cl & Cn & _). destruct (env_parts _ _ V14) as (_ & Vs & Vl).
    destruct (marker_pos' _ _ _ _ Elm Em) as [M1 M2].
    pose proof (indentLength_nonneg (rest p)) as Hnn.
    assert (Hr1 : len (rest p1) = len (line p1) - li p1).
    { apply len_rest. destruct (env_parts _ _ (env_consumeIndent p (indent p))) as (_ & _ & X). fold p1 in X. rewrite X. lia. }
    rewrite R1 in Hr1. assert (Hl1 : line p1 = line p) by (destruct (env_parts _ _ (env_consumeIndent p (indent p))) as (_ & _ & X); exact X).
    rewrite Hl1 in Hr1.
    assert (Li5 : li p5 = li p1 + mend) by (unfold p5; rewrite li_advance; [lia|lia|rewrite Cl, Vl; lia]).
    assert (Ls5 : lineStart p5 = lineStart p) by (unfold p5; destruct (env_parts _ _ (env_advance p4 mend)) as (_ & X & _); rewrite X; exact Vs).
    rewrite Ls5, Li5. right. right. replace (lineStart p + (li p1 + mend) - 1) with (lineStart p + (li p1 + (mend - 1))) by lia.
    rewrite <- (line_at B p (li p1 + (mend - 1)) A ltac:(lia)). rewrite <- Hl1, <- (rest_at p1 (mend - 1)) by lia. rewrite R1.
    apply (marker_last _ _ _ _ Elm Em). }
  destruct (EP_endBlock B p5 H5 (TP_none B p5 N5) N5 Hbd5) as [H6 P6]. destruct (endBlock_cont B p5 H5 (TP_none B p5 N5) N5 Hbd5 (st_open_nd _ S5) Hd5) as [K6 _].
  set (p6 := endBlock p5) in *.
  assert (N6 : ~ ppT (root p6)) by (intros X; apply N5, P6, X).
  assert (S6 : st_open p6) by (eapply st_open_sstep; [apply sstep_endBlock|exact S5]).
  destruct (isRestBlank p6).
  - destruct (EP_set_bindent B p6 (indent p + mend + 1) H6) as [H7 P7].
    set (p7 := updCont p6 (fun b => set_bindent b (indent p + mend + 1))) in *.
    assert (E8 : state (consumeLine p7) = stLineConsumed) by (apply LC_consumeLine; exact S6).
    split; [apply EP_consumeLine, H7|]. split; [left; exact E8|]. split; [|split; [apply ms_LC, E8|]].
    + rewrite (containerKind_cstep _ _ (cstep_consumeLine p7)). unfold p7. rewrite containerKind_keeps by apply keeps_bindent. exact K6.
    + rewrite (root_cstep _ _ (cstep_consumeLine p7)). intros X. apply N6, P7, X.
  - assert (M6 : ms p6).
    { eapply ms_sstep; [apply sstep_endBlock|]. eapply ms_sstep; [apply sstep_advance|left; exact E4]. }
    set (pp := if indent p6 <? 1 then (1, p6) else if 4 <? indent p6 then (1, consumeIndent p6 1) else (indent p6, consumeIndent p6 (indent p6))).
    assert (Hpp : EP B (snd pp) /\ root (snd pp) = root p6 /\ ms (snd pp) /\ containerKind (snd pp) = containerKind p6).
    { unfold pp. destruct (indent p6 <? 1); [cbn [snd]; tauto|].
      destruct (4 <? indent p6); cbn [snd].
      - split; [apply EP_consumeIndent, H6|]. split; [apply (root_cstep _ _ (cstep_consumeIndent p6 1))|].
        split; [eapply ms_sstep; [apply sstep_consumeIndent|exact M6]|apply (containerKind_cstep _ _ (cstep_consumeIndent p6 1))].
      - split; [apply EP_consumeIndent, H6|]. split; [apply (root_cstep _ _ (cstep_consumeIndent p6 _))|].
        split; [eapply ms_sstep; [apply sstep_consumeIndent|exact M6]|apply (containerKind_cstep _ _ (cstep_consumeIndent p6 _))]. }
    destruct pp as [padding p7]. cbn [snd] in Hpp. destruct Hpp as (H7 & R7 & S7 & K7).
    destruct (EP_set_bindent B p7 (indent p + mend + padding) H7) as [H8 P8].
    assert (N8 : ~ ppT (root (updCont p7 (fun b => set_bindent b (indent p + mend + padding))))) by (intros X; apply N6; rewrite <- R7; apply P8, X).
    split; [exact H8|]. split; [right; apply Rr_noPara; exact N8|].
    split; [rewrite containerKind_keeps by apply keeps_bindent; rewrite K7; exact K6|split; [exact S7|exact N8]].
Qed.

(* ---- setext heading ---- *)
Lemma en_setext_close B M H src e n x level : src = upto B H -> H <= len B -> 0 <= e <= H -> M <= e -> bdy B e -> bdy B H ->
  en B M x -> bkind x = ParagraphKind -> bend x < 0 -> bkids x = [] -> (bik x <> [] -> nb41 B M) ->
  lastIsPara (onCloseParagraph src x) = true ->
  allP (en B M) (closeBlock (S n) src (set_bn (set_bkind x SetextHeadingKind) level) e) /\
  closedL (closeBlock (S n) src (set_bn (set_bkind x SetextHeadingKind) level) e).
Proof.
  intros Esrc HB He HM Hbe HbH Hx HK Ho Hnk Ht HP.
  set (gx := set_bn (set_bkind x SetextHeadingKind) level).
  assert (F : bkids gx = bkids x /\ bik gx = bik x /\ bstart gx = bstart x /\ bend gx = bend x /\ bkind gx = SetextHeadingKind) by (destruct x; repeat split).
  destruct F as (F1 & F2 & F3 & F4 & F5).
  set (b1 := set_bend gx e).
  assert (G : bkids b1 = bkids x /\ bik b1 = bik x /\ bstart b1 = bstart x /\ bend b1 = e /\ bkind b1 = SetextHeadingKind /\ bn b1 = level).
  { unfold b1. rewrite bk_set_bend, bik_set_bend, bstart_set_bend, bend_set_bend, bkind_set_bend. split; [tauto|]. split; [tauto|]. split; [tauto|].
    split; [tauto|]. split; [tauto|]. unfold gx. destruct x; reflexivity. }
  destruct G as (G1 & G2 & G3 & G4 & G5 & G6).
  pose proof Hx as Hx'. rewrite en_eq in Hx'. destruct Hx' as ((A & _ & _ & _ & (_ & A5 & _ & _)) & C).
  destruct (A (or_introl HK)) as (L1 & L2 & L3). rewrite bound_open in L1 by exact Ho. specialize (L3 Ho).
  assert (T5 : forall k L, lastI (skipn k (bik x)) = Some L -> nb41 B (iend L)).
  { intros k L HL. apply lastI_skipn' in HL. pose proof (A5 (or_introl HK) L HL) as X. destruct (Z.ltb_spec (bend x) 0); [|lia]. destruct X as [X _]. rewrite X. apply Ht.
    intros E. unfold lastI in HL. rewrite E in HL. discriminate. }
  assert (Hb1 : en B M b1).
  { rewrite en_eq, G1, G2, G3, G4, G5. split; [|exact C]. split; [|split; [|split; [|split]]].
    - intros _. rewrite bound_closed by lia. split; [apply (lines_mono B M e HM), L1|split; [exact L2|intros; lia]].
    - intros X; discriminate.
    - intros; lia.
    - intros _. exact Hbe.
    - split; [intros (_ & X & _); contradiction|]. rewrite Hnk. split; [|split; [intros; exact I|split; [exact I|apply xk_PS; right; reflexivity]]].
      intros _ L HL. destruct (Z.ltb_spec e 0); [lia|]. split; [apply (T5 O L); exact HL|apply lastX_other; discriminate]. }
  assert (EL : closeBlock (S n) src gx e = onCloseParagraph src b1).
  { cbn [closeBlock]. unfold isOpen. rewrite F4. destruct (Z.ltb_spec (bend x) 0); [|lia]. cbn [negb]. cbv zeta. fold b1. rewrite G5. reflexivity. }
  rewrite EL. unfold onCloseParagraph in *. rewrite G2. destruct (bik x) as [|first rest] eqn:Eb.
  { split; [split; [exact Hb1|exact I]|split; [rewrite G4; lia|exact I]]. }
  cbv zeta in *. rewrite HK in HP. change (ParagraphKind =? SetextHeadingKind) with false in HP. cbv iota in HP.
  rewrite G5. change (SetextHeadingKind =? SetextHeadingKind) with true. cbv iota.
  assert (Eik : bik x = bik b1) by (rewrite Eb, G2; reflexivity).
  rewrite Eb in Eik.
  pose proof (ocp_orphan_irrel (S (length (first :: rest))) (2 * length src + 10) src x b1) as Hirr.
  rewrite (Hirr _ _ [] [] ltac:(rewrite Eb; exact Eik) HP).
  split.
  2:{ pose proof (ocp_res_start SetextHeadingKind level e M (2 * length src + 10) src b1 ltac:(lia) ltac:(lia)
                ltac:(rewrite G1; exact Hnk) G4 G5 G6 ltac:(rewrite G3; lia)
                ltac:(rewrite G3, G2; apply (lines_ascI B); [exact L1|exact L2|lia]) first rest G2) as Hres.
      rewrite G2 in Hres. eapply allP_impl; [|exact Hres]. intros y (Hy & _). exact Hy. }
  assert (Hrun : ocp_loop (S (length (first :: rest))) (2 * length src + 10) src b1 None (newReader src (first :: rest) (istart first)) [] = ocpRun src b1).
  { unfold ocpRun. rewrite G2. reflexivity. }
  rewrite Hrun.
  assert (Hlen : len src = H) by (rewrite Esrc, ShapesBase.len_upto; lia).
  assert (Hls : lines src e (bik b1)).
  { rewrite G2. apply (lines_agree B src H e); [rewrite Esrc; apply agreeTo_upto, HB|lia|exact Hlen|exact HB|]. apply (lines_mono B M e HM), L1. }
  apply allP_intro. intros y Hy.
  destruct (ocpRun_spec2 src b1 e Hls ltac:(lia) ltac:(rewrite G2, G3; exact L2) y Hy) as [(K1 & K2 & K3 & K4)|[(pos & k & Ey & Hpos)|Ey]].
  - rewrite en_eq, K2. split; [|exact I]. apply ikOK_free; [rewrite K1; repeat split; discriminate| |intros X; rewrite K1 in X; contradiction|intros; exact I|exact I|].
    + intros _. apply (bdy_src B H); [exact HB|exact HbH|rewrite <- Esrc; exact K3|rewrite <- Esrc; exact K4|lia].
    + split; [intros X; rewrite K1 in X; discriminate|]. intros _ u Hu.
      refine (En3Ocp.ocpRun_defs src b1 _ _ y Hy K1 u Hu); [|rewrite G5; discriminate].
      intros v Hv. rewrite G2 in Hv. apply (lines_entry B M _ v L1 Hv).
  - subst y. rewrite G2 in *. rewrite en_eq.
    assert (Fy : bkind (set_bik (set_bstart b1 pos) (skipn k (first :: rest))) = SetextHeadingKind /\
                 bstart (set_bik (set_bstart b1 pos) (skipn k (first :: rest))) = pos /\
                 bend (set_bik (set_bstart b1 pos) (skipn k (first :: rest))) = e /\
                 bik (set_bik (set_bstart b1 pos) (skipn k (first :: rest))) = skipn k (first :: rest) /\
                 bkids (set_bik (set_bstart b1 pos) (skipn k (first :: rest))) = bkids x).
    { rewrite <- G5, <- G4, <- G1. destruct b1; repeat split. }
    destruct Fy as (Y1 & Y2 & Y3 & Y4 & Y5). rewrite Y1, Y2, Y3, Y4, Y5. split; [|exact C]. split; [|split; [|split; [|split]]].
    + intros _. rewrite bound_closed by lia. split; [apply lines_skipn, (lines_mono B M e HM), L1|]. split; [exact Hpos|intros; lia].
    + intros X; discriminate.
    + intros; lia.
    + intros _. exact Hbe.
    + split; [intros (_ & X & _); contradiction|]. rewrite Hnk. split; [|split; [intros; exact I|split; [exact I|apply xk_PS; right; reflexivity]]].
      intros _ L HL. destruct (Z.ltb_spec e 0); [lia|]. split; [apply (T5 k L); exact HL|apply lastX_other; discriminate].
  - subst y. exact Hb1.
Qed.

Lemma sOKe_startSetext B : startOKe B startSetext.
Proof.
  intros p HE Hs HR. pose proof (ccP_startSetext p ltac:(apply HE)) as Hcc. revert Hcc. unfold startSetext. cbv zeta.
  destruct (negb (containerKind p =? ParagraphKind)) eqn:Ek; [left; reflexivity|].
  destruct (_ <=? _); [left; reflexivity|]. destruct (Z.eqb_spec (parseSetextHeadingUnderline (bytesAfterIndent p)) 0) as [Elv|Elv]; [left; reflexivity|].
  destruct (containerHasParagraphContent p) eqn:PC; cbn [negb]; [|left; reflexivity]. intros Hcc0. right. revert Hcc0.
  apply negb_false_iff, Z.eqb_eq in Ek.
  set (level := parseSetextHeadingUnderline (bytesAfterIndent p)).
  set (g := fun b : block => set_bn (set_bkind b SetextHeadingKind) level).
  pose proof HE as (A & (A0 & A1) & A2 & (A3 & ASO) & A4). pose proof A2 as D.
  destruct (cdepth p) as [|d] eqn:Ed.
  { exfalso. rewrite (containerKind_root p Ed) in Ek. destruct D as (D1 & _). rewrite D1 in Ek. discriminate. }
  destruct (wf_le p (S d) D ltac:(lia)) as (x & Ex). destruct (wf_le p d D ltac:(lia)) as (y & Ey).
  assert (Kx : bkind x = ParagraphKind) by (rewrite <- Ek; symmetry; apply containerKind_at; rewrite Ed; exact Ex).
  assert (Cx : cc x = true) by (eapply cc_getAt; [apply D|exact Ex]).
  assert (Ly : lastBlock y = Some x) by (rewrite getAt_S_last, Ey in Ex; exact Ex).
  assert (HP : lastIsPara (onCloseParagraph (source p) x) = true).
  { unfold containerHasParagraphContent in PC. rewrite Ek in PC. change (negb (ParagraphKind =? ParagraphKind)) with false in PC. cbv iota zeta in PC.
    unfold contBlock in PC. rewrite Ed, Ex in PC. exact PC. }
  set (q0 := updCont p g).
  assert (Hc : cstep q0 (if state (consumeLine q0) =? stOpening then withState (consumeLine q0) stOpenMatched else consumeLine q0))
    by (eapply cstep_trans; [apply cstep_consumeLine|apply cstep_opened]).
  assert (Nq : nd (consumeLine q0)) by (apply ms_consumeLine, st_open_nd; exact Hs).
  assert (ELC : state (consumeLine q0) = stLineConsumed) by (apply LC_consumeLine; exact Hs).
  unfold endBlock. fold q0.
  replace ((state (consumeLine q0) =? stDescending) || (state (consumeLine q0) =? stDescendTerminated)) with false by (rewrite ELC; reflexivity).
  cbv zeta. set (p6 := if state (consumeLine q0) =? stOpening then withState (consumeLine q0) stOpenMatched else consumeLine q0) in *.
  assert (E6s : state p6 = stLineConsumed) by (unfold p6; rewrite ELC; exact ELC).
  destruct Hc as ((E1 & E2) & (E3 & E4 & E5) & E6).
  assert (Ecd : cdepth p6 = S d) by (unfold cdepth; rewrite E2; exact Ed).
  rewrite Ecd. intros Hcc.
  change (lineStart q0) with (lineStart p) in E3. change (line q0) with (line p) in E4. change (source q0) with (source p) in E5.
  change (li q0) with (li p) in E6. change (line q0) with (line p) in E6. specialize (E6 A1).
  set (e := lineStart p6 + li p6).
  (* open paragraph below an open parent: x is open because the invariant of startSetext's guard *)
  destruct (src_of B p A) as (S1 & S2 & S3).
  assert (Li6 : li p6 = len (line p)).
  { unfold p6. rewrite ELC. change (stLineConsumed =? stOpening) with false. cbv iota.
    rewrite (li_consumeLine q0) by (change (li q0) with (li p); change (line q0) with (line p); exact A1). reflexivity. }
  set (CB := fun c : block => closeBlock (bheight (root p6)) (source p6) c e).
  assert (Eroot : updAt d (closeF p6 e) (root p6) = updAt d (clG CB g) (root p)).
  { rewrite E1. change (root q0) with (updAt (cdepth p) g (root p)). rewrite Ed. change (closeF p6 e) with (clF CB). apply fuse. }
  destruct (bheight_S (root p6)) as (n & En).
  assert (Enx : en B (lineStart p) x) by (eapply en_getAt; eassumption).
  assert (Hox : bend x < 0) by (apply (ASO (S d) x); [lia|exact Ex]).
  assert (Hoy : bend y < 0) by (apply (ASO d y); [lia|exact Ey]).
  assert (Hnb : nb41 B (lineStart p)).
  { destruct (first_setext _ Elv) as [F1' F2']. apply (TP_start B p HE HR F1' F2'). exists (S d), x. split; [exact Ex|split; [exact Kx|]].
    rewrite <- Ed. exact ASO. }
  assert (HCB : allP (en B (lineStart p)) (CB (g x)) /\ closedL (CB (g x))).
  { unfold CB. rewrite En. apply (en_setext_close B (lineStart p) (lineStart p + len (line p)) (source p6) e n x level).
    - rewrite E5. exact S1.
    - exact S2.
    - unfold e. rewrite E3, Li6. lia.
    - unfold e. rewrite E3, Li6. pose proof (len_nonneg (line p)). lia.
    - unfold e. rewrite E3, Li6. apply bdy_H, A.
    - apply bdy_H, A.
    - exact Enx.
    - exact Kx.
    - exact Hox.
    - apply para_no_kids; assumption.
    - intros _. exact Hnb.
    - rewrite E5. exact HP. }
  destruct HCB as [HCB HCBc].
  assert (Hne : CB (g x) <> []) by apply closeBlock_nonnil.
  assert (Hroot : en B (lineStart p) (updAt d (clG CB g) (root p))).
  { apply en_updAt; [exact A4|]. intros y' Ey' Hy'. rewrite Ey in Ey'. inversion Ey'; subst y'.
    unfold clG. rewrite Ly. split; [|rewrite bend_set_lastBlocks; tauto].
    eapply en_set_lastBlocks; [exact Hy'|exact Ly|exact HCB|intros _; exact HCBc|apply closedL_removelast, HCBc]. }
  set (pf := withCont (closeLastChildAt p6 d e) (Some d)) in *.
  assert (Rf : root pf = updAt d (clG CB g) (root p)).
  { unfold pf. change (root (withCont (closeLastChildAt p6 d e) (Some d))) with (root (closeLastChildAt p6 d e)). rewrite root_closeAt. exact Eroot. }
  assert (Ef : envOf pf = envOf p).
  { unfold pf. rewrite env_withCont, env_closeLastChildAt. unfold envOf. rewrite E3, E4, E5. reflexivity. }
  assert (EPf : EP B pf).
  { split; [eapply envB_env; eassumption|]. split; [unfold curP; change (li pf) with (li p6); change (lineStart pf) with (lineStart p6); change (line pf) with (line p6); rewrite E3, E4, Li6; pose proof (len_nonneg (line p)); lia|].
    split; [exact Hcc|]. split; [split|].
    - assert (I6 : Itab p6) by (unfold p6; apply Itab_opened, Itab_consumeLine; exact A3). exact I6.
    - assert (SO6 : spineOpen p6).
      { apply (spineOpen_same q0 p6); [exact E1|unfold cdepth; rewrite E2; reflexivity|]. apply spineOpen_updCont; [intros z; destruct z; reflexivity|exact ASO]. }
      unfold pf. rewrite closeLastChildAt_eq. apply spineOpen_upd; [intros z; apply closeF_bend|exact SO6|lia|lia].
    - change (lineStart pf) with (lineStart p6). rewrite E3, Rf. exact Hroot. }
  assert (Hch : exists w, getAt (S (cdepth pf)) (root pf) = Some w /\ In w (CB (g x))).
  { change (cdepth pf) with d. rewrite Rf, getAt_S_updAt, Ey. unfold clG. rewrite Ly.
    rewrite lastBlock_of_list by exact Hne. destruct (rev (CB (g x))) as [|w t] eqn:Er.
    - exfalso. apply Hne. rewrite <- (rev_involutive (CB (g x))), Er. reflexivity.
    - exists w. split; [reflexivity|]. apply in_rev. rewrite Er. left. reflexivity. }
  destruct Hch as (w & Hw1 & Hw2).
  assert (Hkf : containerKind pf <> ParagraphKind) by (apply cont_child; [exact Hcc|eauto]).
  split; [exact EPf|]. split; [left; exact E6s|]. split; [exact Hkf|split; [apply ms_LC; exact E6s|]].
  apply noPara; [exact Hcc|exact Hkf|]. intros c Ec. rewrite Hw1 in Ec. inversion Ec; subst c. left. exact (allP_In _ _ _ HCBc Hw2).
Qed.
