From Coq Require Import List ZArith Lia Bool.
Import ListNotations.
Require Import Base Tree Rdr Link Collect Html Recog LP Rules Starts Driver.
Open Scope Z_scope.

(* C14 (ii), CR clause: replacing every LF of an input without CR by CR changes nothing in what the block layer
   returns except the Source bytes.  Shared definitions. *)
Definition phi (c : Z) : Z := if c =? 10 then 13 else c.
Definition cr (s : bytes) : bytes := map phi s.
(* a byte and its image; the original is not a CR *)
Definition bR (c c' : Z) : Prop := c' = phi c /\ c <> 13.
Definition crRel (a b : bytes) : Prop := Forall2 bR a b.

Lemma bR_10 : bR 10 13. Proof. split; [reflexivity|discriminate]. Qed.
Lemma bR_other c : c <> 10 -> c <> 13 -> bR c c.
Proof. intros A B. split; [unfold phi; replace (c =? 10) with false by (symmetry; apply Z.eqb_neq; exact A); reflexivity|exact B]. Qed.
Lemma bR_cases c c' : bR c c' -> (c = 10 /\ c' = 13) \/ (c' = c /\ c <> 10 /\ c <> 13).
Proof.
  intros [E N]. unfold phi in E. destruct (Z.eqb_spec c 10) as [A|A]; [left; split; assumption|right; tauto].
Qed.
Lemma bR_0 : bR 0 0. Proof. apply bR_other; discriminate. Qed.

Lemma crRel_cr s : ~ In 13 s -> crRel s (cr s).
Proof.
  induction s as [|c s IH]; intros H; [constructor|]. cbn [cr map]. constructor.
  - split; [reflexivity|]. intros E. apply H. left. exact E.
  - apply IH. intros Hi. apply H. right. exact Hi.
Qed.
Lemma crRel_length a b : crRel a b -> length b = length a.
Proof. induction 1 as [|x y a b Hxy H IH]; [reflexivity|]. cbn [length]. rewrite IH. reflexivity. Qed.
Lemma crRel_len a b : crRel a b -> len b = len a.
Proof. intros H. unfold len. rewrite (crRel_length a b H). reflexivity. Qed.
Lemma crRel_nth a b : crRel a b -> forall n, bR (nth n a 0) (nth n b 0).
Proof.
  induction 1 as [|x y a b Hxy H IH]; intros n; [destruct n; apply bR_0|]. destruct n as [|n]; [exact Hxy|apply IH].
Qed.
Lemma crRel_at a b i : crRel a b -> bR (at_ a i) (at_ b i).
Proof. intros H. unfold at_. destruct (i <? 0); [apply bR_0|apply crRel_nth, H]. Qed.
Lemma crRel_skipn a b : crRel a b -> forall n, crRel (skipn n a) (skipn n b).
Proof. induction 1 as [|x y a b Hxy H IH]; intros n; [destruct n; constructor|]. destruct n as [|n]; [constructor; assumption|apply IH]. Qed.
Lemma crRel_firstn a b : crRel a b -> forall n, crRel (firstn n a) (firstn n b).
Proof. induction 1 as [|x y a b Hxy H IH]; intros n; [destruct n; constructor|]. destruct n as [|n]; [constructor|constructor; [assumption|apply IH]]. Qed.
Lemma crRel_from a b i : crRel a b -> crRel (from_ a i) (from_ b i).
Proof. intros H. apply crRel_skipn, H. Qed.
Lemma crRel_upto a b i : crRel a b -> crRel (upto a i) (upto b i).
Proof. intros H. apply crRel_firstn, H. Qed.
Lemma crRel_sub a b i j : crRel a b -> crRel (sub a i j) (sub b i j).
Proof. intros H. unfold sub. apply crRel_upto, crRel_from, H. Qed.
Lemma crRel_app a b c d : crRel a b -> crRel c d -> crRel (a ++ c) (b ++ d).
Proof. intros H1 H2. apply Forall2_app; assumption. Qed.
Lemma crRel_rev a b : crRel a b -> crRel (rev a) (rev b).
Proof. induction 1 as [|x y a b Hxy H IH]; [constructor|]. cbn [rev]. apply crRel_app; [exact IH|constructor; [exact Hxy|constructor]]. Qed.
Lemma crRel_nil_l b : crRel [] b -> b = []. Proof. intros H. inversion H. reflexivity. Qed.
Lemma crRel_cons_inv x a b : crRel (x :: a) b -> exists y b', b = y :: b' /\ bR x y /\ crRel a b'.
Proof. intros H. inversion H; subst. eauto. Qed.
Lemma crRel_is_cr a b : crRel a b -> b = cr a.
Proof. induction 1 as [|x y a b [E _] H IH]; [reflexivity|]. cbn [cr map]. rewrite E. f_equal. exact IH. Qed.

(* byte tests *)
Lemma bR_eqb c c' k : bR c c' -> k <> 10 -> k <> 13 -> (c' =? k) = (c =? k).
Proof.
  intros H A B. destruct (bR_cases _ _ H) as [[-> ->]|[-> _]]; [|reflexivity].
  replace (13 =? k) with false by (symmetry; apply Z.eqb_neq; congruence).
  replace (10 =? k) with false by (symmetry; apply Z.eqb_neq; congruence). reflexivity.
Qed.
Lemma bR_eol c c' : bR c c' -> (c' =? 13) = (c =? 10) /\ (c' =? 10) = false /\ (c =? 13) = false.
Proof.
  intros H. destruct (bR_cases _ _ H) as [[-> ->]|(-> & A & B)]; [repeat split; reflexivity|].
  repeat split; [|apply Z.eqb_neq; exact A|apply Z.eqb_neq; exact B].
  replace (c =? 13) with false by (symmetry; apply Z.eqb_neq; exact B). symmetry. apply Z.eqb_neq. exact A.
Qed.

(* readers over related sources *)
Definition rdR (r r' : reader) : Prop :=
  crRel (r_src r) (r_src r') /\ r_spans r' = r_spans r /\ r_pos r' = r_pos r /\ r_vpos r' = r_vpos r /\ r_prev r' = r_prev r.
(* related after one more `current` (span trimming): what readEOL guarantees *)
Definition rdW (r r' : reader) : Prop := rdR (snd (current r)) (snd (current r')).

(* line parser states over related sources *)
Definition relP (p p' : lp) : Prop :=
  crRel (source p) (source p') /\ crRel (line p) (line p') /\ root p' = root p /\ container p' = container p /\
  lineStart p' = lineStart p /\ li p' = li p /\ col p' = col p /\ tabRem p' = tabRem p /\ state p' = state p /\
  panicked p' = panicked p.

(* classifiers do not distinguish LF from CR *)
Ltac bRcases H := let A := fresh "A" in let B := fresh "B" in
  destruct (bR_cases _ _ H) as [[-> ->]|(-> & A & B)]; [try reflexivity|try reflexivity].
Lemma cr_isSTLE c c' : bR c c' -> isSpaceTabOrLineEnding c' = isSpaceTabOrLineEnding c. Proof. intros H. bRcases H. Qed.
Lemma cr_isSpTab c c' : bR c c' -> isSpTab c' = isSpTab c. Proof. intros H. bRcases H. Qed.
Lemma cr_isASCIILetter c c' : bR c c' -> isASCIILetter c' = isASCIILetter c. Proof. intros H. bRcases H. Qed.
Lemma cr_isASCIIDigit c c' : bR c c' -> isASCIIDigit c' = isASCIIDigit c. Proof. intros H. bRcases H. Qed.
Lemma cr_isASCIIPunctuation c c' : bR c c' -> isASCIIPunctuation c' = isASCIIPunctuation c. Proof. intros H. bRcases H. Qed.
Lemma cr_isASCIIControl c c' : bR c c' -> isASCIIControl c' = isASCIIControl c. Proof. intros H. bRcases H. Qed.
Lemma cr_isHex c c' : bR c c' -> isHex c' = isHex c. Proof. intros H. bRcases H. Qed.
Lemma cr_toLower c c' : bR c c' -> bR (toLowerASCII c) (toLowerASCII c').
Proof.
  intros H. destruct (bR_cases _ _ H) as [[-> ->]|(-> & A & B)]; [exact bR_10|]. unfold toLowerASCII.
  destruct ((65 <=? c) && (c <=? 90)) eqn:E; [|apply bR_other; assumption].
  apply andb_true_iff in E. destruct E as [E1 E2]. apply Z.leb_le in E1. apply Z.leb_le in E2. apply bR_other; lia.
Qed.
(* a letter, digit, ... is unchanged *)
Lemma bR_same_if c c' : bR c c' -> c <> 10 -> c' = c.
Proof. intros H N. destruct (bR_cases _ _ H) as [[A _]|[A _]]; [contradiction|exact A]. Qed.
