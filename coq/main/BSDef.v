From Coq Require Import List ZArith Lia Bool.
Import ListNotations.
Require Import Base Tree.
Open Scope Z_scope.

(* C02, block level: spans of blocks are valid, nested and ordered. *)

(* child c lies inside a parent with span [s, e) (e < 0: parent still open, only the start is constrained) *)
Definition inside (s e : Z) (c : block) : bool :=
  (s <=? bstart c) && ((e <? 0) || (bend c <=? e)).

(* consecutive children are in order and do not overlap: bend c1 <= bstart c2 when c1 is closed *)
Fixpoint ordered (l : list block) : bool :=
  match l with
  | c1 :: ((c2 :: _) as r) => ((bend c1 <? 0) || (bend c1 <=? bstart c2)) && ordered r
  | _ => true
  end.

Fixpoint bspans (b : block) : bool :=
  match b with Blk _ s e bk _ _ _ _ _ _ =>
    ((e <? 0) || (s <=? e)) && forallb (inside s e) bk && ordered bk && forallb bspans bk
  end.
