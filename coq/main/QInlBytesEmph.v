(* QInlBytesEmph.v -- T64 (t64-bytes), part 3: Inl3b.emphasisFlags in the two-run setting.
   Besides SGood the proof needs one fact about the gap that SGood does not state: the byte of sQ just before the image of a
   line start of sD is a space (in quote D: the second byte of "> ").  It is the hypothesis GapSp; QInlBytesInst.v proves it for
   the maps sgO D o of quote D.
   Main results:  emphasisFlags_sg (positions of sD, no entry needed) and emphasisFlags_tr / emphasisFlags_run (inside an entry). *)
From Coq Require Import List ZArith Lia Bool.
Import ListNotations.
Require Import Base Tables Utf8 Tree Rdr Link Collect Inl3a Inl3b Inl3c Inl3d Inl3e ShapesBase SliceBase QIRdrBase QInlBytes QInlBytesRune.
Open Scope Z_scope.

Definition GapSp (sD sQ : bytes) (sg : Z -> Z) : Prop :=
  forall x, 0 <= x < len sD -> (x = 0 \/ at_ sD (x - 1) = 10) -> 0 < sg x /\ at_ sQ (sg x - 1) = 32.

(* ---- slicing ---- *)
Lemma from_step (l : bytes) : forall a, 0 <= a < len l -> from_ l a = at_ l a :: from_ l (a + 1).
Proof.
  induction l as [|x r IH]; intros a Ha; [change (len (@nil Z)) with 0 in Ha; lia|]. rewrite len_cons in Ha.
  destruct (Z.eq_dec a 0) as [->|N]; [reflexivity|].
  rewrite (from_cons' x r a) by lia. rewrite (at_S' x r a) by lia. rewrite (from_cons' x r (a + 1)) by lia.
  replace (a + 1 - 1) with (a - 1 + 1) by lia. apply IH. lia.
Qed.
Lemma upto_split' {A} (l : list A) a b : 0 <= a <= b -> upto l b = upto l a ++ sub l a b.
Proof.
  intros H. unfold sub, upto, from_. replace (Z.to_nat b) with (Z.to_nat a + Z.to_nat (b - a))%nat by lia.
  rewrite firstn_skipn_comm. rewrite <- (firstn_skipn (Z.to_nat a) (firstn (Z.to_nat a + Z.to_nat (b - a)) l)) at 1.
  f_equal. rewrite firstn_firstn. f_equal. lia.
Qed.
Lemma sub_one (l : bytes) a : 0 <= a < len l -> sub l a (a + 1) = [at_ l a].
Proof.
  intros H. unfold sub. rewrite (from_step l a H). replace (a + 1 - a) with 1 by lia. reflexivity.
Qed.
Lemma upto_snoc' (l : bytes) a : 0 <= a < len l -> upto l (a + 1) = upto l a ++ [at_ l a].
Proof. intros H. rewrite (upto_split' l a (a + 1)) by lia. rewrite sub_one by exact H. reflexivity. Qed.

(* the two classes of a rune are all that emphasisFlags uses *)
Lemma cls_10_32 : isUnicodeWhitespace 10 = isUnicodeWhitespace 32 /\ isUnicodePunctuation 10 = isUnicodePunctuation 32.
Proof. split; vm_compute; reflexivity. Qed.

Section E.
  Variables (sD sQ : bytes) (sg : Z -> Z).
  Hypothesis HS : SGood sD sQ sg.
  Hypothesis HG : GapSp sD sQ sg.

  (* ---- lines ---- *)
  Lemma lineStart_ex s : 0 <= s -> exists ls, 0 <= ls <= s /\ (ls = 0 \/ at_ sD (ls - 1) = 10) /\ forall x, ls <= x < s -> at_ sD x <> 10.
  Proof.
    intros Hs. pattern s. apply natlike_ind; [| |exact Hs].
    - exists 0. split; [lia|]. split; [left; reflexivity|]. intros; lia.
    - intros x Hx (ls & L1 & L2 & L3). unfold Z.succ. destruct (Z.eq_dec (at_ sD x) 10) as [E|N].
      + exists (x + 1). split; [lia|]. split; [right; replace (x + 1 - 1) with x by lia; exact E|]. intros; lia.
      + exists ls. split; [lia|]. split; [exact L2|]. intros y Hy. destruct (Z.eq_dec y x) as [->|Ny]; [exact N|apply L3; lia].
  Qed.
  Lemma sg_line ls : forall k, 0 <= k -> 0 <= ls -> ls + k < len sD -> (forall x, ls <= x < ls + k -> at_ sD x <> 10) -> sg (ls + k) = sg ls + k.
  Proof.
    intros k Hk. pattern k. apply natlike_ind; [| |exact Hk].
    - intros _ _ _. replace (ls + 0) with ls by lia. lia.
    - intros x Hx IH Hls Hlt Hn. unfold Z.succ in *. replace (ls + (x + 1)) with (ls + x + 1) by lia.
      rewrite (SG_succ _ _ _ HS (ls + x)) by (try apply Hn; lia). rewrite IH; [lia|exact Hls|lia|intros y Hy; apply Hn; lia].
  Qed.
  Lemma sub_line ls s : 0 <= ls <= s -> s < len sD -> (forall x, ls <= x < s -> at_ sD x <> 10) -> sub sQ (sg ls) (sg s) = sub sD ls s.
  Proof.
    intros Hls Hs Hn. pose proof (sg_line ls (s - ls) ltac:(lia) ltac:(lia) ltac:(replace (ls + (s - ls)) with s by lia; exact Hs)
      ltac:(intros x Hx; apply Hn; lia)) as E. replace (ls + (s - ls)) with s in E by lia.
    rewrite E. replace (sub sD ls s) with (sub sD ls (ls + (s - ls))) by (f_equal; lia).
    apply sub_ext'; try lia.
    - apply (SG_nn _ _ _ HS). lia.
    - pose proof (SG_lt _ _ _ HS s ltac:(lia)). lia.
    - intros i Hi. rewrite <- (sg_line ls i) by (try lia; intros x Hx; apply Hn; lia). apply (SG_at _ _ _ HS). lia.
  Qed.

  (* ---- the character before a position ---- *)
  Definition prevD (s : Z) : Z := if 0 <? s then fst (decodeLastRune (upto sD s)) else 32.
  Definition prevQ (s' : Z) : Z := if 0 <? s' then fst (decodeLastRune (upto sQ s')) else 32.
  Theorem prev_cls s : 0 <= s < len sD ->
    isUnicodeWhitespace (prevQ (sg s)) = isUnicodeWhitespace (prevD s) /\ isUnicodePunctuation (prevQ (sg s)) = isUnicodePunctuation (prevD s).
  Proof.
    intros Hs. destruct (lineStart_ex s ltac:(lia)) as (ls & L1 & L2 & L3).
    destruct (HG ls ltac:(lia) L2) as [G1 G2].
    pose proof (sub_line ls s L1 ltac:(lia) L3) as Et.
    assert (Hle : sg ls <= sg s) by (destruct (Z.eq_dec ls s) as [->|N]; [lia|pose proof (SG_mono _ _ _ HS ls s ltac:(lia) ltac:(lia)); lia]).
    assert (EQ : upto sQ (sg s) = upto sQ (sg ls - 1) ++ 32 :: sub sD ls s).
    { rewrite (upto_split' sQ (sg ls) (sg s)) by lia. rewrite Et. replace (sg ls) with (sg ls - 1 + 1) at 1 by lia.
      rewrite upto_snoc' by (pose proof (SG_lt _ _ _ HS ls ltac:(lia)); lia). rewrite G2, <- app_assoc. reflexivity. }
    unfold prevQ. destruct (Z.ltb_spec 0 (sg s)) as [_|Hc]; [|lia]. rewrite EQ.
    destruct (Z.eq_dec ls s) as [E|N].
    - (* s is a line start *)
      subst ls. rewrite (sl_sub_nil sD s s) by lia. rewrite decodeLastRune_snoc by lia.
      unfold prevD. destruct (Z.ltb_spec 0 s) as [Hp|Hp]; [|split; reflexivity].
      destruct L2 as [L2|L2]; [lia|].
      assert (Eu : upto sD s = upto sD (s - 1) ++ [10]) by (rewrite <- L2, <- upto_snoc' by lia; f_equal; lia).
      rewrite Eu, decodeLastRune_snoc by lia. destruct cls_10_32 as [C1 C2]. split; symmetry; assumption.
    - (* inside a line *)
      assert (Hne : sub sD ls s <> []).
      { intros E0. assert (Hl : len (sub sD ls s) = s - ls) by (apply len_sub_in; lia). rewrite E0 in Hl. change (len (@nil Z)) with 0 in Hl. lia. }
      rewrite decodeLastRune_prefix by (lia || exact Hne).
      unfold prevD. destruct (Z.ltb_spec 0 s) as [Hp|Hp]; [|lia].
      rewrite (upto_split' sD ls s) by lia. destruct L2 as [L2|L2].
      + subst ls. rewrite (upto_le0 sD 0) by lia. cbn [app]. split; reflexivity.
      + assert (Hlp : 0 < ls) by (destruct (Z.eq_dec ls 0) as [E0|N0]; [subst ls; rewrite at_neg in L2 by lia; discriminate L2|lia]).
        assert (Eu : upto sD ls = upto sD (ls - 1) ++ [10]) by (rewrite <- L2, <- upto_snoc' by lia; f_equal; lia).
        rewrite Eu, <- app_assoc. cbn [app].
        rewrite decodeLastRune_prefix by (lia || exact Hne). split; reflexivity.
  Qed.

  (* ---- the character after a position ---- *)
  Lemma cutLF_sg : forall n e, Z.to_nat (len sD - e) = n -> 0 <= e < len sD -> cutLF (from_ sQ (sg e)) = cutLF (from_ sD e).
  Proof.
    induction n as [|n IH]; intros e Hn He; [lia|].
    rewrite (from_step sD e He). rewrite (from_step sQ (sg e)) by (pose proof (SG_nn _ _ _ HS e ltac:(lia)); pose proof (SG_lt _ _ _ HS e He); lia).
    rewrite (SG_at _ _ _ HS e He). cbn [cutLF]. destruct (Z.eqb_spec (at_ sD e) 10) as [E|N]; [reflexivity|]. f_equal.
    destruct (Z.eq_dec (e + 1) (len sD)) as [El|Nl].
    - rewrite El, sl_from_all. assert (Eq : sg e + 1 = len sQ).
      { replace e with (len sD - 1) by lia. apply (SG_last _ _ _ HS); [lia|]. replace (len sD - 1) with e by lia. exact N. }
      rewrite Eq, sl_from_all. reflexivity.
    - rewrite <- (SG_succ _ _ _ HS e He N). apply IH; lia.
  Qed.
  Theorem decodeRune_sg e : 0 <= e < len sD -> decodeRune (from_ sQ (sg e)) = decodeRune (from_ sD e).
  Proof. intros He. apply decodeRune_agree. apply (cutLF_sg (Z.to_nat (len sD - e)) e eq_refl He). Qed.

  Definition nextD (e : Z) : Z := if e <? len sD then fst (decodeRune (from_ sD e)) else 32.
  Definition nextQ (e' : Z) : Z := if e' <? len sQ then fst (decodeRune (from_ sQ e')) else 32.
  Theorem next_eq e : 0 < e <= len sD -> at_ sD (e - 1) <> 10 -> nextQ (sg (e - 1) + 1) = nextD e.
  Proof.
    intros He N. unfold nextQ, nextD. destruct (Z.ltb_spec e (len sD)) as [L|L].
    - rewrite <- (SG_succ _ _ _ HS (e - 1)) by (lia || exact N). replace (e - 1 + 1) with e by lia.
      pose proof (SG_lt _ _ _ HS e ltac:(lia)). destruct (Z.ltb_spec (sg e) (len sQ)); [|lia]. rewrite decodeRune_sg by lia. reflexivity.
    - assert (E : e = len sD) by lia. subst e. rewrite (SG_last _ _ _ HS) by (lia || exact N).
      destruct (Z.ltb_spec (len sQ) (len sQ)); [lia|reflexivity].
  Qed.

  (* ---- emphasisFlags: positions of sD ---- *)
  Theorem emphasisFlags_sg s e : 0 <= s -> s < e -> e <= len sD -> at_ sD (e - 1) <> 10 ->
    emphasisFlags sQ (sg s) (sg (e - 1) + 1) = emphasisFlags sD s e.
  Proof.
    intros Hs Hse He N. unfold emphasisFlags. cbv zeta.
    destruct (prev_cls s ltac:(lia)) as [Pw Pp]. unfold prevQ, prevD in Pw, Pp.
    pose proof (next_eq e ltac:(lia) N) as Nx. unfold nextQ, nextD in Nx.
    rewrite Pw, Pp, Nx. rewrite (SG_at _ _ _ HS s) by lia. reflexivity.
  Qed.

  (* ---- emphasisFlags: inside an entry ---- *)
  Variable IK : list inline.
  Variable u : inline.
  Hypothesis Hu : gsp sD sg IK u.
  Notation tr := (tr sg u).

  Theorem emphasisFlags_tr s e : istart u <= s -> s < e -> e <= iend u -> at_ sD (e - 1) <> 10 ->
    emphasisFlags sQ (tr s) (tr e) = emphasisFlags sD s e.
  Proof.
    intros Hs Hse He N. pose proof Hu as (A & B & C & _).
    rewrite (tr_sg sD sg IK u Hu s) by lia. replace e with (e - 1 + 1) at 1 by lia. rewrite tr_add. rewrite (tr_sg sD sg IK u Hu (e - 1)) by lia.
    apply emphasisFlags_sg; first [lia|exact N].
  Qed.

  (* the call in parseDelimiterRun: the run starts at a byte that is not a line feed ('*' or '_') *)
  Theorem emphasisFlags_run start lim : istart u <= start -> start < lim -> lim <= iend u -> at_ sD start <> 10 ->
    let e := runEnd (length sD) sD (start + 1) lim (at_ sD start) in
    let e' := runEnd (length sQ) sQ (tr start + 1) (tr lim) (at_ sQ (tr start)) in
    e' = tr e /\ emphasisFlags sQ (tr start) e' = emphasisFlags sD start e /\ start < e <= lim.
  Proof.
    intros Hs Hsl Hl N. cbv zeta. pose proof Hu as (A & B & C & _).
    rewrite (at_tr sD sQ sg IK HS u Hu start) by lia. rewrite <- tr_add.
    rewrite (runEnd_tr sD sQ sg IK HS u Hu) by lia.
    destruct (delimRun_last sD sg IK u Hu start lim Hs Hsl Hl) as [R1 R2].
    split; [reflexivity|]. split; [|exact R1]. apply emphasisFlags_tr; first [lia|rewrite R2; exact N].
  Qed.
End E.

Print Assumptions emphasisFlags_sg.
Print Assumptions emphasisFlags_tr.
Print Assumptions emphasisFlags_run.
Print Assumptions prev_cls.
Print Assumptions next_eq.
