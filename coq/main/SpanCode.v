From Coq Require Import List ZArith Lia Bool.
Import ListNotations.
Require Import Base Tables Utf8 Tree Rdr Link Collect Html Recog Inl3a Inl3b Inl3c Inl3d Inl3e Leaf3a Leaf3e RdrBound.
Require Import SpanForest SpanIds SpanStack SpanEmph SpanSmall SpanTok SpanRdr SpanCollect SpanScan.
Open Scope Z_scope.

(* ================================================================================================
   Layer 4, part 5: code spans.
   ================================================================================================ *)

(* ---- the children of a code span: leaves without identity ---- *)
Definition leaf0 (n : pn) : Prop := pkids n = [] /\ pid n = 0.
Definition leafF (l : list pn) : Prop := Forall leaf0 l.
Lemma leafF_pids l : leafF l -> pidsF l = [].
Proof.
  induction 1 as [|n l [Hk Hi] _ IH]; [reflexivity|]. rewrite pidsF_cons, IH, pidsN_eq, Hk, Hi. reflexivity.
Qed.
Lemma leafF_app a b : leafF a -> leafF b -> leafF (a ++ b).
Proof. intros A B. apply Forall_app. split; assumption. Qed.

Lemma sub_nil_ge (l : bytes) a b : b <= a -> sub l a b = [].
Proof. apply sub_nil_when. Qed.

Section AddSpan.
  Variable src : bytes.
  Lemma cs_addSpan_ok a0 ce acc s e : okF a0 ce acc -> leafF acc -> (s <= e -> ce <= s /\ 0 <= s /\ e <= len src) ->
    okF a0 (Z.max ce e) (cs_addSpan src acc s e) /\ leafF (cs_addSpan src acc s e).
  Proof.
    intros Hok Hl Hc. unfold cs_addSpan. cbv zeta.
    destruct (Z.le_gt_cases s e) as [Lse|Lse].
    - destruct (Hc Lse) as (C1 & C2 & C3). rewrite (len_sub src s e) by lia.
      set (trim := if (2 <=? e - s) && (at_ (sub src s e) (e - s - 2) =? 13) && (at_ (sub src s e) (e - s - 1) =? 10) then 2
                   else if (1 <=? e - s) && ((at_ (sub src s e) (e - s - 1) =? 10) || (at_ (sub src s e) (e - s - 1) =? 13)) then 1 else 0).
      assert (Ht : 0 <= trim <= e - s).
      { unfold trim. destruct (Z.leb_spec 2 (e - s)); cbn [andb].
        - destruct (_ && _); [lia|]. destruct (Z.leb_spec 1 (e - s)); cbn [andb]; [destruct (_ || _); lia|lia].
        - destruct (Z.leb_spec 1 (e - s)); cbn [andb]; [destruct (_ || _); lia|lia]. }
      assert (H1 : okF a0 (e - trim) (if 0 <? spanLen s (e - trim) then acc ++ [PN 0 TextKind s (e - trim) 0 [] []] else acc) /\
                   leafF (if 0 <? spanLen s (e - trim) then acc ++ [PN 0 TextKind s (e - trim) 0 [] []] else acc)).
      { destruct (Z.ltb_spec 0 (spanLen s (e - trim))) as [L|L].
        - split; [|apply leafF_app; [exact Hl|constructor; [split; reflexivity|constructor]]].
          change (e - trim) with (pe (PN 0 TextKind s (e - trim) 0 [] [])) at 1. apply okF_snoc with (le := ce); [exact Hok|cbn [ps]; lia|apply okN_leaf; lia].
        - split; [eapply okF_weaken; [exact Hok|lia|lia]|exact Hl]. }
      destruct H1 as [H1 H1l].
      destruct (Z.ltb_spec 0 trim) as [Lt|Lt].
      + split; [|apply leafF_app; [exact H1l|constructor; [split; reflexivity|constructor]]].
        replace (Z.max ce e) with (pe (PN 0 IndentKind (e - trim) (e - trim + trim) 1 [] [])) by (cbn [pe]; lia).
        apply okF_snoc with (le := e - trim); [exact H1|cbn [ps]; lia|apply okN_leaf; lia].
      + split; [eapply okF_weaken; [exact H1|lia|lia]|exact H1l].
    - rewrite (sub_nil_ge src s e) by lia. change (len (@nil Z)) with 0. cbn [Z.leb andb]. 
      replace (2 <=? 0) with false by reflexivity. replace (1 <=? 0) with false by reflexivity. cbn [andb]. rewrite Z.sub_0_r.
      assert (E0 : spanLen s e = 0) by (unfold spanLen; destruct (0 <=? s); destruct (0 <=? e); cbn [andb]; try reflexivity; destruct (Z.leb_spec s e); [lia|reflexivity]).
      rewrite E0. cbn. split; [eapply okF_weaken; [exact Hok|lia|lia]|exact Hl].
  Qed.
End AddSpan.

Lemma okN_setInd n v : okN n -> okN (setInd n v).
Proof. destruct n as [i k s e ind r ks]. cbn [setInd]. intros H. apply okN_eq in H. apply okN_eq. exact H. Qed.
Lemma leaf0_setInd n v : leaf0 n -> leaf0 (setInd n v). Proof. destruct n; exact (fun H => H). Qed.
Lemma leaf0_setSpan n s e : leaf0 n -> leaf0 (setSpan n s e). Proof. destruct n; exact (fun H => H). Qed.
Lemma ps_setInd n v : ps (setInd n v) = ps n. Proof. destruct n; reflexivity. Qed.
Lemma pe_setInd n v : pe (setInd n v) = pe n. Proof. destruct n; reflexivity. Qed.

Lemma strip_ok src a b sl : okF a b sl -> leafF sl -> okF a b (stripCodeSpanSpace src sl) /\ leafF (stripCodeSpanSpace src sl).
Proof.
  intros Hok Hl. unfold stripCodeSpanSpace.
  destruct (negb (existsb _ sl)); [split; assumption|].
  destruct sl as [|f r]; [split; assumption|].
  destruct (rev (f :: r)) as [|lst rr0] eqn:Er; [split; assumption|].
  destruct (negb _ || negb _); [split; assumption|].
  cbv zeta.
  inversion Hl as [|? ? Hf Hr]; subst.
  assert (H1 : okF a b (if pkind f =? IndentKind
                     then if pind (setInd f (pind f - 1)) =? 0 then r else setInd f (pind f - 1) :: r
                     else if plen (setSpan f (ps f + 1) (pe f)) =? 0 then r else setSpan f (ps f + 1) (pe f) :: r) /\
               leafF (if pkind f =? IndentKind
                     then if pind (setInd f (pind f - 1)) =? 0 then r else setInd f (pind f - 1) :: r
                     else if plen (setSpan f (ps f + 1) (pe f)) =? 0 then r else setSpan f (ps f + 1) (pe f) :: r)).
  { pose proof (okF_remove [] f r a b Hok) as Hrm. cbn [app] in Hrm.
    cbn [okF] in Hok. destruct Hok as (O1 & O2 & O3). pose proof (okN_valid _ O2) as V.
    destruct (pkind f =? IndentKind).
    - destruct (pind _ =? 0); [split; assumption|]. split; [|constructor; [apply leaf0_setInd; exact Hf|exact Hr]].
      cbn [okF]. rewrite ps_setInd, pe_setInd. split; [exact O1|]. split; [apply okN_setInd; exact O2|exact O3].
    - destruct (plen (setSpan f (ps f + 1) (pe f)) =? 0) eqn:Ep; [split; assumption|].
      split; [|constructor; [apply leaf0_setSpan; exact Hf|exact Hr]].
      unfold plen in Ep. rewrite ps_setSpan, pe_setSpan in Ep. apply spanLen_pos in Ep.
      cbn [okF]. rewrite ps_setSpan, pe_setSpan. split; [lia|]. split; [apply okN_setSpan_leaf; [apply Hf|lia|lia]|exact O3]. }
  set (sl1 := if pkind f =? IndentKind then _ else _) in *. destruct H1 as [H1 H1l].
  destruct (rev sl1) as [|l rr] eqn:Er1; [split; assumption|].
  assert (E1 : sl1 = rev rr ++ [l]) by (rewrite <- (rev_involutive sl1), Er1; reflexivity).
  rewrite E1 in H1, H1l. apply Forall_app in H1l. destruct H1l as [Hlr Hll]. inversion Hll as [|? ? Hl0 _]; subst.
  pose proof (okF_remove (rev rr) l [] a b H1) as Hrm. rewrite app_nil_r in Hrm.
  apply okF_app in H1. destruct H1 as (m & M1 & M2). cbn [okF] in M2. destruct M2 as (M2 & M3 & M4). pose proof (okN_valid _ M3) as V.
  destruct (pkind l =? IndentKind).
  - destruct (pind (setInd l (pind l - 1)) =? 0); [split; assumption|]. cbn [rev]. split; [|apply leafF_app; [exact Hlr|constructor; [apply leaf0_setInd; exact Hl0|constructor]]].
    apply okF_app. exists m. split; [exact M1|]. cbn [okF]. rewrite ps_setInd, pe_setInd. split; [exact M2|]. split; [apply okN_setInd; exact M3|exact M4].
  - destruct (plen (setSpan l (ps l) (pe l - 1)) =? 0) eqn:Ep; [split; assumption|]. cbn [rev].
    split; [|apply leafF_app; [exact Hlr|constructor; [apply leaf0_setSpan; exact Hl0|constructor]]].
    unfold plen in Ep. rewrite ps_setSpan, pe_setSpan in Ep. apply spanLen_pos in Ep.
    apply okF_app. exists m. split; [exact M1|]. cbn [okF]. rewrite ps_setSpan, pe_setSpan. split; [exact M2|]. split; [apply okN_setSpan_leaf; [apply Hl0|lia|lia]|lia].
Qed.

Section CodeScan.
  Variables (src : bytes) (U : list inline) (lo hi : Z).
  Hypothesis HEC : EC src U lo hi.
  Notation nU := (nthU U).
  Notation P := (SpanRdr.P src U).
  Notation AliveAt := (SpanRdr.AliveAt src U).
  Notation RS := (SpanRdr.RS src U).

  Ltac stepc :=
    match goal with
    | H : SpanRdr.RS src U ?s ?r |- context [current ?r] =>
      let Hc := fresh "Hc" in let Hp := fresh "Hp" in let Hv := fresh "Hv" in let H41 := fresh "H41" in let Hs := fresh "Hs" in let Hcc := fresh "Hcc" in
      destruct (RS_current src U lo hi HEC s r H) as (Hc & Hp & Hv & H41 & Hs & Hcc);
      let c := fresh "c" in let r' := fresh "r" in
      destruct (current r) as [c r']; cbn [fst snd] in Hc, Hp, Hv, H41, Hs, Hcc; cbn [fst snd]
    end.
  Ltac stepn :=
    match goal with
    | H : SpanRdr.RS src U ?s ?r |- context [next ?r] =>
      let Hn := fresh "Hn" in let Hm := fresh "Hm" in let Hok := fresh "Hok" in let Hfl := fresh "Hfl" in
      destruct (RS_next src U lo hi HEC s r H) as (Hn & Hm & Hok & Hfl);
      let ok := fresh "ok" in let r' := fresh "r" in
      destruct (next r) as [ok r']; cbn [fst snd] in Hn, Hm, Hok, Hfl; cbn [fst snd]
    end.

  (* the opening run *)
  Lemma cs_open_spec : forall fuel r n, RS true r ->
    match cs_open fuel r n (r_pos r) with
    | (None, cs') => r_pos r <= cs'
    | (Some (r1, n', cs'), _) => RS true r1 /\ r_pos r <= cs' /\ cs' = r_pos r1
    end.
  Proof.
    induction fuel as [|f IH]; intros r n HR; cbn [cs_open]; [lia|]. unfold cur.
    destruct (RS_current src U lo hi HEC true r HR) as (Hc & Hp & _).
    destruct (fst (current r) =? 96); [|split; [exact HR|split; [lia|reflexivity]]].
    destruct (RS_next src U lo hi HEC true _ Hc) as (Hn & Hm & Hok & _).
    destruct (next (snd (current r))) as [ok r1]. cbn [fst snd] in *. destruct ok; cbn [negb]; [|lia].
    destruct (Hok eq_refl) as (Hr1 & _). specialize (IH r1 (n + 1) Hr1).
    destruct (cs_open f r1 (n + 1) (r_pos r1)) as [[[[r2 n2] cs2]|] cs3].
    - destruct IH as (I1 & I2 & I3). split; [exact I1|]. split; [lia|exact I3].
    - lia.
  Qed.

  (* a run of backticks stays inside its entry *)
  Lemma next_backtick r k : AliveAt r k -> at_ src (r_pos r) = 96 -> ikind (nU k) <> IndentKind ->
    r_prev (snd (next r)) = r_pos r /\ r_pos r + 1 <= iend (nU k) /\
    (fst (next r) = true -> AliveAt (snd (next r)) k /\ r_pos (snd (next r)) = r_pos r + 1).
  Proof.
    intros A E96 Ni. pose proof (alive_pos src U lo hi HEC r k A) as (A1 & A2 & _).
    destruct (next_alive src U lo hi HEC r k A) as (_ & Epv & [(X & Y & [[Z _]|[_ Z]])|[(X & Hk & Ep & [Hl|Hl] & _)|(X & _)]]); try contradiction.
    - split; [exact Epv|]. split; [lia|]. intros _. split; [exact Y|exact Z].
    - exfalso. destruct (ec_eol _ _ _ _ HEC k ltac:(lia) Hk) as (_ & He). specialize (He Ni).
      replace (iend (nU k) - 1) with (r_pos r) in He by lia. rewrite E96 in He. discriminate.
    - split; [exact Epv|]. split; [lia|]. intros Y. congruence.
  Qed.

  Lemma cs_run_gen : forall fuel r cnt k, RS true r -> AliveAt r k -> at_ src (r_pos r) = 96 -> ikind (nU k) <> IndentKind ->
    let '(r1, cnt', al) := cs_run fuel r cnt in
    RS false r1 /\ r_pos r <= r_pos r1 /\ (r_prev r1 = r_prev r \/ (r_pos r <= r_prev r1 /\ r_prev r1 + 1 <= iend (nU k))).
  Proof.
    induction fuel as [|f IH]; intros r cnt k HR A E96 Ni; cbn [cs_run].
    - split; [apply (RS_weaken src U true); exact HR|]. split; [lia|left; reflexivity].
    - destruct (next_backtick r k A E96 Ni) as (N1 & N2 & N3).
      destruct (RS_next src U lo hi HEC true r HR) as (Hn & Hm & Hok & _).
      destruct (next r) as [ok r1]. cbn [fst snd] in *. destruct ok; cbn [negb].
      + destruct (Hok eq_refl) as (Hr1 & _). destruct (N3 eq_refl) as (A1 & Ep1).
        destruct (RS_current src U lo hi HEC true r1 Hr1) as (Hc & Hp & Hv & _ & _ & Hcc). unfold cur.
        destruct (Z.eqb_spec (fst (current r1)) 96) as [E|N].
        * destruct (cur_src src U lo hi HEC r1 k 96 A1 E ltac:(lia) ltac:(lia)) as (Es1 & _).
          assert (A1' : AliveAt (snd (current r1)) k) by (rewrite (current_alive src U lo hi HEC r1 k A1); cbn [snd]; apply AliveAt_foc; exact A1).
          pose proof (IH (snd (current r1)) (cnt + 1) k Hc A1' ltac:(rewrite Hp; exact Es1) Ni) as HI.
          destruct (cs_run f (snd (current r1)) (cnt + 1)) as [[r2 c2] al2]. destruct HI as (I1 & I2 & I3).
          split; [exact I1|]. split; [lia|]. right. destruct I3 as [I3|I3]; lia.
        * split; [apply (RS_weaken src U true); exact Hc|]. split; [lia|]. right. lia.
      + split; [exact Hn|]. split; [lia|]. right. lia.
  Qed.
  Lemma cs_run_spec fuel r cnt k : RS true r -> AliveAt r k -> at_ src (r_pos r) = 96 -> ikind (nU k) <> IndentKind ->
    let '(r1, cnt', al) := cs_run (S fuel) r cnt in
    RS false r1 /\ r_pos r <= r_pos r1 /\ r_pos r <= r_prev r1 /\ r_prev r1 + 1 <= iend (nU k).
  Proof.
    intros HR A E96 Ni. cbn [cs_run].
    destruct (next_backtick r k A E96 Ni) as (N1 & N2 & N3).
    destruct (RS_next src U lo hi HEC true r HR) as (Hn & Hm & Hok & _).
    destruct (next r) as [ok r1]. cbn [fst snd] in *. destruct ok; cbn [negb].
    - destruct (Hok eq_refl) as (Hr1 & _). destruct (N3 eq_refl) as (A1 & Ep1).
      destruct (RS_current src U lo hi HEC true r1 Hr1) as (Hc & Hp & Hv & _ & _ & Hcc). unfold cur.
      destruct (Z.eqb_spec (fst (current r1)) 96) as [E|N].
      + destruct (cur_src src U lo hi HEC r1 k 96 A1 E ltac:(lia) ltac:(lia)) as (Es1 & _).
        assert (A1' : AliveAt (snd (current r1)) k) by (rewrite (current_alive src U lo hi HEC r1 k A1); cbn [snd]; apply AliveAt_foc; exact A1).
        pose proof (cs_run_gen fuel (snd (current r1)) (cnt + 1) k Hc A1' ltac:(rewrite Hp; exact Es1) Ni) as HI.
        destruct (cs_run fuel (snd (current r1)) (cnt + 1)) as [[r2 c2] al2]. destruct HI as (I1 & I2 & I3).
        split; [exact I1|]. split; [lia|]. destruct I3 as [I3|I3]; lia.
      + split; [apply (RS_weaken src U true); exact Hc|]. lia.
    - split; [exact Hn|]. lia.
  Qed.

  (* the closing run: the position of its first backtick and the end of the span lie in one entry *)
  Lemma cs_close_spec : forall fuel r blen, RS true r ->
    let '(ce, se) := cs_close fuel r blen in
    0 <= se -> r_pos r <= ce /\ exists k, 0 <= k < len U /\ istart (nU k) <= ce /\ ce < se /\ se <= iend (nU k).
  Proof.
    induction fuel as [|f IH]; intros r blen HR; cbn [cs_close]; [lia|]. unfold cur.
    destruct (RS_current src U lo hi HEC true r HR) as (Hc & Hp & Hv & _ & Hs & Hcc).
    destruct (Z.eqb_spec (fst (current r)) 96) as [E|N]; cbn [negb].
    - destruct (Hs eq_refl ltac:(rewrite E; discriminate) ltac:(rewrite E; reflexivity)) as (k & A).
      destruct (cur_src src U lo hi HEC _ k 96 A ltac:(rewrite Hcc; exact E) ltac:(lia) ltac:(lia)) as (Es & Ni).
      pose proof (alive_pos src U lo hi HEC _ k A) as (A1 & A2 & _).
      pose proof (cs_run_spec f (snd (current r)) 1 k Hc A Es Ni) as HRun.
      destruct (cs_run (S f) (snd (current r)) 1) as [[r1 cnt] al]. destruct HRun as (R1 & R2 & R3 & R4).
      destruct (cnt =? blen).
      + intros _. split; [lia|]. exists k. rewrite Hp in *. repeat split; try lia.
      + destruct (RS_next src U lo hi HEC false r1 R1) as (_ & Hm & Hok & _). destruct (next r1) as [ok r2]. cbn [fst snd] in *.
        destruct ok; cbn [negb]; [|lia]. destruct (Hok eq_refl) as (Hr2 & _). specialize (IH r2 blen Hr2).
        destruct (cs_close f r2 blen) as [ce se]. intros Hse. destruct (IH Hse) as (I1 & I2). split; [lia|exact I2].
    - destruct (RS_next src U lo hi HEC true _ Hc) as (_ & Hm & Hok & _). destruct (next (snd (current r))) as [ok r1]. cbn [fst snd] in *.
      destruct ok; cbn [negb]; [|lia]. destruct (Hok eq_refl) as (Hr1 & _). specialize (IH r1 blen Hr1).
      destruct (cs_close f r1 blen) as [ce se]. intros Hse. destruct (IH Hse) as (I1 & I2). split; [lia|exact I2].
  Qed.

  Lemma collectCodeSpan_shape st1 pos sE cS cE j k : unp st1 = U -> isrc st1 = src -> upos st1 = j -> 0 <= j <= k -> k < len U ->
    istart (nU j) <= pos < iend (nU j) -> pos <= cS -> cS <= cE -> istart (nU k) <= cE < iend (nU k) -> cE < sE <= iend (nU k) ->
    exists st2 kids, collectCodeSpan st1 pos sE cS cE = fst (addNode st2 CodeSpanKind pos sE kids) /\
      (st2 = st1 \/ exists up, st2 = setUpos st1 up) /\ upos st2 = k /\ okF pos sE kids /\ pidsF kids = [].
  Proof.
    intros Eu Es Ej Hjk Hk Hpos HcS HcE HkE HsE.
    pose proof (ec_hi _ _ _ _ HEC) as Hhi. pose proof (ec_lo _ _ _ _ HEC) as Hlo.
    destruct (eb src U lo hi HEC j ltac:(lia)) as (Bj1 & Bj2 & Bj3). destruct (eb src U lo hi HEC k ltac:(lia)) as (Bk1 & Bk2 & Bk3).
    unfold collectCodeSpan. cbv zeta. unfold unpFrom. rewrite Eu, Es, Ej.
    assert (Hh : spanHas (nU k) cE = true) by (apply (has_nU src U lo hi HEC k cE); lia).
    unfold nodeIndexForPosition. rewrite (nodeIdx_alive src U lo hi HEC (Z.to_nat (k - j)) j k cE 0 eq_refl ltac:(lia) Hk Hh).
    assert (H0 : okF pos pos (@nil pn)) by (cbn; lia).
    destruct (Z.eqb_spec (0 + (k - j)) 0) as [E0|N0].
    - (* within one entry *)
      assert (k = j) by lia. subst k.
      destruct (cs_addSpan_ok src pos pos [] cS cE H0 (Forall_nil _) ltac:(lia)) as (K1 & K2).
      destruct (strip_ok src pos sE _ ltac:(eapply okF_weaken; [exact K1|lia|lia]) K2) as (S1 & S2).
      eexists. eexists. split; [reflexivity|]. split; [left; reflexivity|]. split; [exact Ej|]. split; [exact S1|apply leafF_pids; exact S2].
    - (* several entries *)
      destruct (cs_addSpan_ok src pos pos [] cS (iend (nU j)) H0 (Forall_nil _) ltac:(lia)) as (K1 & K2).
      change (nth (Z.to_nat j) U (mkI 0 0 0)) with (nU j).
      match goal with |- context [?F (Z.to_nat (0 + (k - j) - 1)) (cs_addSpan src [] cS (iend (nU j))) j] =>
        assert (HM : forall n acc up, j <= up -> up + Z.of_nat n < k -> okF pos (iend (nU up)) acc -> leafF acc ->
                  okF pos (iend (nU (up + Z.of_nat n))) (fst (F n acc up)) /\ leafF (fst (F n acc up)) /\ snd (F n acc up) = up + Z.of_nat n);
        [|destruct (HM (Z.to_nat (0 + (k - j) - 1)) (cs_addSpan src [] cS (iend (nU j))) j ltac:(lia) ltac:(lia)
                      ltac:(eapply okF_weaken; [exact K1|lia|lia]) K2) as (M1 & M2 & M3);
          destruct (F (Z.to_nat (0 + (k - j) - 1)) (cs_addSpan src [] cS (iend (nU j))) j) as [acc up] ]
      end.
      { induction n as [|n IHn]; intros acc up Hup Hn Hacc Hlf.
        - cbn [fst snd]. replace (up + Z.of_nat 0) with up by lia. split; [exact Hacc|split; [exact Hlf|reflexivity]].
        - change (nth (Z.to_nat (up + 1)) U (mkI 0 0 0)) with (nU (up + 1)).
          destruct (eb src U lo hi HEC (up + 1) ltac:(lia)) as (C1 & C2 & C3).
          pose proof (eo src U lo hi HEC up (up + 1) ltac:(lia) ltac:(lia) ltac:(lia)) as Ho.
          assert (Hnext : okF pos (iend (nU (up + 1))) (if ikind (nU (up + 1)) =? UnparsedKind then cs_addSpan src acc (istart (nU (up + 1))) (iend (nU (up + 1))) else acc) /\
                          leafF (if ikind (nU (up + 1)) =? UnparsedKind then cs_addSpan src acc (istart (nU (up + 1))) (iend (nU (up + 1))) else acc)).
          { destruct (ikind (nU (up + 1)) =? UnparsedKind).
            - destruct (cs_addSpan_ok src pos (iend (nU up)) acc (istart (nU (up + 1))) (iend (nU (up + 1))) Hacc Hlf ltac:(lia)) as (X1 & X2).
              split; [eapply okF_weaken; [exact X1|lia|lia]|exact X2].
            - split; [eapply okF_weaken; [exact Hacc|lia|lia]|exact Hlf]. }
          destruct Hnext as [Hn1 Hn2].
          destruct (IHn _ (up + 1) ltac:(lia) ltac:(lia) Hn1 Hn2) as (I1 & I2 & I3).
          replace (up + Z.of_nat (S n)) with (up + 1 + Z.of_nat n) by lia. split; [exact I1|split; [exact I2|exact I3]]. }
      cbn [fst snd] in M1, M2, M3. replace (j + Z.of_nat (Z.to_nat (0 + (k - j) - 1))) with (k - 1) in M1, M3 by lia.
      subst up. replace (k - 1 + 1) with k by lia. change (nth (Z.to_nat k) U (mkI 0 0 0)) with (nU k).
      pose proof (eo src U lo hi HEC (k - 1) k ltac:(lia) ltac:(lia) Hk) as Ho.
      destruct (cs_addSpan_ok src pos (iend (nU (k - 1))) acc (istart (nU k)) cE M1 M2 ltac:(lia)) as (L1 & L2).
      destruct (strip_ok src pos sE _ ltac:(eapply okF_weaken; [exact L1|lia|lia]) L2) as (S1 & S2).
      eexists. eexists. split; [reflexivity|]. split; [right; eexists; reflexivity|]. split; [reflexivity|]. split; [exact S1|apply leafF_pids; exact S2].
  Qed.

  Theorem SpecCode_holds : SpecCode src U.
  Proof.
    intros st pos HE. destruct (inEntry_reader src U st pos HE) as (Eu & Es & Hj & Hp & Hse).
    unfold parseCodeSpan. rewrite Es, Eu.
    pose proof (RS_new src U lo hi HEC true pos (upos st) (upos st) ltac:(lia) ltac:(lia) Hp) as HR.
    pose proof (cs_open_spec (rfuelOf st) _ 0 HR) as HO. cbn [r_pos newReader] in HO.
    destruct (cs_open (rfuelOf st) (newReader src (from_ U (upos st)) pos) 0 pos) as [[[[r1 n] cs']|] cs2].
    - destruct HO as (I1 & I2 & I3). pose proof (cs_close_spec (rfuelOf st) r1 n I1) as HC.
      destruct (cs_close (rfuelOf st) r1 n) as [ce se]. split; [exact I2|]. intros Hse0 st1 (S1 & S2 & S3).
      destruct (HC Hse0) as (C1 & k & Ck & C2 & C3 & C4).
      destruct HE as (EU & _).
      assert (Hjk : upos st <= k).
      { destruct (Z.le_gt_cases (upos st) k) as [L|L]; [exact L|]. pose proof (eo src U lo hi HEC k (upos st) ltac:(lia) L ltac:(lia)). lia. }
      destruct (collectCodeSpan_shape st1 pos se cs' ce (upos st) k ltac:(congruence) ltac:(congruence) S2 ltac:(lia) ltac:(lia) Hp I2 ltac:(lia) ltac:(lia) ltac:(lia))
        as (st2 & kids & E1 & E2 & E3 & E4 & E5).
      exists st2, kids. split; [exact E1|]. split; [exact E2|]. rewrite E3. repeat split; try assumption; lia.
    - split; [exact HO|]. lia.
  Qed.
End CodeScan.

(* ================================================================================================
   All four scanner specifications hold under the entry conditions.
   ================================================================================================ *)
Require Import SpanHtml.
Theorem scanner_specs src U lo hi : EC src U lo hi -> SpecHTML src U /\ SpecCode src U /\ SpecInline src U /\ SpecLabel src U.
Proof.
  intros H. split; [apply (SpecHTML_holds src U lo hi H)|]. split; [apply (SpecCode_holds src U lo hi H)|].
  split; [apply (SpecInline_holds src U lo hi H)|apply (SpecLabel_holds src U lo hi H)].
Qed.
Print Assumptions scanner_specs.
