From Coq Require Import List ZArith Lia Bool.
Import ListNotations.
Require Rec16.
Require Import Base Tables Utf8 Tree Rdr Link Collect Html Recog Inl3a Inl3b Inl3c Inl3d ShapesBase ShapesR IFBase IFLink IFHtml
  EolCRBytes EolCRLFDefs EolCRLFSimBytes EolCRLFSimStream
  EolGenCrlfRdrDefs EolGenCrlfRdrStep EolGenCrlfRdrNext EolGenCrlfRdrLink EolGenCrlfRdrLink2 EolGenCrlfRdrLink3 EolGenCrlfRdrColl
  EolCRLFFullHtml1 EolCRLFFullHtml2.
Open Scope Z_scope.

(* C14 (ii), CRLF clause: the loops of parseHTMLTag (Inl3d.v) on the two readers: processing instruction, declaration,
   comment, CDATA section.  The loops run over line endings: W-invariant. *)

Lemma sub_cons' (l : bytes) a b : 0 <= a -> a < b -> b <= len l -> sub l a b = at_ l a :: sub l (a + 1) b.
Proof.
  intros Ha Hab Hb. unfold sub. rewrite (Rec16.from_cons l a) by lia. rewrite upto_cons' by lia. f_equal. f_equal. lia.
Qed.
Lemma rnb_snd r : snd (remainingNodeBytes r) = snd (curNode r).
Proof. unfold remainingNodeBytes. destruct (curNode r) as [[n|] r0]; reflexivity. Qed.
Lemma next_rnb r : next (snd (remainingNodeBytes r)) = next r.
Proof. rewrite rnb_snd. apply next_curNode. Qed.
Lemma rnb_in src r node : PL src r -> fst (curNode r) = Some node ->
  fst (remainingNodeBytes r) = at_ src (r_pos r) :: sub src (r_pos r + 1) (iend node).
Proof.
  intros (A & B) Hn. unfold remainingNodeBytes.
  destruct (curNode_cases r) as [Ec|(pre & n & rest & E1 & Ec & E3)]; rewrite Ec in Hn |- *; cbn [fst] in Hn; [discriminate|].
  inversion Hn; subst n. cbn [fst]. rewrite E1 in B. apply spW_app_r in B. pose proof (spW_cons _ _ _ B) as (B1 & B2 & B3 & _).
  pose proof (spanHas_range _ _ E3) as (S1 & S2 & S3). rewrite A. apply sub_cons'; lia.
Qed.
Lemma sub_empty (l : bytes) a b : b <= a -> sub l a b = [].
Proof. intros H. unfold sub. apply upto_le0. lia. Qed.

Definition SimO (RRel : reader -> reader -> Prop) (x y : option reader) : Prop :=
  match x, y with Some a, Some b => RRel a b | None, None => True | _, _ => False end.

Section HtmlSim3.
  Variable R : bytes.
  Variable Eb : Z.
  Hypothesis R13 : ~ In 13 R.
  Notation P := (phiP R).
  Notation R' := (crlf R).
  Notation F := (phiI R).
  Notation RR := (RR R Eb).
  Notation RM := (RM R Eb).
  Notation PVc := (PVc R).
  Notation SPI := (SPI R Eb).
  Notation W := (W R Eb).
  Notation mapS := (mapS R).

  Ltac f0 HW := exfalso; destruct (W_PL R Eb _ _ HW) as [?P1 ?P2]; first [eapply (fuel0 R); eassumption|eapply (fuel0 R'); eassumption].
  Ltac neb := repeat first [apply Forall_nil | apply Forall_cons; [split; discriminate|]].

  (* ---------------------------------------------------------------- walking along a matched prefix of the node's remaining bytes *)
  Lemma rnb_step r a b rest : r_src r = R -> SPI (r_spans r) -> hasBytePrefix (fst (remainingNodeBytes r)) (a :: b :: rest) = true ->
    exists r1, next r = (true, r1) /\ at_ R (r_pos r) = a /\ hasBytePrefix (fst (remainingNodeBytes r1)) (b :: rest) = true.
  Proof.
    intros A G Hp. unfold remainingNodeBytes in Hp.
    destruct (curNode_cases r) as [Ec|(pre & n & rest0 & E1 & Ec & E3)]; rewrite Ec in Hp; cbn [fst] in Hp; [cbn [hasBytePrefix] in Hp; discriminate Hp|].
    pose proof G as G0. rewrite E1 in G0. apply (SPI_app_r R Eb) in G0.
    destruct G0 as (B & _ & _ & C & _). pose proof (spW_cons _ _ _ B) as (B1 & B2 & B3 & _).
    pose proof (spanHas_range _ _ E3) as (S1 & S2 & S3).
    rewrite A in Hp. rewrite (sub_cons' R (r_pos r) (iend n)) in Hp by lia. cbn [hasBytePrefix] in Hp.
    apply andb_true_iff in Hp. destruct Hp as [Ha Hb]. apply Z.eqb_eq in Ha.
    assert (L : r_pos r + 1 < iend n).
    { destruct (Z.lt_ge_cases (r_pos r + 1) (iend n)) as [L|L]; [exact L|]. exfalso.
      rewrite (sub_empty R (r_pos r + 1) (iend n)) in Hb by lia. cbn [hasBytePrefix] in Hb. discriminate Hb. }
    assert (K : ikind n <> IndentKind).
    { intros K. cbn [forallb] in C. apply andb_true_iff in C. destruct C as [C _]. unfold indOK1 in C. rewrite K in C.
      change (IndentKind =? IndentKind) with true in C. cbn [negb orb] in C. apply andb_true_iff in C. destruct C as [C1 _]. apply Z.eqb_eq in C1. lia. }
    unfold next. rewrite Ec. cbn [withSpans r_src r_pos r_spans r_vpos].
    destruct (Z.eqb_spec (ikind n) IndentKind) as [K1|_]; [contradiction|]. cbn [andb negb].
    destruct (Z.ltb_spec (r_pos r + 1) (iend n)) as [_|L2]; [|lia].
    eexists. split; [reflexivity|]. split; [symmetry; exact Ha|].
    unfold remainingNodeBytes. rewrite (curNode_head n rest0) by (first [reflexivity | apply spanHas_intro; cbn [r_pos]; lia]).
    cbn [fst r_src r_pos]. rewrite A. exact Hb.
  Qed.
  Lemma rnb_at r a rest : r_src r = R -> SPI (r_spans r) -> hasBytePrefix (fst (remainingNodeBytes r)) (a :: rest) = true -> at_ R (r_pos r) = a.
  Proof.
    intros A G Hp. unfold remainingNodeBytes in Hp.
    destruct (curNode_cases r) as [Ec|(pre & n & rest0 & E1 & Ec & E3)]; rewrite Ec in Hp; cbn [fst] in Hp; [cbn [hasBytePrefix] in Hp; discriminate Hp|].
    pose proof G as G0. rewrite E1 in G0. apply (SPI_app_r R Eb) in G0.
    destruct G0 as (B & _). pose proof (spW_cons _ _ _ B) as (B1 & B2 & B3 & _).
    pose proof (spanHas_range _ _ E3) as (S1 & S2 & S3).
    rewrite A in Hp. rewrite (sub_cons' R (r_pos r) (iend n)) in Hp by lia. cbn [hasBytePrefix] in Hp.
    apply andb_true_iff in Hp. destruct Hp as [Ha _]. apply Z.eqb_eq in Ha. symmetry. exact Ha.
  Qed.
  Lemma cur_ne10 r : r_src r = R -> at_ R (r_pos r) <> 10 -> cur r <> 10.
  Proof. intros A N E. destruct (cur_10 R r A E) as [Q _]. contradiction. Qed.

  Lemma pre_step r r' a b rest : RR r r' -> a <> 10 -> hasBytePrefix (fst (remainingNodeBytes r)) (a :: b :: rest) = true ->
    exists r1 r1', next r = (true, r1) /\ next r' = (true, r1') /\ RR r1 r1' /\ hasBytePrefix (fst (remainingNodeBytes r1)) (b :: rest) = true /\
                   nu R r1 < nu R r /\ nu R' r1' < nu R' r'.
  Proof.
    intros H Na Hp. pose proof H as ((A & _) & _). destruct (rnb_step r a b rest A (RR_SPI R Eb _ _ H) Hp) as (r1 & En & Ea & Hp1).
    destruct (next r') as [ok' r1'] eqn:En'.
    destruct (nextE_RR R Eb _ _ _ _ _ _ H (cur_ne10 r A ltac:(rewrite Ea; exact Na)) En En') as (-> & H1 & _ & [_ U] & [_ U']).
    exists r1, r1'. split; [exact En|]. split; [reflexivity|]. split; [exact H1|]. split; [exact Hp1|]. split; [apply U; reflexivity|apply U'; reflexivity].
  Qed.
  Lemma pre_last r r' a rest : RR r r' -> a <> 10 -> hasBytePrefix (fst (remainingNodeBytes r)) (a :: rest) = true ->
    cur r <> 10 /\ r_pos r' + 1 = P (r_pos r + 1).
  Proof.
    intros H Na Hp. pose proof H as ((A & _) & _). pose proof (rnb_at r a rest A (RR_SPI R Eb _ _ H) Hp) as Ea.
    split; [apply cur_ne10; [exact A|rewrite Ea; exact Na]|]. rewrite (RR_pos R Eb _ _ H). symmetry. apply P_succ_n. rewrite Ea. exact Na.
  Qed.

  (* ---------------------------------------------------------------- the stutter state and remainingNodeBytes *)
  Lemma RM_curNode_inv r m : SPI (r_spans r) -> RM (snd (curNode r)) m -> RM r m.
  Proof.
    destruct (curNode_fields r) as (A1 & A2 & A3 & A4). cbv zeta in *.
    unfold EolGenCrlfRdrStep.RM. rewrite curNode_idem, A1, A2, A3. intros G (H1 & H2 & H3 & H4 & H5 & H6 & H7).
    destruct H7 as (H7 & H8 & H9). tauto.
  Qed.
  Lemma RM_rnb_inv r m : SPI (r_spans r) -> RM (snd (remainingNodeBytes r)) m -> RM r m.
  Proof. rewrite rnb_snd. apply RM_curNode_inv. Qed.
  Lemma RM_rnb r m pre a : RM r m -> a <> 10 ->
    hasBytePrefix (fst (remainingNodeBytes r)) (a :: pre) = false /\ hasBytePrefix (fst (remainingNodeBytes m)) (a :: pre) = false /\
    RM (snd (remainingNodeBytes r)) (snd (remainingNodeBytes m)).
  Proof.
    intros H Na. destruct (RM_PL R Eb _ _ H) as [Q Q']. destruct (RM_curNode R Eb r m H) as [X Y].
    destruct H as (A & B & C & D & E & G & H10 & Hpv & node & Hn & Hk). rewrite Hn in X. cbn [option_map] in X.
    rewrite (rnb_in R r node Q Hn), (rnb_in R' m (F node) Q' X), H10, D, (at_P1 R _ H10), !rnb_snd. cbn [hasBytePrefix].
    replace (a =? 10) with false by (symmetry; apply Z.eqb_neq; exact Na). split; [reflexivity|]. split; [reflexivity|exact Y].
  Qed.

  Lemma mapS_null : mapS nullSpan = nullSpan. Proof. reflexivity. Qed.

  (* ---------------------------------------------------------------- processing instruction *)
  Lemma ht_pi_sim : forall f' f r r' st st', W r r' -> st' = P st -> nu R r < Z.of_nat f -> nu R' r' < Z.of_nat f' ->
    ht_pi f' r' st' = mapS (ht_pi f r st).
  Proof.
    induction f' as [|f' IH]; intros f r r' st st' HW Es Hn Hn'; [f0 HW|]. destruct f as [|f]; [f0 HW|].
    destruct (current r) as [c r1] eqn:Ec. destruct (current r') as [c' r1'] eqn:Ec'.
    destruct (next r1) as [ok r2] eqn:En. destruct (next r1') as [ok' r2'] eqn:En'.
    destruct HW as [H|H].
    - destruct (currentE_RR R Eb R13 _ _ _ _ _ _ H Ec Ec') as (-> & H1 & Hc & N1 & N1' & _).
      destruct (Z.eq_dec c 10) as [->|N10].
      + destruct (nextE_RR10 R Eb _ _ _ _ _ _ H1 Hc En En') as [(-> & -> & H2 & _)|(-> & HM & Hlt)].
        * cbn [ht_pi]. unfold cur. rewrite Ec, Ec'. cbn [fst snd]. change (m13 10) with 13. cbn [Z.eqb Pos.eqb negb]. rewrite En, En'. reflexivity.
        * assert (E' : ht_pi (S f') r' st' = ht_pi f' r2' st').
          { cbn [ht_pi]. unfold cur. rewrite Ec'. cbn [fst snd]. change (m13 10) with 13. cbn [Z.eqb Pos.eqb negb]. rewrite En'. reflexivity. }
          rewrite E'. apply IH; [right; apply (RM_uncur R Eb r 10 r1); [apply (RR_SPI R Eb _ _ H)|exact Ec|exact HM]|exact Es|lia|lia].
      + destruct (nextE_RR R Eb _ _ _ _ _ _ H1 ltac:(rewrite Hc; exact N10) En En') as (-> & H2 & _ & [U1 U2] & [U1' U2']).
        cbn [ht_pi]. unfold cur at 1 3. rewrite Ec, Ec'. cbn [fst snd]. rewrite m13_eqb by discriminate. rewrite En, En'.
        destruct (Z.eqb_spec c 63) as [->|N63]; cbn [negb].
        * destruct ok; cbn [negb orb]; [|reflexivity]. specialize (U2 eq_refl). specialize (U2' eq_refl).
          rewrite (jumped_sim R Eb r2 r2' H2). destruct (jumped r2); [reflexivity|].
          destruct (RR_current R Eb r2 r2' H2) as [Ecu _]. rewrite Ecu. change (if cur r2 =? 10 then 13 else cur r2) with (m13 (cur r2)).
          rewrite m13_eqb by discriminate. destruct (Z.eqb_spec (cur r2) 62) as [E62|N62].
          -- unfold EolGenCrlfRdrLink3.mapS. cbn [fst snd]. rewrite Es. f_equal.
             apply (pos_succ R Eb); [exact H2|rewrite E62; discriminate|rewrite E62; discriminate].
          -- apply IH; [left; exact H2|exact Es|lia|lia].
        * destruct ok; cbn [negb]; [|reflexivity]. apply IH; [left; exact H2|exact Es|specialize (U2 eq_refl); lia|specialize (U2' eq_refl); lia].
    - destruct (currentE_RM R Eb _ _ _ _ _ _ H Ec Ec') as (-> & -> & H1 & N1 & N1' & _).
      destruct (nextE_RM R Eb _ _ _ _ _ _ H1 En En') as (-> & H2 & _ & [U1 U2] & [U1' U2']).
      cbn [ht_pi]. unfold cur. rewrite Ec, Ec'. cbn [fst snd Z.eqb Pos.eqb negb]. rewrite En, En'.
      destruct ok; cbn [negb]; [|reflexivity]. apply IH; [left; exact H2|exact Es|specialize (U2 eq_refl); lia|specialize (U2' eq_refl); lia].
  Qed.

  (* ---------------------------------------------------------------- declaration: up to a byte c *)
  Lemma ht_until_sim : forall f' f r r' c, W r r' -> c <> 10 -> c <> 13 -> nu R r < Z.of_nat f -> nu R' r' < Z.of_nat f' ->
    SimO (fun a b => RR a b /\ cur a = c) (ht_until f r c) (ht_until f' r' c).
  Proof.
    induction f' as [|f' IH]; intros f r r' q HW Q1 Q2 Hn Hn'; [f0 HW|]. destruct f as [|f]; [f0 HW|].
    destruct (current r) as [c r1] eqn:Ec. destruct (current r') as [c' r1'] eqn:Ec'.
    destruct (next r1) as [ok r2] eqn:En. destruct (next r1') as [ok' r2'] eqn:En'.
    assert (Q10 : (10 =? q) = false) by (apply Z.eqb_neq; intros E; apply Q1; symmetry; exact E).
    assert (Q13 : (13 =? q) = false) by (apply Z.eqb_neq; intros E; apply Q2; symmetry; exact E).
    destruct HW as [H|H].
    - destruct (currentE_RR R Eb R13 _ _ _ _ _ _ H Ec Ec') as (-> & H1 & Hc & N1 & N1' & _).
      destruct (Z.eq_dec c 10) as [->|N10].
      + destruct (nextE_RR10 R Eb _ _ _ _ _ _ H1 Hc En En') as [(-> & -> & H2 & _)|(-> & HM & Hlt)].
        * cbn [ht_until]. unfold cur. rewrite Ec, Ec'. cbn [fst snd]. change (m13 10) with 13. rewrite Q10, Q13, En, En'. exact I.
        * assert (E' : ht_until (S f') r' q = ht_until f' r2' q).
          { cbn [ht_until]. unfold cur. rewrite Ec'. cbn [fst snd]. change (m13 10) with 13. rewrite Q13, En'. reflexivity. }
          rewrite E'. apply IH; [right; apply (RM_uncur R Eb r 10 r1); [apply (RR_SPI R Eb _ _ H)|exact Ec|exact HM]|exact Q1|exact Q2|lia|lia].
      + destruct (nextE_RR R Eb _ _ _ _ _ _ H1 ltac:(rewrite Hc; exact N10) En En') as (-> & H2 & _ & [U1 U2] & [U1' U2']).
        cbn [ht_until]. unfold cur. rewrite Ec, Ec'. cbn [fst snd]. rewrite (m13_eqb c q Q1 Q2), En, En'.
        destruct (Z.eqb_spec c q) as [Eq|Nq]; [cbn [SimO]; split; [exact H1|change (cur r1 = q); rewrite Hc; exact Eq]|].
        destruct ok; cbn [negb]; [|exact I]. apply IH; [left; exact H2|exact Q1|exact Q2|specialize (U2 eq_refl); lia|specialize (U2' eq_refl); lia].
    - destruct (currentE_RM R Eb _ _ _ _ _ _ H Ec Ec') as (-> & -> & H1 & N1 & N1' & _).
      destruct (nextE_RM R Eb _ _ _ _ _ _ H1 En En') as (-> & H2 & _ & [U1 U2] & [U1' U2']).
      cbn [ht_until]. unfold cur. rewrite Ec, Ec'. cbn [fst snd]. rewrite Q10, En, En'.
      destruct ok; cbn [negb]; [|exact I]. apply IH; [left; exact H2|exact Q1|exact Q2|specialize (U2 eq_refl); lia|specialize (U2' eq_refl); lia].
  Qed.
End HtmlSim3.

Print Assumptions ht_pi_sim.
Print Assumptions ht_until_sim.
