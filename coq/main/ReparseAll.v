From Coq Require Import List ZArith Lia Bool.
Import ListNotations.
Require Import Base Tree Rdr LP Rules Starts Driver L2CC L2BndS TDefs TInv TLine2 Total GramDefs StreamFuel SliceBase SliceReparse BlankPrefix
  ReparseDefs ReparseLocal ReparseFirst ReparseEof ReparseRun ReparseSI ReparsePlain Reparse2 ReparseSuffix ReparseAfter ReparseEqb.
Open Scope Z_scope.

(* ====================================================================================================================
   T62: C16 at the block layer for every root of every input without NUL that is `covered`.

   The run of allBlocks is followed call by call (walk).  For each call nextBlock s = NBBlock r s' the executable test
     cleanCheck : no pending children, and the cut is at the position read so far (bi s' = 0)   -> Reparse.reparse_clean_call
     lcCheck    : the cut was made by the following line.  Everything the per-cut theorem E2_core_plain asks for is
                  COMPUTED and compared (the buffer B after the blank lines, the state (T, stp, [c]) before the closing line,
                  the closing line itself, the root, its source, plainSpine)                     -> Reparse2.E2_core_plain
     swCheck    : after such a cut by a non-blank line the state s' is the one described by ReparseAfter.after_lineCut; then
                  the rest of the run is the run from the fresh state on the same buffer (ReparseSuffix.suffix_nextBlock), and
                  the walk goes on from there: the roots "from pending children" are reached as roots of calls without pending
                  children of that fresh run.
   The side conditions of lineB_all (ccF, gbL, closedness of the closing, hasMatch, no open setext heading, la) are discharged
   inside E2_core_all / after_lineCut from the whole-run invariants (ReparseInv.lastLine_inv, lastLine_la); they do not appear here.
   ==================================================================================================================== *)

Definition C16P (r : rootB) : Prop := exists r', parseBlocks (rb_src r) = ([r'], 0) /\ aloneOf r' = aloneOf r.

Fixpoint skipBlank (f : nat) (b : bytes) : bytes :=
  match f with
  | O => b
  | S f' => let e := lineEnd b 0 in
            if negb (0 <? e) then b else if isBlankLine (upto b e) then skipBlank f' (from_ b e) else b
  end.
Lemma noNul_skipBlank : forall f b, noNul b -> noNul (skipBlank f b).
Proof.
  induction f as [|f IH]; intros b H; [exact H|]. cbn [skipBlank]. cbv zeta. destruct (negb _); [exact H|].
  destruct (isBlankLine _); [apply IH, noNul_from, H|exact H].
Qed.

Definition fresh (s : bpst) : bpst := {| buf := buf s; bi := 0; boff := boff s; bline := bline s; pending := [] |}.

(* the data of a cut by the following line, computed from the state before the call *)
Definition lineData (s : bpst) : option (bytes * Z * Z * block * Z * block * list block * Z) :=
  let B := skipBlank (S (length (buf s))) (from_ (buf s) (bi s)) in
  match lastLine (3 + length B) 0 [] 0 B with
  | Some (T, stp, [c]) =>
      let bij := lineEnd B T in
      match processLine stp [c] T (upto B bij) with
      | (h :: rest, st', pn) =>
          if (0 <? lineEnd B 0) && negb (isBlankLine (upto B (lineEnd B 0))) && (pn =? 0) && negb (isOpen h) && (bend h =? T) && (0 <? T) && (T <? bij)
             && negb ((bkind c =? ParagraphKind) && (bkind h =? LinkReferenceDefinitionKind))
          then Some (B, T, stp, c, bij, h, rest, st') else None
      | _ => None
      end
  | _ => None
  end.

Definition cleanCheck (s s' : bpst) : bool := (match pending s with [] => true | _ => false end) && (bi s' =? 0).
Definition lcCheck (s : bpst) (r : rootB) : bool :=
  match lineData s with
  | Some (B, T, stp, c, bij, h, rest, st') =>
      blockEqb h (rb_blk r) && zsEqb (rb_src r) (upto B T) && plainSpineb (bheight c) (upto B bij) c
  | None => false
  end.
Definition swCheck (s s' : bpst) : bool :=
  match lineData s with
  | Some (B, T, stp, c, bij, h, rest, st') =>
      negb (isBlankLine (upto (from_ B T) (bij - T))) && zsEqb (buf s') (from_ B T) && (bi s' =? bij - T) &&
      blocksEqb (pending s') (map (shiftB (- T)) rest)
  | None => false
  end.

(* optional fallback (rs = true): re-synchronisation checked by computation -- the next call from s' and from the fresh state
   on the same buffer return the same root and the same state.  Used only for coveredR below. *)
Definition rootEqb (a b : rootB) : bool :=
  (rb_line a =? rb_line b) && (rb_start a =? rb_start b) && (rb_end a =? rb_end b) && zsEqb (rb_src a) (rb_src b) && blockEqb (rb_blk a) (rb_blk b).
Definition stEqb (a b : bpst) : bool :=
  zsEqb (buf a) (buf b) && (bi a =? bi b) && (boff a =? boff b) && (bline a =? bline b) && blocksEqb (pending a) (pending b).
Definition resync (s' : bpst) : bool :=
  match pending s' with
  | [] => false
  | _ => match nextBlock (3 + length (buf s')) s', nextBlock (3 + length (buf s')) (fresh s') with
         | NBBlock r1 t1, NBBlock r2 t2 => rootEqb r1 r2 && stEqb t1 t2
         | _, _ => false
         end
  end.
Definition sw (rs : bool) (s s' : bpst) : bool := swCheck s s' || (rs && resync s').

Fixpoint walk (rs : bool) (f : nat) (s : bpst) : list (rootB * bool) :=
  match f with
  | O => []
  | S f' =>
    match nextBlock (3 + length (buf s)) s with
    | NBBlock r s' => (r, cleanCheck s s' || lcCheck s r) :: walk rs f' (if sw rs s s' then fresh s' else s')
    | _ => []
    end
  end.

Definition coveredG (rs : bool) (input : bytes) (r : rootB) : bool :=
  existsb (fun x => snd x && zsEqb (rb_src (fst x)) (rb_src r) && blockEqb (rb_blk (fst x)) (rb_blk r))
          (walk rs (S (length (pad input))) (st0 (pad input))).
Definition covered : bytes -> rootB -> bool := coveredG false.
Definition coveredR : bytes -> rootB -> bool := coveredG true.

(* ---- soundness of the computed data ---- *)
Lemma lineData_ok s B T stp c bij h rest st' : noNul (buf s) -> lineData s = Some (B, T, stp, c, bij, h, rest, st') ->
  noNul B /\ (exists f, lastLine f 0 [] 0 B = Some (T, stp, [c])) /\ 0 < lineEnd B 0 /\ isBlankLine (upto B (lineEnd B 0)) = false /\
  bij = lineEnd B T /\ processLine stp [c] T (upto B bij) = (h :: rest, st', 0) /\ isOpen h = false /\ bend h = T /\ 0 < T /\ T < bij /\
  (bkind c = ParagraphKind -> bkind h <> LinkReferenceDefinitionKind).
Proof.
  intros HN. unfold lineData. cbv zeta. set (B0 := skipBlank (S (length (buf s))) (from_ (buf s) (bi s))).
  assert (HNB : noNul B0) by (apply noNul_skipBlank, noNul_from, HN).
  destruct (lastLine (3 + length B0) 0 [] 0 B0) as [[[T0 stp0] chp]|] eqn:EL; [|discriminate].
  destruct chp as [|c0 [|? ?]]; try discriminate.
  destruct (processLine stp0 [c0] T0 (upto B0 (lineEnd B0 T0))) as [[ch' st0'] pn] eqn:Epl. destruct ch' as [|h0 rest0]; [discriminate|].
  match goal with |- (if ?cnd then _ else _) = _ -> _ => destruct cnd eqn:Ec end; [|discriminate].
  intros E. inversion E; subst. clear E.
  repeat (apply andb_true_iff in Ec; destruct Ec as [Ec ?]).
  repeat match goal with H : (_ <? _) = true |- _ => apply Z.ltb_lt in H end.
  repeat match goal with H : (_ =? _) = true |- _ => apply Z.eqb_eq in H end.
  repeat match goal with H : negb _ = true |- _ => apply negb_true_iff in H end.
  subst. split; [exact HNB|]. split; [eexists; exact EL|]. repeat split; try assumption; try reflexivity.
  intros Ek Eh. match goal with H : _ && _ = false |- _ => rewrite Ek, Eh in H; discriminate H end.
Qed.

Lemma lc_sound s r : noNul (buf s) -> lcCheck s r = true -> C16P r.
Proof.
  intros HN H. unfold lcCheck in H. destruct (lineData s) as [[[[[[[[B T] stp] c] bij] h] rest] st']|] eqn:ED; [|discriminate].
  destruct (lineData_ok s B T stp c bij h rest st' HN ED) as (HNB & (f & HL) & H1 & H2 & Ebij & Hpl & Hcl & Hbe & HT0 & HTb & Hnr).
  apply andb_true_iff in H. destruct H as [H Hps]. apply andb_true_iff in H. destruct H as [Hb Hsrc].
  apply blockEqb_eq in Hb. apply zsEqb_eq in Hsrc. apply plainSpineb_ok in Hps.
  destruct (E2_core_plain B f T stp c bij rest st' h HNB HL H1 H2 Ebij Hpl Hcl Hbe HT0 HTb Hnr Hps) as (y & Hy1 & Hy2).
  unfold C16P. rewrite Hsrc. eexists. split; [exact Hy1|]. unfold aloneOf. cbn [rb_src rb_blk]. rewrite Hy2, Hsrc, Hb. reflexivity.
Qed.

Lemma clean_sound s r s' : DI s -> noNul (buf s) -> nextBlock (3 + length (buf s)) s = NBBlock r s' -> cleanCheck s s' = true -> C16P r.
Proof.
  intros HD HN En H. unfold cleanCheck in H. apply andb_true_iff in H. destruct H as [Hp Hb]. apply Z.eqb_eq in Hb.
  assert (Hp' : pending s = []) by (destruct (pending s); [reflexivity|discriminate]).
  pose proof (reparse_clean_call s r s' HD HN Hp' En Hb) as HR. exists (rebase r). split; [exact HR|reflexivity].
Qed.

Lemma sw_sound s s' : noNul (buf s) -> swCheck s s' = true -> forall f acc, allBlocks f s' acc = allBlocks f (fresh s') acc.
Proof.
  intros HN H. unfold swCheck in H. destruct (lineData s) as [[[[[[[[B T] stp] c] bij] h] rest] st']|] eqn:ED; [|discriminate].
  destruct (lineData_ok s B T stp c bij h rest st' HN ED) as (HNB & (f0 & HL) & H1 & H2 & Ebij & Hpl & Hcl & Hbe & HT0 & HTb & Hnr).
  repeat (apply andb_true_iff in H; destruct H as [H ?]).
  apply negb_true_iff in H. match goal with X : zsEqb _ _ = true |- _ => apply zsEqb_eq in X; rename X into Eb end.
  match goal with X : (_ =? _) = true |- _ => apply Z.eqb_eq in X; rename X into Ei end.
  match goal with X : blocksEqb _ _ = true |- _ => apply blocksEqb_eq in X; rename X into Ep end.
  destruct (after_lineCut B f0 T stp c bij rest st' h HNB HL H1 H2 Ebij Hpl Hcl Hbe HT0 HTb Hnr) as (Ele & Epl & Hst').
  set (B' := from_ B T) in *. set (K0 := map (shiftB (- T)) rest) in *.
  assert (He1 : 0 < lineEnd B' 0) by (rewrite Ele; lia).
  assert (Hnb' : isBlankLine (upto B' (lineEnd B' 0)) = false) by (rewrite Ele; exact H).
  assert (HK0 : K0 <> []).
  { pose proof (processLine_good 0 [] 0 (upto B' (lineEnd B' 0)) ltac:(lia) Logic.I (UB_nil 0 false) eq_refl (or_introl eq_refl) ltac:(discriminate)) as HG.
    cbv zeta in HG. rewrite Epl in HG. cbn [fst snd] in HG. apply HG. intros _. split; [|left; reflexivity].
    unfold from_. cbn [Z.to_nat skipn]. exact Hnb'. }
  pose proof (suffix_nextBlock B' (boff s') (bline s') K0 st' He1 Hnb' Epl Hst' HK0) as HS. rewrite Ele in HS.
  assert (Es' : s' = {| buf := B'; bi := bij - T; boff := boff s'; bline := bline s'; pending := K0 |}).
  { destruct s' as [b0 i0 o0 l0 p0]. cbn [buf bi boff bline pending] in *. subst. reflexivity. }
  intros f acc. destruct f as [|f]; [reflexivity|]. cbn [allBlocks]. change (buf (fresh s')) with (buf s').
  assert (En : nextBlock (3 + length (buf s')) s' = nextBlock (3 + length (buf s')) (fresh s')).
  { rewrite Es' at 1 2 3. cbn [buf]. unfold fresh. rewrite Eb. exact HS. }
  rewrite En. reflexivity.
Qed.

Lemma rootEqb_eq a b : rootEqb a b = true -> a = b.
Proof.
  unfold rootEqb. intros H. repeat (apply andb_true_iff in H; destruct H as [H ?]).
  destruct a as [a1 a2 a3 a4 a5], b as [b1 b2 b3 b4 b5]. cbn [rb_line rb_start rb_end rb_src rb_blk] in *.
  repeat match goal with X : (_ =? _) = true |- _ => apply Z.eqb_eq in X end.
  match goal with X : zsEqb _ _ = true |- _ => apply zsEqb_eq in X end. match goal with X : blockEqb _ _ = true |- _ => apply blockEqb_eq in X end.
  subst. reflexivity.
Qed.
Lemma stEqb_eq a b : stEqb a b = true -> a = b.
Proof.
  unfold stEqb. intros H. repeat (apply andb_true_iff in H; destruct H as [H ?]).
  destruct a as [a1 a2 a3 a4 a5], b as [b1 b2 b3 b4 b5]. cbn [buf bi boff bline pending] in *.
  repeat match goal with X : (_ =? _) = true |- _ => apply Z.eqb_eq in X end. apply zsEqb_eq in H.
  match goal with X : blocksEqb _ _ = true |- _ => apply blocksEqb_eq in X end.
  subst. reflexivity.
Qed.
Lemma resync_sound s' : resync s' = true -> forall f acc, allBlocks f s' acc = allBlocks f (fresh s') acc.
Proof.
  unfold resync. intros H f acc. destruct (pending s'); [discriminate|].
  destruct f as [|f]; [reflexivity|]. cbn [allBlocks]. change (buf (fresh s')) with (buf s').
  destruct (nextBlock (3 + length (buf s')) s') as [r1 t1| | |]; try discriminate.
  destruct (nextBlock (3 + length (buf s')) (fresh s')) as [r2 t2| | |]; try discriminate.
  apply andb_true_iff in H. destruct H as [H1 H2]. apply rootEqb_eq in H1. apply stEqb_eq in H2. subst. reflexivity.
Qed.
Lemma sw_sound_g rs s s' : noNul (buf s) -> sw rs s s' = true -> forall f acc, allBlocks f s' acc = allBlocks f (fresh s') acc.
Proof.
  intros HN H. unfold sw in H. apply orb_true_iff in H. destruct H as [H|H]; [apply (sw_sound s s' HN H)|].
  apply andb_true_iff in H. apply resync_sound, H.
Qed.

(* ---- the invariant of the walk ---- *)
Definition WInv (s : bpst) : Prop := DI s /\ noNul (buf s).
Lemma WInv_step s r s' : WInv s -> nextBlock (3 + length (buf s)) s = NBBlock r s' -> WInv s'.
Proof.
  intros [HD HN] En. pose proof (nextBlock_total s HD) as H. rewrite En in H. cbn [okNB2] in H. split; [apply H|].
  destruct (nextBlock_suffix _ _ _ _ En) as (k & ->). apply noNul_from, HN.
Qed.
Lemma WInv_fresh s : noNul (buf s) -> WInv (fresh s).
Proof.
  intros HN. split; [|exact HN]. split; [exists true; unfold SI, fresh; cbn [buf bi pending]; assert (0 <= len (buf s)) by (unfold len; lia); repeat split; try lia|].
  split; [reflexivity|]. split; [exact Logic.I|]. intros pre c E. cbn [pending fresh] in E. destruct pre; discriminate.
Qed.
Lemma WInv_next rs s r s' : WInv s -> nextBlock (3 + length (buf s)) s = NBBlock r s' -> WInv (if sw rs s s' then fresh s' else s').
Proof. intros H En. pose proof (WInv_step s r s' H En) as H'. destruct (sw rs s s'); [apply WInv_fresh, H'|exact H']. Qed.

Lemma walk_roots rs : forall f s acc, WInv s -> fst (allBlocks f s acc) = acc ++ map fst (walk rs f s).
Proof.
  induction f as [|f IH]; intros s acc HW; [cbn; rewrite app_nil_r; reflexivity|]. cbn [allBlocks walk].
  destruct (nextBlock (3 + length (buf s)) s) as [r s'|s'| |k] eqn:En; cbn [fst map]; try (rewrite app_nil_r; reflexivity).
  pose proof (WInv_next rs s r s' HW En) as HW'.
  assert (E : allBlocks f s' (acc ++ [r]) = allBlocks f (if sw rs s s' then fresh s' else s') (acc ++ [r])).
  { destruct (sw rs s s') eqn:Es; [apply (sw_sound_g rs s s' (proj2 HW) Es)|reflexivity]. }
  rewrite E, (IH _ _ HW'), <- app_assoc. reflexivity.
Qed.

Lemma walk_C16 rs : forall f s, WInv s -> forall r, In (r, true) (walk rs f s) -> C16P r.
Proof.
  induction f as [|f IH]; intros s HW r Hin; [destruct Hin|]. cbn [walk] in Hin.
  destruct (nextBlock (3 + length (buf s)) s) as [r0 s'|s'| |k] eqn:En; try (exfalso; exact Hin).
  destruct Hin as [E|Hin].
  - inversion E as [[E1 E2]]. subst r0. apply orb_true_iff in E2. destruct E2 as [E2|E2].
    + apply (clean_sound s r s' (proj1 HW) (proj2 HW) En E2).
    + apply (lc_sound s r (proj2 HW) E2).
  - apply (IH _ (WInv_next rs s r0 s' HW En) r Hin).
Qed.

Lemma WInv_init input : noNul input -> WInv (st0 (pad input)).
Proof. intros HN. split; [apply DI_init|]. cbn [buf st0]. rewrite (pad_noNul input HN). exact HN. Qed.

(* the walk lists exactly the roots of the parse *)
Theorem walk_parseBlocks rs input : noNul input -> map fst (walk rs (S (length (pad input))) (st0 (pad input))) = fst (parseBlocks input).
Proof. intros HN. rewrite parseBlocks_st0, (walk_roots rs _ _ [] (WInv_init input HN)). reflexivity. Qed.

Theorem C16_blocks_gen rs : forall input, noNul input -> forall r, In r (fst (parseBlocks input)) -> coveredG rs input r = true ->
  exists r', parseBlocks (rb_src r) = ([r'], 0) /\ aloneOf r' = aloneOf r.
Proof.
  intros input HN r _ Hc. unfold coveredG in Hc. apply existsb_exists in Hc. destruct Hc as ([r0 b] & Hin & Hx). cbn [fst snd] in Hx.
  apply andb_true_iff in Hx. destruct Hx as [Hx Hb]. apply andb_true_iff in Hx. destruct Hx as [Hflag Hs]. subst b.
  apply zsEqb_eq in Hs. apply blockEqb_eq in Hb.
  destruct (walk_C16 rs _ _ (WInv_init input HN) r0 Hin) as (r' & H1 & H2).
  exists r'. split; [rewrite <- Hs; exact H1|]. rewrite H2. unfold aloneOf. rewrite Hs, Hb. reflexivity.
Qed.
Theorem C16_blocks_partial : forall input, noNul input -> forall r, In r (fst (parseBlocks input)) -> covered input r = true ->
  exists r', parseBlocks (rb_src r) = ([r'], 0) /\ aloneOf r' = aloneOf r.
Proof. exact (C16_blocks_gen false). Qed.
Print Assumptions C16_blocks_partial.
(* the same with the computed re-synchronisation as a fallback *)
Theorem C16_blocks_resync_partial : forall input, noNul input -> forall r, In r (fst (parseBlocks input)) -> coveredR input r = true ->
  exists r', parseBlocks (rb_src r) = ([r'], 0) /\ aloneOf r' = aloneOf r.
Proof. exact (C16_blocks_gen true). Qed.
Print Assumptions C16_blocks_resync_partial.
Print Assumptions walk_parseBlocks.
