From Coq Require Import List ZArith Lia Bool.
Import ListNotations.
Require Import Base Tree Rdr Link Collect Html Recog LP Rules Starts Driver L2Kind L2CC BSDef BSRdr BSTree BSOcp BSOrph BSClose BSLine1 BSLine2 BSLine3 BSLine4 BSLine5 BSLine7 BSLine8 BSLine9
  GramTree GramLP GramLP2 Cursor CursorX NoPanic12 ShDef ShRdr ShClose ShEnv ShLine1 ShLine2 ShFresh ShStarts2.
Require Import ShapesBase EntBase EntOcpDefs EntOcp En2Tree EntCur En2LP1 En2LP2 En2LP3 En2LP4 En2LP5.
Open Scope Z_scope.

(* ================================================================================================
   T28, part 9: openNewBlocks.  FIN is what addLineText needs when it appends a line to an existing paragraph:
   the rest of the line is not blank and only prefix bytes were consumed before it.
   ================================================================================================ *)
Definition FIN (p : lp) : Prop := containerKind p = ParagraphKind -> isRestBlank p = false /\ clean p.

Lemma blockStarts_oke B : Forall (startOKe B) blockStarts.
Proof.
  unfold blockStarts.
  apply Forall_cons; [apply sOKe_startBlockQuote|]. apply Forall_cons; [apply sOKe_startATX|]. apply Forall_cons; [apply sOKe_startFenced|].
  apply Forall_cons; [apply sOKe_startHTML|]. apply Forall_cons; [apply sOKe_startSetext|]. apply Forall_cons; [apply sOKe_startThematic|].
  apply Forall_cons; [apply sOKe_startListItem|]. apply Forall_cons; [apply sOKe_startIndented|]. apply Forall_nil.
Qed.

Lemma tryStarts_ent B : forall fs p, Forall (startOKe B) fs -> EP B p -> Rr p -> FIN p ->
  EP B (snd (tryStarts fs p)) /\
  (fst (tryStarts fs p) = false -> Rr (snd (tryStarts fs p)) /\ FIN (snd (tryStarts fs p))) /\
  (fst (tryStarts fs p) = true ->
     (state (snd (tryStarts fs p)) = stLineConsumed \/ Rr (snd (tryStarts fs p))) /\ containerKind (snd (tryStarts fs p)) <> ParagraphKind).
Proof.
  induction fs as [|f r IH]; intros p Hf HE HR HF.
  { cbn [tryStarts fst snd]. split; [exact HE|]. split; [tauto|discriminate]. }
  inversion Hf as [|? ? Hf1 Hfr]; subst. cbn [tryStarts]. cbv zeta.
  set (q := withState p stOpening).
  assert (Hq : EP B q) by (apply EP_withState, HE).
  assert (Rq : Rr q) by exact HR. assert (Fq : FIN q) by exact HF. assert (Sq : st_open q) by (left; reflexivity).
  destruct (Hf1 q Hq Sq Rq) as [Eid|(S1 & S2 & S3 & S4)].
  - rewrite Eid. change (state q) with stOpening. cbn [Z.eqb orb]. apply IH; assumption.
  - replace ((state (f q) =? stOpenMatched) || (state (f q) =? stLineConsumed)) with true
      by (destruct S4 as [E|E]; rewrite E; reflexivity).
    cbn [fst snd]. split; [exact S1|]. split; [discriminate|]. intros _. split; assumption.
Qed.

Lemma opening_loop_ent B : forall fuel p, EP B p -> Rr p -> FIN p ->
  EP B (snd (opening_loop fuel p)) /\ (fst (opening_loop fuel p) = true -> Rr (snd (opening_loop fuel p)) /\ FIN (snd (opening_loop fuel p))).
Proof.
  induction fuel as [|f IH]; intros p HE HR HF; [cbn [opening_loop fst snd]; tauto|]. cbn [opening_loop].
  destruct (_ || _); [|cbn [fst snd]; tauto].
  destruct (tryStarts_ent B blockStarts p (blockStarts_oke B) HE HR HF) as (T1 & T2 & T3).
  destruct (tryStarts blockStarts p) as [[|] p1]; cbn [fst snd] in *.
  - destruct (T3 eq_refl) as [T4 T5].
    destruct (Z.eqb_spec (state p1) stLineConsumed) as [E|N]; [cbn [fst snd]; split; [exact T1|discriminate]|].
    apply IH; [exact T1|destruct T4 as [T4|T4]; [contradiction|exact T4]|intros Ek; contradiction].
  - split; [exact T1|intros _; apply T2; reflexivity].
Qed.

Lemma deferredClose_ent B p : EP B p -> Rr p -> FIN p -> bend (root p) < 0 ->
  EP B (deferredClose p) /\ FIN (deferredClose p).
Proof.
  intros HE HR HF Ro. pose proof HE as (A & A1 & A2 & A3 & A4). unfold deferredClose. cbv zeta.
  set (tipD := tipDepth (bheight (root p)) (root p)).
  destruct (negb (isRestBlank p) && match getAt tipD (root p) with Some t => bkind t =? ParagraphKind | None => false end) eqn:Ec.
  - apply andb_true_iff in Ec. destruct Ec as [Eb Ec]. destruct (getAt tipD (root p)) as [t|] eqn:Et; [|discriminate]. apply Z.eqb_eq in Ec.
    apply negb_true_iff in Eb.
    split; [apply EP_withCont; [exact HE|eauto]|]. intros _. split; [exact Eb|].
    change (clean p). apply HR. exists tipD, t. split; [exact Et|]. split; [exact Ec|].
    intros j x Hj Ex. apply (tip_open (bheight (root p)) (root p) Ro j x Hj Ex).
  - destruct (EP_closeHere B p (lineStart p) HE ltac:(pose proof (len_nonneg (line p)); lia) (bdy_ls B p A)) as [H1 _]. split; [exact H1|].
    unfold FIN. rewrite containerKind_closeHere. exact HF.
Qed.

Lemma en_root_close B p : EP B p ->
  en B (lineStart p) (match closeBlock (bheight (root p)) (source p) (root p) (lineStart p) with b :: _ => b | [] => root p end).
Proof.
  intros (A & (A0 & _) & _ & _ & A4). destruct (src_of B p A) as (S1 & S2 & S3).
  pose proof (en_closeBlock B (lineStart p) (lineStart p + len (line p)) (source p) (lineStart p) S1 S2
                ltac:(pose proof (len_nonneg (line p)); lia) ltac:(lia) (bdy_ls B p A) (bdy_H B p A) (bheight (root p)) (root p) A4) as H.
  destruct (closeBlock _ _ _ _) as [|b r]; [exact A4|apply H].
Qed.

(* the tree after openNewBlocks satisfies the invariant; when text remains, EP and FIN hold *)
Lemma openNewBlocks_ent B p am : EP B p -> clean p -> paraNB p ->
  (am = false -> bend (root (snd (opening_loop (S (length (line p))) p))) < 0) ->
  en B (lineStart p) (root (snd (openNewBlocks p am))) /\
  (fst (openNewBlocks p am) = true -> EP B (snd (openNewBlocks p am)) /\ FIN (snd (openNewBlocks p am))).
Proof.
  intros HE Hcl Hnb Hro. unfold openNewBlocks. destruct (len (line p) =? 0).
  { cbn [fst snd root withCont withRoot setLP]. split; [apply en_root_close, HE|discriminate]. }
  assert (HR : Rr p) by (intros _; exact Hcl).
  assert (HF : FIN p) by (intros Ek; split; [apply Hnb, Ek|exact Hcl]).
  destruct (opening_loop_ent B (S (length (line p))) p HE HR HF) as [O1 O2].
  pose proof (env_opening_loop (S (length (line p))) p) as Ee.
  destruct (opening_loop (S (length (line p))) p) as [ht p1]. cbn [fst snd] in *.
  assert (E1 : lineStart p1 = lineStart p) by (destruct (env_parts _ _ Ee) as (_ & E & _); exact E).
  destruct am; cbn [fst snd].
  - split; [rewrite <- E1; apply O1|]. intros Et. split; [exact O1|apply O2, Et].
  - assert (Els : lineStart (deferredClose p1) = lineStart p1) by (destruct (env_parts _ _ (env_deferredClose p1)) as (_ & E & _); exact E).
    split.
    + (* the tree part does not need FIN *)
      unfold deferredClose. cbv zeta. destruct (_ && _); [rewrite <- E1; apply O1|].
      destruct (EP_closeHere B p1 (lineStart p1) O1 ltac:(pose proof (len_nonneg (line p1)); lia) (bdy_ls B p1 ltac:(apply O1))) as [H1 _].
      rewrite <- E1. apply H1.
    + intros Et. destruct (O2 Et) as [R1 F1]. apply deferredClose_ent; [exact O1|exact R1|exact F1|apply Hro; reflexivity].
Qed.
