From Coq Require Import List ZArith Lia Bool.
Import ListNotations.
Require Import Base Tables Utf8 Tree Rdr Link Collect Html Recog Inl3a Inl3b Inl3c Inl3d Inl3e Driver.
Require Import ShapesBase ShapesR ShapesCS ShapesHT ShapesA Leaf3e RdrBound.
Require Import IFBase IFLink IFCode IFTitle IFTokDef IFFrame IFTokAux IFTokRes.
Open Scope Z_scope.

(* ================================================================ C04 (2): the tokeniser loop makes progress at every step *)
Section Loop.
  Variable src : bytes.
  Variable U : list inline.
  Hypothesis HOK : spOK src U = true.
  Variables rf tf : nat.
  Hypothesis Hrf : len src + ibudget U < Z.of_nat rf.

  Notation d0 := (mkI 0 0 0).
  (* the loop invariant: source and entries fixed, the cursor is a valid index (or past the end), and the position is not
     before the start of the entry under the cursor *)
  Definition K (st : ist) (pos : Z) : Prop :=
    isrc st = src /\ unp st = U /\ 0 <= pos /\ 0 <= upos st /\
    (upos st < len U -> istart (nth (Z.to_nat (upos st)) U d0) <= pos).

  Lemma HW : spW src U = true. Proof. apply spOK_spW, HOK. Qed.

  Lemma K_ux st st' pos pos' : K st pos -> fr st st' -> ux st st' -> pos <= pos' -> K st' pos'.
  Proof.
    intros (A & B & C & D & E) [F1 F2] Hu Hp. unfold ux in Hu. unfold K. rewrite F1, F2, Hu.
    split; [exact A|]. split; [exact B|]. split; [lia|]. split; [exact D|]. intros L. specialize (E L). lia.
  Qed.
  (* after advanceTo st p the invariant holds for every position after p *)
  Lemma K_adv st X kind odi pos p pos' : K st pos -> fr st X -> ux st X -> upos st <= len U -> p <= pos' -> pos <= pos' ->
    K (finishLink (advanceTo X p) kind odi) pos'.
  Proof.
    intros (A & B & C & D & E) [F1 F2] Hu Hl Hp Hpp. unfold ux in Hu.
    destruct (fr_finishLink (advanceTo X p) kind odi) as [G1 G2]. destruct (fr_advanceTo X p) as [G3 G4].
    pose proof (ux_finishLink (advanceTo X p) kind odi) as G5. unfold ux in G5.
    destruct (advanceTo_facts X p d0 ltac:(rewrite F2, B, Hu; lia)) as [V1 V2]. rewrite F2, B in V2.
    unfold K. rewrite G1, G2, G3, G4, F1, F2, G5. split; [exact A|]. split; [exact B|]. split; [lia|]. split; [lia|].
    intros L. specialize (V2 L). apply spanHas_range in V2. lia.
  Qed.

  Lemma side st : unp st = U -> spW src (unpFrom st) = true /\ spOK src (unpFrom st) = true /\
    len src + ibudget (unpFrom st) < Z.of_nat rf.
  Proof.
    intros E. unfold unpFrom. rewrite E. split; [apply spW_from, HW|]. split; [apply spOK_from, HOK|].
    pose proof (ibudget_skipn (Z.to_nat (upos st)) U) as Hb. unfold from_. lia.
  Qed.

  Lemma parseEndBracketF_prog st start : K st start -> upos st < len U ->
    start < snd (parseEndBracketF rf tf st start) /\ K (fst (parseEndBracketF rf tf st start)) (snd (parseEndBracketF rf tf st start)).
  Proof.
    intros HK Hu. pose proof HK as (Es & Eu & Hp0 & Hu0 & Hk2). unfold parseEndBracketF. cbv zeta. rewrite Es.
    pose proof (fr_lookFor st) as F1. pose proof (ux_lookFor st) as X1.
    destruct (lookForLinkOrImage st) as [st1 odi]. cbn [fst] in F1, X1.
    assert (HK1 : K st1 start) by (eapply K_ux; [exact HK|exact F1|exact X1|lia]).
    pose proof HK1 as (Es1 & Eu1 & _ & Hu1 & _). assert (Hul1 : upos st1 < len U) by (unfold ux in X1; lia).
    destruct (odi <? 0).
    { cbn [fst snd]. split; [lia|]. eapply K_ux; [exact HK1|apply fr_addText|apply ux_addText|lia]. }
    assert (Hfail : forall p', start + 1 <= p' -> K (setStk (addText st1 start (start + 1)) (delStack (stk st1) odi (odi + 1))) p').
    { intros p' Hp'. eapply K_ux; [exact HK1| | |lia].
      - eapply fr_trans; [apply fr_addText|apply fr_setStk].
      - eapply ux_trans; [apply ux_addText|reflexivity]. }
    match goal with |- context [match ?X with Some _ => _ | None => _ end] => destruct X as [[[[[ispan dspan] dtext] tspan] ttext]|] eqn:Etry end.
    - assert (Hend : start + 3 <= snd ispan).
      { match type of Etry with (if ?c then _ else _) = _ => destruct c; [|discriminate] end.
        destruct (side st1 Eu1) as (S1 & _ & _).
        pose proof (pil_end src rf st1 (start + 1) _ Es1 S1 eq_refl) as He.
        destruct (parseInlineLink rf st1 (start + 1)) as [[is0 [ds0 dt0]] [ts0 tt0]]. cbn [fst snd] in He.
        destruct (spanValid is0) eqn:Ev; [|discriminate]. inversion Etry; subst. specialize (He eq_refl). lia. }
      clear Etry.
      match goal with |- context [wrap ?s ?k ?a ?b] => pose proof (fr_wrap s k a b) as Fw; pose proof (ux_wrap s k a b) as Xw;
        destruct (wrap s k a b) as [st2 lid]; cbn [fst] in Fw, Xw end.
      cbn [fst snd]. split; [lia|].
      destruct Fw as [Fw1 Fw2]. unfold ux in Xw.
      destruct (spanValid dspan); destruct (spanValid tspan);
        (eapply K_adv; [exact HK1| | |lia|lia|lia]); first [split; [exact Fw1|exact Fw2]|exact Xw].
    - clear Etry.
      match goal with |- context [match ?X with pair _ _ => _ end] => destruct X as [lspan linner] eqn:El end.
      match goal with |- _ < snd (if ?c then _ else _) /\ _ => destruct c end.
      + destruct (negb (matchRef _ _)); [cbn [fst snd]; split; [lia|apply Hfail; lia]|].
        match goal with |- context [wrap ?s ?k ?a ?b] => pose proof (fr_wrap s k a b) as Fw; pose proof (ux_wrap s k a b) as Xw;
          destruct (wrap s k a b) as [st2 lid]; cbn [fst] in Fw, Xw end.
        cbn [fst snd]. split; [lia|]. eapply K_ux; [exact HK1| | |lia].
        * eapply fr_trans; [|apply fr_finishLink]. destruct Fw as [Fw1 Fw2]. split; [exact Fw1|exact Fw2].
        * eapply ux_trans; [|apply ux_finishLink]. exact Xw.
      + destruct (spanValid lspan) eqn:Elv.
        * assert (Hend : start + 2 <= snd lspan).
          { match type of El with (if ?c then _ else _) = _ => destruct c; [|inversion El; subst; discriminate] end.
            destruct (side st1 Eu1) as (S1 & _ & _).
            pose proof (label_end src rf (newReader src (unpFrom st1) (start + 1)) (PL_new src _ _ S1)) as He.
            destruct (parseLinkLabel rf (newReader src (unpFrom st1) (start + 1))) as [[a b] r']. cbn [fst snd] in He.
            inversion El; subst. specialize (He Elv). cbn [newReader r_pos] in He. lia. }
          destruct (negb (matchRef _ _)); [cbn [fst snd]; split; [lia|apply Hfail; lia]|].
          match goal with |- context [wrap ?s ?k ?a ?b] => pose proof (fr_wrap s k a b) as Fw; pose proof (ux_wrap s k a b) as Xw;
            destruct (wrap s k a b) as [st2 lid]; cbn [fst] in Fw, Xw end.
          cbn [fst snd]. split; [lia|]. destruct Fw as [Fw1 Fw2]. unfold ux in Xw.
          eapply K_adv; [exact HK1| | |lia|lia|lia]; first [split; [exact Fw1|exact Fw2]|exact Xw].
        * destruct (negb (matchRef _ _)); [cbn [fst snd]; split; [lia|apply Hfail; lia]|].
          match goal with |- context [wrap ?s ?k ?a ?b] => pose proof (fr_wrap s k a b) as Fw; pose proof (ux_wrap s k a b) as Xw;
            destruct (wrap s k a b) as [st2 lid]; cbn [fst] in Fw, Xw end.
          cbn [fst snd]. split; [lia|]. eapply K_ux; [exact HK1| | |lia].
          -- eapply fr_trans; [|apply fr_finishLink]. destruct Fw as [Fw1 Fw2]. split; [exact Fw1|exact Fw2].
          -- eapply ux_trans; [|apply ux_finishLink]. exact Xw.
  Qed.

  (* ---- small facts about the non-reader scanners ---- *)
  Lemma hlb_rest_ge : forall l i, i <= fst (hlb_rest l i).
  Proof. induction l as [|c r IH]; intros i; cbn [hlb_rest]; [cbn; lia|]. destruct (_ || _ || _); [specialize (IH (i + 1)); lia|cbn; lia]. Qed.
  Lemma hlbs_single' x y : x <> 32 -> parseHardLineBreakSpace (32 :: x :: y) = (1, false).
  Proof.
    intros Hx. unfold parseHardLineBreakSpace.
    destruct x as [|p|p]; try reflexivity.
    do 6 (destruct p as [p|p|]; try reflexivity). all: try (exfalso; apply Hx; reflexivity).
  Qed.
  Lemma hlb_ge1 r : 1 <= fst (parseHardLineBreakSpace (32 :: r)).
  Proof.
    destruct r as [|x y]; [cbn; lia|]. destruct (Z.eq_dec x 32) as [->|N].
    - change (parseHardLineBreakSpace (32 :: 32 :: y)) with (hlb_rest y 2). pose proof (hlb_rest_ge y 2). lia.
    - rewrite (hlbs_single' x y N). cbn. lia.
  Qed.
  Lemma sub_head_at (s : bytes) pos lim : 0 <= pos -> pos < lim -> pos < len s -> exists r, sub s pos lim = at_ s pos :: r.
  Proof.
    intros H0 H1 H2. pose proof (len_sub s pos lim H0) as Hl. pose proof (at_sub s pos lim 0 H0 ltac:(lia) ltac:(lia)) as Ha.
    destruct (sub s pos lim) as [|c r]; [rewrite len_nil in Hl; lia|]. rewrite at_0 in Ha. replace (pos + 0) with pos in Ha by lia.
    exists r. rewrite Ha. reflexivity.
  Qed.
  Lemma eolRun_ge s lim : forall fuel e, e <= eolRun fuel s e lim.
  Proof. induction fuel as [|f IH]; intros e; cbn [eolRun]; [lia|]. destruct (_ && _); [specialize (IH (e + 1)); lia|lia]. Qed.

  Lemma upos_addText st a b : upos (addText st a b) = upos st. Proof. apply ux_addText. Qed.
  Lemma upos_addNode st k a b ks : upos (fst (addNode st k a b ks)) = upos st. Proof. apply ux_addNode. Qed.
  Ltac uxs := unfold ux; repeat (first [rewrite upos_addText | rewrite upos_addNode | progress cbn [upos setStk setIgn setRk]]); reflexivity.

  Lemma unpFrom_eq st st' : fr st st' -> ux st st' -> unpFrom st' = unpFrom st.
  Proof. intros [_ A] B. unfold unpFrom. unfold ux in B. rewrite A, B. reflexivity. Qed.

  Lemma K_adv0 st X pos p pos' : K st pos -> fr st X -> ux st X -> upos st <= len U -> p <= pos' -> pos <= pos' -> K (advanceTo X p) pos'.
  Proof.
    intros (A & B & C & D & E) [F1 F2] Hu Hl Hp Hpp. unfold ux in Hu.
    destruct (fr_advanceTo X p) as [G3 G4].
    destruct (advanceTo_facts X p d0 ltac:(rewrite F2, B, Hu; lia)) as [V1 V2]. rewrite F2, B in V2.
    unfold K. rewrite G3, G4, F1, F2. split; [exact A|]. split; [exact B|]. split; [lia|]. split; [lia|].
    intros L. specialize (V2 L). apply spanHas_range in V2. lia.
  Qed.

  Lemma istepF_prog st pos ps : K st pos -> upos st < len U -> pos < spanEnd st ->
    pos < snd (fst (istepF rf tf st pos ps)) /\ K (fst (fst (istepF rf tf st pos ps))) (snd (fst (istepF rf tf st pos ps))).
  Proof.
    intros HK Hu Hlim. pose proof HK as (Es & Eu & Hp0 & Hu0 & Hk2). specialize (Hk2 Hu).
    assert (HKa : forall q, K (addText st ps q) pos) by (intros q; eapply K_ux; [exact HK|apply fr_addText|apply ux_addText|lia]).
    set (u := nth (Z.to_nat (upos st)) U d0) in *.
    assert (Hin : In u U) by (apply nth_In_Z; lia).
    destruct (spOK_In src U u HOK Hin) as (Hu1 & Hu2 & Hu3).
    assert (Hse : spanEnd st = iend u) by (rewrite spanEnd_nth by (rewrite Eu; exact Hu); rewrite Eu; reflexivity).
    assert (HuF : unpFrom st = u :: from_ U (upos st + 1)) by (unfold unpFrom; rewrite Eu; apply from_nth; lia).
    destruct (side st Eu) as (S1 & S2 & S3).
    unfold istepF. cbv zeta. rewrite Es.
    destruct (_ || _).
    { pose proof (parseDelimiterRun_shape (addText st ps pos) pos) as (P1 & _). cbv zeta in P1.
      pose proof (fr_parseDelimiterRun (addText st ps pos) pos) as F. pose proof (ux_parseDelimiterRun (addText st ps pos) pos) as X.
      destruct (parseDelimiterRun _ pos) as [st1 e]. cbn [fst snd] in *. split; [lia|]. eapply K_ux; [apply (HKa pos)|exact F|exact X|lia]. }
    destruct (_ =? 91).
    { match goal with |- context [addNode ?s ?k ?a ?b ?c] => pose proof (fr_addNode s k a b c) as F; pose proof (ux_addNode s k a b c) as X;
        destruct (addNode s k a b c) as [st1 id]; cbn [fst] in F, X end.
      cbn [fst snd]. split; [lia|]. eapply K_ux; [apply (HKa pos)| | |lia]; [eapply fr_trans; [exact F|apply fr_setStk]|eapply ux_trans; [exact X|reflexivity]]. }
    destruct (_ =? 93).
    { destruct (parseEndBracketF_prog (addText st ps pos) pos (HKa pos) ltac:(rewrite upos_addText; exact Hu)) as [P1 P2].
      destruct (parseEndBracketF rf tf _ pos) as [st1 e]. cbn [fst snd] in *. split; assumption. }
    destruct (_ =? 33).
    { destruct (_ || _); [cbn [fst snd]; split; [lia|eapply K_ux; [exact HK|apply fr_refl|apply ux_refl|lia]]|].
      match goal with |- context [addNode ?s ?k ?a ?b ?c] => pose proof (fr_addNode s k a b c) as F; pose proof (ux_addNode s k a b c) as X;
        destruct (addNode s k a b c) as [st1 id]; cbn [fst] in F, X end.
      cbn [fst snd]. split; [lia|]. eapply K_ux; [apply (HKa pos)| | |lia]; [eapply fr_trans; [exact F|apply fr_setStk]|eapply ux_trans; [exact X|reflexivity]]. }
    destruct (Z.eqb_spec (at_ src pos) 32) as [E32|_].
    { destruct (sub_head_at src pos (spanEnd st) Hp0 Hlim ltac:(lia)) as (r & Er). rewrite Er, E32. pose proof (hlb_ge1 r) as Hge.
      destruct (parseHardLineBreakSpace (32 :: r)) as [e ok]. cbn [fst] in Hge.
      destruct (_ && _); cbn [fst snd]; (split; [lia|]).
      - eapply K_ux; [exact HK| | |lia]; [repeat frs|uxs].
      - eapply K_ux; [exact HK|apply fr_refl|apply ux_refl|lia]. }
    destruct (Z.eqb_spec (at_ src pos) 96) as [E96|_].
    { assert (Hrf0 : (0 < rf)%nat) by (pose proof (len_nonneg src); pose proof (ibudget_nonneg U); lia).
      pose proof (parseCodeSpan_cS rf st pos u _ Hrf0 HuF ltac:(rewrite Es, <- HuF; exact S2) ltac:(lia) ltac:(rewrite Es; exact E96)) as HcS.
      pose proof (parseCodeSpan_shape rf st pos) as Hsh. pose proof (parseCodeSpan_cE_in rf st pos) as Hcin.
      destruct (parseCodeSpan rf st pos) as [[cS cE] sE]. cbn [fst] in HcS.
      destruct (Z.leb_spec 0 sE) as [L|L]; cbn [fst snd].
      - destruct (Hsh cS cE sE ltac:(rewrite Es; exact S2) ltac:(rewrite Es; lia) eq_refl L) as (n & N1 & N2 & N3 & N4 & _).
        destruct (Hcin cS cE sE ltac:(rewrite Es; exact S2) eq_refl L) as (node & Nin & Nh).
        split; [lia|].
        pose proof (fr_collectCodeSpan (addText st ps pos) pos sE cS cE) as [C1 C2].
        pose proof (collectCodeSpan_upos (addText st ps pos) pos sE cS cE) as Cu.
        rewrite (unpFrom_eq st (addText st ps pos) (fr_addText _ _ _) (ux_addText _ _ _)) in Cu. rewrite upos_addText in Cu.
        pose proof (nodeIdx_found src (unpFrom st) node cE 0 S1 Nin Nh ltac:(lia)) as Hnc. fold (nodeIndexForPosition (unpFrom st) cE) in Hnc.
        destruct (fr_addText st ps pos) as [A1 A2].
        unfold K. rewrite C1, C2, A1, A2. split; [exact Es|]. split; [exact Eu|]. split; [lia|].
        destruct (Z.eqb_spec (nodeIndexForPosition (unpFrom st) cE) 0) as [E0|E0].
        + rewrite Cu. split; [lia|]. intros _. fold u. lia.
        + rewrite Cu. destruct (nodeIdx_unpFrom st cE d0 Hu0 Hnc) as [Q1 Q2]. rewrite Eu in Q1, Q2.
          replace (upos st + Z.of_nat (Z.to_nat (nodeIndexForPosition (unpFrom st) cE - 1)) + 1) with (upos st + nodeIndexForPosition (unpFrom st) cE) by lia.
          split; [lia|]. intros _. apply spanHas_range in Q2. lia.
      - split; [lia|]. eapply K_ux; [exact HK|apply fr_refl|apply ux_refl|lia]. }
    destruct (_ =? 60).
    { pose proof (parseAutolink_shape (sub src pos (spanEnd st))) as Hal.
      destruct (Z.leb_spec 0 (parseAutolink (sub src pos (spanEnd st)))) as [L|L].
      - destruct (Hal _ eq_refl L) as (_ & _ & (Q & _) & _). cbn [fst snd]. split; [lia|].
        eapply K_ux; [exact HK| | |lia]; [repeat frs|uxs].
      - pose proof (parseHTMLTag_shape rf (newReader src (unpFrom st) pos)) as Hht. cbn [newReader r_src r_spans r_pos] in Hht.
        destruct (parseHTMLTag rf (newReader src (unpFrom st) pos)) as [ts te].
        destruct (spanValid (ts, te)) eqn:Ev; cbn [negb fst snd].
        + destruct (Hht ts te S2 eq_refl Ev) as (T1 & _ & _ & T2 & _). subst ts. split; [lia|].
          eapply K_adv0; [exact HK| | |lia|lia|lia]; [repeat frs|uxs].
        + split; [lia|]. eapply K_ux; [exact HK|apply fr_refl|apply ux_refl|lia]. }
    destruct (_ =? 92).
    { pose proof (fr_parseBackslash (addText st ps pos) pos) as F. pose proof (ux_parseBackslash (addText st ps pos) pos) as X.
      assert (Hb : pos + 1 <= snd (parseBackslash (addText st ps pos) pos)).
      { unfold parseBackslash. cbv zeta. destruct (_ || _ || _).
        - destruct (isLastSpan _); cbn [snd]; [lia|]. apply eolRun_ge.
        - destruct (isASCIIPunctuation _); cbn [snd]; lia. }
      destruct (parseBackslash _ pos) as [st1 e]. cbn [fst snd] in *. split; [lia|]. eapply K_ux; [apply (HKa pos)|exact F|exact X|lia]. }
    destruct (_ =? 38).
    { pose proof (parseCharacterEscape_shape (sub src pos (spanEnd st))) as Hce.
      destruct (Z.ltb_spec (parseCharacterEscape (sub src pos (spanEnd st))) 0) as [L|L]; cbn [fst snd].
      - split; [lia|]. eapply K_ux; [exact HK|apply fr_refl|apply ux_refl|lia].
      - destruct (Hce _ eq_refl L) as (_ & _ & Q & _). split; [lia|]. eapply K_ux; [exact HK| | |lia]; [repeat frs|uxs]. }
    destruct (_ =? 10).
    { cbn [fst snd]. split; [lia|]. eapply K_ux; [exact HK| | |lia]; [repeat frs|destruct (negb _); uxs]. }
    destruct (_ =? 13).
    { cbn [fst snd]. match goal with |- context [if ?c then 2 else 1] => destruct c end;
      (split; [lia|]; eapply K_ux; [exact HK| | |lia]; [repeat frs|destruct (negb _); uxs]). }
    cbn [fst snd]. split; [lia|]. eapply K_ux; [exact HK|apply fr_refl|apply ux_refl|lia].
  Qed.
End Loop.
