From Coq Require Import List ZArith Lia Bool.
Import ListNotations.
Require Import Base Tree Rdr Link Collect Html Recog LP Rules Starts Driver.
Open Scope Z_scope.

(* C01, ordering clause: the root blocks come out in source order with non-overlapping [start, end) ranges *)
Lemma nullCount_bounds l : 0 <= nullCount l <= len l.
Proof.
  induction l as [|b r IH]; [unfold len; cbn; lia|]. cbn [nullCount]. unfold len in *. cbn [length].
  destruct (b =? 0); lia.
Qed.
Lemma unpadded_nonneg l : 0 <= unpadded l.
Proof.
  unfold unpadded. pose proof (nullCount_bounds l) as [A B].
  assert (nullCount l / 3 * 3 <= nullCount l) by (pose proof (Z.mul_div_le (nullCount l) 3 ltac:(lia)); lia).
  assert (0 <= nullCount l / 3) by (apply Z.div_pos; lia). lia.
Qed.

Definition rangeOK (r : rootB) : Prop := rb_start r <= rb_end r.
Fixpoint ordered (lo : Z) (l : list rootB) : Prop :=
  match l with [] => True | r :: rest => lo <= rb_start r /\ rb_start r <= rb_end r /\ ordered (rb_end r) rest end.
Fixpoint lastEnd (lo : Z) (l : list rootB) : Z := match l with [] => lo | r :: rest => lastEnd (rb_end r) rest end.
Lemma ordered_app lo a b : ordered lo a -> ordered (lastEnd lo a) b -> ordered lo (a ++ b).
Proof. revert lo. induction a as [|r a IH]; intros lo Ha Hb; [exact Hb|]. cbn [app ordered lastEnd] in *. destruct Ha as (A & B & C). repeat split; try assumption. apply IH; assumption. Qed.
Lemma lastEnd_app lo a b : lastEnd lo (a ++ b) = lastEnd (lastEnd lo a) b.
Proof. revert lo. induction a as [|r a IH]; intros lo; [reflexivity|]. cbn [app lastEnd]. apply IH. Qed.
Lemma ordered_weaken lo lo' l : lo' <= lo -> ordered lo l -> ordered lo' l.
Proof. destruct l as [|r l]; [tauto|]. cbn [ordered]. intros H (A & B & C). repeat split; try assumption; lia. Qed.

Definition nbR (lo : Z) (x : nb) : Prop :=
  match x with NBBlock r s' => lo <= rb_start r /\ rb_start r <= rb_end r /\ rb_end r <= boff s' | _ => True end.

Lemma makeRoot_range children s r s' : makeRoot children s = Some (r, s') -> rb_start r = boff s /\ rb_start r <= rb_end r /\ boff s' = rb_end r.
Proof.
  unfold makeRoot. destruct children as [|b rest]; [discriminate|]. destruct (isOpen b); [discriminate|]. intros E. inversion E; subst.
  cbn [rb_start rb_end boff]. pose proof (unpadded_nonneg (upto (buf s) (bend b))). repeat split; lia.
Qed.
Lemma lineLoop_range : forall fuel st children ls s, nbR (boff s) (lineLoop fuel st children ls s).
Proof.
  induction fuel as [|f IH]; intros st children ls s; [exact I|]. cbn [lineLoop].
  destruct (processLine st children ls (upto (buf s) (bi s))) as [[children' st'] pn].
  destruct (negb (pn =? 0)); [exact I|].
  destruct (makeRoot children' s) as [[r s']|] eqn:Em.
  - destruct (makeRoot_range _ _ _ _ Em) as (A & B & C). cbn [nbR]. lia.
  - apply (IH st' children' (bi s) {| buf := buf s; bi := lineEnd (buf s) (bi s); boff := boff s; bline := bline s; pending := pending s |}).
Qed.
Lemma nbR_weaken lo lo' x : lo' <= lo -> nbR lo x -> nbR lo' x.
Proof. destruct x; cbn [nbR]; try tauto. intros H (A & B & C). lia. Qed.
Lemma skipLoop_range : forall fuel s, nbR (boff s) (skipLoop fuel s).
Proof.
  induction fuel as [|f IH]; intros s; [exact I|]. cbn [skipLoop]. cbv zeta.
  destruct (negb _); [exact I|]. destruct (isBlankLine _).
  - eapply nbR_weaken; [|apply IH]. cbn [boff]. pose proof (unpadded_nonneg (upto (buf s) (lineEnd (buf s) (bi s)))). lia.
  - apply (lineLoop_range f 0 [] 0 {| buf := buf s; bi := lineEnd (buf s) (bi s); boff := boff s; bline := bline s; pending := pending s |}).
Qed.
Lemma nextBlock_range fuel s : nbR (boff s) (nextBlock fuel s).
Proof.
  unfold nextBlock. destruct (makeRoot (pending s) s) as [[r s']|] eqn:Em.
  - destruct (makeRoot_range _ _ _ _ Em) as (A & B & C). cbn [nbR]. lia.
  - destruct (pending s).
    + eapply nbR_weaken; [|apply skipLoop_range]. cbn [boff]. pose proof (unpadded_nonneg (upto (buf s) (bi s))). lia.
    + exact (lineLoop_range fuel 0 _ (bi s) _).
Qed.
Lemma allBlocks_ordered : forall fuel s acc lo, ordered lo acc -> lastEnd lo acc <= boff s -> ordered lo (fst (allBlocks fuel s acc)).
Proof.
  induction fuel as [|f IH]; intros s acc lo Ha Hl; [exact Ha|]. cbn [allBlocks].
  pose proof (nextBlock_range (3 + length (buf s)) s) as Hn.
  destruct (nextBlock _ s) as [r s'| | |]; try exact Ha.
  destruct Hn as (A & B & C). apply IH.
  - apply ordered_app; [exact Ha|]. cbn [ordered]. repeat split; try lia.
  - rewrite lastEnd_app. cbn [lastEnd]. exact C.
Qed.
Theorem C01_ordered input : ordered 0 (fst (parseBlocks input)).
Proof. unfold parseBlocks. apply allBlocks_ordered; [exact I|cbn; lia]. Qed.
Print Assumptions C01_ordered.
